import GnarkVerif.Proofs.ArgPairingParam
import GnarkVerif.Proofs.ArgPairingFf
/-
C17 (pairing-based half) — argument-system verifiers accept honest proofs and reject well-formed forgeries.

Theorems about the executable models of Model/ArgPairing.lean (tie to the Go code = correspondence K, ops `C17 <scheme> …`).
Everything is stated for EVERY dictionary `F` with a lawful denotation `φ` into a field `K` — in particular for the
dictionary `fp r` the driver runs, with `φ = Nat.cast : ℕ → ZMod r`, for every prime `r > 2` (`lawful_fp`; corollaries
`*_fp`) — and for every size of every list (bases, values, batches, polynomials, point sets): unbounded.

Known-trapdoor exponent model (DESIGN §3 C11/C17): a group element is its discrete logarithm, a pairing-product check is
`Σ aᵢ·bᵢ = 0`, an SRS is `(1, τ, τ², …)`, Fiat–Shamir challenges are parameters. "Exact acceptance" is exact in this model.
-/
namespace GV.ArgPairing
open GV GV.Alg

/-! ## 1. Pedersen -/
section pedersen
variable {α K : Type} [Field K] [DecidableEq K] {F : FOps α} {φ : α → K} (h : Lawful F φ)
include h

/-- EXACT ACCEPTANCE of `VerifyingKey.Verify` for an arbitrary key: `e(C, GSigmaNeg)·e(pok, G) = 1`. -/
theorem C17a_ped_verify_iff (vk : PedVk α) (C pok : α) :
    pedVerify F vk C pok = true ↔ φ C * φ vk.GSigmaNeg + φ pok * φ vk.G = 0 := by
  unfold pedVerify
  rw [pairingCheck_map h, pairingCheck_iff]
  simp [dot]

/-- EXACT ACCEPTANCE for a key produced by `Setup` (`G = [g]G2`, `g ≠ 0`, toxic scalar σ):
the verifier accepts exactly the pairs with `pok = σ·C`. -/
theorem C17a_ped_verify_honest_iff (g σ : α) (bases : List (List α)) (hg : φ g ≠ 0) (C pok : α) :
    pedVerify F (pedSetup F g σ bases).2 C pok = true ↔ φ pok = φ σ * φ C := by
  rw [C17a_ped_verify_iff h]
  simp only [pedSetup, h.neg, h.mul]
  constructor
  · intro e
    have : φ g * (φ pok - φ σ * φ C) = 0 := by linear_combination e
    rcases mul_eq_zero.mp this with h0 | h0
    · exact absurd h0 hg
    · exact sub_eq_zero.mp h0
  · intro e; rw [e]; ring

/-- what the prover outputs: `Commit` is the dot product with the basis, `ProveKnowledge` is σ times it -/
theorem C17a_ped_prove_eq (g σ : α) (bases : List (List α)) (pk : PedPk α) (hpk : pk ∈ (pedSetup F g σ bases).1)
    (v : List α) (hl : v.length = pk.basis.length) :
    ∃ C pok, pedCommit F pk v = some C ∧ pedProve F pk v = some pok ∧
      φ C = dot (ofField K) (pk.basis.map φ) (v.map φ) ∧ φ pok = φ σ * φ C := by
  simp only [pedSetup, List.mem_map] at hpk
  obtain ⟨b, _, rfl⟩ := hpk
  have hl' : v.length = b.length := hl
  refine ⟨dot F b v, dot F (b.map (fun x => F.mul σ x)) v, by simp [pedCommit, hl'], by simp [pedProve, hl'],
    dot_map h _ _, ?_⟩
  rw [dot_map h, dot_map h, List.map_map]
  have : (φ ∘ fun x => F.mul σ x) = (fun x => φ σ * x) ∘ φ := by funext x; simp [h.mul]
  rw [this, ← List.map_map, dot_map_mul_left]

/-- COMPLETENESS: for every G2 point, every σ, every list of bases, every value vector of the right length, the proof
of knowledge produced by `ProveKnowledge` for the commitment produced by `Commit` verifies. -/
theorem C17a_ped_complete (g σ : α) (bases : List (List α)) (pk : PedPk α) (hpk : pk ∈ (pedSetup F g σ bases).1)
    (v : List α) (hl : v.length = pk.basis.length) :
    ∃ C pok, pedCommit F pk v = some C ∧ pedProve F pk v = some pok ∧
      pedVerify F (pedSetup F g σ bases).2 C pok = true := by
  obtain ⟨C, pok, hC, hP, _, e⟩ := C17a_ped_prove_eq h g σ bases pk hpk v hl
  refine ⟨C, pok, hC, hP, ?_⟩
  rw [C17a_ped_verify_iff h]
  simp only [pedSetup, h.neg, h.mul, e]; ring

/-- NECESSITY (proof of knowledge): with an accepted pair, any other `pok'` is rejected. -/
theorem C17a_ped_pok_necessary (g σ : α) (bases : List (List α)) (hg : φ g ≠ 0) (C pok pok' : α)
    (hacc : pedVerify F (pedSetup F g σ bases).2 C pok = true) (hne : φ pok' ≠ φ pok) :
    pedVerify F (pedSetup F g σ bases).2 C pok' = false := by
  rw [C17a_ped_verify_honest_iff h g σ bases hg] at hacc
  rw [Bool.eq_false_iff, Ne, C17a_ped_verify_honest_iff h g σ bases hg]
  intro e; exact hne (e.trans hacc.symm)

/-- NECESSITY (commitment): with an accepted pair and `σ ≠ 0`, any other commitment `C'` is rejected. -/
theorem C17a_ped_commitment_necessary (g σ : α) (bases : List (List α)) (hg : φ g ≠ 0) (hσ : φ σ ≠ 0) (C C' pok : α)
    (hacc : pedVerify F (pedSetup F g σ bases).2 C pok = true) (hne : φ C' ≠ φ C) :
    pedVerify F (pedSetup F g σ bases).2 C' pok = false := by
  rw [C17a_ped_verify_honest_iff h g σ bases hg] at hacc
  rw [Bool.eq_false_iff, Ne, C17a_ped_verify_honest_iff h g σ bases hg]
  intro e
  exact hne (mul_left_cancel₀ hσ (e.symm.trans hacc))

theorem ped_pairing (vk0 : PedVk α) (vks : List (PedVk α)) (cs poks : List α) (r : α)
    (hl : cs.length = vks.length + 1) :
    pairingCheck F (scaleByPowers F cs r F.one ++ [fold F poks r]) ((vk0 :: vks).map (·.GSigmaNeg) ++ [vk0.G]) = true ↔
      dot (ofField K) (powersFrom (ofField K) (φ r) cs.length 1)
          (List.zipWith (· * ·) (cs.map φ) ((vk0 :: vks).map (fun vk => φ vk.GSigmaNeg)))
        + fold (ofField K) (poks.map φ) (φ r) * φ vk0.G = 0 := by
  rw [pairingCheck_map h, pairingCheck_iff, List.map_append, List.map_append,
    dot_append _ _ _ _ (by simp [scaleByPowers_length, hl]), scaleByPowers_map h,
    dot_scaleByPowers, h.one, List.map_map]
  simp [fold_map h, dot, Function.comp_def]

/-- EXACT ACCEPTANCE of `BatchVerifyMultiVk` (non-empty batch): the length conditions, equal `G` in all keys, and
`Σᵢ rⁱ·Cᵢ·GSigmaNegᵢ + (Σⱼ rʲ·pokⱼ)·G₀ = 0` with the combination coefficient `r`. -/
theorem C17a_ped_batch_iff (vk0 : PedVk α) (vks : List (PedVk α)) (cs poks : List α) (r : α) :
    pedBatchVerify F (vk0 :: vks) cs poks r = some true ↔
      cs.length = vks.length + 1 ∧ (poks.length = vks.length + 1 ∨ poks.length = 1) ∧
      (∀ vk ∈ vks, φ vk.G = φ vk0.G) ∧
      dot (ofField K) (powersFrom (ofField K) (φ r) cs.length 1)
          (List.zipWith (· * ·) (cs.map φ) ((vk0 :: vks).map (fun vk => φ vk.GSigmaNeg)))
        + fold (ofField K) (poks.map φ) (φ r) * φ vk0.G = 0 := by
  have hany : (vk0 :: vks).any (fun vk => !(F.beq vk.G vk0.G)) = true ↔ ¬ ∀ vk ∈ vks, φ vk.G = φ vk0.G := by
    have h0 : F.beq vk0.G vk0.G = true := (h.beq _ _).2 rfl
    rw [List.any_cons, h0]
    simp only [Bool.not_true, Bool.false_or, List.any_eq_true, Bool.not_eq_true', not_forall]
    constructor
    · rintro ⟨vk, hm, hb⟩
      exact ⟨vk, hm, fun e => by rw [(h.beq _ _).2 e] at hb; exact Bool.noConfusion hb⟩
    · rintro ⟨vk, hm, hb⟩
      exact ⟨vk, hm, by rw [Bool.eq_false_iff, Ne, h.beq]; exact hb⟩
  unfold pedBatchVerify
  simp only [List.length_cons]
  split_ifs with c1 c2 c3
  · exact ⟨fun e => (by cases e), fun ⟨a, _, _, _⟩ => absurd a c1⟩
  · exact ⟨fun e => (by cases e), fun ⟨_, b, _, _⟩ => by omega⟩
  · exact ⟨fun e => (by cases e), fun ⟨_, _, c, _⟩ => absurd c (hany.mp c3)⟩
  · have h1 : cs.length = vks.length + 1 := by omega
    rw [Option.some.injEq, ped_pairing h vk0 vks cs poks r h1]
    exact ⟨fun e => ⟨h1, by omega, not_not.mp (mt hany.mpr c3), e⟩, fun e => e.2.2.2⟩

/-- COMPLETENESS of `BatchVerifyMultiVk`, one proof of knowledge per key: keys `Setup(g, σᵢ)` with a common G2 point and
arbitrary toxic scalars, arbitrary commitments `Cᵢ`, `pokᵢ = σᵢ·Cᵢ` (what `ProveKnowledge` returns, `C17a_ped_prove_eq`),
every combination coefficient `r`, every batch size ≥ 1. -/
theorem C17a_ped_batch_complete_multi (g : α) (σs cs poks : List α) (r : α) (hl : σs.length = cs.length)
    (hne : cs ≠ []) (hp : poks.map φ = List.zipWith (· * ·) (σs.map φ) (cs.map φ)) :
    pedBatchVerify F (σs.map (fun σ => (pedSetup F g σ []).2)) cs poks r = some true := by
  cases σs with
  | nil => cases cs with
    | nil => exact absurd rfl hne
    | cons c cs => simp at hl
  | cons σ0 σs =>
    have hpl : poks.length = cs.length := by
      have := congrArg List.length hp
      simp only [List.length_map, List.length_zipWith, List.length_cons] at this
      simp only [List.length_cons] at hl
      omega
    rw [List.map_cons, C17a_ped_batch_iff h]
    simp only [List.length_cons, List.length_map] at hl ⊢
    refine ⟨by omega, Or.inl (by omega), ?_, ?_⟩
    · intro vk hvk
      simp only [List.mem_map] at hvk
      obtain ⟨σ, _, rfl⟩ := hvk
      simp [pedSetup]
    · rw [← List.map_cons (f := fun σ => (pedSetup F g σ []).2), List.map_map]
      have e1 : ((fun vk : PedVk α => φ vk.GSigmaNeg) ∘ fun σ => (pedSetup F g σ []).2)
          = (fun s => -(s * φ g)) ∘ φ := by
        funext σ; simp [pedSetup, h.neg, h.mul]
      rw [e1, ← List.map_map]
      unfold fold
      rw [hp, dot_comm (List.zipWith _ _ _)]
      have e2 : (List.zipWith (fun x1 x2 => x1 * x2) (List.map φ (σ0 :: σs)) (List.map φ cs)).length = cs.length := by
        simp only [List.length_zipWith, List.length_map, List.length_cons]; omega
      rw [e2, dot_comm (powersFrom _ _ _ _) (List.zipWith _ (List.map φ (σ0 :: σs)) _)]
      simp only [pedSetup]
      exact ped_cancel (φ g) _ _ _

/-- what `BatchProve` outputs for keys of one `Setup`: σ times the `r`-combination of the commitments -/
theorem pedBatchProveGo_eq (g σ : α) (r : α) : ∀ (bases vals : List (List α)) (ri : α),
    List.Forall₂ (fun b v => v.length = b.length) bases vals →
    ∃ p, pedBatchProveGo F (pedSetup F g σ bases).1 vals r ri = some p ∧
      φ p = φ σ * dot (ofField K) (powersFrom (ofField K) (φ r) bases.length (φ ri))
                  (List.zipWith (fun b v => dot (ofField K) (b.map φ) (v.map φ)) bases vals) := by
  intro bases vals ri hF
  induction hF generalizing ri with
  | nil => exact ⟨F.zero, by simp [pedSetup, pedBatchProveGo], by simp [h.zero, powersFrom, dot]⟩
  | @cons b v bases vals hbv _ ih =>
    obtain ⟨p, hp, hpe⟩ := ih (F.mul ri r)
    refine ⟨F.add (dot F (b.map (fun x => F.mul σ x)) (v.map (fun x => F.mul x ri))) p, ?_, ?_⟩
    · simp only [pedSetup, List.map_cons, pedBatchProveGo] at hp ⊢
      simp [hbv, hp]
    · rw [h.add, hpe, dot_map h, List.map_map, List.map_map]
      have e1 : (φ ∘ fun x => F.mul σ x) = (fun x => φ σ * x) ∘ φ := by funext x; simp [h.mul]
      have e2 : (φ ∘ fun x => F.mul x ri) = (fun x => x * φ ri) ∘ φ := by funext x; simp [h.mul]
      rw [e1, e2, ← List.map_map, ← List.map_map, dot_map_mul_left, dot_map_mul_right]
      simp [powersFrom, h.mul]; ring

/-- COMPLETENESS of `BatchProve` + `BatchVerifyMultiVk` (one folded proof of knowledge): keys of one `Setup(g, σ)` over any
non-empty list of bases, value vectors of the right lengths, commitments = dot products (what `Commit` returns), every
combination coefficient. -/
theorem C17a_ped_batch_complete_folded (g σ : α) (bases vals : List (List α)) (cs : List α) (r : α)
    (hF : List.Forall₂ (fun b v => v.length = b.length) bases vals) (hne : bases ≠ [])
    (hcs : cs.map φ = List.zipWith (fun b v => dot (ofField K) (b.map φ) (v.map φ)) bases vals) :
    ∃ p, pedBatchProve F (pedSetup F g σ bases).1 vals r = some p ∧
      pedBatchVerify F (List.replicate bases.length (pedSetup F g σ bases).2) cs [p] r = some true := by
  have hlen : bases.length = vals.length := hF.length_eq
  obtain ⟨p, hp, hpe⟩ := pedBatchProveGo_eq h g σ r bases vals F.one hF
  have hcl : cs.length = bases.length := by
    have := congrArg List.length hcs
    simp only [List.length_map, List.length_zipWith] at this; omega
  refine ⟨p, by simp [pedBatchProve, pedSetup, hlen] at hp ⊢; exact hp, ?_⟩
  cases bases with
  | nil => exact absurd rfl hne
  | cons b bases =>
    rw [List.length_cons, List.replicate_succ, C17a_ped_batch_iff h]
    simp only [List.length_replicate, List.length_cons] at hcl ⊢
    refine ⟨hcl, Or.inr rfl, ?_, ?_⟩
    · intro vk hvk; rw [List.eq_of_mem_replicate hvk]
    · rw [← List.replicate_succ, List.map_replicate, dot_zipWith_replicate _ _ _ _ (by simp [hcl])]
      simp only [fold, List.map_cons, List.map_nil, List.length_cons, List.length_nil, powersFrom, dot_cons,
        dot_nil_left, hpe, hcs, hcl, h.one, pedSetup, h.neg, h.mul, List.length_cons, ofField_one, ofField_mul]
      ring

end pedersen
/-! ## 2. SHPLONK -/
section shplonk
variable {α K : Type} [Field K] [DecidableEq K] {F : FOps α} {φ : α → K} (h : Lawful F φ)
include h

/-- COMPLETENESS of SHPLONK `BatchOpen` / `BatchVerify`: SRS `(1, τ, …, τ^{N−1})` with verifying key `(G1, G2, [τ]G2)`,
commitments `Cᵢ = ⟨srs, fᵢ⟩` (`kzg.Commit`), the points inside each `Sᵢ` pairwise distinct (points may be shared between
different polynomials), prover and verifier using the same challenges `γ, z` (the transcript is a function of the public
data). Whenever `BatchOpen` returns a proof (it fails only on size errors: SRS shorter than `totalSize − 1`, no
polynomial), `BatchVerify` accepts — for ALL polynomial lists, all sizes (constants, the zero polynomial, single points,
empty point sets included), all `τ, γ, z` (including `z ∈ T` and `z = τ`). -/
theorem C17a_shplonk_complete (τ : α) (N : Nat) (polys points : List (List α)) (γ z : α) (pr : ShProof α)
    (hnd : ∀ i < points.length, ((points.getD i []).map φ).Nodup)
    (hsz : ∀ p ∈ polys, p.length ≤ N)
    (hopen : shOpen F (powersFrom F τ N F.one) polys points γ z = some pr) :
    shVerify F F.one F.one τ pr (polys.map (fun p => dot F (powersFrom F τ N F.one) p)) points γ z = some true := by
  have hK := congrArg (Option.map (ShProof.map φ)) hopen
  rw [shOpen_map h, powersFrom_map h, h.one] at hK
  simp only [Option.map_some] at hK
  have hd : (polys.map (fun p => dot F (powersFrom F τ N F.one) p)).map φ
      = (polys.map (List.map φ)).map (fun p => dot (ofField K) (powersFrom (ofField K) (φ τ) N 1) p) := by
    rw [List.map_map, List.map_map]
    apply List.map_congr_left
    intro p _
    simp [dot_map h, powersFrom_map h, h.one]
  rw [shVerify_map h, h.one, hd]
  refine sh_complete_field (φ τ) N _ _ (φ γ) (φ z) (pr.map φ) ?_ ?_ hK
  · intro i hi
    rw [← getD_map_nil h]
    exact hnd i (by simpa using hi)
  · intro p hp
    obtain ⟨q, hq, rfl⟩ := List.mem_map.mp hp
    simpa using hsz q hq

/-- EXACT ACCEPTANCE of SHPLONK `BatchVerify` under an honest verifying key (known trapdoor τ): the verifier accepts
exactly when the folded quotient identity holds at the challenge point,
`Σᵢ γⁱ·Z_{T∖Sᵢ}(z)·(Cᵢ − rᵢ(z)) − Z_T(z)·W = (τ − z)·W'`, `rᵢ` = interpolant of the claimed values on `Sᵢ`. -/
theorem C17a_shplonk_exact (τ : α) (pr : ShProof α) (digests : List α) (points : List (List α)) (γ z : α)
    (hl1 : digests.length = pr.claimed.length) (hl2 : digests.length = points.length) :
    shVerify F F.one F.one τ pr digests points γ z = some true ↔
      (∑ i ∈ Finset.range points.length, shGz (ofField K) (points.map (List.map φ)) (φ γ) (φ z) i *
          ((digests.map φ).getD i 0 - evalP (ofField K)
              (shRi (ofField K) (points.map (List.map φ)) (pr.claimed.map (List.map φ)) i) (φ z)))
        - evalP (ofField K) (vanishing (ofField K) (points.map (List.map φ)).flatten) (φ z) * φ pr.W
        = (φ τ - φ z) * φ pr.WPrime := by
  rw [shVerify_map h, h.one]
  have := shVerify_field_iff (φ τ) (pr.map φ) (digests.map φ) (points.map (List.map φ)) (φ γ) (φ z)
    (by simp [ShProof.map, hl1]) (by simp [hl2])
  simp only [List.length_map] at this
  exact this

/-- the verdict is never a structural error once the lengths agree -/
theorem shVerify_eq_some (g1 h0 h1 : α) (pr : ShProof α) (digests : List α) (points : List (List α)) (γ z : α)
    (hl1 : digests.length = pr.claimed.length) (hl2 : digests.length = points.length) :
    ∃ b, shVerify F g1 h0 h1 pr digests points γ z = some b := by
  unfold shVerify
  rw [if_neg (by simp [hl1]), if_neg (by simp [hl2])]
  exact ⟨_, rfl⟩

/-- NECESSITY of `W'`: with an accepted proof and `z ≠ τ`, replacing `W'` by any other element is rejected. -/
theorem C17a_shplonk_WPrime_necessary (τ : α) (pr : ShProof α) (digests : List α) (points : List (List α)) (γ z : α)
    (hl1 : digests.length = pr.claimed.length) (hl2 : digests.length = points.length)
    (hacc : shVerify F F.one F.one τ pr digests points γ z = some true) (hτ : φ τ ≠ φ z)
    (W'' : α) (hne : φ W'' ≠ φ pr.WPrime) :
    shVerify F F.one F.one τ { pr with WPrime := W'' } digests points γ z = some false := by
  obtain ⟨b, hb⟩ := shVerify_eq_some h F.one F.one τ { pr with WPrime := W'' } digests points γ z hl1 hl2
  cases b with
  | false => exact hb
  | true =>
    rw [C17a_shplonk_exact h τ pr digests points γ z hl1 hl2] at hacc
    rw [C17a_shplonk_exact h τ { pr with WPrime := W'' } digests points γ z hl1 hl2] at hb
    simp only at hb
    have : (φ τ - φ z) * φ W'' = (φ τ - φ z) * φ pr.WPrime := hb.symm.trans hacc
    exact absurd (mul_left_cancel₀ (sub_ne_zero.mpr hτ) this) hne

/-- NECESSITY of `W`: with an accepted proof and `Z_T(z) ≠ 0` (the challenge is not an opening point), replacing `W` by
any other element is rejected. -/
theorem C17a_shplonk_W_necessary (τ : α) (pr : ShProof α) (digests : List α) (points : List (List α)) (γ z : α)
    (hl1 : digests.length = pr.claimed.length) (hl2 : digests.length = points.length)
    (hacc : shVerify F F.one F.one τ pr digests points γ z = some true)
    (hz : evalP (ofField K) (vanishing (ofField K) (points.map (List.map φ)).flatten) (φ z) ≠ 0)
    (W'' : α) (hne : φ W'' ≠ φ pr.W) :
    shVerify F F.one F.one τ { pr with W := W'' } digests points γ z = some false := by
  obtain ⟨b, hb⟩ := shVerify_eq_some h F.one F.one τ { pr with W := W'' } digests points γ z hl1 hl2
  cases b with
  | false => exact hb
  | true =>
    rw [C17a_shplonk_exact h τ pr digests points γ z hl1 hl2] at hacc
    rw [C17a_shplonk_exact h τ { pr with W := W'' } digests points γ z hl1 hl2] at hb
    simp only at hb
    have : evalP (ofField K) (vanishing (ofField K) (points.map (List.map φ)).flatten) (φ z) * φ W''
        = evalP (ofField K) (vanishing (ofField K) (points.map (List.map φ)).flatten) (φ z) * φ pr.W := by
      linear_combination hacc - hb
    exact absurd (mul_left_cancel₀ hz this) hne

/-- PARTIAL VANISHING: when the first G1 operand `F + z·W'` of the verifier's pairing product is the identity
(`F = Σᵢ γⁱ·Z_{T∖Sᵢ}(z)·(Cᵢ − rᵢ(z)) − Z_T(z)·W`; reachable for any false claimed values with `W' := −F/z`, op `mut=vanish`),
the proof is REJECTED as soon as `W' ≠ O` and `τ ≠ 0`: the second pair `e(W', [τ]G2)` decides. -/
theorem C17a_shplonk_first_operand_zero (τ : α) (pr : ShProof α) (digests : List α) (points : List (List α)) (γ z : α)
    (hl1 : digests.length = pr.claimed.length) (hl2 : digests.length = points.length)
    (h0 : (∑ i ∈ Finset.range points.length, shGz (ofField K) (points.map (List.map φ)) (φ γ) (φ z) i *
          ((digests.map φ).getD i 0 - evalP (ofField K)
              (shRi (ofField K) (points.map (List.map φ)) (pr.claimed.map (List.map φ)) i) (φ z)))
        - evalP (ofField K) (vanishing (ofField K) (points.map (List.map φ)).flatten) (φ z) * φ pr.W
        + φ z * φ pr.WPrime = 0)
    (hτ : φ τ ≠ 0) (hW : φ pr.WPrime ≠ 0) :
    shVerify F F.one F.one τ pr digests points γ z = some false := by
  obtain ⟨b, hb⟩ := shVerify_eq_some h F.one F.one τ pr digests points γ z hl1 hl2
  cases b with
  | false => exact hb
  | true =>
    rw [C17a_shplonk_exact h τ pr digests points γ z hl1 hl2] at hb
    have : φ τ * φ pr.WPrime = 0 := by linear_combination h0 - hb
    exact absurd this (mul_ne_zero hτ hW)

end shplonk

/-! ## 2b. fflonk (partial)
FULL STATEMENT (not proved): for every lawful dictionary, all packs of polynomials `p`, point sets, `τ, γ, z`:
`ffOpen F nextDiv root srs p points γ z = some pr → (extended point sets pairwise distinct) →
 ffVerify F root one one τ pr (p.map (fun pk => ⟨srs, ffFold F nextDiv pk⟩)) points γ z = some true`.
Proved: (1) the SHPLONK layer `C17a_shplonk_complete`, which `BatchOpen`/`BatchVerify` of fflonk call on the folded
polynomials and the extended point sets; (2) the algebra of the folding-consistency check, below. Missing: the index
bookkeeping between `ffExtend` (flattened blocks of rotated points) and `ffFoldOk`, and the parametricity lemmas of
`ffFold`/`ffExtend`/`ffOpen`/`ffVerify`. The correspondence K exercises the complete fflonk model on all 7 curves. -/
section fflonk
variable {K : Type} [Field K] [DecidableEq K]

/-- `Fold` interleaves: the folded polynomial is `Σⱼ Xʲ·pⱼ(Xᵗ)` (as a function), `t = getNextDivisorRMinusOne(len p) > 0` -/
theorem C17a_fflonk_fold_partial (nd : Nat → Nat) (p : List (List K)) (y : K) (ht : 0 < nd p.length) :
    evalP (ofField K) (ffFold (ofField K) nd p) y
      = ∑ j ∈ Finset.range (nd p.length), y ^ j * evalP (ofField K) (p.getD j []) (y ^ nd p.length) :=
  evalP_ffFold nd p y ht

/-- at a rotated point `x·ωˡ` (`ωᵗ = 1`) the folded polynomial takes the value the verifier recomputes from the outer
claimed values `pⱼ(xᵗ)`: the folding-consistency check of `BatchVerify` passes on honest proofs -/
theorem C17a_fflonk_foldcheck_partial (nd : Nat → Nat) (p : List (List K)) (x ω : K) (l : Nat)
    (ht : 0 < nd p.length) (hω : ω ^ nd p.length = 1) :
    evalP (ofField K) (ffFold (ofField K) nd p) (x * ω ^ l)
      = ∑ j ∈ Finset.range (nd p.length), (x * ω ^ l) ^ j * evalP (ofField K) (p.getD j []) (x ^ nd p.length) :=
  evalP_ffFold_rotated nd p x ω l ht hω

end fflonk

/-! ## 3. permutation argument, plookup: the verifiers are conjunctions of named checks
The two KZG opening checks are parameters of the model (§6–7 of Model/ArgPairing.lean): the prover's commitments have no
known discrete logarithm in the harness. The computed part is characterised here; each named check is necessary. -/
section perm
variable {α K : Type} [Field K] [DecidableEq K] {F : FOps α} {φ : α → K} (h : Lawful F φ)
include h

/-- `permutation.Verify` accepts iff its four named checks pass -/
theorem C17a_perm_verify_iff (n : Nat) (g : α) (cv : List α) (sv ε ω η : α) (kb ks : Bool) :
    permVerify F n g cv sv ε ω η kb ks = true ↔
      permIdentity F n cv sv ε ω η = true ∧ kb = true ∧ ks = true ∧ sizeOk n = true ∧ genCheck F n g = true := by
  simp [permVerify, Bool.and_eq_true, and_assoc]

/-- the polynomial identity at η that the verifier enforces on the claimed values -/
theorem C17a_perm_identity_iff (n : Nat) (cv : List α) (sv ε ω η : α) :
    permIdentity F n cv sv ε ω η = true ↔
      (φ (cv.getD 2 F.zero) - 1) * ((φ η ^ n - 1) * (φ η - 1)⁻¹) * φ ω
        + ((φ ε - φ (cv.getD 1 F.zero)) * φ sv - (φ ε - φ (cv.getD 0 F.zero)) * φ (cv.getD 2 F.zero))
        = (φ η ^ n - 1) * φ (cv.getD 3 F.zero) := by
  simp only [permIdentity, h.beq, h.add, h.mul, h.sub, h.inv, h.one, npow_map h]

/-- the generator check: `g^(n/2) ≠ 1` and `g^(n/2)·g^(n/2) = 1` -/
theorem C17a_genCheck_iff (n : Nat) (g : α) :
    genCheck F n g = true ↔ φ g ^ (n / 2) ≠ 1 ∧ φ g ^ (n / 2) * φ g ^ (n / 2) = 1 := by
  simp only [genCheck, Bool.and_eq_true, Bool.not_eq_true', h.beq, h.mul, h.one, npow_map h,
    Bool.eq_false_iff, ne_eq]

/-- NECESSITY: each of the four checks of `permutation.Verify` is individually necessary (dropping any one of them
accepts inputs that the verifier rejects) -/
theorem C17a_perm_checks_necessary (n : Nat) (g : α) (cv : List α) (sv ε ω η : α)
    (hid : permIdentity F n cv sv ε ω η = true) (hg : genCheck F n g = true) (hs : sizeOk n = true) :
    permVerify F n g cv sv ε ω η true true = true ∧
    permVerify F n g cv sv ε ω η false true = false ∧
    permVerify F n g cv sv ε ω η true false = false := by
  simp [permVerify, hid, hg, hs]

/-- `VerifyLookupVector` accepts iff its four named checks pass -/
theorem C17a_plookup_verify_iff (n : Nat) (g : α) (cv scv : List α) (β γ αc ν : α) (kb ks : Bool) :
    plkVerify F n g cv scv β γ αc ν kb ks = true ↔
      kb = true ∧ ks = true ∧ sizeOk n = true ∧ genCheck F n g = true ∧ plkIdentity F n g cv scv β γ αc ν = true := by
  simp [plkVerify, Bool.and_eq_true, and_assoc]

omit h in
/-- `VerifyLookupTables` as the property demands: four named checks, each necessary. The Go verifier lacks `bind`. -/
theorem C17a_plookup_table_iff (cf perm bind vec : Bool) :
    plkTableVerify cf perm bind vec = true ↔ cf = true ∧ perm = true ∧ bind = true ∧ vec = true := by
  simp [plkTableVerify, Bool.and_eq_true, and_assoc]

end perm

/-! ## 4. setup ceremony -/
section mpc
variable {α K : Type} [Field K] [DecidableEq K] {F : FOps α} {φ : α → K} (h : Lawful F φ)
include h

theorem powersFrom_getD (r : α) : ∀ (n i : Nat) (acc : α), i < n →
    φ ((powersFrom F r n acc).getD i F.zero) = φ acc * φ r ^ i := by
  intro n
  induction n with
  | zero => intro i acc hi; omega
  | succ n ih =>
    intro i acc hi
    cases i with
    | zero => simp [powersFrom]
    | succ i =>
      simp only [powersFrom, List.getD_cons_succ]
      rw [ih i _ (by omega), h.mul, pow_succ]; ring

omit [DecidableEq K] h in
theorem powersFrom_length' (r : α) : ∀ (n : Nat) (acc : α), (powersFrom F r n acc).length = n := by
  intro n
  induction n with
  | zero => intro _; rfl
  | succ n ih => intro acc; simp [powersFrom, ih]

/-- EXACT ACCEPTANCE of `sameRatio`: `n₁·d₂ = d₁·n₂` -/
theorem C17a_sameRatio_iff (n1 d1 n2 d2 : α) :
    sameRatio F n1 d1 n2 d2 = true ↔ φ n1 * φ d2 = φ d1 * φ n2 := by
  simp [sameRatio, h.beq, h.mul]

/-- an SRS `(1, t, t², …)` of length ≥ 2 against `(1, t)` passes `SameRatioMany` -/
theorem sameRatioMany_powers (t : α) (n : Nat) (hn : 2 ≤ n) :
    sameRatioMany F [powersFrom F t n F.one] [[F.one, t]] = true := by
  have h1 : F.beq F.one F.zero = false := by
    rw [Bool.eq_false_iff, Ne, h.beq, h.one, h.zero]; exact one_ne_zero
  have hpl := powersFrom_length' (F := F) t n F.one
  have hhead : (powersFrom F t n F.one).head?.getD F.zero = F.one := by
    cases n with
    | zero => omega
    | succ n => simp [powersFrom]
  have hd1 : decide (2 ≤ (powersFrom F t n F.one).length) = true := by simp [hpl, hn]
  have hgeo : geomPair F (powersFrom F t n F.one) [F.one, t] = true := by
    rw [geomPair, List.all_eq_true]
    intro i hi
    rw [List.mem_range, hpl] at hi
    rw [List.all_eq_true]
    intro j hj
    simp only [List.length_cons, List.length_nil, List.mem_range] at hj
    have hj0 : j = 0 := by omega
    subst hj0
    rw [h.beq, h.mul, h.mul, powersFrom_getD h t n i _ (by omega), powersFrom_getD h t n (i+1) _ (by omega)]
    simp [h.one, pow_succ]
  simp [sameRatioMany, hd1, hhead, h1, hgeo]

/-- EXACT ACCEPTANCE of `UpdateProof.Verify` -/
theorem C17a_mpc_update_iff (p : UpdProof α) (prev1 next1 prev2 next2 : List α) :
    updVerify F p prev1 next1 prev2 next2 = true ↔
      φ p.com ≠ 0 ∧ (p.pokKnown = true ∧ φ p.com = φ p.pokx) ∧
      prev1.length = next1.length ∧ prev2.length = next2.length ∧
      (∀ ab ∈ prev1.zip next1, φ ab.2 = φ p.pokx * φ ab.1) ∧
      (∀ ab ∈ prev2.zip next2, φ p.com * φ ab.1 = φ ab.2) := by
  simp only [updVerify, Bool.and_eq_true, Bool.not_eq_true', Bool.eq_false_iff, ne_eq, h.beq, h.zero, h.mul,
    List.all_eq_true, beq_iff_eq, and_assoc]

/-- COMPLETENESS of the ceremony step: from a well-formed SRS with trapdoor `t₀` (length ≥ 2), a contribution `x ≠ 0`
produces `(1, t₀x, (t₀x)², …)`, `[t₀x]G2` and the update proof `([x]G1, x·R)`; `Verify` accepts — with the same-ratio check
on the next SRS (the property's model) and also with the check on the previous SRS (the Go code). By induction every
honest `Contribute` chain from `InitializeSetup` (`t₀ = 1`) is accepted. -/
theorem C17a_mpc_complete (goVariant : Bool) (t0 x : α) (n : Nat) (hn : 2 ≤ n) (hx : φ x ≠ 0) :
    mpcVerify F goVariant (powersFrom F t0 n F.one) t0 (powersFrom F (F.mul t0 x) n F.one) (F.mul t0 x)
      { com := x, pokx := x, pokKnown := true } true = true := by
  have hu : updVerify F { com := x, pokx := x, pokKnown := true } [] [] [t0] [F.mul t0 x] = true := by
    rw [C17a_mpc_update_iff h]
    simp [hx, h.mul, mul_comm]
  simp only [mpcVerify, powersFrom_length', beq_self_eq_true, hu, Bool.true_and]
  cases goVariant
  · simp [sameRatioMany_powers h _ n hn]
  · simp [sameRatioMany_powers h _ n hn]

/-- SOUNDNESS of the property's model: an accepted `next` is a geometric sequence whose ratio is the new G2 element,
its G2 element is `x` times the previous one, and the proof of knowledge is for `x`. -/
theorem C17a_mpc_accept_implies (prevG1 : List α) (prevG2 : α) (nextG1 : List α) (nextG2 : α) (p : UpdProof α)
    (c : Bool) (hacc : mpcVerify F false prevG1 prevG2 nextG1 nextG2 p c = true) :
    c = true ∧ prevG1.length = nextG1.length ∧ φ p.com ≠ 0 ∧ φ p.com = φ p.pokx ∧ φ p.com * φ prevG2 = φ nextG2 ∧
    ∀ i, i + 1 < nextG1.length →
      φ (nextG1.getD i F.zero) * φ nextG2 = φ (nextG1.getD (i+1) F.zero) := by
  simp only [mpcVerify, Bool.and_eq_true, beq_iff_eq, Bool.false_eq_true, if_false] at hacc
  obtain ⟨⟨⟨hc, hl⟩, hu⟩, hr⟩ := hacc
  rw [C17a_mpc_update_iff h] at hu
  obtain ⟨h0, ⟨_, hpk⟩, _, _, _, h2⟩ := hu
  refine ⟨hc, hl, h0, hpk, by simpa using h2 (prevG2, nextG2) (by simp), ?_⟩
  intro i hi
  simp only [sameRatioMany, List.all_cons, List.all_nil, Bool.and_true, Bool.and_eq_true] at hr
  have hg := hr.2
  rw [geomPair, List.all_eq_true] at hg
  have := hg i (by rw [List.mem_range]; omega)
  rw [List.all_eq_true] at this
  have := this 0 (by simp)
  rw [h.beq, h.mul, h.mul] at this
  simpa [h.one] using this

omit [Field K] [DecidableEq K] h in
/-- the Go variant (kzg/mpcsetup.go:156, same-ratio check on the PREVIOUS SRS) never looks at the G1 elements of the
contribution it verifies: any list of the right length gets the same verdict. With `C17a_mpc_complete` this gives accepted
forgeries (`C17 mpcsetup … kind=step mut=g1Set|g1Add|g1Zero|g1Other|g1Swap`). -/
theorem C17a_mpc_go_variant_blind (prevG1 : List α) (prevG2 : α) (nextG1 nextG1' : List α) (nextG2 : α)
    (p : UpdProof α) (c : Bool) (hl : nextG1.length = nextG1'.length) :
    mpcVerify F true prevG1 prevG2 nextG1 nextG2 p c = mpcVerify F true prevG1 prevG2 nextG1' nextG2 p c := by
  simp [mpcVerify, hl]

end mpc

/-! ## 4b. setup ceremony: subgroup membership of every element of a contribution
A component of cofactor order is invisible to the pairing equations (the exponent model gives `P + T` the logarithm of `P`);
the explicit subgroup checks are the only checks that reject it. The model carries one membership flag per element
(`C17 mpcsetup … kind=step mut=nosub sub1=… sub2=… subc=… subp=…`: the harness adds a point of cofactor order, in memory,
exactly where a flag is 0). -/
section mpcsub
variable {α : Type} (F : FOps α)

/-- EXACT ACCEPTANCE with flags: every element of the contribution is in its subgroup and the flag-free verifier accepts -/
theorem C17a_mpc_sub_iff (subG1 : List Bool) (subG2 subCom subPok : Bool) (prevG1 : List α) (prevG2 : α)
    (nextG1 : List α) (nextG2 : α) (p : UpdProof α) (c : Bool) :
    mpcVerifySub F subG1 subG2 subCom subPok prevG1 prevG2 nextG1 nextG2 p c = true ↔
      (∀ b ∈ subG1, b = true) ∧ subG2 = true ∧ subCom = true ∧ subPok = true ∧
      mpcVerify F false prevG1 prevG2 nextG1 nextG2 p c = true := by
  simp [mpcVerifySub, and_assoc]

/-- EVERY membership check is individually necessary: a single false flag — at ANY power index of the proving key (first
and last included), on `[x]₂`, on the commitment or on the proof of knowledge of the update proof — rejects, whatever the
other data (in particular an otherwise honest contribution, which satisfies every pairing equation) -/
theorem C17a_mpc_reject_nosub (subG1 : List Bool) (subG2 subCom subPok : Bool) (prevG1 : List α) (prevG2 : α)
    (nextG1 : List α) (nextG2 : α) (p : UpdProof α) (c : Bool)
    (hbad : false ∈ subG1 ∨ subG2 = false ∨ subCom = false ∨ subPok = false) :
    mpcVerifySub F subG1 subG2 subCom subPok prevG1 prevG2 nextG1 nextG2 p c = false := by
  rw [Bool.eq_false_iff, Ne, C17a_mpc_sub_iff]
  rintro ⟨h1, h2, h3, h4, _⟩
  rcases hbad with hb | hb | hb | hb
  · exact absurd (h1 _ hb) (by decide)
  · simp [hb] at h2
  · simp [hb] at h3
  · simp [hb] at h4

/-- with all flags true the verdict is the flag-free one (completeness is `C17a_mpc_complete`) -/
theorem C17a_mpc_sub_all_true (subG1 : List Bool) (hall : ∀ b ∈ subG1, b = true) (prevG1 : List α) (prevG2 : α)
    (nextG1 : List α) (nextG2 : α) (p : UpdProof α) (c : Bool) :
    mpcVerifySub F subG1 true true true prevG1 prevG2 nextG1 nextG2 p c = mpcVerify F false prevG1 prevG2 nextG1 nextG2 p c := by
  have : subG1.all id = true := by simpa using hall
  simp [mpcVerifySub, this]

/-- `UpdateProof.Verify` subgroup-checks its own two elements: exact acceptance with flags, hence rejection of either false flag -/
theorem C17a_upd_sub_iff (subCom subPok : Bool) (p : UpdProof α) (prev1 next1 prev2 next2 : List α) :
    updVerifySub F subCom subPok p prev1 next1 prev2 next2 = true ↔
      subCom = true ∧ subPok = true ∧ updVerify F p prev1 next1 prev2 next2 = true := by
  simp [updVerifySub, and_assoc]

end mpcsub

/-! ## 5. the driver's dictionary; non-vacuity -/
section instances

/-- the theorems above apply to the dictionary `fp r` the driver runs, for every prime `r > 2` (`lawful_fp`); e.g. Pedersen's
exact acceptance in concrete form: with `r ∤ g` the verifier accepts exactly `pok ≡ σ·C (mod r)` -/
theorem C17a_ped_verify_honest_iff_fp (r : Nat) [Fact r.Prime] (h2 : 2 < r) (g σ : Nat) (bases : List (List Nat))
    (hg : ¬ r ∣ g) (C pok : Nat) :
    pedVerify (fp r) (pedSetup (fp r) g σ bases).2 C pok = true ↔ pok % r = (σ * C) % r := by
  rw [C17a_ped_verify_honest_iff (lawful_fp r h2) g σ bases (by rwa [Ne, ZMod.natCast_eq_zero_iff])]
  rw [← Nat.cast_mul, ZMod.natCast_eq_natCast_iff']

/-- all scalar fields of the library are `> 2` (primality is a hypothesis `[Fact r.Prime]`, as in C01) -/
theorem C17a_moduli_gt_two : ∀ c ∈ GV.Gen.allFields, 2 < c.q := by decide +kernel

instance fact13 : Fact (Nat.Prime 13) := ⟨by norm_num⟩
theorem lawful_fp13 : Lawful (fp 13) (fun a : Nat => (a : ZMod 13)) := lawful_fp 13 (by norm_num)

-- Pedersen: honest proof accepted, forged components rejected (F₁₃, g = 2, σ = 3, basis (1,2), values (4,5))
example : pedCommit (fp 13) ⟨[1, 2], [3, 6]⟩ [4, 5] = some 1 ∧ pedProve (fp 13) ⟨[1, 2], [3, 6]⟩ [4, 5] = some 3 ∧
    pedVerify (fp 13) (pedSetup (fp 13) 2 3 [[1, 2]]).2 1 3 = true ∧
    pedVerify (fp 13) (pedSetup (fp 13) 2 3 [[1, 2]]).2 1 4 = false ∧
    pedVerify (fp 13) (pedSetup (fp 13) 2 3 [[1, 2]]).2 2 3 = false := by decide
example : pedBatchVerify (fp 13) [⟨2, 7⟩, ⟨2, 3⟩] [1, 4] [3, 7] 5 = some true := by decide
-- the hypotheses of the completeness theorems are satisfiable
example : ∃ pk ∈ (pedSetup (fp 13) 2 3 [[1, 2]]).1, [4, 5].length = pk.basis.length := ⟨_, List.mem_singleton.mpr rfl, rfl⟩
-- SHPLONK over F₁₃: two polynomials, S₀ = {1,2}, S₁ = {2}; honest proof accepted, every component necessary
example : (shOpen (fp 13) (powersFrom (fp 13) 5 8 1) [[1, 2, 3], [4, 5]] [[1, 2], [2]] 7 11).isSome = true := by decide
example : (shOpen (fp 13) (powersFrom (fp 13) 5 8 1) [[1, 2, 3], [4, 5]] [[1, 2], [2]] 7 11).bind (fun pr =>
    shVerify (fp 13) 1 1 5 pr ([[1, 2, 3], [4, 5]].map (fun p => dot (fp 13) (powersFrom (fp 13) 5 8 1) p))
      [[1, 2], [2]] 7 11) = some true := by decide
example : (shOpen (fp 13) (powersFrom (fp 13) 5 8 1) [[1, 2, 3], [4, 5]] [[1, 2], [2]] 7 11).bind (fun pr =>
    shVerify (fp 13) 1 1 5 { pr with W := (fp 13).add pr.W 1 }
      ([[1, 2, 3], [4, 5]].map (fun p => dot (fp 13) (powersFrom (fp 13) 5 8 1) p)) [[1, 2], [2]] 7 11) = some false := by
  decide
example : ∀ i < [[1, 2], [2]].length, (([[1, 2], [2]].getD i []).map (fun a : Nat => (a : ZMod 13))).Nodup := by decide
-- setup ceremony over F₁₃: honest step accepted by both variants; a forged G1 element is rejected by the property's
-- model and accepted by the Go variant
example : mpcVerify (fp 13) false [1, 2, 4] 2 [1, 6, 10] 6 ⟨3, 3, true⟩ true = true := by decide
example : mpcVerify (fp 13) true [1, 2, 4] 2 [1, 6, 10] 6 ⟨3, 3, true⟩ true = true := by decide
example : mpcVerify (fp 13) false [1, 2, 4] 2 [1, 6, 11] 6 ⟨3, 3, true⟩ true = false := by decide
example : mpcVerify (fp 13) true [1, 2, 4] 2 [1, 6, 11] 6 ⟨3, 3, true⟩ true = true := by decide
-- the honest step with membership flags: all true accepted; the LAST power / the first power / [x]₂ / the proof flagged: rejected
example : mpcVerifySub (fp 13) [true, true] true true true [1, 2, 4] 2 [1, 6, 10] 6 ⟨3, 3, true⟩ true = true := by decide
example : mpcVerifySub (fp 13) [true, false] true true true [1, 2, 4] 2 [1, 6, 10] 6 ⟨3, 3, true⟩ true = false := by decide
example : mpcVerifySub (fp 13) [false, true] true true true [1, 2, 4] 2 [1, 6, 10] 6 ⟨3, 3, true⟩ true = false := by decide
example : mpcVerifySub (fp 13) [true, true] false true true [1, 2, 4] 2 [1, 6, 10] 6 ⟨3, 3, true⟩ true = false := by decide
example : mpcVerifySub (fp 13) [true, true] true false true [1, 2, 4] 2 [1, 6, 10] 6 ⟨3, 3, true⟩ true = false := by decide
example : mpcVerifySub (fp 13) [true, true] true true false [1, 2, 4] 2 [1, 6, 10] 6 ⟨3, 3, true⟩ true = false := by decide
example : permVerify (fp 13) 4 5 [1, 1, 1, 0] 1 2 3 4 true true = true := by decide
example : permVerify (fp 13) 4 5 [1, 1, 1, 0] 1 2 3 4 false true = false := by decide

end instances

end GV.ArgPairing
