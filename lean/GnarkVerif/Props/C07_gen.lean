import GnarkVerif.Gen.CodecConsts
import GnarkVerif.Model.PointCodecOps
/-
C07_gen — tie T for the CONSTANTS of the point codecs: the flag block (`mMask`, `mUncompressed`, `mUncompressedInfinity`,
`mCompressedSmallest`, `mCompressedLargest`, `mCompressedInfinity`, the blank "invalid" entries) and the size constants
(`SizeOfG{1,2}Affine{Compressed,Uncompressed}`) of `ecc/<curve>/marshal.go`, extracted on every run into Gen/CodecConsts.lean
(tools/goslp/codecconsts.go, flags as written `bits << shift`), are EQUAL to what the hand model uses per curve: the table
`PointCodec.curves` (Model/PointCodecOps.lean: layout `L`, G2 coordinate kind) with `Layout.k / code / classify` (Model/PointCodec.lean),
and `fp.Bytes` of the regenerated field constants. Closed statements, checked by kernel evaluation on the regenerated constants.
The flag DISPATCH of `setBytes` (which branch reads which constant) is not translated: hand model + K.
-/
namespace GV.PointCodec
open GV.Gen

/-- value of a flag constant written `bits << shift` (Go `byte` arithmetic: the block is rejected by the translator when `shift > 7`) -/
def flagVal (c : Option (Nat × Nat)) : Option Nat := c.map (fun p => (p.1 * 2 ^ p.2) % 256)

/-- number of flag bits announced by the mask: `mMask = (2^k - 1) << (8 - k)` -/
def maskBits (c : CodecConsts) : Nat :=
  match c.mMask with
  | none => 0
  | some (bits, shift) => if bits = 2 ^ (8 - shift) - 1 then 8 - shift else 99

/-- layout announced by the constants -/
def layoutOf (c : CodecConsts) : Layout :=
  match maskBits c, c.mUncompressedInfinity with
  | 0, _ => .raw
  | 2, none => .two
  | 3, some _ => .three
  | _, _ => .raw

/-- the constant the Go encoder writes for a flag of the model (`none`: the layout has no such flag) -/
def constOf (c : CodecConsts) : Flag → Option Nat
  | .unc => flagVal c.mUncompressed
  | .uncInf => flagVal c.mUncompressedInfinity
  | .small => flagVal c.mCompressedSmallest
  | .large => flagVal c.mCompressedLargest
  | .cInf => flagVal c.mCompressedInfinity
  | .bad => none

def allFlags : List Flag := [.unc, .uncInf, .small, .large, .cInf]

/-- the model's encoder constant, placed in the top `k` bits of a byte -/
def modelByte (L : Layout) (f : Flag) : Nat := L.code f * 2 ^ (8 - L.k)

/-- which flags a layout has -/
def hasFlag : Layout → Flag → Bool
  | .two, .unc => true | .two, .small => true | .two, .large => true | .two, .cInf => true
  | .three, .unc => true | .three, .uncInf => true | .three, .small => true | .three, .large => true | .three, .cInf => true
  | _, _ => false

/-- number of base-field components of a G2 coordinate -/
def g2Comps : G2Kind → Option Nat
  | .none => none | .fp => some 1 | .e2 => some 2 | .e4 => some 4

/-- the curve table of the model and the extracted constants list the same packages in the same order -/
theorem C07gen_same_curves : curves.map (·.name) = allCodecs.map (·.name) := by decide

/-- the layout of the model's table is the one the constants announce (2 flag bits without `mUncompressedInfinity`: bn254, grumpkin,
stark-curve; 3 flag bits with it: BLS12 / BLS24 / BW6; no flag block: secp256k1), and `mMask` covers exactly the top `k` bits -/
theorem C07gen_layout :
    (curves.zip allCodecs).all (fun dc => layoutOf dc.2 == dc.1.L && maskBits dc.2 == dc.1.L.k &&
      (dc.1.L == .raw || flagVal dc.2.mMask == some ((2 ^ dc.1.L.k - 1) * 2 ^ (8 - dc.1.L.k)))) = true := by decide +kernel

/-- every flag constant of the Go text is the model's `Layout.code`, in the top `k` bits of the most significant byte; a flag the layout
does not have is absent from the Go block (`none`) -/
theorem C07gen_flag_values :
    (curves.zip allCodecs).all (fun dc => allFlags.all (fun f =>
      constOf dc.2 f == (if hasFlag dc.1.L f then some (modelByte dc.1.L f) else none))) = true := by decide +kernel

/-- the dispatch table: for EVERY byte `v`, the model's `classify` of its top `k` bits is the flag whose Go constant equals `v & mMask`,
and `.bad` exactly when no constant does (2-bit layouts have no invalid pattern; the 3-bit ones have 1, 3, 7) -/
theorem C07gen_classify :
    (curves.zip allCodecs).all (fun dc => dc.1.L == .raw || (List.range 256).all (fun v =>
      let m := (flagVal dc.2.mMask).getD 0
      let fl := dc.1.L.classify (v / 2 ^ (8 - dc.1.L.k))
      (allFlags.all (fun f => (constOf dc.2 f == some (v &&& m)) == (fl == f))) &&
      ((fl == .bad) == allFlags.all (fun f => constOf dc.2 f != some (v &&& m))))) = true := by decide +kernel

/-- the blank entries of the Go block (commented "invalid") are exactly the patterns the model classifies as `.bad` -/
theorem C07gen_invalid :
    (curves.zip allCodecs).all (fun dc =>
      dc.2.invalid.all (fun p => dc.1.L.classify p.1 == .bad && 8 - p.2 == dc.1.L.k) &&
      ((List.range (2 ^ dc.1.L.k)).filter (fun v => dc.1.L != .raw && dc.1.L.classify v == .bad)) == dc.2.invalid.map (·.1)) = true := by
  decide +kernel

/-- the flag constants are pairwise distinct and lie inside the mask -/
theorem C07gen_flags_distinct :
    allCodecs.all (fun c =>
      let vs := allFlags.filterMap (constOf c)
      vs.Nodup && vs.all (fun v => v &&& (flagVal c.mMask).getD 0 == v)) = true := by decide +kernel

/-- flag bits and coordinate bits are disjoint: the regenerated base modulus satisfies `q < 2^(8·Bytes − k)`, so the top `k` bits of the most
significant byte of every canonical coordinate are zero (hypothesis `hp` of `C07_base_OK`); for secp256k1 (`k = 0`) this is `q < 2^(8·Bytes)` -/
theorem C07gen_flag_bits_free :
    curves.all (fun d => d.L.k ≤ 8 * d.fpC.bytes && d.fpC.q < 2 ^ (8 * d.fpC.bytes - d.L.k)) = true := by decide +kernel

/-- … and for bn254, bls12-381, bls24-317, grumpkin, secp256k1 not one bit more could be taken (`q ≥ 2^(8·Bytes − k − 1)`); the packages whose
modulus leaves spare bits below the flag bits are exactly the listed ones -/
theorem C07gen_flag_bits_tight :
    (curves.filter (fun d => decide (d.fpC.q < 2 ^ (8 * d.fpC.bytes - d.L.k - 1)))).map (·.name) =
      ["bls12-377", "bls24-315", "bw6-633", "bw6-761", "stark-curve"] := by decide +kernel

/-- sizes: `SizeOfG1AffineCompressed = fp.Bytes`, uncompressed = twice that; G2: `c · fp.Bytes` with `c` = 1 (BW6), 2 (bn254, BLS12),
4 (BLS24) components per coordinate — the `Codec.nbC` of the model; packages without G2 have no G2 constants -/
theorem C07gen_sizes :
    (curves.zip allCodecs).all (fun dc =>
      dc.2.sizeG1C == some dc.1.fpC.bytes && dc.2.sizeG1U == some (2 * dc.1.fpC.bytes) &&
      dc.2.sizeG2C == (g2Comps dc.1.g2).map (· * dc.1.fpC.bytes) &&
      dc.2.sizeG2U == (g2Comps dc.1.g2).map (fun c => 2 * (c * dc.1.fpC.bytes))) = true := by decide +kernel

end GV.PointCodec
