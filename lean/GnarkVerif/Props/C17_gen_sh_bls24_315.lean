/- INSTANTIATED by bin/mkc17shgen.py (one proof template for the 7 packages and 5 shapes). DO NOT EDIT: edit the script and re-run it. -/
import GnarkVerif.Proofs.VerifierGenPed
import GnarkVerif.Gen.Verifier.Shplonk_bls24_315
import Mathlib.Tactic.Ring
import Mathlib.Tactic.FieldSimp
import Mathlib.Tactic.Abel
/-
C17 (SHPLONK), tie T for ecc/bls24-315/shplonk/shplonk.go: `BatchVerify` as REGENERATED from the Go text, specialised to
(number of polynomials, points per polynomial) ∈ {(1,[1]), (1,[2]), (2,[1,1]), (2,[2,1]), (2,[2,2])} (Gen/Verifier/Shplonk_bls24_315.lean).
`deriveChallenge`, `buildZtMinusSi`, `buildVanishingPoly`, `multiplyLinearFactor`, `interpolate`, `buildLagrangeFromDomain`, `mulByConstant`,
`eval`, `flatten` are executed in place (loops unrolled, slices with Go's aliasing); the Fiat–Shamir transcript is the PARAMETER
`fsChallenge name (data bound to that name, in order) (challenges computed before)`, so the generated def SHOWS what each challenge is bound to.
-/
set_option linter.unusedVariables false
set_option linter.unusedSimpArgs false
set_option linter.unusedTactic false
set_option linter.unreachableTactic false
open GV GV.Alg GV.KZG GV.Gen.Verifier GV.VerifierGen GV.ArgPairing
namespace GV.C17gen
variable (q : ℕ) [Fact q.Prime]

omit [Fact q.Prime] in
theorem verdict_ok_iff (b : Bool) (e : String) : (if (!b) = true then Res.err e else Res.ok) = Res.ok ↔ b = true := by
  cases b <;> simp

/-- shape [1]: the generated `BatchVerify` (exponent model, dictionary `fp q`) accepts iff `Model.ArgPairing.shVerify` accepts, with
γ = the challenge derived from (points, CLAIMED VALUES, digests) and z = the challenge derived from W after γ — every input -/
theorem C17gen_bls24_315_sh_s1 (mS : Ex q → List UInt8) (mG : Ex q → List UInt8)
    (fsC : String → List (List UInt8) → List (List UInt8) → List UInt8) (frB : List UInt8 → Ex q) (h2 : 2 < q)
    (W W' v00 d0 x00 g1 : Ex q) (l : ℕ × ℕ) (q0 q1 : Unit) :
    shplonk_bls24_315.BatchVerify_s1 (G := Ex q) (G2 := Unit) (S := Ex q) (L := ℕ × ℕ) Ex.toInt mS mG fsC frB (pcFixed q) W W' v00 d0 x00 q0 q1 g1 l = Res.ok ↔
      shVerify (fp q) g1.v l.1 l.2 ⟨W.v, W'.v, [[v00.v]]⟩ [d0.v] [[x00.v]]
        (frB (fsC "gamma" [mS x00, mS v00, mG d0] [])).v
        (frB (fsC "z" [mG W] [fsC "gamma" [mS x00, mS v00, mG d0] []])).v = some true := by
  have hq : NeZero q := ⟨(Fact.out : q.Prime).ne_zero⟩
  simp only [shplonk_bls24_315.BatchVerify_s1, pcFixed_eq_pc]
  simp only [shVerify, List.length_cons, List.length_nil, ne_eq, not_true_eq_false, if_false, Option.some.injEq]
  apply res_ok_iff_of_eq
  apply fp_pairingCheck_congr
  simp [ArgPairing.dot, shFolded, shGz, shRi, interpolate, lagrange, vanishing, mulLin, ztMinusSi, evalP, sumP, sumN, scaleP, subP, addP,
    npow, cast_fp_inv q h2, cast_fp_sub, (by decide : List.range 2 = [0, 1]), (by decide : List.range 1 = [0]),
    -mul_eq_mul_right_iff, -mul_eq_mul_left_iff, -mul_eq_zero, -add_left_inj, -add_right_inj, -sub_left_inj,
    -sub_right_inj]
  try ring

/-- BINDING (what /repo fix 420bc96 repaired): in the generated def the challenge γ is a function of the claimed values — two runs that
differ only in what the transcript returns for the list (points, claimed values, digests) are run with the corresponding γ; the list
handed to `fsChallenge "gamma"` is exactly [points…, claimed values…, digests…] and z is derived from W after γ -/
theorem C17gen_bls24_315_sh_s1_binding {G G2 S L : Type} [AddCommGroup G] [Field S] [BEq G2] (toInt : S → Int) (mS : S → List UInt8)
    (mG : G → List UInt8) (fsC fsC' : String → List (List UInt8) → List (List UInt8) → List UInt8) (frB : List UInt8 → S)
    (pcf : List G → L → Bool) (W W' : G) (v00 : S) (d0 : G) (x00 : S) (q0 q1 : G2) (g1 : G) (lines : L)
    (hg : fsC' "gamma" [mS x00, mS v00, mG d0] [] = fsC "gamma" [mS x00, mS v00, mG d0] [])
    (hz : fsC' "z" [mG W] [fsC "gamma" [mS x00, mS v00, mG d0] []] = fsC "z" [mG W] [fsC "gamma" [mS x00, mS v00, mG d0] []]) :
    shplonk_bls24_315.BatchVerify_s1 toInt mS mG fsC' frB pcf W W' v00 d0 x00 q0 q1 g1 lines
      = shplonk_bls24_315.BatchVerify_s1 toInt mS mG fsC frB pcf W W' v00 d0 x00 q0 q1 g1 lines := by
  simp only [shplonk_bls24_315.BatchVerify_s1, hg, hz]

/-- abstract level, shape [1]: over ANY commutative group `G` and field `S` the Go text returns nil iff the pairing check holds of
`−(Σᵢ [γⁱ·Z_(T∖Sᵢ)(z)]Cᵢ − [Σᵢ γⁱ·Z_(T∖Sᵢ)(z)·rᵢ(z)]G₁ − [Z_T(z)]W + [z]W')` and `W'` (the scalars written with the polynomial functions of
Model/ArgPairing.lean over the field itself), γ and z being the two transcript challenges -/
theorem C17gen_bls24_315_sh_s1_abstract {G G2 S L : Type} [AddCommGroup G] [Field S] [DecidableEq S] [BEq G2] (toInt : S → Int)
    (mS : S → List UInt8) (mG : G → List UInt8) (fsC : String → List (List UInt8) → List (List UInt8) → List UInt8)
    (frB : List UInt8 → S) (pcf : List G → L → Bool) (W W' : G) (v00 : S) (d0 : G) (x00 : S)
    (q0 q1 : G2) (g1 : G) (lines : L) (γ z : S) (hγ : γ = frB (fsC "gamma" [mS x00, mS v00, mG d0] [])) (hz : z = frB (fsC "z" [mG W] [fsC "gamma" [mS x00, mS v00, mG d0] []])) :
    shplonk_bls24_315.BatchVerify_s1 toInt mS mG fsC frB pcf W W' v00 d0 x00 q0 q1 g1 lines = Res.ok ↔
      pcf [-(toInt (shGz (ofField S) [[x00]] γ z 0) • d0
            - toInt (sumN (ofField S) (fun i => shGz (ofField S) [[x00]] γ z i * evalP (ofField S) (shRi (ofField S) [[x00]] [[v00]] i) z) 1) • g1
            - toInt (evalP (ofField S) (vanishing (ofField S) [x00]) z) • W + toInt z • W'), W'] lines = true := by
  subst hγ hz
  simp only [shplonk_bls24_315.BatchVerify_s1, verdict_ok_iff]
  refine iff_of_eq (congrArg (fun t => pcf [-t, W'] lines = true) ?_)
  simp [shGz, shRi, interpolate, lagrange, vanishing, mulLin, ztMinusSi, evalP, sumP, sumN, scaleP, subP, addP, npow,
    -mul_eq_mul_right_iff, -mul_eq_mul_left_iff, -mul_eq_zero, -add_left_inj, -add_right_inj, -sub_left_inj, -sub_right_inj]
  try ring_nf

/-- shape [2]: the generated `BatchVerify` (exponent model, dictionary `fp q`) accepts iff `Model.ArgPairing.shVerify` accepts, with
γ = the challenge derived from (points, CLAIMED VALUES, digests) and z = the challenge derived from W after γ — every input -/
theorem C17gen_bls24_315_sh_s2 (mS : Ex q → List UInt8) (mG : Ex q → List UInt8)
    (fsC : String → List (List UInt8) → List (List UInt8) → List UInt8) (frB : List UInt8 → Ex q) (h2 : 2 < q)
    (W W' v00 v01 d0 x00 x01 g1 : Ex q) (l : ℕ × ℕ) (q0 q1 : Unit) :
    shplonk_bls24_315.BatchVerify_s2 (G := Ex q) (G2 := Unit) (S := Ex q) (L := ℕ × ℕ) Ex.toInt mS mG fsC frB (pcFixed q) W W' v00 v01 d0 x00 x01 q0 q1 g1 l = Res.ok ↔
      shVerify (fp q) g1.v l.1 l.2 ⟨W.v, W'.v, [[v00.v, v01.v]]⟩ [d0.v] [[x00.v, x01.v]]
        (frB (fsC "gamma" [mS x00, mS x01, mS v00, mS v01, mG d0] [])).v
        (frB (fsC "z" [mG W] [fsC "gamma" [mS x00, mS x01, mS v00, mS v01, mG d0] []])).v = some true := by
  have hq : NeZero q := ⟨(Fact.out : q.Prime).ne_zero⟩
  simp only [shplonk_bls24_315.BatchVerify_s2, pcFixed_eq_pc]
  simp only [shVerify, List.length_cons, List.length_nil, ne_eq, not_true_eq_false, if_false, Option.some.injEq]
  apply res_ok_iff_of_eq
  apply fp_pairingCheck_congr
  simp [ArgPairing.dot, shFolded, shGz, shRi, interpolate, lagrange, vanishing, mulLin, ztMinusSi, evalP, sumP, sumN, scaleP, subP, addP,
    npow, cast_fp_inv q h2, cast_fp_sub, (by decide : List.range 2 = [0, 1]), (by decide : List.range 1 = [0]),
    -mul_eq_mul_right_iff, -mul_eq_mul_left_iff, -mul_eq_zero, -add_left_inj, -add_right_inj, -sub_left_inj,
    -sub_right_inj]
  try ring

/-- BINDING (what /repo fix 420bc96 repaired): in the generated def the challenge γ is a function of the claimed values — two runs that
differ only in what the transcript returns for the list (points, claimed values, digests) are run with the corresponding γ; the list
handed to `fsChallenge "gamma"` is exactly [points…, claimed values…, digests…] and z is derived from W after γ -/
theorem C17gen_bls24_315_sh_s2_binding {G G2 S L : Type} [AddCommGroup G] [Field S] [BEq G2] (toInt : S → Int) (mS : S → List UInt8)
    (mG : G → List UInt8) (fsC fsC' : String → List (List UInt8) → List (List UInt8) → List UInt8) (frB : List UInt8 → S)
    (pcf : List G → L → Bool) (W W' : G) (v00 v01 : S) (d0 : G) (x00 x01 : S) (q0 q1 : G2) (g1 : G) (lines : L)
    (hg : fsC' "gamma" [mS x00, mS x01, mS v00, mS v01, mG d0] [] = fsC "gamma" [mS x00, mS x01, mS v00, mS v01, mG d0] [])
    (hz : fsC' "z" [mG W] [fsC "gamma" [mS x00, mS x01, mS v00, mS v01, mG d0] []] = fsC "z" [mG W] [fsC "gamma" [mS x00, mS x01, mS v00, mS v01, mG d0] []]) :
    shplonk_bls24_315.BatchVerify_s2 toInt mS mG fsC' frB pcf W W' v00 v01 d0 x00 x01 q0 q1 g1 lines
      = shplonk_bls24_315.BatchVerify_s2 toInt mS mG fsC frB pcf W W' v00 v01 d0 x00 x01 q0 q1 g1 lines := by
  simp only [shplonk_bls24_315.BatchVerify_s2, hg, hz]

/-- abstract level, shape [2]: over ANY commutative group `G` and field `S` the Go text returns nil iff the pairing check holds of
`−(Σᵢ [γⁱ·Z_(T∖Sᵢ)(z)]Cᵢ − [Σᵢ γⁱ·Z_(T∖Sᵢ)(z)·rᵢ(z)]G₁ − [Z_T(z)]W + [z]W')` and `W'` (the scalars written with the polynomial functions of
Model/ArgPairing.lean over the field itself), γ and z being the two transcript challenges -/
theorem C17gen_bls24_315_sh_s2_abstract {G G2 S L : Type} [AddCommGroup G] [Field S] [DecidableEq S] [BEq G2] (toInt : S → Int)
    (mS : S → List UInt8) (mG : G → List UInt8) (fsC : String → List (List UInt8) → List (List UInt8) → List UInt8)
    (frB : List UInt8 → S) (pcf : List G → L → Bool) (W W' : G) (v00 v01 : S) (d0 : G) (x00 x01 : S)
    (q0 q1 : G2) (g1 : G) (lines : L) (γ z : S) (hγ : γ = frB (fsC "gamma" [mS x00, mS x01, mS v00, mS v01, mG d0] [])) (hz : z = frB (fsC "z" [mG W] [fsC "gamma" [mS x00, mS x01, mS v00, mS v01, mG d0] []])) :
    shplonk_bls24_315.BatchVerify_s2 toInt mS mG fsC frB pcf W W' v00 v01 d0 x00 x01 q0 q1 g1 lines = Res.ok ↔
      pcf [-(toInt (shGz (ofField S) [[x00, x01]] γ z 0) • d0
            - toInt (sumN (ofField S) (fun i => shGz (ofField S) [[x00, x01]] γ z i * evalP (ofField S) (shRi (ofField S) [[x00, x01]] [[v00, v01]] i) z) 1) • g1
            - toInt (evalP (ofField S) (vanishing (ofField S) [x00, x01]) z) • W + toInt z • W'), W'] lines = true := by
  subst hγ hz
  simp only [shplonk_bls24_315.BatchVerify_s2, verdict_ok_iff]
  refine iff_of_eq (congrArg (fun t => pcf [-t, W'] lines = true) ?_)
  simp [shGz, shRi, interpolate, lagrange, vanishing, mulLin, ztMinusSi, evalP, sumP, sumN, scaleP, subP, addP, npow,
    -mul_eq_mul_right_iff, -mul_eq_mul_left_iff, -mul_eq_zero, -add_left_inj, -add_right_inj, -sub_left_inj, -sub_right_inj]
  try ring_nf

/-- shape [1, 1]: the generated `BatchVerify` (exponent model, dictionary `fp q`) accepts iff `Model.ArgPairing.shVerify` accepts, with
γ = the challenge derived from (points, CLAIMED VALUES, digests) and z = the challenge derived from W after γ — every input -/
theorem C17gen_bls24_315_sh_s11 (mS : Ex q → List UInt8) (mG : Ex q → List UInt8)
    (fsC : String → List (List UInt8) → List (List UInt8) → List UInt8) (frB : List UInt8 → Ex q) (h2 : 2 < q)
    (W W' v00 v10 d0 d1 x00 x10 g1 : Ex q) (l : ℕ × ℕ) (q0 q1 : Unit) :
    shplonk_bls24_315.BatchVerify_s11 (G := Ex q) (G2 := Unit) (S := Ex q) (L := ℕ × ℕ) Ex.toInt mS mG fsC frB (pcFixed q) W W' v00 v10 d0 d1 x00 x10 q0 q1 g1 l = Res.ok ↔
      shVerify (fp q) g1.v l.1 l.2 ⟨W.v, W'.v, [[v00.v], [v10.v]]⟩ [d0.v, d1.v] [[x00.v], [x10.v]]
        (frB (fsC "gamma" [mS x00, mS x10, mS v00, mS v10, mG d0, mG d1] [])).v
        (frB (fsC "z" [mG W] [fsC "gamma" [mS x00, mS x10, mS v00, mS v10, mG d0, mG d1] []])).v = some true := by
  have hq : NeZero q := ⟨(Fact.out : q.Prime).ne_zero⟩
  simp only [shplonk_bls24_315.BatchVerify_s11, pcFixed_eq_pc]
  simp only [shVerify, List.length_cons, List.length_nil, ne_eq, not_true_eq_false, if_false, Option.some.injEq]
  apply res_ok_iff_of_eq
  apply fp_pairingCheck_congr
  simp [ArgPairing.dot, shFolded, shGz, shRi, interpolate, lagrange, vanishing, mulLin, ztMinusSi, evalP, sumP, sumN, scaleP, subP, addP,
    npow, cast_fp_inv q h2, cast_fp_sub, (by decide : List.range 2 = [0, 1]), (by decide : List.range 1 = [0]),
    -mul_eq_mul_right_iff, -mul_eq_mul_left_iff, -mul_eq_zero, -add_left_inj, -add_right_inj, -sub_left_inj,
    -sub_right_inj]
  try ring

/-- BINDING (what /repo fix 420bc96 repaired): in the generated def the challenge γ is a function of the claimed values — two runs that
differ only in what the transcript returns for the list (points, claimed values, digests) are run with the corresponding γ; the list
handed to `fsChallenge "gamma"` is exactly [points…, claimed values…, digests…] and z is derived from W after γ -/
theorem C17gen_bls24_315_sh_s11_binding {G G2 S L : Type} [AddCommGroup G] [Field S] [BEq G2] (toInt : S → Int) (mS : S → List UInt8)
    (mG : G → List UInt8) (fsC fsC' : String → List (List UInt8) → List (List UInt8) → List UInt8) (frB : List UInt8 → S)
    (pcf : List G → L → Bool) (W W' : G) (v00 v10 : S) (d0 d1 : G) (x00 x10 : S) (q0 q1 : G2) (g1 : G) (lines : L)
    (hg : fsC' "gamma" [mS x00, mS x10, mS v00, mS v10, mG d0, mG d1] [] = fsC "gamma" [mS x00, mS x10, mS v00, mS v10, mG d0, mG d1] [])
    (hz : fsC' "z" [mG W] [fsC "gamma" [mS x00, mS x10, mS v00, mS v10, mG d0, mG d1] []] = fsC "z" [mG W] [fsC "gamma" [mS x00, mS x10, mS v00, mS v10, mG d0, mG d1] []]) :
    shplonk_bls24_315.BatchVerify_s11 toInt mS mG fsC' frB pcf W W' v00 v10 d0 d1 x00 x10 q0 q1 g1 lines
      = shplonk_bls24_315.BatchVerify_s11 toInt mS mG fsC frB pcf W W' v00 v10 d0 d1 x00 x10 q0 q1 g1 lines := by
  simp only [shplonk_bls24_315.BatchVerify_s11, hg, hz]

/-- abstract level, shape [1, 1]: over ANY commutative group `G` and field `S` the Go text returns nil iff the pairing check holds of
`−(Σᵢ [γⁱ·Z_(T∖Sᵢ)(z)]Cᵢ − [Σᵢ γⁱ·Z_(T∖Sᵢ)(z)·rᵢ(z)]G₁ − [Z_T(z)]W + [z]W')` and `W'` (the scalars written with the polynomial functions of
Model/ArgPairing.lean over the field itself), γ and z being the two transcript challenges -/
theorem C17gen_bls24_315_sh_s11_abstract {G G2 S L : Type} [AddCommGroup G] [Field S] [DecidableEq S] [BEq G2] (toInt : S → Int)
    (mS : S → List UInt8) (mG : G → List UInt8) (fsC : String → List (List UInt8) → List (List UInt8) → List UInt8)
    (frB : List UInt8 → S) (pcf : List G → L → Bool) (W W' : G) (v00 v10 : S) (d0 d1 : G) (x00 x10 : S)
    (q0 q1 : G2) (g1 : G) (lines : L) (γ z : S) (hγ : γ = frB (fsC "gamma" [mS x00, mS x10, mS v00, mS v10, mG d0, mG d1] [])) (hz : z = frB (fsC "z" [mG W] [fsC "gamma" [mS x00, mS x10, mS v00, mS v10, mG d0, mG d1] []])) :
    shplonk_bls24_315.BatchVerify_s11 toInt mS mG fsC frB pcf W W' v00 v10 d0 d1 x00 x10 q0 q1 g1 lines = Res.ok ↔
      pcf [-(toInt (shGz (ofField S) [[x00], [x10]] γ z 0) • d0 + toInt (shGz (ofField S) [[x00], [x10]] γ z 1) • d1
            - toInt (sumN (ofField S) (fun i => shGz (ofField S) [[x00], [x10]] γ z i * evalP (ofField S) (shRi (ofField S) [[x00], [x10]] [[v00], [v10]] i) z) 2) • g1
            - toInt (evalP (ofField S) (vanishing (ofField S) [x00, x10]) z) • W + toInt z • W'), W'] lines = true := by
  subst hγ hz
  simp only [shplonk_bls24_315.BatchVerify_s11, verdict_ok_iff]
  refine iff_of_eq (congrArg (fun t => pcf [-t, W'] lines = true) ?_)
  simp [shGz, shRi, interpolate, lagrange, vanishing, mulLin, ztMinusSi, evalP, sumP, sumN, scaleP, subP, addP, npow,
    -mul_eq_mul_right_iff, -mul_eq_mul_left_iff, -mul_eq_zero, -add_left_inj, -add_right_inj, -sub_left_inj, -sub_right_inj]
  try ring_nf

/-- shape [2, 1]: the generated `BatchVerify` (exponent model, dictionary `fp q`) accepts iff `Model.ArgPairing.shVerify` accepts, with
γ = the challenge derived from (points, CLAIMED VALUES, digests) and z = the challenge derived from W after γ — every input -/
theorem C17gen_bls24_315_sh_s21 (mS : Ex q → List UInt8) (mG : Ex q → List UInt8)
    (fsC : String → List (List UInt8) → List (List UInt8) → List UInt8) (frB : List UInt8 → Ex q) (h2 : 2 < q)
    (W W' v00 v01 v10 d0 d1 x00 x01 x10 g1 : Ex q) (l : ℕ × ℕ) (q0 q1 : Unit) :
    shplonk_bls24_315.BatchVerify_s21 (G := Ex q) (G2 := Unit) (S := Ex q) (L := ℕ × ℕ) Ex.toInt mS mG fsC frB (pcFixed q) W W' v00 v01 v10 d0 d1 x00 x01 x10 q0 q1 g1 l = Res.ok ↔
      shVerify (fp q) g1.v l.1 l.2 ⟨W.v, W'.v, [[v00.v, v01.v], [v10.v]]⟩ [d0.v, d1.v] [[x00.v, x01.v], [x10.v]]
        (frB (fsC "gamma" [mS x00, mS x01, mS x10, mS v00, mS v01, mS v10, mG d0, mG d1] [])).v
        (frB (fsC "z" [mG W] [fsC "gamma" [mS x00, mS x01, mS x10, mS v00, mS v01, mS v10, mG d0, mG d1] []])).v = some true := by
  have hq : NeZero q := ⟨(Fact.out : q.Prime).ne_zero⟩
  simp only [shplonk_bls24_315.BatchVerify_s21, pcFixed_eq_pc]
  simp only [shVerify, List.length_cons, List.length_nil, ne_eq, not_true_eq_false, if_false, Option.some.injEq]
  apply res_ok_iff_of_eq
  apply fp_pairingCheck_congr
  simp [ArgPairing.dot, shFolded, shGz, shRi, interpolate, lagrange, vanishing, mulLin, ztMinusSi, evalP, sumP, sumN, scaleP, subP, addP,
    npow, cast_fp_inv q h2, cast_fp_sub, (by decide : List.range 2 = [0, 1]), (by decide : List.range 1 = [0]),
    -mul_eq_mul_right_iff, -mul_eq_mul_left_iff, -mul_eq_zero, -add_left_inj, -add_right_inj, -sub_left_inj,
    -sub_right_inj]
  try ring

/-- BINDING (what /repo fix 420bc96 repaired): in the generated def the challenge γ is a function of the claimed values — two runs that
differ only in what the transcript returns for the list (points, claimed values, digests) are run with the corresponding γ; the list
handed to `fsChallenge "gamma"` is exactly [points…, claimed values…, digests…] and z is derived from W after γ -/
theorem C17gen_bls24_315_sh_s21_binding {G G2 S L : Type} [AddCommGroup G] [Field S] [BEq G2] (toInt : S → Int) (mS : S → List UInt8)
    (mG : G → List UInt8) (fsC fsC' : String → List (List UInt8) → List (List UInt8) → List UInt8) (frB : List UInt8 → S)
    (pcf : List G → L → Bool) (W W' : G) (v00 v01 v10 : S) (d0 d1 : G) (x00 x01 x10 : S) (q0 q1 : G2) (g1 : G) (lines : L)
    (hg : fsC' "gamma" [mS x00, mS x01, mS x10, mS v00, mS v01, mS v10, mG d0, mG d1] [] = fsC "gamma" [mS x00, mS x01, mS x10, mS v00, mS v01, mS v10, mG d0, mG d1] [])
    (hz : fsC' "z" [mG W] [fsC "gamma" [mS x00, mS x01, mS x10, mS v00, mS v01, mS v10, mG d0, mG d1] []] = fsC "z" [mG W] [fsC "gamma" [mS x00, mS x01, mS x10, mS v00, mS v01, mS v10, mG d0, mG d1] []]) :
    shplonk_bls24_315.BatchVerify_s21 toInt mS mG fsC' frB pcf W W' v00 v01 v10 d0 d1 x00 x01 x10 q0 q1 g1 lines
      = shplonk_bls24_315.BatchVerify_s21 toInt mS mG fsC frB pcf W W' v00 v01 v10 d0 d1 x00 x01 x10 q0 q1 g1 lines := by
  simp only [shplonk_bls24_315.BatchVerify_s21, hg, hz]

/-- abstract level, shape [2, 1]: over ANY commutative group `G` and field `S` the Go text returns nil iff the pairing check holds of
`−(Σᵢ [γⁱ·Z_(T∖Sᵢ)(z)]Cᵢ − [Σᵢ γⁱ·Z_(T∖Sᵢ)(z)·rᵢ(z)]G₁ − [Z_T(z)]W + [z]W')` and `W'` (the scalars written with the polynomial functions of
Model/ArgPairing.lean over the field itself), γ and z being the two transcript challenges -/
theorem C17gen_bls24_315_sh_s21_abstract {G G2 S L : Type} [AddCommGroup G] [Field S] [DecidableEq S] [BEq G2] (toInt : S → Int)
    (mS : S → List UInt8) (mG : G → List UInt8) (fsC : String → List (List UInt8) → List (List UInt8) → List UInt8)
    (frB : List UInt8 → S) (pcf : List G → L → Bool) (W W' : G) (v00 v01 v10 : S) (d0 d1 : G) (x00 x01 x10 : S)
    (q0 q1 : G2) (g1 : G) (lines : L) (γ z : S) (hγ : γ = frB (fsC "gamma" [mS x00, mS x01, mS x10, mS v00, mS v01, mS v10, mG d0, mG d1] [])) (hz : z = frB (fsC "z" [mG W] [fsC "gamma" [mS x00, mS x01, mS x10, mS v00, mS v01, mS v10, mG d0, mG d1] []])) :
    shplonk_bls24_315.BatchVerify_s21 toInt mS mG fsC frB pcf W W' v00 v01 v10 d0 d1 x00 x01 x10 q0 q1 g1 lines = Res.ok ↔
      pcf [-(toInt (shGz (ofField S) [[x00, x01], [x10]] γ z 0) • d0 + toInt (shGz (ofField S) [[x00, x01], [x10]] γ z 1) • d1
            - toInt (sumN (ofField S) (fun i => shGz (ofField S) [[x00, x01], [x10]] γ z i * evalP (ofField S) (shRi (ofField S) [[x00, x01], [x10]] [[v00, v01], [v10]] i) z) 2) • g1
            - toInt (evalP (ofField S) (vanishing (ofField S) [x00, x01, x10]) z) • W + toInt z • W'), W'] lines = true := by
  subst hγ hz
  simp only [shplonk_bls24_315.BatchVerify_s21, verdict_ok_iff]
  refine iff_of_eq (congrArg (fun t => pcf [-t, W'] lines = true) ?_)
  simp [shGz, shRi, interpolate, lagrange, vanishing, mulLin, ztMinusSi, evalP, sumP, sumN, scaleP, subP, addP, npow,
    -mul_eq_mul_right_iff, -mul_eq_mul_left_iff, -mul_eq_zero, -add_left_inj, -add_right_inj, -sub_left_inj, -sub_right_inj]
  try ring_nf

/-- shape [2, 2]: the generated `BatchVerify` (exponent model, dictionary `fp q`) accepts iff `Model.ArgPairing.shVerify` accepts, with
γ = the challenge derived from (points, CLAIMED VALUES, digests) and z = the challenge derived from W after γ — every input -/
theorem C17gen_bls24_315_sh_s22 (mS : Ex q → List UInt8) (mG : Ex q → List UInt8)
    (fsC : String → List (List UInt8) → List (List UInt8) → List UInt8) (frB : List UInt8 → Ex q) (h2 : 2 < q)
    (W W' v00 v01 v10 v11 d0 d1 x00 x01 x10 x11 g1 : Ex q) (l : ℕ × ℕ) (q0 q1 : Unit) :
    shplonk_bls24_315.BatchVerify_s22 (G := Ex q) (G2 := Unit) (S := Ex q) (L := ℕ × ℕ) Ex.toInt mS mG fsC frB (pcFixed q) W W' v00 v01 v10 v11 d0 d1 x00 x01 x10 x11 q0 q1 g1 l = Res.ok ↔
      shVerify (fp q) g1.v l.1 l.2 ⟨W.v, W'.v, [[v00.v, v01.v], [v10.v, v11.v]]⟩ [d0.v, d1.v] [[x00.v, x01.v], [x10.v, x11.v]]
        (frB (fsC "gamma" [mS x00, mS x01, mS x10, mS x11, mS v00, mS v01, mS v10, mS v11, mG d0, mG d1] [])).v
        (frB (fsC "z" [mG W] [fsC "gamma" [mS x00, mS x01, mS x10, mS x11, mS v00, mS v01, mS v10, mS v11, mG d0, mG d1] []])).v = some true := by
  have hq : NeZero q := ⟨(Fact.out : q.Prime).ne_zero⟩
  simp only [shplonk_bls24_315.BatchVerify_s22, pcFixed_eq_pc]
  simp only [shVerify, List.length_cons, List.length_nil, ne_eq, not_true_eq_false, if_false, Option.some.injEq]
  apply res_ok_iff_of_eq
  apply fp_pairingCheck_congr
  simp [ArgPairing.dot, shFolded, shGz, shRi, interpolate, lagrange, vanishing, mulLin, ztMinusSi, evalP, sumP, sumN, scaleP, subP, addP,
    npow, cast_fp_inv q h2, cast_fp_sub, (by decide : List.range 2 = [0, 1]), (by decide : List.range 1 = [0]),
    -mul_eq_mul_right_iff, -mul_eq_mul_left_iff, -mul_eq_zero, -add_left_inj, -add_right_inj, -sub_left_inj,
    -sub_right_inj]
  try ring

/-- BINDING (what /repo fix 420bc96 repaired): in the generated def the challenge γ is a function of the claimed values — two runs that
differ only in what the transcript returns for the list (points, claimed values, digests) are run with the corresponding γ; the list
handed to `fsChallenge "gamma"` is exactly [points…, claimed values…, digests…] and z is derived from W after γ -/
theorem C17gen_bls24_315_sh_s22_binding {G G2 S L : Type} [AddCommGroup G] [Field S] [BEq G2] (toInt : S → Int) (mS : S → List UInt8)
    (mG : G → List UInt8) (fsC fsC' : String → List (List UInt8) → List (List UInt8) → List UInt8) (frB : List UInt8 → S)
    (pcf : List G → L → Bool) (W W' : G) (v00 v01 v10 v11 : S) (d0 d1 : G) (x00 x01 x10 x11 : S) (q0 q1 : G2) (g1 : G) (lines : L)
    (hg : fsC' "gamma" [mS x00, mS x01, mS x10, mS x11, mS v00, mS v01, mS v10, mS v11, mG d0, mG d1] [] = fsC "gamma" [mS x00, mS x01, mS x10, mS x11, mS v00, mS v01, mS v10, mS v11, mG d0, mG d1] [])
    (hz : fsC' "z" [mG W] [fsC "gamma" [mS x00, mS x01, mS x10, mS x11, mS v00, mS v01, mS v10, mS v11, mG d0, mG d1] []] = fsC "z" [mG W] [fsC "gamma" [mS x00, mS x01, mS x10, mS x11, mS v00, mS v01, mS v10, mS v11, mG d0, mG d1] []]) :
    shplonk_bls24_315.BatchVerify_s22 toInt mS mG fsC' frB pcf W W' v00 v01 v10 v11 d0 d1 x00 x01 x10 x11 q0 q1 g1 lines
      = shplonk_bls24_315.BatchVerify_s22 toInt mS mG fsC frB pcf W W' v00 v01 v10 v11 d0 d1 x00 x01 x10 x11 q0 q1 g1 lines := by
  simp only [shplonk_bls24_315.BatchVerify_s22, hg, hz]

/-- abstract level, shape [2, 2]: over ANY commutative group `G` and field `S` the Go text returns nil iff the pairing check holds of
`−(Σᵢ [γⁱ·Z_(T∖Sᵢ)(z)]Cᵢ − [Σᵢ γⁱ·Z_(T∖Sᵢ)(z)·rᵢ(z)]G₁ − [Z_T(z)]W + [z]W')` and `W'` (the scalars written with the polynomial functions of
Model/ArgPairing.lean over the field itself), γ and z being the two transcript challenges -/
theorem C17gen_bls24_315_sh_s22_abstract {G G2 S L : Type} [AddCommGroup G] [Field S] [DecidableEq S] [BEq G2] (toInt : S → Int)
    (mS : S → List UInt8) (mG : G → List UInt8) (fsC : String → List (List UInt8) → List (List UInt8) → List UInt8)
    (frB : List UInt8 → S) (pcf : List G → L → Bool) (W W' : G) (v00 v01 v10 v11 : S) (d0 d1 : G) (x00 x01 x10 x11 : S)
    (q0 q1 : G2) (g1 : G) (lines : L) (γ z : S) (hγ : γ = frB (fsC "gamma" [mS x00, mS x01, mS x10, mS x11, mS v00, mS v01, mS v10, mS v11, mG d0, mG d1] [])) (hz : z = frB (fsC "z" [mG W] [fsC "gamma" [mS x00, mS x01, mS x10, mS x11, mS v00, mS v01, mS v10, mS v11, mG d0, mG d1] []])) :
    shplonk_bls24_315.BatchVerify_s22 toInt mS mG fsC frB pcf W W' v00 v01 v10 v11 d0 d1 x00 x01 x10 x11 q0 q1 g1 lines = Res.ok ↔
      pcf [-(toInt (shGz (ofField S) [[x00, x01], [x10, x11]] γ z 0) • d0 + toInt (shGz (ofField S) [[x00, x01], [x10, x11]] γ z 1) • d1
            - toInt (sumN (ofField S) (fun i => shGz (ofField S) [[x00, x01], [x10, x11]] γ z i * evalP (ofField S) (shRi (ofField S) [[x00, x01], [x10, x11]] [[v00, v01], [v10, v11]] i) z) 2) • g1
            - toInt (evalP (ofField S) (vanishing (ofField S) [x00, x01, x10, x11]) z) • W + toInt z • W'), W'] lines = true := by
  subst hγ hz
  simp only [shplonk_bls24_315.BatchVerify_s22, verdict_ok_iff]
  refine iff_of_eq (congrArg (fun t => pcf [-t, W'] lines = true) ?_)
  simp [shGz, shRi, interpolate, lagrange, vanishing, mulLin, ztMinusSi, evalP, sumP, sumN, scaleP, subP, addP, npow,
    -mul_eq_mul_right_iff, -mul_eq_mul_left_iff, -mul_eq_zero, -add_left_inj, -add_right_inj, -sub_left_inj, -sub_right_inj]
  try ring_nf

end GV.C17gen
