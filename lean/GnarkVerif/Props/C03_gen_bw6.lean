import GnarkVerif.Model.CurveCheck
import GnarkVerif.Gen.CurveConsts
import GnarkVerif.Gen.Fields
/-
C03 (tie T) — bw6-633, bw6-761.  Written by bin/mkc03gen.py; DO NOT EDIT by hand.

Kernel-checked facts about the constants that `tools/goslp/curveconsts.go` re-extracts from the CURRENT Go text on every
run (`GV.Gen.CurveConsts.<curve>.*`: init() of ecc/<curve>/<curve>.go, package comment) and the regenerated moduli
(`GV.Gen.<curve>_fp.q`, `_fr.q`).  Changing one digit of a generator, of thirdRootOneG1, lambdaGLV, xGen, a LoopCounter
entry, the twist … in the Go source breaks the corresponding proof below before any input is run.
The towers F_p² / F_p⁴ (non-residues) are those of `Model/Pairing` (C05/C06); scalar multiplications are the
inversion-free ladders of `Model/CurveCheck` (cross-checked against `Alg.Curve.smulNat` by the `ladder_agrees` theorems).
-/
namespace GV.C03gen
open GV GV.Alg GV.Gen GV.CurveCheck

namespace bw6_633
/-! ### ecc/bw6-633 -/
def p : Nat := bw6_633_fp.q
def r : Nat := bw6_633_fr.q
def E1 : Curve Nat := { F := fp p, a := red p CurveConsts.bw6_633.aCurveCoeff, b := red p CurveConsts.bw6_633.bCurveCoeff }
def G1 : Nat × Nat := (red p CurveConsts.bw6_633.g1Gen_X, red p CurveConsts.bw6_633.g1Gen_Y)

/-- the package comment states the moduli of the field packages -/
theorem doc_moduli : CurveConsts.bw6_633.docP = p ∧ CurveConsts.bw6_633.docR = r := by decide +kernel

/-- the G1 generator literals are canonical (`0 ≤ · < p`, `Z = 1`) -/
theorem g1_literals_canonical :
    (canon p [CurveConsts.bw6_633.g1Gen_X, CurveConsts.bw6_633.g1Gen_Y] && CurveConsts.bw6_633.g1Gen_Z == 1) = true := by decide +kernel

/-- `g1Gen` satisfies `y² = x³ + a·x + b` over F_p and `[r]g1Gen = O` -/
theorem g1_on_curve_and_order_r : genOk E1 r G1 = true := by decide +kernel

/-- the Jacobian ladder used above agrees with the textbook affine law on `[0]G … [5]G` -/
theorem g1_ladder_agrees : ladderAgrees E1 6 G1 = true := by decide +kernel

def ω : Nat := red p CurveConsts.bw6_633.thirdRootOneG1
def lam : Nat := CurveConsts.bw6_633.lambdaGLV.toNat

/-- `thirdRootOneG1` is a primitive cube root of unity of F_p (canonical literal) -/
theorem thirdRootOneG1_ok :
    canon p [CurveConsts.bw6_633.thirdRootOneG1] = true ∧ ω ^ 3 % p = 1 ∧ ω ≠ 1 := by decide +kernel

/-- `lambdaGLV` is a primitive cube root of unity modulo r: λ² + λ + 1 ≡ 0, λ > 0 -/
theorem lambdaGLV_ok :
    0 < CurveConsts.bw6_633.lambdaGLV ∧ (lam * lam + lam + 1) % r = 0 := by decide +kernel

/-- `lambdaGLV` is reduced modulo r -/
theorem lambdaGLV_reduced : CurveConsts.bw6_633.lambdaGLV < r := by decide +kernel

/-- eigenvalue relation on the generator: φ(G) = (ω·x, y) = [λ]G -/
theorem glv_g1 : glvOk E1 lam ω G1 = true := by decide +kernel

/-- `init()` derives the GLV lattice from these very constants -/
theorem glvBasis_from_lambda : CurveConsts.bw6_633.glvBasisFromLambda = true := by decide

abbrev τ := Nat
def T : FOps τ := Pairing.bw6_633.T
def ofL (l : List Int) : τ := toT1 p l
def ξ : τ := T.zero
def b' : Option τ :=
  bTwistOf T CurveConsts.bw6_633.bTwistCurveCoeffExpr (ofL CurveConsts.bw6_633.bTwistCurveCoeff) ξ (red p CurveConsts.bw6_633.bCurveCoeff)
def E2 : Curve τ := twistCurve T b'
def G2 : τ × τ := (ofL CurveConsts.bw6_633.g2Gen_X, ofL CurveConsts.bw6_633.g2Gen_Y)

/-- shape of the G2 literals: degree of the twist field, canonical coordinates, `Z = 1` -/
theorem g2_literals_canonical :
    (CurveConsts.bw6_633.degTwist == 1
      && CurveConsts.bw6_633.g2Gen_X.length == 1 && CurveConsts.bw6_633.g2Gen_Y.length == 1
      && canon p (CurveConsts.bw6_633.g2Gen_X ++ CurveConsts.bw6_633.g2Gen_Y)
      && CurveConsts.bw6_633.g2Gen_Z == 1 :: List.replicate (1 - 1) 0) = true := by decide +kernel

/-- `bTwistCurveCoeff` is computed by a form the model knows, the twist is given as a literal of F_p (M-type) -/
theorem bTwist_known : b'.isSome = true ∧ CurveConsts.bw6_633.bTwistCurveCoeffExpr = "literal" := by decide +kernel

/-- `g2Gen` lies on the twist `y² = x³ + b'` over F_p and `[r]g2Gen = O` -/
theorem g2_on_curve_and_order_r : genOk E2 r G2 = true := by decide +kernel

theorem g2_ladder_agrees : ladderAgrees E2 4 G2 = true := by decide +kernel

/-- `thirdRootOneG2 = thirdRootOneG1²` (as `init()` computes it) acts on G2 as [λ] -/
theorem glv_g2 :
    CurveConsts.bw6_633.thirdRootOneG2Expr = "Square(thirdRootOneG1)" ∧ glvOk E2 lam (T.ofNat (ω * ω % p)) G2 = true := by
  decide +kernel

/-- the hand-written curve table of `Model/Pairing` (C05) carries the same constants as the Go source -/
theorem pairing_model_constants :
    Pairing.bw6_633.p = p ∧ Pairing.bw6_633.r = r ∧ Pairing.bw6_633.b % p = red p CurveConsts.bw6_633.bCurveCoeff
      ∧ Pairing.bw6_633.g1 = G1 ∧ Pairing.bw6_633.g2 = G2 ∧ Pairing.bw6_633.mTwist = true
      ∧ (T.beq Pairing.bw6_633.bT (b'.getD T.zero)) = true := by
  decide +kernel

/-- the seed: `xGen` is -x₀ of the package comment -/
theorem seed_doc : CurveConsts.bw6_633.docSeed = -CurveConsts.bw6_633.xGen ∧ 0 < CurveConsts.bw6_633.xGen := by decide +kernel

/-- two-chain: the scalar field of bw6_633 is the base field of bls24_315, same seed -/
theorem two_chain :
    r = bls24_315_fp.q ∧ CurveConsts.bw6_633.docSeed = CurveConsts.bls24_315.docSeed
      ∧ CurveConsts.bw6_633.lambdaGLV = CurveConsts.bls24_315.thirdRootOneG1 := by decide +kernel

/-- λ is the documented polynomial in the seed (1−x+2x²−2x³+3x⁵−4x⁶+4x⁷−3x⁸+x⁹); the polynomial is negative at x₀ < 0, the literal is its residue mod r -/
theorem lambdaGLV_doc :
    let x := CurveConsts.bw6_633.docSeed
    CurveConsts.bw6_633.lambdaGLV = (1 - x + 2*x^2 - 2*x^3 + 3*x^5 - 4*x^6 + 4*x^7 - 3*x^8 + x^9) + r := by decide +kernel

/-- the two Miller-loop counters (comments of init() / pairing.go): `LoopCounter` ↔ −(x₀+1), `LoopCounter1` ↔ −(x₀⁵−x₀⁴−x₀) -/
theorem loopCounters_ok :
    let x := CurveConsts.bw6_633.docSeed
    (loopOk CurveConsts.bw6_633.LoopCounterLen CurveConsts.bw6_633.LoopCounterIsNaf CurveConsts.bw6_633.LoopCounterNafOf
        CurveConsts.bw6_633.LoopCounter (-(x + 1))
      && loopOk CurveConsts.bw6_633.LoopCounter1Len CurveConsts.bw6_633.LoopCounter1IsNaf CurveConsts.bw6_633.LoopCounter1NafOf
        CurveConsts.bw6_633.LoopCounter1 (-(x^5 - x^4 - x))
      && CurveConsts.bw6_633.LoopCounterLen == CurveConsts.bw6_633.LoopCounter1Len) = true := by decide +kernel

/-- `pairing.go`: "cases -4, -2, 2, 4 do not occur, given the static LoopCounters": 3·LoopCounter1[i] + LoopCounter[i] ∈ {−3,−1,0,1,3} -/
theorem loopCounters_joint_cases :
    (match loopArray CurveConsts.bw6_633.LoopCounterLen CurveConsts.bw6_633.LoopCounterIsNaf CurveConsts.bw6_633.LoopCounterNafOf CurveConsts.bw6_633.LoopCounter,
           loopArray CurveConsts.bw6_633.LoopCounter1Len CurveConsts.bw6_633.LoopCounter1IsNaf CurveConsts.bw6_633.LoopCounter1NafOf CurveConsts.bw6_633.LoopCounter1 with
     | some l0, some l1 => (List.zipWith (fun a b => 3 * b + a) l0 l1).all (fun j => j == -3 || j == -1 || j == 0 || j == 1 || j == 3)
     | _, _ => false) = true := by decide +kernel

theorem pairing_model_loop :
    let x := CurveConsts.bw6_633.docSeed
    loopCode Pairing.bw6_633.loop = [2, x ^ 5 - x ^ 4 - x, x + 1] := by decide +kernel

end bw6_633

namespace bw6_761
/-! ### ecc/bw6-761 -/
def p : Nat := bw6_761_fp.q
def r : Nat := bw6_761_fr.q
def E1 : Curve Nat := { F := fp p, a := red p CurveConsts.bw6_761.aCurveCoeff, b := red p CurveConsts.bw6_761.bCurveCoeff }
def G1 : Nat × Nat := (red p CurveConsts.bw6_761.g1Gen_X, red p CurveConsts.bw6_761.g1Gen_Y)

/-- the package comment states the moduli of the field packages -/
theorem doc_moduli : CurveConsts.bw6_761.docP = p ∧ CurveConsts.bw6_761.docR = r := by decide +kernel

/-- the G1 generator literals are canonical (`0 ≤ · < p`, `Z = 1`) -/
theorem g1_literals_canonical :
    (canon p [CurveConsts.bw6_761.g1Gen_X, CurveConsts.bw6_761.g1Gen_Y] && CurveConsts.bw6_761.g1Gen_Z == 1) = true := by decide +kernel

/-- `g1Gen` satisfies `y² = x³ + a·x + b` over F_p and `[r]g1Gen = O` -/
theorem g1_on_curve_and_order_r : genOk E1 r G1 = true := by decide +kernel

/-- the Jacobian ladder used above agrees with the textbook affine law on `[0]G … [5]G` -/
theorem g1_ladder_agrees : ladderAgrees E1 6 G1 = true := by decide +kernel

def ω : Nat := red p CurveConsts.bw6_761.thirdRootOneG1
def lam : Nat := CurveConsts.bw6_761.lambdaGLV.toNat

/-- `thirdRootOneG1` is a primitive cube root of unity of F_p (canonical literal) -/
theorem thirdRootOneG1_ok :
    canon p [CurveConsts.bw6_761.thirdRootOneG1] = true ∧ ω ^ 3 % p = 1 ∧ ω ≠ 1 := by decide +kernel

/-- `lambdaGLV` is a primitive cube root of unity modulo r: λ² + λ + 1 ≡ 0, λ > 0 -/
theorem lambdaGLV_ok :
    0 < CurveConsts.bw6_761.lambdaGLV ∧ (lam * lam + lam + 1) % r = 0 := by decide +kernel

/-- `lambdaGLV` is reduced modulo r -/
theorem lambdaGLV_reduced : CurveConsts.bw6_761.lambdaGLV < r := by decide +kernel

/-- eigenvalue relation on the generator: φ(G) = (ω·x, y) = [λ]G -/
theorem glv_g1 : glvOk E1 lam ω G1 = true := by decide +kernel

/-- `init()` derives the GLV lattice from these very constants -/
theorem glvBasis_from_lambda : CurveConsts.bw6_761.glvBasisFromLambda = true := by decide

abbrev τ := Nat
def T : FOps τ := Pairing.bw6_761.T
def ofL (l : List Int) : τ := toT1 p l
def ξ : τ := T.zero
def b' : Option τ :=
  bTwistOf T CurveConsts.bw6_761.bTwistCurveCoeffExpr (ofL CurveConsts.bw6_761.bTwistCurveCoeff) ξ (red p CurveConsts.bw6_761.bCurveCoeff)
def E2 : Curve τ := twistCurve T b'
def G2 : τ × τ := (ofL CurveConsts.bw6_761.g2Gen_X, ofL CurveConsts.bw6_761.g2Gen_Y)

/-- shape of the G2 literals: degree of the twist field, canonical coordinates, `Z = 1` -/
theorem g2_literals_canonical :
    (CurveConsts.bw6_761.degTwist == 1
      && CurveConsts.bw6_761.g2Gen_X.length == 1 && CurveConsts.bw6_761.g2Gen_Y.length == 1
      && canon p (CurveConsts.bw6_761.g2Gen_X ++ CurveConsts.bw6_761.g2Gen_Y)
      && CurveConsts.bw6_761.g2Gen_Z == 1 :: List.replicate (1 - 1) 0) = true := by decide +kernel

/-- `bTwistCurveCoeff` is computed by a form the model knows, the twist is given as a literal of F_p (M-type) -/
theorem bTwist_known : b'.isSome = true ∧ CurveConsts.bw6_761.bTwistCurveCoeffExpr = "literal" := by decide +kernel

/-- `g2Gen` lies on the twist `y² = x³ + b'` over F_p and `[r]g2Gen = O` -/
theorem g2_on_curve_and_order_r : genOk E2 r G2 = true := by decide +kernel

theorem g2_ladder_agrees : ladderAgrees E2 4 G2 = true := by decide +kernel

/-- `thirdRootOneG2 = thirdRootOneG1²` (as `init()` computes it) acts on G2 as [λ] -/
theorem glv_g2 :
    CurveConsts.bw6_761.thirdRootOneG2Expr = "Square(thirdRootOneG1)" ∧ glvOk E2 lam (T.ofNat (ω * ω % p)) G2 = true := by
  decide +kernel

/-- the hand-written curve table of `Model/Pairing` (C05) carries the same constants as the Go source -/
theorem pairing_model_constants :
    Pairing.bw6_761.p = p ∧ Pairing.bw6_761.r = r ∧ Pairing.bw6_761.b % p = red p CurveConsts.bw6_761.bCurveCoeff
      ∧ Pairing.bw6_761.g1 = G1 ∧ Pairing.bw6_761.g2 = G2 ∧ Pairing.bw6_761.mTwist = true
      ∧ (T.beq Pairing.bw6_761.bT (b'.getD T.zero)) = true := by
  decide +kernel

/-- the seed: `xGen` is x₀ of the package comment -/
theorem seed_doc : CurveConsts.bw6_761.docSeed = CurveConsts.bw6_761.xGen ∧ 0 < CurveConsts.bw6_761.xGen := by decide +kernel

/-- two-chain: the scalar field of bw6_761 is the base field of bls12_377, same seed -/
theorem two_chain :
    r = bls12_377_fp.q ∧ CurveConsts.bw6_761.docSeed = CurveConsts.bls12_377.docSeed
      ∧ CurveConsts.bw6_761.lambdaGLV = CurveConsts.bls12_377.thirdRootOneG1 := by decide +kernel

/-- λ is the documented polynomial in the seed (x⁵−3x⁴+3x³−x+1) -/
theorem lambdaGLV_doc :
    let x := CurveConsts.bw6_761.docSeed
    CurveConsts.bw6_761.lambdaGLV = x^5 - 3*x^4 + 3*x^3 - x + 1 := by decide +kernel

/-- the two Miller-loop counters (comments of init() / pairing.go): `LoopCounter` ↔ x₀+1, `LoopCounter1` ↔ x₀³−x₀²−x₀ -/
theorem loopCounters_ok :
    let x := CurveConsts.bw6_761.docSeed
    (loopOk CurveConsts.bw6_761.LoopCounterLen CurveConsts.bw6_761.LoopCounterIsNaf CurveConsts.bw6_761.LoopCounterNafOf
        CurveConsts.bw6_761.LoopCounter (x + 1)
      && loopOk CurveConsts.bw6_761.LoopCounter1Len CurveConsts.bw6_761.LoopCounter1IsNaf CurveConsts.bw6_761.LoopCounter1NafOf
        CurveConsts.bw6_761.LoopCounter1 (x^3 - x^2 - x)
      && CurveConsts.bw6_761.LoopCounterLen == CurveConsts.bw6_761.LoopCounter1Len) = true := by decide +kernel

/-- `pairing.go`: "cases -4, -2, 2, 4 do not occur, given the static LoopCounters": 3·LoopCounter1[i] + LoopCounter[i] ∈ {−3,−1,0,1,3} -/
theorem loopCounters_joint_cases :
    (match loopArray CurveConsts.bw6_761.LoopCounterLen CurveConsts.bw6_761.LoopCounterIsNaf CurveConsts.bw6_761.LoopCounterNafOf CurveConsts.bw6_761.LoopCounter,
           loopArray CurveConsts.bw6_761.LoopCounter1Len CurveConsts.bw6_761.LoopCounter1IsNaf CurveConsts.bw6_761.LoopCounter1NafOf CurveConsts.bw6_761.LoopCounter1 with
     | some l0, some l1 => (List.zipWith (fun a b => 3 * b + a) l0 l1).all (fun j => j == -3 || j == -1 || j == 0 || j == 1 || j == 3)
     | _, _ => false) = true := by decide +kernel

theorem pairing_model_loop :
    let x := CurveConsts.bw6_761.docSeed
    loopCode Pairing.bw6_761.loop = [2, x + 1, x ^ 3 - x ^ 2 - x] := by decide +kernel

end bw6_761

end GV.C03gen
