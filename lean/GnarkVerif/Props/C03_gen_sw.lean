import GnarkVerif.Model.CurveCheck
import GnarkVerif.Gen.CurveConsts
import GnarkVerif.Gen.Fields
/-
C03 (tie T) — bn254, grumpkin, secp256k1, stark-curve.  Written by bin/mkc03gen.py; DO NOT EDIT by hand.

Kernel-checked facts about the constants that `tools/goslp/curveconsts.go` re-extracts from the CURRENT Go text on every
run (`GV.Gen.CurveConsts.<curve>.*`: init() of ecc/<curve>/<curve>.go, package comment) and the regenerated moduli
(`GV.Gen.<curve>_fp.q`, `_fr.q`).  Changing one digit of a generator, of thirdRootOneG1, lambdaGLV, xGen, a LoopCounter
entry, the twist … in the Go source breaks the corresponding proof below before any input is run.
The towers F_p² / F_p⁴ (non-residues) are those of `Model/Pairing` (C05/C06); scalar multiplications are the
inversion-free ladders of `Model/CurveCheck` (cross-checked against `Alg.Curve.smulNat` by the `ladder_agrees` theorems).
-/
namespace GV.C03gen
open GV GV.Alg GV.Gen GV.CurveCheck

namespace bn254
/-! ### ecc/bn254 -/
def p : Nat := bn254_fp.q
def r : Nat := bn254_fr.q
def E1 : Curve Nat := { F := fp p, a := red p CurveConsts.bn254.aCurveCoeff, b := red p CurveConsts.bn254.bCurveCoeff }
def G1 : Nat × Nat := (red p CurveConsts.bn254.g1Gen_X, red p CurveConsts.bn254.g1Gen_Y)

/-- the package comment states the moduli of the field packages -/
theorem doc_moduli : CurveConsts.bn254.docP = p ∧ CurveConsts.bn254.docR = r := by decide +kernel

/-- the G1 generator literals are canonical (`0 ≤ · < p`, `Z = 1`) -/
theorem g1_literals_canonical :
    (canon p [CurveConsts.bn254.g1Gen_X, CurveConsts.bn254.g1Gen_Y] && CurveConsts.bn254.g1Gen_Z == 1) = true := by decide +kernel

/-- `g1Gen` satisfies `y² = x³ + a·x + b` over F_p and `[r]g1Gen = O` -/
theorem g1_on_curve_and_order_r : genOk E1 r G1 = true := by decide +kernel

/-- the Jacobian ladder used above agrees with the textbook affine law on `[0]G … [5]G` -/
theorem g1_ladder_agrees : ladderAgrees E1 6 G1 = true := by decide +kernel

def ω : Nat := red p CurveConsts.bn254.thirdRootOneG1
def lam : Nat := CurveConsts.bn254.lambdaGLV.toNat

/-- `thirdRootOneG1` is a primitive cube root of unity of F_p (canonical literal) -/
theorem thirdRootOneG1_ok :
    canon p [CurveConsts.bn254.thirdRootOneG1] = true ∧ ω ^ 3 % p = 1 ∧ ω ≠ 1 := by decide +kernel

/-- `lambdaGLV` is a primitive cube root of unity modulo r: λ² + λ + 1 ≡ 0, λ > 0 -/
theorem lambdaGLV_ok :
    0 < CurveConsts.bn254.lambdaGLV ∧ (lam * lam + lam + 1) % r = 0 := by decide +kernel

/-- `lambdaGLV` is reduced modulo r -/
theorem lambdaGLV_reduced : CurveConsts.bn254.lambdaGLV < r := by decide +kernel

/-- eigenvalue relation on the generator: φ(G) = (ω·x, y) = [λ]G -/
theorem glv_g1 : glvOk E1 lam ω G1 = true := by decide +kernel

/-- `init()` derives the GLV lattice from these very constants -/
theorem glvBasis_from_lambda : CurveConsts.bn254.glvBasisFromLambda = true := by decide

abbrev τ := Pairing.T2
def T : FOps τ := Pairing.bn254.T
def ofL (l : List Int) : τ := toT2 p l
def ξ : τ := ofL CurveConsts.bn254.twist
def b' : Option τ :=
  bTwistOf T CurveConsts.bn254.bTwistCurveCoeffExpr (ofL CurveConsts.bn254.bTwistCurveCoeff) ξ (red p CurveConsts.bn254.bCurveCoeff)
def E2 : Curve τ := twistCurve T b'
def G2 : τ × τ := (ofL CurveConsts.bn254.g2Gen_X, ofL CurveConsts.bn254.g2Gen_Y)

/-- shape of the G2 literals: degree of the twist field, canonical coordinates, `Z = 1` -/
theorem g2_literals_canonical :
    (CurveConsts.bn254.degTwist == 2
      && CurveConsts.bn254.g2Gen_X.length == 2 && CurveConsts.bn254.g2Gen_Y.length == 2
      && canon p (CurveConsts.bn254.g2Gen_X ++ CurveConsts.bn254.g2Gen_Y)
      && CurveConsts.bn254.g2Gen_Z == 1 :: List.replicate (2 - 1) 0) = true := by decide +kernel

/-- `bTwistCurveCoeff` is computed by a form the model knows, the twist is D-type: b' = b/ξ -/
theorem bTwist_known : b'.isSome = true ∧ CurveConsts.bn254.bTwistCurveCoeffExpr = "Inverse(twist).MulByElement(bTwistCurveCoeff,bCurveCoeff)" := by decide +kernel

/-- `g2Gen` lies on the twist `y² = x³ + b'` over F_p² and `[r]g2Gen = O` -/
theorem g2_on_curve_and_order_r : genOk E2 r G2 = true := by decide +kernel

theorem g2_ladder_agrees : ladderAgrees E2 4 G2 = true := by decide +kernel

/-- `thirdRootOneG2 = thirdRootOneG1²` (as `init()` computes it) acts on G2 as [λ] -/
theorem glv_g2 :
    CurveConsts.bn254.thirdRootOneG2Expr = "Square(thirdRootOneG1)" ∧ glvOk E2 lam (T.ofNat (ω * ω % p)) G2 = true := by
  decide +kernel

/-- `endo.u`, `endo.v` are the Frobenius-twist coefficients ξ^((p−1)/3), ξ^((p−1)/2) (inverted on an M-twist) -/
theorem endo_ok :
    (CurveConsts.bn254.endo_u.length == 2 && CurveConsts.bn254.endo_v.length == 2
      && canon p (CurveConsts.bn254.endo_u ++ CurveConsts.bn254.endo_v)
      && endoOk T ξ p false (ofL CurveConsts.bn254.endo_u) (ofL CurveConsts.bn254.endo_v)) = true := by decide +kernel

/-- the hand-written curve table of `Model/Pairing` (C05) carries the same constants as the Go source -/
theorem pairing_model_constants :
    Pairing.bn254.p = p ∧ Pairing.bn254.r = r ∧ Pairing.bn254.b % p = red p CurveConsts.bn254.bCurveCoeff
      ∧ Pairing.bn254.g1 = G1 ∧ Pairing.bn254.g2 = G2 ∧ Pairing.bn254.mTwist = false
      ∧ (T.beq Pairing.bn254.bT (b'.getD T.zero)) = true ∧ Pairing.bn254.xi = ξ ∧ CurveConsts.bn254.twist.length = 2 := by
  decide +kernel

/-- the seed: `xGen` is x₀ of the package comment -/
theorem seed_doc : CurveConsts.bn254.docSeed = CurveConsts.bn254.xGen ∧ 0 < CurveConsts.bn254.xGen := by decide +kernel

/-- BN parametrisation: p = 36x⁴+36x³+24x²+6x+1, r = 36x⁴+36x³+18x²+6x+1, λ = 36x³+18x²+6x+1 -/
theorem seed_relations :
    let x := CurveConsts.bn254.docSeed
    (p : Int) = 36*x^4 + 36*x^3 + 24*x^2 + 6*x + 1 ∧ (r : Int) = 36*x^4 + 36*x^3 + 18*x^2 + 6*x + 1
      ∧ CurveConsts.bn254.lambdaGLV = 36*x^3 + 18*x^2 + 6*x + 1 := by decide +kernel

/-- `LoopCounter` = NAF of 6x₀+2: fits the declared array, digits in {−1,0,1}, Σ dᵢ·2ⁱ = 6x₀+2 -/
theorem loopCounter_ok :
    loopOk CurveConsts.bn254.LoopCounterLen CurveConsts.bn254.LoopCounterIsNaf CurveConsts.bn254.LoopCounterNafOf
      CurveConsts.bn254.LoopCounter (6 * CurveConsts.bn254.docSeed + 2) = true := by decide +kernel

theorem pairing_model_loop : loopCode Pairing.bn254.loop = [0, CurveConsts.bn254.docSeed] := by decide +kernel

end bn254

namespace grumpkin
/-! ### ecc/grumpkin -/
def p : Nat := grumpkin_fp.q
def r : Nat := grumpkin_fr.q
def E1 : Curve Nat := { F := fp p, a := red p CurveConsts.grumpkin.aCurveCoeff, b := red p CurveConsts.grumpkin.bCurveCoeff }
def G1 : Nat × Nat := (red p CurveConsts.grumpkin.g1Gen_X, red p CurveConsts.grumpkin.g1Gen_Y)

/-- the package comment states the moduli of the field packages -/
theorem doc_moduli : CurveConsts.grumpkin.docP = p ∧ CurveConsts.grumpkin.docR = r := by decide +kernel

/-- the G1 generator literals are canonical (`0 ≤ · < p`, `Z = 1`) -/
theorem g1_literals_canonical :
    (canon p [CurveConsts.grumpkin.g1Gen_X, CurveConsts.grumpkin.g1Gen_Y] && CurveConsts.grumpkin.g1Gen_Z == 1) = true := by decide +kernel

/-- `g1Gen` satisfies `y² = x³ + a·x + b` over F_p and `[r]g1Gen = O` -/
theorem g1_on_curve_and_order_r : genOk E1 r G1 = true := by decide +kernel

/-- the Jacobian ladder used above agrees with the textbook affine law on `[0]G … [5]G` -/
theorem g1_ladder_agrees : ladderAgrees E1 6 G1 = true := by decide +kernel

def ω : Nat := red p CurveConsts.grumpkin.thirdRootOneG1
def lam : Nat := CurveConsts.grumpkin.lambdaGLV.toNat

/-- `thirdRootOneG1` is a primitive cube root of unity of F_p (canonical literal) -/
theorem thirdRootOneG1_ok :
    canon p [CurveConsts.grumpkin.thirdRootOneG1] = true ∧ ω ^ 3 % p = 1 ∧ ω ≠ 1 := by decide +kernel

/-- `lambdaGLV` is a primitive cube root of unity modulo r: λ² + λ + 1 ≡ 0, λ > 0 -/
theorem lambdaGLV_ok :
    0 < CurveConsts.grumpkin.lambdaGLV ∧ (lam * lam + lam + 1) % r = 0 := by decide +kernel

/-- `lambdaGLV` is reduced modulo r -/
theorem lambdaGLV_reduced : CurveConsts.grumpkin.lambdaGLV < r := by decide +kernel

/-- eigenvalue relation on the generator: φ(G) = (ω·x, y) = [λ]G -/
theorem glv_g1 : glvOk E1 lam ω G1 = true := by decide +kernel

/-- `init()` derives the GLV lattice from these very constants -/
theorem glvBasis_from_lambda : CurveConsts.grumpkin.glvBasisFromLambda = true := by decide

/-- grumpkin is the bn254 cycle partner: fields swapped, cube roots swapped, same seed -/
theorem cycle_with_bn254 :
    p = bn254_fr.q ∧ r = bn254_fp.q ∧ CurveConsts.grumpkin.xGen = CurveConsts.bn254.xGen
      ∧ CurveConsts.grumpkin.thirdRootOneG1 = CurveConsts.bn254.lambdaGLV
      ∧ CurveConsts.grumpkin.lambdaGLV = CurveConsts.bn254.thirdRootOneG1 := by decide +kernel

end grumpkin

namespace secp256k1
/-! ### ecc/secp256k1 -/
def p : Nat := secp256k1_fp.q
def r : Nat := secp256k1_fr.q
def E1 : Curve Nat := { F := fp p, a := red p CurveConsts.secp256k1.aCurveCoeff, b := red p CurveConsts.secp256k1.bCurveCoeff }
def G1 : Nat × Nat := (red p CurveConsts.secp256k1.g1Gen_X, red p CurveConsts.secp256k1.g1Gen_Y)

/-- the package comment states the moduli of the field packages -/
theorem doc_moduli : CurveConsts.secp256k1.docP = p ∧ CurveConsts.secp256k1.docR = r := by decide +kernel

/-- the G1 generator literals are canonical (`0 ≤ · < p`, `Z = 1`) -/
theorem g1_literals_canonical :
    (canon p [CurveConsts.secp256k1.g1Gen_X, CurveConsts.secp256k1.g1Gen_Y] && CurveConsts.secp256k1.g1Gen_Z == 1) = true := by decide +kernel

/-- `g1Gen` satisfies `y² = x³ + a·x + b` over F_p and `[r]g1Gen = O` -/
theorem g1_on_curve_and_order_r : genOk E1 r G1 = true := by decide +kernel

/-- the Jacobian ladder used above agrees with the textbook affine law on `[0]G … [5]G` -/
theorem g1_ladder_agrees : ladderAgrees E1 6 G1 = true := by decide +kernel

def ω : Nat := red p CurveConsts.secp256k1.thirdRootOneG1
def lam : Nat := CurveConsts.secp256k1.lambdaGLV.toNat

/-- `thirdRootOneG1` is a primitive cube root of unity of F_p (canonical literal) -/
theorem thirdRootOneG1_ok :
    canon p [CurveConsts.secp256k1.thirdRootOneG1] = true ∧ ω ^ 3 % p = 1 ∧ ω ≠ 1 := by decide +kernel

/-- `lambdaGLV` is a primitive cube root of unity modulo r: λ² + λ + 1 ≡ 0, λ > 0 -/
theorem lambdaGLV_ok :
    0 < CurveConsts.secp256k1.lambdaGLV ∧ (lam * lam + lam + 1) % r = 0 := by decide +kernel

/-- `lambdaGLV` is reduced modulo r -/
theorem lambdaGLV_reduced : CurveConsts.secp256k1.lambdaGLV < r := by decide +kernel

/-- eigenvalue relation on the generator: φ(G) = (ω·x, y) = [λ]G -/
theorem glv_g1 : glvOk E1 lam ω G1 = true := by decide +kernel

/-- `init()` derives the GLV lattice from these very constants -/
theorem glvBasis_from_lambda : CurveConsts.secp256k1.glvBasisFromLambda = true := by decide

end secp256k1

namespace stark_curve
/-! ### ecc/stark-curve -/
def p : Nat := stark_curve_fp.q
def r : Nat := stark_curve_fr.q
def E1 : Curve Nat := { F := fp p, a := red p CurveConsts.stark_curve.aCurveCoeff, b := red p CurveConsts.stark_curve.bCurveCoeff }
def G1 : Nat × Nat := (red p CurveConsts.stark_curve.g1Gen_X, red p CurveConsts.stark_curve.g1Gen_Y)

/-- the package comment states the moduli of the field packages -/
theorem doc_moduli : CurveConsts.stark_curve.docP = p ∧ CurveConsts.stark_curve.docR = r := by decide +kernel

/-- the G1 generator literals are canonical (`0 ≤ · < p`, `Z = 1`) -/
theorem g1_literals_canonical :
    (canon p [CurveConsts.stark_curve.g1Gen_X, CurveConsts.stark_curve.g1Gen_Y] && CurveConsts.stark_curve.g1Gen_Z == 1) = true := by decide +kernel

/-- `g1Gen` satisfies `y² = x³ + a·x + b` over F_p and `[r]g1Gen = O` -/
theorem g1_on_curve_and_order_r : genOk E1 r G1 = true := by decide +kernel

/-- the Jacobian ladder used above agrees with the textbook affine law on `[0]G … [5]G` -/
theorem g1_ladder_agrees : ladderAgrees E1 6 G1 = true := by decide +kernel

end stark_curve

end GV.C03gen
