import GnarkVerif.Props.C05_gen_bn254
import GnarkVerif.Model.Pairing
/-
C05 (tie T) — bn254: the final exponentiation of /repo/ecc/bn254/pairing.go, about the REGENERATED def
`GV.Gen.Pairing.bn254.FinalExponentiation` (Gen/Pairing/Bn254.lean) which calls the regenerated tower methods `E12.Mul`,
`E12.Conjugate`, `E12.Inverse`, `E12.Frobenius*`, `E12.CyclotomicSquare`, `E12.Expt` (Gen/Tower/Bn254.lean).

* `GTLaws.pExpt`                              the translated addition chain `Expt` is x ↦ x^x₀ (x₀ read off the chain)
* `C05gen_FinalExponentiation_hard`           hard part = x ↦ x^(λ₀ + λ₁p + λ₂p² + λ₃p³), as a theorem about the generated SLP
                                              evaluated in an abstract commutative group (hypotheses: `GTLaws`)
* `C05gen_bn254_exponent_facts`               that exponent is EXACTLY s·(p⁴−p²+1)/r, gcd(s, r) = 1 (p, r regenerated, kernel arithmetic)
* `C05gen_FinalExponentiation_list`           variadic form = product first
* `C05gen_FinalExponentiation_mul_subfield`   FE(c·z) = FE(z) for c in the subfield C1 = 0 (ring-level, from the C06 specs)
* `C05gen_line_subfield`                      MillerLoop's sparse line = (r0·y_P) · MillerLoopFixedQ's sparse line, r0·y_P ∈ E2

FULL STATEMENT (NOT PROVED HERE; what the theorems below are the T-part of): over F = ZMod p,
    `(FinalExponentiation z []).1.spec = z.spec ^ (s·(p¹² − 1)/r)` for every z ≠ 0.
Missing for it: (i) `GTLaws` DERIVED for the concrete tower instead of assumed — `Frobenius^i` = x ↦ x^(p^i) needs characteristic p
and the generated coefficient tables γ = ξ^((p^i−1)/6) (kernel-checkable constants, not done), `Conjugate` = x ↦ x^(p⁶), closure of
the Granger–Scott relations (`E12.Cyclotomic`, Props/C06) under the operations; (ii) `easyPart z = z^((p⁶−1)(p²+1))` and its
membership in the cyclotomic subgroup (same ingredients). Until then the exact GT value of `FinalExponentiation` is tied by K
(Model/Pairing.lean) and the step from "exponent E on the cyclotomic subgroup" to bilinearity is `AbstractPairing` (Props/C05.lean).
-/
set_option linter.unusedSectionVars false
set_option linter.unusedVariables false
set_option linter.unusedSimpArgs false
set_option linter.unusedTactic false
set_option linter.unreachableTactic false
namespace GV.Gen.Pairing.bn254
open GV.Curve GV.C02 GV.CurveGen GV.PairingGen GV.Tower GV.Gen.Tower.bn254 GV.Gen.Curve.bn254 WeierstrassCurve

/-! ## final exponentiation -/
section finalexp
variable {F : Type} [Field F] [DecidableEq F] {G : Type} [CommGroup G]
open CycInterp

/-- HYPOTHESES of the exponent theorem: how the regenerated GT operations act on the cyclotomic subgroup `Cyc`, seen through
    a map `ι` into an abstract commutative group (for the real tower: G = GT, `Frobenius` = x ↦ x^p, `Conjugate` = x ↦ x^(p⁶) =
    x⁻¹ on the cyclotomic subgroup, `CyclotomicSquare` = x ↦ x² there — the latter is `E12.CyclotomicSquare_spec` of C06). -/
structure GTLaws (I : CycInterp (E12 F) G) (p : ℤ) : Prop where
  mul : I.IsMul (fun a b => (E12.Mul a b).1)
  conj : I.IsPowMap (fun a => (E12.Conjugate a).1) (-1)
  csq : I.IsPowMap (fun a => (E12.CyclotomicSquare a).1) 2
  frob : I.IsPowMap (fun a => (E12.Frobenius a).1) p
  frobSq : I.IsPowMap (fun a => (E12.FrobeniusSquare a).1) (p ^ 2)
  frobCube : I.IsPowMap (fun a => (E12.FrobeniusCube a).1) (p ^ 3)

variable {I : CycInterp (E12 F) G} {p : ℤ} (L : GTLaws I p) {g : G} {a c : E12 F} {m n : ℤ}
include L

theorem GTLaws.pmul (ha : I.Pow g a m) (hc : I.Pow g c n) : I.Pow g (E12.Mul a c).1 (m + n) := Pow.mul L.mul ha hc
theorem GTLaws.pconj (ha : I.Pow g a m) : I.Pow g (E12.Conjugate a).1 (-1 * m) := Pow.map L.conj ha
theorem GTLaws.pcsq (ha : I.Pow g a m) : I.Pow g (E12.CyclotomicSquare a).1 (2 * m) := Pow.map L.csq ha
theorem GTLaws.pfrob (ha : I.Pow g a m) : I.Pow g (E12.Frobenius a).1 (p * m) := Pow.map L.frob ha
theorem GTLaws.pfrobSq (ha : I.Pow g a m) : I.Pow g (E12.FrobeniusSquare a).1 (p ^ 2 * m) := Pow.map L.frobSq ha
theorem GTLaws.pfrobCube (ha : I.Pow g a m) : I.Pow g (E12.FrobeniusCube a).1 (p ^ 3 * m) := Pow.map L.frobCube ha

/-- the generated `nSquare` (a `Nat.repeat` of `CyclotomicSquare`) is x ↦ x^(2^k) -/
theorem GTLaws.pnSquare (k : ℕ) (ha : I.Pow g a m) : I.Pow g (E12.nSquare a k) (2 ^ k * m) := by
  have h : E12.nSquare a k = Nat.repeat (fun st => (E12.CyclotomicSquare st).1) k a := by
    simp only [E12.nSquare, gv_alias]
  rw [h]
  exact Pow.map (L.csq.iterate k) ha

/-- the seed x₀ of bn254 -/
def seed : ℤ := 4965661367192848881

/-- **Expt**: the generated addition chain `E12.Expt` (translated from e12_pairing.go) computes x ↦ x^x₀,
    x₀ = 4965661367192848881, from the laws of `Mul` and `CyclotomicSquare` alone -/
theorem GTLaws.pExpt (ha : I.Pow g a m) : I.Pow g (E12.Expt a).1 (seed * m) := by
  apply Pow.cast
  · simp only [E12.Expt, gv_alias]
    repeat (first | with_reducible exact ha | with_reducible apply L.pmul | with_reducible apply L.pcsq | with_reducible apply L.pnSquare)
  · simp only [seed]
    ring

omit L in
/-- the easy part `z ↦ z^((p⁶−1)(p²+1))` as the Go code computes it: `t = conj(z)·z⁻¹`, then `Frobenius²(t)·t` -/
def easyPart (z : E12 F) : E12 F :=
  (E12.Mul (E12.FrobeniusSquare (E12.Mul (E12.Conjugate z).1 (E12.Inverse z).1).1).1 (E12.Mul (E12.Conjugate z).1 (E12.Inverse z).1).1).1

omit L in
/-- the exponent of the hard part (Fuentes-Castañeda et al., λ₀ + λ₁p + λ₂p² + λ₃p³) -/
def hardExponent (p u : ℤ) : ℤ :=
  (1 + 6 * u + 12 * u ^ 2 + 12 * u ^ 3) + p * (4 * u + 6 * u ^ 2 + 12 * u ^ 3) + p ^ 2 * (6 * u + 6 * u ^ 2 + 12 * u ^ 3) +
    p ^ 3 * (-1 + 4 * u + 6 * u ^ 2 + 12 * u ^ 3)

omit L in
theorem E12.Set_fst (x : E12 F) : (E12.Set x).1 = x := rfl

/-- **FinalExponentiation, exponent of the hard part**: with `e = easyPart z` (the value after the easy part, assumed in the
    cyclotomic subgroup) the generated `FinalExponentiation z` returns an element of the cyclotomic subgroup whose image is
    `ι(e) ^ hardExponent p x₀`; the early exit `e = 1` is consistent with it (`ι 1 = 1`) -/
theorem C05gen_FinalExponentiation_hard (hone : I.ι (E12.SetOne (F := F)) = 1) (z : E12 F) (hz : I.Cyc (easyPart z)) :
    I.Pow (I.ι (easyPart z)) (FinalExponentiation z []).1 (hardExponent p seed) := by
  have h0 : I.Pow (I.ι (easyPart z))
      (E12.Mul (E12.FrobeniusSquare (E12.Mul (E12.Conjugate z).1 (E12.Inverse z).1).1).1
        (E12.Mul (E12.Conjugate z).1 (E12.Inverse z).1).1).1 1 := Pow.base hz
  simp only [FinalExponentiation, gv_alias, List.foldl_nil, E12.Set_fst, apply_ite Prod.fst]
  split_ifs with heq
  · -- early exit: e = 1
    have he : easyPart z = E12.SetOne := E12.spec_injective ((E12.Equal_iff _ _).mp heq)
    have h1 : I.ι (easyPart z) = 1 := by rw [he, hone]
    show I.Pow _ (easyPart z) _
    exact ⟨hz, by rw [h1, one_zpow]⟩
  · apply Pow.cast
    · repeat (first | with_reducible exact h0 | with_reducible apply L.pmul | with_reducible apply L.pconj | with_reducible apply L.pcsq | with_reducible apply L.pExpt | with_reducible apply L.pfrob | with_reducible apply L.pfrobSq | with_reducible apply L.pfrobCube)
    · simp only [hardExponent]
      ring

omit L in
/-- the variadic form multiplies its arguments first: `FinalExponentiation(z, z₁, …) = FinalExponentiation(z·z₁·…)` -/
theorem C05gen_FinalExponentiation_list (z : E12 F) (zs : List (E12 F)) :
    (FinalExponentiation z zs).1 = (FinalExponentiation (zs.foldl (fun acc e => (E12.Mul acc e).1) z) []).1 := by
  simp only [FinalExponentiation, gv_alias, List.foldl_nil, E12.Set_fst, apply_ite Prod.fst]

/-- non-vacuity of the hypotheses `GTLaws`: the trivial interpretation (every element ↦ 1) satisfies them -/
example (p : ℤ) : GTLaws (F := ℚ) (G := Multiplicative ℤ) ⟨fun _ => 1, fun _ => True⟩ p := by
  constructor <;> simp [CycInterp.IsMul, CycInterp.IsPowMap]

end finalexp

/-! ## the first easy-part step kills factors of the subfield E6 (`C1 = 0`): fixed-Q lines vs projective lines -/
section subfield
variable {F : Type} [Field F] [DecidableEq F]

/-- **FinalExponentiation(c·z) = FinalExponentiation(z)** for `c` in the subfield `C1 = 0` (E6 ⊃ E2 ∋ r0·y_P), `c`, `z`, `c·z`
    invertible (norm down to Fp non-zero; in the irreducible tower: non-zero). This is `finalExp_mul_subfield` of
    Props/C05.lean, proved here for the REGENERATED `FinalExponentiation`, `E12.Mul`, `E12.Conjugate`, `E12.Inverse`. -/
theorem C05gen_FinalExponentiation_mul_subfield (c z : E12 F) (hc1 : c.spec.a1 = 0)
    (hc : c.spec.norm.norm.norm ≠ 0) (hz : z.spec.norm.norm.norm ≠ 0) (hcz : (E12.Mul c z).1.spec.norm.norm.norm ≠ 0) :
    (FinalExponentiation (E12.Mul c z).1 []).1 = (FinalExponentiation z []).1 := by
  have ic := E12.mul_Inverse c hc
  have iz := E12.mul_Inverse z hz
  have icz := E12.mul_Inverse _ hcz
  rw [E12.Mul_spec] at icz
  -- the inverse of c·z is inv(c)·inv(z)
  have hinv : (E12.Inverse (E12.Mul c z).1).1.spec = (E12.Inverse c).1.spec * (E12.Inverse z).1.spec := by
    calc (E12.Inverse (E12.Mul c z).1).1.spec
        = (E12.Inverse (E12.Mul c z).1).1.spec * ((c.spec * (E12.Inverse c).1.spec) * (z.spec * (E12.Inverse z).1.spec)) := by
          rw [ic, iz]; ring
      _ = (c.spec * z.spec * (E12.Inverse (E12.Mul c z).1).1.spec) * ((E12.Inverse c).1.spec * (E12.Inverse z).1.spec) := by ring
      _ = (E12.Inverse c).1.spec * (E12.Inverse z).1.spec := by rw [icz]; ring
  have hconj : QuadExt.conj c.spec = c.spec :=
    QuadExt.ext rfl (by rw [QuadExt.conj_a1, hc1, neg_zero])
  -- t = conj(x)·x⁻¹ is the same for x = c·z and x = z
  have ht : (E12.Mul (E12.Conjugate (E12.Mul c z).1).1 (E12.Inverse (E12.Mul c z).1).1).1
      = (E12.Mul (E12.Conjugate z).1 (E12.Inverse z).1).1 := by
    apply E12.spec_injective
    rw [E12.Mul_spec, E12.Mul_spec, E12.Conjugate_spec, E12.Conjugate_spec, E12.Mul_spec, QuadExt.conj_mul, hconj, hinv]
    calc c.spec * QuadExt.conj z.spec * ((E12.Inverse c).1.spec * (E12.Inverse z).1.spec)
        = (c.spec * (E12.Inverse c).1.spec) * (QuadExt.conj z.spec * (E12.Inverse z).1.spec) := by ring
      _ = QuadExt.conj z.spec * (E12.Inverse z).1.spec := by rw [ic]; ring
  simp only [FinalExponentiation, gv_alias, List.foldl_nil, E12.Set_fst, apply_ite Prod.fst, ht]

/-- the element `c2 ∈ E2` embedded in E12 (`C0.B0 = c2`, everything else 0): it lies in the subfield `C1 = 0` -/
def embedE2 (c2 : Fp2 F) : Fp12 F := ⟨⟨c2, 0, 0⟩, 0⟩

/-- **projective line = (r0·y_P) · fixed-Q line in E12**: `MillerLoop` multiplies by the sparse element
    `(r0·y_P) + (r1·x_P)·w + r2·v·w` (`MulBy034`), `MillerLoopFixedQ` by `1 + (R0·(−x_P/y_P))·w + (R1/y_P)·v·w` (`MulBy34`); when
    `r1 = −r0·R0`, `r2 = r0·R1` (`C05gen_doubleStep_fixedQ`, `C05gen_addMixedStep_fixedQ`) the former is the latter times
    `r0·y_P ∈ E2`, a factor that `C05gen_FinalExponentiation_mul_subfield` removes. -/
theorem C05gen_line_subfield (r0 r1 r2 R0 R1 : E2 F) (xP yP : F) (hy : yP ≠ 0)
    (h1 : r1.spec = r0.spec * -R0.spec) (h2 : r2.spec = r0.spec * R1.spec) :
    sparse034 (E2.MulByElement r0 yP).1 (E2.MulByElement r1 xP).1 r2
      = embedE2 (r0.spec * QuadExt.ofBase yP) *
        (⟨⟨1, 0, 0⟩, ⟨(E2.MulByElement R0 (-(xP * yP⁻¹))).1.spec, (E2.MulByElement R1 yP⁻¹).1.spec, 0⟩⟩ : Fp12 F) ∧
    (embedE2 (r0.spec * QuadExt.ofBase yP) : Fp12 F).a1 = 0 := by
  refine ⟨?_, rfl⟩
  have e1 : (E2.MulByElement r1 xP).1.spec = r0.spec * QuadExt.ofBase yP * ((E2.MulByElement R0 (-(xP * yP⁻¹))).1.spec) := by
    rw [E2.MulByElement_spec, E2.MulByElement_spec, h1]
    ext <;> simp <;> field_simp <;> ring
  have e2 : r2.spec = r0.spec * QuadExt.ofBase yP * ((E2.MulByElement R1 yP⁻¹).1.spec) := by
    rw [E2.MulByElement_spec, h2]
    ext <;> simp <;> field_simp <;> ring
  simp only [sparse034, embedE2, E2.MulByElement_spec r0 yP]
  rw [e1, e2]
  ext : 2 <;> simp

end subfield

/-! ## the extracted constants -/

/-- kernel-checked arithmetic about the exponent of the hard part, with p, r REGENERATED from fp/fr (Gen/Fields.lean) and the
    seed x₀ read off the translated `Expt` chain (`GTLaws.pExpt`): the code raises to `s·Φ₁₂(p)/r` EXACTLY, `r ∣ Φ₁₂(p) = p⁴−p²+1`,
    `s = 2x₀(6x₀²+3x₀+1)` (the `s` of `GV.Pairing.bn254`, Props/C05.lean `finalExp_facts`), `gcd(s, r) = 1`; p, r are the BN
    polynomials at x₀ -/
theorem C05gen_bn254_exponent_facts :
    let p : ℤ := GV.Gen.bn254_fp.q
    let r : ℤ := GV.Gen.bn254_fr.q
    let s : ℤ := 2 * seed * (6 * seed ^ 2 + 3 * seed + 1)
    hardExponent p seed = s * ((p ^ 4 - p ^ 2 + 1) / r) ∧ (p ^ 4 - p ^ 2 + 1) % r = 0 ∧ Int.gcd s r = 1 ∧
    s = GV.Pairing.bn254.s ∧
    p = 36 * seed ^ 4 + 36 * seed ^ 3 + 24 * seed ^ 2 + 6 * seed + 1 ∧ r = 36 * seed ^ 4 + 36 * seed ^ 3 + 18 * seed ^ 2 + 6 * seed + 1 := by
  decide +kernel

/-- the generated literal `nonResInverse` is ξ⁻¹ = (9 + u)⁻¹ in Fp2 (components as naturals mod p), hence the twist coefficient
    `bTwist` = 3·nonResInverse of Props/C05_gen_bn254.lean is b' = 3/ξ -/
theorem C05gen_bn254_btwist_facts :
    let p := GV.Gen.bn254_fp.q
    let c := const_nonResInverse (F := ℕ)
    (9 * c.A0 + (p - c.A1 % p)) % p = 1 ∧ (c.A0 + 9 * c.A1) % p = 0 := by
  decide +kernel

end GV.Gen.Pairing.bn254
