import GnarkVerif.Proofs.ExecuteGen
import GnarkVerif.Props.C04
import GnarkVerif.Props.C18
/-
C04_execgen — tie T for `parallel.Execute` (cited by C04 and C18): the Lean def `Execute` of Gen/Imp/Execute.lean is REGENERATED
from /repo/internal/parallel/execute.go on every run (tools/goslp mode "imp") and returns the ordered list of `(start, end)` pairs
handed to `work` — by the direct call `work(0, nbIterations)` or by the goroutines `go func() { work(_start, _end); wg.Done() }()`
in launch order (`runtime.NumCPU()` is the parameter `numCPU`; sync.WaitGroup calls are synchronisation only and are dropped;
the translator checks that the closure only captures variables declared in the same loop iteration and not assigned afterwards).
Proved equal, for every n ≥ 0 and every `maxCpus…`, to the hand-written `executeRanges` / `executeRangesDefault` of Model/MSM.lean
(C04) and `executeRanges` of Model/ForkJoin.lean (C18); hence the translated Go text tiles [0, n) exactly.
-/
namespace GV.ExecuteGen
open GV.Gen.Imp.Parallel

/-- `Execute(n, work, m)` hands out exactly the ranges of the C04 hand model -/
theorem C04execgen_one (numCPU : Int) (n : Nat) (m : Int) :
    Execute numCPU (n : Int) [m] = (MSM.executeRanges n m).map cast := execute_one numCPU n m

/-- `Execute(n, work)` — and any call with zero or more than one `maxCpus` value, which the Go code treats alike — uses
`runtime.NumCPU()` tasks, unclamped -/
theorem C04execgen_default (numCPU n : Nat) (maxCpus : List Int) (hcpu : 1 ≤ numCPU) (h : maxCpus.length ≠ 1) :
    Execute (numCPU : Int) (n : Int) maxCpus = (MSM.executeRangesDefault n numCPU).map cast := by
  rw [execute_ignores _ _ _ h]; exact execute_default numCPU n hcpu

/-- the same for the copy of the hand model used by C18 -/
theorem C18execgen_one (numCPU : Int) (n nb : Nat) :
    Execute numCPU (n : Int) [(nb : Int)] = (ForkJoin.executeRanges n nb).map cast := by
  rw [forkjoin_ranges]; exact execute_one numCPU n nb

/-- enumerating the ranges handed to `work` by the translated Go text, in order, enumerates 0, 1, …, n-1 once each:
disjoint, covering, ordered — for every n ≥ 0 and every single `maxCpus` value -/
theorem C04execgen_tiles (numCPU : Int) (n : Nat) (m : Int) :
    (Execute numCPU (n : Int) [m]).flatMap (fun se => List.range' se.1.toNat (se.2 - se.1).toNat) = List.range n := by
  rw [C04execgen_one, ← C04.execute_partition n m, List.flatMap_map]
  congr 1
  funext se
  simp only [cast, Int.toNat_natCast]
  congr 1
  omega

/-- … and without `maxCpus` (NumCPU ≥ 1 tasks) -/
theorem C04execgen_tiles_default (numCPU n : Nat) (maxCpus : List Int) (hcpu : 1 ≤ numCPU) (h : maxCpus.length ≠ 1) :
    (Execute (numCPU : Int) (n : Int) maxCpus).flatMap (fun se => List.range' se.1.toNat (se.2 - se.1).toNat) = List.range n := by
  rw [C04execgen_default numCPU n maxCpus hcpu h, ← C04.executeDefault_partition n numCPU hcpu, List.flatMap_map]
  congr 1
  funext se
  simp only [cast, Int.toNat_natCast]
  congr 1
  omega

/-- the C18 form: the translated text's ranges are `Tiles` of Model/ForkJoin.lean -/
theorem C18execgen_tiles (numCPU : Int) (n nb : Nat) :
    ∃ rs, Execute numCPU (n : Int) [(nb : Int)] = rs.map cast ∧ ForkJoin.Tiles rs n :=
  ⟨_, C18execgen_one numCPU n nb, ForkJoin.C18_execute_tiles n nb⟩

/-! non-vacuity: the generated code on concrete inputs (10 iterations on 3 / 4 tasks, more tasks than iterations, none, one
task, NumCPU = 4 without maxCpus, two maxCpus values are ignored) -/
example : Execute 8 10 [3] = [(0, 4), (4, 7), (7, 10)] := by decide
example : Execute 8 10 [4] = [(0, 3), (3, 6), (6, 8), (8, 10)] := by decide
example : Execute 8 2 [5] = [(0, 1), (1, 2)] := by decide
example : Execute 8 0 [7] = [] := by decide
example : Execute 8 7 [0] = [(0, 7)] := by decide
example : Execute 4 10 [] = [(0, 3), (3, 6), (6, 8), (8, 10)] := by decide
example : Execute 4 10 [2, 2] = [(0, 3), (3, 6), (6, 8), (8, 10)] := by decide

end GV.ExecuteGen
