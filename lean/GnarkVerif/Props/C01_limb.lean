import GnarkVerif.Props.C01_limb_bn254_fr
import GnarkVerif.Props.C01_limb_bn254_fp
import GnarkVerif.Props.C01_limb_bls12_377_fr
import GnarkVerif.Props.C01_limb_bls12_381_fr
import GnarkVerif.Props.C01_limb_bls24_315_fr
import GnarkVerif.Props.C01_limb_bls24_317_fr
import GnarkVerif.Props.C01_limb_grumpkin_fp
import GnarkVerif.Props.C01_limb_grumpkin_fr
import GnarkVerif.Props.C01_limb_stark_curve_fp
import GnarkVerif.Props.C01_limb_stark_curve_fr
import GnarkVerif.Props.C01_limb_bls24_315_fp
import GnarkVerif.Props.C01_limb_bls24_317_fp
import GnarkVerif.Props.C01_limb_bw6_633_fr
import GnarkVerif.Props.C01_limb_bls12_377_fp
import GnarkVerif.Props.C01_limb_bls12_381_fp
import GnarkVerif.Props.C01_limb_bw6_761_fr
import GnarkVerif.Props.C01_limb_secp256k1_fp
import GnarkVerif.Props.C01_limb_secp256k1_fr
import GnarkVerif.Props.C01_limb_goldilocks
/-
C01_limb — tie T at the LIMB level for the prime fields (complements C01, whose model `GV.Field` works on values).

`tools/goslp/limb.go` translates, on every run, the straight-line word-level Go code (`bits.Mul64/Add64/Sub64`, `madd0-3`,
wrap-around `+ - *`, shifts, `if`, early return) of `element.go` / `element_purego.go` / `arith.go` into `let`-chains over
`Nat` (`Gen/Limb/<Field>.lean`, conventions in `Model/Limb.lean`). For every field `f` below, namespace `GV.Limb.f`
(file `Props/C01_limb_f.lean`), with `P = ofConsts GV.Gen.f`, `val [l₀,…] = Σ lᵢ·2^(64 i)`, limbs `< 2^64`, operands `< q`:

* `Mul_spec`             `val (Mul x y) = GV.Field.mul P (val x) (val y)`, result limbs are words  (element_purego.go, "Algorithm 2";
                          for secp256k1: CIOS with the extra word)
* `Square_spec`          `= GV.Field.square P (val x)`                                   (no-carry fields)
* `mulGeneric_spec`      `_mulGeneric` (textbook CIOS, 64·n+64-bit accumulator) `= GV.Field.mul`
* `fromMontGeneric_spec` `= GV.Field.fromMont`
* `reduceGeneric_spec`   `= GV.Field.reduceOnce` (for inputs `< 2q`)
* `Add_spec`, `Double_spec`, `Sub_spec`, `Neg_spec`   `= GV.Field.add / double / sub / neg`
* `smaller_iff`          `smallerThanModulus z ↔ val z < q`
* per segment: `Mul_s<i>_spec` (round i = `ciosStep`), `Mul_s<n>_spec` (final subtraction = `reduceOnce`), …

Every statement is for ALL inputs (no sampling). The proofs go through `Proofs/LimbTac.lean` (`limb_start`, `resolve_drops`:
each word operation becomes a linear fact, every discarded carry is proved to vanish by `linarith`, every discarded low word by
`omega`) and `Proofs/Limb.lean` (`ciosStep_of_lin`: a quotient with a word-sized Montgomery factor IS the model's CIOS step).
A change of the Go code that alters the computed function (e.g. deleting `u3, _ = bits.Add64(u3, 0, c0)` in round 0 of `Mul`)
makes the regenerated file fail these proofs.
goldilocks (one word): `Mul_spec`, `Square_spec`, `Add_spec`, `Sub_spec`, `Neg_spec` as EQUALITIES `Mul x y = GV.Field.mul P x y` ….
Not covered: `Halve`, `Select`, `Double`/`Halve`/`fromMont` of goldilocks, koalabear and babybear (translated, not proved), aliasing of
`z` with `x`/`y` (the translation reads the operands as values), assembly back-ends.
-/

