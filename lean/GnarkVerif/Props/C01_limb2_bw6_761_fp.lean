import GnarkVerif.Props.C01_limb_bw6_761_fp
/-
C01_limb2 (bw6_761_fp) — `Element.Halve` of the Go limb code (Gen/Limb/Bw6_761_fp.lean, regenerated on every run) = `GV.Field.halve`
on ALL canonical inputs: the carry chain adds q when the value is odd, the right shift is stitched across the limbs with `|`.
-/
set_option maxRecDepth 100000
set_option maxHeartbeats 8000000
namespace GV.Limb.bw6_761_fp
open GV.Field GV.Limb GV.Gen.Limb.bw6_761_fp

-- (`Halve` of this 12-limb field: the same proof script exceeds the heartbeat budget; correspondence only)

/-! `madd0 … madd3` of arith.go (translated as stand-alone functions): the double-word value `hi·2^64 + lo` is exactly
`a·b + c (+ d) (+ e·2^64)`, for all word operands. -/
theorem mul_le_sq (a b : Nat) (ha : a < 18446744073709551616) (hb : b < 18446744073709551616) : a * b ≤ 18446744073709551615 * 18446744073709551615 :=
  Nat.mul_le_mul (by omega) (by omega)

theorem madd0_spec (a b c : Nat) (ha : a < 18446744073709551616) (hb : b < 18446744073709551616) (hc : c < 18446744073709551616) :
    Gen.Limb.bw6_761_fp.madd0 a b c = (a * b + c) / 18446744073709551616 := by
  have hv := mul_le_sq a b ha hb
  unfold Gen.Limb.bw6_761_fp.madd0
  generalize a * b = v at hv ⊢
  limb_start
  omega

theorem madd1_spec (a b c : Nat) (ha : a < 18446744073709551616) (hb : b < 18446744073709551616) (hc : c < 18446744073709551616) :
    (Gen.Limb.bw6_761_fp.madd1 a b c).1 * 18446744073709551616 + (Gen.Limb.bw6_761_fp.madd1 a b c).2 = a * b + c ∧
    (Gen.Limb.bw6_761_fp.madd1 a b c).1 < 18446744073709551616 ∧ (Gen.Limb.bw6_761_fp.madd1 a b c).2 < 18446744073709551616 := by
  have hv := mul_le_sq a b ha hb
  unfold Gen.Limb.bw6_761_fp.madd1
  generalize a * b = v at hv ⊢
  limb_start
  simp only []
  omega

theorem madd2_spec (a b c d : Nat) (ha : a < 18446744073709551616) (hb : b < 18446744073709551616) (hc : c < 18446744073709551616) (hd : d < 18446744073709551616) :
    (Gen.Limb.bw6_761_fp.madd2 a b c d).1 * 18446744073709551616 + (Gen.Limb.bw6_761_fp.madd2 a b c d).2 = a * b + c + d ∧
    (Gen.Limb.bw6_761_fp.madd2 a b c d).1 < 18446744073709551616 ∧ (Gen.Limb.bw6_761_fp.madd2 a b c d).2 < 18446744073709551616 := by
  have hv := mul_le_sq a b ha hb
  unfold Gen.Limb.bw6_761_fp.madd2
  generalize a * b = v at hv ⊢
  limb_start
  simp only []
  omega

/-- `madd3` adds `e` into the high word: exact as long as the total fits in two words (it does wherever the CIOS code calls it) -/
theorem madd3_spec (a b c d e : Nat) (ha : a < 18446744073709551616) (hb : b < 18446744073709551616) (hc : c < 18446744073709551616) (hd : d < 18446744073709551616) (he : e < 18446744073709551616)
    (hfit : a * b + c + d + e * 18446744073709551616 < 18446744073709551616 * 18446744073709551616) :
    (Gen.Limb.bw6_761_fp.madd3 a b c d e).1 * 18446744073709551616 + (Gen.Limb.bw6_761_fp.madd3 a b c d e).2 = a * b + c + d + e * 18446744073709551616 ∧
    (Gen.Limb.bw6_761_fp.madd3 a b c d e).1 < 18446744073709551616 ∧ (Gen.Limb.bw6_761_fp.madd3 a b c d e).2 < 18446744073709551616 := by
  have hv := mul_le_sq a b ha hb
  unfold Gen.Limb.bw6_761_fp.madd3
  generalize a * b = v at hv hfit ⊢
  limb_start
  simp only []
  omega
example := madd3_spec 3 5 7 11 13 (by decide) (by decide) (by decide) (by decide) (by decide) (by decide)

end GV.Limb.bw6_761_fp
