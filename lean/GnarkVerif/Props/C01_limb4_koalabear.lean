import GnarkVerif.Props.C01_limb_koalabear
import GnarkVerif.Proofs.Limb4
import GnarkVerif.Gen.Limb.KoalabearX
/-
C01_limb4 (koalabear, one 32-bit word) — the second batch of word-level Go code of the package (Gen/Limb/KoalabearX.lean, regenerated on
every run by tools/goslp/limb.go) computes the value-level model `GV.Field` on ALL inputs (canonical `z < q` where the Go code
assumes it). An element is its single word; `P` = the parameter set of the regenerated constants `GV.Gen.koalabear`.
-/
set_option maxRecDepth 100000
set_option maxHeartbeats 4000000

namespace GV.Limb.koalabear
open GV.Field GV.Limb GV.Gen.Limb.koalabear

theorem IsZero_iff (z : Nat) : Gen.Limb.koalabear.IsZero z ↔ z = 0 := Iff.rfl

/-- the literal of `IsOne` is the Montgomery form of 1 (`R mod q` of the regenerated modulus) -/
theorem one_limbs : (33554430 : Nat) = GV.Field.one P := by decide +kernel

theorem IsOne_iff (z : Nat) : Gen.Limb.koalabear.IsOne z ↔ z = GV.Field.one P := by
  rw [← one_limbs]; exact Iff.rfl

theorem NotEqual_eq_zero_iff (z x : Nat) : Gen.Limb.koalabear.NotEqual z x = 0 ↔ z = x := xor_eq_zero z x

theorem NotEqual_ne_zero_iff (z x : Nat) : Gen.Limb.koalabear.NotEqual z x ≠ 0 ↔ z ≠ x := not_congr (xor_eq_zero z x)

theorem Equal_iff (z x : Nat) : Gen.Limb.koalabear.Equal z x ↔ z = x := xor_eq_zero z x

/-- the inlined copy of `fromMont` is the first batch's `fromMontGeneric`: same word program -/
theorem fromMont_eq (z : Nat) : Gen.Limb.koalabear.fromMont z = Gen.Limb.koalabear.fromMontGeneric z := by limb_kernel_rfl

/-- **C01_limb4 fromMont** = the model's `fromMont` -/
theorem fromMont_spec (z : Nat) (hz : z < P.q) : Gen.Limb.koalabear.fromMont z = GV.Field.fromMont P z := by
  rw [fromMont_eq]; exact fromMontGeneric_spec z hz

/-- the borrow of `bits.Sub64(_z[0], (q+1)/2, 0)` of `LexicographicallyLargest`, on the regular value `r` -/
def lexTail (r : Nat) : Prop := subB r 1065353217 0 = 0

/-- the literal subtracted by `LexicographicallyLargest` is `(q+1)/2` of the regenerated modulus -/
theorem half_limbs : (1065353217 : Nat) = (P.q + 1) / 2 := by decide +kernel

theorem LexicographicallyLargest_eq (z : Nat) :
    Gen.Limb.koalabear.LexicographicallyLargest z = lexTail (Gen.Limb.koalabear.fromMontGeneric z) := by limb_kernel_rfl

theorem lexTail_iff (r : Nat) : lexTail r ↔ ¬ (r < (P.q + 1) / 2) := by
  rw [← half_limbs]
  unfold lexTail subB
  rw [Nat.add_zero]
  split <;> simp [*]

/-- **C01_limb4 LexicographicallyLargest**: true exactly when the regular (non-Montgomery) value is `> (q-1)/2` -/
theorem LexicographicallyLargest_iff (z : Nat) (hz : z < P.q) :
    Gen.Limb.koalabear.LexicographicallyLargest z ↔ GV.Field.lexLargest P z = true := by
  rw [LexicographicallyLargest_eq, lexTail_iff, fromMontGeneric_spec z hz]
  exact lexLargest_iff P P_ok _

theorem LexicographicallyLargest_iff_gt (z : Nat) (hz : z < P.q) :
    Gen.Limb.koalabear.LexicographicallyLargest z ↔ GV.Field.fromMont P z > (P.q - 1) / 2 := by
  rw [LexicographicallyLargest_iff z hz]
  unfold GV.Field.lexLargest toRegular
  exact decide_eq_true_iff

/-- the word comparison of `Cmp` (`-1` is `2^64 - 1`, the Go `int`) on two regular values -/
def cmpTail (a b : Nat) : Nat := (if a > b then 1 else if a < b then 18446744073709551615 else 0)

theorem Cmp_eq (z x : Nat) : Gen.Limb.koalabear.Cmp z x = cmpTail (Gen.Limb.koalabear.fromMontGeneric z) (Gen.Limb.koalabear.fromMontGeneric x) := by limb_kernel_rfl

theorem cmpTail_eq (a b : Nat) :
    cmpTail a b = if a < b then 18446744073709551615 else if a > b then 1 else 0 := by
  unfold cmpTail
  by_cases c1 : a < b
  · simp only [if_pos c1, if_neg (show ¬ a > b by omega)]
  · by_cases c2 : a > b
    · simp only [if_pos c2, if_neg c1]
    · simp only [if_neg c2, if_neg c1]

/-- **C01_limb4 Cmp**: the three-way comparison of the REGULAR values (Go `int` -1 / 0 / 1 in the translator's encoding) -/
theorem Cmp_spec (z x : Nat) (hz : z < P.q) (hx : x < P.q) :
    Gen.Limb.koalabear.Cmp z x = encInt (GV.Field.cmp P z x) := by
  rw [Cmp_eq, cmpTail_eq, fromMontGeneric_spec z hz, fromMontGeneric_spec x hx]
  exact cmp_enc P _ _

/-- `_butterflyGeneric(a, b)` is `(Add a b, Sub a b)` (same word program; `a` is read before it is overwritten) -/
theorem butterflyGeneric_eq (a b : Nat) : Gen.Limb.koalabear.butterflyGeneric a b = (Gen.Limb.koalabear.Add a b, Gen.Limb.koalabear.Sub a b) := by limb_kernel_rfl

/-- **C01_limb4 butterflyGeneric**: `(a, b) ↦ (a + b mod q, a − b mod q)` -/
theorem butterflyGeneric_spec (a b : Nat) (ha : a < P.q) (hb : b < P.q) :
    Gen.Limb.koalabear.butterflyGeneric a b = (GV.Field.add P a b, GV.Field.sub P a b) := by
  rw [butterflyGeneric_eq, Add_spec a b ha hb, Sub_spec a b ha hb]

/-! ### non-vacuity -/
example := (IsZero_iff 0).2 rfl
example := (IsOne_iff 33554430).2 one_limbs
example := (Equal_iff 5 5).2 rfl
example := Cmp_spec 5 7 (by decide +kernel) (by decide +kernel)
example := LexicographicallyLargest_iff 5 (by decide +kernel)
example := butterflyGeneric_spec 5 7 (by decide +kernel) (by decide +kernel)

end GV.Limb.koalabear
