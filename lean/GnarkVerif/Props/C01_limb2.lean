import GnarkVerif.Props.C01_limb2_bn254_fr
import GnarkVerif.Props.C01_limb2_bn254_fp
import GnarkVerif.Props.C01_limb2_bls12_377_fr
import GnarkVerif.Props.C01_limb2_bls12_381_fr
import GnarkVerif.Props.C01_limb2_bls24_315_fr
import GnarkVerif.Props.C01_limb2_bls24_317_fr
import GnarkVerif.Props.C01_limb2_grumpkin_fp
import GnarkVerif.Props.C01_limb2_grumpkin_fr
import GnarkVerif.Props.C01_limb2_stark_curve_fp
import GnarkVerif.Props.C01_limb2_stark_curve_fr
import GnarkVerif.Props.C01_limb2_bls24_315_fp
import GnarkVerif.Props.C01_limb2_bls24_317_fp
import GnarkVerif.Props.C01_limb2_bw6_633_fr
import GnarkVerif.Props.C01_limb2_bls12_377_fp
import GnarkVerif.Props.C01_limb2_bls12_381_fp
import GnarkVerif.Props.C01_limb2_bw6_761_fr
import GnarkVerif.Props.C01_limb2_bw6_633_fp
import GnarkVerif.Props.C01_limb2_bw6_761_fp
import GnarkVerif.Props.C01_limb2_secp256k1_fp
import GnarkVerif.Props.C01_limb2_secp256k1_fr
import GnarkVerif.Props.C01_limb2_goldilocks
import GnarkVerif.Props.C01_limb_koalabear
import GnarkVerif.Props.C01_limb_babybear
/-
C01_limb2 — second part of the LIMB-level tie T (complements C01_limb): the translated word-level functions that C01_limb left
unproved. All statements are for ALL inputs, about definitions regenerated from /repo on every run (Gen/Limb/<Field>.lean).

* 20 multi-limb fields (`Halve_spec` for 19 of them: the 12-limb bw6_761_fp exceeds the heartbeat budget), namespace `GV.Limb.<f>` (`Props/C01_limb2_<f>.lean`, written by bin/mkc01limb2.py):
  `Halve_spec`   `val (Halve z) = GV.Field.halve P (val z)` and the result limbs are words — the carry chain adds q when z is odd,
                 the one-bit right shift is stitched across the limbs with `|` (proved to be `+` on disjoint bits), and for the
                 fields without a spare bit (secp256k1) the carry out of `z + q` is re-injected as bit 63 of the top limb;
  `madd0_spec … madd3_spec`  the double-word helpers of arith.go: `hi·2^64 + lo = a·b + c (+ d) (+ e·2^64)`.
* goldilocks (`Props/C01_limb2_goldilocks.lean`): `Double_spec` (top-bit test), `Halve_spec` (carry → top bit),
  `fromMontGeneric_spec`, `reduceGeneric_spec`, as equalities with `GV.Field.double / halve / fromMont / reduceOnce`.
* koalabear, babybear (`Props/C01_limb_<f>.lean`, written by bin/mkc01limb3.py; one 32-bit word, 64-bit accumulator):
  `montReduce_lin` (REDC of any `v < q·2^32`: explicit quotient `< 2q`, word-sized Montgomery factor), `montReduce_spec`,
  `Mul_spec`, `Square_spec`, `fromMontGeneric_spec`, `reduceGeneric_spec`, `Add_spec`, `Double_spec`, `Sub_spec`, `Neg_spec`,
  `Halve_spec`, `smaller_iff` — equalities `Op x y = GV.Field.op P x y` for all canonical operands.
With C01_limb this covers every function the limb translator emits (tools/goslp/limb.go `limbTargets`) for all 23 field packages.
Not covered: `Select`, `Cmp`, `Exp`/`Inverse`/`Sqrt` loops, vector code, assembly (correspondence only).
-/
