import GnarkVerif.Proofs.Field
/-
C01 — prime-field arithmetic is exact arithmetic modulo q with canonical results.

Theorems about `GV.Field` (executable model of one generated field package at the value level; tie =
correspondence K against the Go code, limb programs = tie T). Everything is stated for EVERY well-formed
parameter set `p : Params` (`p.OK`: odd modulus `1 < q < R = 2^(w·n)`, `q·qInvNeg ≡ -1 (mod 2^w)`), every
number of words `n`, every canonical operand (`z < q`) — unbounded, by induction over words / exponent bits /
list lengths. Primality of `q` (`[Fact p.q.Prime]`) is assumed only where it is needed (inverse, integer
exponents, division, batch inversion, Legendre, square roots).

`abs p z = z·R⁻¹ ∈ ZMod q` is the abstract value of the Montgomery residue `z`.
Non-vacuity examples use the toy sets `p13 = (13, w=4, n=1)` and `p251 = (251, w=4, n=2)`;
`C01_params_ok` shows that all 23 generated constant blocks satisfy `Params.OK`.
-/
namespace GV.Field
variable (p : Params)

/-! ## 0. parameters, abstraction -/

/-- every generated field package has well-formed parameters (so the theorems below apply to it), and the
source constant `rSquare` is `R² mod q` -/
theorem C01_params_ok : ∀ c ∈ GV.Gen.allFields,
    (ofConsts c).OK ∧ rSquare (ofConsts c) = limbsVal c.word c.rSquare := by
  have : ∀ c ∈ GV.Gen.allFields,
      ((ofConsts c).okb && decide (rSquare (ofConsts c) = limbsVal c.word c.rSquare)) = true := by
    decide +kernel
  intro c hc
  have h := this c hc
  rw [Bool.and_eq_true, decide_eq_true_eq] at h
  exact ⟨Params.OK_of_okb _ h.1, h.2⟩
example : GV.Gen.allFields.length = 23 := by decide

/-- `abs` is injective on canonical values: equal abstract values ⇒ equal limbs -/
theorem C01_abs_injective (h : p.OK) (a b : Nat) (ha : a < p.q) (hb : b < p.q)
    (e : abs p a = abs p b) : a = b := abs_inj p h a b ha hb e
example : (3 : Nat) = 3 := C01_abs_injective p13 ok13 3 3 (by decide) (by decide) rfl

/-! ## 1. one CIOS iteration -/

/-- the division by `W` in a CIOS round is exact: with `m = (t + x·yᵢ)·qInvNeg mod W`,
`W ∣ t + x·yᵢ + m·q` and `ciosStep · W = t + x·yᵢ + m·q` -/
theorem C01_ciosStep_exact (h : p.OK) (x t yi : Nat) :
    let m := (t + x * yi) % p.W * p.qInvNeg % p.W
    (t + x * yi + m * p.q) % p.W = 0 ∧ ciosStep p x t yi * p.W = t + x * yi + m * p.q :=
  ⟨cios_exact p h _, ciosStep_mul_W p h x t yi⟩
example : ciosStep p251 200 300 15 * 16 = 300 + 200 * 15 + 4 * 251 :=
  (C01_ciosStep_exact p251 ok251 200 300 15).2

/-- the running value stays below `2q` -/
theorem C01_ciosStep_bound (h : p.OK) (x t yi : Nat) (ht : t < 2 * p.q) (hx : x < p.q)
    (hy : yi < p.W) : ciosStep p x t yi < 2 * p.q := ciosStep_lt p h x t yi ht hx hy
example : ciosStep p251 200 300 15 < 2 * 251 :=
  C01_ciosStep_bound p251 ok251 200 300 15 (by decide) (by decide) (by decide)

/-! ## 2. Montgomery product -/

/-- word-serial CIOS over all `n` words: `montRaw x y < 2q` and `montRaw x y · R ≡ x·y (mod q)` -/
theorem C01_montRaw (h : p.OK) (x y : Nat) (hx : x < p.q) (hy : y < p.R) :
    montRaw p x y < 2 * p.q ∧ montRaw p x y * p.R ≡ x * y [MOD p.q] := montRaw_spec p h x y hx hy
example : montRaw p251 200 255 < 2 * 251 :=
  (C01_montRaw p251 ok251 200 255 (by decide) (by decide)).1

theorem C01_mul_canonical (h : p.OK) (x y : Nat) (hx : x < p.q) (hy : y < p.q) :
    mul p x y < p.q := mul_lt p h x y hx (q_lt_R' p h hy)
example : mul p251 200 250 < 251 := C01_mul_canonical p251 ok251 200 250 (by decide) (by decide)

theorem C01_mul_exact (h : p.OK) (x y : Nat) (hx : x < p.q) (hy : y < p.q) :
    abs p (mul p x y) = abs p x * abs p y := abs_mul p h x y hx (q_lt_R' p h hy)
example : abs p251 (mul p251 200 250) = abs p251 200 * abs p251 250 :=
  C01_mul_exact p251 ok251 200 250 (by decide) (by decide)

theorem C01_square (h : p.OK) (x : Nat) (hx : x < p.q) :
    square p x < p.q ∧ abs p (square p x) = abs p x ^ 2 :=
  ⟨square_lt p h x hx, abs_square p h x hx⟩
example : square p13 12 < 13 := (C01_square p13 ok13 12 (by decide)).1

/-! ## 3. add / sub / neg / double / halve -/

theorem C01_add (x y : Nat) (hx : x < p.q) (hy : y < p.q) :
    add p x y < p.q ∧ abs p (add p x y) = abs p x + abs p y := ⟨add_lt p x y hx hy, abs_add p x y⟩
example : add p13 12 12 < 13 := (C01_add p13 12 12 (by decide) (by decide)).1

theorem C01_sub (x y : Nat) (hx : x < p.q) (hy : y < p.q) :
    sub p x y < p.q ∧ abs p (sub p x y) = abs p x - abs p y :=
  ⟨sub_lt p x y hx hy, abs_sub p x y hy⟩
example : sub p13 0 12 < 13 := (C01_sub p13 0 12 (by decide) (by decide)).1

theorem C01_neg (h : p.OK) (x : Nat) (hx : x < p.q) :
    neg p x < p.q ∧ abs p (neg p x) = - abs p x := ⟨neg_lt p h x, abs_neg p x hx⟩
example : neg p13 0 < 13 := (C01_neg p13 ok13 0 (by decide)).1

theorem C01_double (x : Nat) (hx : x < p.q) :
    double p x < p.q ∧ abs p (double p x) = 2 * abs p x := ⟨double_lt p x hx, abs_double p x⟩
example : double p13 12 < 13 := (C01_double p13 12 (by decide)).1

/-- `halve` is the exact division by two -/
theorem C01_halve (h : p.OK) (x : Nat) (hx : x < p.q) :
    halve p x < p.q ∧ abs p (halve p x) * 2 = abs p x := ⟨halve_lt p x hx, abs_halve p h x⟩
example : halve p13 11 < 13 := (C01_halve p13 ok13 11 (by decide)).1

theorem C01_mulBySmall (h : p.OK) (c x : Nat) :
    mulBySmall p c x < p.q ∧ abs p (mulBySmall p c x) = (c : ZMod p.q) * abs p x :=
  mulBySmall_spec p h c x
example : mulBySmall p13 13 12 < 13 := (C01_mulBySmall p13 ok13 13 12).1

/-! ## 4. one, conversions -/

theorem C01_one (h : p.OK) : one p < p.q ∧ abs p (one p) = 1 := ⟨one_lt p h, abs_one p h⟩
example : one p251 < 251 := (C01_one p251 ok251).1

/-- `fromMont z` is the canonical representative of the abstract value -/
theorem C01_fromMont (h : p.OK) (z : Nat) (hz : z < p.q) :
    fromMont p z < p.q ∧ (fromMont p z : ZMod p.q) = abs p z ∧ fromMont p z = (abs p z).val :=
  ⟨fromMont_lt p h z hz, fromMont_cast p h z hz, toRegular_eq p h z hz⟩
example : fromMont p251 250 < 251 := (C01_fromMont p251 ok251 250 (by decide)).1

theorem C01_toMont (h : p.OK) (v : Nat) (hv : v < p.q) :
    toMont p v < p.q ∧ abs p (toMont p v) = v := ⟨toMont_lt p h v hv, abs_toMont p h v hv⟩
example : toMont p251 250 < 251 := (C01_toMont p251 ok251 250 (by decide)).1

theorem C01_mont_roundtrip (h : p.OK) (v : Nat) (hv : v < p.q) :
    fromMont p (toMont p v) = v ∧ toMont p (fromMont p v) = v :=
  ⟨fromMont_toMont p h v hv, toMont_fromMont p h v hv⟩
example : fromMont p251 (toMont p251 250) = 250 := (C01_mont_roundtrip p251 ok251 250 (by decide)).1

/-- `LexicographicallyLargest` / `Cmp` compare the canonical representatives of the abstract values -/
theorem C01_lexLargest (h : p.OK) (z : Nat) (hz : z < p.q) :
    lexLargest p z = decide ((abs p z).val > (p.q - 1) / 2) := by
  unfold lexLargest; rw [toRegular_eq p h z hz]
example : lexLargest p13 12 = decide ((abs p13 12).val > (13 - 1) / 2) :=
  C01_lexLargest p13 ok13 12 (by decide)

theorem C01_cmp (h : p.OK) (x y : Nat) (hx : x < p.q) (hy : y < p.q) :
    cmp p x y = if (abs p x).val < (abs p y).val then -1
      else if (abs p x).val > (abs p y).val then 1 else 0 := by
  unfold cmp; rw [toRegular_eq p h x hx, toRegular_eq p h y hy]
example : cmp p13 3 3 = 0 := by decide

/-! ## 5. exponentiation -/

/-- square-and-multiply over the bits of `e` computes `x^e`, for every natural `e` -/
theorem C01_expNat (h : p.OK) (x e : Nat) (hx : x < p.q) :
    expNat p x e < p.q ∧ abs p (expNat p x e) = abs p x ^ e := expNat_spec p h x e hx
example : expNat p251 7 1000 < 251 := (C01_expNat p251 ok251 7 1000 (by decide)).1

section prime
variable [Fact p.q.Prime]

/-- `Exp` for every integer exponent: `k = 0 ↦ 1` (also for `x = 0`), negative through the inverse -/
theorem C01_exp (h : p.OK) (x : Nat) (hx : x < p.q) (k : ℤ) :
    exp p x k < p.q ∧ abs p (exp p x k) = abs p x ^ k := exp_spec p h x hx k
example : exp p251 0 0 < 251 ∧ abs p251 (exp p251 0 0) = abs p251 0 ^ (0 : ℤ) :=
  C01_exp p251 ok251 0 (by decide) 0
example : exp p251 7 (-5) < 251 := (C01_exp p251 ok251 7 (by decide) (-5)).1

/-! ## 6. inverse, division -/

theorem C01_inv (h : p.OK) (x : Nat) (hx : x < p.q) :
    inv p x < p.q ∧ abs p (inv p x) = (abs p x)⁻¹ := inv_spec p h x hx
example : inv p251 7 < 251 := (C01_inv p251 ok251 7 (by decide)).1

omit [Fact p.q.Prime] in
theorem C01_inv_zero : inv p 0 = 0 := inv_zero p
example : inv p13 0 = 0 := C01_inv_zero p13

theorem C01_div (h : p.OK) (x y : Nat) (hx : x < p.q) (hy : y < p.q) :
    div p x y < p.q ∧ abs p (div p x y) = abs p x / abs p y := div_spec p h x y hx hy
example : div p251 7 0 < 251 := (C01_div p251 ok251 7 0 (by decide) (by decide)).1

/-! ## 7. batch inversion -/

/-- `BatchInvert` (Montgomery's trick, zero entries skipped) is the element-wise inverse with `0 ↦ 0`,
for every list of canonical elements -/
theorem C01_batchInv (h : p.OK) (xs : List Nat) (hxs : ∀ x ∈ xs, x < p.q) :
    batchInv p xs = xs.map (inv p) := batchInv_eq p h xs hxs
example : batchInv p251 [3, 0, 250, 0, 1] = [3, 0, 250, 0, 1].map (inv p251) :=
  C01_batchInv p251 ok251 _ (by decide)

/-! ## 8. Legendre symbol -/

/-- `Legendre` is 0 exactly on 0, 1 exactly on nonzero squares, -1 exactly on non-squares -/
theorem C01_legendre (h : p.OK) (x : Nat) (hx : x < p.q) :
    (legendre p x = 0 ↔ x = 0) ∧
    (legendre p x = 1 ↔ IsSquare (abs p x) ∧ abs p x ≠ 0) ∧
    (legendre p x = -1 ↔ ¬ IsSquare (abs p x)) := by
  have hz := abs_eq_zero_iff p h x hx
  rcases legendre_cases p h x hx with ⟨e, h0⟩ | ⟨e, h0, hs⟩ | ⟨e, h0, hs⟩
  · subst h0
    refine ⟨by simp [e], ?_, ?_⟩
    · rw [e]; simp [abs_zero]
    · rw [e]; simp [abs_zero]
  · refine ⟨by simp [e, h0], ?_, ?_⟩
    · rw [e]; simp [hs, hz, h0]
    · rw [e]; simp [hs]
  · refine ⟨by simp [e, h0], ?_, ?_⟩
    · rw [e]; simp [hs]
    · rw [e]; simp [hs]
example : legendre p13 0 = 0 := ((C01_legendre p13 ok13 0 (by decide)).1).2 rfl

end prime

/-! ## 9. square roots (regular values) -/

/-- the reference `powMod` is modular exponentiation -/
theorem C01_powMod (b e m : Nat) (hm : 1 < m) : powMod b e m = b ^ e % m := powMod_eq b e m hm
example : powMod 7 100 13 = 7 ^ 100 % 13 := C01_powMod 7 100 13 (by decide)

/-- `q ≡ 3 (mod 4)`: `sqrtRegular` returns a root exactly for the squares modulo `q`, `none` otherwise -/
theorem C01_sqrt_3mod4 [Fact p.q.Prime] (h : p.OK) (h4 : p.q % 4 = 3) (a : Nat) :
    (∀ r, sqrtRegular p a = some r → r * r % p.q = a % p.q) ∧
    (sqrtRegular p a = none ↔ ¬ IsSqMod p.q a) := by
  refine ⟨fun r => sqrt_sound p h a r, fun e hs => ?_, sqrt_none_of_nonsquare p h a⟩
  obtain ⟨r, hr⟩ := sqrt_some_of_square_3mod4 p h h4 a hs
  rw [e] at hr; cases hr
example : p251.q % 4 = 3 := by decide

/-
FULL statement for the remaining primes (Tonelli–Shanks branch), NOT provable for the model as it stands:
  theorem C01_sqrt [Fact p.q.Prime] (h : p.OK) (a : Nat) :
      (∀ r, sqrtRegular p a = some r → r * r % p.q = a % p.q) ∧ (sqrtRegular p a = none ↔ ¬ IsSqMod p.q a)
`sqrtRegular.findNR` searches a quadratic non-residue among `2 … 1001` only (fuel 1000); for a prime whose least
non-residue is larger the loop may give up (`none`) on a square. Delivered instead:
 * `C01_sqrt_partial`  – unconditional: every returned value is a root (any `q`, invariant `r² ≡ a·t`),
                          non-squares give `none`, multiples of `q` give `some 0`;
 * `C01_sqrt_TS`        – the full statement under the closed, decidable side condition that `findNR` did find
                          a non-residue (`g^((q-1)/2) ≡ -1`), to be discharged per modulus by evaluation.
-/
theorem C01_sqrt_partial [Fact p.q.Prime] (h : p.OK) (a : Nat) :
    (∀ r, sqrtRegular p a = some r → r * r % p.q = a % p.q) ∧
    (¬ IsSqMod p.q a → sqrtRegular p a = none) ∧
    (a % p.q = 0 → sqrtRegular p a = some 0) :=
  ⟨fun r => sqrt_sound p h a r, sqrt_none_of_nonsquare p h a, sqrt_zero p a⟩
example : sqrtRegular p13 26 = some 0 := (C01_sqrt_partial p13 ok13 26).2.2 (by decide)

theorem C01_sqrt_TS [Fact p.q.Prime] (h : p.OK)
    (hnr : powMod (sqrtRegular.findNR p.q 1000 2) ((p.q - 1) / 2) p.q = p.q - 1) (a : Nat) :
    (∀ r, sqrtRegular p a = some r → r * r % p.q = a % p.q) ∧
    (sqrtRegular p a = none ↔ ¬ IsSqMod p.q a) := by
  refine ⟨fun r => sqrt_sound p h a r, fun e hs => ?_, sqrt_none_of_nonsquare p h a⟩
  obtain ⟨r, hr⟩ := sqrt_some_of_square_TS p h hnr a hs
  rw [e] at hr; cases hr
example : powMod (sqrtRegular.findNR p13.q 1000 2) ((p13.q - 1) / 2) p13.q = p13.q - 1 := by decide

/-! ## 10. vector operations, every length -/

theorem C01_vecAdd (a b : List Nat) (ha : ∀ x ∈ a, x < p.q) (hb : ∀ y ∈ b, y < p.q) :
    (∀ z ∈ vecAdd p a b, z < p.q) ∧
    (vecAdd p a b).map (abs p) = List.zipWith (· + ·) (a.map (abs p)) (b.map (abs p)) :=
  zipWith_spec p _ _ (fun x y hx hy => ⟨add_lt p x y hx hy, abs_add p x y⟩) a b ha hb
example : ∀ z ∈ vecAdd p13 [12, 1] [12, 5], z < 13 :=
  (C01_vecAdd p13 [12, 1] [12, 5] (by decide) (by decide)).1

theorem C01_vecSub (a b : List Nat) (ha : ∀ x ∈ a, x < p.q) (hb : ∀ y ∈ b, y < p.q) :
    (∀ z ∈ vecSub p a b, z < p.q) ∧
    (vecSub p a b).map (abs p) = List.zipWith (· - ·) (a.map (abs p)) (b.map (abs p)) :=
  zipWith_spec p _ _ (fun x y hx hy => ⟨sub_lt p x y hx hy, abs_sub p x y hy⟩) a b ha hb
example : ∀ z ∈ vecSub p13 [0, 1] [12, 5], z < 13 :=
  (C01_vecSub p13 [0, 1] [12, 5] (by decide) (by decide)).1

theorem C01_vecMul (h : p.OK) (a b : List Nat) (ha : ∀ x ∈ a, x < p.q) (hb : ∀ y ∈ b, y < p.q) :
    (∀ z ∈ vecMul p a b, z < p.q) ∧
    (vecMul p a b).map (abs p) = List.zipWith (· * ·) (a.map (abs p)) (b.map (abs p)) :=
  zipWith_spec p _ _ (fun x y hx hy =>
    ⟨mul_lt p h x y hx (q_lt_R' p h hy), abs_mul p h x y hx (q_lt_R' p h hy)⟩) a b ha hb
example : ∀ z ∈ vecMul p13 [0, 1] [12, 5], z < 13 :=
  (C01_vecMul p13 ok13 [0, 1] [12, 5] (by decide) (by decide)).1

theorem C01_vecScalarMul (h : p.OK) (a : List Nat) (s : Nat) (ha : ∀ x ∈ a, x < p.q)
    (hs : s < p.q) :
    (∀ z ∈ vecScalarMul p a s, z < p.q) ∧
    (vecScalarMul p a s).map (abs p) = (a.map (abs p)).map (· * abs p s) := by
  unfold vecScalarMul
  constructor
  · intro z hz
    obtain ⟨x, hx, rfl⟩ := List.mem_map.1 hz
    exact mul_lt p h x s (ha x hx) (q_lt_R' p h hs)
  · rw [List.map_map, List.map_map]
    apply List.map_congr_left
    intro x hx
    exact abs_mul p h x s (ha x hx) (q_lt_R' p h hs)
example : ∀ z ∈ vecScalarMul p13 [0, 12] 12, z < 13 :=
  (C01_vecScalarMul p13 ok13 [0, 12] 12 (by decide) (by decide)).1

/-- `Sum` is the sum in `ZMod q` -/
theorem C01_vecSum (h : p.OK) (a : List Nat) (ha : ∀ x ∈ a, x < p.q) :
    vecSum p a < p.q ∧ abs p (vecSum p a) = (a.map (abs p)).sum := by
  have := foldl_add_spec p a ha 0 (by have := h.q_gt; omega)
  rw [abs_zero, zero_add] at this
  exact this
example : vecSum p13 [12, 12, 12] < 13 := (C01_vecSum p13 ok13 _ (by decide)).1

/-- `InnerProduct` is `Σ aᵢ·bᵢ` in `ZMod q` -/
theorem C01_vecInner (h : p.OK) (a b : List Nat) (ha : ∀ x ∈ a, x < p.q) (hb : ∀ y ∈ b, y < p.q) :
    vecInner p a b < p.q ∧
    abs p (vecInner p a b) = (List.zipWith (· * ·) (a.map (abs p)) (b.map (abs p))).sum := by
  obtain ⟨h1, h2⟩ := C01_vecMul p h a b ha hb
  have := foldl_add_spec p _ h1 0 (by have := h.q_gt; omega)
  rw [abs_zero, zero_add, h2] at this
  exact this
example : vecInner p13 [12, 12] [12, 3] < 13 :=
  (C01_vecInner p13 ok13 _ _ (by decide) (by decide)).1

end GV.Field
