/- C06 — extension-field and GT operations agree with generic arithmetic in F_p^k (bls24-315 tower:
   E2 = Fp[u]/(u²=13), E4 = E2[v]/(v²=u), E12 = E4[w]/(w³=v), E24 = E12[i]/(i²=w)).
   Every theorem is about a def GENERATED from the Go source (Gen/Tower/Bls24_315.lean). -/
import GnarkVerif.Proofs.TowerBls24_315
import Mathlib.Tactic.NormNum
import Mathlib.Data.Rat.Init

namespace GV.Gen.Tower.bls24_315
open GV.Tower

section ring
variable {F : Type} [CommRing F]

/-! ## E2 -/
@[gv_spec] theorem E2.Set_spec (x : E2 F) : (E2.Set x).1.spec = x.spec := rfl
@[gv_spec] theorem E2.SetZero_spec : (E2.SetZero (F := F)).spec = 0 := rfl
@[gv_spec] theorem E2.SetOne_spec : (E2.SetOne (F := F)).spec = 1 := rfl
@[gv_spec] theorem E2.Add_spec (x y : E2 F) : (E2.Add x y).1.spec = x.spec + y.spec := rfl
@[gv_spec] theorem E2.Sub_spec (x y : E2 F) : (E2.Sub x y).1.spec = x.spec - y.spec := rfl
@[gv_spec] theorem E2.Neg_spec (x : E2 F) : (E2.Neg x).1.spec = -x.spec := rfl
@[gv_spec] theorem E2.Double_spec (x : E2 F) : (E2.Double x).1.spec = x.spec + x.spec := rfl
@[gv_spec] theorem E2.Conjugate_spec (x : E2 F) : (E2.Conjugate x).1.spec = QuadExt.conj x.spec := rfl
@[gv_spec] theorem E2.Mul_spec (x y : E2 F) : (E2.Mul x y).1.spec = x.spec * y.spec := by
  ext <;> simp [E2.Mul, mulGenericE2] <;> ring
@[gv_spec] theorem E2.Square_spec (x : E2 F) : (E2.Square x).1.spec = x.spec * x.spec := by
  ext <;> simp [E2.Square] <;> ring
/-- multiplication by ξ (the non-residue defining E4) -/
@[gv_spec] theorem E2.MulByNonResidue_spec (x : E2 F) : (E2.MulByNonResidue x).1.spec = xi * x.spec := by
  ext <;> simp [E2.MulByNonResidue] <;> ring
@[gv_spec] theorem E2.MulByElement_spec (x : E2 F) (y : F) :
    (E2.MulByElement x y).1.spec = x.spec * QuadExt.ofBase y := by
  ext <;> simp [E2.MulByElement]
theorem E2.norm_spec (z : E2 F) : (E2.norm z).2 = QuadExt.norm z.spec := by
  simp [E2.norm, QuadExt.norm] <;> ring

/-! ## E4 = E2[v]/(v² = ξ) -/
@[gv_spec] theorem E4.Set_spec (x : E4 F) : (E4.Set x).1.spec = x.spec := rfl
@[gv_spec] theorem E4.SetZero_spec : (E4.SetZero (F := F)).spec = 0 := rfl
@[gv_spec] theorem E4.SetOne_spec : (E4.SetOne (F := F)).spec = 1 := rfl
@[gv_spec] theorem E4.Add_spec (x y : E4 F) : (E4.Add x y).1.spec = x.spec + y.spec := rfl
@[gv_spec] theorem E4.Sub_spec (x y : E4 F) : (E4.Sub x y).1.spec = x.spec - y.spec := rfl
@[gv_spec] theorem E4.Neg_spec (x : E4 F) : (E4.Neg x).1.spec = -x.spec := rfl
@[gv_spec] theorem E4.Double_spec (x : E4 F) : (E4.Double x).1.spec = x.spec + x.spec := rfl
@[gv_spec] theorem E4.Conjugate_spec (x : E4 F) : (E4.Conjugate x).1.spec = QuadExt.conj x.spec := rfl
@[gv_spec] theorem E4.Mul_spec (x y : E4 F) : (E4.Mul x y).1.spec = x.spec * y.spec := by
  gv_level E4.Mul
@[gv_spec] theorem E4.Square_spec (x : E4 F) : (E4.Square x).1.spec = x.spec * x.spec := by
  gv_level E4.Square
/-- multiplication by v -/
@[gv_spec] theorem E4.MulByNonResidue_spec (x : E4 F) :
    (E4.MulByNonResidue x).1.spec = QuadExt.gen * x.spec := by
  ext : 1 <;> simp [E4.MulByNonResidue, gv_alias, gv_spec]
@[gv_spec] theorem E4.MulByElement_spec (x : E4 F) (y : F) :
    (E4.MulByElement x y).1.spec = x.spec * QuadExt.ofBase (QuadExt.ofBase y) := by
  ext : 1 <;> simp [E4.MulByElement, gv_alias, gv_spec]

/-! ## E12 = E4[w]/(w³ = v) -/
@[gv_spec] theorem E12.Set_spec (x : E12 F) : (E12.Set x).1.spec = x.spec := rfl
@[gv_spec] theorem E12.SetOne_spec : (E12.SetOne (F := F)).spec = 1 := rfl
@[gv_spec] theorem E12.Add_spec (x y : E12 F) : (E12.Add x y).1.spec = x.spec + y.spec := rfl
@[gv_spec] theorem E12.Sub_spec (x y : E12 F) : (E12.Sub x y).1.spec = x.spec - y.spec := rfl
@[gv_spec] theorem E12.Neg_spec (x : E12 F) : (E12.Neg x).1.spec = -x.spec := rfl
@[gv_spec] theorem E12.Double_spec (x : E12 F) : (E12.Double x).1.spec = x.spec + x.spec := rfl
/-- multiplication by w -/
@[gv_spec] theorem E12.MulByNonResidue_spec (x : E12 F) :
    (E12.MulByNonResidue x).1.spec = CubicExt.gen * x.spec := by
  ext : 1 <;> simp [E12.MulByNonResidue, gv_alias, gv_spec]
@[gv_spec] theorem E12.Mul_spec (x y : E12 F) : (E12.Mul x y).1.spec = x.spec * y.spec := by
  gv_level E12.Mul
@[gv_spec] theorem E12.Square_spec (x : E12 F) : (E12.Square x).1.spec = x.spec * x.spec := by
  gv_level E12.Square
@[gv_spec] theorem E12.MulByE2_spec (x : E12 F) (y : E4 F) :
    (E12.MulByE2 x y).1.spec = x.spec * CubicExt.ofBase y.spec := by
  ext : 1 <;> simp [E12.MulByE2, gv_alias, gv_spec]
/-- sparse product by c0 + c1·w -/
@[gv_spec] theorem E12.MulBy01_spec (z : E12 F) (c0 c1 : E4 F) :
    (E12.MulBy01 z c0 c1).1.spec = z.spec * ⟨c0.spec, c1.spec, 0⟩ := by
  gv_level E12.MulBy01

/-! ## E24 = E12[i]/(i² = w) -/
@[gv_spec] theorem E24.Set_spec (x : E24 F) : (E24.Set x).1.spec = x.spec := rfl
@[gv_spec] theorem E24.SetOne_spec : (E24.SetOne (F := F)).spec = 1 := rfl
@[gv_spec] theorem E24.Add_spec (x y : E24 F) : (E24.Add x y).1.spec = x.spec + y.spec := rfl
@[gv_spec] theorem E24.Sub_spec (x y : E24 F) : (E24.Sub x y).1.spec = x.spec - y.spec := rfl
@[gv_spec] theorem E24.Double_spec (x : E24 F) : (E24.Double x).1.spec = x.spec + x.spec := rfl
@[gv_spec] theorem E24.Conjugate_spec (x : E24 F) : (E24.Conjugate x).1.spec = QuadExt.conj x.spec := rfl
@[gv_spec] theorem E24.InverseUnitary_spec (x : E24 F) :
    (E24.InverseUnitary x).1.spec = QuadExt.conj x.spec := rfl
@[gv_spec] theorem E24.Mul_spec (x y : E24 F) : (E24.Mul x y).1.spec = x.spec * y.spec := by
  gv_level E24.Mul
@[gv_spec] theorem E24.Square_spec (x : E24 F) : (E24.Square x).1.spec = x.spec * x.spec := by
  gv_level E24.Square

/-! ### sparse products used by the Miller loop -/
def sparse034 (c0 c3 c4 : E4 F) : Fp24 F := ⟨⟨c0.spec, 0, 0⟩, ⟨c3.spec, c4.spec, 0⟩⟩
def Arr5.spec01234 (x : Arr5 (E4 F)) : Fp24 F := ⟨⟨x.e0.spec, x.e1.spec, x.e2.spec⟩, ⟨x.e3.spec, x.e4.spec, 0⟩⟩

theorem E24.MulBy034_spec (z : E24 F) (c0 c3 c4 : E4 F) :
    (E24.MulBy034 z c0 c3 c4).1.spec = z.spec * sparse034 c0 c3 c4 := by
  gv_level2 E24.MulBy034, sparse034
theorem E24.MulBy34_spec (z : E24 F) (c3 c4 : E4 F) :
    (E24.MulBy34 z c3 c4).1.spec = z.spec * ⟨⟨1, 0, 0⟩, ⟨c3.spec, c4.spec, 0⟩⟩ := by
  gv_level2 E24.MulBy34
theorem Mul034By034_spec (d0 d3 d4 c0 c3 c4 : E4 F) :
    (Mul034By034 d0 d3 d4 c0 c3 c4).1.spec01234 = sparse034 d0 d3 d4 * sparse034 c0 c3 c4 := by
  gv_level2 Mul034By034, Arr5.spec01234, sparse034
theorem Mul34By34_spec (d3 d4 c3 c4 : E4 F) :
    (Mul34By34 d3 d4 c3 c4).1.spec01234
      = (⟨⟨1, 0, 0⟩, ⟨d3.spec, d4.spec, 0⟩⟩ : Fp24 F) * ⟨⟨1, 0, 0⟩, ⟨c3.spec, c4.spec, 0⟩⟩ := by
  gv_level2 Mul34By34, Arr5.spec01234
theorem E24.MulBy01234_spec (z : E24 F) (x : Arr5 (E4 F)) :
    (E24.MulBy01234 z x).1.spec = z.spec * x.spec01234 := by
  gv_level2 E24.MulBy01234, Arr5.spec01234

/-! ### cyclotomic squaring (Granger–Scott), Fp24 = Fp8[y]/(y³ = t), Fp8 = Fp4[t]/(t² = v), y = i, t = i³ -/
abbrev Fp8 (F : Type) [CommRing F] := QuadExt (Fp4 F) QuadExt.gen
def E24.gsA (x : E24 F) : Fp8 F := ⟨x.D0.C0.spec, x.D1.C1.spec⟩
def E24.gsB (x : E24 F) : Fp8 F := ⟨x.D1.C0.spec, x.D0.C2.spec⟩
def E24.gsC (x : E24 F) : Fp8 F := ⟨x.D0.C1.spec, x.D1.C2.spec⟩
/-- the Granger–Scott equations of the cyclotomic subgroup (see Props/C06.lean) -/
structure E24.Cyclotomic (x : E24 F) : Prop where
  r1 : x.gsB * x.gsC * QuadExt.gen = x.gsA * x.gsA - QuadExt.conj x.gsA
  r2 : x.gsA * x.gsB = QuadExt.gen * (x.gsC * x.gsC) + QuadExt.conj x.gsB
  r3 : x.gsA * x.gsC = x.gsB * x.gsB - QuadExt.conj x.gsC

theorem E24.CyclotomicSquare_spec (x : E24 F) (h : x.Cyclotomic) :
    (E24.CyclotomicSquare x).1.spec = x.spec * x.spec := by
  have h1a := congrArg QuadExt.a0 h.r1
  have h1b := congrArg QuadExt.a1 h.r1
  have h2a := congrArg QuadExt.a0 h.r2
  have h2b := congrArg QuadExt.a1 h.r2
  have h3a := congrArg QuadExt.a0 h.r3
  have h3b := congrArg QuadExt.a1 h.r3
  simp only [E24.gsA, E24.gsB, E24.gsC, gv_proj] at h1a h1b h2a h2b h3a h3b
  ext : 2 <;> simp only [E24.CyclotomicSquare, gv_alias, gv_spec, gv_proj]
  · linear_combination (-2 : Fp4 F) * h1a
  · linear_combination (-2 : Fp4 F) * h3a
  · linear_combination (-2 : Fp4 F) * h2b
  · linear_combination (-2 : Fp4 F) * h2a
  · linear_combination (-2 : Fp4 F) * h1b
  · linear_combination (-2 : Fp4 F) * h3b

example : (E24.SetOne (F := ℚ)).Cyclotomic := by
  constructor <;> ext <;> simp [E24.SetOne, E24.gsA, E24.gsB, E24.gsC] <;> rfl

theorem E24.CyclotomicSquareCompressed_eq (z x : E24 F) :
    let r := (E24.CyclotomicSquareCompressed z x).1
    let s := (E24.CyclotomicSquare x).1
    r.D0.C1.spec = s.D0.C1.spec ∧ r.D0.C2.spec = s.D0.C2.spec ∧ r.D1.C0.spec = s.D1.C0.spec ∧
    r.D1.C2.spec = s.D1.C2.spec ∧ r.D0.C0 = z.D0.C0 ∧ r.D1.C1 = z.D1.C1 := by
  intro r s
  refine ⟨?_, ?_, ?_, ?_, rfl, rfl⟩ <;>
    (simp only [r, s, E24.CyclotomicSquareCompressed, E24.CyclotomicSquare, gv_alias, gv_spec]; ring)

end ring

section field
variable {F : Type} [Field F]

/-! ## inverses -/
abbrev Fp2.inv (x : Fp2 F) : Fp2 F := QuadExt.invWith (·⁻¹) x
abbrev Fp4.inv (x : Fp4 F) : Fp4 F := QuadExt.invWith Fp2.inv x
abbrev Fp12.inv (x : Fp12 F) : Fp12 F := CubicExt.invWith Fp4.inv x
abbrev Fp24.inv (x : Fp24 F) : Fp24 F := QuadExt.invWith Fp12.inv x

@[gv_spec] theorem E2.Inverse_spec (x : E2 F) : (E2.Inverse x).1.spec = Fp2.inv x.spec := by
  ext <;> simp only [E2.Inverse, QuadExt.invWith, QuadExt.norm, gv_proj] <;> push_cast <;> ring
@[gv_spec] theorem E4.Inverse_spec (x : E4 F) : (E4.Inverse x).1.spec = Fp4.inv x.spec := by
  ext : 1 <;> simp only [E4.Inverse, gv_alias, gv_spec, gv_proj, Fp4.inv, QuadExt.invWith, QuadExt.norm] <;> ring_nf
@[gv_spec] theorem E12.Inverse_spec (x : E12 F) : (E12.Inverse x).1.spec = Fp12.inv x.spec := by
  ext : 1 <;> simp only [E12.Inverse, gv_alias, gv_spec, gv_proj, Fp12.inv, CubicExt.invWith, CubicExt.norm,
    CubicExt.adj] <;> ring_nf
@[gv_spec] theorem E24.Inverse_spec (x : E24 F) : (E24.Inverse x).1.spec = Fp24.inv x.spec := by
  ext : 1 <;> simp only [E24.Inverse, gv_alias, gv_spec, gv_proj, Fp24.inv, QuadExt.invWith, QuadExt.norm] <;> ring_nf

theorem Fp2.mul_inv (x : Fp2 F) (h : x.norm ≠ 0) : x * Fp2.inv x = 1 :=
  QuadExt.mul_invWith _ x (mul_inv_cancel₀ h)
theorem Fp4.mul_inv (x : Fp4 F) (h : x.norm.norm ≠ 0) : x * Fp4.inv x = 1 :=
  QuadExt.mul_invWith Fp2.inv x (Fp2.mul_inv x.norm h)
theorem Fp12.mul_inv (x : Fp12 F) (h : x.norm.norm.norm ≠ 0) : x * Fp12.inv x = 1 :=
  CubicExt.mul_invWith Fp4.inv x (Fp4.mul_inv x.norm h)
theorem Fp24.mul_inv (x : Fp24 F) (h : x.norm.norm.norm.norm ≠ 0) : x * Fp24.inv x = 1 :=
  QuadExt.mul_invWith Fp12.inv x (Fp12.mul_inv x.norm h)

theorem E2.mul_Inverse (x : E2 F) (h : x.spec.norm ≠ 0) : x.spec * (E2.Inverse x).1.spec = 1 := by
  rw [E2.Inverse_spec]; exact Fp2.mul_inv _ h
theorem E4.mul_Inverse (x : E4 F) (h : x.spec.norm.norm ≠ 0) : x.spec * (E4.Inverse x).1.spec = 1 := by
  rw [E4.Inverse_spec]; exact Fp4.mul_inv _ h
theorem E12.mul_Inverse (x : E12 F) (h : x.spec.norm.norm.norm ≠ 0) :
    x.spec * (E12.Inverse x).1.spec = 1 := by
  rw [E12.Inverse_spec]; exact Fp12.mul_inv _ h
theorem E24.mul_Inverse (x : E24 F) (h : x.spec.norm.norm.norm.norm ≠ 0) :
    x.spec * (E24.Inverse x).1.spec = 1 := by
  rw [E24.Inverse_spec]; exact Fp24.mul_inv _ h

theorem E2.Div_spec (x y : E2 F) : (E2.Div x y).1.spec = x.spec * Fp2.inv y.spec := by
  simp only [E2.Div, gv_alias, gv_spec]
theorem E4.Div_spec (x y : E4 F) : (E4.Div x y).1.spec = x.spec * Fp4.inv y.spec := by
  simp only [E4.Div, gv_alias, gv_spec]

/-- non-vacuity of the norm hypothesis -/
example : (E2.mk (1 : ℚ) 1).spec.norm ≠ 0 := by simp [QuadExt.norm]; norm_num

end field

end GV.Gen.Tower.bls24_315
