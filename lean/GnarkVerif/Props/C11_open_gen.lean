/- INSTANTIATED by bin/mkc11open.py (one proof template for the 7 packages). DO NOT EDIT: edit the script and re-run it. -/
import GnarkVerif.Props.C11_open_gen_bn254
import GnarkVerif.Props.C11_open_gen_bls12_377
import GnarkVerif.Props.C11_open_gen_bls12_381
import GnarkVerif.Props.C11_open_gen_bls24_315
import GnarkVerif.Props.C11_open_gen_bls24_317
import GnarkVerif.Props.C11_open_gen_bw6_633
import GnarkVerif.Props.C11_open_gen_bw6_761
/-
C11 tie T (prover side: eval, dividePolyByXminusA, Commit, Open): see Props/C11_open_gen_<curve>.lean. This root module only collects the 7 instances.
-/
