import GnarkVerif.Proofs.PointCodecGen
import GnarkVerif.Props.C07
/-
C07_codec_gen — tie T for the FLAG DISPATCH of the point codecs (G1): `isZeroed`, `isCompressed`, `isMaskInvalid`, `(*G1Affine).Bytes`,
`RawBytes`, `setBytes`, `SetBytes` of `ecc/<curve>/marshal.go` are RE-TRANSLATED statement by statement on every run
(tools/goslp/pointcodec.go → Gen/PointCodec/<curve>.lean; the 10 Weierstrass packages: bn254, grumpkin, stark-curve — 2 flag bits —,
bls12-377, bls12-381, bls24-315, bls24-317, bw6-633, bw6-761 — 3 flag bits —, and secp256k1 — no flag, `RawBytes` / `setBytes` only) and proved here to compute the decoder of the hand model
(Model/PointCodec.lean) for EVERY byte string, so that the theorems of Props/C07.lean are theorems about the translated Go text.

What is translated: the length checks, `mData := buf[0] & mMask`, `isMaskInvalid`, every flag comparison, the "infinity must have a zero
payload" checks (`isZeroed`, its `range` loop), the copy of the X bytes with the flag bits cleared, the order of the calls, the sign choice
(`LexicographicallyLargest` / `Neg`), `subGroupCheck && !p.IsInSubGroup()`, the returned sizes and error values.
What is a PARAMETER of the generated definitions (structure `Prims`, Model/PointCodecGo.lean), with the behaviour ASSUMED as hypothesis
`Rel P C g` of the theorems (Proofs/PointCodecGen.lean): `SetZero` / `IsZero`; `SetBytesCanonical` (= big-endian value, accepted iff < p:
proved for the element codecs in Props/C08_gen_*); `BigEndian.PutElement` (= `fp.Bytes` big-endian bytes of the canonical value, C08_gen);
`Square`, `Mul`, `Add`, `bCurveCoeff` (only through `g x` = the text's `x³ + b`, resp. `x³ + x + b` for stark-curve, = `C.rhs x`); `Sqrt`,
`LexicographicallyLargest`, `Neg` (= those of the codec `C`, whose laws are `Codec.OK`: C01); `IsInSubGroup` (true exactly on (0,0) and on
the points of the curve that lie in the subgroup: `Codec.goInSub`). Slice bounds on `buf` are NOT assumed: the translation guards each one
(`GoErr.outOfRange`) and `absR … = some …` shows the guard never fires. The state of the receiver after an ERROR return is not described.

Statement shape: `Refines C G` — for every receiver content, byte string and `subGroupCheck`, the abstraction `absR` of the result of the
generated function `G` (receiver pair read as a point, (0,0) = infinity; Go error value ↦ error class of the model) is the Go-exact
decoder `C.goDecode`, which is built from the model's own `parseFrame` / `phase1` and differs from `C.setBytes` (the property) in exactly
the two known findings, stated as theorems below rather than hidden:
  * F2: uncompressed branch with the subgroup check off: no curve equation check (`C07codec_finding_nosub_unchecked`);
  * F3: a root y = 0 (2-torsion) is returned for both compressed flags (`C07codec_finding_two_torsion`).
`C07codec_eq_model`: outside those two answers of the model (`Err.lex`, `Err.offcurve`) the generated code IS `C.setBytes`.
Every package's translation is the generic text of its family at its own `fp.Bytes` by `rfl` (Proofs/PointCodecGen.lean, `<curve>_setBytes`…),
so an edit of one package's marshal.go breaks that package's `rfl`, an edit of the template breaks the refinement proof.
`Bytes` / `RawBytes` (section 1b): the generated encoders write exactly `encCompressed` / `encRaw` of the model for every receiver pair with
canonical coordinates (`EncodesC`, `EncodesR`; the flag OR-ed into the first byte = `code · 2^(8·fb−k)` added to the big-endian value, which
needs `p ≤ 2^(8·fb−k)` of `Codec.OK`); `isZeroed` = "big-endian value zero", `isCompressed` = "flag is not an uncompressed one" for all 256 bytes.
G2 of bw6-633 / bw6-761 (coordinates in Fp) is the G1 text with `bTwistCurveCoeff` and is covered (section 1d).
G2 over Fp² (bn254, bls12-377, bls12-381; section 1e): `setBytes` is translated with the tower coordinate as a value and its components written
one by one (`p.X.A1.SetBytesCanonical(…)` = base-field decode then `setComp "A1"`; structure `Comps`), `Legendre() == -1` before the unchecked `Sqrt`;
hypothesis `Rel2`: writing A1 then A0 yields `C.ofComps [a1, a0]` (marshal order A1 | A0), `C.sqrt v = none` iff `Legendre v = -1`, else `Sqrt v`.
Not covered: G2 over Fp⁴ (bls24-315, bls24-317: translated and `rfl`-tied to one generic text, refinement not proved), `Bytes` / `RawBytes` of the tower G2, the stream Encoder / Decoder,
the two-phase helpers of the slice decoder (`…SetCompressedBytes` / `…ComputeY`, which park the flag in a limb of Y).
-/
namespace GV.PointCodec
open GV GV.Alg GV.PointCodecGo

set_option linter.unusedSectionVars false
variable {α : Type} [DecidableEq α]

/-- `G` (a generated `setBytes` with its primitives fixed) computes the Go-exact decoder of the codec `C` -/
def Refines (C : Codec α) (G : α → α → List UInt8 → Bool → Except GoErr (α × α × Nat)) : Prop :=
  ∀ pX pY buf sub, C.absR (G pX pY buf sub) = some (C.goDecode sub buf)

/-! ## 1. every package's `setBytes` refines the Go-exact decoder -/

theorem C07codec_setBytes_bn254 (P : Prims α) (C : Codec α) (R : Rel P C (goRhs P)) (hL : C.L = .two) (hfb : C.fb = 32) :
    Refines C (GV.Gen.PointCodec.bn254.G1_setBytes P) := by
  intro pX pY buf sub
  rw [bn254_setBytes, ← hfb]
  exact goSetBytes2_refines P C _ R hL pX pY buf sub

/-- the exported `SetBytes` is `setBytes` with the subgroup check on -/
theorem C07codec_SetBytes_bn254 (P : Prims α) (pX pY : α) (buf : List UInt8) :
    GV.Gen.PointCodec.bn254.G1_SetBytes P pX pY buf = GV.Gen.PointCodec.bn254.G1_setBytes P pX pY buf true := rfl

theorem C07codec_setBytes_grumpkin (P : Prims α) (C : Codec α) (R : Rel P C (goRhs P)) (hL : C.L = .two) (hfb : C.fb = 32) :
    Refines C (GV.Gen.PointCodec.grumpkin.G1_setBytes P) := by
  intro pX pY buf sub
  rw [grumpkin_setBytes, ← hfb]
  exact goSetBytes2_refines P C _ R hL pX pY buf sub

/-- the exported `SetBytes` is `setBytes` with the subgroup check on -/
theorem C07codec_SetBytes_grumpkin (P : Prims α) (pX pY : α) (buf : List UInt8) :
    GV.Gen.PointCodec.grumpkin.G1_SetBytes P pX pY buf = GV.Gen.PointCodec.grumpkin.G1_setBytes P pX pY buf true := rfl

theorem C07codec_setBytes_stark_curve (P : Prims α) (C : Codec α) (R : Rel P C (goRhsA1 P)) (hL : C.L = .two) (hfb : C.fb = 32) :
    Refines C (GV.Gen.PointCodec.stark_curve.G1_setBytes P) := by
  intro pX pY buf sub
  rw [stark_curve_setBytes, ← hfb]
  exact goSetBytes2_refines P C _ R hL pX pY buf sub

/-- the exported `SetBytes` is `setBytes` with the subgroup check on -/
theorem C07codec_SetBytes_stark_curve (P : Prims α) (pX pY : α) (buf : List UInt8) :
    GV.Gen.PointCodec.stark_curve.G1_SetBytes P pX pY buf = GV.Gen.PointCodec.stark_curve.G1_setBytes P pX pY buf true := rfl

theorem C07codec_setBytes_bls12_377 (P : Prims α) (C : Codec α) (R : Rel P C (goRhs P)) (hL : C.L = .three) (hfb : C.fb = 48) :
    Refines C (GV.Gen.PointCodec.bls12_377.G1_setBytes P) := by
  intro pX pY buf sub
  rw [bls12_377_setBytes, ← hfb]
  exact goSetBytes3_refines P C _ R hL pX pY buf sub

/-- the exported `SetBytes` is `setBytes` with the subgroup check on -/
theorem C07codec_SetBytes_bls12_377 (P : Prims α) (pX pY : α) (buf : List UInt8) :
    GV.Gen.PointCodec.bls12_377.G1_SetBytes P pX pY buf = GV.Gen.PointCodec.bls12_377.G1_setBytes P pX pY buf true := rfl

theorem C07codec_setBytes_bls12_381 (P : Prims α) (C : Codec α) (R : Rel P C (goRhs P)) (hL : C.L = .three) (hfb : C.fb = 48) :
    Refines C (GV.Gen.PointCodec.bls12_381.G1_setBytes P) := by
  intro pX pY buf sub
  rw [bls12_381_setBytes, ← hfb]
  exact goSetBytes3_refines P C _ R hL pX pY buf sub

/-- the exported `SetBytes` is `setBytes` with the subgroup check on -/
theorem C07codec_SetBytes_bls12_381 (P : Prims α) (pX pY : α) (buf : List UInt8) :
    GV.Gen.PointCodec.bls12_381.G1_SetBytes P pX pY buf = GV.Gen.PointCodec.bls12_381.G1_setBytes P pX pY buf true := rfl

theorem C07codec_setBytes_bls24_315 (P : Prims α) (C : Codec α) (R : Rel P C (goRhs P)) (hL : C.L = .three) (hfb : C.fb = 40) :
    Refines C (GV.Gen.PointCodec.bls24_315.G1_setBytes P) := by
  intro pX pY buf sub
  rw [bls24_315_setBytes, ← hfb]
  exact goSetBytes3_refines P C _ R hL pX pY buf sub

/-- the exported `SetBytes` is `setBytes` with the subgroup check on -/
theorem C07codec_SetBytes_bls24_315 (P : Prims α) (pX pY : α) (buf : List UInt8) :
    GV.Gen.PointCodec.bls24_315.G1_SetBytes P pX pY buf = GV.Gen.PointCodec.bls24_315.G1_setBytes P pX pY buf true := rfl

theorem C07codec_setBytes_bls24_317 (P : Prims α) (C : Codec α) (R : Rel P C (goRhs P)) (hL : C.L = .three) (hfb : C.fb = 40) :
    Refines C (GV.Gen.PointCodec.bls24_317.G1_setBytes P) := by
  intro pX pY buf sub
  rw [bls24_317_setBytes, ← hfb]
  exact goSetBytes3_refines P C _ R hL pX pY buf sub

/-- the exported `SetBytes` is `setBytes` with the subgroup check on -/
theorem C07codec_SetBytes_bls24_317 (P : Prims α) (pX pY : α) (buf : List UInt8) :
    GV.Gen.PointCodec.bls24_317.G1_SetBytes P pX pY buf = GV.Gen.PointCodec.bls24_317.G1_setBytes P pX pY buf true := rfl

theorem C07codec_setBytes_bw6_633 (P : Prims α) (C : Codec α) (R : Rel P C (goRhs P)) (hL : C.L = .three) (hfb : C.fb = 80) :
    Refines C (GV.Gen.PointCodec.bw6_633.G1_setBytes P) := by
  intro pX pY buf sub
  rw [bw6_633_setBytes, ← hfb]
  exact goSetBytes3_refines P C _ R hL pX pY buf sub

/-- the exported `SetBytes` is `setBytes` with the subgroup check on -/
theorem C07codec_SetBytes_bw6_633 (P : Prims α) (pX pY : α) (buf : List UInt8) :
    GV.Gen.PointCodec.bw6_633.G1_SetBytes P pX pY buf = GV.Gen.PointCodec.bw6_633.G1_setBytes P pX pY buf true := rfl

theorem C07codec_setBytes_bw6_761 (P : Prims α) (C : Codec α) (R : Rel P C (goRhs P)) (hL : C.L = .three) (hfb : C.fb = 96) :
    Refines C (GV.Gen.PointCodec.bw6_761.G1_setBytes P) := by
  intro pX pY buf sub
  rw [bw6_761_setBytes, ← hfb]
  exact goSetBytes3_refines P C _ R hL pX pY buf sub

/-- the exported `SetBytes` is `setBytes` with the subgroup check on -/
theorem C07codec_SetBytes_bw6_761 (P : Prims α) (pX pY : α) (buf : List UInt8) :
    GV.Gen.PointCodec.bw6_761.G1_SetBytes P pX pY buf = GV.Gen.PointCodec.bw6_761.G1_setBytes P pX pY buf true := rfl

/-! ## 1b. every package's `Bytes` / `RawBytes` is the encoder of the model; `isZeroed`, `isCompressed` -/

/-- `B` (a generated `Bytes` with its primitives fixed) writes the model's compressed encoding of the receiver read as a point -/
def EncodesC (C : Codec α) (B : α → α → List UInt8) : Prop := ∀ x y, C.Valid x → B x y = C.encCompressed (C.mkPt x y)
/-- the same for `RawBytes` (`Marshal`) -/
def EncodesR (C : Codec α) (B : α → α → List UInt8) : Prop := ∀ x y, C.Valid x → C.Valid y → B x y = C.encRaw (C.mkPt x y)

theorem C07codec_Bytes_bn254 (P : Prims α) (C : Codec α) (g : α → α) (R : Rel P C g) (h : C.OK) (hL : C.L = .two) (hfb : C.fb = 32) :
    EncodesC C (GV.Gen.PointCodec.bn254.G1_Bytes P) := by
  intro x y hx
  rw [bn254_Bytes, ← hfb]
  exact goBytes2_eq P C g R h hL x y hx

theorem C07codec_RawBytes_bn254 (P : Prims α) (C : Codec α) (g : α → α) (R : Rel P C g) (hL : C.L = .two) (hfb : C.fb = 32) :
    EncodesR C (GV.Gen.PointCodec.bn254.G1_RawBytes P) := by
  intro x y hx hy
  rw [bn254_RawBytes, ← hfb]
  exact goRawBytes2_eq P C g R hL x y hx hy

/-- `isZeroed(b, l)`: the big-endian value of `b :: l` is zero; `isCompressed(b)`: the flag of `b` is not an uncompressed one -/
theorem C07codec_helpers_bn254 :
    (∀ (b : UInt8) (l : List UInt8), GV.Gen.PointCodec.bn254.isZeroed b l = decide (beToNat (b :: l) = 0)) ∧
    (∀ b : UInt8, GV.Gen.PointCodec.bn254.isCompressed b = (Layout.two.classify (b.toNat / 64) != .unc)) :=
  ⟨fun b l => by rw [bn254_isZeroed, goIsZeroed_eq], by apply byte_forall; decide +kernel⟩

theorem C07codec_Bytes_grumpkin (P : Prims α) (C : Codec α) (g : α → α) (R : Rel P C g) (h : C.OK) (hL : C.L = .two) (hfb : C.fb = 32) :
    EncodesC C (GV.Gen.PointCodec.grumpkin.G1_Bytes P) := by
  intro x y hx
  rw [grumpkin_Bytes, ← hfb]
  exact goBytes2_eq P C g R h hL x y hx

theorem C07codec_RawBytes_grumpkin (P : Prims α) (C : Codec α) (g : α → α) (R : Rel P C g) (hL : C.L = .two) (hfb : C.fb = 32) :
    EncodesR C (GV.Gen.PointCodec.grumpkin.G1_RawBytes P) := by
  intro x y hx hy
  rw [grumpkin_RawBytes, ← hfb]
  exact goRawBytes2_eq P C g R hL x y hx hy

/-- `isZeroed(b, l)`: the big-endian value of `b :: l` is zero; `isCompressed(b)`: the flag of `b` is not an uncompressed one -/
theorem C07codec_helpers_grumpkin :
    (∀ (b : UInt8) (l : List UInt8), GV.Gen.PointCodec.grumpkin.isZeroed b l = decide (beToNat (b :: l) = 0)) ∧
    (∀ b : UInt8, GV.Gen.PointCodec.grumpkin.isCompressed b = (Layout.two.classify (b.toNat / 64) != .unc)) :=
  ⟨fun b l => by rw [grumpkin_isZeroed, goIsZeroed_eq], by apply byte_forall; decide +kernel⟩

theorem C07codec_Bytes_stark_curve (P : Prims α) (C : Codec α) (g : α → α) (R : Rel P C g) (h : C.OK) (hL : C.L = .two) (hfb : C.fb = 32) :
    EncodesC C (GV.Gen.PointCodec.stark_curve.G1_Bytes P) := by
  intro x y hx
  rw [stark_curve_Bytes, ← hfb]
  exact goBytes2_eq P C g R h hL x y hx

theorem C07codec_RawBytes_stark_curve (P : Prims α) (C : Codec α) (g : α → α) (R : Rel P C g) (hL : C.L = .two) (hfb : C.fb = 32) :
    EncodesR C (GV.Gen.PointCodec.stark_curve.G1_RawBytes P) := by
  intro x y hx hy
  rw [stark_curve_RawBytes, ← hfb]
  exact goRawBytes2_eq P C g R hL x y hx hy

/-- `isZeroed(b, l)`: the big-endian value of `b :: l` is zero; `isCompressed(b)`: the flag of `b` is not an uncompressed one -/
theorem C07codec_helpers_stark_curve :
    (∀ (b : UInt8) (l : List UInt8), GV.Gen.PointCodec.stark_curve.isZeroed b l = decide (beToNat (b :: l) = 0)) ∧
    (∀ b : UInt8, GV.Gen.PointCodec.stark_curve.isCompressed b = (Layout.two.classify (b.toNat / 64) != .unc)) :=
  ⟨fun b l => by rw [stark_curve_isZeroed, goIsZeroed_eq], by apply byte_forall; decide +kernel⟩

theorem C07codec_Bytes_bls12_377 (P : Prims α) (C : Codec α) (g : α → α) (R : Rel P C g) (h : C.OK) (hL : C.L = .three) (hfb : C.fb = 48) :
    EncodesC C (GV.Gen.PointCodec.bls12_377.G1_Bytes P) := by
  intro x y hx
  rw [bls12_377_Bytes, ← hfb]
  exact goBytes3_eq P C g R h hL x y hx

theorem C07codec_RawBytes_bls12_377 (P : Prims α) (C : Codec α) (g : α → α) (R : Rel P C g) (hL : C.L = .three) (hfb : C.fb = 48) :
    EncodesR C (GV.Gen.PointCodec.bls12_377.G1_RawBytes P) := by
  intro x y hx hy
  rw [bls12_377_RawBytes, ← hfb]
  exact goRawBytes3_eq P C g R hL x y hx hy

/-- `isZeroed(b, l)`: the big-endian value of `b :: l` is zero; `isCompressed(b)`: the flag of `b` is not an uncompressed one -/
theorem C07codec_helpers_bls12_377 :
    (∀ (b : UInt8) (l : List UInt8), GV.Gen.PointCodec.bls12_377.isZeroed b l = decide (beToNat (b :: l) = 0)) ∧
    (∀ b : UInt8, GV.Gen.PointCodec.bls12_377.isCompressed b = (!(Layout.three.classify (b.toNat / 32) == .unc || Layout.three.classify (b.toNat / 32) == .uncInf))) :=
  ⟨fun b l => by rw [bls12_377_isZeroed, goIsZeroed_eq], by apply byte_forall; decide +kernel⟩

theorem C07codec_Bytes_bls12_381 (P : Prims α) (C : Codec α) (g : α → α) (R : Rel P C g) (h : C.OK) (hL : C.L = .three) (hfb : C.fb = 48) :
    EncodesC C (GV.Gen.PointCodec.bls12_381.G1_Bytes P) := by
  intro x y hx
  rw [bls12_381_Bytes, ← hfb]
  exact goBytes3_eq P C g R h hL x y hx

theorem C07codec_RawBytes_bls12_381 (P : Prims α) (C : Codec α) (g : α → α) (R : Rel P C g) (hL : C.L = .three) (hfb : C.fb = 48) :
    EncodesR C (GV.Gen.PointCodec.bls12_381.G1_RawBytes P) := by
  intro x y hx hy
  rw [bls12_381_RawBytes, ← hfb]
  exact goRawBytes3_eq P C g R hL x y hx hy

/-- `isZeroed(b, l)`: the big-endian value of `b :: l` is zero; `isCompressed(b)`: the flag of `b` is not an uncompressed one -/
theorem C07codec_helpers_bls12_381 :
    (∀ (b : UInt8) (l : List UInt8), GV.Gen.PointCodec.bls12_381.isZeroed b l = decide (beToNat (b :: l) = 0)) ∧
    (∀ b : UInt8, GV.Gen.PointCodec.bls12_381.isCompressed b = (!(Layout.three.classify (b.toNat / 32) == .unc || Layout.three.classify (b.toNat / 32) == .uncInf))) :=
  ⟨fun b l => by rw [bls12_381_isZeroed, goIsZeroed_eq], by apply byte_forall; decide +kernel⟩

theorem C07codec_Bytes_bls24_315 (P : Prims α) (C : Codec α) (g : α → α) (R : Rel P C g) (h : C.OK) (hL : C.L = .three) (hfb : C.fb = 40) :
    EncodesC C (GV.Gen.PointCodec.bls24_315.G1_Bytes P) := by
  intro x y hx
  rw [bls24_315_Bytes, ← hfb]
  exact goBytes3_eq P C g R h hL x y hx

theorem C07codec_RawBytes_bls24_315 (P : Prims α) (C : Codec α) (g : α → α) (R : Rel P C g) (hL : C.L = .three) (hfb : C.fb = 40) :
    EncodesR C (GV.Gen.PointCodec.bls24_315.G1_RawBytes P) := by
  intro x y hx hy
  rw [bls24_315_RawBytes, ← hfb]
  exact goRawBytes3_eq P C g R hL x y hx hy

/-- `isZeroed(b, l)`: the big-endian value of `b :: l` is zero; `isCompressed(b)`: the flag of `b` is not an uncompressed one -/
theorem C07codec_helpers_bls24_315 :
    (∀ (b : UInt8) (l : List UInt8), GV.Gen.PointCodec.bls24_315.isZeroed b l = decide (beToNat (b :: l) = 0)) ∧
    (∀ b : UInt8, GV.Gen.PointCodec.bls24_315.isCompressed b = (!(Layout.three.classify (b.toNat / 32) == .unc || Layout.three.classify (b.toNat / 32) == .uncInf))) :=
  ⟨fun b l => by rw [bls24_315_isZeroed, goIsZeroed_eq], by apply byte_forall; decide +kernel⟩

theorem C07codec_Bytes_bls24_317 (P : Prims α) (C : Codec α) (g : α → α) (R : Rel P C g) (h : C.OK) (hL : C.L = .three) (hfb : C.fb = 40) :
    EncodesC C (GV.Gen.PointCodec.bls24_317.G1_Bytes P) := by
  intro x y hx
  rw [bls24_317_Bytes, ← hfb]
  exact goBytes3_eq P C g R h hL x y hx

theorem C07codec_RawBytes_bls24_317 (P : Prims α) (C : Codec α) (g : α → α) (R : Rel P C g) (hL : C.L = .three) (hfb : C.fb = 40) :
    EncodesR C (GV.Gen.PointCodec.bls24_317.G1_RawBytes P) := by
  intro x y hx hy
  rw [bls24_317_RawBytes, ← hfb]
  exact goRawBytes3_eq P C g R hL x y hx hy

/-- `isZeroed(b, l)`: the big-endian value of `b :: l` is zero; `isCompressed(b)`: the flag of `b` is not an uncompressed one -/
theorem C07codec_helpers_bls24_317 :
    (∀ (b : UInt8) (l : List UInt8), GV.Gen.PointCodec.bls24_317.isZeroed b l = decide (beToNat (b :: l) = 0)) ∧
    (∀ b : UInt8, GV.Gen.PointCodec.bls24_317.isCompressed b = (!(Layout.three.classify (b.toNat / 32) == .unc || Layout.three.classify (b.toNat / 32) == .uncInf))) :=
  ⟨fun b l => by rw [bls24_317_isZeroed, goIsZeroed_eq], by apply byte_forall; decide +kernel⟩

theorem C07codec_Bytes_bw6_633 (P : Prims α) (C : Codec α) (g : α → α) (R : Rel P C g) (h : C.OK) (hL : C.L = .three) (hfb : C.fb = 80) :
    EncodesC C (GV.Gen.PointCodec.bw6_633.G1_Bytes P) := by
  intro x y hx
  rw [bw6_633_Bytes, ← hfb]
  exact goBytes3_eq P C g R h hL x y hx

theorem C07codec_RawBytes_bw6_633 (P : Prims α) (C : Codec α) (g : α → α) (R : Rel P C g) (hL : C.L = .three) (hfb : C.fb = 80) :
    EncodesR C (GV.Gen.PointCodec.bw6_633.G1_RawBytes P) := by
  intro x y hx hy
  rw [bw6_633_RawBytes, ← hfb]
  exact goRawBytes3_eq P C g R hL x y hx hy

/-- `isZeroed(b, l)`: the big-endian value of `b :: l` is zero; `isCompressed(b)`: the flag of `b` is not an uncompressed one -/
theorem C07codec_helpers_bw6_633 :
    (∀ (b : UInt8) (l : List UInt8), GV.Gen.PointCodec.bw6_633.isZeroed b l = decide (beToNat (b :: l) = 0)) ∧
    (∀ b : UInt8, GV.Gen.PointCodec.bw6_633.isCompressed b = (!(Layout.three.classify (b.toNat / 32) == .unc || Layout.three.classify (b.toNat / 32) == .uncInf))) :=
  ⟨fun b l => by rw [bw6_633_isZeroed, goIsZeroed_eq], by apply byte_forall; decide +kernel⟩

theorem C07codec_Bytes_bw6_761 (P : Prims α) (C : Codec α) (g : α → α) (R : Rel P C g) (h : C.OK) (hL : C.L = .three) (hfb : C.fb = 96) :
    EncodesC C (GV.Gen.PointCodec.bw6_761.G1_Bytes P) := by
  intro x y hx
  rw [bw6_761_Bytes, ← hfb]
  exact goBytes3_eq P C g R h hL x y hx

theorem C07codec_RawBytes_bw6_761 (P : Prims α) (C : Codec α) (g : α → α) (R : Rel P C g) (hL : C.L = .three) (hfb : C.fb = 96) :
    EncodesR C (GV.Gen.PointCodec.bw6_761.G1_RawBytes P) := by
  intro x y hx hy
  rw [bw6_761_RawBytes, ← hfb]
  exact goRawBytes3_eq P C g R hL x y hx hy

/-- `isZeroed(b, l)`: the big-endian value of `b :: l` is zero; `isCompressed(b)`: the flag of `b` is not an uncompressed one -/
theorem C07codec_helpers_bw6_761 :
    (∀ (b : UInt8) (l : List UInt8), GV.Gen.PointCodec.bw6_761.isZeroed b l = decide (beToNat (b :: l) = 0)) ∧
    (∀ b : UInt8, GV.Gen.PointCodec.bw6_761.isCompressed b = (!(Layout.three.classify (b.toNat / 32) == .unc || Layout.three.classify (b.toNat / 32) == .uncInf))) :=
  ⟨fun b l => by rw [bw6_761_isZeroed, goIsZeroed_eq], by apply byte_forall; decide +kernel⟩

/-! ## 1c. secp256k1 (raw encoding only: no flag, no compressed form, `Layout.raw`) -/

theorem C07codec_setBytes_secp256k1 (P : Prims α) (C : Codec α) (g : α → α) (R : Rel P C g) (hL : C.L = .raw) (hfb : C.fb = 32) :
    Refines C (GV.Gen.PointCodec.secp256k1.G1_setBytes P) := by
  intro pX pY buf sub
  rw [secp256k1_setBytes, ← hfb]
  exact goSetBytesRaw_refines P C g R hL pX pY buf sub

theorem C07codec_SetBytes_secp256k1 (P : Prims α) (pX pY : α) (buf : List UInt8) :
    GV.Gen.PointCodec.secp256k1.G1_SetBytes P pX pY buf = GV.Gen.PointCodec.secp256k1.G1_setBytes P pX pY buf true := rfl

theorem C07codec_RawBytes_secp256k1 (P : Prims α) (C : Codec α) (g : α → α) (R : Rel P C g) (h : C.OK) (hL : C.L = .raw)
    (hfb : C.fb = 32) : EncodesR C (GV.Gen.PointCodec.secp256k1.G1_RawBytes P) := by
  intro x y hx hy
  rw [secp256k1_RawBytes, ← hfb]
  exact goRawBytesRaw_eq P C g R h hL x y hx hy

/-! ## 1d. G2 of bw6-633 / bw6-761 (coordinates in the base field: the G1 text with the twist coefficient) -/

theorem C07codec_G2_setBytes_bw6_633 (P : Prims α) (C : Codec α) (R : Rel P C (goRhsTwist P)) (hL : C.L = .three) (hfb : C.fb = 80) :
    Refines C (GV.Gen.PointCodec.bw6_633.G2_setBytes P) := by
  intro pX pY buf sub
  rw [bw6_633_G2_setBytes, ← hfb]
  exact goSetBytes3_refines P C _ R hL pX pY buf sub

theorem C07codec_G2_SetBytes_bw6_633 (P : Prims α) (pX pY : α) (buf : List UInt8) :
    GV.Gen.PointCodec.bw6_633.G2_SetBytes P pX pY buf = GV.Gen.PointCodec.bw6_633.G2_setBytes P pX pY buf true := rfl

theorem C07codec_G2_Bytes_bw6_633 (P : Prims α) (C : Codec α) (g : α → α) (R : Rel P C g) (h : C.OK) (hL : C.L = .three) (hfb : C.fb = 80) :
    EncodesC C (GV.Gen.PointCodec.bw6_633.G2_Bytes P) := by
  intro x y hx
  rw [bw6_633_G2_Bytes, ← hfb]
  exact goBytes3_eq P C g R h hL x y hx

theorem C07codec_G2_RawBytes_bw6_633 (P : Prims α) (C : Codec α) (g : α → α) (R : Rel P C g) (hL : C.L = .three) (hfb : C.fb = 80) :
    EncodesR C (GV.Gen.PointCodec.bw6_633.G2_RawBytes P) := by
  intro x y hx hy
  rw [bw6_633_G2_RawBytes, ← hfb]
  exact goRawBytes3_eq P C g R hL x y hx hy

theorem C07codec_G2_setBytes_bw6_761 (P : Prims α) (C : Codec α) (R : Rel P C (goRhsTwist P)) (hL : C.L = .three) (hfb : C.fb = 96) :
    Refines C (GV.Gen.PointCodec.bw6_761.G2_setBytes P) := by
  intro pX pY buf sub
  rw [bw6_761_G2_setBytes, ← hfb]
  exact goSetBytes3_refines P C _ R hL pX pY buf sub

theorem C07codec_G2_SetBytes_bw6_761 (P : Prims α) (pX pY : α) (buf : List UInt8) :
    GV.Gen.PointCodec.bw6_761.G2_SetBytes P pX pY buf = GV.Gen.PointCodec.bw6_761.G2_setBytes P pX pY buf true := rfl

theorem C07codec_G2_Bytes_bw6_761 (P : Prims α) (C : Codec α) (g : α → α) (R : Rel P C g) (h : C.OK) (hL : C.L = .three) (hfb : C.fb = 96) :
    EncodesC C (GV.Gen.PointCodec.bw6_761.G2_Bytes P) := by
  intro x y hx
  rw [bw6_761_G2_Bytes, ← hfb]
  exact goBytes3_eq P C g R h hL x y hx

theorem C07codec_G2_RawBytes_bw6_761 (P : Prims α) (C : Codec α) (g : α → α) (R : Rel P C g) (hL : C.L = .three) (hfb : C.fb = 96) :
    EncodesR C (GV.Gen.PointCodec.bw6_761.G2_RawBytes P) := by
  intro x y hx hy
  rw [bw6_761_G2_RawBytes, ← hfb]
  exact goRawBytes3_eq P C g R hL x y hx hy

/-! ## 1e. G2 over Fp² (bn254, bls12-377, bls12-381): the coordinate codec is a sequence of base-field element codecs -/

theorem C07codec_G2_setBytes_bn254 {β : Type} (P : Prims α) (Q : Comps α β) (C : Codec α) (emb : Nat → β)
    (R : Rel2 P Q C (goRhsTwist P) emb) (hL : C.L = .two) (hfb : C.fb = 32) :
    Refines C (GV.Gen.PointCodec.bn254.G2_setBytes P Q) := by
  intro pX pY buf sub
  rw [bn254_G2_setBytes, ← hfb]
  exact goSetBytes2E2_refines P Q C _ emb R hL pX pY buf sub

theorem C07codec_G2_setBytes_bls12_377 {β : Type} (P : Prims α) (Q : Comps α β) (C : Codec α) (emb : Nat → β)
    (R : Rel2 P Q C (goRhsTwist P) emb) (hL : C.L = .three) (hfb : C.fb = 48) :
    Refines C (GV.Gen.PointCodec.bls12_377.G2_setBytes P Q) := by
  intro pX pY buf sub
  rw [bls12_377_G2_setBytes, ← hfb]
  exact goSetBytes3E2_refines P Q C _ emb R hL pX pY buf sub

theorem C07codec_G2_setBytes_bls12_381 {β : Type} (P : Prims α) (Q : Comps α β) (C : Codec α) (emb : Nat → β)
    (R : Rel2 P Q C (goRhsTwist P) emb) (hL : C.L = .three) (hfb : C.fb = 48) :
    Refines C (GV.Gen.PointCodec.bls12_381.G2_setBytes P Q) := by
  intro pX pY buf sub
  rw [bls12_381_G2_setBytes, ← hfb]
  exact goSetBytes3E2_refines P Q C _ emb R hL pX pY buf sub

/-! ## 2. the Go-exact decoder against the property -/

/-- outside the two findings the generated code computes the decoder of the model (same point, same size, same error class) -/
theorem C07codec_eq_model {C : Codec α} {G} (h : C.OK) (hG : Refines C G) (pX pY : α) (buf : List UInt8) (sub : Bool)
    (h1 : C.setBytes sub buf ≠ .error .lex) (h2 : sub = false → C.setBytes sub buf ≠ .error .offcurve) :
    C.absR (G pX pY buf sub) = some (C.setBytes sub buf) := by
  rw [hG, Codec.goDecode_eq_setBytes h sub buf h1 h2]

theorem absR_ok_inv (C : Codec α) (r : Except GoErr (α × α × Nat)) (P : Pt α) (n : Nat)
    (h : C.absR r = some (.ok (P, n))) : ∃ x y, r = .ok (x, y, n) ∧ C.mkPt x y = P := by
  cases r with
  | error e => cases he : Codec.errClass e <;> simp [Codec.absR, he] at h
  | ok v =>
    obtain ⟨x, y, m⟩ := v
    simp only [Codec.absR, Option.some.injEq, Except.ok.injEq, Prod.mk.injEq] at h
    exact ⟨x, y, by rw [h.2], h.1⟩

/-- whatever the model accepts the generated code accepts, with the same point and size -/
theorem C07codec_accepts {C : Codec α} {G} (h : C.OK) (hG : Refines C G) (pX pY : α) (buf : List UInt8) (sub : Bool)
    (P : Pt α) (n : Nat) (hs : C.setBytes sub buf = .ok (P, n)) :
    ∃ x y, G pX pY buf sub = .ok (x, y, n) ∧ C.mkPt x y = P := by
  apply absR_ok_inv
  rw [C07codec_eq_model h hG pX pY buf sub (by rw [hs]; simp) (by intro _; rw [hs]; simp), hs]

/-- an error of the model other than the two findings is an error of the generated code, of the same class -/
theorem C07codec_rejects {C : Codec α} {G} (h : C.OK) (hG : Refines C G) (pX pY : α) (buf : List UInt8) (sub : Bool)
    (e : Err) (hs : C.setBytes sub buf = .error e) (h1 : e ≠ .lex) (h2 : e ≠ .offcurve) :
    ∃ e0, G pX pY buf sub = .error e0 ∧ Codec.errClass e0 = some e := by
  have := C07codec_eq_model h hG pX pY buf sub (by rw [hs]; simpa using h1) (by intro _; rw [hs]; simpa using h2)
  rw [hs] at this
  cases hr : G pX pY buf sub with
  | ok v => obtain ⟨x, y, m⟩ := v; rw [hr] at this; simp [Codec.absR] at this
  | error e0 =>
    rw [hr] at this
    refine ⟨e0, rfl, ?_⟩
    cases he : Codec.errClass e0 <;> simp [Codec.absR, he] at this
    rw [this]

/-! ## 3. the C07 theorems for the generated code -/

/-- ACCEPTANCE. What the generated `setBytes` accepts is — unless the model answers with one of the two findings — accepted by the model
with the same point and size, hence infinity or a point with canonical coordinates on the curve, in the subgroup when the check is on; the
size was available and is one of the two frame sizes; and the consumed bytes re-encode identically (only alias: the all-zero raw
infinity of the 3-bit layout) -/
theorem C07codec_accept {C : Codec α} {G} (h : C.OK) (hG : Refines C G) (pX pY : α) (buf : List UInt8) (sub : Bool)
    (x y : α) (n : Nat) (hok : G pX pY buf sub = .ok (x, y, n)) :
    (C.setBytes sub buf = .ok (C.mkPt x y, n) ∧ C.Good sub (C.mkPt x y) ∧ n ≤ buf.length ∧ (n = C.nbC ∨ n = 2 * C.nbC) ∧
      ((n = C.nbC ∧ buf.take n = C.encCompressed (C.mkPt x y)) ∨ (n = 2 * C.nbC ∧ buf.take n = C.encRaw (C.mkPt x y)) ∨
       (C.L = .three ∧ C.mkPt x y = none ∧ n = 2 * C.nbC ∧ buf.take n = List.replicate n 0))) ∨
    C.setBytes sub buf = .error .lex ∨ (sub = false ∧ C.setBytes sub buf = .error .offcurve) := by
  by_cases h1 : C.setBytes sub buf = .error .lex
  · exact Or.inr (Or.inl h1)
  by_cases h2 : sub = false ∧ C.setBytes sub buf = .error .offcurve
  · exact Or.inr (Or.inr h2)
  left
  have he := C07codec_eq_model h hG pX pY buf sub h1 (fun hs hh => h2 ⟨hs, hh⟩)
  rw [hok] at he
  simp only [Codec.absR, Option.some.injEq] at he
  have hs : C.setBytes sub buf = .ok (C.mkPt x y, n) := he.symm
  obtain ⟨hg, hn, hn2⟩ := C07_accept h sub buf _ n hs
  exact ⟨hs, hg, hn, hn2, C07_canonical h sub buf _ n hs⟩

/-- with the subgroup check ON (the exported `SetBytes`) the only finding left is the 2-torsion alias -/
theorem C07codec_accept_checked {C : Codec α} {G} (h : C.OK) (hG : Refines C G) (pX pY : α) (buf : List UInt8)
    (x y : α) (n : Nat) (hok : G pX pY buf true = .ok (x, y, n)) :
    (C.setBytes true buf = .ok (C.mkPt x y, n) ∧ C.Good true (C.mkPt x y) ∧ n ≤ buf.length ∧ (n = C.nbC ∨ n = 2 * C.nbC)) ∨
    C.setBytes true buf = .error .lex := by
  rcases C07codec_accept h hG pX pY buf true x y n hok with ⟨a, b, c, d, _⟩ | hl | ⟨hf, _⟩
  · exact Or.inl ⟨a, b, c, d⟩
  · exact Or.inr hl
  · cases hf

/-- ROUND TRIP (decoder side): the generated `setBytes` returns P and the compressed size on the model's compressed encoding of every
valid P, whatever follows in the buffer -/
theorem C07codec_roundtrip_compressed {C : Codec α} {G} (h : C.OK) (hG : Refines C G) (hL : C.L ≠ .raw) (pX pY : α) (sub : Bool)
    (P : Pt α) (hP : C.Good sub P) (rest : List UInt8) :
    ∃ x y, G pX pY (C.encCompressed P ++ rest) sub = .ok (x, y, C.nbC) ∧ C.mkPt x y = P :=
  C07codec_accepts h hG pX pY _ sub P _ (C07_roundtrip_compressed h hL sub P hP rest)

theorem C07codec_roundtrip_raw {C : Codec α} {G} (h : C.OK) (hG : Refines C G) (pX pY : α) (sub : Bool)
    (P : Pt α) (hP : C.Good sub P) (rest : List UInt8) :
    ∃ x y, G pX pY (C.encRaw P ++ rest) sub = .ok (x, y, 2 * C.nbC) ∧ C.mkPt x y = P :=
  C07codec_accepts h hG pX pY _ sub P _ (C07_roundtrip_raw h sub P hP rest)

/-- ROUND TRIP of the generated code on both sides: generated `setBytes` ∘ generated `Bytes` returns the point it was given (as a point:
(0,0) = infinity), for every receiver pair that is a valid group element, whatever follows in the buffer -/
theorem C07codec_roundtrip_gen_compressed {C : Codec α} {G B} (h : C.OK) (hG : Refines C G) (hB : EncodesC C B) (hL : C.L ≠ .raw)
    (pX pY : α) (sub : Bool) (x y : α) (hx : C.Valid x) (hP : C.Good sub (C.mkPt x y)) (rest : List UInt8) :
    ∃ x' y', G pX pY (B x y ++ rest) sub = .ok (x', y', C.nbC) ∧ C.mkPt x' y' = C.mkPt x y := by
  rw [hB x y hx]; exact C07codec_roundtrip_compressed h hG hL pX pY sub _ hP rest

theorem C07codec_roundtrip_gen_raw {C : Codec α} {G B} (h : C.OK) (hG : Refines C G) (hB : EncodesR C B)
    (pX pY : α) (sub : Bool) (x y : α) (hx : C.Valid x) (hy : C.Valid y) (hP : C.Good sub (C.mkPt x y)) (rest : List UInt8) :
    ∃ x' y', G pX pY (B x y ++ rest) sub = .ok (x', y', 2 * C.nbC) ∧ C.mkPt x' y' = C.mkPt x y := by
  rw [hB x y hx hy]; exact C07codec_roundtrip_raw h hG pX pY sub _ hP rest

/-- the result does not depend on what the receiver held (no state leaks into the decision) -/
theorem C07codec_receiver_independent {C : Codec α} {G} (hG : Refines C G) (pX pY qX qY : α) (buf : List UInt8) (sub : Bool) :
    C.absR (G pX pY buf sub) = C.absR (G qX qY buf sub) := by rw [hG, hG]

/-! ## 4. the findings, as theorems about the Go-exact decoder -/

/-- F2: with `NoSubgroupChecks` the uncompressed branch returns whatever canonical pair it read: no on-curve check -/
theorem C07codec_finding_nosub_unchecked (C : Codec α) (x y : α) : C.phase2Go false (.unc x y) = .ok (C.mkPt x y) :=
  Codec.phase2Go_unc_nosub x y

/-- F3: on a curve with 2-torsion, the point (x, 0) decodes from BOTH compressed flags -/
theorem C07codec_finding_two_torsion {C : Codec α} (h : C.OK) (sub : Bool) (x : α) (hs : C.sqrt (C.rhs x) = some C.zero)
    (hsub : sub = true → C.goInSub x C.zero = true) :
    C.phase2Go sub (.comp x true) = .ok (C.mkPt x C.zero) ∧ C.phase2Go sub (.comp x false) = .ok (C.mkPt x C.zero) :=
  ⟨Codec.phase2Go_comp_zero h sub x true hs hsub, Codec.phase2Go_comp_zero h sub x false hs hsub⟩

/-! ## 5. non-vacuity: the generic Go text run on the toy codec of Props/C07.lean (y² = x³ + 3 over F₁₃, one byte per coordinate) -/

section toy

def toyPrims : Prims Nat where
  zero := toy.zero
  isZero := fun x => decide (x = toy.zero)
  setBytesCanonical := fun bs => if beToNat bs < toy.p then some (toy.ofComps [beToNat bs]) else none
  putElement := fun x => putBE toy.fb ((toy.toComps x).headD 0)
  square := fun x => x * x % 13
  mul := fun x y => x * y % 13
  add := fun x y => (x + y) % 13
  neg := toy.neg
  sqrt := toy.sqrt
  lex := toy.lex
  bCurveCoeff := 3
  bTwistCurveCoeff := 3
  isInSubGroup := toy.goInSub

/-- the hypotheses `Rel` are satisfiable -/
theorem toyRel : Rel toyPrims toy toy.rhs where
  c1 := rfl
  fb_pos := by decide
  zero := rfl
  isZero := fun _ => rfl
  sbc := fun _ _ => rfl
  put := fun x hx => by
    obtain ⟨v, hv⟩ := List.length_eq_one_iff.mp (show (toy.toComps x).length = 1 from hx.len)
    exact ⟨v, hv, by simp [toyPrims, hv]⟩
  rhs := fun _ => rfl
  sqrt := fun _ => rfl
  lex := fun _ => rfl
  neg := fun _ => rfl
  sub := fun _ _ => rfl

theorem toyRefines : Refines toy (goSetBytes2 1 toy.rhs toyPrims) := fun pX pY buf sub =>
  goSetBytes2_refines toyPrims toy toy.rhs toyRel rfl pX pY buf sub

example : goSetBytes2 1 toy.rhs toyPrims 7 7 [0x81, 0xff] true = .ok (1, 2, 1) := by rfl
example : goSetBytes2 1 toy.rhs toyPrims 7 7 [0xc1] true = .ok (1, 11, 1) := by rfl
example : goSetBytes2 1 toy.rhs toyPrims 7 7 [0x01, 0x02] true = .ok (1, 2, 2) := by rfl
example : goSetBytes2 1 toy.rhs toyPrims 7 7 [0x40] true = .ok (0, 0, 1) := by rfl
example : goSetBytes2 1 toy.rhs toyPrims 7 7 [0x41] true = .error .ErrInvalidInfinityEncoding := by rfl
example : goSetBytes2 1 toy.rhs toyPrims 7 7 [0x8d] true = .error .setBytesCanonical := by rfl
example : goSetBytes2 1 toy.rhs toyPrims 7 7 [0x01] true = .error .ErrShortBuffer := by rfl
example : goSetBytes2 1 toy.rhs toyPrims 7 7 [] true = .error .ErrShortBuffer := by rfl
/-- F2 on the toy curve: (1,3) is not on y² = x³ + 3, the generic Go text returns it, the model (property) answers `offcurve` -/
example : goSetBytes2 1 toy.rhs toyPrims 7 7 [0x01, 0x03] false = .ok (1, 3, 2) ∧ toy.setBytes false [0x01, 0x03] = .error .offcurve :=
  ⟨by rfl, by rfl⟩
example : goBytes2 1 toyPrims 1 2 = [0x81] ∧ goBytes2 1 toyPrims 1 11 = [0xc1] ∧ goBytes2 1 toyPrims 0 0 = [0x40] := ⟨by rfl, by rfl, by rfl⟩
example : goRawBytes2 1 toyPrims 1 2 = [0x01, 0x02] ∧ goRawBytes2 1 toyPrims 0 0 = [0x00, 0x00] := ⟨by rfl, by rfl⟩
example : EncodesC toy (goBytes2 1 toyPrims) ∧ EncodesR toy (goRawBytes2 1 toyPrims) :=
  ⟨fun x y hx => goBytes2_eq toyPrims toy toy.rhs toyRel toy_OK rfl x y hx,
   fun x y hx hy => goRawBytes2_eq toyPrims toy toy.rhs toyRel rfl x y hx hy⟩
/-- the hypotheses of `C07codec_accept` / `_roundtrip_*` are satisfiable -/
example : toy.OK ∧ Refines toy (goSetBytes2 1 toy.rhs toyPrims) ∧ toy.Good true (some (1, 2)) := ⟨toy_OK, toyRefines, toy_good⟩

end toy

/-! ## 6. the hypotheses at the REAL parameters (curve table of the model, regenerated `fp.Bytes`) -/

/-- primitives read off a codec: a WITNESS that `Rel` is satisfiable for a codec of any size (`Square` := the whole right-hand side, `Mul` / `Add`
:= left projection, so that each of the three texts `x³ + b`, `x³ + x + b`, `x³ + b'` evaluates to `C.rhs x`) -/
def primsOf (C : Codec α) : Prims α where
  zero := C.zero
  isZero := fun x => decide (x = C.zero)
  setBytesCanonical := fun bs => if beToNat bs < C.p then some (C.ofComps [beToNat bs]) else none
  putElement := fun x => putBE C.fb ((C.toComps x).headD 0)
  square := C.rhs
  mul := fun a _ => a
  add := fun a _ => a
  neg := C.neg
  sqrt := C.sqrt
  lex := C.lex
  bCurveCoeff := C.zero
  bTwistCurveCoeff := C.zero
  isInSubGroup := C.goInSub

theorem relOf (C : Codec α) (g : α → α) (hg : ∀ x, g x = C.rhs x) (hc : C.c = 1) (hfb : 1 ≤ C.fb) : Rel (primsOf C) C g where
  c1 := hc
  fb_pos := hfb
  zero := rfl
  isZero := fun _ => rfl
  sbc := fun _ _ => rfl
  put := fun x hx => by
    obtain ⟨v, hv⟩ := List.length_eq_one_iff.mp (show (C.toComps x).length = 1 from hc ▸ hx.len)
    exact ⟨v, hv, by simp [primsOf, hv]⟩
  rhs := hg
  sqrt := fun _ => rfl
  lex := fun _ => rfl
  neg := fun _ => rfl
  sub := fun _ _ => rfl

/-- name, layout and `fp.Bytes` (regenerated, Gen/Fields.lean) of the ten packages: the `hL` / `hfb` hypotheses of sections 1–1d -/
theorem C07codec_table_sizes : curves.map (fun d => (d.name, d.L, d.fpC.bytes)) =
    [("bn254", .two, 32), ("bls12-377", .three, 48), ("bls12-381", .three, 48), ("bls24-315", .three, 40), ("bls24-317", .three, 40),
     ("bw6-633", .three, 80), ("bw6-761", .three, 96), ("grumpkin", .two, 32), ("stark-curve", .two, 32), ("secp256k1", .raw, 32)] := by
  decide +kernel

/-- for every curve of the table the G1 codec the driver runs (and the model's theorems are instantiated with) satisfies `Codec.OK` (base
modulus prime: C07_G1_OK) and `Rel` holds for `primsOf` with each of the three right-hand-side texts; its layout and element size are those of
`C07codec_table_sizes` — so the hypotheses of every `C07codec_*_<curve>` theorem are satisfiable at that package's own parameters -/
theorem C07codec_hyps_table (d : CurveDesc) (hd : d ∈ curves) [Fact d.fpP.q.Prime] :
    d.codec1.OK ∧ Rel (primsOf d.codec1) d.codec1 (goRhs (primsOf d.codec1)) ∧
    Rel (primsOf d.codec1) d.codec1 (goRhsA1 (primsOf d.codec1)) ∧ Rel (primsOf d.codec1) d.codec1 (goRhsTwist (primsOf d.codec1)) ∧
    d.codec1.L = d.L ∧ d.codec1.fb = d.fpC.bytes := by
  have hb : ∀ d ∈ curves, 1 ≤ d.fpC.bytes := by decide +kernel
  exact ⟨C07_G1_OK d hd, relOf _ _ (fun _ => rfl) rfl (hb d hd), relOf _ _ (fun _ => rfl) rfl (hb d hd),
    relOf _ _ (fun _ => rfl) rfl (hb d hd), rfl, rfl⟩

/-- e.g. bn254: everything the per-package theorems need, for the codec of the table (the base modulus prime) -/
example (d : CurveDesc) (hd : d ∈ curves) (hn : d.L = .two) (hb : d.fpC.bytes = 32) [Fact d.fpP.q.Prime] :
    Refines d.codec1 (GV.Gen.PointCodec.bn254.G1_setBytes (primsOf d.codec1)) ∧
    EncodesC d.codec1 (GV.Gen.PointCodec.bn254.G1_Bytes (primsOf d.codec1)) ∧
    EncodesR d.codec1 (GV.Gen.PointCodec.bn254.G1_RawBytes (primsOf d.codec1)) := by
  obtain ⟨hok, r1, _, _, hL, hfb⟩ := C07codec_hyps_table d hd
  exact ⟨C07codec_setBytes_bn254 _ _ r1 (hL.trans hn) (hfb.trans hb), C07codec_Bytes_bn254 _ _ _ r1 hok (hL.trans hn) (hfb.trans hb),
    C07codec_RawBytes_bn254 _ _ _ r1 (hL.trans hn) (hfb.trans hb)⟩

/-- component access on pairs (A0, A1): a WITNESS that `Rel2` is satisfiable for the Fp² codec of a table curve -/
def compsOf (C : Codec E2) : Comps E2 Nat where
  sbc := fun bs => if beToNat bs < C.p then some (beToNat bs) else none
  setComp := fun path z v => if path = "A1" then (z.1, v) else (v, z.2)
  getComp := fun path z => if path = "A1" then z.2 else z.1
  put := fun v => putBE C.fb v
  legendre := fun v => if (C.sqrt v).isNone then -1 else 1
  sqrtU := fun v => (C.sqrt v).getD C.zero

theorem rel2Of (d : CurveDesc) (hfb : 1 ≤ d.fpC.bytes) (g : E2 → E2) (hg : ∀ x, g x = d.codecE2.rhs x) :
    Rel2 (primsOf d.codecE2) (compsOf d.codecE2) d.codecE2 g id where
  c2 := rfl
  fb_pos := hfb
  zero := rfl
  sbc := fun _ _ => rfl
  set2 := fun _ _ _ => rfl
  rhs := hg
  sqrt := fun v => by
    show d.codecE2.sqrt v = if (if (d.codecE2.sqrt v).isNone then (-1 : Int) else 1) = -1 then none
      else some ((d.codecE2.sqrt v).getD d.codecE2.zero)
    generalize hs : d.codecE2.sqrt v = r
    cases r <;> simp
  lex := fun _ => rfl
  neg := fun _ => rfl
  sub := fun _ _ => rfl

/-- the hypotheses of `C07codec_G2_setBytes_*` are satisfiable at the real sizes and layouts -/
example (d : CurveDesc) (hd : d ∈ curves) :
    Rel2 (primsOf d.codecE2) (compsOf d.codecE2) d.codecE2 (goRhsTwist (primsOf d.codecE2)) id ∧
    d.codecE2.L = d.L ∧ d.codecE2.fb = d.fpC.bytes := by
  have hb : ∀ d ∈ curves, 1 ≤ d.fpC.bytes := by decide +kernel
  exact ⟨rel2Of d (hb d hd) _ (fun _ => rfl), rfl, rfl⟩

end GV.PointCodec
