import GnarkVerif.Proofs.Limb
import GnarkVerif.Gen.Limb.Babybear
/-
C01_limb (babybear, one 32-bit word, products in a 64-bit accumulator) — the limb code of field/babybear (Gen/Limb/Babybear.lean, regenerated
on every run) equals the value-level model `GV.Field` on ALL canonical inputs, as equalities `Op x y = GV.Field.op P x y`:
`montReduce` (REDC of a 64-bit value `v < q·2^32`: `m = (v mod 2^32)·qInvNeg mod 2^32`, `t = (v + m·q) / 2^32`, one conditional
subtraction), `Mul`, `Square`, `fromMontGeneric`, `reduceGeneric`, `Add`, `Sub`, `Neg`, `Double`, `Halve`, `smallerThanModulus`.
-/
set_option maxRecDepth 100000
namespace GV.Limb.babybear
open GV.Field GV.Limb GV.Gen.Limb.babybear

abbrev P : Params := ofConsts GV.Gen.babybear
theorem P_ok : P.OK := Params.OK_of_okb _ (by decide +kernel)
theorem P_q : P.q = 2013265921 := by decide +kernel
theorem P_W : P.W = 4294967296 := by decide +kernel

/-- REDC on the 64-bit accumulator: for every `v < q·2^32` the result is `< q`, and `result·2^32 ≡ v (mod q)` through the
explicit quotient `R = (v + m·q)/2^32 < 2q` with a word-sized Montgomery factor `m` -/
theorem montReduce_lin (v : Nat) (hv : v < 2013265921 * 4294967296) :
    ∃ R m, m < 4294967296 ∧ R * 4294967296 = v + m * 2013265921 ∧ R < 2 * 2013265921 ∧
      montReduce v = (if R ≥ 2013265921 then R - 2013265921 else R) := by
  unfold montReduce
  limb_start
  have hdiv : (v + m_1 * 2013265921) % 4294967296 = 0 := by omega
  refine ⟨(v + m_1 * 2013265921) / 4294967296, m_1, by omega, by omega, by omega, ?_⟩
  have ht : t_1 = (v + m_1 * 2013265921) / 4294967296 := by omega
  rw [← ht]
  by_cases hge : t_1 ≥ 2013265921
  · subst_ites [hge]
    rw [if_pos hge]
    omega
  · subst_ites [hge]
    rw [if_neg hge]

theorem montReduce_spec (x y : Nat) (hx : x < P.q) (hy : y < P.q) :
    montReduce (x * y) = GV.Field.mul P x y := by
  have hq := P_q
  have hv : x * y < 2013265921 * 4294967296 := by
    rw [hq] at hx hy
    calc x * y ≤ 2013265921 * y := Nat.mul_le_mul_right _ (by omega)
      _ < 2013265921 * 4294967296 := Nat.mul_lt_mul_of_pos_left (by omega) (by omega)
  obtain ⟨R, m, hm, e, hR2, hres⟩ := montReduce_lin (x * y) hv
  have hy' : y < P.W := by rw [P_W]; rw [hq] at hy; omega
  have hR : R = ciosStep P x 0 y := by
    apply ciosStep_of_lin P P_ok _ _ _ _ m (by rw [P_W]; exact hm)
    rw [P_W, P_q]
    linarith
  rw [hres]
  unfold GV.Field.mul
  rw [show y = limbsVal P.w [y] from by simp [limbsVal],
    montRaw_limbs P _ [y] (by intro z hz; simp only [List.mem_cons, List.not_mem_nil, or_false] at hz; subst hz; exact hy') rfl]
  rw [List.foldl_cons, List.foldl_nil, ← hR]
  unfold reduceOnce
  rw [P_q]

/-- **C01_limb Mul** (the 32×32→64 product does not wrap) -/
theorem Mul_spec (x y : Nat) (hx : x < P.q) (hy : y < P.q) :
    Gen.Limb.babybear.Mul x y = GV.Field.mul P x y := by
  rw [← montReduce_spec x y hx hy]
  have hq := P_q
  rw [hq] at hx hy
  have hv : x * y < 18446744073709551616 := by
    calc x * y ≤ 2013265921 * y := Nat.mul_le_mul_right _ (by omega)
      _ < 2013265921 * 4294967296 := Nat.mul_lt_mul_of_pos_left (by omega) (by omega)
      _ < 18446744073709551616 := by decide
  unfold Gen.Limb.babybear.Mul montReduce
  rw [Nat.mod_eq_of_lt hv]
example := Mul_spec 5 7 (by decide +kernel) (by decide +kernel)

theorem Square_spec (x : Nat) (hx : x < P.q) : Gen.Limb.babybear.Square x = GV.Field.square P x := by
  have : Gen.Limb.babybear.Square x = Gen.Limb.babybear.Mul x x := rfl
  rw [this, Mul_spec x x hx hx]; rfl

/-- `fromMont` is REDC of the value itself -/
theorem fromMontGeneric_spec (z : Nat) (hz : z < P.q) :
    Gen.Limb.babybear.fromMontGeneric z = GV.Field.fromMont P z := by
  have h1 : Gen.Limb.babybear.fromMontGeneric z = montReduce (z * 1) := by rw [Nat.mul_one]; rfl
  have hq := P_q
  rw [h1, montReduce_spec z 1 hz (by rw [hq]; decide)]
  rfl

theorem reduceGeneric_spec (z : Nat) (hz : z < 2 * P.q) (hw : z < 4294967296) :
    Gen.Limb.babybear.reduceGeneric z = GV.Field.reduceOnce P z := by
  unfold GV.Field.reduceOnce
  rw [P_q] at hz ⊢
  unfold Gen.Limb.babybear.reduceGeneric
  limb_start
  by_cases h : z < 2013265921
  · have h' : ¬ ¬ z < 2013265921 := fun c => c h
    subst_ites [h']
    rw [if_neg (by omega)]
  · subst_ites [h]
    rw [if_pos (by omega)]
    omega

theorem Add_spec (x y : Nat) (hx : x < P.q) (hy : y < P.q) :
    Gen.Limb.babybear.Add x y = GV.Field.add P x y := by
  unfold GV.Field.add reduceOnce
  rw [P_q] at hx hy ⊢
  unfold Gen.Limb.babybear.Add
  limb_start
  by_cases h : t_1 ≥ 2013265921
  · subst_ites [h]
    rw [if_pos (by omega)]; omega
  · subst_ites [h]
    rw [if_neg (by omega)]; omega
example := Add_spec 5 7 (by decide +kernel) (by decide +kernel)

theorem Double_spec (x : Nat) (hx : x < P.q) :
    Gen.Limb.babybear.Double x = GV.Field.double P x := by
  unfold GV.Field.double reduceOnce
  rw [P_q] at hx ⊢
  unfold Gen.Limb.babybear.Double
  limb_start
  by_cases h : t_1 ≥ 2013265921
  · subst_ites [h]
    rw [if_pos (by omega)]; omega
  · subst_ites [h]
    rw [if_neg (by omega)]; omega

theorem Sub_spec (x y : Nat) (hx : x < P.q) (hy : y < P.q) :
    Gen.Limb.babybear.Sub x y = GV.Field.sub P x y := by
  unfold GV.Field.sub
  rw [P_q] at hx hy ⊢
  unfold Gen.Limb.babybear.Sub
  limb_start
  by_cases hcond : b_1 ≠ 0
  · subst_ites [hcond]
    by_cases h : x < y
    · rw [if_pos h]; omega
    · rw [if_neg h]; omega
  · subst_ites [hcond]
    by_cases h : x < y
    · rw [if_pos h]; omega
    · rw [if_neg h]; omega
example := Sub_spec 5 7 (by decide +kernel) (by decide +kernel)

theorem Neg_spec (x : Nat) (hx : x < P.q) :
    Gen.Limb.babybear.Neg x = GV.Field.neg P x := by
  unfold GV.Field.neg
  rw [P_q] at hx ⊢
  unfold Gen.Limb.babybear.Neg
  limb_start
  by_cases h : x = 0
  · subst_ites [h]
    rw [if_pos h]
  · subst_ites [h]
    rw [if_neg h]
    omega

/-- **C01_limb Halve** (q < 2^31, so `z + q` never wraps the 32-bit word) -/
theorem Halve_spec (x : Nat) (hx : x < P.q) :
    Gen.Limb.babybear.Halve x = GV.Field.halve P x := by
  unfold GV.Field.halve
  rw [P_q] at hx ⊢
  unfold Gen.Limb.babybear.Halve
  limb_start
  by_cases h : x % 2 = 1
  · subst_ites [h]
    rw [if_pos h]; omega
  · subst_ites [h]
    rw [if_neg h]; omega
example := Halve_spec 5 (by decide +kernel)

theorem smaller_iff (z : Nat) : Gen.Limb.babybear.smallerThanModulus z ↔ z < P.q := by
  rw [P_q]; rfl

end GV.Limb.babybear
