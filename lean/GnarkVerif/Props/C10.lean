import GnarkVerif.Proofs.FFT
import GnarkVerif.Proofs.FFTHom
import GnarkVerif.Proofs.FFTSer
import Mathlib.Data.ZMod.Basic
/-
C10 — FFT equals the discrete Fourier transform for every domain, option, task count.

Theorems about the executable model `GnarkVerif/Model/FFT.lean` of the generated `fft` packages (tie to the Go
code = correspondence K on all 10 packages, see tools/harness/c10.go), over an ARBITRARY commutative ring `R`,
for EVERY size `2^m` (induction on `m`), every kernel set `kers`, both precompute modes, both decimations, with and
without the coset option.

  `PrimRoot w m`      : `w^(2^(m-1)) = -1` (nothing for `m = 0`) — the form of "primitive 2^m-th root" that works in
                        any commutative ring; checked per size for the real constants by K (`C10 domain … ord`).
  `evals d coset a`   : `[ Σ_j a_j x_k^j ]_k`, `x_k = ω^k` or `g·ω^k`  (see `C10_evals_spec`)
  `bitReverse m`      : `out[i] = in[bitrev m i]` = `BitReverse`

Task counts: the model is a function; `nbTasks` only decides which goroutine evaluates which sub-call / which
index range of a loop whose iterations write disjoint entries. That dimension is covered by K (nbTasks ∈ 0(default),
1,2,3,5,8,16,64,511,512), not by a theorem.
-/
namespace GV.FFT
open Finset
set_option linter.unusedSectionVars false
section
variable {R : Type} [CommRing R]

/-- a concrete domain for the non-vacuity examples: `ZMod 5`, `n = 4`, `ω = 2` (`2² = -1`), shift `g = 2` -/
def exD (p : Bool) : Domain (ZMod 5) := ⟨2, 4, 2, 3, 2, 3, p⟩

/-- meaning of `evals`: entry `k` is the value of the polynomial at the `k`-th (coset) point -/
theorem C10_evals_spec (d : Domain R) (coset : Bool) (a : List R) (k : Nat) (hk : k < a.length) :
    (evals d coset a).getD k 0 =
      ∑ j ∈ range a.length, a.getD j 0 * (if coset then d.g * d.gen ^ k else d.gen ^ k) ^ j := by
  rw [evals, getD_map_range _ _ _ hk, evalAt_eq]


/-- **DIF**: `FFT(a, DIF[, OnCoset])` returns the evaluations of `a` on the domain (on the coset), in bit-reversed
    order — for every size `2^m`, every kernel set, with or without precomputed tables. -/
theorem C10_FFT_DIF (kers : List Nat) (d : Domain R) (coset : Bool) (a : List R)
    (hw : PrimRoot d.gen d.m) (ha : a.length = 2^d.m) :
    FFT kers d true coset a = bitReverse d.m (evals d coset a) := by
  rw [FFT_eq_core _ _ _ _ _ ha]
  simp only [if_true]
  rw [difCore_eq_dft _ _ hw _ (by rw [preScale_length, ha])]
  cases coset
  · simp [preScale, dft_eq_evals]
  · simp [preScale, dft_coset_eq_evals]

/-- **DIT**: on a bit-reversed input `FFT(·, DIT[, OnCoset])` returns the evaluations in natural order. -/
theorem C10_FFT_DIT (kers : List Nat) (d : Domain R) (coset : Bool) (a : List R)
    (hw : PrimRoot d.gen d.m) (ha : a.length = 2^d.m) :
    FFT kers d false coset (bitReverse d.m a) = evals d coset a := by
  rw [FFT_eq_core _ _ _ _ _ (by simpa using ha)]
  simp only [Bool.false_eq_true, if_false]
  cases coset
  · simp only [preScale, Bool.false_eq_true, if_false]
    rw [ditCore_eq_dft _ _ hw _ ha, dft_eq_evals]
  · simp only [preScale, if_true, Bool.false_eq_true, if_false, bitReverse_length]
    rw [zipWith_bitReverse _ _ _ ha (by simp [ha]), ditCore_eq_dft _ _ hw _ (by simp [ha]), dft_coset_eq_evals]

example : PrimRoot (exD true).gen (exD true).m := by show (2 : ZMod 5)^(2^1) = -1; decide
example : FFT [5, 8] (exD true) true true [1, 2, 3, 4] = bitReverse 2 (evals (exD true) true [1, 2, 3, 4]) := by
  decide
example : FFT [5, 8] (exD false) true true [1, 2, 3, 4] ≠ [1, 2, 3, 4] := by decide

/-- **inverse (DIF then DIT)**: `FFTInverse(·, DIT)` undoes `FFT(·, DIF)`, with the same coset option, for both
    precompute modes. Needs only `ω·ω⁻¹ = 1`, `g·g⁻¹ = 1`, `n·n⁻¹ = 1`. -/
theorem C10_inverse_DIT_of_DIF (kers : List Nat) (d : Domain R) (coset : Bool) (a : List R)
    (hgen : d.gen * d.genInv = 1) (hg : d.g * d.gInv = 1) (hc : (2:R)^d.m * d.cardInv = 1)
    (ha : a.length = 2^d.m) :
    FFTInverse kers d false coset (FFT kers d true coset a) = a := by
  have hp : (preScale d true coset a).length = 2^d.m := by rw [preScale_length, ha]
  rw [FFT_eq_core _ _ _ _ _ ha]
  simp only [if_true]
  rw [FFTInverse_eq_core _ _ _ _ _ (difCore_length _ _ _ hp)]
  simp only [Bool.false_eq_true, if_false]
  rw [ditCore_difCore _ _ _ hgen _ hp]
  cases coset
  · simp only [postScale, preScale, Bool.not_false, if_true, Bool.false_eq_true, if_false, List.map_map]
    conv_rhs => rw [← List.map_id a]
    apply List.map_congr_left
    intro x _
    simp only [Function.comp, id]
    linear_combination x * hc
  · have hgi := fun i => pow_mul_pow_eq_one hg i
    cases hpc : d.precomp
    · simp only [postScale, preScale, hpc, Bool.not_true, Bool.false_eq_true, if_false, if_true, Bool.not_false,
        List.length_map, List.length_zipWith, powers_length, ha, Nat.min_self]
      apply ext_getD (by simp [ha])
      intro i hi
      have hi' : i < 2^d.m := by simp [ha] at hi; omega
      rw [getD_zipWith _ _ _ _ (by simp [ha]; omega) (by simpa using hi'), getD_map _ _ _ (by simp [ha]; omega),
        getD_zipWith _ _ _ _ (by omega) (by simpa using hi'), getD_powers _ _ _ hi', getD_iter _ _ _ _ hi']
      linear_combination (a.getD i 0 * (2:R)^d.m * d.cardInv) * hgi i + a.getD i 0 * hc
    · simp only [postScale, preScale, hpc, Bool.not_true, Bool.false_eq_true, if_false, if_true, Bool.not_false,
        List.length_map, List.length_zipWith, powers_length, ha, Nat.min_self]
      apply ext_getD (by simp [ha])
      intro i hi
      have hi' : i < 2^d.m := by simp [ha] at hi; omega
      rw [getD_zipWith _ _ _ _ (by simp [ha]; omega) (by simpa using hi'), getD_map _ _ _ (by simp [ha]; omega),
        getD_zipWith _ _ _ _ (by omega) (by simpa using hi'), getD_powers _ _ _ hi', getD_powers _ _ _ hi']
      linear_combination (a.getD i 0 * (2:R)^d.m * d.cardInv) * hgi i + a.getD i 0 * hc

/-- **inverse (DIT then DIF)**: `FFTInverse(·, DIF)` undoes `FFT(·, DIT)`. -/
theorem C10_inverse_DIF_of_DIT (kers : List Nat) (d : Domain R) (coset : Bool) (a : List R)
    (hgen : d.gen * d.genInv = 1) (hg : d.g * d.gInv = 1) (hc : (2:R)^d.m * d.cardInv = 1)
    (ha : a.length = 2^d.m) :
    FFTInverse kers d true coset (FFT kers d false coset a) = a := by
  have hp : (preScale d false coset a).length = 2^d.m := by rw [preScale_length, ha]
  rw [FFT_eq_core _ _ _ _ _ ha]
  simp only [Bool.false_eq_true, if_false]
  rw [FFTInverse_eq_core _ _ _ _ _ (ditCore_length _ _ _ hp)]
  simp only [if_true]
  have h1 : ditCore d.m d.gen (preScale d false coset a)
      = (ditCore d.m d.gen (preScale d false coset a)).map (fun x => 1 * x) := by simp
  rw [h1, difCore_ditCore _ _ _ hgen _ _ hp]
  cases coset
  · simp only [postScale, preScale, Bool.not_false, if_true, Bool.false_eq_true, if_false, List.map_map]
    conv_rhs => rw [← List.map_id a]
    apply List.map_congr_left
    intro x _
    simp only [Function.comp, id]
    linear_combination x * hc
  · simp only [postScale, preScale, Bool.not_true, Bool.false_eq_true, if_false, if_true,
      List.length_map, List.length_zipWith, powers_length, bitReverse_length, ha, Nat.min_self]
    apply ext_getD (by simp [ha])
    intro i hi
    have hi' : i < 2^d.m := by simp [ha] at hi; omega
    have hb := bitrev_lt d.m i
    have hgi := pow_mul_pow_eq_one hg (bitrev d.m i)
    rw [getD_zipWith _ _ _ _ (by simp [ha]; omega) (by simpa using hi'), getD_map _ _ _ (by simp [ha]; omega),
      getD_zipWith _ _ _ _ (by omega) (by simpa using hi'), getD_bitReverse _ _ _ (by simpa using hi'),
      getD_bitReverse _ _ _ (by simpa using hi'), getD_powers _ _ _ hb, getD_powers _ _ _ hb]
    linear_combination (a.getD i 0 * (2:R)^d.m * d.cardInv) * hgi + a.getD i 0 * hc

example : (exD true).gen * (exD true).genInv = 1 ∧ (exD true).g * (exD true).gInv = 1 ∧
    (2 : ZMod 5)^(exD true).m * (exD true).cardInv = 1 := by decide
example : FFTInverse [] (exD false) false true (FFT [5, 8] (exD false) true true [1, 2, 3, 4]) = [1, 2, 3, 4] := by
  decide

/-- **forward after inverse**: `FFT(·, dec)` undoes `FFTInverse(·, other decimation)` as well -/
theorem C10_forward_of_inverse (kers : List Nat) (d : Domain R) (dif coset : Bool) (b : List R)
    (hgen : d.gen * d.genInv = 1) (hg : d.g * d.gInv = 1) (hc : (2:R)^d.m * d.cardInv = 1)
    (hb : b.length = 2^d.m) :
    FFT kers d dif coset (FFTInverse kers d (!dif) coset b) = b := by
  have hgen' : d.genInv * d.gen = 1 := by rw [mul_comm]; exact hgen
  rw [FFTInverse_eq_core _ _ _ _ _ hb]
  have hid : b.map (fun x => d.cardInv * (2:R)^d.m * x) = b := by
    conv_rhs => rw [← List.map_id b]
    apply List.map_congr_left
    intro x _
    simp only [id]
    linear_combination x * hc
  cases dif
  · have hx : (difCore d.m d.genInv b).length = 2^d.m := difCore_length _ _ _ hb
    simp only [Bool.not_false, if_true]
    rw [FFT_eq_core _ _ _ _ _ (by rw [postScale_length, hx])]
    simp only [Bool.false_eq_true, if_false]
    have := preScale_postScale d false coset _ hx hg
    simp only [Bool.not_false] at this
    rw [this, ditCore_difCore_smul _ _ _ hgen' _ _ hb, hid]
  · have hx : (ditCore d.m d.genInv b).length = 2^d.m := ditCore_length _ _ _ hb
    simp only [Bool.not_true, Bool.false_eq_true, if_false]
    rw [FFT_eq_core _ _ _ _ _ (by rw [postScale_length, hx])]
    simp only [if_true]
    have := preScale_postScale d true coset _ hx hg
    simp only [Bool.not_true] at this
    rw [this, difCore_ditCore _ _ _ hgen' _ _ hb, hid]

example : FFT [5, 8] (exD true) false true (FFTInverse [5, 8] (exD true) true true [1, 2, 3, 4]) = [1, 2, 3, 4] := by
  decide

/-- **`Generator(m)`**: if the 2-adic root constant `ρ` has exact order `2^s` then `ρ^(2^(s-l))`, the generator the
    packages derive for a domain of size `2^l` (`l ≤ s`), has exact order `2^l` -/
theorem C10_generator_order (ρ : R) (s l : Nat) (hρ : PrimRoot ρ s) (hl : l ≤ s) : PrimRoot (ρ ^ (2^(s-l))) l := by
  cases l with
  | zero => trivial
  | succ k =>
    obtain ⟨s', rfl⟩ : ∃ s', s = s' + 1 := ⟨s - 1, by omega⟩
    show (ρ ^ (2^(s'+1-(k+1)))) ^ (2^k) = -1
    have : ρ ^ (2^s') = -1 := hρ
    rw [← pow_mul, ← pow_add]
    have e : s' + 1 - (k + 1) + k = s' := by omega
    rw [e]; exact this

example : PrimRoot (2 : ZMod 5) 2 := by show (2 : ZMod 5)^(2^1) = -1; decide

/-- **BitReverse is an involution** (every size) -/
theorem C10_bitReverse_involution (m : Nat) (a : List R) (ha : a.length = 2^m) :
    bitReverse m (bitReverse m a) = a := bitReverse_bitReverse m a ha

/-- `BitReverse` is the index map `i ↦ bitrev m i`, which maps `[0,2^m)` to itself and is its own inverse -/
theorem C10_bitReverse_index (m : Nat) (a : List R) (i : Nat) (hi : i < a.length) (ha : a.length = 2^m) :
    (bitReverse m a).getD i 0 = a.getD (bitrev m i) 0 ∧ bitrev m i < 2^m ∧ bitrev m (bitrev m i) = i :=
  ⟨getD_bitReverse m a i hi, bitrev_lt m i, bitrev_invol m i (by omega)⟩

example : bitReverse 3 [0, 1, 2, 3, 4, 5, 6, 7] = ([0, 4, 2, 6, 1, 5, 3, 7] : List (ZMod 5)) := by decide

/-- **the streaming digest of op `bitrevbig` is the digest of `BitReverse`** (every size, every `q`, `mult`): the driver's
table-driven loop (`bitrevSplit`: `bitrev (a+b) (hi·2^b+lo) = bitrev b lo·2^a + bitrev a hi`; `% q` skipped when it is the
identity) computes `Σ_i (i+1)·w[i] mod 2^61−1` for `w = BitReverse(v)`, `w[i] = v[bitrev m i]`, `v[k] = (k·mult+1) mod q` -/
theorem C10_bitrevDigest (q m mult : Nat) :
    bitrevDigest q m mult =
      (List.range (2^m)).foldl (fun acc i => (acc + (i+1) * ((bitrev m i * mult + 1) % q)) % (2^61-1)) 0 :=
  bitrevDigest_eq q m mult

example : bitrevDigest 5 3 2 = 56 := by decide   -- w = 1,4,0,3,3,1,2,0

/-- **options do not change the function**: kernel set (32/256-point kernels or none) and precompute mode are
    invisible in the result -/
theorem C10_options_irrelevant (kers kers' : List Nat) (d : Domain R) (p : Bool) (dif coset : Bool) (a : List R)
    (ha : a.length = 2^d.m) :
    FFT kers d dif coset a = FFT kers' { d with precomp := p } dif coset a := by
  rw [FFT_eq_core _ _ _ _ _ ha, FFT_eq_core _ _ _ _ _ (by simpa using ha)]
  rfl

example : FFT [5, 8] (exD true) false true [1, 2, 3, 4] = FFT [] (exD false) false true [1, 2, 3, 4] := by decide

/-! ### the instance executed by the driver -/

/-- what the driver computes on `ZM q` (naturals, explicit `% q`) is, entry by entry, a representative of what the
    model computes in the ring `ZMod q` the theorems above apply to -/
theorem C10_driver_instance (q : Nat) [NeZero q] (kers : List Nat) (d : Domain (ZM q)) (dif coset : Bool)
    (a : List (ZM q)) :
    (FFT kers d dif coset a).map zmCast = FFT kers (d.mapD zmCast) dif coset (a.map zmCast) ∧
    (FFTInverse kers d dif coset a).map zmCast = FFTInverse kers (d.mapD zmCast) dif coset (a.map zmCast) :=
  ⟨(hom_FFT (zmCast_hom q) kers d dif coset a).symm, (hom_FFTInverse (zmCast_hom q) kers d dif coset a).symm⟩

/-- DIF on the driver instance: bit-reversed evaluations, read in `ZMod q` -/
theorem C10_driver_FFT_DIF (q : Nat) [NeZero q] (kers : List Nat) (d : Domain (ZM q)) (coset : Bool) (a : List (ZM q))
    (hw : PrimRoot (zmCast d.gen) d.m) (ha : a.length = 2^d.m) :
    (FFT kers d true coset a).map zmCast = bitReverse d.m (evals (d.mapD zmCast) coset (a.map zmCast)) := by
  rw [(C10_driver_instance q kers d true coset a).1]
  exact C10_FFT_DIF kers (d.mapD zmCast) coset (a.map zmCast) hw (by rw [List.length_map]; exact ha)

example : (FFT [5, 8] (mkDomain 5 2 2 2 true) true true [zm 5 1, zm 5 2, zm 5 3, zm 5 4]).map (·.val) = [4, 2, 3, 0] := by
  decide

/-! ### Domain serialisation -/

/-- **round trip from any reader**: whatever chunks the reader hands out, if their concatenation starts with
    `WriteTo(d)` then `ReadFrom` returns exactly `d` and leaves the rest of the stream -/
theorem C10_domain_roundtrip (nb q : Nat) (d : DomainRec) (rest : List UInt8) (chunks : List (List UInt8))
    (hchunks : chunks.flatten = encodeDomain nb d ++ rest) (hq : q ≤ 256^nb)
    (hc : d.card < 2^64) (h1 : d.cardInv < q) (h2 : d.gen < q) (h3 : d.genInv < q) (h4 : d.g < q)
    (h5 : d.gInv < q) :
    readFrom nb q chunks = .ok (d, rest) := by
  rw [readFrom, hchunks]; exact decode_encode nb q d rest hq hc h1 h2 h3 h4 h5

/-- **reader-chunking independence** (also for malformed streams and errors) -/
theorem C10_readFrom_chunking (nb q : Nat) (c1 c2 : List (List UInt8)) (h : c1.flatten = c2.flatten) :
    readFrom nb q c1 = readFrom nb q c2 := by
  rw [readFrom, readFrom, h]

/-- **`ReadFrom` into a used receiver is by value**: the model's decode result does not depend on what the receiver held before
    (its fields, its tables, how it was made) - for every stream, well-formed or not -/
theorem C10_readInto_receiver_irrelevant {ρ σ : Type} (prev₁ : ρ) (prev₂ : σ) (nb q : Nat) (chunks : List (List UInt8)) :
    readInto prev₁ nb q chunks = readInto prev₂ nb q chunks := rfl

/-- … it is the domain of the stream: decoding `WriteTo(d)` into ANY receiver returns exactly `d` -/
theorem C10_readInto_roundtrip {ρ : Type} (prev : ρ) (nb q : Nat) (d : DomainRec) (rest : List UInt8) (chunks : List (List UInt8))
    (hchunks : chunks.flatten = encodeDomain nb d ++ rest) (hq : q ≤ 256^nb)
    (hc : d.card < 2^64) (h1 : d.cardInv < q) (h2 : d.gen < q) (h3 : d.genInv < q) (h4 : d.g < q)
    (h5 : d.gInv < q) :
    readInto prev nb q chunks = .ok (d, rest) :=
  C10_domain_roundtrip nb q d rest chunks hchunks hq hc h1 h2 h3 h4 h5

/-- … and so is the whole answer to a `readinto` / `readintotab` line (fields, flag, the five transforms / the table states) -/
theorem C10_readIntoAnswer_receiver_irrelevant (rcv₁ rcv₂ : String) (q : Nat) (kers : List Nat) (src : Domain (ZM q))
    (v : List (ZM q)) (tab : Bool) :
    readIntoAnswer rcv₁ q kers src v tab = readIntoAnswer rcv₂ q kers src v tab := rfl

/-- **several domains and a trailer on ONE stream** (op `stream`): successive `ReadFrom` calls decode exactly the domains that were
    written, call `i` consumes exactly the bytes `WriteTo` emitted for domain `i` (so the reader's position after every call is the sum
    of the written counts), and the trailer is what is left - whatever reader hands out the bytes (the model has no reader parameter) -/
theorem C10_stream_roundtrip (nb q : Nat) (hq : q ≤ 256^nb) (ds : List DomainRec) (trailer : List UInt8)
    (hv : ∀ d ∈ ds, d.card < 2^64 ∧ d.cardInv < q ∧ d.gen < q ∧ d.genInv < q ∧ d.g < q ∧ d.gInv < q) :
    decodeStream nb q ds.length (encodeStream nb ds ++ trailer)
      = .ok (ds.map (fun d => (d, (encodeDomain nb d).length)), trailer) := by
  induction ds with
  | nil => simp [decodeStream, encodeStream]
  | cons d ds ih =>
    obtain ⟨hc, h1, h2, h3, h4, h5⟩ := hv d (by simp)
    have ih' := ih (fun d' hd' => hv d' (by simp [hd']))
    have e : encodeStream nb (d :: ds) ++ trailer = encodeDomain nb d ++ (encodeStream nb ds ++ trailer) := by
      simp [encodeStream, List.append_assoc]
    rw [List.length_cons, decodeStream, e, decode_encode nb q d _ hq hc h1 h2 h3 h4 h5]
    simp only [ih']
    simp [List.length_append]

/-- **`Generator(m)` is refused exactly above the two-adicity** (op `gen`): the model's generator exists iff `⌈log2 m⌉ ≤ s`, and is then
    `ρ^(2^(s-⌈log2 m⌉))` (whose exact order is `C10_generator_order`) -/
theorem C10_generatorOf_defined (q rho s m : Nat) :
    (generatorOf q rho s m = none ↔ s < (nextPow2 m).log2) ∧
    ((nextPow2 m).log2 ≤ s → generatorOf q rho s m = some (powMod rho (2^(s - (nextPow2 m).log2)) q)) := by
  unfold generatorOf
  constructor
  · by_cases h : (nextPow2 m).log2 > s <;> simp [h]
  · intro h
    have : ¬ (nextPow2 m).log2 > s := by omega
    simp [this]

example : readFrom 1 251 [[0, 0, 0], [0, 0, 0, 0, 4, 188], [64, 51], [], [5, 101, 1, 9]]
    = .ok (⟨4, 188, 64, 51, 5, 101, true⟩, [9]) := by decide
example : encodeDomain 1 ⟨4, 188, 64, 51, 5, 101, true⟩ = [0, 0, 0, 0, 0, 0, 0, 4, 188, 64, 51, 5, 101, 1] := by decide

end
end GV.FFT
