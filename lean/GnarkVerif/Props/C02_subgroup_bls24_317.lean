/- WRITTEN by bin/mkc02sub.py (templates in the script). DO NOT EDIT: edit the script and re-run it. -/
import GnarkVerif.Proofs.Subgroup
import GnarkVerif.Props.C02_gen_bls24_317
import GnarkVerif.Gen.CurveConsts
import GnarkVerif.Gen.Fields
import Mathlib.Tactic.NormNum.Pow
import Mathlib.Tactic.Module
/-
C02 (tie T) — bls24_317: the FAST SUBGROUP TESTS `IsInSubGroup` (and `ClearCofactor` where it is straight-line) of
/repo/ecc/bls24-317/g1.go, g2.go as tools/goslp regenerates them from the Go text on every run (Gen/Curve/Bls24_317.lean), against
Mathlib's group `(sw 0 b).Point` with the representation relation of Props/C02_gen. See Props/C02_subgroup_bls12_381.lean
for the reading of the theorem names (`_mulBySeed`, `_phi`, `_IsInSubGroup_spec` = SPEC, `_complete` / `_on_generated` =
FORWARD direction, `FastTestSound` = the published converse as a named hypothesis used by `_sound` only).

-/
set_option linter.unusedSectionVars false
set_option linter.unusedVariables false
namespace GV.Gen.Curve.bls24_317
open GV.Curve GV.C02 GV.CurveGen GV.Subgroup WeierstrassCurve

/-- the regenerated seed literal, the GLV eigenvalue and the group order of the package -/
abbrev seed : ℤ := GV.Gen.CurveConsts.bls24_317.xGen
abbrev lam : ℤ := GV.Gen.CurveConsts.bls24_317.lambdaGLV
abbrev rOrd : ℤ := (GV.Gen.bls24_317_fr.q : ℤ)

/-! ## G1 -/
section g1
variable {F : Type} [Field F] [DecidableEq F] {b : F} {P Q : (sw 0 b).Point}

theorem G1Jac.rep_add (hc : (2 : F) ≠ 0) {p q : G1Jac F} {m n : ℤ} (hp : p.Rep b (m • Q)) (hq : q.Rep b (n • Q)) :
    (G1Jac.AddAssign p q).1.Rep b ((m + n) • Q) := by
  rw [add_smul]; exact C02gen_G1Jac_AddAssign hc hp hq
theorem G1Jac.rep_sub (hc : (2 : F) ≠ 0) {p q : G1Jac F} {m n : ℤ} (hp : p.Rep b (m • Q)) (hq : q.Rep b (n • Q)) :
    (G1Jac.SubAssign p q).1.Rep b ((m - n) • Q) := by
  rw [sub_smul]; exact C02gen_G1Jac_SubAssign hc hp hq
theorem G1Jac.rep_dbl (hc : (2 : F) ≠ 0) {q : G1Jac F} {m : ℤ} (hq : q.Rep b (m • Q)) :
    (G1Jac.Double q).1.Rep b ((2 * m) • Q) := by
  rw [two_mul, add_smul]; exact C02gen_G1Jac_Double hc hq
theorem G1Jac.rep_dbl' (hc : (2 : F) ≠ 0) {q : G1Jac F} {m : ℤ} (hq : q.Rep b (m • Q)) :
    (G1Jac.Double_p_eq_q q).Rep b ((2 * m) • Q) := by
  rw [G1Jac.Double_p_eq_q_alias]; exact G1Jac.rep_dbl hc hq
theorem G1Jac.rep_neg {q : G1Jac F} {m : ℤ} (hq : q.Rep b (m • Q)) : (G1Jac.Neg q).1.Rep b ((-m) • Q) := by
  rw [neg_smul]; exact C02gen_G1Jac_Neg hq
theorem G1Jac.rep_set {q : G1Jac F} {m : ℤ} (hq : q.Rep b (m • Q)) : (G1Jac.Set q).1.Rep b (m • Q) := hq
theorem G1Jac.rep_repeat {f : G1Jac F → G1Jac F}
    (hf : ∀ (st : G1Jac F) (m : ℤ), st.Rep b (m • Q) → (f st).Rep b ((2 * m) • Q))
    (n : ℕ) {q : G1Jac F} {m : ℤ} (hq : q.Rep b (m • Q)) : (Nat.repeat f n q).Rep b ((2 ^ n * m) • Q) := by
  induction n with
  | zero => simpa [Nat.repeat] using hq
  | succ k ih =>
    have := hf _ _ ih
    rw [show (2 : ℤ) ^ (k + 1) * m = 2 * (2 ^ k * m) by ring]
    exact this
theorem G1Jac.rep_cast {q : G1Jac F} {m n : ℤ} (hq : q.Rep b (m • Q)) (h : m = n) : q.Rep b (n • Q) := h ▸ hq

/-- one Go statement of a `mulBySeed` chain -/
macro "gv_seed_step_g1" hc:term : tactic => `(tactic| first
  | exact G1Jac.rep_add $hc (by assumption) (by assumption)
  | exact G1Jac.rep_sub $hc (by assumption) (by assumption)
  | exact G1Jac.rep_dbl $hc (by assumption)
  | exact G1Jac.rep_dbl' $hc (by assumption)
  | exact G1Jac.rep_neg (by assumption)
  | exact G1Jac.rep_set (by assumption)
  | exact G1Jac.rep_repeat (fun _ _ h => G1Jac.rep_dbl' $hc h) _ (by assumption))

/-- SPECIFICATION of the primitive `mulWindowed(q, &xGen)` (this package implements `mulBySeed` as `p.mulWindowed(q, &xGen)`;
the window loop over a big.Int is a hand model tied by K, C03 `mulWindowed`): the result represents `xGen • Q`.
A HYPOTHESIS of every theorem of this section (`hW`). -/
def G1Jac.SeedSpec (b : F) (W : G1Jac F → G1Jac F) : Prop :=
  ∀ (q : G1Jac F) (Q : (sw 0 b).Point), q.Rep b Q → (W q).Rep b (seed • Q)

theorem C02sub_G1Jac_mulBySeed {W : G1Jac F → G1Jac F} (hW : G1Jac.SeedSpec b W) (hc : (2 : F) ≠ 0) {q : G1Jac F} (hq : q.Rep b Q) :
    (G1Jac.mulBySeed q W).1.Rep b (seed • Q) := hW q Q hq

theorem C02sub_G1Jac_mulBySeed_inplace {W : G1Jac F → G1Jac F} (hW : G1Jac.SeedSpec b W) (hc : (2 : F) ≠ 0) {q : G1Jac F}
    (hq : q.Rep b Q) : (G1Jac.mulBySeed_p_eq_q q W).Rep b (seed • Q) := by
  rw [G1Jac.mulBySeed_p_eq_q_alias]; exact C02sub_G1Jac_mulBySeed hW hc hq

/-- the translated `phi`: X ← X·thirdRootOneG1 represents φ(P), φ(x, y) = (x·ω, y) (`Subgroup.phiPt`, additive: `Subgroup.phiPt_add`) -/
theorem C02sub_G1Jac_phi {ω : F} (hω : ω ^ 3 = 1) {q : G1Jac F} (hq : q.Rep b Q) :
    (G1Jac.phi q ω).1.Rep b (phiPt b ω hω Q) := JacPt.phi hω hq

theorem C02sub_G1Jac_Neg_inplace {q : G1Jac F} (hq : q.Rep b Q) : (G1Jac.Neg_p_eq_q q).Rep b (-Q) := by
  rw [G1Jac.Neg_p_eq_q_alias]; exact C02gen_G1Jac_Neg hq

/-! ### the subgroup test -/

/-- the group-level criterion the Go text computes: [x⁴]φ(P) + P = O (exit `res.Z.IsZero()`) -/
def G1Criterion (b ω : F) (hω : ω ^ 3 = 1) (P : (sw 0 b).Point) : Prop :=
  seed • seed • seed • seed • phiPt b ω hω P + P = 0

/-- SPEC of `(*G1Jac).IsInSubGroup`: on every representative of a curve point (any Z-scaling, infinity included), exactly
`IsOnCurve ∧ criterion` -/
theorem C02sub_G1Jac_IsInSubGroup_spec (hc : (2 : F) ≠ 0) {ω : F} (hω : ω ^ 3 = 1) {W : G1Jac F → G1Jac F} (hW : G1Jac.SeedSpec b W) {p : G1Jac F} (hp : p.Rep b P) :
    G1Jac.IsInSubGroup p W ω = true ↔ (G1Jac.IsOnCurve p = true ∧ G1Criterion b ω hω P) := by
  have h4 := C02gen_G1Jac_AddAssign hc (C02sub_G1Jac_mulBySeed_inplace hW hc (C02sub_G1Jac_mulBySeed_inplace hW hc (C02sub_G1Jac_mulBySeed_inplace hW hc (C02sub_G1Jac_mulBySeed_inplace hW hc (C02sub_G1Jac_phi hω hp))))) hp
  have h5 := decide_eq_true_iff.trans (JacPt.Z_eq_zero_iff h4)
  unfold G1Jac.IsInSubGroup G1Criterion
  cases hon : G1Jac.IsOnCurve p
  · simp
  · simpa using h5

/-- `(*G1Affine).IsInSubGroup` = `FromAffine`, then the Jacobian test -/
theorem C02sub_G1Affine_IsInSubGroup_spec (hc : (2 : F) ≠ 0) {ω : F} (hω : ω ^ 3 = 1) {W : G1Jac F → G1Jac F} (hW : G1Jac.SeedSpec b W) {a : G1Affine F} (ha : a.Rep b P) :
    G1Affine.IsInSubGroup a W ω = true ↔ (G1Jac.IsOnCurve (G1Jac.FromAffine a).1 = true ∧ G1Criterion b ω hω P) := by
  unfold G1Affine.IsInSubGroup
  exact C02sub_G1Jac_IsInSubGroup_spec hc hω hW (C02gen_G1Jac_FromAffine ha)

/-- on a point of order dividing r' on which φ acts as [lam'], the criterion holds as soon as r' ∣ N(xGen, lam')
(N = the integer the Go text evaluates; φ is additive) -/
theorem g1Criterion_of_eigen (hc : (2 : F) ≠ 0) {ω : F} (hω : ω ^ 3 = 1) {r' lam' : ℤ}
    (hdiv : r' ∣ seed * seed * seed * seed * lam' + 1) (hr : r' • P = 0) (hφ : phiPt b ω hω P = lam' • P) : G1Criterion b ω hω P := by
  have h0 : (seed * seed * seed * seed * lam' + 1) • P = 0 := zsmul_eq_zero_of_dvd hr hdiv
  unfold G1Criterion
  rw [hφ]
  have key : seed • seed • seed • seed • lam' • P + P = (seed * seed * seed * seed * lam' + 1) • P := by module
  rw [key]; exact h0

/-- the constant fact behind the forward direction: r ∣ N(xGen, lambdaGLV) (regenerated `xGen`, `lambdaGLV`, `fr.q`) -/
theorem C02sub_g1_seed_lambda_r : (seed * seed * seed * seed * lam + 1) % rOrd = 0 := by decide +kernel

/-- FORWARD (completeness of the test): an r-torsion point on which φ acts as [λ] passes -/
theorem C02sub_G1Jac_IsInSubGroup_complete (hc : (2 : F) ≠ 0) {ω : F} (hω : ω ^ 3 = 1) {W : G1Jac F → G1Jac F} (hW : G1Jac.SeedSpec b W) {p : G1Jac F} (hp : p.Rep b P)
    (hon : G1Jac.IsOnCurve p = true) (hr : rOrd • P = 0) (hφ : phiPt b ω hω P = lam • P) :
    G1Jac.IsInSubGroup p W ω = true :=
  (C02sub_G1Jac_IsInSubGroup_spec hc hω hW hp).mpr
    ⟨hon, g1Criterion_of_eigen hc hω (Int.dvd_of_emod_eq_zero C02sub_g1_seed_lambda_r) hr hφ⟩

/-- … hence every element of the cyclic group generated by a G with r • G = 0 and φ G = λ • G passes (φ additive; for the
package generator the two premises are the `decide +kernel` facts `C03gen.bls24_317.g1_on_curve_and_order_r`, `glv_g1` of the
executable curve model) -/
theorem C02sub_G1Jac_IsInSubGroup_on_generated (hc : (2 : F) ≠ 0) {ω : F} (hω : ω ^ 3 = 1) {W : G1Jac F → G1Jac F} (hW : G1Jac.SeedSpec b W) {G : (sw 0 b).Point}
    (hrG : rOrd • G = 0) (hφG : phiPt b ω hω G = lam • G) (k : ℤ) {p : G1Jac F} (hp : p.Rep b (k • G))
    (hon : G1Jac.IsOnCurve p = true) : G1Jac.IsInSubGroup p W ω = true :=
  C02sub_G1Jac_IsInSubGroup_complete hc hω hW hp hon (torsion_on_cyclic hrG k)
    (eigen_on_cyclic (phiHom b ω hc hω) hφG k)

/-- CONVERSE (soundness of the criterion) — the PUBLISHED result, NOT proved here (Scott 2021 §3 (BLS24: φ(P) = −[x⁴]P)): the points satisfying the
criterion are r-torsion. A hypothesis with a name; nothing but `C02sub_G1Jac_IsInSubGroup_sound` uses it. -/
def G1FastTestSound (b ω : F) (hω : ω ^ 3 = 1) : Prop := ∀ P : (sw 0 b).Point, G1Criterion b ω hω P → rOrd • P = 0

theorem C02sub_G1Jac_IsInSubGroup_sound (hc : (2 : F) ≠ 0) {ω : F} (hω : ω ^ 3 = 1) {W : G1Jac F → G1Jac F} (hW : G1Jac.SeedSpec b W) (hs : G1FastTestSound b ω hω)
    {p : G1Jac F} (hp : p.Rep b P) (h : G1Jac.IsInSubGroup p W ω = true) : rOrd • P = 0 :=
  hs P ((C02sub_G1Jac_IsInSubGroup_spec hc hω hW hp).mp h).2

/-! ### cofactor clearing -/

/-- `(*G1Jac).ClearCofactor`: `res.mulBySeed(q).Neg(&res).AddAssign(q)` = [1 − xGen]Q -/
theorem C02sub_G1Jac_ClearCofactor (hc : (2 : F) ≠ 0) {W : G1Jac F → G1Jac F} (hW : G1Jac.SeedSpec b W) {q : G1Jac F} (hq : q.Rep b Q) :
    (G1Jac.ClearCofactor q W).1.Rep b ((-seed + 1) • Q) := by
  have h := C02gen_G1Jac_AddAssign hc (C02sub_G1Jac_Neg_inplace (C02sub_G1Jac_mulBySeed hW hc hq)) hq
  rw [add_smul, one_smul, neg_smul]
  exact h

/-- … which lies in the r-torsion when (-seed + 1)·r kills the point (the exponent of E(F_p); hypothesis) -/
theorem C02sub_G1Jac_ClearCofactor_torsion (hc : (2 : F) ≠ 0) {W : G1Jac F → G1Jac F} (hW : G1Jac.SeedSpec b W) {q : G1Jac F} (hq : q.Rep b Q)
    (hexp : ((-seed + 1) * rOrd) • Q = 0) :
    ∃ R : (sw 0 b).Point, (G1Jac.ClearCofactor q W).1.Rep b R ∧ rOrd • R = 0 :=
  ⟨_, C02sub_G1Jac_ClearCofactor hc hW hq, by rw [← mul_smul, mul_comm]; exact hexp⟩

end g1

end GV.Gen.Curve.bls24_317
