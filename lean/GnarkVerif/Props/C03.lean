import GnarkVerif.Proofs.ScalarMul
import Mathlib.Data.ZMod.Basic
/-
C03 — scalar multiplication equals repeated addition for every integer scalar.

Subject: the hand models of `Model/ScalarMul.lean` (they mirror the Go loops of `g1.go`/`g2.go`/`utils.go`/`multiexp.go`/
`twistededwards/point.go`; tie = correspondence K on every exported entry point, `tools/harness/c03.go`).
Specification: `s • P` (`zsmul`) in an arbitrary Mathlib `AddCommGroup G` — "P added to itself |s| times, negated when
s < 0" — for EVERY `s : ℤ` (zero, negative, larger than the group order, arbitrarily long) and every `P`; where the code
reduces scalars modulo `r` the point is assumed to satisfy `r • P = 0` (a point of the prime-order subgroup).
`GOps.ofGroup G` is the dictionary (add, neg, zero) of the group, so the theorems are about the very definitions the
driver runs on curve points.

Where the Go code departs (or departed) from these models (found by K, the models follow the property):
* `G1Jac.JointScalarMultiplication(Base)`: BEFORE /repo commit 90fc5e6 an index panic exactly when some |sᵢ| ≥ 2^(64·fr.Limbs)
  (`C03_jointPanics_iff` characterises those inputs); the current text clamps the loop bound to `fr.Limbs - 1` — model of the
  text as written: `jointScalarMulC`, `C03_jointScalarMulC`; tie T: `Props/C03_loop_gen`;
* stark-curve `mulWindowed` had no sign folding (`[s]P = [|s|]P` for s < 0); REPAIRED in /repo: the current text folds the sign and
  its translation is proved equal to the bn254 term (`Gen/Imp/MulWAll.lean`, `C03loop_mulWindowed_smul_all`);
* bandersnatch `scalarMulGLV`: (a) sub-scalars are reduced modulo the BASE field `fr` of bls12-381 instead of the subgroup
  order, wrong results once |s| ≳ 2^640; (b) `phi` of the identity (0,1) has Z = 0, `[s]O` comes out as (0,0) whenever k₂ ≠ 0.

Tie T for the loops (`mulWindowed`, twisted-Edwards `scalarMulWindowed`, `JointScalarMultiplication`, `mulGLV`): `Props/C03_loop_gen`
(the translated Go text equals these models). Left to tie K only: `BatchScalarMultiplication`, `SplitScalar` / `PrecomputeLattice`,
bandersnatch `scalarMulGLV`; the group law of
the concrete curves (associativity, `φ = [λ]`, `[r]G = O`) is the hypothesis `AddCommGroup G` / `hphi` / `hr`;
`bestC ∈ 2..16` is used as a hypothesis of `C03_batchWith` (`1 ≤ c ≤ 16`).
-/
namespace GV.ScalarMul
variable {G : Type} [AddCommGroup G]

/-- `mulWindowed` (2-bit MSB-first windows over the bytes of |s|, sign folded into the table) is `s • P`. -/
theorem C03_mulWindowed (s : ℤ) (P : G) : mulWindowed (GOps.ofGroup G) s P = s • P := by
  unfold mulWindowed
  dsimp only
  rw [ofGroup_zero, digits_loop 256 (by norm_num) (signPt (GOps.ofGroup G) s P) _
    (fun w hw res => mulWindowedByte_eq (signPt (GOps.ofGroup G) s P) w hw res)]
  exact natAbs_smul_signPt s P

example : mulWindowed (GOps.ofGroup ℤ) (-300) 7 = -2100 := by rw [C03_mulWindowed]; norm_num

/-- twisted-Edwards `scalarMulWindowed` (double-and-add over the 64-bit words of |s|, sign) is `s • P`. -/
theorem C03_teScalarMul (s : ℤ) (P : G) : teScalarMul (GOps.ofGroup G) s P = s • P := by
  unfold teScalarMul
  rw [ofGroup_zero, digits_loop (2 ^ 64) (by norm_num) (signPt (GOps.ofGroup G) s P) _
    (fun w hw res => teWord_eq (signPt (GOps.ofGroup G) s P) w hw res)]
  exact natAbs_smul_signPt s P

/-- `SplitScalar` is correct for ANY lattice basis satisfying the two congruences and ANY rounding `k1 k2`:
`k₁ + λ·k₂ ≡ s (mod r)`. -/
theorem C03_split_any_rounding (l : Lattice) (r lam s k1 k2 : ℤ)
    (h1 : l.v11 + lam * l.v12 ≡ 0 [ZMOD r]) (h2 : l.v21 + lam * l.v22 ≡ 0 [ZMOD r]) :
    (splitWith l s k1 k2).1 + lam * (splitWith l s k1 k2).2 ≡ s [ZMOD r] := by
  obtain ⟨c1, hc1⟩ := Int.modEq_zero_iff_dvd.1 h1
  obtain ⟨c2, hc2⟩ := Int.modEq_zero_iff_dvd.1 h2
  rw [Int.modEq_iff_dvd]
  refine ⟨k1 * c1 + k2 * c2, ?_⟩
  simp only [splitWith]
  linear_combination k1 * hc1 + k2 * hc2

/-- the Go rounding (`(s·b₁) >> n`, `(−s·b₂) >> n`) is one instance -/
theorem C03_splitScalar (l : Lattice) (r lam s : ℤ)
    (h1 : l.v11 + lam * l.v12 ≡ 0 [ZMOD r]) (h2 : l.v21 + lam * l.v22 ≡ 0 [ZMOD r]) :
    (splitScalar s l).1 + lam * (splitScalar s l).2 ≡ s [ZMOD r] := by
  unfold splitScalar
  exact C03_split_any_rounding l r lam s _ _ h1 h2

example : (({ v11 := 1, v12 := 3, v21 := 3, v22 := 2, det := -7, b1 := 0, b2 := 0 } : Lattice).v11 + 2 * 3 ≡ 0 [ZMOD 7]) ∧
    ((3 : ℤ) + 2 * 2 ≡ 0 [ZMOD 7]) := by decide

/-- `PrecomputeLattice` (extended Euclid, any number of iterations) returns a basis that qualifies. -/
theorem C03_precomputeLattice (r lam : ℤ) :
    (precomputeLattice r lam).v11 + lam * (precomputeLattice r lam).v12 ≡ 0 [ZMOD r] ∧
    (precomputeLattice r lam).v21 + lam * (precomputeLattice r lam).v22 ≡ 0 [ZMOD r] := by
  unfold precomputeLattice
  have h := euclidLoop_inv r lam (Int.ofNat (Nat.sqrt r.natAbs)) (euclidFuel r lam) (r, 1, 0) (lam, 0, 1)
    (by simp [RowInv]) (by simp [RowInv])
  exact latticeOfRows_qualifies r lam _ _ h.1 h.2

/-- hence `SplitScalar(s, PrecomputeLattice(r, λ))` always satisfies `k₁ + λ k₂ ≡ s (mod r)` -/
theorem C03_split_precomputed (r lam s : ℤ) :
    (splitScalar s (precomputeLattice r lam)).1 + lam * (splitScalar s (precomputeLattice r lam)).2 ≡ s [ZMOD r] :=
  C03_splitScalar _ r lam s (C03_precomputeLattice r lam).1 (C03_precomputeLattice r lam).2

/-- `JointScalarMultiplication` (Straus–Shamir, 15-entry table, joint 2-bit windows over the limbs of the scalars
reduced mod `r`, loop bound from the unreduced bit lengths): `s₁ • P + s₂ • Q` for all integers, `P Q` of order
dividing `r`. Includes `s₁ = s₂ = 0` (`hiWordIndex = (0−1)/64 = 0`). -/
theorem C03_jointScalarMul (r : ℕ) (s1 s2 : ℤ) (P Q : G) (hP : r • P = 0) (hQ : r • Q = 0) :
    jointScalarMul (GOps.ofGroup G) r s1 s2 P Q = s1 • P + s2 • Q := by
  unfold jointScalarMul
  dsimp only
  rw [shamirLoop_eq]
  · rw [mod_nsmul r _ _ (nsmul_signPt_zero r s1 P hP), mod_nsmul r _ _ (nsmul_signPt_zero r s2 Q hQ),
      natAbs_smul_signPt, natAbs_smul_signPt]
  · exact lt_of_le_of_lt (Nat.mod_le _ _) (lt_pow_of_bitLen_le _ _ (bitLen_le_hi_left _ _))
  · exact lt_of_le_of_lt (Nat.mod_le _ _) (lt_pow_of_bitLen_le _ _ (bitLen_le_hi_right _ _))

example : (5 : ℕ) • (3 : ZMod 5) = 0 := by decide

/-- the same for the text AS WRITTEN since /repo commit 90fc5e6 (loop bound clamped to the `limbs` words of an `fr.Element`,
`0 < r ≤ 2^(64·limbs)`): no input panics any more and the value is still `s₁ • P + s₂ • Q` for all integers. -/
theorem C03_jointScalarMulC (r limbs : ℕ) (hr0 : 0 < r) (hl : 1 ≤ limbs) (hrl : r ≤ 2 ^ (64 * limbs)) (s1 s2 : ℤ) (P Q : G)
    (hP : r • P = 0) (hQ : r • Q = 0) :
    jointScalarMulC (GOps.ofGroup G) r limbs s1 s2 P Q = s1 • P + s2 • Q := by
  unfold jointScalarMulC
  dsimp only
  have hb : ∀ k : ℕ, bitLen k ≤ 64 * (hiWordIndex (bitLen s1.natAbs) (bitLen s2.natAbs) + 1) →
      k % r < 2 ^ (64 * (clampHi limbs (hiWordIndex (bitLen s1.natAbs) (bitLen s2.natAbs)) + 1)) := by
    intro k hk
    unfold clampHi
    split
    · have : limbs - 1 + 1 = limbs := by omega
      rw [this]; exact lt_of_lt_of_le (Nat.mod_lt _ hr0) hrl
    · exact lt_of_le_of_lt (Nat.mod_le _ _) (lt_pow_of_bitLen_le _ _ hk)
  rw [shamirLoop_eq]
  · rw [mod_nsmul r _ _ (nsmul_signPt_zero r s1 P hP), mod_nsmul r _ _ (nsmul_signPt_zero r s2 Q hQ),
      natAbs_smul_signPt, natAbs_smul_signPt]
  · exact hb _ (bitLen_le_hi_left _ _)
  · exact hb _ (bitLen_le_hi_right _ _)

example : (0 : ℕ) < 5 ∧ 1 ≤ 1 ∧ 5 ≤ 2 ^ (64 * 1) := by decide

/-- `mulGLV` (table of `±P, ±φP`, sub-scalars reduced mod `r`, loop bound from the reduced sub-scalars) is `s • P`
whenever `φ P = λ • P`, `r • P = 0` and the split satisfies the congruence. -/
theorem C03_mulGLV (phi : G → G) (split : ℤ → ℤ × ℤ) (r : ℕ) (lam s : ℤ) (P : G)
    (hphi : phi P = lam • P) (hr : r • P = 0)
    (hs : (split s).1 + lam * (split s).2 ≡ s [ZMOD (r : ℤ)]) :
    mulGLV (GOps.ofGroup G) phi split r s P = s • P := by
  have hrphi : r • phi P = 0 := by rw [hphi, smul_comm, hr, smul_zero]
  unfold mulGLV
  dsimp only
  rw [shamirLoop_eq]
  · rw [mod_nsmul r _ _ (nsmul_signPt_zero r _ P hr), mod_nsmul r _ _ (nsmul_signPt_zero r _ (phi P) hrphi),
      natAbs_smul_signPt, natAbs_smul_signPt, hphi, ← mul_smul, ← add_smul]
    apply zsmul_congr_modEq r _ _ P hr
    rw [mul_comm]; exact hs
  · exact lt_pow_of_bitLen_le _ _ (bitLen_le_hi_left _ _)
  · exact lt_pow_of_bitLen_le _ _ (bitLen_le_hi_right _ _)

/-- `mulGLV` with `glvBasis = PrecomputeLattice(r, λ)` and the real `SplitScalar`: no hypothesis on the split left. -/
theorem C03_mulGLVLattice (phi : G → G) (r : ℕ) (lam s : ℤ) (P : G) (hphi : phi P = lam • P) (hr : r • P = 0) :
    mulGLVLattice (GOps.ofGroup G) phi r lam s P = s • P := by
  unfold mulGLVLattice
  exact C03_mulGLV phi _ r lam s P hphi hr (C03_split_precomputed (Int.ofNat r) lam s)

/-- λ = 2 acts on `ZMod 7` as an "endomorphism" with λ² + λ + 1 ≡ 0 (mod 7) -/
example : (fun x : ZMod 7 => 2 * x) 3 = (2 : ℤ) • (3 : ZMod 7) ∧ (7 : ℕ) • (3 : ZMod 7) = 0 := by decide

/-- all algorithmic variants agree with each other on the subgroup -/
theorem C03_variants_agree (phi : G → G) (r : ℕ) (lam s : ℤ) (P : G) (hphi : phi P = lam • P) (hr : r • P = 0) :
    mulWindowed (GOps.ofGroup G) s P = mulGLVLattice (GOps.ofGroup G) phi r lam s P ∧
    mulWindowed (GOps.ofGroup G) s P = teScalarMul (GOps.ofGroup G) s P ∧
    mulWindowed (GOps.ofGroup G) s P = jointScalarMul (GOps.ofGroup G) r s 0 P P := by
  rw [C03_mulWindowed, C03_mulGLVLattice phi r lam s P hphi hr, C03_teScalarMul, C03_jointScalarMul r s 0 P P hr hr]
  simp

/-- exact characterisation of the inputs on which the Go `JointScalarMultiplication` BEFORE /repo commit 90fc5e6 indexed past the
`fr.Limbs`-word array (`hiWordIndex ≥ limbs`): some |sᵢ| ≥ 2^(64·limbs) — exactly the inputs on which the clamp of the current
text (`clampHi`) is active. The models are total there and `C03_jointScalarMul` / `C03_jointScalarMulC` apply. -/
theorem C03_jointPanics_iff (limbs : ℕ) (hl : 1 ≤ limbs) (s1 s2 : ℤ) :
    jointPanics limbs s1 s2 = true ↔ 2 ^ (64 * limbs) ≤ s1.natAbs ∨ 2 ^ (64 * limbs) ≤ s2.natAbs := by
  unfold jointPanics hiWordIndex
  dsimp only
  simp only [decide_eq_true_eq, ge_iff_le]
  rw [two_pow_le_iff_bitLen, two_pow_le_iff_bitLen]
  split <;> omega

/-- window extraction of `partitionScalars` (mask/shift over one limb, or two limbs when the window straddles a limb
boundary, uint64 truncation of the shifted mask included) = the `c`-bit window at bit `c·chunk` of the scalar -/
theorem C03_selectDigit (limbs c s chunk : ℕ) (hc1 : 1 ≤ c) (hc : c ≤ 64) (hs : s < 2 ^ (64 * limbs))
    (hidx : chunk * c / 64 < limbs) :
    selectDigit limbs c s chunk = (s / 2 ^ (c * chunk)) % 2 ^ c :=
  selectDigit_eq limbs c s chunk hc1 hc hs hidx

/-- signed-digit recoding of `partitionScalars` (signed `c`-bit windows with carry, last one unsigned), for every window
size `1 ≤ c ≤ 64`, every scalar `s < 2^bits`, `bits ≤ 64·limbs` (`bits = fr.Bits`, `limbs = fr.Limbs`):
the digits sum back to the scalar, `Σ dⱼ·2^{c·j} = s`. -/
theorem C03_recode_sum (bits limbs c s : ℕ) (hc1 : 1 ≤ c) (hc : c ≤ 64) (hbits : 1 ≤ bits) (hl : bits ≤ 64 * limbs)
    (hs : s < 2 ^ bits) : evalDigits c 0 (recode bits limbs c s) = s := by
  obtain ⟨hnb1, hnb2⟩ := computeNbChunks_bounds bits c hc1
  have hb0 : ¬ bits = 0 := by omega
  simp only [hb0, if_false, add_zero] at hnb2
  have hnbpos : 1 ≤ computeNbChunks bits c := by
    rcases Nat.eq_zero_or_pos (computeNbChunks bits c) with h | h
    · rw [h] at hnb1; omega
    · exact h
  have hs2 : s < 2 ^ (c * computeNbChunks bits c) := lt_of_lt_of_le hs (Nat.pow_le_pow_right (by norm_num) hnb1)
  have hs3 : s < 2 ^ (64 * limbs) := lt_of_lt_of_le hs (Nat.pow_le_pow_right (by norm_num) hl)
  unfold recode
  dsimp only
  split
  · subst_vars; simp [evalDigits_replicate_zero]
  · rw [recodeFrom_sum c s (computeNbChunks bits c) (selectDigit limbs c s) _ _ 0 0 (by omega)]
    · have : computeNbChunks bits c - 1 + 1 = computeNbChunks bits c := by omega
      simp [this, Nat.mod_eq_of_lt hs2]
    · intro j hj
      apply selectDigit_eq limbs c s j hc1 hc hs3
      have h1 : j * c ≤ (computeNbChunks bits c - 1) * c := Nat.mul_le_mul_right c (by omega)
      have h2 : j * c < 64 * limbs := by omega
      exact Nat.div_lt_of_lt_mul h2

/-- digit ranges of the recoding: exactly `nb+1` digits; all but the last in `[−2^(c−1), 2^(c−1))`; the last one is
unsigned and at most (top window + 1) -/
theorem C03_recode_bounds (c : ℕ) (hc : 1 ≤ c) (sel : ℕ → ℕ) (nb : ℕ) (hsel : ∀ j, j < nb + 1 → sel j < 2 ^ c) :
    (recodeFrom c sel nb 0 0).length = nb + 1 ∧
    (∀ i, i < nb → -(2 ^ (c - 1) : ℤ) ≤ (recodeFrom c sel nb 0 0).getD i 0 ∧ (recodeFrom c sel nb 0 0).getD i 0 < 2 ^ (c - 1)) ∧
    (0 ≤ (recodeFrom c sel nb 0 0).getD nb 0 ∧ (recodeFrom c sel nb 0 0).getD nb 0 ≤ (sel (0 + nb) : ℤ) + 1) :=
  recodeFrom_bounds c hc (nb + 1) sel hsel nb 0 0 (by omega) (by omega)

example : evalDigits 5 0 (recode 254 4 5 123456789) = 123456789 :=
  C03_recode_sum 254 4 5 123456789 (by norm_num) (by norm_num) (by norm_num) (by norm_num) (by norm_num)

/-- the uint16 encoding of a digit (even = +v/2, odd = −(v/2+1)) is inverted by the consumers' decoding -/
theorem C03_decode_encode (d : ℤ) (h1 : -32768 ≤ d) (h2 : d < 32768) : decodeDigit (encodeDigit d) = d :=
  decode_encode d h1 h2

/-- `BatchScalarMultiplicationG1/G2` for a window size `c` (`bestC` picks one in 2..16): table `baseTable[i] = (i+1)·base`,
signed-digit recoding, per-scalar loop (c doublings, add or subtract a table entry selected by the uint16 digit) returns
`sᵢ • base` for every scalar `sᵢ < 2^bits` and every batch length (incl. 0). `lastC ≤ 15` keeps the unsigned last digit
inside uint16 after the `<< 1` (true for every (fr.Bits, c) of the library). -/
theorem C03_batchWith (bits limbs c : ℕ) (base : G) (scalars : List ℕ) (hc1 : 1 ≤ c) (hc : c ≤ 16) (hbits : 1 ≤ bits)
    (hl : bits ≤ 64 * limbs) (hlast : lastC bits c ≤ 15) (hs : ∀ s ∈ scalars, s < 2 ^ bits) :
    batchWith (GOps.ofGroup G) bits limbs c base scalars = scalars.map (fun s => s • base) := by
  obtain ⟨hnb1, hnb2⟩ := computeNbChunks_bounds bits c hc1
  have hb0 : ¬ bits = 0 := by omega
  simp only [hb0, if_false, add_zero] at hnb2
  have hnbpos : 1 ≤ computeNbChunks bits c := by
    rcases Nat.eq_zero_or_pos (computeNbChunks bits c) with h | h
    · rw [h] at hnb1; omega
    · exact h
  have h3 : (computeNbChunks bits c - 1) * c = computeNbChunks bits c * c - c := by rw [Nat.sub_mul, one_mul]
  have hlc : lastC bits c - 1 = bits - (computeNbChunks bits c - 1) * c := by
    unfold lastC
    have hnb1' : bits ≤ computeNbChunks bits c * c := by rw [mul_comm]; exact hnb1
    rw [h3] at hnb2 ⊢
    have hmc : c ≤ computeNbChunks bits c * c := Nat.le_mul_of_pos_left c hnbpos
    generalize computeNbChunks bits c * c = m at hnb1' hnb2 hmc ⊢
    omega
  unfold batchWith
  dsimp only
  rw [Nat.one_shiftLeft]
  generalize hM : (if c > lastC bits c then c else lastC bits c) = maxC
  have hM1 : c ≤ maxC := by rw [← hM]; split <;> omega
  have hM2 : lastC bits c ≤ maxC := by rw [← hM]; split <;> omega
  apply List.map_congr_left
  intro s hsm
  have hs' := hs s hsm
  have hb : ∀ d ∈ recode bits limbs c s, -((2 ^ (maxC - 1) : ℕ) : ℤ) ≤ d ∧ d ≤ ((2 ^ (maxC - 1) : ℕ) : ℤ) ∧
      -32768 ≤ d ∧ d < 32768 := by
    intro d hd
    have p1 : (2 : ℕ) ^ (c - 1) ≤ 2 ^ (maxC - 1) := Nat.pow_le_pow_right (by norm_num) (by omega)
    have p2 : (2 : ℕ) ^ (c - 1) ≤ 32768 :=
      le_trans (Nat.pow_le_pow_right (by norm_num) (by omega : c - 1 ≤ 15)) (by norm_num)
    have p3 : (2 : ℕ) ^ (lastC bits c - 1) ≤ 2 ^ (maxC - 1) := Nat.pow_le_pow_right (by norm_num) (by omega)
    have p4 : (2 : ℕ) ^ (lastC bits c - 1) ≤ 16384 :=
      le_trans (Nat.pow_le_pow_right (by norm_num) (by omega : lastC bits c - 1 ≤ 14)) (by norm_num)
    unfold recode at hd
    dsimp only at hd
    split at hd
    · have := List.eq_of_mem_replicate hd
      subst this
      refine ⟨?_, ?_, by norm_num, by norm_num⟩
      · simp
      · positivity
    · have hs3 : s < 2 ^ (64 * limbs) := lt_of_lt_of_le hs' (Nat.pow_le_pow_right (by norm_num) hl)
      have hselEq : ∀ j, j < computeNbChunks bits c →
          selectDigit limbs c s j = (s / 2 ^ (c * j)) % 2 ^ c := by
        intro j hj
        apply selectDigit_eq limbs c s j hc1 (by omega) hs3
        have h1 : j * c ≤ (computeNbChunks bits c - 1) * c := Nat.mul_le_mul_right c (by omega)
        exact Nat.div_lt_of_lt_mul (by omega)
      have hselLt : ∀ j, j < computeNbChunks bits c → selectDigit limbs c s j < 2 ^ c := by
        intro j hj; rw [hselEq j hj]; exact Nat.mod_lt _ (by positivity)
      obtain ⟨hlen, hmid, hlst⟩ := recodeFrom_bounds c hc1 (computeNbChunks bits c) (selectDigit limbs c s) hselLt
        (computeNbChunks bits c - 1) 0 0 (by omega) (by omega)
      obtain ⟨i, hi, rfl⟩ := List.mem_iff_getElem.1 hd
      have hget : (recodeFrom c (selectDigit limbs c s) (computeNbChunks bits c - 1) 0 0).getD i 0 =
          (recodeFrom c (selectDigit limbs c s) (computeNbChunks bits c - 1) 0 0)[i] := by
        rw [List.getD_eq_getElem?_getD, List.getElem?_eq_getElem hi]; rfl
      rw [← hget]
      have hi' : i < computeNbChunks bits c - 1 + 1 := by rw [← hlen]; exact hi
      by_cases hi2 : i < computeNbChunks bits c - 1
      · obtain ⟨m1, m2⟩ := hmid i hi2
        have q1 : ((2 ^ (c - 1) : ℕ) : ℤ) ≤ ((2 ^ (maxC - 1) : ℕ) : ℤ) := by exact_mod_cast p1
        have q2 : ((2 ^ (c - 1) : ℕ) : ℤ) ≤ 32768 := by exact_mod_cast p2
        push_cast at q1 q2 ⊢
        refine ⟨by linarith, by linarith, by linarith, by linarith⟩
      · have hie : i = computeNbChunks bits c - 1 := by omega
        rw [hie]
        obtain ⟨l1, l2⟩ := hlst
        have hsel : selectDigit limbs c s (0 + (computeNbChunks bits c - 1)) + 1 ≤ 2 ^ (lastC bits c - 1) := by
          rw [Nat.zero_add, hselEq _ (by omega)]
          have h6 : s / 2 ^ (c * (computeNbChunks bits c - 1)) < 2 ^ (bits - (computeNbChunks bits c - 1) * c) := by
            apply Nat.div_lt_of_lt_mul
            rw [← pow_add]
            have : c * (computeNbChunks bits c - 1) + (bits - (computeNbChunks bits c - 1) * c) = bits := by
              rw [mul_comm]; omega
            rw [this]; exact hs'
          have h5 := Nat.mod_le (s / 2 ^ (c * (computeNbChunks bits c - 1))) (2 ^ c)
          rw [hlc]; omega
        have q3 : ((selectDigit limbs c s (0 + (computeNbChunks bits c - 1)) : ℕ) : ℤ) + 1 ≤
            ((2 ^ (lastC bits c - 1) : ℕ) : ℤ) := by exact_mod_cast hsel
        have q4 : ((2 ^ (lastC bits c - 1) : ℕ) : ℤ) ≤ ((2 ^ (maxC - 1) : ℕ) : ℤ) := by exact_mod_cast p3
        have q5 : ((2 ^ (lastC bits c - 1) : ℕ) : ℤ) ≤ 16384 := by exact_mod_cast p4
        have q6 : (0 : ℤ) ≤ ((2 ^ (maxC - 1) : ℕ) : ℤ) := by positivity
        refine ⟨by linarith, by linarith, by linarith, by linarith⟩
  unfold partitionScalar
  rw [batchOne_eq c _ base _ hb, C03_recode_sum bits limbs c s hc1 (by omega) hbits hl hs', natCast_zsmul]

/-- bn254: fr.Bits = 254, fr.Limbs = 4, window 5 -/
example : (1 : ℕ) ≤ 5 ∧ 5 ≤ 16 ∧ 254 ≤ 64 * 4 ∧ lastC 254 5 ≤ 15 := by decide

/-! ### window-boundary batches (op `batchwin`) -/

theorem winSum_lt (w : ℕ) (d : ℕ → ℕ) : ∀ m, (∀ j, j < m → d j < 2 ^ w) → winSum w d m < 2 ^ (w * m)
  | 0, _ => by simp [winSum]
  | m+1, h => by
    have ih := winSum_lt w d m (fun j hj => h j (by omega))
    have hd := h m (by omega)
    have h1 : d m * 2 ^ (w * m) ≤ (2 ^ w - 1) * 2 ^ (w * m) := Nat.mul_le_mul_right _ (by omega)
    have h2 : (2 ^ w - 1) * 2 ^ (w * m) + 2 ^ (w * m) = 2 ^ (w * m) * 2 ^ w := by
      have h3 : 2 ^ (w * m) ≤ 2 ^ w * 2 ^ (w * m) := Nat.le_mul_of_pos_left _ (by positivity)
      rw [Nat.sub_mul, one_mul, mul_comm (2 ^ (w * m))]
      omega
    rw [winSum, Nat.mul_succ, pow_add]
    omega

/-- the scalars of the window-boundary family are REDUCED (`< r`, hence admissible batch scalars), for every window width
`w ≥ 1`, seed and index, as soon as `r` reaches the top window (`2^(w(nb−1)) ≤ r`: true when `r` has `bits` bits) -/
theorem C03_winScalar_lt (bits r w seed i : ℕ) (hnb : 1 ≤ computeNbChunks bits w)
    (hr : 2 ^ (w * (computeNbChunks bits w - 1)) ≤ r) : winScalar bits r w seed i < r := by
  unfold winScalar
  dsimp only
  obtain ⟨nb, hnbe⟩ : ∃ nb, computeNbChunks bits w = nb + 1 := ⟨computeNbChunks bits w - 1, by omega⟩
  rw [hnbe] at hr ⊢
  simp only [Nat.add_sub_cancel] at hr ⊢
  rw [winSum]
  have hlow : winSum w (winDigit w (nb + 1) (r / 2 ^ (w * nb)) seed i) nb < 2 ^ (w * nb) := by
    apply winSum_lt
    intro j hj
    unfold winDigit
    dsimp only
    rw [if_neg (by omega)]
    split <;> exact Nat.mod_lt _ (by positivity)
  have htop : winDigit w (nb + 1) (r / 2 ^ (w * nb)) seed i nb ≤ r / 2 ^ (w * nb) - 1 := by
    unfold winDigit
    dsimp only
    rw [if_pos rfl]
    split <;> omega
  have hq : 1 ≤ r / 2 ^ (w * nb) := (Nat.one_le_div_iff (by positivity)).2 hr
  have h1 := Nat.mul_le_mul_right (2 ^ (w * nb)) htop
  have h2 : (r / 2 ^ (w * nb) - 1) * 2 ^ (w * nb) + 2 ^ (w * nb) = r / 2 ^ (w * nb) * 2 ^ (w * nb) := by
    have h3 : 2 ^ (w * nb) ≤ r / 2 ^ (w * nb) * 2 ^ (w * nb) := Nat.le_mul_of_pos_left _ hq
    rw [Nat.sub_mul, one_mul]
    omega
  have h4 := Nat.div_mul_le_self r (2 ^ (w * nb))
  omega

theorem winSum_window (w : ℕ) (d : ℕ → ℕ) : ∀ m, (∀ j, j < m → d j < 2 ^ w) → ∀ j, j < m →
    (winSum w d m / 2 ^ (w * j)) % 2 ^ w = d j
  | 0, _, j, hj => by omega
  | m+1, h, j, hj => by
    have hlt := winSum_lt w d m (fun j hj => h j (by omega))
    rw [winSum]
    rcases Nat.lt_or_ge j m with hjm | hjm
    · have ih := winSum_window w d m (fun j hj => h j (by omega)) j hjm
      obtain ⟨t, ht⟩ : ∃ t, m = j + 1 + t := ⟨m - (j + 1), by omega⟩
      have e : d m * 2 ^ (w * m) = 2 ^ (w * j) * (2 ^ w * (d m * 2 ^ (w * t))) := by
        rw [ht]; ring
      rw [e, Nat.add_mul_div_left _ _ (by positivity), Nat.add_mul_mod_self_left, ih]
    · have hje : j = m := by omega
      subst hje
      rw [Nat.add_mul_div_right _ _ (by positivity), Nat.div_eq_of_lt hlt, Nat.zero_add,
        Nat.mod_eq_of_lt (h j (by omega))]

/-- the `w`-bit window `j` of a scalar of the family IS the prescribed value `winDigit … j` (so the boundary values, the carry
into the top window and the clipped top values are really reached), for every order `r < 2^(w·nb)` -/
theorem C03_winScalar_window (bits r w seed i j : ℕ) (hnb : 1 ≤ computeNbChunks bits w)
    (hr : r < 2 ^ (w * computeNbChunks bits w)) (hj : j < computeNbChunks bits w) :
    (winScalar bits r w seed i / 2 ^ (w * j)) % 2 ^ w =
      winDigit w (computeNbChunks bits w) (r / 2 ^ (w * (computeNbChunks bits w - 1))) seed i j := by
  unfold winScalar
  dsimp only
  obtain ⟨nb, hnbe⟩ : ∃ nb, computeNbChunks bits w = nb + 1 := ⟨computeNbChunks bits w - 1, by omega⟩
  rw [hnbe] at hr hj ⊢
  simp only [Nat.add_sub_cancel]
  apply winSum_window w _ (nb + 1) _ j hj
  intro k hk
  unfold winDigit
  dsimp only
  have htop : r / 2 ^ (w * nb) < 2 ^ w := by
    apply Nat.div_lt_of_lt_mul
    rw [← pow_add, ← Nat.mul_succ]; exact hr
  have hpos : 0 < 2 ^ w := Nat.two_pow_pos w
  split
  · split <;> omega
  · split <;> exact Nat.mod_lt _ (by positivity)

theorem baseTableAux_length {H : Type} (O : GOps H) (base : H) : ∀ n cur, (baseTableAux O base n cur).length = n
  | 0, _ => rfl
  | n+1, cur => by rw [baseTableAux, List.length_cons, baseTableAux_length O base n]

/-- the lazily evaluated table holds the values of `baseTable` at EVERY index (the default beyond its length included) -/
theorem lazyTable_eq (base : G) (T k : ℕ) :
    lazyTable (GOps.ofGroup G) base T k = (baseTable (GOps.ofGroup G) base T).getD k 0 := by
  unfold lazyTable
  split
  · rename_i h
    rw [C03_mulWindowed, baseTable_getD base T k h]
    exact natCast_zsmul base (k + 1)
  · rename_i h
    rw [List.getD_eq_getElem?_getD, List.getElem?_eq_none (by unfold baseTable; rw [baseTableAux_length]; omega)]
    rfl

/-- `batchOne` only reads its table through `getD`: over ANY dictionary it is `batchOneF` of the lookup function -/
theorem batchOneF_getD {H : Type} (O : GOps H) (c : ℕ) (tbl : List H) (digits : List ℕ) :
    batchOneF O c (fun k => tbl.getD k O.zero) digits = batchOne O c tbl digits := rfl

/-- the sampled entries of a window-boundary batch as the driver computes them (`batchSampleWin`: window size `bestC bits n`,
lazily evaluated table) are `sᵢ • base` for every sample of indices, under the hypotheses of `C03_batchWith` on the selected
window -/
theorem C03_batchSampleWin (bits limbs n : ℕ) (base : G) (scalarAt : ℕ → ℕ) (idx : List ℕ)
    (hc1 : 1 ≤ bestC bits n) (hc : bestC bits n ≤ 16) (hbits : 1 ≤ bits) (hl : bits ≤ 64 * limbs)
    (hlast : lastC bits (bestC bits n) ≤ 15) (hs : ∀ i ∈ idx, scalarAt i < 2 ^ bits) :
    batchSampleWin (GOps.ofGroup G) bits limbs n base scalarAt idx = idx.map (fun i => scalarAt i • base) := by
  have h := C03_batchWith bits limbs (bestC bits n) base (idx.map scalarAt) hc1 hc hbits hl hlast (by
    intro s hs'
    obtain ⟨i, hi, rfl⟩ := List.mem_map.1 hs'
    exact hs i hi)
  unfold batchWith at h
  dsimp only at h
  rw [List.map_map, List.map_map] at h
  unfold batchSampleWin
  dsimp only
  refine Eq.trans ?_ h
  apply List.map_congr_left
  intro i _
  have e : lazyTable (GOps.ofGroup G) base (1 <<< ((if bestC bits n > lastC bits (bestC bits n) then bestC bits n
      else lastC bits (bestC bits n)) - 1)) = fun k => (baseTable (GOps.ofGroup G) base (1 <<< ((if bestC bits n >
      lastC bits (bestC bits n) then bestC bits n else lastC bits (bestC bits n)) - 1))).getD k (GOps.ofGroup G).zero := by
    funext k; exact lazyTable_eq base _ k
  rw [e, batchOneF_getD]
  rfl

/-- the family on the real sizes: bls24-315 (253-bit order, window 11 = the window that divides 253) -/
example : winScalar 253 0x196deac24a9da12b25fc7ec9cf927a98c8c480ece644e36419d0c5fd00c00001 11 7 3 <
    0x196deac24a9da12b25fc7ec9cf927a98c8c480ece644e36419d0c5fd00c00001 :=
  C03_winScalar_lt _ _ _ _ _ (by decide) (by norm_num [computeNbChunks])

/-- Aliasing (op `C03 alias <pat> <line>`): the specification is BY VALUE. Whatever sharing pattern between the receiver, the
point operands and the scalars the harness executes the call with, the model's answer is the answer to the same line on
distinct objects (`handle line`: the value computed in the exponent, cross-checked against the hand model). -/
theorem C03_alias_by_value (pat : String) (line : List String) (h : aliasOK pat line = true) :
    handleTop ("alias" :: pat :: line) = handle line := by
  simp only [handleTop, h, if_true]

/-- … hence it does not depend on the alias token: two admissible patterns on the same line get the same answer. -/
theorem C03_alias_irrelevant (pat₁ pat₂ : String) (line : List String)
    (h₁ : aliasOK pat₁ line = true) (h₂ : aliasOK pat₂ line = true) :
    handleTop ("alias" :: pat₁ :: line) = handleTop ("alias" :: pat₂ :: line) := by
  rw [C03_alias_by_value pat₁ line h₁, C03_alias_by_value pat₂ line h₂]

end GV.ScalarMul
