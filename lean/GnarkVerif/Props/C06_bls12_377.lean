/- C06 — extension-field and GT operations agree with generic arithmetic in F_p^k (bls12_377 tower).
   Every theorem is about a def GENERATED from the Go source (Gen/Tower/Bls12_377.lean): a changed Go formula
   changes the def and breaks the proof.  `x.spec` forgets the Go field names (Proofs/TowerBls12_377.lean);
   the right-hand sides are operations of the generic rings `QuadExt` / `CubicExt` whose product is the
   schoolbook product BY DEFINITION (Proofs/Tower.lean). -/
import GnarkVerif.Proofs.TowerBls12_377
import Mathlib.Tactic.NormNum
import Mathlib.Data.Rat.Init

namespace GV.Gen.Tower.bls12_377
open GV.Tower

section ring
variable {F : Type} [CommRing F]

/-! ## E2 = Fp[u]/(u² = -5) -/

@[gv_spec] theorem E2.Set_spec (x : E2 F) : (E2.Set x).1.spec = x.spec := rfl
@[gv_spec] theorem E2.SetZero_spec : (E2.SetZero (F := F)).spec = 0 := rfl
@[gv_spec] theorem E2.SetOne_spec : (E2.SetOne (F := F)).spec = 1 := rfl
@[gv_spec] theorem E2.Add_spec (x y : E2 F) : (E2.Add x y).1.spec = x.spec + y.spec := rfl
@[gv_spec] theorem E2.Sub_spec (x y : E2 F) : (E2.Sub x y).1.spec = x.spec - y.spec := rfl
@[gv_spec] theorem E2.Neg_spec (x : E2 F) : (E2.Neg x).1.spec = -x.spec := rfl
@[gv_spec] theorem E2.Double_spec (x : E2 F) : (E2.Double x).1.spec = x.spec + x.spec := rfl
@[gv_spec] theorem E2.Conjugate_spec (x : E2 F) : (E2.Conjugate x).1.spec = QuadExt.conj x.spec := rfl

/-- Karatsuba product of `mulGenericE2` = schoolbook product in Fp[u]/(u² = -5). -/
@[gv_spec] theorem E2.Mul_spec (x y : E2 F) : (E2.Mul x y).1.spec = x.spec * y.spec := by
  ext <;> simp [E2.Mul] <;> ring

/-- complex squaring of `squareGenericE2` = x·x. -/
@[gv_spec] theorem E2.Square_spec (x : E2 F) : (E2.Square x).1.spec = x.spec * x.spec := by
  ext <;> simp [E2.Square] <;> ring

/-- the shift-and-add chain of `MulByNonResidue` multiplies by ξ = 0 + 1·u. -/
@[gv_spec] theorem E2.MulByNonResidue_spec (x : E2 F) : (E2.MulByNonResidue x).1.spec = xi * x.spec := by
  ext <;> simp [E2.MulByNonResidue] <;> ring

@[gv_spec] theorem E2.MulByElement_spec (x : E2 F) (y : F) :
    (E2.MulByElement x y).1.spec = x.spec * QuadExt.ofBase y := by
  ext <;> simp [E2.MulByElement]

/-- `norm` writes A0² + A1² = N(z) into its argument. -/
theorem E2.norm_spec (z : E2 F) : (E2.norm z).2 = QuadExt.norm z.spec := by
  simp [E2.norm, QuadExt.norm]; ring

/-! ## E6 = E2[v]/(v³ − ξ) -/

@[gv_spec] theorem E6.Set_spec (x : E6 F) : (E6.Set x).1.spec = x.spec := rfl
@[gv_spec] theorem E6.SetOne_spec : (E6.SetOne (F := F)).spec = 1 := rfl
@[gv_spec] theorem E6.Add_spec (x y : E6 F) : (E6.Add x y).1.spec = x.spec + y.spec := rfl
@[gv_spec] theorem E6.Sub_spec (x y : E6 F) : (E6.Sub x y).1.spec = x.spec - y.spec := rfl
@[gv_spec] theorem E6.Neg_spec (x : E6 F) : (E6.Neg x).1.spec = -x.spec := rfl
@[gv_spec] theorem E6.Double_spec (x : E6 F) : (E6.Double x).1.spec = x.spec + x.spec := rfl

/-- multiplication by v: (b0,b1,b2) ↦ (ξ·b2, b0, b1). -/
@[gv_spec] theorem E6.MulByNonResidue_spec (x : E6 F) :
    (E6.MulByNonResidue x).1.spec = CubicExt.gen * x.spec := by
  ext : 1 <;> simp [E6.MulByNonResidue, gv_alias, gv_spec]

/-- Karatsuba/Toom product of `E6.Mul` (algorithm 13) = schoolbook product in E2[v]/(v³ − ξ). -/
@[gv_spec] theorem E6.Mul_spec (x y : E6 F) : (E6.Mul x y).1.spec = x.spec * y.spec := by
  ext : 1 <;> simp only [E6.Mul, gv_alias, gv_spec, E6.spec_mk, E6.spec_b0, E6.spec_b1, E6.spec_b2,
    CubicExt.mul_b0, CubicExt.mul_b1, CubicExt.mul_b2] <;> ring

/-- Chung–Hasan squaring of `E6.Square` = x·x. -/
@[gv_spec] theorem E6.Square_spec (x : E6 F) : (E6.Square x).1.spec = x.spec * x.spec := by
  ext : 1 <;> simp only [E6.Square, gv_alias, gv_spec, E6.spec_mk, E6.spec_b0, E6.spec_b1, E6.spec_b2,
    CubicExt.mul_b0, CubicExt.mul_b1, CubicExt.mul_b2] <;> ring

@[gv_spec] theorem E6.MulByE2_spec (x : E6 F) (y : E2 F) :
    (E6.MulByE2 x y).1.spec = x.spec * CubicExt.ofBase y.spec := by
  ext : 1 <;> simp [E6.MulByE2, gv_alias, gv_spec]

/-- sparse product by c0 + c1·v -/
@[gv_spec] theorem E6.MulBy01_spec (z : E6 F) (c0 c1 : E2 F) :
    (E6.MulBy01 z c0 c1).1.spec = z.spec * ⟨c0.spec, c1.spec, 0⟩ := by
  ext : 1 <;> simp only [E6.MulBy01, gv_alias, gv_spec, E6.spec_mk, E6.spec_b0, E6.spec_b1, E6.spec_b2,
    CubicExt.mul_b0, CubicExt.mul_b1, CubicExt.mul_b2] <;> ring

/-- sparse product by c1·v -/
@[gv_spec] theorem E6.MulBy1_spec (z : E6 F) (c1 : E2 F) :
    (E6.MulBy1 z c1).1.spec = z.spec * ⟨0, c1.spec, 0⟩ := by
  ext : 1 <;> simp only [E6.MulBy1, gv_alias, gv_spec, E6.spec_mk, E6.spec_b0, E6.spec_b1, E6.spec_b2,
    CubicExt.mul_b0, CubicExt.mul_b1, CubicExt.mul_b2] <;> ring

/-- sparse product by b1·v + b2·v² -/
@[gv_spec] theorem E6.MulBy12_spec (x : E6 F) (b1 b2 : E2 F) :
    (E6.MulBy12 x b1 b2).1.spec = x.spec * ⟨0, b1.spec, b2.spec⟩ := by
  ext : 1 <;> simp only [E6.MulBy12, gv_alias, gv_spec, E6.spec_mk, E6.spec_b0, E6.spec_b1, E6.spec_b2,
    CubicExt.mul_b0, CubicExt.mul_b1, CubicExt.mul_b2] <;> ring

/-! ## E12 = E6[w]/(w² − v) -/

@[gv_spec] theorem E12.Set_spec (x : E12 F) : (E12.Set x).1.spec = x.spec := rfl
@[gv_spec] theorem E12.SetOne_spec : (E12.SetOne (F := F)).spec = 1 := rfl
@[gv_spec] theorem E12.Add_spec (x y : E12 F) : (E12.Add x y).1.spec = x.spec + y.spec := rfl
@[gv_spec] theorem E12.Sub_spec (x y : E12 F) : (E12.Sub x y).1.spec = x.spec - y.spec := rfl
@[gv_spec] theorem E12.Double_spec (x : E12 F) : (E12.Double x).1.spec = x.spec + x.spec := rfl
@[gv_spec] theorem E12.Conjugate_spec (x : E12 F) : (E12.Conjugate x).1.spec = QuadExt.conj x.spec := rfl

/-- Karatsuba product of `E12.Mul` = schoolbook product in E6[w]/(w² − v). -/
@[gv_spec] theorem E12.Mul_spec (x y : E12 F) : (E12.Mul x y).1.spec = x.spec * y.spec := by
  ext : 1 <;> simp only [E12.Mul, gv_alias, gv_spec, E12.spec_mk, E12.spec_a0, E12.spec_a1,
    QuadExt.mul_a0, QuadExt.mul_a1] <;> ring

/-- complex squaring of `E12.Square` = x·x. -/
@[gv_spec] theorem E12.Square_spec (x : E12 F) : (E12.Square x).1.spec = x.spec * x.spec := by
  ext : 1 <;> simp only [E12.Square, gv_alias, gv_spec, E12.spec_mk, E12.spec_a0, E12.spec_a1,
    QuadExt.mul_a0, QuadExt.mul_a1] <;> ring

/-- `InverseUnitary` is the conjugation (the inverse on the unitary subgroup x·x̄ = 1). -/
@[gv_spec] theorem E12.InverseUnitary_spec (x : E12 F) :
    (E12.InverseUnitary x).1.spec = QuadExt.conj x.spec := rfl

/-! ### sparse products used by the Miller loop -/

/-- the sparse element c0 + c3·w + c4·v·w -/
def sparse034 (c0 c3 c4 : E2 F) : Fp12 F := ⟨⟨c0.spec, 0, 0⟩, ⟨c3.spec, c4.spec, 0⟩⟩
/-- the 5-sparse element (x0 + x1 v + x2 v²) + (x3 + x4 v)·w stored in a `[5]E2` -/
def Arr5.spec01234 (x : Arr5 (E2 F)) : Fp12 F := ⟨⟨x.e0.spec, x.e1.spec, x.e2.spec⟩, ⟨x.e3.spec, x.e4.spec, 0⟩⟩

theorem E12.MulBy034_spec (z : E12 F) (c0 c3 c4 : E2 F) :
    (E12.MulBy034 z c0 c3 c4).1.spec = z.spec * sparse034 c0 c3 c4 := by
  ext : 2 <;> simp [E12.MulBy034, sparse034, gv_alias, gv_spec] <;> ring

theorem E12.MulBy34_spec (z : E12 F) (c3 c4 : E2 F) :
    (E12.MulBy34 z c3 c4).1.spec = z.spec * ⟨⟨1, 0, 0⟩, ⟨c3.spec, c4.spec, 0⟩⟩ := by
  ext : 2 <;> simp [E12.MulBy34, gv_alias, gv_spec] <;> ring

theorem Mul034By034_spec (d0 d3 d4 c0 c3 c4 : E2 F) :
    (Mul034By034 d0 d3 d4 c0 c3 c4).1.spec01234 = sparse034 d0 d3 d4 * sparse034 c0 c3 c4 := by
  ext : 2 <;> simp [Mul034By034, Arr5.spec01234, sparse034, gv_alias, gv_spec] <;> ring

theorem Mul34By34_spec (d3 d4 c3 c4 : E2 F) :
    (Mul34By34 d3 d4 c3 c4).1.spec01234
      = (⟨⟨1, 0, 0⟩, ⟨d3.spec, d4.spec, 0⟩⟩ : Fp12 F) * ⟨⟨1, 0, 0⟩, ⟨c3.spec, c4.spec, 0⟩⟩ := by
  ext : 2 <;> simp [Mul34By34, Arr5.spec01234, gv_alias, gv_spec] <;> ring

theorem E12.MulBy01234_spec (z : E12 F) (x : Arr5 (E2 F)) :
    (E12.MulBy01234 z x).1.spec = z.spec * x.spec01234 := by
  ext : 2 <;> simp [E12.MulBy01234, Arr5.spec01234, gv_alias, gv_spec] <;> ring

/-! ### cyclotomic squaring (Granger–Scott)

Write Fp12 = Fp4[y]/(y³ = t), Fp4 = Fp2[t]/(t² = ξ) (y = w, t = w³); then
x = a + b·y + c·y² with a = C0.B0 + C1.B1·t, b = C1.B0 + C0.B2·t, c = C0.B1 + C1.B2·t.
On the cyclotomic subgroup G_{Φ6(p²)} (x^{p⁴−p²+1} = 1) Granger–Scott (eprint 2009/565, §3.2) show
   b·c·t = a² − ā,   a·b = t·c² + b̄,   a·c = b² − c̄          (¯ = conjugation of Fp4/Fp2),
and these three Fp4-equations are the algebraic form of the cyclotomic condition used here. -/

/-- Fp4 = Fp2[t]/(t² = ξ) -/
abbrev Fp4 (F : Type) [CommRing F] := QuadExt (Fp2 F) xi

def E12.gsA (x : E12 F) : Fp4 F := ⟨x.C0.B0.spec, x.C1.B1.spec⟩
def E12.gsB (x : E12 F) : Fp4 F := ⟨x.C1.B0.spec, x.C0.B2.spec⟩
def E12.gsC (x : E12 F) : Fp4 F := ⟨x.C0.B1.spec, x.C1.B2.spec⟩

/-- the Granger–Scott equations of the cyclotomic subgroup -/
structure E12.Cyclotomic (x : E12 F) : Prop where
  r1 : x.gsB * x.gsC * QuadExt.gen = x.gsA * x.gsA - QuadExt.conj x.gsA
  r2 : x.gsA * x.gsB = QuadExt.gen * (x.gsC * x.gsC) + QuadExt.conj x.gsB
  r3 : x.gsA * x.gsC = x.gsB * x.gsB - QuadExt.conj x.gsC

/-- `CyclotomicSquare` = x² on the cyclotomic subgroup. -/
theorem E12.CyclotomicSquare_spec (x : E12 F) (h : x.Cyclotomic) :
    (E12.CyclotomicSquare x).1.spec = x.spec * x.spec := by
  have h1a := congrArg QuadExt.a0 h.r1
  have h1b := congrArg QuadExt.a1 h.r1
  have h2a := congrArg QuadExt.a0 h.r2
  have h2b := congrArg QuadExt.a1 h.r2
  have h3a := congrArg QuadExt.a0 h.r3
  have h3b := congrArg QuadExt.a1 h.r3
  simp only [E12.gsA, E12.gsB, E12.gsC, QuadExt.mul_a0, QuadExt.mul_a1, QuadExt.sub_a0, QuadExt.sub_a1, QuadExt.add_a0, QuadExt.add_a1,
    QuadExt.conj_a0, QuadExt.conj_a1, QuadExt.gen_a0, QuadExt.gen_a1] at h1a h1b h2a h2b h3a h3b
  ext : 2 <;> simp only [E12.CyclotomicSquare, gv_alias, gv_spec, gv_proj]
  · linear_combination (-2 : Fp2 F) * h1a
  · linear_combination (-2 : Fp2 F) * h3a
  · linear_combination (-2 : Fp2 F) * h2b
  · linear_combination (-2 : Fp2 F) * h2a
  · linear_combination (-2 : Fp2 F) * h1b
  · linear_combination (-2 : Fp2 F) * h3b

/-- non-vacuity: 1 is cyclotomic -/
example : (E12.SetOne (F := ℚ)).Cyclotomic := by
  constructor <;> ext <;> simp [E12.SetOne, E12.gsA, E12.gsB, E12.gsC] <;> rfl

/-- the four coordinates kept by Karabina's compressed squaring are those of `CyclotomicSquare`
    (for EVERY x), the two others (C0.B0, C1.B1) of the receiver are left untouched. -/
theorem E12.CyclotomicSquareCompressed_eq (z x : E12 F) :
    let r := (E12.CyclotomicSquareCompressed z x).1
    let s := (E12.CyclotomicSquare x).1
    r.C0.B1.spec = s.C0.B1.spec ∧ r.C0.B2.spec = s.C0.B2.spec ∧ r.C1.B0.spec = s.C1.B0.spec ∧
    r.C1.B2.spec = s.C1.B2.spec ∧ r.C0.B0 = z.C0.B0 ∧ r.C1.B1 = z.C1.B1 := by
  intro r s
  refine ⟨?_, ?_, ?_, ?_, rfl, rfl⟩ <;>
    (simp only [r, s, E12.CyclotomicSquareCompressed, E12.CyclotomicSquare, gv_alias, gv_spec]; ring)

end ring

section field
variable {F : Type} [Field F]

/-! ## inverses (over a field; `0⁻¹ = 0` as in the Go code) -/

/-- the inverse function of Fp2 computed by `E2.Inverse`: conj x / N(x) -/
abbrev Fp2.inv (x : Fp2 F) : Fp2 F := QuadExt.invWith (·⁻¹) x
abbrev Fp6.inv (x : Fp6 F) : Fp6 F := CubicExt.invWith Fp2.inv x
abbrev Fp12.inv (x : Fp12 F) : Fp12 F := QuadExt.invWith Fp6.inv x

@[gv_spec] theorem E2.Inverse_spec (x : E2 F) : (E2.Inverse x).1.spec = Fp2.inv x.spec := by
  ext <;> simp only [E2.Inverse, QuadExt.invWith, QuadExt.norm, gv_proj] <;> ring

@[gv_spec] theorem E6.Inverse_spec (x : E6 F) : (E6.Inverse x).1.spec = Fp6.inv x.spec := by
  ext : 1 <;> simp only [E6.Inverse, gv_alias, gv_spec, E6.spec_mk, E6.spec_b0, E6.spec_b1, E6.spec_b2,
    Fp6.inv, CubicExt.invWith, CubicExt.norm, CubicExt.adj, CubicExt.mul_b0, CubicExt.mul_b1, CubicExt.mul_b2,
    CubicExt.ofBase_b0, CubicExt.ofBase_b1, CubicExt.ofBase_b2] <;> ring_nf

@[gv_spec] theorem E12.Inverse_spec (x : E12 F) : (E12.Inverse x).1.spec = Fp12.inv x.spec := by
  ext : 1 <;> simp only [E12.Inverse, gv_alias, gv_spec, E12.spec_mk, E12.spec_a0, E12.spec_a1,
    Fp12.inv, QuadExt.invWith, QuadExt.norm, QuadExt.mul_a0, QuadExt.mul_a1, QuadExt.conj_a0, QuadExt.conj_a1,
    QuadExt.ofBase_a0, QuadExt.ofBase_a1] <;> ring_nf

theorem Fp2.mul_inv (x : Fp2 F) (h : x.norm ≠ 0) : x * Fp2.inv x = 1 :=
  QuadExt.mul_invWith _ x (mul_inv_cancel₀ h)
theorem Fp6.mul_inv (x : Fp6 F) (h : x.norm.norm ≠ 0) : x * Fp6.inv x = 1 :=
  CubicExt.mul_invWith _ x (Fp2.mul_inv _ h)
theorem Fp12.mul_inv (x : Fp12 F) (h : x.norm.norm.norm ≠ 0) : x * Fp12.inv x = 1 :=
  QuadExt.mul_invWith _ x (Fp6.mul_inv _ h)

/-- x · Inverse(x) = 1 whenever the norm of x down to Fp does not vanish
    (for the irreducible tower: whenever x ≠ 0). -/
theorem E2.mul_Inverse (x : E2 F) (h : x.spec.norm ≠ 0) : x.spec * (E2.Inverse x).1.spec = 1 := by
  rw [E2.Inverse_spec]; exact Fp2.mul_inv _ h
theorem E6.mul_Inverse (x : E6 F) (h : x.spec.norm.norm ≠ 0) : x.spec * (E6.Inverse x).1.spec = 1 := by
  rw [E6.Inverse_spec]; exact Fp6.mul_inv _ h
theorem E12.mul_Inverse (x : E12 F) (h : x.spec.norm.norm.norm ≠ 0) :
    x.spec * (E12.Inverse x).1.spec = 1 := by
  rw [E12.Inverse_spec]; exact Fp12.mul_inv _ h

theorem E2.Inverse_zero : (E2.Inverse (E2.mk (0 : F) 0)).1 = E2.mk 0 0 := by
  simp [E2.Inverse]

theorem E2.Div_spec (x y : E2 F) : (E2.Div x y).1.spec = x.spec * Fp2.inv y.spec := by
  simp only [E2.Div, gv_alias, gv_spec]
theorem E6.Div_spec (x y : E6 F) : (E6.Div x y).1.spec = x.spec * Fp6.inv y.spec := by
  simp only [E6.Div, gv_alias, gv_spec]
theorem E12.Div_spec (x y : E12 F) : (E12.Div x y).1.spec = x.spec * Fp12.inv y.spec := by
  simp only [E12.Div, gv_alias, gv_spec]

/-! ## zero / equality tests -/

section dec
variable [DecidableEq F]

theorem E2.IsZero_iff (z : E2 F) : E2.IsZero z = true ↔ z.spec = 0 := by
  simp [E2.IsZero, QuadExt.ext_iff]
theorem E6.IsZero_iff (z : E6 F) : E6.IsZero z = true ↔ z.spec = 0 := by
  simp [E6.IsZero, E2.IsZero_iff, CubicExt.ext_iff, and_assoc]
theorem E12.IsZero_iff (z : E12 F) : E12.IsZero z = true ↔ z.spec = 0 := by
  simp [E12.IsZero, E6.IsZero_iff, QuadExt.ext_iff]
theorem E2.Equal_iff (z x : E2 F) : E2.Equal z x = true ↔ z.spec = x.spec := by
  simp [E2.Equal, QuadExt.ext_iff]
theorem E6.Equal_iff (z x : E6 F) : E6.Equal z x = true ↔ z.spec = x.spec := by
  simp [E6.Equal, E2.Equal_iff, CubicExt.ext_iff, and_assoc]
theorem E12.Equal_iff (z x : E12 F) : E12.Equal z x = true ↔ z.spec = x.spec := by
  simp [E12.Equal, E6.Equal_iff, QuadExt.ext_iff]

/-! ## Karabina decompression (PARTIAL, and a finding)

Full statement wanted (design C06): for x in the cyclotomic subgroup,
  `DecompressKarabina (CyclotomicSquareCompressed x) = x²`, including the branches g₂ = 0 and g₂ = g₃ = 0.
Proved here:
* `CyclotomicSquareCompressed_eq` (above): the compressed squaring computes the four kept coordinates of x²;
* `DecompressKarabina_general_partial`: when `C1.B0 ≠ 0` the function returns Karabina's formulas
  g₁ = (ξ g₅² + 3 g₄² − 2 g₃)/(4 g₂), g₀ = ξ(2 g₁² + g₂ g₅ − 3 g₃ g₄) + 1   (g₂=C1.B0, g₃=C0.B2, g₄=C0.B1, g₅=C1.B2);
  that these two formulas recover C1.B1 and C0.B0 of a cyclotomic element (Karabina, thm 3.1) is NOT proved
  (needs an ideal-membership certificate for the cyclotomic variety);
* `DecompressKarabina_g2_zero`: the g₂ = 0 branch returns g₁ = 2 g₄ g₅ / g₃. The Go code used to select the branch by
  `C1.B2` (= g₅) while dividing by 4·`C1.B0` (= g₂) in the general branch: found by this theorem attempt and by K on constructed
  cyclotomic elements, repaired in /repo (fix: DecompressKarabina selects the branch on g3). -/

theorem E12.DecompressKarabina_general_partial (x : E12 F) (h2 : x.C1.B0.spec ≠ 0) :
    let r := (E12.DecompressKarabina x).1
    let g2 := x.C1.B0.spec; let g3 := x.C0.B2.spec; let g4 := x.C0.B1.spec; let g5 := x.C1.B2.spec
    let g1 := (xi * (g5 * g5) + 3 * (g4 * g4) - 2 * g3) * Fp2.inv (4 * g2)
    r.C1.B1.spec = g1 ∧ r.C0.B0.spec = xi * (2 * (g1 * g1) + g2 * g5 - 3 * (g3 * g4)) + 1 ∧
    r.C0.B1 = x.C0.B1 ∧ r.C0.B2 = x.C0.B2 ∧ r.C1.B0 = x.C1.B0 ∧ r.C1.B2 = x.C1.B2 := by
  intro r g2 g3 g4 g5 g1
  have hz : E2.IsZero x.C1.B0 = false := by
    rw [Bool.eq_false_iff]; intro h; exact h2 ((E2.IsZero_iff _).1 h)
  have hg1 : r.C1.B1.spec = g1 := by
    simp only [r, g1, g2, g3, g4, g5, E12.DecompressKarabina, hz, Bool.false_eq_true, if_false, gv_alias, gv_spec,
      E2.Div_spec]
    congr 1 <;> ring
  refine ⟨hg1, ?_, ?_, ?_, ?_, ?_⟩
  · have : r.C0.B0.spec = xi * (2 * (r.C1.B1.spec * r.C1.B1.spec) + g2 * g5 - 3 * (g3 * g4)) + 1 := by
      simp only [r, g2, g3, g4, g5, E12.DecompressKarabina, hz, Bool.false_eq_true, if_false, gv_alias, gv_spec,
        E2.Div_spec]
      ring
    rw [this, hg1]
  all_goals simp only [r, E12.DecompressKarabina, hz, Bool.false_eq_true, if_false, gv_alias]
  all_goals rfl

/-- the g₂ = 0 branch (Karabina): with C1.B0 = 0 and C0.B2 ≠ 0 the function returns g₁ = 2 g₄ g₅ / g₃.
(Before fix fda1d37 the branch was selected by C1.B2 and this input took the general branch, dividing by 4·0.) -/
theorem E12.DecompressKarabina_g2_zero (x : E12 F) (h2 : x.C1.B0.spec = 0) (h3 : x.C0.B2.spec ≠ 0) :
    (E12.DecompressKarabina x).1.C1.B1.spec
      = (x.C0.B1.spec * x.C1.B2.spec + x.C0.B1.spec * x.C1.B2.spec) * Fp2.inv x.C0.B2.spec := by
  have hz : E2.IsZero x.C1.B0 = true := (E2.IsZero_iff _).2 h2
  have hz3 : E2.IsZero x.C0.B2 = false := by
    rw [Bool.eq_false_iff]; intro h; exact h3 ((E2.IsZero_iff _).1 h)
  have hset : (E2.Set x.C0.B2).1 = x.C0.B2 := rfl
  simp only [E12.DecompressKarabina, hz, if_true, hset, hz3, Bool.false_eq_true, if_false, gv_alias, gv_spec, E2.Div_spec]
  all_goals (try (congr 1 <;> ring))
  all_goals (try ring)

end dec

/-- non-vacuity of the norm hypothesis: 1 + u in ℚ(i) -/
example : (E2.mk (1 : ℚ) 1).spec.norm ≠ 0 := by simp [QuadExt.norm]; norm_num

end field

end GV.Gen.Tower.bls12_377
