import GnarkVerif.Props.C05_gen_bn254_fe
import GnarkVerif.Props.C05_gen_bls12_377_fe
import GnarkVerif.Props.C05_gen_bls12_381_fe
import GnarkVerif.Props.C06_chains
/-
C05 — the seed literal of the final-exponentiation theorems is the REGENERATED seed.

`Props/C05_gen_<curve>_fe` prove `GTLaws.pExpt`: the translated `E12.Expt` (shallow embedding, Gen/Tower) is x ↦ x^seed and
`C05gen_FinalExponentiation_hard`: the hard part raises to `hardExponent p seed`, where `seed` is a literal of the Lean file
"read off the chain". Here it is tied to `GV.Gen.CurveConsts.<curve>.xGen`, the constant tools/goslp/curveconsts.go re-extracts
from ecc/<curve>/<curve>.go on every run (and Props/C03_gen* relate to p, r, the loop counters), and to the exponent reading
of the deep-embedded `Expt` chain of Gen/Chains/Tower.lean (Props/C06_chains.lean): the three agree.
-/
namespace GV.Chain
open GV.Gen.Chains.Tower

/-- bn254: the `seed` of C05_gen_bn254_fe is `xGen`, and it is the exponent of the translated `Expt` chain -/
theorem C05_seed_bn254 : GV.Gen.Pairing.bn254.seed = GV.Gen.CurveConsts.bn254.xGen ∧
    expoInt bn254.Expt = some GV.Gen.Pairing.bn254.seed := by decide +kernel

/-- bls12-377: the `seed` of C05_gen_bls12_377_fe is `xGen`, and it is the exponent of the translated `Expt` chain -/
theorem C05_seed_bls12_377 : GV.Gen.Pairing.bls12_377.seed = GV.Gen.CurveConsts.bls12_377.xGen ∧
    expoInt bls12_377.Expt = some GV.Gen.Pairing.bls12_377.seed := by decide +kernel

/-- bls12-381: the `seed` of C05_gen_bls12_381_fe is `-xGen` (the code conjugates), and it is the exponent of the translated
`Expt` chain -/
theorem C05_seed_bls12_381 : GV.Gen.Pairing.bls12_381.seed = -GV.Gen.CurveConsts.bls12_381.xGen ∧
    expoInt bls12_381.Expt = some GV.Gen.Pairing.bls12_381.seed := by decide +kernel

end GV.Chain
