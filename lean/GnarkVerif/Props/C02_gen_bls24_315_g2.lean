/- INSTANTIATED by bin/mkc02gen.py from Props/C02_gen_bn254_g2.lean (bn254 G2, coordinate field E2 -> E4). DO NOT EDIT: edit the master and re-run the script.
   Every statement below is checked by Lean against the defs regenerated from the Go source. -/
import GnarkVerif.Proofs.CurveGen
import GnarkVerif.Proofs.TowerField
import GnarkVerif.Props.C06_bls24_315
import GnarkVerif.Gen.Curve.Bls24_315Alias
/-
C02 (tie T) — bls24_315 G2 (coordinates in E4 = E2[v]/(v² − ξ)): the point-arithmetic methods of /repo/ecc/bls24_315/g2.go implement the group law
of y² = x³ + b' over K = Fp4 = Fp[u]/(u² − β).

The generated defs of Gen/Curve/Bls24_315.lean call the GENERATED tower methods of Gen/Tower/Bls24_315.lean (E4.Mul, E4.Square,
E4.Inverse, …); their specifications are the C06 theorems (`(E4.Mul x y).1.spec = x.spec * y.spec`, …), `spec` being the
bijection E4 F → K. K is a field when β is a non-square of F (class `QuadExt.NonSquare`, a hypothesis of every theorem
here; it holds for the base fields of the library), with the inverse the Go code computes. The statements are the G1
statements (Props/C02_gen.lean) read through `spec`; the generic group-law theorems are those of Proofs/CurveGen.lean
instantiated at the field K.
-/
set_option linter.unusedSectionVars false
set_option linter.unusedVariables false
set_option linter.unusedSimpArgs false
namespace GV.Gen.Curve.bls24_315
open GV.Curve GV.C02 GV.CurveGen GV.Tower GV.Gen.Tower.bls24_315 WeierstrassCurve

variable {F : Type} [Field F] [DecidableEq F] [QuadExt.NonSquare (13 : F)] [QuadExt.NonSquare (xi : Fp2 F)]

/-- the coordinate field of G2 -/
abbrev K4 (F : Type) [Field F] := Fp4 F

/-! ## the generated E4 tests and inverse, read through `spec` -/

theorem E2.IsZero_iff (z : E2 F) : E2.IsZero z = true ↔ z.spec = 0 := by
  simp only [E2.IsZero, decide_eq_true_eq, Bool.and_eq_true]
  constructor
  · rintro ⟨h0, h1⟩; ext <;> simp [h0, h1]
  · intro h; exact ⟨by simpa using congrArg QuadExt.a0 h, by simpa using congrArg QuadExt.a1 h⟩

theorem E2.Equal_iff (z x : E2 F) : E2.Equal z x = true ↔ z.spec = x.spec := by
  simp only [E2.Equal, decide_eq_true_eq, Bool.and_eq_true]
  constructor
  · rintro ⟨h0, h1⟩; ext <;> simp [h0, h1]
  · intro h; exact ⟨by simpa using congrArg QuadExt.a0 h, by simpa using congrArg QuadExt.a1 h⟩

theorem E4.IsZero_iff (z : E4 F) : E4.IsZero z = true ↔ z.spec = 0 := by
  simp only [E4.IsZero, E2.IsZero_iff, Bool.and_eq_true]
  constructor
  · rintro ⟨h0, h1⟩; ext : 1 <;> simp [h0, h1]
  · intro h; exact ⟨by simpa using congrArg QuadExt.a0 h, by simpa using congrArg QuadExt.a1 h⟩

theorem E4.Equal_iff (z x : E4 F) : E4.Equal z x = true ↔ z.spec = x.spec := by
  simp only [E4.Equal, E2.Equal_iff, Bool.and_eq_true]
  constructor
  · rintro ⟨h0, h1⟩; ext : 1 <;> simp [h0, h1]
  · intro h; exact ⟨by simpa using congrArg QuadExt.a0 h, by simpa using congrArg QuadExt.a1 h⟩

theorem E4.Equal_false_iff (z x : E4 F) : E4.Equal z x = false ↔ ¬z.spec = x.spec := by
  rw [← E4.Equal_iff, Bool.not_eq_true]

theorem E4.Inverse_spec' (x : E4 F) : (E4.Inverse x).1.spec = (x.spec)⁻¹ := E4.Inverse_spec x

theorem E4.spec_eq_iff (x y : E4 F) : x = y ↔ x.spec = y.spec := ⟨fun h => h ▸ rfl, fun h => E4.spec_injective h⟩


/-- p represents the group element P of y² = x³ + b over K -/
def G2Jac.Rep (b : K4 F) (p : G2Jac F) (P : (sw 0 b).Point) : Prop := JacPt 0 b p.X.spec p.Y.spec p.Z.spec P
def G2Affine.Rep (b : K4 F) (p : G2Affine F) (P : (sw 0 b).Point) : Prop := AffPt 0 b p.X.spec p.Y.spec P
def g2JacExtended.Rep (b : K4 F) (p : g2JacExtended F) (P : (sw 0 b).Point) : Prop :=
  XyzzPt 0 b p.X.spec p.Y.spec p.ZZ.spec p.ZZZ.spec P

def G2Jac.specT (p : G2Jac F) : K4 F × K4 F × K4 F := (p.X.spec, p.Y.spec, p.Z.spec)
def G2Affine.specT (p : G2Affine F) : K4 F × K4 F := (p.X.spec, p.Y.spec)
def g2JacExtended.specT (p : g2JacExtended F) : K4 F × K4 F × K4 F × K4 F := (p.X.spec, p.Y.spec, p.ZZ.spec, p.ZZZ.spec)

/-- bridge tactic: unfold, translate the E4 tests, split, push `spec` through the E4 operations, `ring` in K -/
syntax "gv_bridge2 " "[" Lean.Parser.Tactic.simpLemma,* "]" : tactic
macro_rules
  | `(tactic| gv_bridge2 [$ds,*]) =>
    `(tactic| (simp only [$ds,*, gv_alias, E4.IsZero_iff, E4.Equal_iff, decide_eq_true_eq, Bool.and_eq_true,
                 Bool.not_eq_true', decide_eq_false_iff_not, G2Jac.specT, G2Affine.specT, g2JacExtended.specT] <;>
               first
               | rfl
               | (split_ifs <;> (try simp only [*, and_self, if_true, if_false, not_true_eq_false, not_false_eq_true]) <;>
                   first
                   | rfl
                   | ((try simp only [Prod.mk.injEq]) <;> (repeat' apply And.intro) <;> (try simp only [gv_spec, E4.Inverse_spec']) <;> ring1)
                   | (exfalso; simp_all))
               | ((try simp only [Prod.mk.injEq]) <;> (repeat' apply And.intro) <;> (try simp only [gv_spec, E4.Inverse_spec']) <;> ring1)))

theorem G2Affine.IsInfinity_iff (p : G2Affine F) : G2Affine.IsInfinity p = true ↔ (p.X.spec = 0 ∧ p.Y.spec = 0) := by
  simp only [G2Affine.IsInfinity, E4.IsZero_iff, Bool.and_eq_true]

theorem G2Jac.DoubleAssign_eq (p : G2Jac F) :
    (G2Jac.DoubleAssign p).specT = jacDouble p.X.spec p.Y.spec p.Z.spec := by
  gv_bridge2 [G2Jac.DoubleAssign, jacDouble]

theorem G2Jac.Double_eq (q : G2Jac F) : (G2Jac.Double q).1.specT = jacDouble q.X.spec q.Y.spec q.Z.spec := by
  simp only [G2Jac.Double, G2Jac.Set, G2Jac.DoubleAssign_eq]

theorem G2Jac.DoubleMixed_eq (a : G2Affine F) : (G2Jac.DoubleMixed a).1.specT = jacDoubleMixed a.X.spec a.Y.spec := by
  gv_bridge2 [G2Jac.DoubleMixed, jacDoubleMixed]

/- the equal-point branches return the result of another generated method: rewrite it by its bridge lemma first -/
theorem G2Jac.specT_mk (x y z : E4 F) : (G2Jac.mk x y z).specT = (x.spec, y.spec, z.spec) := rfl
theorem g2JacExtended.specT_mk (x y z w : E4 F) : (g2JacExtended.mk x y z w).specT = (x.spec, y.spec, z.spec, w.spec) := rfl
theorem G2Affine.specT_mk (x y : E4 F) : (G2Affine.mk x y).specT = (x.spec, y.spec) := rfl
theorem G2Jac.specT_X {p : G2Jac F} {t : K4 F × K4 F × K4 F} (h : p.specT = t) : p.X.spec = t.1 := congrArg Prod.fst h
theorem G2Jac.specT_Y {p : G2Jac F} {t : K4 F × K4 F × K4 F} (h : p.specT = t) : p.Y.spec = t.2.1 :=
  congrArg (fun u => u.2.1) h
theorem G2Jac.specT_Z {p : G2Jac F} {t : K4 F × K4 F × K4 F} (h : p.specT = t) : p.Z.spec = t.2.2 :=
  congrArg (fun u => u.2.2) h

theorem G2Jac.AddAssign_eq (p q : G2Jac F) :
    (G2Jac.AddAssign p q).1.specT = jacAddT p.X.spec p.Y.spec p.Z.spec q.X.spec q.Y.spec q.Z.spec := by
  simp only [G2Jac.AddAssign, jacAddT, jacAddTW, G2Jac.Set, jacAddUS, jacAdd, gv_alias, E4.IsZero_iff, E4.Equal_iff,
    Bool.and_eq_true, gv_spec]
  split_ifs <;> (try simp only [*, and_self, if_true, if_false]) <;>
    first
    | rfl
    | exact G2Jac.DoubleAssign_eq p
    | contradiction
    | (simp only [G2Jac.specT, Prod.mk.injEq] <;> (repeat' apply And.intro) <;> (try simp only [gv_spec]) <;> ring1)

theorem G2Jac.AddMixed_eq (p : G2Jac F) (a : G2Affine F) :
    (G2Jac.AddMixed p a).1.specT = jacAddMixedT p.X.spec p.Y.spec p.Z.spec a.X.spec a.Y.spec := by
  simp only [G2Jac.AddMixed, jacAddMixedT, jacAddMixedTW, G2Affine.IsInfinity, jacAddMixedUS, jacAddMixed, gv_alias,
    E4.IsZero_iff, E4.Equal_iff, Bool.and_eq_true, gv_spec]
  split_ifs <;> (try simp only [*, and_self, if_true, if_false]) <;>
    first
    | rfl
    | exact G2Jac.DoubleMixed_eq a
    | contradiction
    | (simp only [G2Jac.specT, Prod.mk.injEq] <;> (repeat' apply And.intro) <;> (try simp only [gv_spec]) <;> ring1)
    | (exfalso; simp_all)

theorem G2Jac.SubAssign_eq (p q : G2Jac F) :
    (G2Jac.SubAssign p q).1.specT = jacAddT p.X.spec p.Y.spec p.Z.spec q.X.spec (-q.Y.spec) q.Z.spec := by
  simp only [G2Jac.SubAssign, G2Jac.Set, gv_alias, G2Jac.AddAssign_eq, gv_spec]

theorem G2Jac.Neg_eq (q : G2Jac F) : (G2Jac.Neg q).1.specT = (q.X.spec, -q.Y.spec, q.Z.spec) := rfl
theorem G2Jac.Set_eq (q : G2Jac F) : (G2Jac.Set q).1 = q := rfl

theorem G2Jac.FromAffine_eq (a : G2Affine F) : (G2Jac.FromAffine a).1.specT = jacFromAffineT a.X.spec a.Y.spec := by
  gv_bridge2 [G2Jac.FromAffine, jacFromAffineT, G2Affine.IsInfinity]

theorem G2Jac.Equal_iff (p q : G2Jac F) :
    G2Jac.Equal p q = true ↔ jacEqualT p.X.spec p.Y.spec p.Z.spec q.X.spec q.Y.spec q.Z.spec := by
  simp only [G2Jac.Equal, jacEqualT, jacEqualTest, gv_alias]
  split_ifs <;> simp_all [E4.IsZero_iff, E4.Equal_iff, E4.Equal_false_iff, gv_spec]

/-- `hbt`: the generated `E4.MulBybTwistCurveCoeff` multiplies by the constant b (no C06 spec exists for it) -/
theorem G2Jac.IsOnCurve_iff (p : G2Jac F) (b : K4 F) (hbt : ∀ t : E4 F, (E4.MulBybTwistCurveCoeff t).1.spec = b * t.spec) :
    G2Jac.IsOnCurve p = true ↔ jacIsOnCurve b p.X.spec p.Y.spec p.Z.spec := by
  simp only [G2Jac.IsOnCurve, jacIsOnCurve, gv_alias, E4.Equal_iff, gv_spec, hbt]

theorem G2Affine.FromJacobian_eq (p1 : G2Jac F) :
    (G2Affine.FromJacobian p1).1.specT = fromJacobianT p1.X.spec p1.Y.spec p1.Z.spec := by
  gv_bridge2 [G2Affine.FromJacobian, fromJacobianT, fromJacobian]

theorem G2Affine.Double_eq (a : G2Affine F) : (G2Affine.Double a).1.specT = affDoubleT a.X.spec a.Y.spec := by
  have h := G2Jac.DoubleMixed_eq a
  simp only [G2Affine.Double, G2Affine.FromJacobian_eq, affDoubleT, G2Jac.specT_X h, G2Jac.specT_Y h, G2Jac.specT_Z h]

theorem G2Affine.Neg_eq (a : G2Affine F) : (G2Affine.Neg a).1.specT = (a.X.spec, -a.Y.spec) := rfl
theorem G2Affine.Set_eq (a : G2Affine F) : (G2Affine.Set a).1 = a := rfl

theorem G2Affine.Add_eq (a b : G2Affine F) : (G2Affine.Add a b).1.specT = affAddT a.X.spec a.Y.spec b.X.spec b.Y.spec := by
  simp only [G2Affine.Add, affAddT, affDoubleT, G2Affine.IsInfinity, G2Affine.Set, G2Affine.SetInfinity, affAddJac,
    gv_alias, E4.IsZero_iff, E4.Equal_iff, Bool.and_eq_true]
  split_ifs <;> (try simp only [*, and_self, if_true, if_false]) <;>
    first
    | rfl
    | contradiction
    | (have h := G2Jac.DoubleMixed_eq a
       simp only [G2Affine.FromJacobian_eq, G2Jac.specT_X h, G2Jac.specT_Y h, G2Jac.specT_Z h, gv_spec, *] <;>
         first | rfl | (congr 1 <;> ring1))

theorem G2Affine.Sub_eq (a b : G2Affine F) :
    (G2Affine.Sub a b).1.specT = affAddT a.X.spec a.Y.spec b.X.spec (-b.Y.spec) := by
  simp only [G2Affine.Sub, G2Affine.Add_eq]; rfl

theorem G2Affine.Equal_iff (p a : G2Affine F) : G2Affine.Equal p a = true ↔ (p.X.spec = a.X.spec ∧ p.Y.spec = a.Y.spec) := by
  simp only [G2Affine.Equal, E4.Equal_iff, Bool.and_eq_true]

theorem G2Affine.IsOnCurve_iff (p : G2Affine F) (b : E4 F) :
    G2Affine.IsOnCurve p b = true ↔ ((p.X.spec = 0 ∧ p.Y.spec = 0) ∨ OnCurve 0 b.spec p.X.spec p.Y.spec) := by
  simp only [G2Affine.IsOnCurve, G2Affine.IsInfinity, OnCurve, gv_alias, E4.IsZero_iff, Bool.and_eq_true]
  split_ifs with h
  · simp [h]
  · simp only [h, false_or, E4.Equal_iff, gv_spec]
    constructor <;> intro h <;> linear_combination h

theorem g2JacExtended.double_eq (q : g2JacExtended F) :
    (g2JacExtended.double q).1.specT = xyzzDouble q.X.spec q.Y.spec q.ZZ.spec q.ZZZ.spec := by
  gv_bridge2 [g2JacExtended.double, xyzzDouble]

theorem g2JacExtended.doubleMixed_eq (a : G2Affine F) :
    (g2JacExtended.doubleMixed a).1.specT = xyzzDoubleMixed a.X.spec a.Y.spec := by
  gv_bridge2 [g2JacExtended.doubleMixed, xyzzDoubleMixed]

theorem g2JacExtended.doubleNegMixed_eq (a : G2Affine F) :
    (g2JacExtended.doubleNegMixed a).1.specT = xyzzDoubleNegMixed a.X.spec a.Y.spec := by
  gv_bridge2 [g2JacExtended.doubleNegMixed, xyzzDoubleNegMixed]

theorem g2JacExtended.add_eq (p q : g2JacExtended F) :
    (g2JacExtended.add p q).1.specT =
      xyzzAddT p.X.spec p.Y.spec p.ZZ.spec p.ZZZ.spec q.X.spec q.Y.spec q.ZZ.spec q.ZZZ.spec := by
  simp only [g2JacExtended.add, xyzzAddT, xyzzAddTW, g2JacExtended.Set, xyzzAddAB, xyzzAdd, gv_alias, E4.IsZero_iff,
    E4.Equal_iff, Bool.and_eq_true, gv_spec]
  split_ifs <;> (try simp only [*, and_self, if_true, if_false]) <;>
    first
    | rfl
    | exact g2JacExtended.double_eq q
    | contradiction
    | (simp only [g2JacExtended.specT, Prod.mk.injEq] <;> (repeat' apply And.intro) <;> (try simp only [gv_spec]) <;>
        first | rfl | ring1)
    | (exfalso; simp_all)

theorem g2JacExtended.addMixed_eq (p : g2JacExtended F) (a : G2Affine F) :
    (g2JacExtended.addMixed p a).1.specT = xyzzAddMixedT p.X.spec p.Y.spec p.ZZ.spec p.ZZZ.spec a.X.spec a.Y.spec := by
  simp only [g2JacExtended.addMixed, xyzzAddMixedT, xyzzAddMixedTW, G2Affine.IsInfinity, xyzzAddMixedPR, xyzzAddMixed,
    gv_alias, E4.IsZero_iff, E4.Equal_iff, Bool.and_eq_true, gv_spec]
  split_ifs <;> (try simp only [*, and_self, if_true, if_false]) <;>
    first
    | rfl
    | exact g2JacExtended.doubleMixed_eq a
    | contradiction
    | (simp only [g2JacExtended.specT, Prod.mk.injEq] <;> (repeat' apply And.intro) <;> (try simp only [gv_spec]) <;>
        first | rfl | ring1)
    | (exfalso; simp_all)

theorem g2JacExtended.subMixed_eq (p : g2JacExtended F) (a : G2Affine F) :
    (g2JacExtended.subMixed p a).1.specT = xyzzSubMixedT p.X.spec p.Y.spec p.ZZ.spec p.ZZZ.spec a.X.spec a.Y.spec := by
  simp only [g2JacExtended.subMixed, xyzzSubMixedT, G2Affine.IsInfinity, xyzzSubMixed,
    gv_alias, E4.IsZero_iff, E4.Equal_iff, Bool.and_eq_true, gv_spec]
  split_ifs <;> (try simp only [*, and_self, if_true, if_false]) <;>
    first
    | rfl
    | exact g2JacExtended.doubleNegMixed_eq a
    | contradiction
    | (simp only [g2JacExtended.specT, Prod.mk.injEq] <;> (repeat' apply And.intro) <;> (try simp only [gv_spec]) <;>
        first | rfl | ring1)
    | (exfalso; simp_all)

theorem G2Affine.fromJacExtended_eq (q : g2JacExtended F) :
    (G2Affine.fromJacExtended q).1.specT = xyzzToAffineT q.X.spec q.Y.spec q.ZZ.spec q.ZZZ.spec := by
  gv_bridge2 [G2Affine.fromJacExtended, xyzzToAffineT, xyzzToAffine]

theorem G2Jac.fromJacExtended_eq (q : g2JacExtended F) (inf : G2Jac F) :
    (G2Jac.fromJacExtended q inf).1.specT =
      xyzzToJacT q.X.spec q.Y.spec q.ZZ.spec q.ZZZ.spec inf.X.spec inf.Y.spec inf.Z.spec := by
  gv_bridge2 [G2Jac.fromJacExtended, xyzzToJacT, xyzzToJac, G2Jac.Set]

theorem G2Jac.unsafeFromJacExtended_eq (q : g2JacExtended F) :
    (G2Jac.unsafeFromJacExtended q).1.specT = xyzzToJacUnsafe q.X.spec q.Y.spec q.ZZ.spec q.ZZZ.spec := by
  gv_bridge2 [G2Jac.unsafeFromJacExtended, xyzzToJacUnsafe]

/-! ## C02: the generated G2 methods implement the group law of y² = x³ + b over K (all inputs, all scalings) -/

section
variable {b : K4 F} {P Q : (sw 0 b).Point}

theorem G2Jac.rep_of {p : G2Jac F} {t : K4 F × K4 F × K4 F} (h : p.specT = t) (ht : JacPt 0 b t.1 t.2.1 t.2.2 P) :
    p.Rep b P := by
  unfold G2Jac.Rep; rw [G2Jac.specT_X h, G2Jac.specT_Y h, G2Jac.specT_Z h]; exact ht
theorem G2Affine.rep_of {p : G2Affine F} {t : K4 F × K4 F} (h : p.specT = t) (ht : AffPt 0 b t.1 t.2 P) :
    p.Rep b P := by
  have hx : p.X.spec = t.1 := congrArg Prod.fst h
  have hy : p.Y.spec = t.2 := congrArg Prod.snd h
  unfold G2Affine.Rep; rw [hx, hy]; exact ht
theorem g2JacExtended.rep_of {p : g2JacExtended F} {t : K4 F × K4 F × K4 F × K4 F} (h : p.specT = t)
    (ht : XyzzPt 0 b t.1 t.2.1 t.2.2.1 t.2.2.2 P) : p.Rep b P := by
  have h1 : p.X.spec = t.1 := congrArg Prod.fst h
  have h2 : p.Y.spec = t.2.1 := congrArg (fun u => u.2.1) h
  have h3 : p.ZZ.spec = t.2.2.1 := congrArg (fun u => u.2.2.1) h
  have h4 : p.ZZZ.spec = t.2.2.2 := congrArg (fun u => u.2.2.2) h
  unfold g2JacExtended.Rep; rw [h1, h2, h3, h4]; exact ht

/-- `G2Jac.AddAssign`: p ← p + q, every branch -/
theorem C02gen_G2Jac_AddAssign (hc : (2 : K4 F) ≠ 0) {p q : G2Jac F} (hp : p.Rep b P) (hq : q.Rep b Q) :
    (G2Jac.AddAssign p q).1.Rep b (P + Q) :=
  G2Jac.rep_of (G2Jac.AddAssign_eq p q) (jacAddT_correct rfl hc hp hq)

theorem C02gen_G2Jac_SubAssign (hc : (2 : K4 F) ≠ 0) {p q : G2Jac F} (hp : p.Rep b P) (hq : q.Rep b Q) :
    (G2Jac.SubAssign p q).1.Rep b (P - Q) := by
  rw [sub_eq_add_neg]; exact G2Jac.rep_of (G2Jac.SubAssign_eq p q) (jacAddT_correct rfl hc hp (JacPt.neg hq))

theorem C02gen_G2Jac_AddMixed (hc : (2 : K4 F) ≠ 0) {p : G2Jac F} {a : G2Affine F} (hp : p.Rep b P) (ha : a.Rep b Q) :
    (G2Jac.AddMixed p a).1.Rep b (P + Q) :=
  G2Jac.rep_of (G2Jac.AddMixed_eq p a) (jacAddMixedT_correct rfl hc hp ha)

theorem C02gen_G2Jac_DoubleAssign (hc : (2 : K4 F) ≠ 0) {p : G2Jac F} (hp : p.Rep b P) :
    (G2Jac.DoubleAssign p).Rep b (P + P) :=
  G2Jac.rep_of (G2Jac.DoubleAssign_eq p) (jacDouble_total hc hp)

theorem C02gen_G2Jac_Double (hc : (2 : K4 F) ≠ 0) {q : G2Jac F} (hq : q.Rep b Q) : (G2Jac.Double q).1.Rep b (Q + Q) :=
  G2Jac.rep_of (G2Jac.Double_eq q) (jacDouble_total hc hq)

theorem C02gen_G2Jac_DoubleMixed (hc : (2 : K4 F) ≠ 0) {a : G2Affine F} (ha : a.Rep b Q) :
    (G2Jac.DoubleMixed a).1.Rep b (Q + Q) :=
  G2Jac.rep_of (G2Jac.DoubleMixed_eq a) (jacDoubleMixed_total hc ha)

theorem C02gen_G2Jac_Neg {q : G2Jac F} (hq : q.Rep b Q) : (G2Jac.Neg q).1.Rep b (-Q) :=
  G2Jac.rep_of (G2Jac.Neg_eq q) (JacPt.neg hq)

theorem C02gen_G2Jac_Set {q : G2Jac F} (hq : q.Rep b Q) : (G2Jac.Set q).1.Rep b Q := hq

theorem C02gen_G2Jac_Equal {p q : G2Jac F} (hp : p.Rep b P) (hq : q.Rep b Q) : G2Jac.Equal p q = true ↔ P = Q := by
  rw [G2Jac.Equal_iff]; exact jacEqualT_iff hp hq

/-- `G2Jac.IsOnCurve`; `hbt`: `E4.MulBybTwistCurveCoeff` multiplies by b (hypothesis, see `G2Jac.IsOnCurve_iff`) -/
theorem C02gen_G2Jac_IsOnCurve (p : G2Jac F) (hbt : ∀ t : E4 F, (E4.MulBybTwistCurveCoeff t).1.spec = b * t.spec) :
    (p.Z.spec = 0 → (G2Jac.IsOnCurve p = true ↔ p.Y.spec * p.Y.spec = p.X.spec * p.X.spec * p.X.spec)) ∧
    (∀ x y, JacRep p.X.spec p.Y.spec p.Z.spec x y → (G2Jac.IsOnCurve p = true ↔ (sw 0 b).Equation x y)) := by
  rw [G2Jac.IsOnCurve_iff p b hbt]; exact jacIsOnCurve_total

theorem C02gen_G2Jac_FromAffine {a : G2Affine F} (ha : a.Rep b Q) : (G2Jac.FromAffine a).1.Rep b Q :=
  G2Jac.rep_of (G2Jac.FromAffine_eq a) (jacFromAffineT_correct ha)

theorem C02gen_G2Affine_FromJacobian (hb : b ≠ 0) {p : G2Jac F} (hp : p.Rep b P) :
    (G2Affine.FromJacobian p).1.Rep b P :=
  G2Affine.rep_of (G2Affine.FromJacobian_eq p) (fromJacobianT_correct hb hp)

theorem C02gen_G2Affine_Add (hc : (2 : K4 F) ≠ 0) (hb : b ≠ 0) {x y : G2Affine F} (hx : x.Rep b P) (hy : y.Rep b Q) :
    (G2Affine.Add x y).1.Rep b (P + Q) :=
  G2Affine.rep_of (G2Affine.Add_eq x y) (affAddT_correct rfl hc hb hx hy)

theorem C02gen_G2Affine_Sub (hc : (2 : K4 F) ≠ 0) (hb : b ≠ 0) {x y : G2Affine F} (hx : x.Rep b P) (hy : y.Rep b Q) :
    (G2Affine.Sub x y).1.Rep b (P - Q) := by
  rw [sub_eq_add_neg]; exact G2Affine.rep_of (G2Affine.Sub_eq x y) (affAddT_correct rfl hc hb hx (AffPt.neg hy))

theorem C02gen_G2Affine_Double (hc : (2 : K4 F) ≠ 0) (hb : b ≠ 0) {a : G2Affine F} (ha : a.Rep b Q) :
    (G2Affine.Double a).1.Rep b (Q + Q) :=
  G2Affine.rep_of (G2Affine.Double_eq a) (affDoubleT_correct hc hb ha)

theorem C02gen_G2Affine_Neg {a : G2Affine F} (ha : a.Rep b Q) : (G2Affine.Neg a).1.Rep b (-Q) :=
  G2Affine.rep_of (G2Affine.Neg_eq a) (AffPt.neg ha)

theorem C02gen_G2Affine_Equal {x y : G2Affine F} (hx : x.Rep b P) (hy : y.Rep b Q) :
    G2Affine.Equal x y = true ↔ P = Q := by
  rw [G2Affine.Equal_iff]; exact AffPt.eq_iff hx hy

theorem C02gen_G2Affine_IsInfinity {a : G2Affine F} (ha : a.Rep b Q) : G2Affine.IsInfinity a = true ↔ Q = 0 := by
  rw [G2Affine.IsInfinity_iff]; exact (AffPt.eq_zero_iff ha).symm

/-- `G2Affine.IsOnCurve p bTwistCurveCoeff`: infinity or Mathlib's curve equation over K -/
theorem C02gen_G2Affine_IsOnCurve (p : G2Affine F) (bt : E4 F) :
    G2Affine.IsOnCurve p bt = true ↔ ((p.X.spec = 0 ∧ p.Y.spec = 0) ∨ (sw 0 bt.spec).Equation p.X.spec p.Y.spec) := by
  rw [G2Affine.IsOnCurve_iff, sw_equation_iff]

/-! ### extended Jacobian (bucket) coordinates -/

theorem C02gen_g2JacExtended_add (hc : (2 : K4 F) ≠ 0) {p q : g2JacExtended F} (hp : p.Rep b P) (hq : q.Rep b Q) :
    (g2JacExtended.add p q).1.Rep b (P + Q) :=
  g2JacExtended.rep_of (g2JacExtended.add_eq p q) (xyzzAddT_correct rfl hc hp hq)

theorem C02gen_g2JacExtended_double (hc : (2 : K4 F) ≠ 0) {q : g2JacExtended F} (hq : q.Rep b Q) :
    (g2JacExtended.double q).1.Rep b (Q + Q) :=
  g2JacExtended.rep_of (g2JacExtended.double_eq q) (xyzzDouble_total hc hq)

theorem C02gen_g2JacExtended_addMixed (hc : (2 : K4 F) ≠ 0) {p : g2JacExtended F} {a : G2Affine F} (hp : p.Rep b P)
    (ha : a.Rep b Q) : (g2JacExtended.addMixed p a).1.Rep b (P + Q) :=
  g2JacExtended.rep_of (g2JacExtended.addMixed_eq p a) (xyzzAddMixedT_correct rfl hc hp ha)

theorem C02gen_g2JacExtended_subMixed (hc : (2 : K4 F) ≠ 0) {p : g2JacExtended F} {a : G2Affine F} (hp : p.Rep b P)
    (ha : a.Rep b Q) : (g2JacExtended.subMixed p a).1.Rep b (P - Q) :=
  g2JacExtended.rep_of (g2JacExtended.subMixed_eq p a) (xyzzSubMixedT_correct rfl hc hp ha)

theorem C02gen_g2JacExtended_doubleMixed (hc : (2 : K4 F) ≠ 0) {a : G2Affine F} (ha : a.Rep b Q) :
    (g2JacExtended.doubleMixed a).1.Rep b (Q + Q) :=
  g2JacExtended.rep_of (g2JacExtended.doubleMixed_eq a) (xyzzDoubleMixed_total hc ha)

theorem C02gen_g2JacExtended_doubleNegMixed (hc : (2 : K4 F) ≠ 0) {a : G2Affine F} (ha : a.Rep b Q) :
    (g2JacExtended.doubleNegMixed a).1.Rep b (-Q + -Q) :=
  g2JacExtended.rep_of (g2JacExtended.doubleNegMixed_eq a) (xyzzDoubleNegMixed_total hc ha)

theorem C02gen_G2Affine_fromJacExtended (hb : b ≠ 0) {q : g2JacExtended F} (hq : q.Rep b Q) :
    (G2Affine.fromJacExtended q).1.Rep b Q :=
  G2Affine.rep_of (G2Affine.fromJacExtended_eq q) (xyzzToAffineT_correct hb hq)

theorem C02gen_G2Jac_fromJacExtended {q : g2JacExtended F} {inf : G2Jac F} (hi : inf.Z.spec = 0) (hq : q.Rep b Q) :
    (G2Jac.fromJacExtended q inf).1.Rep b Q :=
  G2Jac.rep_of (G2Jac.fromJacExtended_eq q inf) (xyzzToJacT_correct hi hq)

theorem C02gen_G2Jac_unsafeFromJacExtended {q : g2JacExtended F} {l x y : K4 F}
    (hq : XyzzRep l q.X.spec q.Y.spec q.ZZ.spec q.ZZZ.spec x y) :
    JacRep (G2Jac.unsafeFromJacExtended q).1.X.spec (G2Jac.unsafeFromJacExtended q).1.Y.spec
      (G2Jac.unsafeFromJacExtended q).1.Z.spec x y := by
  have h := G2Jac.unsafeFromJacExtended_eq q
  rw [G2Jac.specT_X h, G2Jac.specT_Y h, G2Jac.specT_Z h, (C02_xyzz_conversions hq).2.2]
  exact (C02_xyzz_conversions hq).2.1

end

end GV.Gen.Curve.bls24_315
