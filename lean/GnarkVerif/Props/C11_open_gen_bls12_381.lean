/- INSTANTIATED by bin/mkc11open.py (one proof template for the 7 packages). DO NOT EDIT: edit the script and re-run it. -/
import GnarkVerif.Proofs.KzgBatchGen
import GnarkVerif.Gen.Imp.KzgOpen_bls12_381
import GnarkVerif.Props.C11_gen_bls12_381
import GnarkVerif.Props.C11
/-
C11, tie T for the PROVER side of ecc/bls12-381/kzg/kzg.go: `eval`, `dividePolyByXminusA`, `Commit`, `Open`, `BatchOpenSinglePoint` as REGENERATED from the Go text on
every run (Gen/Imp/KzgOpen_bls12_381.lean, tools/goslp/impkzg.go: statement by statement, `[]fr.Element` = `List F` by value, element writes to a
slice PARAMETER returned as the first component of the result; the translator is fatal outside its subset and checks the aliasing side
conditions listed in its header).

TRANSLATED: the five functions, the structs `ProvingKey`, `OpeningProof`, `BatchOpeningProof`, `ecc.MultiExpConfig`, the error sentinels. The goroutines /
`parallel.Execute` of `BatchOpenSinglePoint` are read as the sequential programs they are equivalent to, under non-interference conditions that the
translator checks (header of tools/goslp/impkzg2.go; the tiling of [0, n) by `parallel.Execute` is Props/C04_execgen).
PARAMETERS (not looked into): the scalar type `F` with `zero`, `add`, `sub`, `mul` (fr.Element zero value / Add / Sub / Mul: C01's subject), the
group-element type `G` with `gzero` (zero value of G1Affine = the point at infinity), and `multiExp` = `(*G1Affine).MultiExp` as an
uninterpreted function (old receiver, points, scalars, config) ↦ (new receiver, error); `deriveGamma` (Fiat–Shamir challenge of the batch proof) as an
uninterpreted function (point, digests, claimed values, hasher, extra data) ↦ (γ, error).
ASSUMED, as the hypothesis `hm` of the theorems that need it: on slices of EQUAL length `multiExp` returns `(msm points scalars, nil)` for a
function `msm` that does not depend on the old receiver nor on the config (C04's subject), and it does not write its arguments.
NOT translated: `NewSRS` (the completeness theorem takes the SRS of the hand model `Model/KZG.newSRS`).
Not modelled: panics (`eval` / `dividePolyByXminusA` on an empty slice; `Commit` / `Open` / `BatchOpenSinglePoint` reject it before).

Abstraction / invariant: there is no hidden state. The generated defs are functions of their arguments; the abstraction from the generated
types to the hand model is `ProvingKey.G1 ↦ pk`, `OpeningProof ↦ (H, ClaimedValue)`, `(x, nil) ↦ .ok x`, `(_, ErrInvalidPolynomialSize) ↦ .error
.polySize`, with F = G = ℕ, operations `addm r / subm r / mulm r` (the exponent model of Model/KZG.lean). `_ref` theorems: over ANY `F`, `G` the
generated loops are the index loops `gEval` / `gDivide` of Proofs/KzgOpenGen.lean; `_ring` theorems: over any commutative ring these are
Horner = `Polynomial.eval` and synthetic division; `_model` theorems: in the exponent model they are the functions of Model/KZG.lean, so the
theorems of Props/C11.lean transfer (`C11open_bls12_381_completeness`: generated `Commit`, generated `Open`, then the generated `Verify` of
Gen/Verifier/Kzg_bls12_381.lean accepts).
-/
set_option linter.unusedSectionVars false
set_option linter.unusedVariables false
set_option linter.unusedSimpArgs false

open Polynomial GV.GoImp GV.KZG GV.KzgOpenGen GV.Gen.Imp GV.Gen.Verifier GV.VerifierGen GV.C11gen
namespace GV.C11open

/-! ### over any scalar type and any group-element type -/
section Abstract
variable {F G : Type} (zero : F) (add sub mul : F → F → F) (gzero : G)
  (multiExp : G → List G → List F → KzgOpen_bls12_381.MultiExpConfig → G × GoImp.Err)

/-- the generated `eval` is the Horner index loop `gEval` (every list, the empty one included: both sides are `zero`) -/
theorem C11open_bls12_381_eval_ref (p : List F) (x : F) :
    KzgOpen_bls12_381.eval zero add sub mul gzero multiExp p x = gEval add mul zero p x :=
  eval_glue add mul zero p x (KzgOpen_bls12_381.eval.loop1 zero add sub mul gzero multiExp p x) (fun _ _ => rfl) (fun _ _ _ => rfl)

/-- the generated `dividePolyByXminusA` returns (the caller's array `f` after the call, the result `f[1:]`): the array is `gDivide`,
the result is its tail -/
theorem C11open_bls12_381_divide_ref (f : List F) (fa a : F) :
    KzgOpen_bls12_381.dividePolyByXminusA zero add sub mul gzero multiExp f fa a
      = (gDivide add sub mul zero f fa a, (gDivide add sub mul zero f fa a).drop 1) := by
  have h := divide_glue add sub mul zero f fa a (KzgOpen_bls12_381.dividePolyByXminusA.loop1 zero add sub mul gzero multiExp a)
    (fun _ _ _ => rfl) (fun _ _ _ _ => rfl)
  refine Prod.ext ?_ ?_
  · exact h
  · show List.drop (Int.toNat 1) _ = _
    rw [← h]
    rfl

/-- which caller slices the Go functions overwrite, as established by the translator on this run: `dividePolyByXminusA` overwrites `f` (and its
result shares memory with `f`); `eval`, `Commit` and `Open` overwrite NO slice handed in by the caller — `Open` divides a fresh copy `_p`
(`make` + `copy`), so the caller's polynomial is untouched. The generated `Open` accordingly returns nothing but (proof, error). -/
theorem C11open_bls12_381_writes :
    KzgOpen_bls12_381.eval.writes = [] ∧ KzgOpen_bls12_381.dividePolyByXminusA.writes = ["f"] ∧ KzgOpen_bls12_381.dividePolyByXminusA.aliases = [(0, "f")] ∧
    KzgOpen_bls12_381.Commit.writes = [] ∧ KzgOpen_bls12_381.Commit.aliases = [] ∧ KzgOpen_bls12_381.Open.writes = [] ∧ KzgOpen_bls12_381.Open.aliases = [] :=
  ⟨rfl, rfl, rfl, rfl, rfl, rfl, rfl⟩

/-- the generated `Commit`: the size check, then `MultiExp(pk.G1[:len(p)], p)`; `nbTasks` only reaches the config -/
theorem C11open_bls12_381_commit_abstract (msm : List G → List F → G)
    (hm : ∀ recv pts sc cfg, pts.length = sc.length → multiExp recv pts sc cfg = (msm pts sc, GoImp.Err.nil))
    (p : List F) (pk : KzgOpen_bls12_381.ProvingKey F G) (nb : List Int) :
    KzgOpen_bls12_381.Commit zero add sub mul gzero multiExp p pk nb =
      if p.length = 0 ∨ p.length > pk.G1.length then (gzero, KzgOpen_bls12_381.ErrInvalidPolynomialSize)
      else (msm (pk.G1.take p.length) p, GoImp.Err.nil) := by
  by_cases h : p.length = 0 ∨ p.length > pk.G1.length
  · have h' : (len p = 0) ∨ (len p > len pk.G1) := by simp only [len_eq]; omega
    simp only [KzgOpen_bls12_381.Commit, if_pos h', if_pos h]
  · have h' : ¬ ((len p = 0) ∨ (len p > len pk.G1)) := by simp only [len_eq]; omega
    have hl : (List.take (Int.toNat (len p)) pk.G1).length = p.length := by simp only [len_eq, Int.toNat_natCast, List.length_take]; omega
    simp only [KzgOpen_bls12_381.Commit, if_neg h', if_neg h]
    rw [hm _ _ _ _ hl]
    simp [len]

example : ∃ (multiExp : ℕ → List ℕ → List ℕ → KzgOpen_bls12_381.MultiExpConfig → ℕ × GoImp.Err) (msm : List ℕ → List ℕ → ℕ),
    ∀ recv pts sc cfg, pts.length = sc.length → multiExp recv pts sc cfg = (msm pts sc, GoImp.Err.nil) :=
  ⟨mexp 13 GoImp.Err.nil (GoImp.Err.sentinel "MultiExp"), msm 13, fun _ _ _ _ h => by simp [mexp, h]⟩

/-- the generated `Open`: size check; claimed value = `eval`; the quotient of a COPY of `p`; `H` = the commitment of the quotient, the
point at infinity when the quotient is empty (constant polynomial); no other error -/
theorem C11open_bls12_381_open_abstract (msm : List G → List F → G)
    (hm : ∀ recv pts sc cfg, pts.length = sc.length → multiExp recv pts sc cfg = (msm pts sc, GoImp.Err.nil))
    (p : List F) (x : F) (pk : KzgOpen_bls12_381.ProvingKey F G) :
    KzgOpen_bls12_381.Open zero add sub mul gzero multiExp p x pk =
      if p.length = 0 ∨ p.length > pk.G1.length then (⟨gzero, zero⟩, KzgOpen_bls12_381.ErrInvalidPolynomialSize)
      else
        (⟨if ((gDivide add sub mul zero p (gEval add mul zero p x) x).drop 1).length = 0 then gzero
          else msm (pk.G1.take ((gDivide add sub mul zero p (gEval add mul zero p x) x).drop 1).length)
                ((gDivide add sub mul zero p (gEval add mul zero p x) x).drop 1),
          gEval add mul zero p x⟩, GoImp.Err.nil) := by
  by_cases h : p.length = 0 ∨ p.length > pk.G1.length
  · have h' : (len p = 0) ∨ (len p > len pk.G1) := by simp only [len_eq]; omega
    simp only [KzgOpen_bls12_381.Open, if_pos h', if_pos h]
  · have h' : ¬ ((len p = 0) ∨ (len p > len pk.G1)) := by simp only [len_eq]; omega
    simp only [KzgOpen_bls12_381.Open, if_neg h', if_neg h, copy_fresh, C11open_bls12_381_eval_ref, C11open_bls12_381_divide_ref]
    generalize hq : (gDivide add sub mul zero p (gEval add mul zero p x) x).drop 1 = q
    have hql : q.length = p.length - 1 := by rw [← hq, List.length_drop, gDivide_length]
    by_cases hz : q.length = 0
    · have hz' : ¬ (len q > 0) := by simp only [len_eq]; omega
      simp only [if_neg hz', if_pos hz]
    · have hz' : len q > 0 := by simp only [len_eq]; omega
      have hc : ¬ (q.length = 0 ∨ q.length > pk.G1.length) := by omega
      simp only [if_pos hz', if_neg hz, C11open_bls12_381_commit_abstract zero add sub mul gzero multiExp msm hm, if_neg hc]
      simp

/-- a constant polynomial: `Open` succeeds with `H` = the point at infinity and claimed value = the constant (after /repo fix 1aad452) -/
theorem C11open_bls12_381_open_constant (msm : List G → List F → G)
    (hm : ∀ recv pts sc cfg, pts.length = sc.length → multiExp recv pts sc cfg = (msm pts sc, GoImp.Err.nil))
    (c x : F) (pk : KzgOpen_bls12_381.ProvingKey F G) (hk : 1 ≤ pk.G1.length) :
    KzgOpen_bls12_381.Open zero add sub mul gzero multiExp [c] x pk = (⟨gzero, c⟩, GoImp.Err.nil) := by
  have h : ¬ (([c] : List F).length = 0 ∨ ([c] : List F).length > pk.G1.length) := by simp only [List.length_singleton]; omega
  rw [C11open_bls12_381_open_abstract zero add sub mul gzero multiExp msm hm, if_neg h]
  simp [gDivide, gDivLoop, gEval, gEvalLoop]

/-- size errors of the generated code: exactly the empty polynomial and the polynomial longer than the key, for `Commit` and `Open` -/
theorem C11open_bls12_381_size_errors (msm : List G → List F → G)
    (hm : ∀ recv pts sc cfg, pts.length = sc.length → multiExp recv pts sc cfg = (msm pts sc, GoImp.Err.nil))
    (p : List F) (x : F) (pk : KzgOpen_bls12_381.ProvingKey F G) (nb : List Int) :
    ((p.length = 0 ∨ p.length > pk.G1.length) →
      KzgOpen_bls12_381.Commit zero add sub mul gzero multiExp p pk nb = (gzero, KzgOpen_bls12_381.ErrInvalidPolynomialSize) ∧
      KzgOpen_bls12_381.Open zero add sub mul gzero multiExp p x pk = (⟨gzero, zero⟩, KzgOpen_bls12_381.ErrInvalidPolynomialSize)) ∧
    (¬ (p.length = 0 ∨ p.length > pk.G1.length) →
      (KzgOpen_bls12_381.Commit zero add sub mul gzero multiExp p pk nb).2 = GoImp.Err.nil ∧
      (KzgOpen_bls12_381.Open zero add sub mul gzero multiExp p x pk).2 = GoImp.Err.nil) := by
  rw [C11open_bls12_381_commit_abstract zero add sub mul gzero multiExp msm hm, C11open_bls12_381_open_abstract zero add sub mul gzero multiExp msm hm]
  constructor
  · intro h; simp only [if_pos h, and_self]
  · intro h; simp only [if_neg h, and_self]

end Abstract

/-! ### BatchOpenSinglePoint: the generated loops are the package-independent reference loops of Proofs/KzgBatchGen.lean -/
section Batch
variable {F G : Type} (zero : F) (add sub mul : F → F → F) (gzero : G)
  (multiExp : G → List G → List F → KzgOpen_bls12_381.MultiExpConfig → G × GoImp.Err)
  (deriveGamma : F → List G → List F → Hash → List (List UInt8) → F × GoImp.Err)

theorem C11open_bls12_381_batch_loop1 (pk : KzgOpen_bls12_381.ProvingKey F G) (polys : List (List F)) (L : Int) :
    KzgOpen_bls12_381.BatchOpenSinglePoint.loop1 zero add sub mul gzero multiExp pk polys L =
      ((rSizes (len pk.G1) polys L).1,
       if (rSizes (len pk.G1) polys L).2 = true then some (⟨gzero, []⟩, KzgOpen_bls12_381.ErrInvalidPolynomialSize) else none) := by
  induction polys generalizing L with
  | nil => rfl
  | cons p rest ih =>
    by_cases h : (len p = 0) ∨ (len p > len pk.G1)
    · simp only [KzgOpen_bls12_381.BatchOpenSinglePoint.loop1, rSizes, if_pos h, if_true]
    · simp only [KzgOpen_bls12_381.BatchOpenSinglePoint.loop1, rSizes, if_neg h, ih]

theorem C11open_bls12_381_batch_loop2 (polys : List (List F)) (point : F) (fuel : ℕ) (res : KzgOpen_bls12_381.BatchOpeningProof F G) (i : Int) :
    KzgOpen_bls12_381.BatchOpenSinglePoint.loop2 zero add sub mul gzero multiExp polys point fuel res i =
      (⟨res.H, (rLoop2 (fun p => KzgOpen_bls12_381.eval zero add sub mul gzero multiExp p point) polys fuel res.ClaimedValues i).1⟩,
       (rLoop2 (fun p => KzgOpen_bls12_381.eval zero add sub mul gzero multiExp p point) polys fuel res.ClaimedValues i).2) := by
  induction fuel generalizing res i with
  | zero => rfl
  | succ n ih =>
    by_cases h : i < len polys
    · simp only [KzgOpen_bls12_381.BatchOpenSinglePoint.loop2, rLoop2, if_pos h, ih]
    · simp only [KzgOpen_bls12_381.BatchOpenSinglePoint.loop2, rLoop2, if_neg h]

theorem C11open_bls12_381_batch_loop4 (polys : List (List F)) (γ : F) (fuel : ℕ) (g : List F) (i : Int) :
    KzgOpen_bls12_381.BatchOpenSinglePoint.loop4 zero add sub mul gzero multiExp polys γ fuel g i = rLoop4 zero mul (len polys) γ fuel g i := by
  induction fuel generalizing g i with
  | zero => rfl
  | succ n ih => simp only [KzgOpen_bls12_381.BatchOpenSinglePoint.loop4, rLoop4, ih]

theorem C11open_bls12_381_batch_loop6 (polys : List (List F)) (i : Int) (gammas : List F) (e : Int) (fuel : ℕ) (fp : List F) (pj : F) (j : Int) :
    KzgOpen_bls12_381.BatchOpenSinglePoint.loop6 zero add sub mul gzero multiExp polys i gammas e fuel fp pj j
      = rLoop6 zero add mul polys i gammas e fuel fp pj j := by
  induction fuel generalizing fp pj j with
  | zero => rfl
  | succ n ih => simp only [KzgOpen_bls12_381.BatchOpenSinglePoint.loop6, rLoop6, ih]

theorem C11open_bls12_381_batch_loop5 (polys : List (List F)) (gammas : List F) (fuel : ℕ) (fp : List F) (i : Int) :
    KzgOpen_bls12_381.BatchOpenSinglePoint.loop5 zero add sub mul gzero multiExp polys gammas fuel fp i
      = rLoop5 zero add mul polys gammas fuel fp i := by
  induction fuel generalizing fp i with
  | zero => rfl
  | succ n ih => simp only [KzgOpen_bls12_381.BatchOpenSinglePoint.loop5, rLoop5, ih, C11open_bls12_381_batch_loop6]

/-- the folded evaluation `∑ᵢγⁱ·vᵢ` (the goroutine of BatchOpenSinglePoint) is the Horner loop in γ over the claimed values -/
theorem C11open_bls12_381_batch_loop3 (res : KzgOpen_bls12_381.BatchOpeningProof F G) (γ : F) :
    (KzgOpen_bls12_381.BatchOpenSinglePoint.loop3 zero add sub mul gzero multiExp res γ ((len res.ClaimedValues - 2) + 1).toNat
      (idxD zero res.ClaimedValues (len res.ClaimedValues - 1)) (len res.ClaimedValues - 2)).1 = gEval add mul zero res.ClaimedValues γ :=
  eval_glue add mul zero res.ClaimedValues γ (KzgOpen_bls12_381.BatchOpenSinglePoint.loop3 zero add sub mul gzero multiExp res γ)
    (fun _ _ => rfl) (fun _ _ _ => rfl)

/-- the generated `BatchOpenSinglePoint`, every path: digest-count error; empty batch (ErrZeroNbDigests, /repo fix 51b9d00); size error (any polynomial empty or longer than the key); the claimed
values `rVals`; the error of `deriveGamma` handed on; the quotient of the folded polynomial (`rQuotArr`) committed by the generated `Commit`
(`H` = point at infinity when the quotient is empty) -/
theorem C11open_bls12_381_batch_ref (polys : List (List F)) (digests : List G) (point : F) (hf : Hash)
    (pk : KzgOpen_bls12_381.ProvingKey F G) (dt : List (List UInt8)) :
    KzgOpen_bls12_381.BatchOpenSinglePoint zero add sub mul gzero multiExp deriveGamma polys digests point hf pk dt =
      if len digests ≠ len polys then (⟨gzero, []⟩, KzgOpen_bls12_381.ErrInvalidNbDigests)
      else if len digests = 0 then (⟨gzero, []⟩, KzgOpen_bls12_381.ErrZeroNbDigests)
      else if (rSizes (len pk.G1) polys (-1)).2 = true then (⟨gzero, []⟩, KzgOpen_bls12_381.ErrInvalidPolynomialSize)
      else if (deriveGamma point digests (rVals zero (fun p => KzgOpen_bls12_381.eval zero add sub mul gzero multiExp p point) polys) hf dt).2 ≠ GoImp.Err.nil
        then (⟨gzero, []⟩, (deriveGamma point digests (rVals zero (fun p => KzgOpen_bls12_381.eval zero add sub mul gzero multiExp p point) polys) hf dt).2)
      else if len ((rQuotArr zero add sub mul polys (rVals zero (fun p => KzgOpen_bls12_381.eval zero add sub mul gzero multiExp p point) polys)
            (deriveGamma point digests (rVals zero (fun p => KzgOpen_bls12_381.eval zero add sub mul gzero multiExp p point) polys) hf dt).1 point
            (rSizes (len pk.G1) polys (-1)).1).drop 1) > 0 then
        if (KzgOpen_bls12_381.Commit zero add sub mul gzero multiExp
            ((rQuotArr zero add sub mul polys (rVals zero (fun p => KzgOpen_bls12_381.eval zero add sub mul gzero multiExp p point) polys)
              (deriveGamma point digests (rVals zero (fun p => KzgOpen_bls12_381.eval zero add sub mul gzero multiExp p point) polys) hf dt).1 point
              (rSizes (len pk.G1) polys (-1)).1).drop 1) pk []).2 ≠ GoImp.Err.nil
        then (⟨gzero, []⟩, (KzgOpen_bls12_381.Commit zero add sub mul gzero multiExp
            ((rQuotArr zero add sub mul polys (rVals zero (fun p => KzgOpen_bls12_381.eval zero add sub mul gzero multiExp p point) polys)
              (deriveGamma point digests (rVals zero (fun p => KzgOpen_bls12_381.eval zero add sub mul gzero multiExp p point) polys) hf dt).1 point
              (rSizes (len pk.G1) polys (-1)).1).drop 1) pk []).2)
        else (⟨(KzgOpen_bls12_381.Commit zero add sub mul gzero multiExp
            ((rQuotArr zero add sub mul polys (rVals zero (fun p => KzgOpen_bls12_381.eval zero add sub mul gzero multiExp p point) polys)
              (deriveGamma point digests (rVals zero (fun p => KzgOpen_bls12_381.eval zero add sub mul gzero multiExp p point) polys) hf dt).1 point
              (rSizes (len pk.G1) polys (-1)).1).drop 1) pk []).1,
            rVals zero (fun p => KzgOpen_bls12_381.eval zero add sub mul gzero multiExp p point) polys⟩, GoImp.Err.nil)
      else (⟨gzero, rVals zero (fun p => KzgOpen_bls12_381.eval zero add sub mul gzero multiExp p point) polys⟩, GoImp.Err.nil) := by
  by_cases h1 : len digests ≠ len polys
  · simp only [KzgOpen_bls12_381.BatchOpenSinglePoint, if_pos h1]
  · have h1' : len digests = len polys := by simpa using h1
    by_cases h0 : len digests = 0
    · simp only [KzgOpen_bls12_381.BatchOpenSinglePoint, if_neg h1, if_pos h0]
    simp only [KzgOpen_bls12_381.BatchOpenSinglePoint, if_neg h1, if_neg h0, C11open_bls12_381_batch_loop1]
    by_cases h2 : (rSizes (len pk.G1) polys (-1)).2 = true
    · simp only [if_pos h2]
    · simp only [if_neg h2, C11open_bls12_381_batch_loop2, C11open_bls12_381_batch_loop4, C11open_bls12_381_batch_loop5, C11open_bls12_381_divide_ref]
      have hv : (rLoop2 (fun p => KzgOpen_bls12_381.eval zero add sub mul gzero multiExp p point) polys (len polys - 0).toNat
          (List.replicate (len polys).toNat zero) 0).1 = rVals zero (fun p => KzgOpen_bls12_381.eval zero add sub mul gzero multiExp p point) polys := rfl
      simp only [hv]
      generalize hvals : rVals zero (fun p => KzgOpen_bls12_381.eval zero add sub mul gzero multiExp p point) polys = vals
      have hvl : len digests = len vals := by
        rw [h1', ← hvals]; simp only [len_eq, rVals_length]
      rcases hg : deriveGamma point digests vals hf dt with ⟨γ, e⟩
      by_cases h3 : e ≠ GoImp.Err.nil
      · simp only [if_pos h3]
      · simp only [if_neg h3, hvl]
        have h3' := C11open_bls12_381_batch_loop3 zero add sub mul gzero multiExp ⟨gzero, vals⟩ γ
        simp only [] at h3'
        rw [h3']
        rfl

end Batch

/-! ### over any commutative ring: Horner and the quotient identity -/
section Ring
variable {R G : Type} [CommRing R] (gzero : G) (multiExp : G → List G → List R → KzgOpen_bls12_381.MultiExpConfig → G × GoImp.Err)

/-- the generated `eval` is polynomial evaluation, for every coefficient list over every commutative ring -/
theorem C11open_bls12_381_eval_ring (p : List R) (x : R) :
    KzgOpen_bls12_381.eval 0 (· + ·) (· - ·) (· * ·) gzero multiExp p x = (toPoly p).eval x := by
  rw [C11open_bls12_381_eval_ref, gEval_ring]

/-- the generated `dividePolyByXminusA` on every non-empty list and arbitrary `fa`: `f − fa = (X − a)·result + (f(a) − fa)`; the
overwritten caller array is `remainder :: result` and keeps its length -/
theorem C11open_bls12_381_divide_ring (f : List R) (fa a : R) (hf : f ≠ []) :
    toPoly f - C fa = (X - C a) * toPoly (KzgOpen_bls12_381.dividePolyByXminusA 0 (· + ·) (· - ·) (· * ·) gzero multiExp f fa a).2
      + C ((toPoly f).eval a - fa) ∧
    (KzgOpen_bls12_381.dividePolyByXminusA 0 (· + ·) (· - ·) (· * ·) gzero multiExp f fa a).1
      = ((toPoly f).eval a - fa) :: (KzgOpen_bls12_381.dividePolyByXminusA 0 (· + ·) (· - ·) (· * ·) gzero multiExp f fa a).2 ∧
    (KzgOpen_bls12_381.dividePolyByXminusA 0 (· + ·) (· - ·) (· * ·) gzero multiExp f fa a).1.length = f.length := by
  rw [C11open_bls12_381_divide_ref]
  obtain ⟨h1, h2⟩ := gDivide_poly f fa a hf
  have hl := gDivide_length (· + ·) (· - ·) (· * ·) (0 : R) f fa a
  refine ⟨by simpa [List.drop_one] using h1, ?_, hl⟩
  simp only [List.drop_one]
  cases hg : gDivide (· + ·) (· - ·) (· * ·) (0 : R) f fa a with
  | nil => rw [hg] at hl; cases f with
    | nil => exact absurd rfl hf
    | cons c cs => simp at hl
  | cons y ys => rw [hg] at h2; simp at h2; simp [h2]

/-- the quotient identity of the generated code: with the generated `eval` as claimed value, `f − f(a) = (X − a)·h`
for every non-empty polynomial and every `a` -/
theorem C11open_bls12_381_quotient_identity (f : List R) (a : R) (hf : f ≠ []) :
    toPoly f - C ((toPoly f).eval a) = (X - C a) * toPoly (KzgOpen_bls12_381.dividePolyByXminusA 0 (· + ·) (· - ·) (· * ·) gzero multiExp f
      (KzgOpen_bls12_381.eval 0 (· + ·) (· - ·) (· * ·) gzero multiExp f a) a).2 := by
  have h := (C11open_bls12_381_divide_ring gzero multiExp f ((toPoly f).eval a) a hf).1
  rw [C11open_bls12_381_eval_ring]
  simpa using h

example : KzgOpen_bls12_381.eval (F := ℤ) (G := Unit) 0 (· + ·) (· - ·) (· * ·) () (fun _ _ _ _ => ((), GoImp.Err.nil)) [1, 2, 3] 5 = 86 := by decide
example : KzgOpen_bls12_381.dividePolyByXminusA (F := ℤ) (G := Unit) 0 (· + ·) (· - ·) (· * ·) () (fun _ _ _ _ => ((), GoImp.Err.nil)) [1, 2, 3] 17 2
    = ([0, 8, 3], [8, 3]) := by decide   -- 3X² + 2X + 1 − 17 = (X − 2)(3X + 8)

end Ring

/-! ### in the exponent model: the generated code IS Model/KZG.lean -/
section Model
variable (r : ℕ) [NeZero r] (multiExp : ℕ → List ℕ → List ℕ → KzgOpen_bls12_381.MultiExpConfig → ℕ × GoImp.Err)

/-- generated `eval` = `Model.KZG.eval` on reduced coefficients (field elements) -/
theorem C11open_bls12_381_eval_model (p : List ℕ) (x : ℕ) (hp : ∀ c ∈ p, c < r) :
    KzgOpen_bls12_381.eval 0 (addm r) (subm r) (mulm r) 0 multiExp p x = KZG.eval r p x := by
  rw [C11open_bls12_381_eval_ref, gEval_model r p x hp]

/-- generated `dividePolyByXminusA` (its result `f[1:]`) = `Model.KZG.dividePolyByXminusA`, every input -/
theorem C11open_bls12_381_divide_model (f : List ℕ) (fa a : ℕ) :
    (KzgOpen_bls12_381.dividePolyByXminusA 0 (addm r) (subm r) (mulm r) 0 multiExp f fa a).2 = KZG.dividePolyByXminusA r f fa a := by
  rw [C11open_bls12_381_divide_ref, gDivide_model]

/-- generated `Commit` = `Model.KZG.commit` (every input, both error cases) -/
theorem C11open_bls12_381_commit_model
    (hm : ∀ recv pts sc cfg, pts.length = sc.length → multiExp recv pts sc cfg = (msm r pts sc, GoImp.Err.nil))
    (p pk : List ℕ) (nb : List Int) :
    KzgOpen_bls12_381.Commit 0 (addm r) (subm r) (mulm r) 0 multiExp p ⟨pk⟩ nb =
      match commit r p pk with
      | .ok c => (c, GoImp.Err.nil)
      | .error _ => (0, KzgOpen_bls12_381.ErrInvalidPolynomialSize) := by
  rw [C11open_bls12_381_commit_abstract 0 (addm r) (subm r) (mulm r) 0 multiExp (msm r) hm]
  unfold commit
  by_cases h : p.length = 0 ∨ p.length > pk.length
  · simp only [if_pos h]
  · simp only [if_neg h]

/-- generated `Open` = `Model.KZG.openAt` (reduced coefficients; every error case; constants give `H = 0`, the identity) -/
theorem C11open_bls12_381_open_model
    (hm : ∀ recv pts sc cfg, pts.length = sc.length → multiExp recv pts sc cfg = (msm r pts sc, GoImp.Err.nil))
    (p pk : List ℕ) (z : ℕ) (hp : ∀ c ∈ p, c < r) :
    KzgOpen_bls12_381.Open 0 (addm r) (subm r) (mulm r) 0 multiExp p z ⟨pk⟩ =
      match openAt r p z pk with
      | .ok (H, v) => (⟨H, v⟩, GoImp.Err.nil)
      | .error _ => (⟨0, 0⟩, KzgOpen_bls12_381.ErrInvalidPolynomialSize) := by
  rw [C11open_bls12_381_open_abstract 0 (addm r) (subm r) (mulm r) 0 multiExp (msm r) hm]
  unfold openAt
  by_cases h : p.length = 0 ∨ p.length > pk.length
  · simp only [if_pos h]
  · simp only [if_neg h, gEval_model r p z hp, gDivide_model]
    have hl : (dividePolyByXminusA r p (KZG.eval r p z) z).length = p.length - 1 := divide_length r _ _ _
    unfold commitQuotient commit
    by_cases hz : (dividePolyByXminusA r p (KZG.eval r p z) z).length = 0
    · simp only [if_pos hz]
    · have hc : ¬ ((dividePolyByXminusA r p (KZG.eval r p z) z).length = 0 ∨
          (dividePolyByXminusA r p (KZG.eval r p z) z).length > pk.length) := by omega
      simp only [if_neg hz, if_neg hc]

example : let o := KzgOpen_bls12_381.Open 0 (addm 13) (subm 13) (mulm 13) 0 (mexp 13 GoImp.Err.nil (GoImp.Err.sentinel "MultiExp")) [1, 2, 3] 2 ⟨powers 13 5 1 4⟩
    o.1.H = msm 13 [1, 5] [8, 3] ∧ o.1.ClaimedValue = 4 ∧ o.2 = GoImp.Err.nil := by decide
example : let o := KzgOpen_bls12_381.Open 0 (addm 13) (subm 13) (mulm 13) 0 (mexp 13 GoImp.Err.nil (GoImp.Err.sentinel "MultiExp")) [7] 3 ⟨powers 13 5 1 4⟩
    o.1.H = 0 ∧ o.1.ClaimedValue = 7 ∧ o.2 = GoImp.Err.nil := by decide
example : (KzgOpen_bls12_381.Open 0 (addm 13) (subm 13) (mulm 13) 0 (mexp 13 GoImp.Err.nil (GoImp.Err.sentinel "MultiExp")) [1, 2, 3] 2 ⟨[1, 5]⟩).2
    = KzgOpen_bls12_381.ErrInvalidPolynomialSize := by decide

/-- COMPLETENESS of the translated Go text: for every SRS size ≥ 2, every trapdoor, every non-empty polynomial with reduced coefficients that
fits the SRS and every point, the generated `Commit` and the generated `Open` return no error, the claimed value is `p(z)` and the
generated `Verify` (Gen/Verifier/Kzg_bls12_381.lean, read in the exponent model) returns nil. The SRS is the hand model's (`NewSRS` is not
translated). -/
theorem C11open_bls12_381_completeness
    (hm : ∀ recv pts sc cfg, pts.length = sc.length → multiExp recv pts sc cfg = (msm r pts sc, GoImp.Err.nil))
    (size τ z : ℕ) (p : List ℕ) (hsize : 2 ≤ size) (h1 : p ≠ []) (h2 : p.length ≤ size) (hp : ∀ c ∈ p, c < r) :
    ∃ srs, newSRS r size τ = .ok srs ∧
      (KzgOpen_bls12_381.Commit 0 (addm r) (subm r) (mulm r) 0 multiExp p ⟨srs.pk⟩ []).2 = GoImp.Err.nil ∧
      (KzgOpen_bls12_381.Open 0 (addm r) (subm r) (mulm r) 0 multiExp p z ⟨srs.pk⟩).2 = GoImp.Err.nil ∧
      (((KzgOpen_bls12_381.Open 0 (addm r) (subm r) (mulm r) 0 multiExp p z ⟨srs.pk⟩).1.ClaimedValue : ℕ) : ZMod r)
        = (toPolyN r p).eval (z : ZMod r) ∧
      kzg_bls12_381.Verify (G := Ex r) (G2 := Unit) (S := Ex r) (L := ℕ × ℕ) Ex.toInt (pcFixed r)
        ⟨(KzgOpen_bls12_381.Commit 0 (addm r) (subm r) (mulm r) 0 multiExp p ⟨srs.pk⟩ []).1⟩
        ⟨(KzgOpen_bls12_381.Open 0 (addm r) (subm r) (mulm r) 0 multiExp p z ⟨srs.pk⟩).1.H⟩
        ⟨(KzgOpen_bls12_381.Open 0 (addm r) (subm r) (mulm r) 0 multiExp p z ⟨srs.pk⟩).1.ClaimedValue⟩ ⟨z⟩ () ()
        ⟨srs.vk.g1⟩ srs.vk.g2 = Res.ok := by
  obtain ⟨srs, c, H, v, hs, hc, ho, hv, hver⟩ := C11_completeness r size τ z p hsize h1 h2
  refine ⟨srs, hs, ?_⟩
  rw [C11open_bls12_381_commit_model r multiExp hm, C11open_bls12_381_open_model r multiExp hm p srs.pk z hp, hc, ho]
  refine ⟨rfl, rfl, hv, ?_⟩
  rw [C11gen_bls12_381_verify, resOfBool_ok]
  exact hver

/-- generated `BatchOpenSinglePoint` = `Model.KZG.batchOpenSinglePoint` for every list of polynomials with reduced coefficients and a
reduced challenge: the three error cases (number of digests, empty batch, size of any polynomial), the claimed values, and `H` = the commitment
of the quotient of the γ-folded polynomial (the point at infinity when every polynomial is constant). `deriveGamma` returns the challenge γ without
error (hypothesis `hdg`; it is an uninterpreted parameter, its error is handed on: `C11open_bls12_381_batch_ref`). -/
theorem C11open_bls12_381_batch_model
    (hm : ∀ recv pts sc cfg, pts.length = sc.length → multiExp recv pts sc cfg = (msm r pts sc, GoImp.Err.nil))
    (deriveGamma : ℕ → List ℕ → List ℕ → Hash → List (List UInt8) → ℕ × GoImp.Err) (γ : ℕ)
    (polys : List (List ℕ)) (digests pk : List ℕ) (z : ℕ) (hf : Hash) (dt : List (List UInt8))
    (hdg : ∀ vals, deriveGamma z digests vals hf dt = (γ, GoImp.Err.nil))
    (hp : ∀ p ∈ polys, ∀ c ∈ p, c < r) (hγ : γ < r) :
    KzgOpen_bls12_381.BatchOpenSinglePoint 0 (addm r) (subm r) (mulm r) 0 multiExp deriveGamma polys digests z hf ⟨pk⟩ dt =
      match batchOpenSinglePoint r γ polys digests.length z pk with
      | .ok (H, vals) => (⟨H, vals⟩, GoImp.Err.nil)
      | .error .nbDigests => (⟨0, []⟩, KzgOpen_bls12_381.ErrInvalidNbDigests)
      | .error .zeroDigests => (⟨0, []⟩, KzgOpen_bls12_381.ErrZeroNbDigests)
      | .error _ => (⟨0, []⟩, KzgOpen_bls12_381.ErrInvalidPolynomialSize) := by
  rw [C11open_bls12_381_batch_ref]
  unfold batchOpenSinglePoint
  have hpk : len (KzgOpen_bls12_381.ProvingKey.mk (F := ℕ) (G := ℕ) pk).G1 = ((pk.length : ℕ) : Int) := rfl
  by_cases h1 : digests.length ≠ polys.length
  · have h1' : len digests ≠ len polys := by simp only [len_eq]; omega
    simp only [if_pos h1', if_pos h1]
  · have h1' : ¬ (len digests ≠ len polys) := by simp only [len_eq]; omega
    by_cases hne : polys = []
    · subst hne
      have hd : digests = [] := List.eq_nil_of_length_eq_zero (by simpa using h1)
      subst hd
      simp [len]
    have h0 : ¬ (len digests = 0) := by
      have : polys.length ≠ 0 := by simpa using hne
      simp only [len_eq]; omega
    simp only [if_neg h1', if_neg h1, if_neg h0, hpk]
    have hbad := rSizes_bad_iff (pk.length) polys (-1)
    by_cases h2 : (rSizes ((pk.length : ℕ) : Int) polys (-1)).2 = true
    · have hany : (polys.any fun p => decide (p.length = 0 ∨ p.length > pk.length)) = true := by
        simpa [List.any_eq_true] using hbad.1 h2
      simp only [if_pos h2, hany, if_true]
    · have hany : ¬ ((polys.any fun p => decide (p.length = 0 ∨ p.length > pk.length)) = true) := by
        intro ha; apply h2; apply hbad.2; simpa [List.any_eq_true] using ha
      have h2f : (rSizes ((pk.length : ℕ) : Int) polys (-1)).2 = false := by simpa using h2
      have hl0 : ¬ (polys.length = 0) := by simpa using hne
      have hev : (fun p => KzgOpen_bls12_381.eval 0 (addm r) (subm r) (mulm r) 0 multiExp p z) = fun p => gEval (addm r) (mulm r) 0 p z := by
        funext p; exact C11open_bls12_381_eval_ref 0 (addm r) (subm r) (mulm r) 0 multiExp p z
      simp only [if_neg h2, if_neg hany, if_neg hl0, hev, rVals_model r polys z hp, hdg, ne_eq, not_true_eq_false, if_false]
      obtain ⟨p0, rest, rfl⟩ := List.exists_cons_of_ne_nil hne
      have hq := rQuotArr_model r p0 rest γ z pk.length hp hγ h2f
      have hql := congrArg List.length hq
      rw [List.length_drop, rQuotArr_length] at hql
      have hle := rSizes_le ((pk.length : ℕ) : Int) (p0 :: rest) (-1) (by omega) h2f
      rw [hq]
      generalize KZG.dividePolyByXminusA r
          (foldPolys r ((p0 :: rest).foldl (fun m p => max m p.length) 0) (p0 :: rest) (powers r γ (γ % r) (p0 :: rest).length))
          (foldEvals r γ ((p0 :: rest).map (fun p => KZG.eval r p z))) z = q at hql ⊢
      have hqk : q.length ≤ pk.length := by omega
      unfold commitQuotient commit
      by_cases hz : q.length = 0
      · have hz' : ¬ (len q > 0) := by simp only [len_eq]; omega
        simp only [if_neg hz', if_pos hz]
      · have hz' : len q > 0 := by simp only [len_eq]; omega
        have hc : ¬ (q.length = 0 ∨ q.length > pk.length) := by omega
        simp only [if_pos hz', if_neg hz, if_neg hc, C11open_bls12_381_commit_abstract 0 (addm r) (subm r) (mulm r) 0 multiExp (msm r) hm]
        simp

/-- COMPLETENESS of the batched opening of the translated Go text, two polynomials: for every SRS size, trapdoor, point and challenge γ, the
generated `Commit`s, the generated `BatchOpenSinglePoint` (no error, claimed values `pᵢ(z)`) and the generated `BatchVerifySinglePoint`
(Gen/Verifier/Kzg_bls12_381.lean at 2 digests, exponent model, same γ) accept. Polynomials of different lengths and constants included. -/
theorem C11open_bls12_381_batch_completeness_k2
    (hm : ∀ recv pts sc cfg, pts.length = sc.length → multiExp recv pts sc cfg = (msm r pts sc, GoImp.Err.nil))
    (deriveGamma : ℕ → List ℕ → List ℕ → Hash → List (List UInt8) → ℕ × GoImp.Err) (γ size τ z : ℕ) (p0 p1 : List ℕ)
    (hf : Hash) (dt : List (List UInt8))
    (hdg : ∀ digests vals, deriveGamma z digests vals hf dt = (γ, GoImp.Err.nil))
    (hs : ∀ p ∈ [p0, p1], p ≠ [] ∧ p.length ≤ size) (hp : ∀ p ∈ [p0, p1], ∀ c ∈ p, c < r) (hγ : γ < r) :
    (KzgOpen_bls12_381.BatchOpenSinglePoint 0 (addm r) (subm r) (mulm r) 0 multiExp deriveGamma [p0, p1]
        [(KzgOpen_bls12_381.Commit 0 (addm r) (subm r) (mulm r) 0 multiExp p0 ⟨powers r τ (1 % r) size⟩ []).1,
         (KzgOpen_bls12_381.Commit 0 (addm r) (subm r) (mulm r) 0 multiExp p1 ⟨powers r τ (1 % r) size⟩ []).1] z hf ⟨powers r τ (1 % r) size⟩ dt).2
      = GoImp.Err.nil ∧
    (KzgOpen_bls12_381.BatchOpenSinglePoint 0 (addm r) (subm r) (mulm r) 0 multiExp deriveGamma [p0, p1]
        [(KzgOpen_bls12_381.Commit 0 (addm r) (subm r) (mulm r) 0 multiExp p0 ⟨powers r τ (1 % r) size⟩ []).1,
         (KzgOpen_bls12_381.Commit 0 (addm r) (subm r) (mulm r) 0 multiExp p1 ⟨powers r τ (1 % r) size⟩ []).1] z hf ⟨powers r τ (1 % r) size⟩ dt).1.ClaimedValues
      = [KZG.eval r p0 z, KZG.eval r p1 z] ∧
    kzg_bls12_381.BatchVerifySinglePoint_k2 (G := Ex r) (G2 := Unit) (S := Ex r) (L := ℕ × ℕ) Ex.toInt (fun _ _ _ => ⟨γ⟩) false (pcFixed r)
      ⟨(KzgOpen_bls12_381.Commit 0 (addm r) (subm r) (mulm r) 0 multiExp p0 ⟨powers r τ (1 % r) size⟩ []).1⟩
      ⟨(KzgOpen_bls12_381.Commit 0 (addm r) (subm r) (mulm r) 0 multiExp p1 ⟨powers r τ (1 % r) size⟩ []).1⟩
      ⟨(KzgOpen_bls12_381.BatchOpenSinglePoint 0 (addm r) (subm r) (mulm r) 0 multiExp deriveGamma [p0, p1]
        [(KzgOpen_bls12_381.Commit 0 (addm r) (subm r) (mulm r) 0 multiExp p0 ⟨powers r τ (1 % r) size⟩ []).1,
         (KzgOpen_bls12_381.Commit 0 (addm r) (subm r) (mulm r) 0 multiExp p1 ⟨powers r τ (1 % r) size⟩ []).1] z hf ⟨powers r τ (1 % r) size⟩ dt).1.H⟩
      ⟨KZG.eval r p0 z⟩ ⟨KZG.eval r p1 z⟩ ⟨z⟩ () () ⟨(vkOf r τ).g1⟩ (vkOf r τ).g2 = Res.ok := by
  obtain ⟨c0, hc0, _⟩ := commit_srs r τ size p0 (hs p0 (by simp)).1 (hs p0 (by simp)).2
  obtain ⟨c1, hc1, _⟩ := commit_srs r τ size p1 (hs p1 (by simp)).1 (hs p1 (by simp)).2
  have hcs : List.Forall₂ (fun p c => commit r p (powers r τ (1 % r) size) = .ok c) [p0, p1] [c0, c1] :=
    .cons hc0 (.cons hc1 .nil)
  obtain ⟨H, vals, hbo, _, hver⟩ := C11_batchOpen_complete r γ τ z size [p0, p1] [c0, c1] (by simp) hs hcs
  have hvals := batchOpen_ok_vals r γ [p0, p1] _ z _ H vals hbo
  simp only [List.map_cons, List.map_nil] at hvals
  subst hvals
  simp only [C11open_bls12_381_commit_model r multiExp hm, hc0, hc1]
  rw [C11open_bls12_381_batch_model r multiExp hm deriveGamma γ [p0, p1] [c0, c1] _ z hf dt (hdg _) hp hγ]
  simp only [List.length_cons, List.length_nil] at hbo ⊢
  rw [hbo]
  refine ⟨rfl, rfl, ?_⟩
  rw [C11gen_bls12_381_batchSingle_k2]
  simp only [hver, resOfVerdict, resOfBool, if_true]

example : ∃ (multiExp : ℕ → List ℕ → List ℕ → KzgOpen_bls12_381.MultiExpConfig → ℕ × GoImp.Err)
    (deriveGamma : ℕ → List ℕ → List ℕ → Hash → List (List UInt8) → ℕ × GoImp.Err),
    (∀ recv pts sc cfg, pts.length = sc.length → multiExp recv pts sc cfg = (msm 13 pts sc, GoImp.Err.nil)) ∧
    (∀ vals, deriveGamma 2 [0, 0] vals {} [] = (3, GoImp.Err.nil)) ∧
    ([[1, 2, 3], [4, 5]] ≠ ([] : List (List ℕ)) ∧ (∀ p ∈ [[1, 2, 3], [4, 5]], ∀ c ∈ p, c < 13) ∧ 3 < 13) :=
  ⟨mexp 13 GoImp.Err.nil (GoImp.Err.sentinel "MultiExp"), fun _ _ _ _ _ => (3, GoImp.Err.nil), fun _ _ _ _ h => by simp [mexp, h],
    fun _ => rfl, by decide⟩
example : let o := (KzgOpen_bls12_381.BatchOpenSinglePoint 0 (addm 13) (subm 13) (mulm 13) 0 (mexp 13 GoImp.Err.nil (GoImp.Err.sentinel "MultiExp"))
      (fun _ _ _ _ _ => (3, GoImp.Err.nil)) [[1, 2, 3], [4, 5]] [0, 0] 2 {} ⟨powers 13 5 1 4⟩ [])
    o.1.ClaimedValues = [4, 1] ∧ o.2 = GoImp.Err.nil := by decide
example : (KzgOpen_bls12_381.BatchOpenSinglePoint 0 (addm 13) (subm 13) (mulm 13) 0 (mexp 13 GoImp.Err.nil (GoImp.Err.sentinel "MultiExp"))
      (fun _ _ _ _ _ => (3, GoImp.Err.nil)) [[1, 2, 3]] [0, 0] 2 {} ⟨powers 13 5 1 4⟩ []).2 = KzgOpen_bls12_381.ErrInvalidNbDigests := by decide

example : ∃ (multiExp : ℕ → List ℕ → List ℕ → KzgOpen_bls12_381.MultiExpConfig → ℕ × GoImp.Err),
    (∀ recv pts sc cfg, pts.length = sc.length → multiExp recv pts sc cfg = (msm 13 pts sc, GoImp.Err.nil)) ∧
    (2 ≤ 4 ∧ [1, 2, 3] ≠ ([] : List ℕ) ∧ [1, 2, 3].length ≤ 4 ∧ ∀ c ∈ [1, 2, 3], c < 13) :=
  ⟨mexp 13 GoImp.Err.nil (GoImp.Err.sentinel "MultiExp"), fun _ _ _ _ h => by simp [mexp, h], by decide⟩

end Model

end GV.C11open
