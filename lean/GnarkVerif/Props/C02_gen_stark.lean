import GnarkVerif.Proofs.CurveGen
import GnarkVerif.Gen.Curve.Stark_curveAlias
/-
C02 (tie T) — stark-curve G1 (y² = x³ + x + b, a = 1): /repo/ecc/stark-curve/g1.go.

Same statements as Props/C02_gen.lean, about the defs of `Gen/Curve/Stark_curve.lean` regenerated from the Go source on
every run. Differences of this package's Go code: the doubling formulas carry the a·Z⁴ term (M += ZZ²); the equal-point
branch of `AddMixed` doubles the receiver; `G1Affine.Add/Sub` go through Jacobian coordinates; `G1Jac.Equal` compares the
affine forms; there is no `DoubleMixed` / affine `Double`.
`g1JacExtended.doubleMixed` (and `doubleNegMixed`) used to add the square of the RECEIVER's stale ZZ instead of a = 1 (a finding
of this check, repaired in /repo by the `fix:` commit 09230d9): the regenerated def now takes `aCurveCoeff`, and `addMixed` is
proved for ALL operands when aCurveCoeff = 1.
-/
set_option linter.unusedSectionVars false
set_option linter.unusedVariables false
namespace GV.Gen.Curve.stark_curve
open GV.Curve GV.C02 GV.CurveGen WeierstrassCurve

variable {F : Type} [Field F] [DecidableEq F]

def G1Jac.Rep (b : F) (p : G1Jac F) (P : (sw 1 b).Point) : Prop := JacPt 1 b p.X p.Y p.Z P
def G1Affine.Rep (b : F) (p : G1Affine F) (P : (sw 1 b).Point) : Prop := AffPt 1 b p.X p.Y P
def g1JacExtended.Rep (b : F) (p : g1JacExtended F) (P : (sw 1 b).Point) : Prop := XyzzPt 1 b p.X p.Y p.ZZ p.ZZZ P

def G1Jac.ofT (t : F × F × F) : G1Jac F := ⟨t.1, t.2.1, t.2.2⟩
def G1Affine.ofT (t : F × F) : G1Affine F := ⟨t.1, t.2⟩
def g1JacExtended.ofT (t : F × F × F × F) : g1JacExtended F := ⟨t.1, t.2.1, t.2.2.1, t.2.2.2⟩

/-! ## bridge: generated def = total operation -/

theorem G1Affine.IsInfinity_iff (p : G1Affine F) : G1Affine.IsInfinity p = true ↔ (p.X = 0 ∧ p.Y = 0) := by
  simp only [G1Affine.IsInfinity, decide_eq_true_eq, Bool.and_eq_true]

theorem G1Jac.DoubleAssign_eq (p : G1Jac F) : G1Jac.DoubleAssign p = .ofT (jacDoubleStark p.X p.Y p.Z) := by
  gv_bridge [G1Jac.DoubleAssign, G1Jac.ofT, jacDoubleStark]

theorem G1Jac.Double_eq (q : G1Jac F) : (G1Jac.Double q).1 = .ofT (jacDoubleStark q.X q.Y q.Z) := by
  simp only [G1Jac.Double, G1Jac.Set, G1Jac.DoubleAssign_eq]

theorem G1Jac.AddAssign_eq (p q : G1Jac F) :
    (G1Jac.AddAssign p q).1 = .ofT (jacAddTW (jacDoubleStark p.X p.Y p.Z) p.X p.Y p.Z q.X q.Y q.Z) := by
  gv_bridge [G1Jac.AddAssign, jacAddTW, G1Jac.DoubleAssign_eq, G1Jac.Set, G1Jac.ofT, jacAddUS, jacAdd]

theorem G1Jac.AddMixed_eq (p : G1Jac F) (a : G1Affine F) :
    (G1Jac.AddMixed p a).1 = .ofT (jacAddMixedTW (jacDoubleStark p.X p.Y p.Z) p.X p.Y p.Z a.X a.Y) := by
  gv_bridge [G1Jac.AddMixed, jacAddMixedTW, G1Jac.DoubleAssign_eq, G1Affine.IsInfinity, G1Jac.ofT, jacAddMixedUS,
    jacAddMixed]

theorem G1Jac.SubAssign_eq (p q : G1Jac F) :
    (G1Jac.SubAssign p q).1 = .ofT (jacAddTW (jacDoubleStark p.X p.Y p.Z) p.X p.Y p.Z q.X (-q.Y) q.Z) := by
  simp only [G1Jac.SubAssign, G1Jac.Set, G1Jac.AddAssign_eq]

theorem G1Jac.Neg_eq (q : G1Jac F) : (G1Jac.Neg q).1 = ⟨q.X, -q.Y, q.Z⟩ := rfl

theorem G1Jac.FromAffine_eq (a : G1Affine F) : (G1Jac.FromAffine a).1 = .ofT (jacFromAffineT a.X a.Y) := by
  gv_bridge [G1Jac.FromAffine, jacFromAffineT, G1Affine.IsInfinity, G1Jac.ofT]

theorem G1Affine.FromJacobian_eq (p1 : G1Jac F) : (G1Affine.FromJacobian p1).1 = .ofT (fromJacobianT p1.X p1.Y p1.Z) := by
  gv_bridge [G1Affine.FromJacobian, fromJacobianT, fromJacobian, G1Affine.ofT]

theorem G1Jac.IsOnCurve_iff (p : G1Jac F) (b : F) : G1Jac.IsOnCurve p b = true ↔ jacIsOnCurveStark b p.X p.Y p.Z := by
  simp only [G1Jac.IsOnCurve, jacIsOnCurveStark, decide_eq_true_eq] <;>
    (constructor <;> intro h <;> linear_combination h)

theorem G1Affine.Neg_eq (a : G1Affine F) : (G1Affine.Neg a).1 = ⟨a.X, -a.Y⟩ := rfl

theorem G1Affine.Equal_iff (p a : G1Affine F) : G1Affine.Equal p a = true ↔ (p.X = a.X ∧ p.Y = a.Y) := by
  simp only [G1Affine.Equal, decide_eq_true_eq, Bool.and_eq_true]

theorem g1JacExtended.double_eq (q : g1JacExtended F) :
    (g1JacExtended.double q).1 = .ofT (xyzzDoubleStark q.X q.Y q.ZZ q.ZZZ) := by
  gv_bridge [g1JacExtended.double, g1JacExtended.ofT, xyzzDoubleStark]

theorem g1JacExtended.doubleMixed_eq (a : G1Affine F) (c : F) :
    (g1JacExtended.doubleMixed a c).1 = .ofT (xyzzDoubleMixedStark c a.X a.Y) := by
  gv_bridge [g1JacExtended.doubleMixed, g1JacExtended.ofT, xyzzDoubleMixedStark]

theorem g1JacExtended.add_eq (p q : g1JacExtended F) :
    (g1JacExtended.add p q).1 =
      .ofT (xyzzAddTW (xyzzDoubleStark q.X q.Y q.ZZ q.ZZZ) p.X p.Y p.ZZ p.ZZZ q.X q.Y q.ZZ q.ZZZ) := by
  gv_bridge [g1JacExtended.add, xyzzAddTW, g1JacExtended.double_eq, g1JacExtended.Set, g1JacExtended.ofT, xyzzAddAB, xyzzAdd]

theorem g1JacExtended.addMixed_eq (p : g1JacExtended F) (a : G1Affine F) (c : F) :
    (g1JacExtended.addMixed p a c).1 =
      .ofT (xyzzAddMixedTW (xyzzDoubleMixedStark c a.X a.Y) p.X p.Y p.ZZ p.ZZZ a.X a.Y) := by
  gv_bridge [g1JacExtended.addMixed, xyzzAddMixedTW, g1JacExtended.doubleMixed_eq, G1Affine.IsInfinity, g1JacExtended.ofT,
    xyzzAddMixedPR, xyzzAddMixed]

theorem G1Affine.fromJacExtended_eq (q : g1JacExtended F) :
    (G1Affine.fromJacExtended q).1 = .ofT (xyzzToAffineT q.X q.Y q.ZZ q.ZZZ) := by
  gv_bridge [G1Affine.fromJacExtended, xyzzToAffineT, xyzzToAffine, G1Affine.ofT]

theorem G1Jac.fromJacExtended_eq (q : g1JacExtended F) (inf : G1Jac F) :
    (G1Jac.fromJacExtended q inf).1 = .ofT (xyzzToJacT q.X q.Y q.ZZ q.ZZZ inf.X inf.Y inf.Z) := by
  gv_bridge [G1Jac.fromJacExtended, xyzzToJacT, xyzzToJac, G1Jac.Set, G1Jac.ofT]

/-! ## C02: the generated methods implement the group law of y² = x³ + x + b -/

section
variable {b : F} {P Q : (sw 1 b).Point}

theorem C02gen_G1Jac_DoubleAssign (hc : (2 : F) ≠ 0) {p : G1Jac F} (hp : p.Rep b P) :
    (G1Jac.DoubleAssign p).Rep b (P + P) := by
  rw [G1Jac.DoubleAssign_eq]; exact jacDoubleStark_total hc hp

theorem C02gen_G1Jac_Double (hc : (2 : F) ≠ 0) {q : G1Jac F} (hq : q.Rep b Q) : (G1Jac.Double q).1.Rep b (Q + Q) := by
  rw [G1Jac.Double_eq]; exact jacDoubleStark_total hc hq

theorem C02gen_G1Jac_AddAssign (hc : (2 : F) ≠ 0) {p q : G1Jac F} (hp : p.Rep b P) (hq : q.Rep b Q) :
    (G1Jac.AddAssign p q).1.Rep b (P + Q) := by
  rw [G1Jac.AddAssign_eq]; exact jacAddTW_correct hc hp hq (jacDoubleStark_total hc hp)

theorem C02gen_G1Jac_SubAssign (hc : (2 : F) ≠ 0) {p q : G1Jac F} (hp : p.Rep b P) (hq : q.Rep b Q) :
    (G1Jac.SubAssign p q).1.Rep b (P - Q) := by
  rw [G1Jac.SubAssign_eq, sub_eq_add_neg]
  exact jacAddTW_correct hc hp (JacPt.neg hq) (jacDoubleStark_total hc hp)

/-- `G1Jac.AddMixed`; the equal-point branch doubles the receiver p -/
theorem C02gen_G1Jac_AddMixed (hc : (2 : F) ≠ 0) {p : G1Jac F} {a : G1Affine F} (hp : p.Rep b P) (ha : a.Rep b Q) :
    (G1Jac.AddMixed p a).1.Rep b (P + Q) := by
  rw [G1Jac.AddMixed_eq]
  exact jacAddMixedTW_correct hc hp ha (fun h => h ▸ jacDoubleStark_total hc hp)

theorem C02gen_G1Jac_Neg {q : G1Jac F} (hq : q.Rep b Q) : (G1Jac.Neg q).1.Rep b (-Q) := JacPt.neg hq

theorem C02gen_G1Jac_FromAffine {a : G1Affine F} (ha : a.Rep b Q) : (G1Jac.FromAffine a).1.Rep b Q := by
  rw [G1Jac.FromAffine_eq]; exact jacFromAffineT_correct ha

theorem C02gen_G1Affine_FromJacobian (hb : b ≠ 0) {p : G1Jac F} (hp : p.Rep b P) :
    (G1Affine.FromJacobian p).1.Rep b P := by
  rw [G1Affine.FromJacobian_eq]; exact fromJacobianT_correct hb hp

/-- `G1Affine.Add` = FromJacobian ∘ AddAssign ∘ FromAffine (`Sub`: SubAssign) -/
theorem C02gen_G1Affine_Add (hc : (2 : F) ≠ 0) (hb : b ≠ 0) {x y : G1Affine F} (hx : x.Rep b P) (hy : y.Rep b Q) :
    (G1Affine.Add x y).1.Rep b (P + Q) := by
  simp only [G1Affine.Add]
  exact C02gen_G1Affine_FromJacobian hb (C02gen_G1Jac_AddAssign hc (C02gen_G1Jac_FromAffine hx) (C02gen_G1Jac_FromAffine hy))

theorem C02gen_G1Affine_Neg {a : G1Affine F} (ha : a.Rep b Q) : (G1Affine.Neg a).1.Rep b (-Q) := AffPt.neg ha

theorem C02gen_G1Affine_Sub (hc : (2 : F) ≠ 0) (hb : b ≠ 0) {x y : G1Affine F} (hx : x.Rep b P) (hy : y.Rep b Q) :
    (G1Affine.Sub x y).1.Rep b (P - Q) := by
  simp only [G1Affine.Sub]
  exact C02gen_G1Affine_FromJacobian hb (C02gen_G1Jac_SubAssign hc (C02gen_G1Jac_FromAffine hx) (C02gen_G1Jac_FromAffine hy))

theorem C02gen_G1Affine_Equal {x y : G1Affine F} (hx : x.Rep b P) (hy : y.Rep b Q) :
    G1Affine.Equal x y = true ↔ P = Q := by
  rw [G1Affine.Equal_iff]; exact AffPt.eq_iff hx hy

/-- `G1Jac.Equal` (both infinite, or equal affine forms) decides equality of the group elements -/
theorem C02gen_G1Jac_Equal (hb : b ≠ 0) {p q : G1Jac F} (hp : p.Rep b P) (hq : q.Rep b Q) :
    G1Jac.Equal p q = true ↔ P = Q := by
  simp only [G1Jac.Equal, decide_eq_true_eq, Bool.and_eq_true]
  split_ifs with h
  · rw [hp.of_Z_zero h.1, hq.of_Z_zero h.2]; simp
  · exact C02gen_G1Affine_Equal (C02gen_G1Affine_FromJacobian hb hp) (C02gen_G1Affine_FromJacobian hb hq)

/-- `G1Jac.IsOnCurve p bCurveCoeff` -/
theorem C02gen_G1Jac_IsOnCurve (p : G1Jac F) {x y : F} (hr : JacRep p.X p.Y p.Z x y) :
    G1Jac.IsOnCurve p b = true ↔ (sw 1 b).Equation x y := by
  rw [G1Jac.IsOnCurve_iff]; exact C02_jacIsOnCurveStark_exact hr

/-! ### extended Jacobian (bucket) coordinates -/

theorem C02gen_g1JacExtended_double (hc : (2 : F) ≠ 0) {q : g1JacExtended F} (hq : q.Rep b Q) :
    (g1JacExtended.double q).1.Rep b (Q + Q) := by
  rw [g1JacExtended.double_eq]; exact xyzzDoubleStark_total hc hq

theorem C02gen_g1JacExtended_add (hc : (2 : F) ≠ 0) {p q : g1JacExtended F} (hp : p.Rep b P) (hq : q.Rep b Q) :
    (g1JacExtended.add p q).1.Rep b (P + Q) := by
  rw [g1JacExtended.add_eq]
  exact xyzzAddTW_correct hp hq (fun h => h.symm ▸ xyzzDoubleStark_total hc hq)

/-- `g1JacExtended.addMixed p a aCurveCoeff` with aCurveCoeff = 1, ALL operands (the equal-point branch doubles the affine
operand with the curve coefficient; before the `fix:` commit 09230d9 only P ≠ Q could be proved) -/
theorem C02gen_g1JacExtended_addMixed (hc : (2 : F) ≠ 0) {p : g1JacExtended F} {a : G1Affine F} (hp : p.Rep b P)
    (ha : a.Rep b Q) : (g1JacExtended.addMixed p a 1).1.Rep b (P + Q) := by
  rw [g1JacExtended.addMixed_eq]
  exact xyzzAddMixedTW_correct hp ha (fun h => by subst h; exact xyzzDoubleMixedStark_total hc ha)

/-- `g1JacExtended.doubleMixed a aCurveCoeff` with aCurveCoeff = 1 doubles the affine operand -/
theorem C02gen_g1JacExtended_doubleMixed (hc : (2 : F) ≠ 0) {a : G1Affine F} (ha : a.Rep b Q) :
    (g1JacExtended.doubleMixed a 1).1.Rep b (Q + Q) := by
  rw [g1JacExtended.doubleMixed_eq]; exact xyzzDoubleMixedStark_total hc ha

theorem C02gen_G1Affine_fromJacExtended (hb : b ≠ 0) {q : g1JacExtended F} (hq : q.Rep b Q) :
    (G1Affine.fromJacExtended q).1.Rep b Q := by
  rw [G1Affine.fromJacExtended_eq]; exact xyzzToAffineT_correct hb hq

theorem C02gen_G1Jac_fromJacExtended {q : g1JacExtended F} {inf : G1Jac F} (hi : inf.Z = 0) (hq : q.Rep b Q) :
    (G1Jac.fromJacExtended q inf).1.Rep b Q := by
  rw [G1Jac.fromJacExtended_eq]; exact xyzzToJacT_correct hi hq

end

/-! ### non-vacuity: y² = x³ + x + 2 over ℚ, P = (1, 2) -/
example : (sw 1 (2 : ℚ)).Nonsingular 1 2 := by
  rw [Affine.nonsingular_iff', Affine.equation_iff]; simp [sw]; norm_num

end GV.Gen.Curve.stark_curve
