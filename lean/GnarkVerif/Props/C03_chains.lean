import GnarkVerif.Proofs.Chain
import GnarkVerif.Gen.Chains.Curve
import GnarkVerif.Gen.CurveConsts
import Mathlib.Algebra.Group.Int.Defs
/- WRITTEN by bin/mkchains.py (generic part and per-package templates are in the script). DO NOT EDIT: edit the script and re-run it. -/
/-
C03 / C02 (tie T for the seed-multiplication chains) — `mulBySeed` of G1Jac / G2Jac (ecc/<curve>/g1.go, g2.go; used by the
cofactor clearing and the subgroup membership tests), re-translated on every run by tools/goslp/chains.go into ADDITIVE chain
DATA (Gen/Chains/Curve.lean): `Double` / `DoubleAssign` (sq), `AddAssign` (mul), `SubAssign` / `Neg` (inv), `Set`,
literal-bound loops. Each is translated as p.mulBySeed(q) and as the in-place call p.mulBySeed(p).

(a) `C03_chain_addGroup` (once, for every chain): in every additive group, with `+`, doubling and negation,
    a chain with exponent reading `expoInt c = some k` computes `k • P`; `C03_chain_points`: the same through a
    representation relation (Jacobian triples representing points of the curve group), whose hypotheses are what Props/C02_gen
    proves for the translated `AddAssign` / `Double` / `Neg` formulas (`generated def = group operation` bridge lemmas);
(b) per curve by `decide +kernel` against the regenerated seed: `mulBySeed` multiplies by `xGen` = |x₀| (the callers handle
    the sign), for G1 and G2 of bn254, bls12-377, bls12-381, bw6-761; the other curves implement `mulBySeed` as
    `mulWindowed(q, &xGen)` (`C03_chains_windowed`: the list of those and the constant they pass).
-/
namespace GV.Chain

/-! ## (a) generic -/

section
variable {A : Type} [AddGroup A]

/-- the additive reading of the operations -/
def addGroupOps (A : Type) [AddGroup A] : Ops A :=
  { mul := (· + ·), sq := fun a => a + a, inv := fun a => -a, sqc := fun a => a + a, dec := id }

theorem C03_chain_points {T : Type} (o : Ops T) (rep : T → A → Prop)
    (hadd : ∀ a b P Q, rep a P → rep b Q → rep (o.mul a b) (P + Q))
    (hdbl : ∀ a P, rep a P → rep (o.sq a) (P + P))
    (hneg : ∀ a P, rep a P → rep (o.inv a) (-P))
    (hsqc : ∀ a P, rep a P → rep (o.sqc a) (P + P)) (hdec : ∀ a P, rep a P → rep (o.dec a) P)
    (c : Chain) (k : Int) (hk : expoInt c = some k) (x : T) (P : A) (hx : rep x P) :
    rep (eval o c x) (k • P) := by
  have S : Sim intDom o (fun t e => rep t (e • P)) (fun t e => rep t (e • P)) :=
    { weaken := fun _ _ h => h
      mul := by
        intro a b e f ha hb
        show rep (o.mul a b) ((e + f) • P)
        rw [add_zsmul]; exact hadd a b _ _ ha hb
      sq := by
        intro a e ha
        show rep (o.sq a) ((2 * e) • P)
        rw [Int.two_mul, add_zsmul]; exact hdbl a _ ha
      invF := by
        intro ng h a e ha; cases h
        show rep (o.inv a) ((-e) • P)
        rw [neg_zsmul]; exact hneg a _ ha
      invC := by
        intro ng h a e ha; cases h
        show rep (o.inv a) ((-e) • P)
        rw [neg_zsmul]; exact hneg a _ ha
      sqc := by
        intro a e ha
        show rep (o.sqc a) ((2 * e) • P)
        rw [Int.two_mul, add_zsmul]; exact hsqc a _ ha
      dec := fun a e ha => hdec a _ ha }
  exact S.eval_spec c k hk x (by show rep x ((1 : Int) • P); rw [one_zsmul]; exact hx)

theorem C03_chain_addGroup (c : Chain) (k : Int) (hk : expoInt c = some k) (P : A) :
    eval (addGroupOps A) c P = k • P :=
  C03_chain_points (addGroupOps A) (fun t Q => t = Q)
    (by intro a b P Q ha hb; subst ha; subst hb; rfl) (by intro a P ha; subst ha; rfl)
    (by intro a P ha; subst ha; rfl) (by intro a P ha; subst ha; rfl) (by intro a P ha; exact ha) c k hk P P rfl

end

/-- non-vacuity: 2P + P, doubled twice, minus P = 11·P, in ℤ -/
def toy11 : Chain := { nregs := 4, out := 1, steps := [.sq 2 0 1, .mul 2 2 0, .sq 2 2 2, .inv 3 0, .mul 2 2 3, .set 1 2] }
example : expoInt toy11 = some 11 := by decide
example (P : ℤ) : eval (addGroupOps ℤ) toy11 P = (11 : ℤ) • P := C03_chain_addGroup toy11 11 (by decide) P
example : eval (addGroupOps ℤ) toy11 7 = 77 := by decide

/-! ## (b) per curve -/

open GV.Gen.Chains.Curve
namespace bn254
/-- `g1 mulBySeed` multiplies by `xGen` = |x₀| -/
theorem g1_mulBySeed_expo : expoInt bn254.g1_mulBySeed = some GV.Gen.CurveConsts.bn254.xGen := by decide +kernel
/-- `g1 mulBySeed_inplace` multiplies by `xGen` = |x₀| -/
theorem g1_mulBySeed_inplace_expo : expoInt bn254.g1_mulBySeed_inplace = some GV.Gen.CurveConsts.bn254.xGen := by decide +kernel
/-- `g2 mulBySeed` multiplies by `xGen` = |x₀| -/
theorem g2_mulBySeed_expo : expoInt bn254.g2_mulBySeed = some GV.Gen.CurveConsts.bn254.xGen := by decide +kernel
/-- `g2 mulBySeed_inplace` multiplies by `xGen` = |x₀| -/
theorem g2_mulBySeed_inplace_expo : expoInt bn254.g2_mulBySeed_inplace = some GV.Gen.CurveConsts.bn254.xGen := by decide +kernel
end bn254

namespace bls12_377
/-- `g1 mulBySeed` multiplies by `xGen` = |x₀| -/
theorem g1_mulBySeed_expo : expoInt bls12_377.g1_mulBySeed = some GV.Gen.CurveConsts.bls12_377.xGen := by decide +kernel
/-- `g1 mulBySeed_inplace` multiplies by `xGen` = |x₀| -/
theorem g1_mulBySeed_inplace_expo : expoInt bls12_377.g1_mulBySeed_inplace = some GV.Gen.CurveConsts.bls12_377.xGen := by decide +kernel
/-- `g2 mulBySeed` multiplies by `xGen` = |x₀| -/
theorem g2_mulBySeed_expo : expoInt bls12_377.g2_mulBySeed = some GV.Gen.CurveConsts.bls12_377.xGen := by decide +kernel
/-- `g2 mulBySeed_inplace` multiplies by `xGen` = |x₀| -/
theorem g2_mulBySeed_inplace_expo : expoInt bls12_377.g2_mulBySeed_inplace = some GV.Gen.CurveConsts.bls12_377.xGen := by decide +kernel
end bls12_377

namespace bls12_381
/-- `g1 mulBySeed` multiplies by `xGen` = |x₀| -/
theorem g1_mulBySeed_expo : expoInt bls12_381.g1_mulBySeed = some GV.Gen.CurveConsts.bls12_381.xGen := by decide +kernel
/-- `g1 mulBySeed_inplace` multiplies by `xGen` = |x₀| -/
theorem g1_mulBySeed_inplace_expo : expoInt bls12_381.g1_mulBySeed_inplace = some GV.Gen.CurveConsts.bls12_381.xGen := by decide +kernel
/-- `g2 mulBySeed` multiplies by `xGen` = |x₀| -/
theorem g2_mulBySeed_expo : expoInt bls12_381.g2_mulBySeed = some GV.Gen.CurveConsts.bls12_381.xGen := by decide +kernel
/-- `g2 mulBySeed_inplace` multiplies by `xGen` = |x₀| -/
theorem g2_mulBySeed_inplace_expo : expoInt bls12_381.g2_mulBySeed_inplace = some GV.Gen.CurveConsts.bls12_381.xGen := by decide +kernel
end bls12_381

namespace bw6_761
/-- `g1 mulBySeed` multiplies by `xGen` = |x₀| -/
theorem g1_mulBySeed_expo : expoInt bw6_761.g1_mulBySeed = some GV.Gen.CurveConsts.bw6_761.xGen := by decide +kernel
/-- `g1 mulBySeed_inplace` multiplies by `xGen` = |x₀| -/
theorem g1_mulBySeed_inplace_expo : expoInt bw6_761.g1_mulBySeed_inplace = some GV.Gen.CurveConsts.bw6_761.xGen := by decide +kernel
/-- `g2 mulBySeed` multiplies by `xGen` = |x₀| -/
theorem g2_mulBySeed_expo : expoInt bw6_761.g2_mulBySeed = some GV.Gen.CurveConsts.bw6_761.xGen := by decide +kernel
/-- `g2 mulBySeed_inplace` multiplies by `xGen` = |x₀| -/
theorem g2_mulBySeed_inplace_expo : expoInt bw6_761.g2_mulBySeed_inplace = some GV.Gen.CurveConsts.bw6_761.xGen := by decide +kernel
end bw6_761

/-- the chains covered -/
theorem C03_chains_functions : GV.Gen.Chains.Curve.curveChains.map (fun e => (e.1, e.2.1)) = [("bn254", "g1_mulBySeed"), ("bn254", "g1_mulBySeed_inplace"), ("bn254", "g2_mulBySeed"), ("bn254", "g2_mulBySeed_inplace"), ("bls12_377", "g1_mulBySeed"), ("bls12_377", "g1_mulBySeed_inplace"), ("bls12_377", "g2_mulBySeed"), ("bls12_377", "g2_mulBySeed_inplace"), ("bls12_381", "g1_mulBySeed"), ("bls12_381", "g1_mulBySeed_inplace"), ("bls12_381", "g2_mulBySeed"), ("bls12_381", "g2_mulBySeed_inplace"), ("bw6_761", "g1_mulBySeed"), ("bw6_761", "g1_mulBySeed_inplace"), ("bw6_761", "g2_mulBySeed"), ("bw6_761", "g2_mulBySeed_inplace")] := by decide

/-- the `mulBySeed` that are `p.mulWindowed(q, &xGen)` (the generic windowed multiplication by the extracted constant `xGen`; C03 correspondence) -/
theorem C03_chains_windowed : GV.Gen.Chains.Curve.windowed = [("bls24_315", "g1", "xGen"), ("bls24_315", "g2", "xGen"), ("bls24_317", "g1", "xGen"), ("bls24_317", "g2", "xGen"), ("bw6_633", "g1", "xGen"), ("bw6_633", "g2", "xGen"), ("grumpkin", "g1", "xGen")] := by decide

end GV.Chain
