import GnarkVerif.Props.C01_limb_goldilocks
import Mathlib.Data.Nat.Bitwise
/-
C01_limb2 (goldilocks, one 64-bit word, no spare bit) — the remaining translated limb functions of field/goldilocks
(Gen/Limb/Goldilocks.lean, regenerated on every run) equal the value-level model on ALL canonical inputs:
`Double` (the top-bit test `x & 2^63` decides whether `2x` wrapped), `Halve` (the carry of `z + q` is re-injected as the top bit),
`fromMontGeneric` (one REDC round on the bare value), `reduceGeneric`.
-/
set_option maxRecDepth 100000
namespace GV.Limb.goldilocks
open GV.Field GV.Limb GV.Gen.Limb.goldilocks

theorem and_top (x : Nat) (hx : x < 18446744073709551616) :
    (x &&& 9223372036854775808 = 9223372036854775808) ↔ x ≥ 9223372036854775808 := by
  have h : (9223372036854775808 : Nat) = 2 ^ 63 := by decide
  rw [h, Nat.and_two_pow, Nat.testBit_eq_decide_div_mod_eq]
  by_cases c : x / 2 ^ 63 % 2 = 1
  · simp only [c, decide_true, Bool.toNat_true, Nat.one_mul, true_iff]; omega
  · simp only [c, decide_false, Bool.toNat_false, Nat.zero_mul]
    constructor
    · intro h0; exact absurd h0 (by decide)
    · intro h1; omega

theorem or_top (a : Nat) (ha : a < 9223372036854775808) : a ||| 9223372036854775808 = a + 9223372036854775808 := by
  have h1 : (9223372036854775808 : Nat) = 1 <<< 63 := by decide
  rw [h1, Nat.or_comm, ← Nat.shiftLeft_add_eq_or_of_lt (by omega)]; omega

/-- **C01_limb Double** (goldilocks): `2x` may wrap the word; the code tests the top bit of `x` -/
theorem Double_spec (x : Nat) (hx : x < P.q) :
    Gen.Limb.goldilocks.Double x = GV.Field.double P x := by
  unfold GV.Field.double reduceOnce
  rw [P_q] at hx ⊢
  have hx' : x < 18446744073709551616 := by omega
  have ht := and_top x hx'
  unfold Gen.Limb.goldilocks.Double
  limb_start
  by_cases htop : x ≥ 9223372036854775808
  · have c := ht.2 htop
    subst_ites [c]
    rw [if_pos (by omega)]
    omega
  · have c : ¬ (x &&& 9223372036854775808 = 9223372036854775808) := fun h => htop (ht.1 h)
    subst_ites [c]
    by_cases h : z0_1 ≥ 18446744069414584321
    · subst_ites [h]
      rw [if_pos (by omega)]; omega
    · subst_ites [h]
      rw [if_neg (by omega)]; omega
example := Double_spec 5 (by decide +kernel)
example := Double_spec 18446744069414584320 (by decide +kernel)

/-- **C01_limb Halve** (goldilocks): `z + q` may carry out of the word; the carry becomes the top bit after the shift -/
theorem Halve_spec (x : Nat) (hx : x < P.q) :
    Gen.Limb.goldilocks.Halve x = GV.Field.halve P x := by
  unfold GV.Field.halve
  rw [P_q] at hx ⊢
  unfold Gen.Limb.goldilocks.Halve
  limb_start
  by_cases h : x % 2 = 1
  · subst_ites [h]
    rw [if_pos h]
    rw [or_top _ (by omega)] at z0_4_def
    split at z0_5_def <;> omega
  · subst_ites [h]
    rw [if_neg h]
    first
      | (split at z0_5_def <;> omega)
      | omega
example := Halve_spec 5 (by decide +kernel)
example := Halve_spec 18446744069414584319 (by decide +kernel)

theorem reduceGeneric_spec (z : Nat) (hz : z < 18446744073709551616) :
    Gen.Limb.goldilocks.reduceGeneric z = GV.Field.reduceOnce P z := by
  unfold GV.Field.reduceOnce
  rw [P_q]
  unfold Gen.Limb.goldilocks.reduceGeneric
  limb_start
  by_cases h : z < 18446744069414584321
  · have h' : ¬ ¬ z < 18446744069414584321 := fun c => c h
    subst_ites [h']
    rw [if_neg (by omega)]
  · subst_ites [h]
    rw [if_pos (by omega)]
    omega

/-- **C01_limb fromMont** (goldilocks): one REDC round on the bare value, then `reduce` -/
theorem fromMontGeneric_spec (z : Nat) (hz : z < P.q) :
    Gen.Limb.goldilocks.fromMontGeneric z = GV.Field.fromMont P z := by
  have hq := P_q
  have key : ∃ R m, m < 18446744073709551616 ∧ R * 18446744073709551616 = z * 1 + m * 18446744069414584321 ∧ R < 18446744073709551616 ∧
      Gen.Limb.goldilocks.fromMontGeneric_s0 z = R := by
    rw [hq] at hz
    unfold Gen.Limb.goldilocks.fromMontGeneric_s0
    limb_start
    refine ⟨hi_2, m_1, by omega, ?_, by omega, rfl⟩
    have hz0 : drop_1 = 0 := by omega
    have hd2 : drop_2 = 0 := by
      have : hi_1 < 18446744069414584321 := by
        have : m_1 * 18446744069414584321 < 18446744073709551616 * 18446744069414584321 := Nat.mul_lt_mul_of_pos_right (by omega) (by omega)
        omega
      omega
    subst hz0 hd2
    clear * - hi_1_def_lin carry_1_def_lin drop_2_def_lin
    linarith
  obtain ⟨R, m, hm, e, hRW, hs0⟩ := key
  have hR : R = ciosStep P z 0 1 := by
    apply ciosStep_of_lin P P_ok _ _ _ _ m (by rw [P_W]; exact hm)
    rw [P_W, P_q]
    linarith
  have h1 : (1 : Nat) < P.W := by rw [P_W]; decide
  unfold GV.Field.fromMont GV.Field.mul
  rw [show (1 : Nat) = limbsVal P.w [1] from by simp [limbsVal],
    montRaw_limbs P _ [1] (by intro y hy; simp only [List.mem_cons, List.not_mem_nil, or_false] at hy; subst hy; exact h1) rfl]
  rw [List.foldl_cons, List.foldl_nil, ← hR]
  show Gen.Limb.goldilocks.fromMontGeneric_s1 (Gen.Limb.goldilocks.fromMontGeneric_s0 z) = _
  rw [hs0]
  exact reduceGeneric_spec R hRW
example := fromMontGeneric_spec 5 (by decide +kernel)

end GV.Limb.goldilocks
