import GnarkVerif.Proofs.MSMTop
import GnarkVerif.Proofs.MSMBatchPre
import GnarkVerif.Gen.Fields
/-
C04 — MSM returns the exact linear combination for every input, config and schedule.

Model: GnarkVerif/Model/MSM.lean (what is and is not modelled is stated there).
`G` is any Mathlib `AddCommGroup`; `ops : GOps G` is the dictionary the executable model works with and
`LawfulBA ops` says that it is the group structure and that the coordinate tests `IsInfinity`, `X.Equal`,
`Y.Equal` mean what they mean for finite points of a short Weierstrass curve.
All statements are for every length, every window size with a certificate, every choice of chunk processor,
every split decision, every task count and every CPU count (the nondeterminism of the Go code is universally
quantified); goroutine scheduling itself is NOT modelled (see the end of this file).
-/
namespace GV.C04
open GV.MSM

/-! ## (6) `parallel.Execute`: the ranges partition `[0,n)` exactly — all n ≥ 0, every `maxCpus` -/

/-- consecutive, ordered, first range starts at 0, last ends at n -/
theorem execute_tiles (n : Nat) (maxCpus : Int) : Tiles (executeRanges n maxCpus) 0 n :=
  executeCore_tiles n _ (clamp_pos maxCpus)

/-- disjoint + cover + ordered in one statement: enumerating the ranges in order enumerates 0,1,…,n-1 once each -/
theorem execute_partition (n : Nat) (maxCpus : Int) :
    (executeRanges n maxCpus).flatMap (fun se => List.range' se.1 (se.2 - se.1)) = List.range n := by
  rw [(execute_tiles n maxCpus).flatMap_range, List.range_eq_range']
  simp

/-- the variant without `maxCpus` (NumCPU tasks) -/
theorem executeDefault_partition (n numCPU : Nat) (h : 1 ≤ numCPU) :
    (executeRangesDefault n numCPU).flatMap (fun se => List.range' se.1 (se.2 - se.1)) = List.range n := by
  unfold executeRangesDefault
  rw [(executeCore_tiles n numCPU h).flatMap_range, List.range_eq_range']
  simp

example : executeRanges 10 3 = [(0,4),(4,7),(7,10)] := by decide
example : executeRanges 2 5 = [(0,1),(1,2)] := by decide
example : executeRanges 0 7 = [] := by decide

/-- `partitionScalars` computed by the parallel workers = computed sequentially, for every task count -/
theorem partitionScalars_parallel (limbs bits c : Nat) (scalars : List Nat) (nbTasks : Int) :
    digitRowsPar limbs bits c scalars nbTasks = scalars.map (scalarDigits limbs bits c) := by
  unfold digitRowsPar
  rw [← List.map_flatMap, execute_partition]
  exact map_range_getD (scalarDigits limbs bits c) scalars

/-! ## (1) digits -/

/-- the limb/mask/shift selection is the arithmetic window, every c in 1..64, every chunk inside the limbs -/
theorem window_selects_bits (limbs c s chunk : Nat) (hc1 : 1 ≤ c) (hc : c ≤ 64) (hs : s < 2^(64 * limbs))
    (hch : chunk * c < 64 * limbs) : window limbs c s chunk = s / 2^(chunk * c) % 2^c :=
  window_eq limbs c s chunk hc1 hc hs hch

example : window 4 16 (0xabcd * 2^240) 15 = 0xabcd := by decide
example : window 4 13 (0x1fff * 2^(13*4) + 5) 4 = 0x1fff := by decide   -- straddles limbs 0 and 1

theorem evalDigits_eq_sum (c : Nat) : ∀ ds : List Int,
    evalDigits c ds = ∑ j ∈ Finset.range ds.length, ds.getD j 0 * (2:ℤ)^(c*j) := by
  intro ds
  induction ds with
  | nil => simp [evalDigits]
  | cons d ds ih =>
    rw [List.length_cons, Finset.sum_range_succ', evalDigits, ih, Finset.mul_sum]
    simp only [List.getD_cons_zero, List.getD_cons_succ, Nat.mul_zero, pow_zero, mul_one]
    rw [add_comm]
    congr 1
    apply Finset.sum_congr rfl
    intro j _
    rw [Nat.mul_succ, pow_add]
    ring

/-- **digit theorem, every window size c ≥ 1 and every number k+1 of chunks**: the signed digits of every
`s < 2^(c(k+1))` satisfy `Σ_j d_j·2^(c·j) = s`, all digits but the last are in `[-2^(c-1), 2^(c-1))`, the last
one is in `[0, s / 2^(c·k) + 1]` -/
theorem digits_all_c (c k s : Nat) (hc : 1 ≤ c) (hs : s < 2^(c*(k+1))) :
    let ds := recode c (fun i => s / 2^(c*i) % 2^c) 0 k 0
    ds.length = k + 1 ∧
    (∑ j ∈ Finset.range (k+1), ds.getD j 0 * (2:ℤ)^(c*j)) = (s:ℤ) ∧
    digitsOK c ((s / 2^(c*k) : ℕ) + 1 : ℤ) ds := by
  intro ds
  have hl : ds.length = k + 1 := recode_length c _ k 0 0
  refine ⟨hl, ?_, ?_⟩
  · rw [← hl, ← evalDigits_eq_sum, recode_eval, winSum_div]
    simp [Nat.mod_eq_of_lt hs]
  · apply recode_ok c hc _ (fun i => Nat.mod_lt _ (Nat.two_pow_pos c)) _ k 0 0 (by omega)
    have h1 : s / 2^(c * k) % 2^c ≤ s / 2^(c * k) := Nat.mod_le _ _
    simp only [Nat.zero_add]
    exact_mod_cast Nat.succ_le_succ h1

example : recode 4 (fun i => 0xf8 / 2^(4*i) % 2^4) 0 2 0 = [-8, 0, 1] := by decide   -- 0xf8 = -8 + 0·16 + 1·256

/-- the digits actually computed from the limbs, for a curve configuration with certificate `goodC` -/
theorem digits_sum (cfg : Cfg) (r c s : Nat) (hg : goodC cfg r c = true) (hs : s < r) :
    (signedDigits cfg.limbs cfg.bits c s).length = computeNbChunks cfg.bits c ∧
    (∑ j ∈ Finset.range (computeNbChunks cfg.bits c),
        (signedDigits cfg.limbs cfg.bits c s).getD j 0 * (2:ℤ)^(c*j)) = (s:ℤ) ∧
    digitsOK c (lastBound cfg.bits r c : ℕ) (signedDigits cfg.limbs cfg.bits c s) := by
  obtain ⟨h1, h2, h3⟩ := signedDigits_spec cfg r c s hg hs
  refine ⟨h1, ?_, h3⟩
  rw [← h1, ← evalDigits_eq_sum, h2]

/-- the uint16 layout (value<<1, sign in bit 0, −d−1 for negatives) is decoded by the processors to the same digit,
and every non-zero digit addresses a bucket inside the array chosen by `getChunkProcessor` -/
theorem stored_digits (cfg : Cfg) (r c s : Nat) (hg : goodC cfg r c = true) (hs : s < r) :
    (scalarDigits cfg.limbs cfg.bits c s).map decodeDigit = signedDigits cfg.limbs cfg.bits c s ∧
    ∀ j, j < computeNbChunks cfg.bits c → (scalarDigits cfg.limbs cfg.bits c s).getD j 0 ≠ 0 →
      bucketOf ((scalarDigits cfg.limbs cfg.bits c s).getD j 0) <
        nbBucketsFor cfg (if j = computeNbChunks cfg.bits c - 1 then lastC cfg.bits c else c) := by
  obtain ⟨_, _, hok⟩ := signedDigits_spec cfg r c s hg hs
  have hrow := rowOK_of_good cfg r c s hg hs
  refine ⟨?_, hrow.bucket⟩
  simp only [goodC, Bool.and_eq_true, decide_eq_true_eq] at hg
  obtain ⟨⟨⟨⟨⟨⟨⟨⟨⟨_, hc16⟩, _⟩, _⟩, _⟩, _⟩, _⟩, hlast⟩, _⟩, _⟩ := hg
  exact decode_encodeAll c hc16 (lastBound cfg.bits r c : ℕ) (by exact_mod_cast hlast) _ hok

section group
variable {G : Type} [AddCommGroup G]

/-! ## (2) bucket reduction by the two running sums -/

theorem wsumFrom_eq_sum : ∀ (B : List G) (off : Nat),
    wsumFrom off B = ∑ k ∈ Finset.range B.length, ((off:ℤ) + k + 1) • B.getD k 0 := by
  intro B
  induction B with
  | nil => intro off; simp [wsumFrom]
  | cons b B ih =>
    intro off
    rw [List.length_cons, Finset.sum_range_succ', wsumFrom, ih]
    simp only [List.getD_cons_zero, List.getD_cons_succ]
    rw [add_comm]
    congr 1
    · apply Finset.sum_congr rfl
      intro k _
      congr 1
      push_cast
      ring

/-- **`total = Σ_k (k+1)·B_k` for every number of buckets** -/
theorem reduceBuckets_eq (ops : GOps G) (h : Lawful ops) (B : List G) :
    reduceBuckets ops B = ∑ k ∈ Finset.range B.length, ((k:ℤ) + 1) • B.getD k 0 := by
  unfold reduceBuckets
  rw [reduceAux_eq ops h, wsumFrom_eq_sum]
  simp

/-! ## (3) chunk processing -/

theorem digitSum_eq_sum : ∀ (Ps : List G) (us : List Nat),
    digitSum Ps us = (List.zipWith (fun P u => decodeDigit u • P) Ps us).sum
  | [], us => by simp [digitSum_nil_left]
  | P :: Ps, [] => by simp [digitSum_nil_right]
  | P :: Ps, u :: us => by simp [digitSum, digitSum_eq_sum Ps us]

/-- **Jacobian processor**: `Σ_i d_i • P_i` for any assignment of stored digits whose buckets exist -/
theorem processChunkJacobian_correct (ops : GOps G) (h : Lawful ops) (nbBuckets : Nat) (Ps : List G) (us : List Nat)
    (hr : ∀ u ∈ us, u ≠ 0 → bucketOf u < nbBuckets) :
    processChunkJac ops nbBuckets Ps us = (List.zipWith (fun P u => decodeDigit u • P) Ps us).sum := by
  rw [processChunkJac_eq ops h nbBuckets Ps us hr, digitSum_eq_sum]

/-- **batch-affine processor** (state machine with affine buckets, overflow buckets, pending batch, conflict
queue, `flushQueue`, `processTopQueue`): same value for every batch size ≥ 0 -/
theorem processChunkBatchAffine_correct (ops : GOps G) (h : LawfulBA ops) (batchSize nbBuckets : Nat)
    (Ps : List G) (us : List Nat) (hr : ∀ u ∈ us, u ≠ 0 → bucketOf u < nbBuckets) :
    processChunkBatchAffine ops batchSize nbBuckets Ps us =
      (List.zipWith (fun P u => decodeDigit u • P) Ps us).sum := by
  rw [processChunkBatchAffine_eq ops h batchSize nbBuckets Ps us hr, digitSum_eq_sum]

/-- invariant of the batch-affine machine, one step:
`Σ(k+1)(B_k+JE_k) + Σ_pending + Σ_queue` grows by exactly `d•P`, and the shape invariant is kept -/
theorem batchAffine_step_invariant (ops : GOps G) (h : LawfulBA ops) (nb batchSize : Nat) (st : BAState G)
    (P : G) (u : Nat) (hi : BAInv nb st) (hr : u ≠ 0 → bucketOf u < nb) :
    baV (baStep ops batchSize st P u) = baV st + decodeDigit u • P ∧ BAInv nb (baStep ops batchSize st P u) :=
  baStep_spec ops h nb batchSize st P u hi hr

/-- the precondition of `batchAddG?Affine` (distinct buckets, finite operands, different X) holds for the batch
of every reachable state – so also whenever `executeAndReset` runs -/
theorem batchAffine_precondition (ops : GOps G) (h : LawfulBA ops) (hneg : SameXNeg ops) (batchSize nb : Nat)
    (Ps : List G) (us : List Nat) (hr : ∀ u ∈ us, u ≠ 0 → bucketOf u < nb) :
    BatchPre ops (baRun ops batchSize nb Ps us) :=
  baRun_pre ops h hneg nb batchSize Ps us _
    ⟨by simp [baInit], by simp [baInit], by simp [baInit], by simp [baInit]⟩ (baInit_pre ops nb) hr

/-- overweight chunk split in two goroutines: `total = s₁ + s₂`, whichever half arrives first -/
theorem chunk_split_correct (ops : GOps G) (h : LawfulBA ops) (ch : ChunkChoice) (nb : Nat) (Ps : List G)
    (us : List Nat) (hr : ∀ u ∈ us, u ≠ 0 → bucketOf u < nb) :
    chunkTotal ops ch nb Ps us = (List.zipWith (fun P u => decodeDigit u • P) Ps us).sum := by
  rw [chunkTotal_eq ops h ch nb Ps us hr, digitSum_eq_sum]

/-! ## (4) Horner over the chunks -/

theorem hsum_eq_sum (c : Nat) : ∀ ts : List G,
    hsum c ts = ∑ j ∈ Finset.range ts.length, ((2:ℤ)^(c*j)) • ts.getD j 0 := by
  intro ts
  induction ts with
  | nil => simp [hsum]
  | cons t ts ih =>
    rw [List.length_cons, Finset.sum_range_succ', hsum, ih, Finset.smul_sum]
    simp only [List.getD_cons_zero, List.getD_cons_succ, Nat.mul_zero, pow_zero, one_smul]
    rw [add_comm]
    congr 1
    apply Finset.sum_congr rfl
    intro j _
    rw [Nat.mul_succ, pow_add, mul_smul, smul_comm]

/-- **`msmReduceChunk`**: `c` doublings between chunks compute `Σ_j 2^(c·j) • T_j`, any number of chunks -/
theorem reduceChunks_correct (ops : GOps G) (h : Lawful ops) (c : Nat) (ts : List G) :
    reduceChunks ops c ts = ∑ j ∈ Finset.range ts.length, ((2:ℤ)^(c*j)) • ts.getD j 0 := by
  rw [reduceChunks_eq ops h, hsum_eq_sum]

/-! ## (5) the multi-exponentiation -/

/-- the specification as a sum over `zip` -/
theorem linComb_spec (ss : List Nat) (Ps : List G) :
    linComb ss Ps = (List.zipWith (fun s P => (s:ℤ) • P) ss Ps).sum := linComb_eq_sum ss Ps

/-- **inner MSM, every n, every certified window size c, every processor / split choice**:
this is "the result does not depend on the window size" -/
theorem innerMsm_correct (cfg : Cfg) (r : Nat) (ops : GOps G) (h : LawfulBA ops) (c : Nat)
    (hg : goodC cfg r c = true) (choose : Nat → List (List Nat) → ChunkChoice) (pts : List G) (scs : List Nat)
    (hlen : pts.length = scs.length) (hsc : ∀ s ∈ scs, s < r) :
    innerMsm cfg ops c choose pts scs = linComb scs pts :=
  innerMsm_eq cfg ops h c choose pts scs hlen (fun s hs => rowOK_of_good cfg r c s hg (hsc s hs))

/-- recursive halving: `MSM(A ++ B) = MSM A + MSM B` -/
theorem linComb_append (s1 s2 : List Nat) (p1 p2 : List G) (hl : s1.length = p1.length) :
    linComb (s1 ++ s2) (p1 ++ p2) = linComb s1 p1 + linComb s2 p2 := by
  rw [linComb_take_drop s1.length (s1 ++ s2) (p1 ++ p2)]
  rw [List.take_left', List.drop_left', hl, List.take_left', List.drop_left'] <;> rfl

/-- a size-0 or size-1 input is never split: the recursion is well founded (the halves of n ≥ 2 are shorter) -/
theorem no_split_below_two (cfg : Cfg) (r : Nat) (hcfg : GoodCfg cfg r) (k : Nat) (hk : 1 ≤ k) :
    splitDecision cfg 0 k = false ∧ splitDecision cfg 1 k = false :=
  ⟨splitDecision_zero cfg k hk, splitDecision_one cfg k hk hcfg.best01⟩

/-- closed form of the `costFunction` loop (it terminates for nbCpus ≥ 1) -/
theorem costFunction_closed (t cpus cpt : Nat) (hc : 1 ≤ cpus) :
    costFunction t cpus cpt = t + (t / cpus) * cpt + (if t % cpus > 0 then cpt else 0) :=
  costFunction_eq t cpus cpt hc

/-- **`MultiExp`**: for every number of points, every admissible `NbTasks` (≤ 0 = default, 1..1024), every number
of CPUs, every processor / split choice at every node of the recursion: the call terminates (`some`) and
returns `Σ sᵢ • Pᵢ` -/
theorem multiExp_correct (cfg : Cfg) (r : Nat) (hcfg : GoodCfg cfg r) (hcpu : 1 ≤ cfg.numCPU)
    (ops : GOps G) (h : LawfulBA ops) (choose : List Bool → Nat → Nat → List (List Nat) → ChunkChoice)
    (nbTasks : Int) (htasks : nbTasks ≤ 1024) (pts : List G) (scs : List Nat)
    (hlen : pts.length = scs.length) (hsc : ∀ s ∈ scs, s < r) :
    multiExp cfg ops choose nbTasks pts scs = .ok (some (linComb scs pts)) := by
  unfold multiExp
  rw [if_neg (by simp [hlen]), if_neg (by omega)]
  dsimp only
  rw [msmRec_eq cfg r hcfg ops h choose _ [] _ pts scs (Nat.lt_succ_self _) _ hlen hsc]
  split <;> omega

/-- the result does not depend on the task count, the CPU count, or any scheduling-dependent choice -/
theorem multiExp_independent (cfg : Cfg) (r : Nat) (hcfg : GoodCfg cfg r) (cpu1 cpu2 : Nat) (h1 : 1 ≤ cpu1) (h2 : 1 ≤ cpu2)
    (ops : GOps G) (h : LawfulBA ops) (choose1 choose2 : List Bool → Nat → Nat → List (List Nat) → ChunkChoice)
    (t1 t2 : Int) (ht1 : t1 ≤ 1024) (ht2 : t2 ≤ 1024) (pts : List G) (scs : List Nat)
    (hlen : pts.length = scs.length) (hsc : ∀ s ∈ scs, s < r) :
    multiExp { cfg with numCPU := cpu1 } ops choose1 t1 pts scs =
      multiExp { cfg with numCPU := cpu2 } ops choose2 t2 pts scs := by
  rw [multiExp_correct { cfg with numCPU := cpu1 } r ⟨hcfg.cs_ne, hcfg.good, hcfg.best01⟩ h1 ops h choose1 t1 ht1 pts scs hlen hsc,
    multiExp_correct { cfg with numCPU := cpu2 } r ⟨hcfg.cs_ne, hcfg.good, hcfg.best01⟩ h2 ops h choose2 t2 ht2 pts scs hlen hsc]

/-- error classes -/
theorem multiExp_len_error (cfg : Cfg) (ops : GOps G) (choose : List Bool → Nat → Nat → List (List Nat) → ChunkChoice)
    (nbTasks : Int) (pts : List G) (scs : List Nat) (hlen : pts.length ≠ scs.length) :
    multiExp cfg ops choose nbTasks pts scs = .error .len := by
  unfold multiExp
  rw [if_pos hlen]

theorem multiExp_tasks_error (cfg : Cfg) (ops : GOps G) (choose : List Bool → Nat → Nat → List (List Nat) → ChunkChoice)
    (nbTasks : Int) (pts : List G) (scs : List Nat) (hlen : pts.length = scs.length) (ht : nbTasks > 1024) :
    multiExp cfg ops choose nbTasks pts scs = .error .nbTasks := by
  unfold multiExp
  rw [if_neg (by simp [hlen]), if_pos ht]

/-! ### `Fold` -/

theorem foldScalars_length (r t : Nat) : ∀ n acc, (foldScalars r t n acc).length = n := by
  intro n
  induction n with
  | zero => intro acc; rfl
  | succ n ih => intro acc; simp [foldScalars, ih]

theorem foldScalars_lt (r t : Nat) (hr : 0 < r) : ∀ n acc, acc < r → ∀ s ∈ foldScalars r t n acc, s < r := by
  intro n
  induction n with
  | zero => intro acc _ s hs; simp [foldScalars] at hs
  | succ n ih =>
    intro acc hacc s hs
    simp only [foldScalars, List.mem_cons] at hs
    rcases hs with rfl | hs
    · exact hacc
    · exact ih _ (Nat.mod_lt _ hr) s hs

/-- the i-th scalar of `Fold` is `t^i mod r` -/
theorem foldScalars_getD (r t : Nat) : ∀ n acc i, i < n → acc < r →
    (foldScalars r t n acc).getD i 0 = acc * t^i % r := by
  intro n
  induction n with
  | zero => intro acc i hi; omega
  | succ n ih =>
    intro acc i hi hacc
    cases i with
    | zero => simp [foldScalars, Nat.mod_eq_of_lt hacc]
    | succ i =>
      simp only [foldScalars, List.getD_cons_succ]
      rw [ih (acc * t % r) i (by omega) (Nat.mod_lt _ (by omega)), Nat.mul_mod, Nat.mod_mod, ← Nat.mul_mod]
      congr 1
      ring

/-- **`Fold`** is the multi-exponentiation with the powers of the coefficient; only the task-count error exists -/
theorem fold_correct (cfg : Cfg) (r : Nat) (hr : 1 < r) (hcfg : GoodCfg cfg r) (hcpu : 1 ≤ cfg.numCPU)
    (ops : GOps G) (h : LawfulBA ops) (choose : List Bool → Nat → Nat → List (List Nat) → ChunkChoice)
    (nbTasks : Int) (htasks : nbTasks ≤ 1024) (pts : List G) (t : Nat) :
    fold cfg ops choose r nbTasks pts t = .ok (some (linComb (foldScalars r t pts.length (1 % r)) pts)) := by
  unfold fold
  exact multiExp_correct cfg r hcfg hcpu ops h choose nbTasks htasks pts _
    (by rw [foldScalars_length]) (foldScalars_lt r t (by omega) _ _ (Nat.mod_lt _ (by omega)))

end group

/-! ## instances: the nine generated packages -/

def goodCfgB (cfg : Cfg) (r : Nat) : Bool :=
  !cfg.cs.isEmpty && cfg.cs.all (goodC cfg r) && (bestC cfg 1 == bestC cfg 0)

theorem goodCfg_of_bool (cfg : Cfg) (r : Nat) (h : goodCfgB cfg r = true) : GoodCfg cfg r := by
  simp only [goodCfgB, Bool.and_eq_true, Bool.not_eq_true', List.all_eq_true, beq_iff_eq] at h
  obtain ⟨⟨h1, h2⟩, h3⟩ := h
  exact ⟨by intro e; simp [e] at h1, h2, h3⟩

open GV.Gen in
/-- scalar-field constants regenerated from /repo (tie T), in the order of `curveCfgs` -/
def frTable : List FieldConsts :=
  [bn254_fr, bls12_377_fr, bls12_381_fr, bls24_315_fr, bls24_317_fr, bw6_633_fr, bw6_761_fr, grumpkin_fr, secp256k1_fr]

/-- for every curve package: `fr.Bits`/`fr.Limbs` of the model table agree with the regenerated constants and every
implemented window size has its certificate (digits fit uint16, buckets exist for `c` and `lastC(c)`,
`c·nbChunks ≥ Bits`), and inputs of size ≤ 1 are never split -/
theorem curves_certified :
    ((curveCfgs.map (·.2)).zip frTable).all
      (fun p => goodCfgB p.1 p.2.q && p.1.bits == p.2.bits && p.1.limbs == p.2.limbs) = true := by
  decide +kernel

example : curveCfgs.length = frTable.length := by decide

theorem curve_good (cfg : Cfg) (f : GV.Gen.FieldConsts) (hm : (cfg, f) ∈ (curveCfgs.map (·.2)).zip frTable) :
    GoodCfg cfg f.q := by
  have := List.all_eq_true.1 curves_certified (cfg, f) hm
  simp only [Bool.and_eq_true] at this
  exact goodCfg_of_bool cfg f.q this.1.1

/-- the secp256k1 instance has NO certificate for c = 16 (Bits = 256: the last digit does not fit `uint16<<1`, and
`lastC 16 = 17` has no processor) – `implementedCs` stops at 15, but `BatchScalarMultiplicationG1` of that
package still searches c up to 16 (finding reported with the harness) -/
example : goodC (mkCfg 256 (range' 4 15) (range' 2 15) 15) GV.Gen.secp256k1_fr.q 16 = false := by decide +kernel
example : goodC (mkCfg 256 (range' 4 15) (range' 2 15) 15) GV.Gen.secp256k1_fr.q 15 = true := by decide +kernel
example : lastC 256 16 = 17 := by decide

/-! ### non-vacuity: a concrete lawful dictionary (the integers) and a concrete run -/

def intOps : GOps Int where
  zero := 0
  add := (· + ·)
  neg := fun a => -a
  isZero := fun a => a == 0
  sameX := fun a b => a == b || a == -b
  sameY := fun a b => a == b

theorem intOps_lawful : LawfulBA intOps where
  law := ⟨rfl, fun _ _ => rfl, fun _ => rfl⟩
  isZero_iff := by intro x; simp [intOps]
  same_pos := by intro B Q _ _ _ hy; simpa [intOps] using hy
  same_neg := by
    intro B Q _ _ hx hy
    simp only [intOps, Bool.or_eq_true, beq_iff_eq, beq_eq_false_iff_ne] at hx hy
    rcases hx with h | h
    · exact absurd h hy
    · exact h

theorem intOps_sameXNeg : SameXNeg intOps := by
  intro B P
  simp only [intOps, neg_neg]
  rw [Bool.or_comm]

/-- bn254 configuration of the table -/
def bn254Cfg : Cfg := mkCfg 254 (range' 4 16) (range' 2 16) 16

theorem bn254_good : GoodCfg bn254Cfg GV.Gen.bn254_fr.q :=
  goodCfg_of_bool _ _ (by decide +kernel)

/-- the certificate does not depend on the CPU count -/
theorem goodCfg_withCPU {cfg : Cfg} {r : Nat} (h : GoodCfg cfg r) (n : Nat) : GoodCfg { cfg with numCPU := n } r :=
  ⟨h.cs_ne, h.good, h.best01⟩

example : multiExp { bn254Cfg with numCPU := 8 } intOps (fun _ c => goChoose bn254Cfg c) 3 [5, -7, 11] [2, 3, 4] =
    .ok (some (linComb [2, 3, 4] [5, -7, 11])) :=
  multiExp_correct _ GV.Gen.bn254_fr.q (goodCfg_withCPU bn254_good 8) (by decide) intOps intOps_lawful _ 3 (by decide)
    _ _ rfl (by decide +kernel)

example : linComb [2, 3, 4] ([5, -7, 11] : List Int) = 33 := by decide

/-! ## (8) the token semaphore of `_innerMsm` as a transition system

`sem` is a buffered channel of capacity `NbTasks + nbChunks` holding `NbTasks` tokens; the main loop spawns one
worker per chunk, or adds a token and spawns two workers for an overweight chunk; a worker takes a token, works,
puts the token back and only then sends its result; `close(sem)` runs when all results have been received. -/

structure Sem where
  tokens : Nat    -- tokens in the channel
  waiting : Nat   -- workers blocked in `<-sem`
  running : Nat   -- workers holding a token
  done : Nat      -- workers that have put their token back (their result is sent afterwards)
  spawned : Nat   -- chunks handed out by the main loop
  splits : Nat    -- overweight chunks so far

inductive SemStep (nb : Nat) : Sem → Sem → Prop
  | spawn (s : Sem) : s.spawned < nb →
      SemStep nb s { s with spawned := s.spawned + 1, waiting := s.waiting + 1 }
  | spawnSplit (s : Sem) : s.spawned < nb →
      SemStep nb s { s with spawned := s.spawned + 1, splits := s.splits + 1, tokens := s.tokens + 1, waiting := s.waiting + 2 }
  | acquire (s : Sem) : 0 < s.tokens → 0 < s.waiting →
      SemStep nb s { s with tokens := s.tokens - 1, waiting := s.waiting - 1, running := s.running + 1 }
  | release (s : Sem) : 0 < s.running →
      SemStep nb s { s with running := s.running - 1, tokens := s.tokens + 1, done := s.done + 1 }

def semInit (K : Nat) : Sem := ⟨K, 0, 0, 0, 0, 0⟩

/-- tokens + running = NbTasks + splits, and the worker bookkeeping -/
def SemInv (K nb : Nat) (s : Sem) : Prop :=
  s.tokens + s.running = K + s.splits ∧ s.splits ≤ s.spawned ∧ s.spawned ≤ nb ∧
  s.waiting + s.running + s.done = s.spawned + s.splits

theorem sem_inv_init (K nb : Nat) : SemInv K nb (semInit K) := by
  simp [SemInv, semInit]

theorem sem_inv_step (K nb : Nat) (s s' : Sem) (h : SemInv K nb s) (st : SemStep nb s s') : SemInv K nb s' := by
  obtain ⟨h1, h2, h3, h4⟩ := h
  cases st <;> (simp only [SemInv]; omega)

/-- the channel capacity `NbTasks + nbChunks` is never exceeded: `sem <- struct{}{}` never blocks -/
theorem sem_capacity (K nb : Nat) (s : Sem) (h : SemInv K nb s) : s.tokens ≤ K + nb := by
  obtain ⟨h1, h2, h3, h4⟩ := h
  omega

/-- no reachable stuck state while work is left (NbTasks ≥ 1) -/
theorem sem_progress (K nb : Nat) (hK : 1 ≤ K) (s : Sem) (h : SemInv K nb s)
    (hw : s.spawned < nb ∨ 0 < s.waiting ∨ 0 < s.running) : ∃ s', SemStep nb s s' := by
  obtain ⟨h1, h2, h3, h4⟩ := h
  by_cases hs : s.spawned < nb
  · exact ⟨_, SemStep.spawn s hs⟩
  · by_cases hr : 0 < s.running
    · exact ⟨_, SemStep.release s hr⟩
    · have hwait : 0 < s.waiting := by omega
      exact ⟨_, SemStep.acquire s (by omega) hwait⟩

/-- every step decreases `5·(nb − spawned) + 2·waiting + running`: at most `5·nbChunks` steps, whatever the scheduler does -/
theorem sem_measure (nb : Nat) (s s' : Sem) (st : SemStep nb s s') :
    5 * (nb - s'.spawned) + 2 * s'.waiting + s'.running < 5 * (nb - s.spawned) + 2 * s.waiting + s.running := by
  cases st <;> (simp only []; omega)

/-- when nothing can move any more, every worker has put its token back (so every `sem <-` precedes `close(sem)`,
which runs after the last result has been received) and all tokens are in the channel -/
theorem sem_final (K nb : Nat) (hK : 1 ≤ K) (s : Sem) (h : SemInv K nb s) (hstuck : ¬ ∃ s', SemStep nb s s') :
    s.spawned = nb ∧ s.done = nb + s.splits ∧ s.tokens = K + s.splits ∧ s.waiting = 0 ∧ s.running = 0 := by
  have hp := sem_progress K nb hK s h
  obtain ⟨h1, h2, h3, h4⟩ := h
  have : ¬ (s.spawned < nb ∨ 0 < s.waiting ∨ 0 < s.running) := fun hw => hstuck (hp hw)
  omega

example : SemStep 3 (semInit 2) { semInit 2 with spawned := 1, splits := 1, tokens := 3, waiting := 2 } :=
  SemStep.spawnSplit (semInit 2) (by decide)

/-! ## (10) negative digits on demand (the `~` entries of the `MSMX` digit programs)

A scripted point is SUBTRACTED from bucket `w` by giving window `j` the value `2^c − w` and leaving window `j+1` empty:
`partitionScalars` stores the digit `−w` and carries one into the next window, which becomes the digit `+1`. These are
the two steps of `recode`; with `digits_sum` / `stored_digits` above they give the digits of the scalars
`2^(c·(j+1)) − w·2^(c·j)` and `2^(c·whi) − w·Σ 2^(c·k)` that `xVectors` builds. What the processor does with such
a point, for every sequence of points and digits, is `batchAffine_step_invariant` / `batchAffine_precondition`. -/

theorem neg_digit_step (c : Nat) (wf : Nat → Nat) (j k w : Nat) (hc : 1 ≤ c) (hw : w ≤ 2^(c-1))
    (hj : wf j = 2^c - w) :
    recode c wf j (k+1) 0 = (-(w : Int)) :: recode c wf (j+1) k 1 := by
  have h2 : 2^c = 2 * 2^(c-1) := by
    obtain ⟨m, rfl⟩ : ∃ m, c = m + 1 := ⟨c - 1, by omega⟩
    simp [Nat.pow_succ, Nat.mul_comm]
  have hp : 0 < 2^(c-1) := Nat.two_pow_pos _
  conv_lhs => rw [recode]
  simp only [Nat.zero_add, hj]
  rw [if_pos (by omega)]
  congr 1
  simp only [Int.ofNat_eq_natCast]
  push_cast [Nat.cast_sub (by omega : w ≤ 2^c)]
  ring

theorem carry_digit_step (c : Nat) (wf : Nat → Nat) (j k : Nat) (hc : 2 ≤ c) (h0 : wf j = 0) :
    recode c wf j (k+1) 1 = 1 :: recode c wf (j+1) k 0 := by
  have hp : 2 ≤ 2^(c-1) := by
    obtain ⟨m, rfl⟩ : ∃ m, c = m + 2 := ⟨c - 2, by omega⟩
    have : 0 < 2^m := Nat.two_pow_pos _
    simp [Nat.pow_succ]; omega
  conv_lhs => rw [recode]
  simp only [h0, Nat.add_zero]
  rw [if_neg (by omega)]
  rfl

/-
NOT covered by these theorems (named, not hidden):
* goroutine interleavings, channel semantics and data-race freedom: every chunk processor is modelled as a pure
  function of its slice of points/digits; the arrival order of split halves and all policy decisions are
  universally quantified parameters, which is the part of "independent of scheduling" a pure model can carry.
  The semaphore is covered only as the counting abstraction above (hand-written from `_innerMsm`, not tied by K);
  termination under an unfair Go scheduler is not claimed.
* `LawfulBA` for the concrete curve arithmetic (addMixed/subMixed/add/double on g1JacExtended, affine batch add):
  that the Go point formulas implement the group law is property C03/C02, assumed here.
* float32 chunk weights and float64 window costs are replaced by exact rationals; they only influence choices
  that the theorems quantify over.
* scalars are assumed reduced (`s < r`), as `fr.Element` guarantees.
-/

end GV.C04
