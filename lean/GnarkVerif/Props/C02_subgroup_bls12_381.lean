import GnarkVerif.Proofs.Subgroup
import GnarkVerif.Props.C02_gen_bls12_381
import GnarkVerif.Gen.CurveConsts
import GnarkVerif.Gen.Fields
import Mathlib.Tactic.NormNum.Pow
/-
C02 (tie T) — bls12-381 G1: the FAST SUBGROUP TEST `(*G1Jac).IsInSubGroup` / `(*G1Affine).IsInSubGroup` and `ClearCofactor`
of /repo/ecc/bls12-381/g1.go, as tools/goslp regenerates them from the Go text on every run (Gen/Curve/Bls12_381.lean:
`IsOnCurve`, then `res.phi(p).mulBySeed(&res).mulBySeed(&res).Neg(&res); return res.Equal(p)` with `mulBySeed` the
translated addition chain), against Mathlib's group `(sw 0 b).Point` with the representation relation of Props/C02_gen.

* `C02sub_G1Jac_mulBySeed`      : the translated chain maps a representative of Q to one of `xGen • Q` (walked forward, one fact
                                  per Go temporary, with the C02_gen group-law theorems; `xGen` the regenerated seed literal);
* `C02sub_G1Jac_phi`            : the translated `phi` maps a representative of P to one of `φ P`, φ(x, y) = (x·ω, y)
                                  (`Subgroup.phiPt`, an additive endomorphism: `Subgroup.phiPt_add`, proved);
* `C02sub_G1Jac_IsInSubGroup_spec` (SPEC): for every representative p of a curve point P (any Z-scaling, infinity included)
                                  the translated test returns true iff `IsOnCurve p` and `-(xGen • xGen • φ P) = P`:
                                  the Go text computes exactly the published criterion −[x²]φ(P) = P;
* `C02sub_G1Jac_IsInSubGroup_complete` (FORWARD, proved): r • P = 0 and φ P = λ • P ⇒ the test passes, from the kernel-checked
                                  relation r ∣ x²·λ + 1 between the regenerated `xGen`, `lambdaGLV` and `fr.q`;
  `C02sub_G1Jac_IsInSubGroup_on_generated`: hence on the whole cyclic group ⟨G⟩ of any G with r • G = 0, φ G = λ • G
                                  (by additivity of φ; on the package generator the relation φ(G) = [λ]G is the closed
                                  `decide +kernel` fact `C03gen.bls12_381.glv_g1` of the executable curve model);
* `G1FastTestSound` (CONVERSE)  : the published soundness of the criterion (Scott 2021, "A note on group membership tests for
                                  G1, G2 and GT on BLS pairing-friendly curves", §3; Bowe 2019) as a NAMED HYPOTHESIS; it is used
                                  by `C02sub_G1Jac_IsInSubGroup_sound` only;
* `C02sub_G1Jac_ClearCofactor`  : the result represents `(xGen + 1) • P` (= [1 − x₀]P, the effective cofactor of the code), hence
                                  lies in the r-torsion whenever `((xGen + 1) * r) • P = 0` (the exponent of E(F_p), hypothesis).
-/
set_option linter.unusedSectionVars false
set_option linter.unusedVariables false
namespace GV.Gen.Curve.bls12_381
open GV.Curve GV.C02 GV.CurveGen GV.Subgroup WeierstrassCurve

variable {F : Type} [Field F] [DecidableEq F] {b : F} {P Q : (sw 0 b).Point}

/-- the regenerated seed literal, the GLV eigenvalue and the group order of the package -/
abbrev seed : ℤ := GV.Gen.CurveConsts.bls12_381.xGen
abbrev lam : ℤ := GV.Gen.CurveConsts.bls12_381.lambdaGLV
abbrev rOrd : ℤ := (GV.Gen.bls12_381_fr.q : ℤ)

/-! ### step lemmas in "k • Q" form -/

theorem G1Jac.rep_add (hc : (2 : F) ≠ 0) {p q : G1Jac F} {m n : ℤ} (hp : p.Rep b (m • Q)) (hq : q.Rep b (n • Q)) :
    (G1Jac.AddAssign p q).1.Rep b ((m + n) • Q) := by
  rw [add_smul]; exact C02gen_G1Jac_AddAssign hc hp hq
theorem G1Jac.rep_sub (hc : (2 : F) ≠ 0) {p q : G1Jac F} {m n : ℤ} (hp : p.Rep b (m • Q)) (hq : q.Rep b (n • Q)) :
    (G1Jac.SubAssign p q).1.Rep b ((m - n) • Q) := by
  rw [sub_smul]; exact C02gen_G1Jac_SubAssign hc hp hq
theorem G1Jac.rep_dbl (hc : (2 : F) ≠ 0) {q : G1Jac F} {m : ℤ} (hq : q.Rep b (m • Q)) :
    (G1Jac.Double q).1.Rep b ((2 * m) • Q) := by
  rw [two_mul, add_smul]; exact C02gen_G1Jac_Double hc hq
theorem G1Jac.rep_dbl' (hc : (2 : F) ≠ 0) {q : G1Jac F} {m : ℤ} (hq : q.Rep b (m • Q)) :
    (G1Jac.Double_p_eq_q q).Rep b ((2 * m) • Q) := by
  rw [G1Jac.Double_p_eq_q_alias]; exact G1Jac.rep_dbl hc hq
theorem G1Jac.rep_neg {q : G1Jac F} {m : ℤ} (hq : q.Rep b (m • Q)) : (G1Jac.Neg q).1.Rep b ((-m) • Q) := by
  rw [neg_smul]; exact C02gen_G1Jac_Neg hq
theorem G1Jac.rep_set {q : G1Jac F} {m : ℤ} (hq : q.Rep b (m • Q)) : (G1Jac.Set q).1.Rep b (m • Q) := hq
theorem G1Jac.rep_repeat {f : G1Jac F → G1Jac F}
    (hf : ∀ (st : G1Jac F) (m : ℤ), st.Rep b (m • Q) → (f st).Rep b ((2 * m) • Q))
    (n : ℕ) {q : G1Jac F} {m : ℤ} (hq : q.Rep b (m • Q)) : (Nat.repeat f n q).Rep b ((2 ^ n * m) • Q) := by
  induction n with
  | zero => simpa [Nat.repeat] using hq
  | succ k ih =>
    have := hf _ _ ih
    rw [show (2 : ℤ) ^ (k + 1) * m = 2 * (2 ^ k * m) by ring]
    exact this
theorem G1Jac.rep_cast {q : G1Jac F} {m n : ℤ} (hq : q.Rep b (m • Q)) (h : m = n) : q.Rep b (n • Q) := h ▸ hq

/-- one Go statement of a `mulBySeed` chain -/
macro "gv_seed_step_g1" hc:term : tactic => `(tactic| first
  | exact G1Jac.rep_add $hc (by assumption) (by assumption)
  | exact G1Jac.rep_sub $hc (by assumption) (by assumption)
  | exact G1Jac.rep_dbl $hc (by assumption)
  | exact G1Jac.rep_neg (by assumption)
  | exact G1Jac.rep_set (by assumption)
  | exact G1Jac.rep_repeat (fun _ _ h => G1Jac.rep_dbl' $hc h) _ (by assumption))

/-! ### `mulBySeed`, `phi` -/

section
attribute [local irreducible] G1Jac.AddAssign G1Jac.SubAssign G1Jac.Double G1Jac.Set G1Jac.Double_p_eq_q G1Jac.Neg

/-- the translated `p.mulBySeed(q)`: a representative of `xGen • Q` -/
theorem C02sub_G1Jac_mulBySeed (hc : (2 : F) ≠ 0) {q : G1Jac F} (hq : q.Rep b Q) :
    (G1Jac.mulBySeed q).1.Rep b (seed • Q) := by
  have h1 : q.Rep b ((1 : ℤ) • Q) := by rwa [one_smul]
  clear hq
  unfold G1Jac.mulBySeed
  extract_lets
  gv_each_let x hx : G1Jac.Rep b x ((_ : ℤ) • Q) => gv_seed_step_g1 hc
  exact G1Jac.rep_cast (by assumption) (by decide +kernel)
end

/-- the translated `p.mulBySeed(p)` (receiver = argument) -/
theorem C02sub_G1Jac_mulBySeed_inplace (hc : (2 : F) ≠ 0) {q : G1Jac F} (hq : q.Rep b Q) :
    (G1Jac.mulBySeed_p_eq_q q).Rep b (seed • Q) := by
  rw [G1Jac.mulBySeed_p_eq_q_alias]; exact C02sub_G1Jac_mulBySeed hc hq

/-- the translated `phi`: X ← X·thirdRootOneG1 represents φ(P), φ(x, y) = (x·ω, y) -/
theorem C02sub_G1Jac_phi {ω : F} (hω : ω ^ 3 = 1) {q : G1Jac F} (hq : q.Rep b Q) :
    (G1Jac.phi q ω).1.Rep b (phiPt b ω hω Q) := JacPt.phi hω hq

theorem C02sub_G1Jac_phi_inplace {ω : F} (hω : ω ^ 3 = 1) {q : G1Jac F} (hq : q.Rep b Q) :
    (G1Jac.phi_p_eq_q q ω).Rep b (phiPt b ω hω Q) := by
  rw [G1Jac.phi_p_eq_q_alias]; exact C02sub_G1Jac_phi hω hq

theorem C02sub_G1Jac_Neg_inplace {q : G1Jac F} (hq : q.Rep b Q) : (G1Jac.Neg_p_eq_q q).Rep b (-Q) := by
  rw [G1Jac.Neg_p_eq_q_alias]; exact C02gen_G1Jac_Neg hq

/-! ### the subgroup test -/

/-- the group-level criterion the Go text computes: −[x²]φ(P) = P -/
def G1Criterion (b ω : F) (hω : ω ^ 3 = 1) (P : (sw 0 b).Point) : Prop := -(seed • seed • phiPt b ω hω P) = P

/-- SPEC of `(*G1Jac).IsInSubGroup`: on every representative of a curve point, exactly `IsOnCurve ∧ criterion` -/
theorem C02sub_G1Jac_IsInSubGroup_spec (hc : (2 : F) ≠ 0) {ω : F} (hω : ω ^ 3 = 1) {p : G1Jac F} (hp : p.Rep b P) :
    G1Jac.IsInSubGroup p ω = true ↔ (G1Jac.IsOnCurve p = true ∧ G1Criterion b ω hω P) := by
  have h5 := C02gen_G1Jac_Equal (C02sub_G1Jac_Neg_inplace (C02sub_G1Jac_mulBySeed_inplace hc
    (C02sub_G1Jac_mulBySeed_inplace hc (C02sub_G1Jac_phi hω hp)))) hp
  unfold G1Jac.IsInSubGroup G1Criterion
  cases hon : G1Jac.IsOnCurve p
  · simp
  · simpa using h5

/-- a representative with Z ≠ 0 of a point of y² = x³ + 4 passes `IsOnCurve` (so the first conjunct of the SPEC is automatic) -/
theorem C02sub_G1Jac_IsOnCurve_of_rep {P : (sw 0 (4 : F)).Point} {p : G1Jac F} (hp : p.Rep 4 P) (hz : p.Z ≠ 0) :
    G1Jac.IsOnCurve p = true := by
  obtain ⟨x, y, h, hr, _⟩ := JacPt.of_Z_ne hp hz
  exact ((C02gen_G1Jac_IsOnCurve p).2 x y hr).mpr h.1

/-- the constant fact behind the forward direction: r ∣ x²·λ + 1 (regenerated `xGen`, `lambdaGLV`, `fr.q`) -/
theorem C02sub_g1_seed_lambda_r : (seed * seed * lam + 1) % rOrd = 0 := by decide +kernel

theorem g1Criterion_of_member {ω : F} (hω : ω ^ 3 = 1) (hr : rOrd • P = 0) (hφ : phiPt b ω hω P = lam • P) :
    G1Criterion b ω hω P := by
  have h0 : (seed * seed * lam + 1) • P = 0 :=
    zsmul_eq_zero_of_dvd hr (Int.dvd_of_emod_eq_zero C02sub_g1_seed_lambda_r)
  unfold G1Criterion
  rw [hφ]
  have e : (seed * seed * lam + 1) • P = seed • seed • lam • P + P := by
    rw [add_smul, one_smul, mul_smul, mul_smul]
  rw [e] at h0
  exact (neg_eq_of_add_eq_zero_right h0)

/-- FORWARD (completeness of the test): an r-torsion point on which φ acts as [λ] passes -/
theorem C02sub_G1Jac_IsInSubGroup_complete (hc : (2 : F) ≠ 0) {ω : F} (hω : ω ^ 3 = 1) {p : G1Jac F} (hp : p.Rep b P)
    (hon : G1Jac.IsOnCurve p = true) (hr : rOrd • P = 0) (hφ : phiPt b ω hω P = lam • P) :
    G1Jac.IsInSubGroup p ω = true :=
  (C02sub_G1Jac_IsInSubGroup_spec hc hω hp).mpr ⟨hon, g1Criterion_of_member hω hr hφ⟩

/-- … hence every element of the cyclic group generated by a G with r • G = 0 and φ G = λ • G passes
(φ is additive: `Subgroup.phiPt_add`; for the package generator the two premises are the `decide +kernel` facts
`C03gen.bls12_381.g1_on_curve_and_order_r`, `glv_g1` of the executable curve model) -/
theorem C02sub_G1Jac_IsInSubGroup_on_generated (hc : (2 : F) ≠ 0) {ω : F} (hω : ω ^ 3 = 1) {G : (sw 0 b).Point}
    (hrG : rOrd • G = 0) (hφG : phiPt b ω hω G = lam • G) (k : ℤ) {p : G1Jac F} (hp : p.Rep b (k • G))
    (hon : G1Jac.IsOnCurve p = true) : G1Jac.IsInSubGroup p ω = true :=
  C02sub_G1Jac_IsInSubGroup_complete hc hω hp hon (torsion_on_cyclic hrG k)
    (eigen_on_cyclic (phiHom b ω hc hω) hφG k)

/-- CONVERSE (soundness of the criterion) — the PUBLISHED result, NOT proved here: on this curve the points satisfying
−[x²]φ(P) = P are r-torsion (Scott 2021 §3; Bowe 2019, "Faster subgroup checks for BLS12-381"). A hypothesis with a name;
nothing but `C02sub_G1Jac_IsInSubGroup_sound` uses it. It is a statement about E(F_p) for the concrete p, ω: it is FALSE for
the analogous tests of bw6-633 G1 and bw6-761 G2 of this code base (known findings: the order-3 points (0, ±√b) pass). -/
def G1FastTestSound (b ω : F) (hω : ω ^ 3 = 1) : Prop := ∀ P : (sw 0 b).Point, G1Criterion b ω hω P → rOrd • P = 0

theorem C02sub_G1Jac_IsInSubGroup_sound (hc : (2 : F) ≠ 0) {ω : F} (hω : ω ^ 3 = 1) (hs : G1FastTestSound b ω hω)
    {p : G1Jac F} (hp : p.Rep b P) (h : G1Jac.IsInSubGroup p ω = true) : rOrd • P = 0 :=
  hs P ((C02sub_G1Jac_IsInSubGroup_spec hc hω hp).mp h).2

/-- `(*G1Affine).IsInSubGroup`: `IsOnCurve`, `FromAffine`, then the same test -/
theorem C02sub_G1Affine_IsInSubGroup_spec (hc : (2 : F) ≠ 0) {ω : F} (hω : ω ^ 3 = 1) {a : G1Affine F} (ha : a.Rep b P) :
    G1Affine.IsInSubGroup a b ω = true ↔ G1Criterion b ω hω P := by
  have hj := C02gen_G1Jac_FromAffine ha
  have h5 := C02gen_G1Jac_Equal (C02sub_G1Jac_Neg_inplace (C02sub_G1Jac_mulBySeed_inplace hc
    (C02sub_G1Jac_mulBySeed_inplace hc (C02sub_G1Jac_phi hω hj)))) hj
  have hon : G1Affine.IsOnCurve a b = true := by
    rw [C02gen_G1Affine_IsOnCurve]
    rcases ha with ⟨hx, hy, _⟩ | ⟨_, h, _⟩
    · exact Or.inl ⟨hx, hy⟩
    · exact Or.inr h.1
  unfold G1Affine.IsInSubGroup G1Criterion
  simpa [hon] using h5

/-! ### cofactor clearing -/

/-- `(*G1Jac).ClearCofactor`: `res.mulBySeed(q).AddAssign(q)` = [xGen + 1]Q, the effective cofactor 1 − x₀ -/
theorem C02sub_G1Jac_ClearCofactor (hc : (2 : F) ≠ 0) {q : G1Jac F} (hq : q.Rep b Q) :
    (G1Jac.ClearCofactor q).1.Rep b ((seed + 1) • Q) := by
  have h := C02gen_G1Jac_AddAssign hc (C02sub_G1Jac_mulBySeed hc hq) hq
  rw [add_smul, one_smul]
  exact h

theorem C02sub_G1Affine_ClearCofactor (hc : (2 : F) ≠ 0) (hb : b ≠ 0) {a : G1Affine F} (ha : a.Rep b Q) :
    (G1Affine.ClearCofactor a).1.Rep b ((seed + 1) • Q) := by
  have hj := C02gen_G1Jac_FromAffine ha
  have h := C02sub_G1Jac_ClearCofactor hc hj
  rw [← G1Jac.ClearCofactor_p_eq_q_alias] at h
  exact C02gen_G1Affine_FromJacobian hb h

/-- … which lies in the r-torsion when (xGen + 1)·r kills the point (the exponent of E(F_p): #E(F_p) = (x₀−1)²/3 · r with
E(F_p) ≅ ℤ/((x₀−1)/3) × ℤ/((x₀−1)·r); hypothesis) -/
theorem C02sub_G1Jac_ClearCofactor_torsion (hc : (2 : F) ≠ 0) {q : G1Jac F} (hq : q.Rep b Q)
    (hexp : ((seed + 1) * rOrd) • Q = 0) :
    ∃ R : (sw 0 b).Point, (G1Jac.ClearCofactor q).1.Rep b R ∧ rOrd • R = 0 :=
  ⟨_, C02sub_G1Jac_ClearCofactor hc hq, by rw [← mul_smul, mul_comm]; exact hexp⟩

end GV.Gen.Curve.bls12_381
