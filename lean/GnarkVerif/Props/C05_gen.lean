import GnarkVerif.Props.C05_gen_bn254
import GnarkVerif.Props.C05_gen_bn254_fe
import GnarkVerif.Props.C05_gen_bls12_381
import GnarkVerif.Props.C05_gen_bls12_381_fe
import GnarkVerif.Props.C05_gen_bls12_377
import GnarkVerif.Props.C05_gen_bls12_377_fe
import GnarkVerif.Props.C05_gen_bls24_315
import GnarkVerif.Props.C05_gen_bls24_317
/- C05 (tie T): step refinement of the optimised pairing code — theorems about the defs that tools/goslp regenerates from
   ecc/<curve>/pairing.go on every run (Gen/Pairing/*.lean). This module only imports the per-package files; written by
   bin/mkc05gen.py. 8 files, 73 theorems `C05gen_*` (listed with their axioms in Audit/C05_gen.lean).
   Generic algebra: Proofs/PairingGen.lean. -/
