/- C06 — extension-field operations agree with generic arithmetic (koalabear: E2 = Fr[u]/(u² = 3), E4 = E2[v]/(v² = u)).
   Every theorem is about a def GENERATED from the Go source (Gen/Tower/Koalabear.lean). -/
import GnarkVerif.Proofs.TowerKoalabear
import Mathlib.Tactic.NormNum
import Mathlib.Data.Rat.Init

namespace GV.Gen.Tower.koalabear
open GV.Tower

section ring
variable {F : Type} [CommRing F]

/-! ## E2 -/
@[gv_spec] theorem E2.Set_spec (x : E2 F) : (E2.Set x).1.spec = x.spec := rfl
@[gv_spec] theorem E2.SetZero_spec : (E2.SetZero (F := F)).spec = 0 := rfl
@[gv_spec] theorem E2.SetOne_spec : (E2.SetOne (F := F)).spec = 1 := rfl
@[gv_spec] theorem E2.Add_spec (x y : E2 F) : (E2.Add x y).1.spec = x.spec + y.spec := rfl
@[gv_spec] theorem E2.Sub_spec (x y : E2 F) : (E2.Sub x y).1.spec = x.spec - y.spec := rfl
@[gv_spec] theorem E2.Neg_spec (x : E2 F) : (E2.Neg x).1.spec = -x.spec := rfl
@[gv_spec] theorem E2.Double_spec (x : E2 F) : (E2.Double x).1.spec = x.spec + x.spec := rfl
@[gv_spec] theorem E2.Conjugate_spec (x : E2 F) : (E2.Conjugate x).1.spec = QuadExt.conj x.spec := rfl
@[gv_spec] theorem E2.Mul_spec (x y : E2 F) : (E2.Mul x y).1.spec = x.spec * y.spec := by
  ext <;> simp only [E2.Mul, gv_proj] <;> (try simp only [nr]) <;> ring
@[gv_spec] theorem E2.Square_spec (x : E2 F) : (E2.Square x).1.spec = x.spec * x.spec := by
  ext <;> simp only [E2.Square, gv_proj] <;> (try simp only [nr]) <;> ring
/-- multiplication by u -/
@[gv_spec] theorem E2.MulByNonResidue_spec (x : E2 F) :
    (E2.MulByNonResidue x).1.spec = QuadExt.gen * x.spec := by
  ext <;> simp only [E2.MulByNonResidue, gv_proj] <;> (try simp only [nr]) <;> ring
@[gv_spec] theorem E2.MulByElement_spec (x : E2 F) (y : F) :
    (E2.MulByElement x y).1.spec = x.spec * QuadExt.ofBase y := by
  ext <;> simp [E2.MulByElement]
theorem E2.norm_spec (z : E2 F) : (E2.norm z).2 = QuadExt.norm z.spec := by
  simp only [E2.norm, QuadExt.norm, gv_proj]; simp only [nr]; ring

/-! ## E4 = E2[v]/(v² = u) -/
@[gv_spec] theorem E4.Set_spec (x : E4 F) : (E4.Set x).1.spec = x.spec := rfl
@[gv_spec] theorem E4.SetZero_spec : (E4.SetZero (F := F)).spec = 0 := rfl
@[gv_spec] theorem E4.SetOne_spec : (E4.SetOne (F := F)).spec = 1 := rfl
@[gv_spec] theorem E4.Add_spec (x y : E4 F) : (E4.Add x y).1.spec = x.spec + y.spec := rfl
@[gv_spec] theorem E4.Sub_spec (x y : E4 F) : (E4.Sub x y).1.spec = x.spec - y.spec := rfl
@[gv_spec] theorem E4.Neg_spec (x : E4 F) : (E4.Neg x).1.spec = -x.spec := rfl
@[gv_spec] theorem E4.Double_spec (x : E4 F) : (E4.Double x).1.spec = x.spec + x.spec := rfl
@[gv_spec] theorem E4.Conjugate_spec (x : E4 F) : (E4.Conjugate x).1.spec = QuadExt.conj x.spec := rfl
@[gv_spec] theorem E4.Mul_spec (x y : E4 F) : (E4.Mul x y).1.spec = x.spec * y.spec := by
  gv_level E4.Mul
@[gv_spec] theorem E4.Square_spec (x : E4 F) : (E4.Square x).1.spec = x.spec * x.spec := by
  gv_level E4.Square
/-- multiplication by v -/
@[gv_spec] theorem E4.MulByNonResidue_spec (x : E4 F) :
    (E4.MulByNonResidue x).1.spec = QuadExt.gen * x.spec := by
  ext : 1 <;> simp [E4.MulByNonResidue, gv_alias, gv_spec]
@[gv_spec] theorem E4.MulByE2_spec (x : E4 F) (y : E2 F) :
    (E4.MulByE2 x y).1.spec = x.spec * QuadExt.ofBase y.spec := by
  ext : 1 <;> simp [E4.MulByE2, gv_alias, gv_spec]
@[gv_spec] theorem E4.MulByElement_spec (x : E4 F) (y : F) :
    (E4.MulByElement x y).1.spec = x.spec * QuadExt.ofBase (QuadExt.ofBase y) := by
  ext : 1 <;> simp [E4.MulByElement, gv_alias, gv_spec]
theorem E4.norm_spec (z : E4 F) : (E4.norm z).2.spec = QuadExt.norm z.spec := by
  simp only [E4.norm, gv_alias, gv_spec, QuadExt.norm, gv_proj]

end ring

section field
variable {F : Type} [Field F]

abbrev Fr2.inv (x : Fr2 F) : Fr2 F := QuadExt.invWith (·⁻¹) x
abbrev Fr4.inv (x : Fr4 F) : Fr4 F := QuadExt.invWith Fr2.inv x

@[gv_spec] theorem E2.Inverse_spec (x : E2 F) : (E2.Inverse x).1.spec = Fr2.inv x.spec := by
  ext <;> simp only [E2.Inverse, QuadExt.invWith, QuadExt.norm, gv_proj] <;> (try simp only [nr]) <;> ring
@[gv_spec] theorem E4.Inverse_spec (x : E4 F) : (E4.Inverse x).1.spec = Fr4.inv x.spec := by
  ext : 1 <;> simp only [E4.Inverse, gv_alias, gv_spec, gv_proj, Fr4.inv, QuadExt.invWith, QuadExt.norm] <;> ring_nf

theorem Fr2.mul_inv (x : Fr2 F) (h : x.norm ≠ 0) : x * Fr2.inv x = 1 :=
  QuadExt.mul_invWith _ x (mul_inv_cancel₀ h)
theorem Fr4.mul_inv (x : Fr4 F) (h : x.norm.norm ≠ 0) : x * Fr4.inv x = 1 :=
  QuadExt.mul_invWith Fr2.inv x (Fr2.mul_inv x.norm h)
theorem E2.mul_Inverse (x : E2 F) (h : x.spec.norm ≠ 0) : x.spec * (E2.Inverse x).1.spec = 1 := by
  rw [E2.Inverse_spec]; exact Fr2.mul_inv _ h
theorem E4.mul_Inverse (x : E4 F) (h : x.spec.norm.norm ≠ 0) : x.spec * (E4.Inverse x).1.spec = 1 := by
  rw [E4.Inverse_spec]; exact Fr4.mul_inv _ h
theorem E2.Div_spec (x y : E2 F) : (E2.Div x y).1.spec = x.spec * Fr2.inv y.spec := by
  simp only [E2.Div, gv_alias, gv_spec]
theorem E4.Div_spec (x y : E4 F) : (E4.Div x y).1.spec = x.spec * Fr4.inv y.spec := by
  simp only [E4.Div, gv_alias, gv_spec]
/-- Halve is multiplication by 2⁻¹ -/
theorem E2.Halve_spec (z : E2 F) : (E2.Halve z).spec = z.spec * QuadExt.ofBase ((1 + 1 : F)⁻¹) := by
  ext <;> simp [E2.Halve]
theorem E4.Halve_spec (z : E4 F) :
    (E4.Halve z).spec = z.spec * QuadExt.ofBase (QuadExt.ofBase ((1 + 1 : F)⁻¹)) := by
  ext : 2 <;> simp [E4.Halve]

example : (E2.mk (1 : ℚ) 1).spec.norm ≠ 0 := by simp only [QuadExt.norm, gv_proj]; simp only [nr]; norm_num

end field

end GV.Gen.Tower.koalabear
