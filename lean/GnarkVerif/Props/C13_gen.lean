import GnarkVerif.Props.C13_gen_bn254
import GnarkVerif.Props.C13_gen_grumpkin
import GnarkVerif.Props.C13_gen_secp256k1
import GnarkVerif.Props.C13_gen_stark_curve
import GnarkVerif.Props.C13_gen_bls12_381_iso
import GnarkVerif.Props.C13_gen_bls12_377_iso
import GnarkVerif.Props.C13_gen_bls24_315_iso
import GnarkVerif.Props.C13_gen_bls24_317_iso
import GnarkVerif.Props.C13_gen_bw6_761_iso
import GnarkVerif.Props.C13_gen_bw6_633_iso
import GnarkVerif.Props.C13_gen_closed
/- C13 (tie T): the hash-to-curve theorems about the defs that tools/goslp regenerates from the Go source on every run
   (Gen/H2C/*.lean). This module only imports the per-curve files; written by bin/mkc13gen.py.
   11 curves, 71 theorems (listed with their axioms in Audit/C13_gen.lean). -/
