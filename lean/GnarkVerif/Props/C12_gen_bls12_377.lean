/- INSTANTIATED by bin/mkc12gen.py (one proof template for all packages). DO NOT EDIT: edit the script and re-run it. -/
import GnarkVerif.Proofs.SigGen
import GnarkVerif.Gen.Verifier.Ecdsa_bls12_377
import GnarkVerif.Gen.Fields
import GnarkVerif.Model.SigParams
/-
C12, tie T for ecc/bls12-377/ecdsa: `Signature.SetBytes` and `(*PublicKey).Verify` (with and without a hash object) as REGENERATED
from the Go text (Gen/Verifier/Ecdsa_bls12_377.lean). `_shape`: the generated def IS the template of Proofs/SigGen.lean at this curve's scalar
size and group order (`rfl`). `_verify_hash` / `_verify_nohash`: run with the hand model's dictionary the generated Verify equals
`ECParams.verifyPK` of Model/Sig.lean (key validation - not the infinity, ON THE CURVE, `isOnCurve` = the model's curve equation - then
`ECParams.verify`) on every input, so `C12_ecdsa_verify_decides` etc. hold
of the translated text. `_verify_abstract`: over any types, the exact conjunction under which the Go text returns (true, nil).
Hypothesis `hred` of the model theorems: the x-coordinate of the point [u1]G + [u2]Q the model computes is reduced (< p); the Go code
reduces by construction, the model's `Pt Nat` does not carry that invariant.
-/
set_option linter.unusedVariables false
open GV GV.Alg GV.Sig GV.Gen.Verifier GV.SigGen
namespace GV.C12gen

/-- the group order the Go code uses (`fr.Modulus()`, re-read on this run) is the model's `n` and the modulus of Gen/Fields.lean -/
theorem C12gen_bls12_377_ecdsa_order : ecdsa_bls12_377.frModulus = ((SigParams.ec_bls12_377).n : Int) ∧ ecdsa_bls12_377.frModulus = ((GV.Gen.bls12_377_fr).q : Int) := ⟨rfl, rfl⟩

theorem C12gen_bls12_377_ecdsa_setbytes_shape {G Fp : Type} [Add G] [Sub G] [Neg G] [Zero G] [SMul Int G] [Add Fp] [Sub Fp] [Mul Fp] [Inv Fp] [Zero Fp] [BEq Fp] :
    ecdsa_bls12_377.Signature_SetBytes (G := G) (Fp := Fp) = sigSetBytesT (SigParams.ec_bls12_377).frBytes ((SigParams.ec_bls12_377).n : Int) := rfl

theorem C12gen_bls12_377_ecdsa_verify_hash_shape {G Fp : Type} [Add G] [Sub G] [Neg G] [Zero G] [SMul Int G] [Add Fp] [Sub Fp] [Mul Fp] [Inv Fp] [Zero Fp] [BEq Fp] :
    ecdsa_bls12_377.PublicKey_Verify_hash (G := G) (Fp := Fp) = ecdsaVerifyHashT (SigParams.ec_bls12_377).frBytes ((SigParams.ec_bls12_377).n : Int) := rfl

theorem C12gen_bls12_377_ecdsa_verify_nohash_shape {G Fp : Type} [Add G] [Sub G] [Neg G] [Zero G] [SMul Int G] [Add Fp] [Sub Fp] [Mul Fp] [Inv Fp] [Zero Fp] [BEq Fp] :
    ecdsa_bls12_377.PublicKey_Verify_nohash (G := G) (Fp := Fp) = ecdsaVerifyNoHashT (SigParams.ec_bls12_377).frBytes ((SigParams.ec_bls12_377).n : Int) := rfl

/-- generated `Verify` with a hash object (Write succeeds iff `wok`, digest `hsum`) = the model's verdict, every input -/
theorem C12gen_bls12_377_ecdsa_verify_hash (sm : Int → Pt Nat → Pt Nat) (wok : Bytes → Bool) (hsum : List Bytes → Bytes)
    (Q : Pt Nat) (sig msg : Bytes) (hred : ∀ e r s x y, (SigParams.ec_bls12_377).verifyPoint sm Q e r s = some (x, y) → x < (SigParams.ec_bls12_377).p) :
    ecdsa_bls12_377.PublicKey_Verify_hash (G := EG (SigParams.ec_bls12_377) sm) (Fp := EF (SigParams.ec_bls12_377).p) isInf isOnC modInv wok hsum (fun b => Int.ofNat ((SigParams.ec_bls12_377).hashToInt b)) ⟨(SigParams.ec_bls12_377).G⟩
        jacZ jacX fpToInt ⟨Q⟩ sig msg
      = toRes ((SigParams.ec_bls12_377).verifyPK sm (some (mkHash wok hsum)) Q sig msg) := by
  rw [C12gen_bls12_377_ecdsa_verify_hash_shape]
  exact ecdsaVerifyHashT_model (SigParams.ec_bls12_377) sm (by decide) wok hsum Q sig msg hred

/-- generated `Verify` with `hFunc == nil` (the message is the digest) = the model's verdict, every input -/
theorem C12gen_bls12_377_ecdsa_verify_nohash (sm : Int → Pt Nat → Pt Nat) (Q : Pt Nat) (sig msg : Bytes)
    (hred : ∀ e r s x y, (SigParams.ec_bls12_377).verifyPoint sm Q e r s = some (x, y) → x < (SigParams.ec_bls12_377).p) :
    ecdsa_bls12_377.PublicKey_Verify_nohash (G := EG (SigParams.ec_bls12_377) sm) (Fp := EF (SigParams.ec_bls12_377).p) isInf isOnC modInv (fun b => Int.ofNat ((SigParams.ec_bls12_377).hashToInt b)) ⟨(SigParams.ec_bls12_377).G⟩
        jacZ jacX fpToInt ⟨Q⟩ sig msg
      = toRes ((SigParams.ec_bls12_377).verifyPK sm none Q sig msg) := by
  rw [C12gen_bls12_377_ecdsa_verify_nohash_shape]
  exact ecdsaVerifyNoHashT_model (SigParams.ec_bls12_377) sm (by decide) Q sig msg hred

/-- generated `Signature.SetBytes` = the model's `sigParse` (error names, consumed length, the two halves copied) -/
theorem C12gen_bls12_377_ecdsa_sigparse {G Fp : Type} [Add G] [Sub G] [Neg G] [Zero G] [SMul Int G] [Add Fp] [Sub Fp] [Mul Fp] [Inv Fp] [Zero Fp] [BEq Fp] (r0 s0 buf : Bytes) (hr : r0.length = (SigParams.ec_bls12_377).frBytes) (hs : s0.length = (SigParams.ec_bls12_377).frBytes) :
    ecdsa_bls12_377.Signature_SetBytes (G := G) (Fp := Fp) r0 s0 buf =
      match (SigParams.ec_bls12_377).sigParse buf with
      | .error e => ((0 : Int), Res.err (errName e), r0, s0)
      | .ok (k, _, _) => ((k : Int), Res.ok, buf.take (SigParams.ec_bls12_377).frBytes, buf.drop (SigParams.ec_bls12_377).frBytes) := by
  rw [C12gen_bls12_377_ecdsa_setbytes_shape]
  exact sigSetBytesT_spec (SigParams.ec_bls12_377) r0 s0 buf hr hs

/-- abstract level: the exact acceptance condition of the Go text (see `ecdsaVerifyNoHashT_abstract`) -/
theorem C12gen_bls12_377_ecdsa_verify_abstract {G Fp : Type} [Add G] [Sub G] [Neg G] [Zero G] [SMul Int G] [Add Fp] [Sub Fp] [Mul Fp] [Inv Fp] [Zero Fp] [BEq Fp]
    (isInfinity : G → Bool) (isOnCurve : G → Bool) (modInverse : Int → Int → Int) (hashToInt : List UInt8 → Int) (g : G)
    (jacZ jacX : G → Fp) (fpToInt : Fp → Int) (Q : G) (sig msg : List UInt8)
    (r s : Nat) (hr : r = beToNat (sig.take (SigParams.ec_bls12_377).frBytes)) (hs : s = beToNat ((sig.drop (SigParams.ec_bls12_377).frBytes).take (SigParams.ec_bls12_377).frBytes))
    (U : G) (hU : U = (hashToInt msg * modInverse (s : Int) ecdsa_bls12_377.frModulus % ecdsa_bls12_377.frModulus) • g + ((r : Int) * modInverse (s : Int) ecdsa_bls12_377.frModulus % ecdsa_bls12_377.frModulus) • Q) :
    ecdsa_bls12_377.PublicKey_Verify_nohash isInfinity isOnCurve modInverse hashToInt g jacZ jacX fpToInt Q sig msg = (true, Res.ok) ↔
      (isInfinity Q = false ∧ isOnCurve Q = true ∧ sig.length = 2 * (SigParams.ec_bls12_377).frBytes ∧ r ≠ 0 ∧ (r : Int) < ecdsa_bls12_377.frModulus ∧ s ≠ 0 ∧ (s : Int) < ecdsa_bls12_377.frModulus ∧
        fpToInt ((jacZ U * jacZ U)⁻¹ * jacX U) % ecdsa_bls12_377.frModulus = (r : Int)) := by
  rw [C12gen_bls12_377_ecdsa_verify_nohash_shape]
  exact ecdsaVerifyNoHashT_abstract _ _ isInfinity isOnCurve modInverse hashToInt g jacZ jacX fpToInt Q sig msg r s hr hs U hU

end GV.C12gen
