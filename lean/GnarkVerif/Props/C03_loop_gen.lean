import GnarkVerif.Proofs.ScalarMulGen
import GnarkVerif.Props.C03
/-
C03_loop_gen — tie T for the scalar-multiplication LOOPS.

Subject: the Lean defs of `Gen/Imp/MulW_<curve>_G{1,2}.lean`, REGENERATED on every run (tools/goslp mode "imp", group level: imp_grp.go) from
`func (p *G1Jac) mulWindowed(q *G1Jac, s *big.Int) *G1Jac` (and G2Jac) of the 10 short-Weierstrass packages (17 groups), statement by
statement: the sign folding, the table of 3 points, the byte loop over `s.Bytes()`, the four 2-bit windows per byte with their
mask / shift arithmetic on `byte`, the table lookup `ops[c-1]`, the final copy into the receiver.

PARAMETERS of the generated defs (what is NOT translated here):
* the point type is an abstract type `G`; `Set` = copy, `Neg(&x)` = `neg x`, `Double(&x)` / `DoubleAssign()` = `dbl x`,
  `AddAssign(&y)` = `add x y`, `&g1Infinity` / `&g2Infinity` = `zero`; that these methods compute the group law (on every input, under
  aliasing of receiver and operand) is C02_gen's subject; here it is the HYPOTHESIS `hdbl : ∀ x, dbl x = add x x` plus the group axioms
  of the instance the theorem is applied to;
* `uninit` = the Go zero value of the point type (`var res G1Jac`, `var ops [3]G1Jac`): the theorems hold for every value of it, and
  for every initial value of the receiver `p`;
* `*big.Int` is an exact integer (`Sign`, `Bytes` = big-endian bytes of |s| without leading zero).
CHECKED by the translator (fatal otherwise): every method used in a chain (`res.DoubleAssign().DoubleAssign()`, `ops[2].Set(…).AddAssign(…)`)
returns its receiver on every path; the pointer parameter `q` (which may alias the receiver `p`) is not read after the first write to `p`.
Not modelled: the index panic of `ops[c-1]` (the theorem `sel_eq` shows c-1 ∈ {0,1,2} whenever it is read).

Abstraction function: none is needed (no state survives a call) — the refinement is an EQUALITY of functions:
`mulWindowed add dbl neg zero uninit p q s = Model.ScalarMul.mulWindowed ⟨add, neg, zero⟩ s q` for every s ∈ ℤ.
-/
namespace GV.ScalarMulGen
open GV.GoImp GV.ScalarMul GV.Gen.Imp

section
variable {G : Type}

/-- REFINEMENT (bn254 G1): the translated text equals the hand model, on every dictionary of operations, for every integer scalar. -/
theorem C03loop_mulWindowed_refines (add : G → G → G) (dbl neg : G → G) (zero uninit : G) (hdbl : ∀ x, dbl x = add x x)
    (p q : G) (s : ℤ) :
    MulW_bn254_G1.mulWindowed add dbl neg zero uninit p q s = ScalarMul.mulWindowed ⟨add, neg, zero⟩ s q :=
  mulWindowed_eq_model add dbl neg zero uninit hdbl p q s

/-- the hypothesis is satisfiable (ℤ with `dbl x = 2x`) -/
example : ∀ x : ℤ, (fun x => 2 * x) x = (· + ·) x x := fun x => by ring

/-- all 17 groups (G1 of 10 curves, G2 of 7): the same term as bn254 G1, hence the same refinement -/
theorem C03loop_mulWindowed_refines_all (add : G → G → G) (dbl neg : G → G) (zero uninit : G) (hdbl : ∀ x, dbl x = add x x) :
    ∀ e ∈ MulWAll.all_mulWindowed, ∀ (p q : G) (s : ℤ),
      e.2 add dbl neg zero uninit p q s = ScalarMul.mulWindowed ⟨add, neg, zero⟩ s q := by
  intro e he p q s
  have h := MulWAll.all_mulWindowed_same e he
  have h' : e.2 add dbl neg zero uninit p q s = MulW_bn254_G1.mulWindowed add dbl neg zero uninit p q s := by
    rw [← h]
  rw [h']
  exact mulWindowed_eq_model add dbl neg zero uninit hdbl p q s

example : MulWAll.all_mulWindowed.length = 17 := rfl
end

section Group
variable {G : Type} [AddCommGroup G]

/-- C03 for the translated text: in every additive commutative group, with ANY doubling routine that doubles, the translated
`mulWindowed` returns `s • Q` for every s ∈ ℤ (zero, negative, arbitrarily long), whatever the receiver held. -/
theorem C03loop_mulWindowed_smul (dbl : G → G) (hdbl : ∀ x, dbl x = x + x) (uninit p Q : G) (s : ℤ) :
    MulW_bn254_G1.mulWindowed (· + ·) dbl Neg.neg 0 uninit p Q s = s • Q := by
  rw [C03loop_mulWindowed_refines (· + ·) dbl Neg.neg 0 uninit hdbl p Q s]
  exact C03_mulWindowed s Q

/-- non-vacuity: ℤ with `dbl x = 2x`; [-300]·7 with the receiver holding 99 and the zero value 12345 -/
example : MulW_bn254_G1.mulWindowed (· + ·) (fun x : ℤ => 2 * x) Neg.neg 0 12345 99 7 (-300) = -2100 := by
  rw [C03loop_mulWindowed_smul _ (fun x => by ring)]; norm_num

/-- … and so does the translated `mulWindowed` of each of the 17 groups. -/
theorem C03loop_mulWindowed_smul_all (dbl : G → G) (hdbl : ∀ x, dbl x = x + x) (uninit : G) :
    ∀ e ∈ MulWAll.all_mulWindowed, ∀ (p Q : G) (s : ℤ), e.2 (· + ·) dbl Neg.neg 0 uninit p Q s = s • Q := by
  intro e he p Q s
  rw [C03loop_mulWindowed_refines_all (· + ·) dbl Neg.neg 0 uninit hdbl e he p Q s]
  exact C03_mulWindowed s Q

/-- the result does not depend on the receiver's old value nor on the Go zero value (no read of an unwritten object) -/
theorem C03loop_mulWindowed_frame (dbl : G → G) (hdbl : ∀ x, dbl x = x + x) (u u' p p' Q : G) (s : ℤ) :
    MulW_bn254_G1.mulWindowed (· + ·) dbl Neg.neg 0 u p Q s = MulW_bn254_G1.mulWindowed (· + ·) dbl Neg.neg 0 u' p' Q s := by
  rw [C03loop_mulWindowed_smul dbl hdbl, C03loop_mulWindowed_smul dbl hdbl]

end Group

/-! ## twisted Edwards: `scalarMulWindowed` / `ScalarMultiplication` of `PointProj` and `PointExtended`

Subject: `Gen/Imp/TEMul_<curve>_{Proj,Ext}.lean`, regenerated from `ecc/<curve>/twistededwards/point.go` (7 packages) and
`ecc/bls12-381/bandersnatch/point.go` (only `scalarMulWindowed`: its `ScalarMultiplication` goes through `scalarMulGLV`, not translated):
the copy of the scalar into a local `big.Int`, the sign folding (`_scalar.Neg`, `p.Neg(p)` on the RECEIVER, which is then the base point of
the loop), `resProj.setInfinity()` = `zero`, the word loop from the top word of `_scalar.Bits()` down, the 64 bits of a word MSB first
(`const wordSize = bits.UintSize` read as 64: 64-bit platform), `Double(&res)` = `dbl`, `Add(&res, p)` = `add`, the final copy.
`ScalarMultiplication` = the call of `scalarMulWindowed` on the same receiver and arguments. Same parameters / hypotheses as above. -/

section
variable {G : Type}

/-- REFINEMENT (bn254 `PointProj`): translated `scalarMulWindowed` = `teScalarMul` of the model, every dictionary, every integer scalar -/
theorem C03loop_te_refines (add : G → G → G) (dbl neg : G → G) (zero uninit : G) (hdbl : ∀ x, dbl x = add x x)
    (p p1 : G) (s : ℤ) :
    TEMul_bn254_Proj.scalarMulWindowed add dbl neg zero uninit p p1 s = teScalarMul ⟨add, neg, zero⟩ s p1 :=
  te_eq_model add dbl neg zero uninit hdbl p p1 s

/-- all 16 instances (8 packages × {PointProj, PointExtended}) -/
theorem C03loop_te_refines_all (add : G → G → G) (dbl neg : G → G) (zero uninit : G) (hdbl : ∀ x, dbl x = add x x) :
    ∀ e ∈ TEMulAll.all_scalarMulWindowed, ∀ (p p1 : G) (s : ℤ),
      e.2 add dbl neg zero uninit p p1 s = teScalarMul ⟨add, neg, zero⟩ s p1 := by
  intro e he p p1 s
  have h := TEMulAll.all_scalarMulWindowed_same e he
  have h' : e.2 add dbl neg zero uninit p p1 s = TEMul_bn254_Proj.scalarMulWindowed add dbl neg zero uninit p p1 s := by
    rw [← h]
  rw [h']
  exact te_eq_model add dbl neg zero uninit hdbl p p1 s

/-- the exported `ScalarMultiplication` of the 14 non-bandersnatch instances -/
theorem C03loop_te_ScalarMultiplication_all (add : G → G → G) (dbl neg : G → G) (zero uninit : G) (hdbl : ∀ x, dbl x = add x x) :
    ∀ e ∈ TEMulAll.all_ScalarMultiplication, ∀ (p p1 : G) (s : ℤ),
      e.2 add dbl neg zero uninit p p1 s = teScalarMul ⟨add, neg, zero⟩ s p1 := by
  intro e he p p1 s
  have h := TEMulAll.all_ScalarMultiplication_same e he
  have h' : e.2 add dbl neg zero uninit p p1 s = TEMul_bn254_Proj.ScalarMultiplication add dbl neg zero uninit p p1 s := by
    rw [← h]
  rw [h']
  exact te_eq_model add dbl neg zero uninit hdbl p p1 s

example : TEMulAll.all_scalarMulWindowed.length = 16 ∧ TEMulAll.all_ScalarMultiplication.length = 14 := ⟨rfl, rfl⟩
end

section Group
variable {G : Type} [AddCommGroup G]

/-- C03 for the translated twisted-Edwards text: `s • P` for every s ∈ ℤ in every additive commutative group -/
theorem C03loop_te_smul (dbl : G → G) (hdbl : ∀ x, dbl x = x + x) (uninit p P : G) (s : ℤ) :
    TEMul_bn254_Proj.scalarMulWindowed (· + ·) dbl Neg.neg 0 uninit p P s = s • P := by
  rw [C03loop_te_refines (· + ·) dbl Neg.neg 0 uninit hdbl p P s]
  exact C03_teScalarMul s P

example : TEMul_bn254_Proj.scalarMulWindowed (· + ·) (fun x : ℤ => 2 * x) Neg.neg 0 12345 99 7 (-(2 ^ 70) - 3) = (-(2 ^ 70) - 3) * 7 := by
  rw [C03loop_te_smul _ (fun x => by ring)]; rfl

theorem C03loop_te_smul_all (dbl : G → G) (hdbl : ∀ x, dbl x = x + x) (uninit : G) :
    (∀ e ∈ TEMulAll.all_scalarMulWindowed, ∀ (p P : G) (s : ℤ), e.2 (· + ·) dbl Neg.neg 0 uninit p P s = s • P) ∧
    (∀ e ∈ TEMulAll.all_ScalarMultiplication, ∀ (p P : G) (s : ℤ), e.2 (· + ·) dbl Neg.neg 0 uninit p P s = s • P) := by
  constructor
  · intro e he p P s
    rw [C03loop_te_refines_all (· + ·) dbl Neg.neg 0 uninit hdbl e he p P s]
    exact C03_teScalarMul s P
  · intro e he p P s
    rw [C03loop_te_ScalarMultiplication_all (· + ·) dbl Neg.neg 0 uninit hdbl e he p P s]
    exact C03_teScalarMul s P

/-- the Weierstrass window loop and the Edwards bit loop, both as translated, agree on every input -/
theorem C03loop_variants_agree (dbl : G → G) (hdbl : ∀ x, dbl x = x + x) (u p P : G) (s : ℤ) :
    MulW_bn254_G1.mulWindowed (· + ·) dbl Neg.neg 0 u p P s = TEMul_bn254_Proj.scalarMulWindowed (· + ·) dbl Neg.neg 0 u p P s := by
  rw [C03loop_mulWindowed_smul dbl hdbl, C03loop_te_smul dbl hdbl]

end Group

end GV.ScalarMulGen
