import GnarkVerif.Proofs.PairingGen
import GnarkVerif.Props.C02_gen_bls24_315_g2
import GnarkVerif.Gen.Pairing.Bls24_315
/-
C05 (tie T) — bls24_315: step refinement of the optimised pairing code of /repo/ecc/bls24-315/pairing.go.

Every theorem is about a def that tools/goslp REGENERATES from pairing.go on every run (Gen/Pairing/Bls24_315.lean):
`g2Proj.doubleStep`, `g2Proj.addMixedStep`, `g2Proj.lineCompute`, `G2Affine.doubleStep`, `G2Affine.addStep`,
`FinalExponentiation`; these defs call the regenerated tower methods (Gen/Tower/Bls24_315.lean)
whose specifications are the C06 theorems. `spec : E4 F → K4 F = Fp[u]/(u²+1)` is the bijection of Proofs/TowerBls24_315.lean;
K4 F is a field (class `QuadExt.NonSquare (-1)`, as in Props/C02_gen_bls24_315_g2.lean).

* bridge lemmas `*_eq`: generated def, read through `spec`, = closed formula of Proofs/PairingGen.lean (breaks when a token of
  the Go function changes);
* `C05gen_*`: what the formulas mean (point = [2]P / P+Q in Mathlib's group of points of y² = x³ + b'; projective line =
  r0 · affine line, r0 ≠ 0 in the twist coordinate field; final exponentiation: exponent of the hard part).

`hbt` (hypothesis, as in Props/C02_gen_bls24_315_g2.lean): the generated `E4.MulBybTwistCurveCoeff` multiplies by the twist
coefficient b'. It is DISCHARGED by `MulBybTwistCurveCoeff_spec` with b' = `bTwist`, the element read off the generated body.

INSTANTIATED by bin/mkc05gen.py from the master Props/C05_gen_bn254.lean — DO NOT EDIT: edit the master and re-run
the script (regions `-- [name … -- name]` are replaced per curve; for the curves whose
`lineEvaluation` stores the coefficients in the opposite order the field names r0/r2 are swapped).
-/
set_option linter.unusedSectionVars false
set_option linter.unusedVariables false
set_option linter.unusedSimpArgs false
set_option linter.unnecessarySeqFocus false
namespace GV.Gen.Pairing.bls24_315
open GV.Curve GV.C02 GV.CurveGen GV.PairingGen GV.Tower GV.Gen.Tower.bls24_315 GV.Gen.Curve.bls24_315 WeierstrassCurve

section steps
variable {F : Type} [Field F] [DecidableEq F] [QuadExt.NonSquare (13 : F)] [QuadExt.NonSquare (xi : Fp2 F)]

def _root_.GV.Gen.Curve.bls24_315.g2Proj.specT (p : g2Proj F) : K4 F × K4 F × K4 F := (p.x.spec, p.y.spec, p.z.spec)
def lineEvaluation.specT (l : lineEvaluation F) : K4 F × K4 F × K4 F := (l.r0.spec, l.r1.spec, l.r2.spec)
def LineEvaluationAff.specT (l : LineEvaluationAff F) : K4 F × K4 F := (l.R0.spec, l.R1.spec)

/-- p represents the group element P of y² = x³ + b over K4 in homogeneous projective coordinates -/
def _root_.GV.Gen.Curve.bls24_315.g2Proj.Rep (b : K4 F) (p : g2Proj F) (P : (sw 0 b).Point) : Prop :=
  ProjPt 0 b p.x.spec p.y.spec p.z.spec P

-- [coord2
theorem K4_two : (2 : K4 F) = ⟨⟨2, 0⟩, 0⟩ := by
  rw [← one_add_one_eq_two]
  ext <;> simp <;> norm_num

/-- char K4 ≠ 2 when char F ≠ 2 -/
theorem two_ne_zero_K4 (h2 : (2 : F) ≠ 0) : (2 : K4 F) ≠ 0 := by
  intro h; apply h2; rw [K4_two] at h; simpa using congrArg (fun x : K4 F => x.a0.a0) h

/-- `E4.Halve` halves (in the field K4) -/
theorem E4.Halve_spec (x : E4 F) : (E4.Halve x).spec = x.spec / 2 := by
  by_cases h2 : (2 : F) = 0
  · have h2' : (2 : K4 F) = 0 := by rw [K4_two]; ext <;> simp [h2]
    have h11 : ((1 : F) + 1) = 0 := by rw [one_add_one_eq_two]; exact h2
    rw [h2', div_zero]
    ext <;> simp [E4.Halve, h11]
  · rw [eq_div_iff (two_ne_zero_K4 h2), K4_two]
    ext <;> simp [E4.Halve, one_add_one_eq_two, h2]

theorem E4.Div_spec' (x y : E4 F) : (E4.Div x y).1.spec = x.spec / y.spec := by
  rw [E4.Div_spec, div_eq_mul_inv]; rfl
-- coord2]

-- [btwist
/- `hbt` stays a hypothesis for this package: the generated `E4.MulBybTwistCurveCoeff` multiplies by b' only in characteristic p
   (its body uses the literal (ξ)⁻¹ of `E2.MulByNonResidueInv`). -/
-- btwist]

/-- bridge tactic: unfold the generated def, rewrite aliased variants, push `spec`, `ring` in K4 -/
syntax "gv_step " "[" Lean.Parser.Tactic.simpLemma,* "]" : tactic
macro_rules
  | `(tactic| gv_step [$ds,*]) =>
    `(tactic| (simp only [$ds,*, gv_alias, g2Proj.specT, lineEvaluation.specT, LineEvaluationAff.specT, G2Affine.specT,
                 projDouble, projDoubleLine, projAddMixed, projAddLine, affDoubleStep, affAddStep, affLine,
                 Prod.mk.injEq, gv_spec, E4.Halve_spec, E4.Div_spec'] <;>
               (repeat' apply And.intro) <;> first | trivial | ring1))

/-! ## bridge lemmas: generated def = closed formula -/

theorem g2Proj.doubleStep_eq (p : g2Proj F) (b : K4 F) (hbt : ∀ t : E4 F, (E4.MulBybTwistCurveCoeff t).1.spec = b * t.spec) :
    (g2Proj.doubleStep p).1.specT = projDouble b p.x.spec p.y.spec p.z.spec ∧
    (g2Proj.doubleStep p).2.specT = projDoubleLine b p.x.spec p.y.spec p.z.spec := by
  gv_step [g2Proj.doubleStep, hbt]

theorem g2Proj.addMixedStep_eq (p : g2Proj F) (a : G2Affine F) :
    (g2Proj.addMixedStep p a).1.specT = projAddMixed p.x.spec p.y.spec p.z.spec a.X.spec a.Y.spec ∧
    (g2Proj.addMixedStep p a).2.1.specT = projAddLine p.x.spec p.y.spec p.z.spec a.X.spec a.Y.spec ∧
    (g2Proj.addMixedStep p a).2.2 = a := by
  refine ⟨?_, ?_, rfl⟩ <;> gv_step [g2Proj.addMixedStep]

-- [line2eq
/-- `lineCompute`: the line of `addMixedStep`, the point is left unchanged -/
theorem g2Proj.lineCompute_eq (p : g2Proj F) (a : G2Affine F) :
    (g2Proj.lineCompute p a).1 = p ∧
    (g2Proj.lineCompute p a).2.1.specT = projAddLine p.x.spec p.y.spec p.z.spec a.X.spec a.Y.spec ∧
    (g2Proj.lineCompute p a).2.2 = a := by
  refine ⟨rfl, ?_, rfl⟩; gv_step [g2Proj.lineCompute]
-- line2eq]

theorem G2Affine.doubleStep_eq (p : G2Affine F) :
    ((G2Affine.doubleStep p).1.specT, (G2Affine.doubleStep p).2.specT) = affDoubleStep p.X.spec p.Y.spec := by
  gv_step [G2Affine.doubleStep]

theorem G2Affine.addStep_eq (p a : G2Affine F) :
    ((G2Affine.addStep p a).1.specT, (G2Affine.addStep p a).2.1.specT) = affAddStep p.X.spec p.Y.spec a.X.spec a.Y.spec ∧
    (G2Affine.addStep p a).2.2 = a := by
  refine ⟨?_, rfl⟩; gv_step [G2Affine.addStep]

-- [dadd1
-- dadd1]


/-! ## meaning of the step functions -/

theorem g2Proj.specT_x {p : g2Proj F} {t : K4 F × K4 F × K4 F} (h : p.specT = t) : p.x.spec = t.1 := congrArg Prod.fst h
theorem g2Proj.specT_y {p : g2Proj F} {t : K4 F × K4 F × K4 F} (h : p.specT = t) : p.y.spec = t.2.1 :=
  congrArg (fun u => u.2.1) h
theorem g2Proj.specT_z {p : g2Proj F} {t : K4 F × K4 F × K4 F} (h : p.specT = t) : p.z.spec = t.2.2 :=
  congrArg (fun u => u.2.2) h
theorem lineEvaluation.specT_r0 {l : lineEvaluation F} {t : K4 F × K4 F × K4 F} (h : l.specT = t) : l.r0.spec = t.1 :=
  congrArg Prod.fst h
theorem lineEvaluation.specT_r1 {l : lineEvaluation F} {t : K4 F × K4 F × K4 F} (h : l.specT = t) : l.r1.spec = t.2.1 :=
  congrArg (fun u => u.2.1) h
theorem lineEvaluation.specT_r2 {l : lineEvaluation F} {t : K4 F × K4 F × K4 F} (h : l.specT = t) : l.r2.spec = t.2.2 :=
  congrArg (fun u => u.2.2) h

variable (b : K4 F)

/-- **doubleStep, point (TOTAL)**: whatever group element `P` of y² = x³ + b' the input represents in homogeneous projective
    coordinates (infinity `Z = 0`, a 2-torsion point, any other point), the returned point represents `P + P` -/
theorem C05gen_doubleStep_point (p : g2Proj F) (hbt : ∀ t : E4 F, (E4.MulBybTwistCurveCoeff t).1.spec = b * t.spec)
    (h2 : (2 : F) ≠ 0) {P : (sw 0 b).Point} (hp : p.Rep b P) : (g2Proj.doubleStep p).1.Rep b (P + P) := by
  have h := (g2Proj.doubleStep_eq p b hbt).1
  unfold g2Proj.Rep
  rw [g2Proj.specT_x h, g2Proj.specT_y h, g2Proj.specT_z h]
  exact projDouble_total (two_ne_zero_K4 h2) hp

/-- **doubleStep, line**: for `p = (X:Y:Z)` representing the curve point `(x, y)`, `y ≠ 0`, the returned coefficients are
    `(r0, r1, r2) = r0 · (1, −λ, λ·x − y)` with `λ = 3x²/(2y)` the tangent slope and `r0 = −2·Y·Z ≠ 0`, i.e.
    `r0·y' + r1·x' + r2 = r0 · ((y' − y) − λ·(x' − x))`: the tangent at `P`, up to the factor `r0` of the coordinate field -/
theorem C05gen_doubleStep_line (p : g2Proj F) (hbt : ∀ t : E4 F, (E4.MulBybTwistCurveCoeff t).1.spec = b * t.spec)
    (h2 : (2 : F) ≠ 0) {x y : K4 F} (hr : ProjRep p.x.spec p.y.spec p.z.spec x y) (hon : OnCurve 0 b x y) (hy : y ≠ 0) :
    (g2Proj.doubleStep p).2.r0.spec = -(2 * p.y.spec * p.z.spec) ∧ (g2Proj.doubleStep p).2.r0.spec ≠ 0 ∧
    ∀ x' y' : K4 F, (g2Proj.doubleStep p).2.r0.spec * y' + (g2Proj.doubleStep p).2.r1.spec * x' + (g2Proj.doubleStep p).2.r2.spec
      = (g2Proj.doubleStep p).2.r0.spec * ((y' - y) - 3 * x ^ 2 / (2 * y) * (x' - x)) := by
  have h := (g2Proj.doubleStep_eq p b hbt).2
  obtain ⟨h0, hne, h1, h2'⟩ := projDoubleLine_affine (two_ne_zero_K4 h2) hr hon hy
  rw [lineEvaluation.specT_r0 h, lineEvaluation.specT_r1 h, lineEvaluation.specT_r2 h]
  refine ⟨h0, hne, fun x' y' => ?_⟩
  rw [h1, h2', affDoubleStep_line]
  simp only [affLine]
  ring

/-- **doubleStep, line, division-free**: on the projective curve `Y²Z = X³ + b'Z³` the returned line satisfies
    `Z·ℓ(x', y') = −(2YZ·(Z·y' − Y) − 3X²·(Z·x' − X))` (the homogeneous tangent at `(X:Y:Z)`), for every input -/
theorem C05gen_doubleStep_tangent (p : g2Proj F) (hbt : ∀ t : E4 F, (E4.MulBybTwistCurveCoeff t).1.spec = b * t.spec)
    (hon : p.y.spec ^ 2 * p.z.spec = p.x.spec ^ 3 + b * p.z.spec ^ 3) (x' y' : K4 F) :
    p.z.spec * ((g2Proj.doubleStep p).2.r0.spec * y' + (g2Proj.doubleStep p).2.r1.spec * x' + (g2Proj.doubleStep p).2.r2.spec)
      = -(2 * p.y.spec * p.z.spec * (p.z.spec * y' - p.y.spec) - 3 * p.x.spec ^ 2 * (p.z.spec * x' - p.x.spec)) := by
  have h := (g2Proj.doubleStep_eq p b hbt).2
  rw [lineEvaluation.specT_r0 h, lineEvaluation.specT_r1 h, lineEvaluation.specT_r2 h]
  exact projDoubleLine_tangent hon x' y'

/-- **fixed-Q refinement, doubling**: when the projective `p` and the affine `q` represent the same curve point (`y ≠ 0`), the
    generated projective `doubleStep` and the generated affine `doubleStep` return the same point, and the projective line is
    the affine line `(1, −R0, R1)` times `r0 ≠ 0` (an element of the coordinate field E4 ⊂ E6, killed by the final
    exponentiation: `C05gen_FinalExponentiation_mul_subfield`) -/
theorem C05gen_doubleStep_fixedQ (p : g2Proj F) (q : G2Affine F) (hbt : ∀ t : E4 F, (E4.MulBybTwistCurveCoeff t).1.spec = b * t.spec)
    (h2 : (2 : F) ≠ 0) (hr : ProjRep p.x.spec p.y.spec p.z.spec q.X.spec q.Y.spec) (hon : OnCurve 0 b q.X.spec q.Y.spec)
    (hy : q.Y.spec ≠ 0) :
    ProjRep (g2Proj.doubleStep p).1.x.spec (g2Proj.doubleStep p).1.y.spec (g2Proj.doubleStep p).1.z.spec
      (G2Affine.doubleStep q).1.X.spec (G2Affine.doubleStep q).1.Y.spec ∧
    (g2Proj.doubleStep p).2.r0.spec ≠ 0 ∧
    (g2Proj.doubleStep p).2.r1.spec = (g2Proj.doubleStep p).2.r0.spec * -(G2Affine.doubleStep q).2.R0.spec ∧
    (g2Proj.doubleStep p).2.r2.spec = (g2Proj.doubleStep p).2.r0.spec * (G2Affine.doubleStep q).2.R1.spec := by
  obtain ⟨hP, hL⟩ := g2Proj.doubleStep_eq p b hbt
  have hA := G2Affine.doubleStep_eq q
  have hA1 : (G2Affine.doubleStep q).1.specT = (affDoubleStep q.X.spec q.Y.spec).1 := congrArg Prod.fst hA
  have hA2 : (G2Affine.doubleStep q).2.specT = (affDoubleStep q.X.spec q.Y.spec).2 := congrArg Prod.snd hA
  have hAx : (G2Affine.doubleStep q).1.X.spec = (tangent 0 q.X.spec q.Y.spec).1 := by
    rw [← affDoubleStep_point]; exact congrArg Prod.fst hA1
  have hAy : (G2Affine.doubleStep q).1.Y.spec = (tangent 0 q.X.spec q.Y.spec).2 := by
    rw [← affDoubleStep_point]; exact congrArg Prod.snd hA1
  have hR0 : (G2Affine.doubleStep q).2.R0.spec = (affDoubleStep q.X.spec q.Y.spec).2.1 := congrArg Prod.fst hA2
  have hR1 : (G2Affine.doubleStep q).2.R1.spec = (affDoubleStep q.X.spec q.Y.spec).2.2 := congrArg Prod.snd hA2
  obtain ⟨_, hne, h1, h2'⟩ := projDoubleLine_affine (two_ne_zero_K4 h2) hr hon hy
  rw [g2Proj.specT_x hP, g2Proj.specT_y hP, g2Proj.specT_z hP, lineEvaluation.specT_r0 hL, lineEvaluation.specT_r1 hL,
    lineEvaluation.specT_r2 hL, hAx, hAy, hR0, hR1]
  exact ⟨projDouble_rep (two_ne_zero_K4 h2) hr hon hy, hne, h1, h2'⟩

/-- **addMixedStep, point**: for `p` representing `(x1, y1)` and the affine `a = (x2, y2)`, both on the curve, `x1 ≠ x2`,
    the returned point represents `P + Q` in Mathlib's group of points -/
theorem C05gen_addMixedStep_point (p : g2Proj F) (a : G2Affine F) {x1 y1 : K4 F} (h1 : (sw 0 b).Nonsingular x1 y1)
    (h2 : (sw 0 b).Nonsingular a.X.spec a.Y.spec) (hr : ProjRep p.x.spec p.y.spec p.z.spec x1 y1) (hx : x1 ≠ a.X.spec) :
    (g2Proj.addMixedStep p a).1.Rep b (Affine.Point.some x1 y1 h1 + Affine.Point.some _ _ h2) := by
  have h := (g2Proj.addMixedStep_eq p a).1
  unfold g2Proj.Rep
  rw [g2Proj.specT_x h, g2Proj.specT_y h, g2Proj.specT_z h]
  exact projAddMixed_group h1 h2 hr hx

/-- **addMixedStep, line**: `(r0, r1, r2) = r0 · (1, −λ, λ·x1 − y1)` with `λ` the chord slope and `r0 = Z·(x1 − x2) ≠ 0` -/
theorem C05gen_addMixedStep_line (p : g2Proj F) (a : G2Affine F) {x1 y1 : K4 F}
    (hr : ProjRep p.x.spec p.y.spec p.z.spec x1 y1) (hx : x1 ≠ a.X.spec) :
    (g2Proj.addMixedStep p a).2.1.r0.spec = p.z.spec * (x1 - a.X.spec) ∧ (g2Proj.addMixedStep p a).2.1.r0.spec ≠ 0 ∧
    (∀ x' y' : K4 F, (g2Proj.addMixedStep p a).2.1.r0.spec * y' + (g2Proj.addMixedStep p a).2.1.r1.spec * x' +
        (g2Proj.addMixedStep p a).2.1.r2.spec
      = (g2Proj.addMixedStep p a).2.1.r0.spec * ((y' - y1) - (a.Y.spec - y1) / (a.X.spec - x1) * (x' - x1))) := by
  have h := (g2Proj.addMixedStep_eq p a).2.1
  obtain ⟨h0, hne, h1, h2'⟩ := projAddLine_affine (y2 := a.Y.spec) hr hx
  rw [lineEvaluation.specT_r0 h, lineEvaluation.specT_r1 h, lineEvaluation.specT_r2 h]
  refine ⟨h0, hne, fun x' y' => ?_⟩
  rw [h1, h2']
  simp only [affAddStep, affLine]
  ring

-- [line2
/-- **lineCompute** returns the line of `addMixedStep` and leaves `p` and `a` unchanged -/
theorem C05gen_lineCompute (p : g2Proj F) (a : G2Affine F) :
    (g2Proj.lineCompute p a).2.1 = (g2Proj.addMixedStep p a).2.1 ∧ (g2Proj.lineCompute p a).1 = p ∧
    (g2Proj.lineCompute p a).2.2 = a :=
  ⟨rfl, rfl, rfl⟩
-- line2]

/-- **fixed-Q refinement, addition**: when the projective `p` and the affine `q` represent the same point `(x1, y1)` and
    `x1 ≠ x2`, the generated projective `addMixedStep p a` and the generated affine `addStep q a` return the same point, and the projective line is the affine line `(1, −R0, R1)` times `r0 ≠ 0` -/
theorem C05gen_addMixedStep_fixedQ (p : g2Proj F) (q a : G2Affine F)
    (hr : ProjRep p.x.spec p.y.spec p.z.spec q.X.spec q.Y.spec) (hx : q.X.spec ≠ a.X.spec) :
    ProjRep (g2Proj.addMixedStep p a).1.x.spec (g2Proj.addMixedStep p a).1.y.spec (g2Proj.addMixedStep p a).1.z.spec
      (G2Affine.addStep q a).1.X.spec (G2Affine.addStep q a).1.Y.spec ∧
    (g2Proj.addMixedStep p a).2.1.r0.spec ≠ 0 ∧
    (g2Proj.addMixedStep p a).2.1.r1.spec = (g2Proj.addMixedStep p a).2.1.r0.spec * -(G2Affine.addStep q a).2.1.R0.spec ∧
    (g2Proj.addMixedStep p a).2.1.r2.spec = (g2Proj.addMixedStep p a).2.1.r0.spec * (G2Affine.addStep q a).2.1.R1.spec := by
  obtain ⟨hP, hL, _⟩ := g2Proj.addMixedStep_eq p a
  have hA := (G2Affine.addStep_eq q a).1
  have hA1 : (G2Affine.addStep q a).1.specT = (affAddStep q.X.spec q.Y.spec a.X.spec a.Y.spec).1 := congrArg Prod.fst hA
  have hA2 : (G2Affine.addStep q a).2.1.specT = (affAddStep q.X.spec q.Y.spec a.X.spec a.Y.spec).2 := congrArg Prod.snd hA
  have hAx : (G2Affine.addStep q a).1.X.spec = (chord q.X.spec q.Y.spec a.X.spec a.Y.spec).1 := by
    rw [← affAddStep_point]; exact congrArg Prod.fst hA1
  have hAy : (G2Affine.addStep q a).1.Y.spec = (chord q.X.spec q.Y.spec a.X.spec a.Y.spec).2 := by
    rw [← affAddStep_point]; exact congrArg Prod.snd hA1
  have hR0 : (G2Affine.addStep q a).2.1.R0.spec = (affAddStep q.X.spec q.Y.spec a.X.spec a.Y.spec).2.1 := congrArg Prod.fst hA2
  have hR1 : (G2Affine.addStep q a).2.1.R1.spec = (affAddStep q.X.spec q.Y.spec a.X.spec a.Y.spec).2.2 := congrArg Prod.snd hA2
  obtain ⟨_, hne, h1, h2'⟩ := projAddLine_affine (y2 := a.Y.spec) hr hx
  rw [g2Proj.specT_x hP, g2Proj.specT_y hP, g2Proj.specT_z hP, lineEvaluation.specT_r0 hL, lineEvaluation.specT_r1 hL,
    lineEvaluation.specT_r2 hL, hAx, hAy, hR0, hR1]
  exact ⟨projAddMixed_rep hr hx, hne, h1, h2'⟩

/-- **affine doubleStep (fixed-Q precomputation)** in Mathlib's group of points: for `q` representing `P = (x, y)`, `y ≠ 0`,
    the returned point represents `P + P`; the returned line is `(λ, λ·x − y)`, `λ = 3x²/(2y)` -/
theorem C05gen_affine_doubleStep (q : G2Affine F) (h2 : (2 : F) ≠ 0) (hb : b ≠ 0)
    (h1 : (sw 0 b).Nonsingular q.X.spec q.Y.spec) (hy : q.Y.spec ≠ 0) :
    (G2Affine.doubleStep q).1.Rep b (Affine.Point.some _ _ h1 + Affine.Point.some _ _ h1) ∧
    (G2Affine.doubleStep q).2.specT = affLine (3 * q.X.spec ^ 2 / (2 * q.Y.spec)) q.X.spec q.Y.spec := by
  have hA := G2Affine.doubleStep_eq q
  have hA1 : (G2Affine.doubleStep q).1.specT = tangent 0 q.X.spec q.Y.spec := by
    rw [← affDoubleStep_point]; exact congrArg Prod.fst hA
  have hA2 : (G2Affine.doubleStep q).2.specT = (affDoubleStep q.X.spec q.Y.spec).2 := congrArg Prod.snd hA
  obtain ⟨h3, hadd⟩ := C02_tangent_is_group_double (two_ne_zero_K4 h2) h1 hy
  refine ⟨?_, by rw [hA2, affDoubleStep_line]⟩
  unfold G2Affine.Rep
  rw [show (G2Affine.doubleStep q).1.X.spec = (tangent 0 q.X.spec q.Y.spec).1 from congrArg Prod.fst hA1,
    show (G2Affine.doubleStep q).1.Y.spec = (tangent 0 q.X.spec q.Y.spec).2 from congrArg Prod.snd hA1]
  exact Or.inr ⟨not_zero_zero hb h3, h3, hadd⟩

/-- **affine addStep (fixed-Q precomputation)**: for `q = (x1, y1)`, `a = (x2, y2)` on the curve, `x1 ≠ x2`, the returned point
    represents `P + Q`; the returned line is `(λ, λ·x1 − y1)`, `λ = (y2 − y1)/(x2 − x1)`; `a` is unchanged -/
theorem C05gen_affine_addStep (q a : G2Affine F) (hb : b ≠ 0)
    (h1 : (sw 0 b).Nonsingular q.X.spec q.Y.spec) (h2 : (sw 0 b).Nonsingular a.X.spec a.Y.spec) (hx : q.X.spec ≠ a.X.spec) :
    (G2Affine.addStep q a).1.Rep b (Affine.Point.some _ _ h1 + Affine.Point.some _ _ h2) ∧
    (G2Affine.addStep q a).2.1.specT = affLine ((a.Y.spec - q.Y.spec) / (a.X.spec - q.X.spec)) q.X.spec q.Y.spec ∧
    (G2Affine.addStep q a).2.2 = a := by
  have hA := (G2Affine.addStep_eq q a).1
  have hA1 : (G2Affine.addStep q a).1.specT = chord q.X.spec q.Y.spec a.X.spec a.Y.spec := by
    rw [← affAddStep_point]; exact congrArg Prod.fst hA
  have hA2 : (G2Affine.addStep q a).2.1.specT = (affAddStep q.X.spec q.Y.spec a.X.spec a.Y.spec).2 := congrArg Prod.snd hA
  obtain ⟨h3, hadd⟩ := C02_chord_is_group_add h1 h2 hx
  refine ⟨?_, by rw [hA2]; rfl, rfl⟩
  unfold G2Affine.Rep
  rw [show (G2Affine.addStep q a).1.X.spec = (chord q.X.spec q.Y.spec a.X.spec a.Y.spec).1 from congrArg Prod.fst hA1,
    show (G2Affine.addStep q a).1.Y.spec = (chord q.X.spec q.Y.spec a.X.spec a.Y.spec).2 from congrArg Prod.snd hA1]
  exact Or.inr ⟨not_zero_zero hb h3, h3, hadd⟩

-- [dadd2
-- dadd2]

end steps

-- [nonvac
-- nonvac]

end GV.Gen.Pairing.bls24_315
