import GnarkVerif.Proofs.MerkleVerifyGen
import GnarkVerif.Props.C16
/-
C16_gen — tie T for `VerifyProof` of /repo/accumulator/merkletree/verify.go: the Lean def `VerifyProof` of
Gen/Imp/MerkleVerify.lean is REGENERATED on every run (tools/goslp mode "imp": `for { … break }` and `for cond { … }` loops as
recursion on a fuel argument, `uint64` arithmetic with explicit `% 2^64`, `1 << uint(height)` as `shl64`, the one nil test
`merkleRoot == nil` by making that parameter an `Option`, `bytes.Equal` as equality) and proved EQUAL to `verifyProof` of
Model/Merkle.lean, so that the completeness and soundness theorems of Props/C16.lean are theorems about the translated Go text.

`leafSum(h, d)` and `nodeSum(h, a, b)` are the parameters `hl` / `hn` of the model (both are `sum(h, …)`, which Resets the hasher
before writing, so the result is a function of the data arguments only; the hasher is not an input of the generated def's result);
their source text and that of `sum` is pinned by `C16gen_abstract_pinned`.

Bound.  The equality is stated for `numLeaves < 2^63` (then no uint64 operation of the function wraps and no shift count reaches 64)
and for any loop fuel ≥ 64 (the first loop runs at most 63 times under that bound).  Beyond the bound the Go code is not the model:
for `numLeaves ≥ 2^63` the end index `subTreeStartIndex + 1<<height - 1` can wrap, and with a long enough proof set `height` reaches 64,
where `1 << 64 = 0` and `proofIndex / 0` panics.
-/
namespace GV.MerkleGen
open GV.GoImp GV.Merkle GV.Gen.Imp.MerkleVerify

variable (hl : GoImp.Bytes → GoImp.Bytes) (hn : GoImp.Bytes → GoImp.Bytes → GoImp.Bytes)

/-- the translated `VerifyProof` is the model's verification function on all inputs below the bound:
`proofSet = leaf :: siblings`, `merkleRoot = nil` ↦ `none` -/
theorem C16gen_verify (h : Hash) (merkleRoot : Option GoImp.Bytes) (proofSet : List GoImp.Bytes) (proofIndex numLeaves fuel : Nat)
    (hb : numLeaves < 2^63) (hfuel : 64 ≤ fuel) :
    VerifyProof hl hn h merkleRoot proofSet proofIndex numLeaves fuel =
      verifyProof hl hn merkleRoot proofSet.head? proofSet.tail proofIndex numLeaves :=
  verify_eq hl hn h proofSet proofIndex numLeaves merkleRoot fuel hb hfuel

/-- the functions treated as parameters have the source text the abstraction was justified for -/
theorem C16gen_abstract_pinned : abstractSrc =
    [("leafSum", "{ return sum(h, data) }"),
     ("nodeSum", "{ return sum(h, a, b) }"),
     ("sum", "{ h.Reset() for _, d := range data { _, err := h.Write(d) if err != nil { panic(err) } } return h.Sum(nil) }")] := rfl

/-- transfer of completeness (`C16_verify_complete`): the translated Go text accepts the RFC 6962 audit path of every leaf -/
theorem C16gen_verify_complete (h : Hash) (L : List GoImp.Bytes) (i fuel : Nat) (hi : i < L.length) (hb : L.length < 2^63) (hfuel : 64 ≤ fuel) :
    VerifyProof hl hn h (some (MTH hl hn L)) (L[i] :: PATH hl hn L i) i L.length fuel = true := by
  rw [C16gen_verify hl hn h _ _ _ _ _ hb hfuel]
  exact C16_verify_complete hl hn L i hi

/-- transfer of soundness (`C16_verify_sound`): whatever the translated Go text accepts against the root of `L` for the leaf count `|L|`
is the leaf at an in-range index followed by exactly its audit path -/
theorem C16gen_verify_sound (hinj : ∀ a b c e, hn a b = hn c e → a = c ∧ b = e) (hdisj : ∀ x a b, hl x ≠ hn a b)
    (hlinj : Function.Injective hl) (h : Hash) (L : List GoImp.Bytes) (hL : L ≠ []) (proofSet : List GoImp.Bytes) (i fuel : Nat)
    (hb : L.length < 2^63) (hfuel : 64 ≤ fuel)
    (hv : VerifyProof hl hn h (some (MTH hl hn L)) proofSet i L.length fuel = true) :
    i < L.length ∧ proofSet.head? = L[i]? ∧ proofSet.tail = PATH hl hn L i := by
  rw [C16gen_verify hl hn h _ _ _ _ _ hb hfuel] at hv
  exact C16_verify_sound hl hn hinj hdisj hlinj L hL _ _ i hv

/-- a nil root, an empty proof set and an out-of-range index are rejected by the translated text -/
theorem C16gen_rejects (h : Hash) (rt : Option GoImp.Bytes) (ps : List GoImp.Bytes) (i n fuel : Nat) (hb : n < 2^63) (hfuel : 64 ≤ fuel)
    (hbad : rt = none ∨ ps = [] ∨ n ≤ i) : VerifyProof hl hn h rt ps i n fuel = false := by
  rw [C16gen_verify hl hn h _ _ _ _ _ hb hfuel]
  rcases hbad with h1 | h1 | h1
  · exact C16_verify_rejects_nil hl hn rt _ _ i n (Or.inl h1)
  · subst h1; exact C16_verify_rejects_nil hl hn rt _ _ i n (Or.inr rfl)
  · exact C16_verify_rejects_out_of_range hl hn rt _ _ i n h1

/-! non-vacuity: the generated code on a concrete 5-leaf tree with a toy hash (leaf ↦ 0 :: d, node ↦ 1 :: a ++ b): the audit
path of leaf 3 is accepted, the same path for index 2 and a path with a swapped sibling are rejected -/
example :
    let hl : GoImp.Bytes → GoImp.Bytes := fun d => 0 :: d
    let hn : GoImp.Bytes → GoImp.Bytes → GoImp.Bytes := fun a b => 1 :: (a ++ b)
    let L : List GoImp.Bytes := [[10], [11], [12], [13], [14]]
    VerifyProof hl hn {} (some (MTH hl hn L)) (L[3] :: PATH hl hn L 3) 3 5 64 = true ∧
    VerifyProof hl hn {} (some (MTH hl hn L)) (L[3] :: PATH hl hn L 3) 2 5 64 = false ∧
    VerifyProof hl hn {} (some (MTH hl hn L)) (L[3] :: (PATH hl hn L 3).reverse) 3 5 64 = false ∧
    VerifyProof hl hn {} none (L[3] :: PATH hl hn L 3) 3 5 64 = false := by decide

end GV.MerkleGen
