import GnarkVerif.Proofs.Bytes
import GnarkVerif.Props.C01_limb_babybear
import GnarkVerif.Gen.Bytes.Babybear
/-
C08_gen (babybear, one 32-bit word) — the byte <-> word conversion code of /repo's babybear package (Gen/Bytes/Babybear.lean, regenerated on every run
by tools/goslp/bytes.go, calling Gen/Limb/Babybear.lean of the same run) against the hand model `GV.Conv` and the field model `GV.Field`, for
ALL byte arrays and ALL canonical elements. A decoder result is `(word, err)` with err = 0 for nil.
-/
set_option maxRecDepth 100000
set_option maxHeartbeats 2000000
set_option linter.unusedVariables false
set_option linter.unusedSimpArgs false
namespace GV.C08gen.babybear
open GV.Field GV.Limb GV.Bytes GV.Limb.babybear

theorem q_le : P.q ≤ 256 ^ 4 := by rw [P_q]; decide
theorem q_lt_W : P.q < 4294967296 := by rw [P_q]; decide
theorem nBytes_eq : Gen.Bytes.babybear.nBytes = 4 ∧ GV.Gen.babybear.bytes = 4 := ⟨rfl, rfl⟩

theorem smaller_iff' (z : Nat) : Gen.Limb.babybear.smallerThanModulus z ↔ z < P.q := by rw [P_q]; rfl

/-- `toMont` of the Go text (`z[0] = uint32((uint64(z[0]) << 32) % q)`) is `GV.Field.toMont` -/
theorem toMont_spec (z : Nat) (hz : z < P.q) :
    ((((z * 4294967296) % 18446744073709551616) % 2013265921) % 4294967296) < P.q ∧ ((((z * 4294967296) % 18446744073709551616) % 2013265921) % 4294967296) = GV.Field.toMont P z := by
  have e := Conv.toMont_eq_mulR P P_ok z hz
  have hR : P.R = 4294967296 := by decide +kernel
  rw [hR, P_q] at e
  rw [P_q] at hz
  have h1 : z * 4294967296 % 18446744073709551616 = z * 4294967296 := Nat.mod_eq_of_lt (by omega)
  have h2 : z * 4294967296 % 2013265921 % 4294967296 = z * 4294967296 % 2013265921 := Nat.mod_eq_of_lt (by omega)
  have : ((((z * 4294967296) % 18446744073709551616) % 2013265921) % 4294967296) = z * 4294967296 % 2013265921 := by rw [h1, h2]
  rw [this, ← e]
  exact ⟨by have := toMont_lt P P_ok z (by rw [P_q]; exact hz); rwa [P_q] at this, rfl⟩

theorem toMont_def (z : Nat) : Gen.Bytes.babybear.toMont z = ((((z * 4294967296) % 18446744073709551616) % 2013265921) % 4294967296) := rfl

theorem words_BE (b : List UInt8) : Conv.limbsOfBE 4 1 b = [beUint 4 (slice b 0 4)] := by
  simp [Conv.limbsOfBE, Conv.chunks, slice, beUint, List.take_take]

theorem words_LE (b : List UInt8) : Conv.limbsOfLE 4 1 b = [leUint 4 (slice b 0 4)] := by
  simp [Conv.limbsOfLE, Conv.chunks, slice, leUint, List.take_take]

theorem words_BE_spec (b : List UInt8) (hb : b.length = 4) :
    beUint 4 (slice b 0 4) < 4294967296 ∧ beUint 4 (slice b 0 4) = Conv.beToNat b := by
  have hl := Conv.limbsOfBE_lt 4 1 b
  have e := Conv.ofLimbs_limbsOfBE 4 1 b (by rw [hb])
  rw [words_BE] at e hl
  simp only [List.mem_cons, List.mem_nil_iff, or_false, forall_eq, Nat.reducePow] at hl
  rw [Conv.ofLimbs_single] at e
  exact ⟨hl, e⟩

theorem words_LE_spec (b : List UInt8) (hb : b.length = 4) :
    leUint 4 (slice b 0 4) < 4294967296 ∧ leUint 4 (slice b 0 4) = Conv.leToNat b := by
  have hl := Conv.limbsOfLE_lt 4 1 b
  have e := Conv.ofLimbs_limbsOfLE 4 1 b (by rw [hb])
  rw [words_LE] at e hl
  simp only [List.mem_cons, List.mem_nil_iff, or_false, forall_eq, Nat.reducePow] at hl
  rw [Conv.ofLimbs_single] at e
  exact ⟨hl, e⟩

/-- **C08_gen** `bigEndian.Element` rejects every array whose value is `≥ q` -/
theorem bigEndian_Element_reject (b : List UInt8) (hb : b.length = 4) (h : P.q ≤ Conv.beToNat b) : Gen.Bytes.babybear.bigEndian_Element b = (0, 1) := by
  obtain ⟨hw, hv⟩ := words_BE_spec b hb
  unfold Gen.Bytes.babybear.bigEndian_Element
  simp only []
  generalize beUint 4 (slice b 0 4) = z at hw hv ⊢
  subst hv
  have hn : ¬ Gen.Limb.babybear.smallerThanModulus (Conv.beToNat b) := by rw [smaller_iff']; omega
  simp only [hn, not_false_eq_true, if_true]

/-- … and accepts every other one: the canonical Montgomery element of the value, error nil -/
theorem bigEndian_Element_accept (b : List UInt8) (hb : b.length = 4) (h : Conv.beToNat b < P.q) :
    ∃ m : Nat, m < P.q ∧ m = GV.Field.toMont P (Conv.beToNat b) ∧ Gen.Bytes.babybear.bigEndian_Element b = (m, 0) := by
  obtain ⟨hw, hv⟩ := words_BE_spec b hb
  unfold Gen.Bytes.babybear.bigEndian_Element
  simp only []
  generalize beUint 4 (slice b 0 4) = z at hw hv ⊢
  subst hv
  have hs : Gen.Limb.babybear.smallerThanModulus (Conv.beToNat b) := by rw [smaller_iff']; exact h
  obtain ⟨g, e⟩ := toMont_spec (Conv.beToNat b) h
  refine ⟨_, g, e, ?_⟩
  simp only [hs, not_true_eq_false, if_false]

theorem bigEndian_Element_err_iff (b : List UInt8) (hb : b.length = 4) : (Gen.Bytes.babybear.bigEndian_Element b).2 ≠ 0 ↔ P.q ≤ Conv.beToNat b := by
  by_cases h : Conv.beToNat b < P.q
  · obtain ⟨m, _, _, e⟩ := bigEndian_Element_accept b hb h
    rw [e]; simp only [ne_eq, not_true_eq_false, false_iff]; omega
  · rw [bigEndian_Element_reject b hb (by omega)]; simp only [ne_eq, one_ne_zero, not_false_eq_true, true_iff]; omega

/-- the hand model's decoder is the generated one followed by `fromMont` -/
theorem bigEndian_Element_model (b : List UInt8) (hb : b.length = 4) :
    Conv.elementBE P.q b =
      (if (Gen.Bytes.babybear.bigEndian_Element b).2 = 0 then .ok (GV.Field.fromMont P (Gen.Bytes.babybear.bigEndian_Element b).1) else .error .invalid) := by
  by_cases h : Conv.beToNat b < P.q
  · obtain ⟨m, _, hm, e⟩ := bigEndian_Element_accept b hb h
    rw [e]
    simp only [if_true, hm, fromMont_toMont P P_ok _ h, Conv.elementBE, h]
  · rw [bigEndian_Element_reject b hb (by omega)]
    simp only [one_ne_zero, if_false, Conv.elementBE, h]

/-- **C08_gen** `bigEndian.PutElement` writes the base-256 digits (length Bytes) of the regular value -/
theorem bigEndian_PutElement_spec (b : List UInt8) (hb : b.length = 4) (z : Nat) (hz : z < P.q) :
    Gen.Bytes.babybear.bigEndian_PutElement b z = Conv.toBytesBE 4 (GV.Field.fromMont P z) := by
  have e := fromMontGeneric_spec z hz
  have hf := fromMont_lt P P_ok z hz
  unfold Gen.Bytes.babybear.bigEndian_PutElement
  simp only []
  rw [e]
  generalize GV.Field.fromMont P z = r at hf ⊢
  have hr : r < 4294967296 := lt_trans hf q_lt_W
  have l1 : (putSlice b 0 4 (Conv.natToBE 4 r)).length = 4 := by
    rw [Conv.length_putSlice _ _ _ _ (by omega) (by omega) (by rw [Conv.natToBE_length])]; exact hb
  have s0 : slice (putSlice b 0 4 (Conv.natToBE 4 r)) 0 4 = Conv.natToBE 4 r := by
    rw [Conv.slice_putSlice_same _ _ _ _ (by omega) (by omega) (by rw [Conv.natToBE_length])]
  have hw : Conv.limbsOfBE 4 1 (putSlice b 0 4 (Conv.natToBE 4 r)) = [r] := by
    rw [words_BE]
    simp only [beUint, s0, List.take_of_length_le (Nat.le_of_eq (Conv.natToBE_length 4 _)), Conv.beToNat_natToBE_of_lt 4 r (by omega)]
  have := Conv.eq_natToBE_of_limbs 4 1 _ [r] (by rw [l1]) hw
  rw [Conv.ofLimbs_single] at this
  exact this

/-- **C08_gen** `bigEndian.Element (bigEndian.PutElement z) = (z, nil)` for every canonical `z` -/
theorem bigEndian_roundtrip (b : List UInt8) (hb : b.length = 4) (z : Nat) (hz : z < P.q) :
    Gen.Bytes.babybear.bigEndian_Element (Gen.Bytes.babybear.bigEndian_PutElement b z) = (z, 0) := by
  rw [bigEndian_PutElement_spec b hb z hz]
  have hf := fromMont_lt P P_ok _ hz
  have hl : (Conv.toBytesBE 4 (GV.Field.fromMont P z)).length = 4 := by simp [Conv.toBytesBE]
  have hv : Conv.beToNat (Conv.toBytesBE 4 (GV.Field.fromMont P z)) = GV.Field.fromMont P z := by
    rw [Conv.toBytesBE, Conv.beToNat_natToBE, Nat.mod_eq_of_lt (lt_of_lt_of_le hf q_le)]
  obtain ⟨m, _, hm, e⟩ := bigEndian_Element_accept _ hl (by rw [hv]; exact hf)
  rw [hv, toMont_fromMont P P_ok _ hz] at hm
  rw [e, hm]

/-- **C08_gen** `bigEndian.PutElement (bigEndian.Element b) = b` whenever `b` is accepted -/
theorem bigEndian_roundtrip_inv (b t : List UInt8) (hb : b.length = 4) (ht : t.length = 4) (h : Conv.beToNat b < P.q) :
    Gen.Bytes.babybear.bigEndian_PutElement t (Gen.Bytes.babybear.bigEndian_Element b).1 = b := by
  obtain ⟨m, g, hm, e⟩ := bigEndian_Element_accept b hb h
  rw [e]
  show Gen.Bytes.babybear.bigEndian_PutElement t m = b
  rw [bigEndian_PutElement_spec t ht m g, hm, fromMont_toMont P P_ok _ h, Conv.toBytesBE, ← hb, Conv.natToBE_beToNat]

/-- **C08_gen** `littleEndian.Element` rejects every array whose value is `≥ q` -/
theorem littleEndian_Element_reject (b : List UInt8) (hb : b.length = 4) (h : P.q ≤ Conv.leToNat b) : Gen.Bytes.babybear.littleEndian_Element b = (0, 1) := by
  obtain ⟨hw, hv⟩ := words_LE_spec b hb
  unfold Gen.Bytes.babybear.littleEndian_Element
  simp only []
  generalize leUint 4 (slice b 0 4) = z at hw hv ⊢
  subst hv
  have hn : ¬ Gen.Limb.babybear.smallerThanModulus (Conv.leToNat b) := by rw [smaller_iff']; omega
  simp only [hn, not_false_eq_true, if_true]

/-- … and accepts every other one: the canonical Montgomery element of the value, error nil -/
theorem littleEndian_Element_accept (b : List UInt8) (hb : b.length = 4) (h : Conv.leToNat b < P.q) :
    ∃ m : Nat, m < P.q ∧ m = GV.Field.toMont P (Conv.leToNat b) ∧ Gen.Bytes.babybear.littleEndian_Element b = (m, 0) := by
  obtain ⟨hw, hv⟩ := words_LE_spec b hb
  unfold Gen.Bytes.babybear.littleEndian_Element
  simp only []
  generalize leUint 4 (slice b 0 4) = z at hw hv ⊢
  subst hv
  have hs : Gen.Limb.babybear.smallerThanModulus (Conv.leToNat b) := by rw [smaller_iff']; exact h
  obtain ⟨g, e⟩ := toMont_spec (Conv.leToNat b) h
  refine ⟨_, g, e, ?_⟩
  simp only [hs, not_true_eq_false, if_false]

theorem littleEndian_Element_err_iff (b : List UInt8) (hb : b.length = 4) : (Gen.Bytes.babybear.littleEndian_Element b).2 ≠ 0 ↔ P.q ≤ Conv.leToNat b := by
  by_cases h : Conv.leToNat b < P.q
  · obtain ⟨m, _, _, e⟩ := littleEndian_Element_accept b hb h
    rw [e]; simp only [ne_eq, not_true_eq_false, false_iff]; omega
  · rw [littleEndian_Element_reject b hb (by omega)]; simp only [ne_eq, one_ne_zero, not_false_eq_true, true_iff]; omega

/-- the hand model's decoder is the generated one followed by `fromMont` -/
theorem littleEndian_Element_model (b : List UInt8) (hb : b.length = 4) :
    Conv.elementLE P.q b =
      (if (Gen.Bytes.babybear.littleEndian_Element b).2 = 0 then .ok (GV.Field.fromMont P (Gen.Bytes.babybear.littleEndian_Element b).1) else .error .invalid) := by
  by_cases h : Conv.leToNat b < P.q
  · obtain ⟨m, _, hm, e⟩ := littleEndian_Element_accept b hb h
    rw [e]
    simp only [if_true, hm, fromMont_toMont P P_ok _ h, Conv.elementLE, h]
  · rw [littleEndian_Element_reject b hb (by omega)]
    simp only [one_ne_zero, if_false, Conv.elementLE, h]

/-- **C08_gen** `littleEndian.PutElement` writes the base-256 digits (length Bytes) of the regular value -/
theorem littleEndian_PutElement_spec (b : List UInt8) (hb : b.length = 4) (z : Nat) (hz : z < P.q) :
    Gen.Bytes.babybear.littleEndian_PutElement b z = Conv.toBytesLE 4 (GV.Field.fromMont P z) := by
  have e := fromMontGeneric_spec z hz
  have hf := fromMont_lt P P_ok z hz
  unfold Gen.Bytes.babybear.littleEndian_PutElement
  simp only []
  rw [e]
  generalize GV.Field.fromMont P z = r at hf ⊢
  have hr : r < 4294967296 := lt_trans hf q_lt_W
  have l1 : (putSlice b 0 4 (Conv.natToLE 4 r)).length = 4 := by
    rw [Conv.length_putSlice _ _ _ _ (by omega) (by omega) (by rw [Conv.natToLE_length])]; exact hb
  have s0 : slice (putSlice b 0 4 (Conv.natToLE 4 r)) 0 4 = Conv.natToLE 4 r := by
    rw [Conv.slice_putSlice_same _ _ _ _ (by omega) (by omega) (by rw [Conv.natToLE_length])]
  have hw : Conv.limbsOfLE 4 1 (putSlice b 0 4 (Conv.natToLE 4 r)) = [r] := by
    rw [words_LE]
    simp only [leUint, s0, List.take_of_length_le (Nat.le_of_eq (Conv.natToLE_length 4 _)), Conv.leToNat_natToLE_of_lt 4 r (by omega)]
  have := Conv.eq_natToLE_of_limbs 4 1 _ [r] (by rw [l1]) hw
  rw [Conv.ofLimbs_single] at this
  exact this

/-- **C08_gen** `littleEndian.Element (littleEndian.PutElement z) = (z, nil)` for every canonical `z` -/
theorem littleEndian_roundtrip (b : List UInt8) (hb : b.length = 4) (z : Nat) (hz : z < P.q) :
    Gen.Bytes.babybear.littleEndian_Element (Gen.Bytes.babybear.littleEndian_PutElement b z) = (z, 0) := by
  rw [littleEndian_PutElement_spec b hb z hz]
  have hf := fromMont_lt P P_ok _ hz
  have hl : (Conv.toBytesLE 4 (GV.Field.fromMont P z)).length = 4 := by simp [Conv.toBytesLE]
  have hv : Conv.leToNat (Conv.toBytesLE 4 (GV.Field.fromMont P z)) = GV.Field.fromMont P z := by
    rw [Conv.toBytesLE, Conv.leToNat_natToLE, Nat.mod_eq_of_lt (lt_of_lt_of_le hf q_le)]
  obtain ⟨m, _, hm, e⟩ := littleEndian_Element_accept _ hl (by rw [hv]; exact hf)
  rw [hv, toMont_fromMont P P_ok _ hz] at hm
  rw [e, hm]

/-- **C08_gen** `littleEndian.PutElement (littleEndian.Element b) = b` whenever `b` is accepted -/
theorem littleEndian_roundtrip_inv (b t : List UInt8) (hb : b.length = 4) (ht : t.length = 4) (h : Conv.leToNat b < P.q) :
    Gen.Bytes.babybear.littleEndian_PutElement t (Gen.Bytes.babybear.littleEndian_Element b).1 = b := by
  obtain ⟨m, g, hm, e⟩ := littleEndian_Element_accept b hb h
  rw [e]
  show Gen.Bytes.babybear.littleEndian_PutElement t m = b
  rw [littleEndian_PutElement_spec t ht m g, hm, fromMont_toMont P P_ok _ h, Conv.toBytesLE, ← hb, Conv.natToLE_leToNat]

/-! ### `Bytes`, `SetBytesCanonical`, `SetBytes` -/

theorem Bytes_eq (z : Nat) : Gen.Bytes.babybear.Bytes z = Gen.Bytes.babybear.bigEndian_PutElement (List.replicate 4 0) z := rfl

theorem Bytes_spec (z : Nat) (hz : z < P.q) : Gen.Bytes.babybear.Bytes z = Conv.toBytesBE 4 (GV.Field.fromMont P z) := by
  rw [Bytes_eq, bigEndian_PutElement_spec _ (List.length_replicate ..) z hz]

theorem SetBytesCanonical_eq (z : Nat) (e : List UInt8) :
    Gen.Bytes.babybear.SetBytesCanonical z e =
      if e.length ≠ 4 then (z, 2)
      else if (Gen.Bytes.babybear.bigEndian_Element e).2 ≠ 0 then (z, (Gen.Bytes.babybear.bigEndian_Element e).2)
      else Gen.Bytes.babybear.bigEndian_Element e := by
  by_cases hl : e.length = 4
  · have ha : toArray 4 e = e := Conv.toArray_eq _ _ hl
    unfold Gen.Bytes.babybear.SetBytesCanonical Gen.Bytes.babybear.bigEndian_Element
    simp only [ha, hl, ne_eq, not_true_eq_false, if_false]
    split <;> rename_i hc
    · simp only [hc, not_false_eq_true, if_true, one_ne_zero]
    · simp only [hc, not_true_eq_false, if_false]
  · unfold Gen.Bytes.babybear.SetBytesCanonical
    simp only [hl, ne_eq, not_false_eq_true, if_true]

/-- **C08_gen** `SetBytesCanonical` accepts EXACTLY the `Bytes`-long big-endian encodings of the integers below `q` -/
theorem SetBytesCanonical_spec (z : Nat) (e : List UInt8) :
    ((Gen.Bytes.babybear.SetBytesCanonical z e).2 = 0 ↔ (e.length = 4 ∧ Conv.beToNat e < P.q)) ∧
    (e.length = 4 → Conv.beToNat e < P.q → ∃ m : Nat, m < P.q ∧ m = GV.Field.toMont P (Conv.beToNat e) ∧
      Gen.Bytes.babybear.SetBytesCanonical z e = (m, 0)) ∧
    (¬ (e.length = 4 ∧ Conv.beToNat e < P.q) → ∃ c, c ≠ 0 ∧ Gen.Bytes.babybear.SetBytesCanonical z e = (z, c)) := by
  by_cases hl : e.length = 4
  · by_cases h : Conv.beToNat e < P.q
    · obtain ⟨m, g, hm, he⟩ := bigEndian_Element_accept e hl h
      have key : Gen.Bytes.babybear.SetBytesCanonical z e = (m, 0) := by
        rw [SetBytesCanonical_eq, he]; simp only [hl, ne_eq, not_true_eq_false, if_false]
      rw [key]
      exact ⟨⟨fun _ => ⟨hl, h⟩, fun _ => rfl⟩, fun _ _ => ⟨m, g, hm, rfl⟩, fun hn => absurd ⟨hl, h⟩ hn⟩
    · have he := bigEndian_Element_reject e hl (by omega)
      have key : Gen.Bytes.babybear.SetBytesCanonical z e = (z, 1) := by
        rw [SetBytesCanonical_eq, he]; simp only [hl, ne_eq, not_true_eq_false, if_false, one_ne_zero, not_false_eq_true, if_true]
      rw [key]
      exact ⟨⟨fun h0 => absurd h0 one_ne_zero, fun hh => absurd hh.2 h⟩, fun _ hh => absurd hh h, fun _ => ⟨1, one_ne_zero, rfl⟩⟩
  · have key : Gen.Bytes.babybear.SetBytesCanonical z e = (z, 2) := by
      rw [SetBytesCanonical_eq]; simp only [hl, ne_eq, not_false_eq_true, if_true]
    rw [key]
    exact ⟨⟨fun h0 => absurd (show (2 : Nat) = 0 from h0) (by omega), fun hh => absurd hh.1 hl⟩, fun hh _ => absurd hh hl, fun _ => ⟨2, by omega, rfl⟩⟩

theorem SetBytesCanonical_model (z : Nat) (e : List UInt8) :
    Conv.setBytesCanonical P.q 4 e =
      (if (Gen.Bytes.babybear.SetBytesCanonical z e).2 = 0 then .ok (GV.Field.fromMont P (Gen.Bytes.babybear.SetBytesCanonical z e).1)
       else if e.length ≠ 4 then .error .length else .error .invalid) := by
  obtain ⟨h1, h2, h3⟩ := SetBytesCanonical_spec z e
  unfold Conv.setBytesCanonical
  by_cases hl : e.length = 4
  · by_cases h : Conv.beToNat e < P.q
    · obtain ⟨m, g, hm, he⟩ := h2 hl h
      rw [he]
      simp only [hl, ne_eq, not_true_eq_false, if_false, if_true, hm, fromMont_toMont P P_ok _ h, Conv.elementBE, h]
    · obtain ⟨c, hc, he⟩ := h3 (fun hh => h hh.2)
      rw [he]
      simp only [hl, ne_eq, not_true_eq_false, if_false, hc, Conv.elementBE, h]
  · obtain ⟨c, hc, he⟩ := h3 (fun hh => hl hh.1)
    rw [he]
    simp only [hl, ne_eq, not_false_eq_true, if_true, hc, if_false]

/-- **C08_gen** `SetBytes`: fast path (= `BigEndian.Element`) on a canonical `Bytes`-long input, the slow path `setBigIntBE e` (a PARAMETER:
`big.Int.SetBytes(e)` then `SetBigInt`) on EVERY other input -/
theorem SetBytes_spec (setBigIntBE : List UInt8 → Nat) (e : List UInt8) :
    (e.length = 4 → Conv.beToNat e < P.q → Gen.Bytes.babybear.SetBytes setBigIntBE e = (Gen.Bytes.babybear.bigEndian_Element e).1) ∧
    (¬ (e.length = 4 ∧ Conv.beToNat e < P.q) → Gen.Bytes.babybear.SetBytes setBigIntBE e = setBigIntBE e) := by
  constructor
  · intro hl h
    have ha : toArray 4 e = e := Conv.toArray_eq _ _ hl
    obtain ⟨m, g, hm, he⟩ := bigEndian_Element_accept e hl h
    have he' := he
    unfold Gen.Bytes.babybear.bigEndian_Element at he
    simp only [Prod.mk.injEq] at he
    unfold Gen.Bytes.babybear.SetBytes
    simp only [ha, hl, if_true, he, he']
  · intro hn
    by_cases hl : e.length = 4
    · have h : P.q ≤ Conv.beToNat e := by
        by_contra hc; exact hn ⟨hl, by omega⟩
      have ha : toArray 4 e = e := Conv.toArray_eq _ _ hl
      have he := bigEndian_Element_reject e hl h
      unfold Gen.Bytes.babybear.bigEndian_Element at he
      simp only [Prod.mk.injEq] at he
      unfold Gen.Bytes.babybear.SetBytes
      simp only [ha, hl, if_true, he, one_ne_zero, if_false]
    · unfold Gen.Bytes.babybear.SetBytes
      simp only [hl, if_false]

/-- with the slow path specified as the model says, `SetBytes` is `be(e) mod q` in Montgomery form for EVERY input -/
theorem SetBytes_lenient (setBigIntBE : List UInt8 → Nat)
    (hslow : ∀ e, setBigIntBE e = GV.Field.toMont P (Conv.beToNat e % P.q)) (e : List UInt8) :
    Gen.Bytes.babybear.SetBytes setBigIntBE e = GV.Field.toMont P (Conv.setBytes P.q 4 e) := by
  have hq : 0 < P.q := by rw [P_q]; omega
  rw [Conv.setBytes_eq P.q 4 hq]
  obtain ⟨h1, h2⟩ := SetBytes_spec setBigIntBE e
  by_cases hc : e.length = 4 ∧ Conv.beToNat e < P.q
  · obtain ⟨m, g, hm, he⟩ := bigEndian_Element_accept e hc.1 hc.2
    rw [h1 hc.1 hc.2, he, Nat.mod_eq_of_lt hc.2]
    exact hm
  · rw [h2 hc]; exact hslow e

/-! ### `Bits`, `Uint64`, `IsUint64`, `FitsOnOneWord`, `SetUint64` -/

theorem Bits_spec (z : Nat) (hz : z < P.q) : Gen.Bytes.babybear.Bits z = GV.Field.fromMont P z := fromMontGeneric_spec z hz

theorem Uint64_spec (z : Nat) (hz : z < P.q) : Gen.Bytes.babybear.Uint64 z = Conv.uint64 32 (GV.Field.fromMont P z) := by
  have hf := lt_trans (fromMont_lt P P_ok z hz) q_lt_W
  have : Gen.Bytes.babybear.Uint64 z = Gen.Limb.babybear.fromMontGeneric z := rfl
  rw [this, fromMontGeneric_spec z hz, Conv.uint64, Nat.mod_eq_of_lt (by simpa using hf)]

/-- a one-word field: `IsUint64()` and `FitsOnOneWord()` are the constant `true`, as in the model (every value is below 2^64) -/
theorem IsUint64_spec (z : Nat) (hz : z < P.q) :
    Gen.Bytes.babybear.IsUint64 ∧ Gen.Bytes.babybear.FitsOnOneWord ∧ Conv.isUint64 (GV.Field.fromMont P z) = true := by
  have hf := lt_trans (fromMont_lt P P_ok z hz) q_lt_W
  refine ⟨trivial, trivial, ?_⟩
  simp only [Conv.isUint64, decide_eq_true_eq]; omega

/-- `SetUint64 v` (`*z = Element{uint32(v % uint64(q0))}; z.toMont()`) for EVERY 64-bit `v`: the canonical Montgomery element of `v mod q` -/
theorem SetUint64_spec (v : Nat) (hv : v < 18446744073709551616) :
    Gen.Bytes.babybear.SetUint64 v = GV.Field.toMont P (Conv.setUint64 P.q v) := by
  have hm : v % P.q < P.q := Nat.mod_lt _ (by rw [P_q]; omega)
  obtain ⟨_, e⟩ := toMont_spec (v % P.q) hm
  rw [Conv.setUint64, ← e, P_q]
  unfold Gen.Bytes.babybear.SetUint64
  have h1 : v % 2013265921 % 4294967296 = v % 2013265921 := Nat.mod_eq_of_lt (lt_trans (Nat.mod_lt _ (by omega)) (by omega))
  simp only [h1]

end GV.C08gen.babybear
