import GnarkVerif.Model.PointOps
import GnarkVerif.Proofs.Curve
import Mathlib.AlgebraicGeometry.EllipticCurve.Affine.Point
import Mathlib.Algebra.Field.Rat
import Mathlib.Tactic.NormNum.Basic
/-
C02 — point arithmetic implements the group law in every coordinate system.

Spec: Mathlib's `WeierstrassCurve.Affine.Point` (an `AddCommGroup`) for W = ⟨0,0,0,a,b⟩ over an arbitrary field F of
characteristic ≠ 2 (so the statements hold at once for F_p, F_p2, F_p4 and every curve of the library), and the unified
affine law for twisted Edwards curves. The formulas are the hand transcriptions of `Proofs/Curve.lean` (one `def` per
Go function body / branch, to be replaced by the translator's output); every scaling Z ≠ 0 of the projective
representatives is universally quantified.

Structure of each "all operand pairs" statement = the branch structure of the Go code:
  * Z = 0 operands: handled by the Go code by returning the other operand (not a formula);
  * `U1 = U2 ∧ S1 = S2`  ⇔ same affine point (C02_jac_dispatch)  → doubling formula (C02_jacDouble / y = 0 ⇒ Z3 = 0);
  * same abscissa, different ordinate (⇔ P = -Q on the curve, C02_same_x) → general formula yields Z3 = 0 (C02_jacAdd_opposite);
  * different abscissae → chord rule = Mathlib's `+` (C02_jacAdd_group_law).
-/
namespace GV.C02
open GV.Curve WeierstrassCurve

variable {F : Type*} [Field F]

/-- the short Weierstrass curve y² = x³ + a·x + b -/
def sw (a b : F) : WeierstrassCurve.Affine F := ⟨0, 0, 0, a, b⟩

theorem sw_equation_iff (a b x y : F) : (sw a b).Equation x y ↔ OnCurve a b x y := by
  rw [Affine.equation_iff]
  simp [sw, OnCurve]

theorem sw_negY (a b x y : F) : (sw a b).negY x y = -y := by simp [Affine.negY, sw]

/-! ### the affine chord / tangent rules are Mathlib's addition -/

theorem chord_eq_mathlib [DecidableEq F] {a b x1 y1 x2 y2 : F} (hx : x1 ≠ x2) :
    (sw a b).addX x1 x2 ((sw a b).slope x1 x2 y1 y2) = (chord x1 y1 x2 y2).1 ∧
    (sw a b).addY x1 x2 y1 ((sw a b).slope x1 x2 y1 y2) = (chord x1 y1 x2 y2).2 := by
  have hd : x1 - x2 ≠ 0 := sub_ne_zero.mpr hx
  have hd' : x2 - x1 ≠ 0 := sub_ne_zero.mpr (Ne.symm hx)
  rw [Affine.slope_of_X_ne hx]
  simp only [Affine.addX, Affine.addY, Affine.negAddY, Affine.negY, sw, chord]
  constructor
  · field_simp
    ring
  · field_simp
    ring

theorem tangent_eq_mathlib [DecidableEq F] {a b x y : F} (h2 : (2 : F) ≠ 0) (hy : y ≠ 0) :
    (sw a b).addX x x ((sw a b).slope x x y y) = (tangent a x y).1 ∧
    (sw a b).addY x x y ((sw a b).slope x x y y) = (tangent a x y).2 := by
  have hne : y ≠ (sw a b).negY x y := by
    rw [sw_negY]
    intro h
    have : 2 * y = 0 := by linear_combination h
    exact hy ((mul_eq_zero.mp this).resolve_left h2)
  have hs : (sw a b).slope x x y y = (3 * x ^ 2 + a) / (2 * y) := by
    rw [Affine.slope_of_Y_ne rfl hne]
    simp only [Affine.negY, sw]
    congr 1 <;> ring
  rw [hs]
  simp only [Affine.addX, Affine.addY, Affine.negAddY, Affine.negY, sw, tangent]
  constructor <;> ring

/-- P + Q for distinct abscissae is the chord point -/
theorem C02_chord_is_group_add [DecidableEq F] {a b x1 y1 x2 y2 : F} (h1 : (sw a b).Nonsingular x1 y1) (h2 : (sw a b).Nonsingular x2 y2)
    (hx : x1 ≠ x2) :
    ∃ h3 : (sw a b).Nonsingular (chord x1 y1 x2 y2).1 (chord x1 y1 x2 y2).2,
      Affine.Point.some x1 y1 h1 + Affine.Point.some x2 y2 h2 = Affine.Point.some _ _ h3 := by
  obtain ⟨hX, hY⟩ := chord_eq_mathlib (a := a) (b := b) (y1 := y1) (y2 := y2) hx
  have h3 : (sw a b).Nonsingular (chord x1 y1 x2 y2).1 (chord x1 y1 x2 y2).2 := by
    rw [← hX, ← hY]; exact Affine.nonsingular_add h1 h2 (fun h => hx h.1)
  refine ⟨h3, ?_⟩
  rw [Affine.Point.add_of_X_ne hx, Affine.Point.some.injEq]
  exact ⟨hX, hY⟩

/-- P + P for y ≠ 0 is the tangent point -/
theorem C02_tangent_is_group_double [DecidableEq F] {a b x y : F} (hc : (2 : F) ≠ 0) (h1 : (sw a b).Nonsingular x y) (hy : y ≠ 0) :
    ∃ h3 : (sw a b).Nonsingular (tangent a x y).1 (tangent a x y).2,
      Affine.Point.some x y h1 + Affine.Point.some x y h1 = Affine.Point.some _ _ h3 := by
  obtain ⟨hX, hY⟩ := tangent_eq_mathlib (a := a) (b := b) (x := x) hc hy
  have hne : y ≠ (sw a b).negY x y := by
    rw [sw_negY]
    intro h
    have : 2 * y = 0 := by linear_combination h
    exact hy ((mul_eq_zero.mp this).resolve_left hc)
  have h3 : (sw a b).Nonsingular (tangent a x y).1 (tangent a x y).2 := by
    rw [← hX, ← hY]; exact Affine.nonsingular_add h1 h1 (fun h => hne h.2)
  refine ⟨h3, ?_⟩
  rw [Affine.Point.add_self_of_Y_ne hne, Affine.Point.some.injEq]
  exact ⟨hX, hY⟩

/-- P + (-P) = 0, in particular P + P = 0 for a 2-torsion point (y = 0) -/
theorem C02_opposite_is_zero [DecidableEq F] {a b x y1 y2 : F} (h1 : (sw a b).Nonsingular x y1) (h2 : (sw a b).Nonsingular x y2)
    (hy : y1 = -y2) : Affine.Point.some x y1 h1 + Affine.Point.some x y2 h2 = 0 :=
  Affine.Point.add_of_Y_eq rfl (by rw [sw_negY]; exact hy)

/-! ### Jacobian coordinates -/

/-- dispatch condition of `AddAssign` (`U1 = U2 ∧ S1 = S2`) ⇔ both operands are the same affine point -/
theorem C02_jac_dispatch {pX pY pZ qX qY qZ x1 y1 x2 y2 : F}
    (hp : JacRep pX pY pZ x1 y1) (hq : JacRep qX qY qZ x2 y2) :
    ((jacAddUS pX pY pZ qX qY qZ).1 = (jacAddUS pX pY pZ qX qY qZ).2.1 ∧
      (jacAddUS pX pY pZ qX qY qZ).2.2.1 = (jacAddUS pX pY pZ qX qY qZ).2.2.2) ↔ (x1 = x2 ∧ y1 = y2) :=
  jacAddUS_eq_iff hp hq

example : JacRep (F := ℚ) 0 8 2 0 1 ∧ JacRep (F := ℚ) 18 81 3 2 3 := by
  constructor <;> refine ⟨by norm_num, by norm_num, by norm_num⟩

/-- two curve points with the same abscissa are equal or opposite: the fall-through case of the dispatch is P = -Q -/
theorem C02_same_x {a b x y1 y2 : F} (h1 : OnCurve a b x y1) (h2 : OnCurve a b x y2) : y1 = y2 ∨ y1 = -y2 :=
  same_x_cases h1 h2

example : OnCurve (F := ℚ) 0 1 2 3 ∧ OnCurve (F := ℚ) 0 1 2 (-3) := by constructor <;> norm_num [OnCurve]

/-- `AddAssign`, general branch on P = -Q (same abscissa): Z3 = 0, the point at infinity -/
theorem C02_jacAdd_opposite {pX pY pZ qX qY qZ x y1 y2 : F}
    (hp : JacRep pX pY pZ x y1) (hq : JacRep qX qY qZ x y2) : (jacAdd pX pY pZ qX qY qZ).2.2 = 0 :=
  jacAdd_opposite hp hq

/-- `AddAssign`, general branch: for ALL representatives (Z1, Z2 ≠ 0 arbitrary) of two curve points with different
abscissae the result represents their sum in Mathlib's group of points; Z3 = 2·Z1³·Z2³·(x1 - x2). -/
theorem C02_jacAdd_group_law [DecidableEq F] {a b pX pY pZ qX qY qZ x1 y1 x2 y2 : F} (hc : (2 : F) ≠ 0)
    (h1 : (sw a b).Nonsingular x1 y1) (h2 : (sw a b).Nonsingular x2 y2)
    (hp : JacRep pX pY pZ x1 y1) (hq : JacRep qX qY qZ x2 y2) (hx : x1 ≠ x2) :
    ∃ x3 y3, ∃ h3 : (sw a b).Nonsingular x3 y3,
      Affine.Point.some x1 y1 h1 + Affine.Point.some x2 y2 h2 = Affine.Point.some x3 y3 h3 ∧
      JacRep (jacAdd pX pY pZ qX qY qZ).1 (jacAdd pX pY pZ qX qY qZ).2.1 (jacAdd pX pY pZ qX qY qZ).2.2 x3 y3 ∧
      (jacAdd pX pY pZ qX qY qZ).2.2 = 2 * pZ ^ 3 * qZ ^ 3 * (x1 - x2) := by
  obtain ⟨h3, hadd⟩ := C02_chord_is_group_add h1 h2 hx
  obtain ⟨hZ, hrep⟩ := jacAdd_chord hc hp hq hx
  exact ⟨_, _, h3, hadd, hrep, hZ⟩

example : (2 : ℚ) ≠ 0 ∧ JacRep (F := ℚ) 0 8 2 0 1 ∧ JacRep (F := ℚ) 18 81 3 2 3 ∧ (0 : ℚ) ≠ 2 := by
  refine ⟨by norm_num, ⟨by norm_num, by norm_num, by norm_num⟩, ⟨by norm_num, by norm_num, by norm_num⟩, by norm_num⟩

/-- `DoubleAssign` (a = 0 curves) on any representative of a curve point with y ≠ 0 represents P + P -/
theorem C02_jacDouble_group_law [DecidableEq F] {b X Y Z x y : F} (hc : (2 : F) ≠ 0)
    (h1 : (sw 0 b).Nonsingular x y) (hp : JacRep X Y Z x y) (hy : y ≠ 0) :
    ∃ x3 y3, ∃ h3 : (sw 0 b).Nonsingular x3 y3,
      Affine.Point.some x y h1 + Affine.Point.some x y h1 = Affine.Point.some x3 y3 h3 ∧
      JacRep (jacDouble X Y Z).1 (jacDouble X Y Z).2.1 (jacDouble X Y Z).2.2 x3 y3 := by
  obtain ⟨h3, hadd⟩ := C02_tangent_is_group_double hc h1 hy
  exact ⟨_, _, h3, hadd, (jacDouble_tangent hc hp hy).2⟩

/-- … and on a 2-torsion point or on infinity it returns infinity -/
theorem C02_jacDouble_infinity {X Y Z : F} (h : Y = 0 ∨ Z = 0) : (jacDouble X Y Z).2.2 = 0 := jacDouble_Z_zero h

/-- stark-curve `DoubleAssign` (a = 1) -/
theorem C02_jacDoubleStark_group_law [DecidableEq F] {b X Y Z x y : F} (hc : (2 : F) ≠ 0)
    (h1 : (sw 1 b).Nonsingular x y) (hp : JacRep X Y Z x y) (hy : y ≠ 0) :
    ∃ x3 y3, ∃ h3 : (sw 1 b).Nonsingular x3 y3,
      Affine.Point.some x y h1 + Affine.Point.some x y h1 = Affine.Point.some x3 y3 h3 ∧
      JacRep (jacDoubleStark X Y Z).1 (jacDoubleStark X Y Z).2.1 (jacDoubleStark X Y Z).2.2 x3 y3 := by
  obtain ⟨h3, hadd⟩ := C02_tangent_is_group_double hc h1 hy
  exact ⟨_, _, h3, hadd, (jacDoubleStark_tangent hc hp hy).2⟩

/-- `DoubleMixed` (a = 0) -/
theorem C02_jacDoubleMixed_group_law [DecidableEq F] {b x y : F} (hc : (2 : F) ≠ 0) (h1 : (sw 0 b).Nonsingular x y) (hy : y ≠ 0) :
    ∃ x3 y3, ∃ h3 : (sw 0 b).Nonsingular x3 y3,
      Affine.Point.some x y h1 + Affine.Point.some x y h1 = Affine.Point.some x3 y3 h3 ∧
      JacRep (jacDoubleMixed x y).1 (jacDoubleMixed x y).2.1 (jacDoubleMixed x y).2.2 x3 y3 := by
  obtain ⟨h3, hadd⟩ := C02_tangent_is_group_double hc h1 hy
  exact ⟨_, _, h3, hadd, jacDoubleMixed_tangent hc hy⟩

/-- `AddMixed`: dispatch, general branch, opposite points -/
theorem C02_jacAddMixed_dispatch {pX pY pZ x1 y1 x2 y2 : F} (hp : JacRep pX pY pZ x1 y1) :
    ((jacAddMixedUS pZ x2 y2).1 = pX ∧ (jacAddMixedUS pZ x2 y2).2 = pY) ↔ (x1 = x2 ∧ y1 = y2) :=
  jacAddMixedUS_eq_iff hp

theorem C02_jacAddMixed_group_law [DecidableEq F] {a b pX pY pZ x1 y1 x2 y2 : F} (hc : (2 : F) ≠ 0)
    (h1 : (sw a b).Nonsingular x1 y1) (h2 : (sw a b).Nonsingular x2 y2)
    (hp : JacRep pX pY pZ x1 y1) (hx : x1 ≠ x2) :
    ∃ x3 y3, ∃ h3 : (sw a b).Nonsingular x3 y3,
      Affine.Point.some x1 y1 h1 + Affine.Point.some x2 y2 h2 = Affine.Point.some x3 y3 h3 ∧
      JacRep (jacAddMixed pX pY pZ x2 y2).1 (jacAddMixed pX pY pZ x2 y2).2.1 (jacAddMixed pX pY pZ x2 y2).2.2 x3 y3 := by
  obtain ⟨h3, hadd⟩ := C02_chord_is_group_add h1 h2 hx
  exact ⟨_, _, h3, hadd, (jacAddMixed_chord hc hp hx).2⟩

theorem C02_jacAddMixed_opposite {pX pY pZ x y1 y2 : F} (hp : JacRep pX pY pZ x y1) :
    (jacAddMixed pX pY pZ x y2).2.2 = 0 := jacAddMixed_opposite hp

/-- `G1Affine.Add`, general branch (Jacobian formulas with Z = 1 followed by `FromJacobian`) -/
theorem C02_affAdd_group_law [DecidableEq F] {a b x1 y1 x2 y2 : F} (hc : (2 : F) ≠ 0)
    (h1 : (sw a b).Nonsingular x1 y1) (h2 : (sw a b).Nonsingular x2 y2) (hx : x1 ≠ x2) :
    ∃ h3 : (sw a b).Nonsingular
        (fromJacobian (affAddJac x1 y1 x2 y2).1 (affAddJac x1 y1 x2 y2).2.1 (affAddJac x1 y1 x2 y2).2.2).1
        (fromJacobian (affAddJac x1 y1 x2 y2).1 (affAddJac x1 y1 x2 y2).2.1 (affAddJac x1 y1 x2 y2).2.2).2,
      Affine.Point.some x1 y1 h1 + Affine.Point.some x2 y2 h2 = Affine.Point.some _ _ h3 := by
  rw [affAdd_chord hc hx]
  exact C02_chord_is_group_add h1 h2 hx

/-- conversions: `FromJacobian` inverts every scaling -/
theorem C02_fromJacobian {X Y Z x y : F} (h : JacRep X Y Z x y) : fromJacobian X Y Z = (x, y) := fromJacobian_of_rep h

example : fromJacobian (F := ℚ) 18 81 3 = (2, 3) := by norm_num [fromJacobian]

/-- `Equal` on Jacobian representatives ⇔ same affine point -/
theorem C02_jacEqual_exact {pX pY pZ qX qY qZ x1 y1 x2 y2 : F}
    (hp : JacRep pX pY pZ x1 y1) (hq : JacRep qX qY qZ x2 y2) :
    jacEqualTest pX pY pZ qX qY qZ ↔ (x1 = x2 ∧ y1 = y2) := jacEqual_iff hp hq

/-- `IsOnCurve` on a Jacobian representative ⇔ Mathlib's curve equation for the affine point -/
theorem C02_jacIsOnCurve_exact {b X Y Z x y : F} (hp : JacRep X Y Z x y) :
    jacIsOnCurve b X Y Z ↔ (sw 0 b).Equation x y := by
  rw [sw_equation_iff]; exact jacIsOnCurve_iff hp

theorem C02_jacIsOnCurveStark_exact {b X Y Z x y : F} (hp : JacRep X Y Z x y) :
    jacIsOnCurveStark b X Y Z ↔ (sw 1 b).Equation x y := by
  rw [sw_equation_iff]; exact jacIsOnCurveStark_iff hp

example : jacIsOnCurve (F := ℚ) 1 18 81 3 := by norm_num [jacIsOnCurve]

/-! ### extended Jacobian (XYZZ) coordinates -/

theorem C02_xyzz_dispatch {l1 l2 pX pY pZZ pZZZ qX qY qZZ qZZZ x1 y1 x2 y2 : F}
    (hp : XyzzRep l1 pX pY pZZ pZZZ x1 y1) (hq : XyzzRep l2 qX qY qZZ qZZZ x2 y2) :
    ((xyzzAddAB pX pY pZZ pZZZ qX qY qZZ qZZZ).1 = 0 ↔ x1 = x2) ∧
    ((xyzzAddAB pX pY pZZ pZZZ qX qY qZZ qZZZ).2 = 0 ↔ y1 = y2) := xyzzAddAB_iff hp hq

theorem C02_xyzzAdd_group_law [DecidableEq F] {a b l1 l2 pX pY pZZ pZZZ qX qY qZZ qZZZ x1 y1 x2 y2 : F}
    (h1 : (sw a b).Nonsingular x1 y1) (h2 : (sw a b).Nonsingular x2 y2)
    (hp : XyzzRep l1 pX pY pZZ pZZZ x1 y1) (hq : XyzzRep l2 qX qY qZZ qZZZ x2 y2) (hx : x1 ≠ x2) :
    ∃ x3 y3 l3, ∃ h3 : (sw a b).Nonsingular x3 y3,
      Affine.Point.some x1 y1 h1 + Affine.Point.some x2 y2 h2 = Affine.Point.some x3 y3 h3 ∧
      XyzzRep l3 (xyzzAdd pX pY pZZ pZZZ qX qY qZZ qZZZ).1 (xyzzAdd pX pY pZZ pZZZ qX qY qZZ qZZZ).2.1
        (xyzzAdd pX pY pZZ pZZZ qX qY qZZ qZZZ).2.2.1 (xyzzAdd pX pY pZZ pZZZ qX qY qZZ qZZZ).2.2.2 x3 y3 := by
  obtain ⟨h3, hadd⟩ := C02_chord_is_group_add h1 h2 hx
  exact ⟨_, _, _, h3, hadd, xyzzAdd_chord hp hq hx⟩

theorem C02_xyzzAddMixed_group_law [DecidableEq F] {a b l pX pY pZZ pZZZ x1 y1 x2 y2 : F}
    (h1 : (sw a b).Nonsingular x1 y1) (h2 : (sw a b).Nonsingular x2 y2)
    (hp : XyzzRep l pX pY pZZ pZZZ x1 y1) (hx : x1 ≠ x2) :
    ∃ x3 y3 l3, ∃ h3 : (sw a b).Nonsingular x3 y3,
      Affine.Point.some x1 y1 h1 + Affine.Point.some x2 y2 h2 = Affine.Point.some x3 y3 h3 ∧
      XyzzRep l3 (xyzzAddMixed pX pY pZZ pZZZ x2 y2).1 (xyzzAddMixed pX pY pZZ pZZZ x2 y2).2.1
        (xyzzAddMixed pX pY pZZ pZZZ x2 y2).2.2.1 (xyzzAddMixed pX pY pZZ pZZZ x2 y2).2.2.2 x3 y3 := by
  obtain ⟨h3, hadd⟩ := C02_chord_is_group_add h1 h2 hx
  exact ⟨_, _, _, h3, hadd, xyzzAddMixed_chord hp hx⟩

theorem C02_xyzzDouble_group_law [DecidableEq F] {b l X Y ZZ ZZZ x y : F} (hc : (2 : F) ≠ 0)
    (h1 : (sw 0 b).Nonsingular x y) (hp : XyzzRep l X Y ZZ ZZZ x y) (hy : y ≠ 0) :
    ∃ x3 y3 l3, ∃ h3 : (sw 0 b).Nonsingular x3 y3,
      Affine.Point.some x y h1 + Affine.Point.some x y h1 = Affine.Point.some x3 y3 h3 ∧
      XyzzRep l3 (xyzzDouble X Y ZZ ZZZ).1 (xyzzDouble X Y ZZ ZZZ).2.1 (xyzzDouble X Y ZZ ZZZ).2.2.1
        (xyzzDouble X Y ZZ ZZZ).2.2.2 x3 y3 := by
  obtain ⟨h3, hadd⟩ := C02_tangent_is_group_double hc h1 hy
  exact ⟨_, _, _, h3, hadd, xyzzDouble_tangent hc hp hy⟩

theorem C02_xyzzDoubleMixed_group_law [DecidableEq F] {b x y : F} (hc : (2 : F) ≠ 0) (h1 : (sw 0 b).Nonsingular x y) (hy : y ≠ 0) :
    ∃ x3 y3 l3, ∃ h3 : (sw 0 b).Nonsingular x3 y3,
      Affine.Point.some x y h1 + Affine.Point.some x y h1 = Affine.Point.some x3 y3 h3 ∧
      XyzzRep l3 (xyzzDoubleMixed x y).1 (xyzzDoubleMixed x y).2.1 (xyzzDoubleMixed x y).2.2.1
        (xyzzDoubleMixed x y).2.2.2 x3 y3 := by
  obtain ⟨h3, hadd⟩ := C02_tangent_is_group_double hc h1 hy
  exact ⟨_, _, _, h3, hadd, xyzzDoubleMixed_tangent hc hy⟩

theorem C02_xyzz_sub_neg (pX pY pZZ pZZZ ax ay x y : F) :
    xyzzSubMixed pX pY pZZ pZZZ ax ay = xyzzAddMixed pX pY pZZ pZZZ ax (-ay) ∧
    xyzzDoubleNegMixed x y = xyzzDoubleMixed x (-y) := ⟨xyzzSubMixed_eq .., xyzzDoubleNegMixed_eq ..⟩

theorem C02_xyzz_conversions {l X Y ZZ ZZZ x y : F} (h : XyzzRep l X Y ZZ ZZZ x y) :
    xyzzToAffine X Y ZZ ZZZ = (x, y) ∧
    JacRep (xyzzToJac X Y ZZ ZZZ).1 (xyzzToJac X Y ZZ ZZZ).2.1 (xyzzToJac X Y ZZ ZZZ).2.2 x y ∧
    xyzzToJacUnsafe X Y ZZ ZZZ = xyzzToJac X Y ZZ ZZZ :=
  ⟨xyzzToAffine_of_rep h, (xyzzToJac_of_rep h).1, (xyzzToJac_of_rep h).2⟩

example : XyzzRep (F := ℚ) 3 18 81 9 27 2 3 := ⟨by norm_num, by norm_num, by norm_num, by norm_num, by norm_num⟩

/-- stark-curve `g1JacExtended.doubleMixed` (a = aCurveCoeff; repaired by the `fix:` commit 09230d9, before which the
square of the receiver's stale ZZ was used for a): the group doubling of the affine operand -/
theorem C02_starkDoubleMixed_group_law [DecidableEq F] {a b x y : F} (hc : (2 : F) ≠ 0) (h1 : (sw a b).Nonsingular x y) (hy : y ≠ 0) :
    ∃ x3 y3 l3, ∃ h3 : (sw a b).Nonsingular x3 y3,
      Affine.Point.some x y h1 + Affine.Point.some x y h1 = Affine.Point.some x3 y3 h3 ∧
      XyzzRep l3 (xyzzDoubleMixedStark a x y).1 (xyzzDoubleMixedStark a x y).2.1
        (xyzzDoubleMixedStark a x y).2.2.1 (xyzzDoubleMixedStark a x y).2.2.2 x3 y3 := by
  obtain ⟨h3, hadd⟩ := C02_tangent_is_group_double hc h1 hy
  exact ⟨_, _, _, h3, hadd, xyzzDoubleMixedStark_tangent hc hy⟩

/-! ### twisted Edwards -/

/-- affine `Add` is literally the unified law; `Double` agrees with it on the curve -/
theorem C02_teAffine {a d x1 y1 x2 y2 : F} :
    teAffAdd a d x1 y1 x2 y2 = teAdd a d x1 y1 x2 y2 ∧
    (TeOnCurve a d x1 y1 → teAffDouble a x1 y1 = teAdd a d x1 y1 x1 y1) :=
  ⟨teAffAdd_eq .., fun hc => teAffDouble_eq hc⟩

/-- projective `Add`, `MixedAdd`, `Double` agree with the unified law for every scaling Z ≠ 0 -/
theorem C02_teProj {a d X1 Y1 Z1 X2 Y2 Z2 x1 y1 x2 y2 : F}
    (hp : ProjRep X1 Y1 Z1 x1 y1) (hq : ProjRep X2 Y2 Z2 x2 y2)
    (h1 : 1 + d * x1 * x2 * y1 * y2 ≠ 0) (h2 : 1 - d * x1 * x2 * y1 * y2 ≠ 0) :
    ProjRep (teProjAdd a d X1 Y1 Z1 X2 Y2 Z2).1 (teProjAdd a d X1 Y1 Z1 X2 Y2 Z2).2.1 (teProjAdd a d X1 Y1 Z1 X2 Y2 Z2).2.2
      (teAdd a d x1 y1 x2 y2).1 (teAdd a d x1 y1 x2 y2).2 ∧
    ProjRep (teProjMixedAdd a d X1 Y1 Z1 x2 y2).1 (teProjMixedAdd a d X1 Y1 Z1 x2 y2).2.1 (teProjMixedAdd a d X1 Y1 Z1 x2 y2).2.2
      (teAdd a d x1 y1 x2 y2).1 (teAdd a d x1 y1 x2 y2).2 :=
  ⟨teProjAdd_correct hp hq h1 h2, teProjMixedAdd_correct hp h1 h2⟩

theorem C02_teProjDouble {a d X1 Y1 Z1 x y : F} (hp : ProjRep X1 Y1 Z1 x y) (hc : TeOnCurve a d x y)
    (h1 : 1 + d * x * x * y * y ≠ 0) (h2 : 1 - d * x * x * y * y ≠ 0) :
    ProjRep (teProjDouble a X1 Y1 Z1).1 (teProjDouble a X1 Y1 Z1).2.1 (teProjDouble a X1 Y1 Z1).2.2
      (teAdd a d x y x y).1 (teAdd a d x y x y).2 := teProjDouble_correct hp hc h1 h2

/-- extended `Add` and `Double` agree with the unified law for every scaling -/
theorem C02_teExt {a d X1 Y1 Z1 T1 X2 Y2 Z2 T2 x1 y1 x2 y2 : F}
    (hp : ExtRep X1 Y1 Z1 T1 x1 y1) (hq : ExtRep X2 Y2 Z2 T2 x2 y2)
    (h1 : 1 + d * x1 * x2 * y1 * y2 ≠ 0) (h2 : 1 - d * x1 * x2 * y1 * y2 ≠ 0) :
    ExtRep (teExtAdd a d X1 Y1 Z1 T1 X2 Y2 Z2 T2).1 (teExtAdd a d X1 Y1 Z1 T1 X2 Y2 Z2 T2).2.1
      (teExtAdd a d X1 Y1 Z1 T1 X2 Y2 Z2 T2).2.2.1 (teExtAdd a d X1 Y1 Z1 T1 X2 Y2 Z2 T2).2.2.2
      (teAdd a d x1 y1 x2 y2).1 (teAdd a d x1 y1 x2 y2).2 := teExtAdd_correct hp hq h1 h2

theorem C02_teExtDouble {a d X1 Y1 Z1 x y : F} (hp : ProjRep X1 Y1 Z1 x y) (hc : TeOnCurve a d x y)
    (h1 : 1 + d * x * x * y * y ≠ 0) (h2 : 1 - d * x * x * y * y ≠ 0) :
    ExtRep (teExtDouble a X1 Y1 Z1).1 (teExtDouble a X1 Y1 Z1).2.1 (teExtDouble a X1 Y1 Z1).2.2.1 (teExtDouble a X1 Y1 Z1).2.2.2
      (teAdd a d x y x y).1 (teAdd a d x y x y).2 := teExtDouble_correct hp hc h1 h2

/-
The property demands for `PointExtended.MixedAdd`, for ALL curve points P (any scaling) and Q:
    ExtRep (MixedAdd P Q) (teAdd a d x1 y1 x2 y2)
This does NOT hold for the Go code (findings F2, F3 of the report); what holds is the following partial statement,
restricted to the operands on which the dedicated formula madd-2008-hwcd-2 is defined.
-/
theorem C02_teExtMixedAdd_partial {a d X1 Y1 Z1 T1 x1 y1 x2 y2 : F} (hp : ExtRep X1 Y1 Z1 T1 x1 y1)
    (hc1 : TeOnCurve a d x1 y1) (hc2 : TeOnCurve a d x2 y2)
    (hG : y1 * y2 + a * x1 * x2 ≠ 0) (hF : x1 * y2 - y1 * x2 ≠ 0)
    (h1 : 1 + d * x1 * x2 * y1 * y2 ≠ 0) (h2 : 1 - d * x1 * x2 * y1 * y2 ≠ 0) :
    ExtRep (teExtMixedAdd a X1 Y1 Z1 T1 x2 y2).1 (teExtMixedAdd a X1 Y1 Z1 T1 x2 y2).2.1
      (teExtMixedAdd a X1 Y1 Z1 T1 x2 y2).2.2.1 (teExtMixedAdd a X1 Y1 Z1 T1 x2 y2).2.2.2
      (teAdd a d x1 y1 x2 y2).1 (teAdd a d x1 y1 x2 y2).2 := by
  rw [← teDedicated_eq_teAdd hc1 hc2 hG hF h1 h2]
  exact teExtMixedAdd_dedicated hp hG hF

/-- non-vacuity: the circle a = 1, d = 0, P = (3/5, 4/5) (scaled by Z = 5), Q = (0, 1) -/
example : ExtRep (F := ℚ) 3 4 5 (12 / 5) (3 / 5) (4 / 5) ∧ TeOnCurve (F := ℚ) 1 0 (3 / 5) (4 / 5) ∧ TeOnCurve (F := ℚ) 1 0 0 1 ∧
    ((4 / 5 : ℚ) * 1 + 1 * (3 / 5) * 0 ≠ 0) ∧ ((3 / 5 : ℚ) * 1 - 4 / 5 * 0 ≠ 0) := by
  refine ⟨⟨by norm_num, by norm_num, by norm_num, by norm_num⟩, by norm_num [TeOnCurve], by norm_num [TeOnCurve], by norm_num, by norm_num⟩

/-- … and outside of it (Q = P + (0,-1), P = O with Q = (0,-1), Q = P + order-4 point) the result is Z3 = 0 -/
theorem C02_teExtMixedAdd_exceptional {a X1 Y1 Z1 T1 x1 y1 x2 y2 : F} (hp : ExtRep X1 Y1 Z1 T1 x1 y1)
    (h : x1 * y2 - y1 * x2 = 0 ∨ y1 * y2 + a * x1 * x2 = 0) :
    (teExtMixedAdd a X1 Y1 Z1 T1 x2 y2).2.2.1 = 0 := teExtMixedAdd_exceptional hp h

/-- the identity (0,1) and the 2-torsion point (0,-1) are such an exceptional pair on every twisted Edwards curve -/
example : ExtRep (F := ℚ) 0 1 1 0 0 1 ∧ ((0 : ℚ) * (-1) - 1 * 0 = 0) := ⟨⟨by norm_num, by norm_num, by norm_num, by norm_num⟩, by norm_num⟩

/-- `MixedDouble` is `Double` for Z1 = 1 only; the same-point branch of `MixedAdd` calls it with arbitrary Z1 -/
theorem C02_teExtMixedDouble {a X1 Y1 Z1 : F} :
    teExtMixedDouble a X1 Y1 = teExtDouble a X1 Y1 1 ∧
    (teExtMixedDouble a X1 Y1).2.2.1 - (teExtDouble a X1 Y1 Z1).2.2.1 = 2 * (Z1 * Z1 - 1) * (a * (X1 * X1) + Y1 * Y1) :=
  ⟨teExtMixedDouble_eq .., teExtMixedDouble_Z_defect ..⟩

end GV.C02
