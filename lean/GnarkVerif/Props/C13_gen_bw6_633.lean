/- INSTANTIATED by bin/mkc13gen.py (SSWU template) with the constants of Gen/H2C/Bw6_633.lean. DO NOT EDIT: edit the script. -/
import GnarkVerif.Props.C13
import GnarkVerif.Proofs.H2CGen
import GnarkVerif.Gen.H2C.Bw6_633
/-
C13 (tie T) — bw6-633 G1: the simplified SWU map `MapToCurve1` of /repo/ecc/bw6-633/hash_to_g1.go with `G1MulByZ`,
`G1NotZero`, `G1Sgn0`, `G1SqrtRatio` of /repo/ecc/bw6-633/hash_to_curve/g1.go.

Every theorem is about defs of Gen/H2C/Bw6_633.lean, which tools/goslp REGENERATES from the Go source on every run. The
proofs name the intermediate values of the generated def (`extract_lets`), so an edit of the Go straight-line program
(another operand, another flag, another constant) breaks them. Limb-level primitives are parameters with their
specification as hypothesis: `limbOr` (OR of all Montgomery limbs, `G1NotZero`), `notEqual` (`Element.NotEqual`),
`toNat` (canonical representative, `Bits()`).
-/
set_option linter.unusedSectionVars false
set_option linter.unusedVariables false
namespace GV.Gen.H2C.bw6_633
open GV GV.HashToField GV.H2CGen

abbrev q : Nat := 20494478644167774678813387386538961497669590920908778075528754551012016751717791778743535050360001387419576570244406805463255765034468441182772056330021723098661967429339971741066259394985997
theorem q_eq : q = Gen.bw6_633_fp.q := by decide +kernel

variable {F : Type} [Field F] [DecidableEq F]

/-- coefficients of the isogenous curve and the SSWU constant, as regenerated from the Go literals -/
abbrev A : F := const_g1sswuCurveACoeff
abbrev B : F := const_g1sswuCurveBCoeff
abbrev Z : F := const_g1sswuCurveZ

/-- specification of `G1SqrtRatio` (RFC 9380 §F.2.1) about the GENERATED def: `r.1 = 0` iff `n/d` is a square -/
def SqrtRatioOK (notEqual : F → F → Nat) : Prop :=
  ∀ n d : F, d ≠ 0 →
    ((G1SqrtRatio n d notEqual).1 = 0 → (G1SqrtRatio n d notEqual).2.1 ^ 2 * d = n) ∧
    ((G1SqrtRatio n d notEqual).1 ≠ 0 →
      (G1SqrtRatio n d notEqual).2.1 ^ 2 * d = Z * n ∧ ¬ IsSquare (n / d))

variable (toNat : F → Nat) (notEqual : F → F → Nat) (limbOr : F → Nat)

/-- the addition chain `G1MulByZ` multiplies by the constant `Z` -/
theorem G1MulByZ_eq (x : F) : G1MulByZ_z_eq_x x = Z * x := by
  simp only [G1MulByZ_z_eq_x, Z, const_g1sswuCurveZ]; push_cast; ring

/-- C13gen.4 (bw6-633) SSWU lands on the ISOGENOUS curve `y² = x³ + A·x + B` for every `u`; for the exceptional inputs
`Z²u⁴ + Zu² = 0` (`u = 0` is one) this needs criterion 4 of `find_z_sswu`: `g(B/(Z·A))` is a square -/
theorem C13gen_bw6_633_sswu_on_curve (hlimb : ∀ x : F, limbOr x = 0 ↔ x = 0)
    (hA : (A : F) ≠ 0) (hZ : (Z : F) ≠ 0) (hsr : SqrtRatioOK notEqual)
    (u : F)
    (hcrit4 : Z * (u * u) * (Z * (u * u)) + Z * (u * u) = 0 →
      IsSquare (((B : F) / (Z * A)) ^ 3 + A * (B / (Z * A)) + B)) :
    let p := (MapToCurve1 u toNat notEqual limbOr).1
    p.Y * p.Y = p.X * p.X * p.X + A * p.X + B := by
  unfold MapToCurve1
  extract_lets r_1 tv1_1 tv1_2 tv2_1 tv2_2 tv3_1 tv3_2 ret_1 ret_2 tv2_3 tv4_1 tv4_2 tv2_4 tv6_1 tv5_1 tv2_5 tv2_6 tv6_2
    tv5_2 tv2_7 x_1 r_2 gx1NSquare_1 y_1 y_2 x_2 y_3 y1_1 ret_3 ret_4 y_4 x_3 p
  have hrA : r_1.1 = A := rfl
  have hrB : r_1.2 = B := rfl
  have ht : tv1_2 = Z * (u * u) := G1MulByZ_eq _
  have hret1 : ret_1 = 0 ↔ tv2_2 = 0 := hlimb tv2_2
  have hret2 : ret_2 = Z := rfl
  have hy4 : y_4 * y_4 = y_3 * y_3 := by simp only [y_4, y1_1]; split <;> ring
  show y_4 * y_4 = x_3 * x_3 * x_3 + A * x_3 + B
  rw [hy4]
  have h4 : tv4_2 ≠ 0 := by
    simp only [tv4_2, tv4_1, hrA]
    split
    · exact mul_ne_zero (hret2 ▸ hZ) hA
    · rename_i h; exact mul_ne_zero (neg_ne_zero.mpr (fun h0 => h (hret1.mpr h0))) hA
  have hd3 : tv6_2 ≠ 0 := mul_ne_zero (mul_ne_zero h4 h4) h4
  obtain ⟨hs1, hs2⟩ := hsr tv2_7 tv6_2 hd3
  by_cases hr : gx1NSquare_1 = 0
  · -- first candidate x1 = tv3/tv4
    have h1 : r_2.2.1 ^ 2 * tv6_2 = tv2_7 := hs1 hr
    have hx : x_3 = tv3_2 * tv4_2⁻¹ := by simp only [x_3, x_2, if_pos hr]
    have hy : y_3 = r_2.2.1 := by simp only [y_3, if_pos hr]
    rw [hx, hy]
    refine sswu_frac_on_curve A B tv3_2 tv4_2 r_2.2.1 h4 ?_
    simp only [tv6_2, tv6_1, tv2_7, tv2_6, tv2_5, tv2_4, tv5_1, tv5_2, hrA, hrB] at h1
    linear_combination h1
  · obtain ⟨h2, hns⟩ := hs2 hr
    replace h2 : r_2.2.1 ^ 2 * tv6_2 = Z * tv2_7 := h2
    by_cases h0 : tv2_2 = 0
    · -- exceptional input: x1 = B/(Z·A), and g(x1) is a square by criterion 4 of find_z_sswu
      exfalso
      apply hns
      have e4 : tv4_2 = Z * A := by simp only [tv4_2, tv4_1, if_pos (hret1.mpr h0), hret2, hrA]
      have e3 : tv3_2 = B := by simp only [tv3_2, tv3_1, h0, hrB]; ring
      have : tv2_7 / tv6_2 = ((B : F) / (Z * A)) ^ 3 + A * (B / (Z * A)) + B := by
        simp only [tv6_2, tv6_1, tv2_7, tv2_6, tv2_5, tv2_4, tv5_1, tv5_2, hrA, hrB, e4, e3]
        field_simp
      rw [this]
      have hexc : tv1_2 * tv1_2 + tv1_2 = 0 := h0
      rw [ht] at hexc
      exact hcrit4 hexc
    · have hdd : tv4_2 = A * -(Z * (u * u) * (Z * (u * u)) + Z * (u * u)) := by
        simp only [tv4_2, tv4_1, if_neg (fun h => h0 (hret1.mp h)), tv2_3, tv2_2, tv2_1, hrA, ht]; ring
      have key := sswu_second_on_curve A B Z u tv4_2 r_2.2.1 h4 hdd (by
        simp only [tv6_2, tv6_1, tv2_7, tv2_6, tv2_5, tv2_4, tv5_1, tv5_2, tv3_2, tv3_1, tv2_2, tv2_1, hrA, hrB, ht] at h2
        linear_combination h2)
      simp only [x_3, x_2, y_3, y_2, y_1, x_1, if_neg hr, tv3_2, tv3_1, tv2_2, tv2_1, hrB, ht]
      linear_combination key

/-! ### the constants: side conditions PROVED from the Go literals, in any field in which the base modulus vanishes
(Bézout coefficients / square roots computed offline, checked by the kernel) -/

theorem A_ne_zero (hq : ((q : Nat) : F) = 0) : (A : F) ≠ 0 := by
  have h : ((12651058858011068308634630307311361138250818372352724843860612255206164207911417896609580724939558280727086221820703987660729447050399539951744755696726231818024374329532097908663966836982280 * 15989075738437236528563406742986093421772632383200433690352662124617535771406998399477507502889089957580248398356680059500488024287699815432839984844352509823951397699783456373576369574745295 : Nat) : F) = ((1 + 9869913832120331865890179780425997835734143568272127009884950042725368490562776919230764253016696584404808897555877560284959731098664425716721443228611656347379157825130738770632379428696467 * q : Nat) : F) := by congr 1
  rw [Nat.cast_add, Nat.cast_mul _ q, hq, mul_zero, add_zero, Nat.cast_mul, Nat.cast_one] at h
  intro h0
  simp only [A, const_g1sswuCurveACoeff] at h0
  rw [h0, zero_mul] at h
  exact zero_ne_one h

theorem Z_ne_zero (hq : ((q : Nat) : F) = 0) : (Z : F) ≠ 0 := by
  have h : ((11 * 9315672110985352126733357902972255226213450418594899125240342977732734887144450808519788659254546085190716622838366729756025347742940200537623661968191692317573621558790896245939208815902726 : Nat) : F) = ((1 + 5 * q : Nat) : F) := by congr 1
  rw [Nat.cast_add, Nat.cast_mul _ q, hq, mul_zero, add_zero, Nat.cast_mul, Nat.cast_one] at h
  intro h0
  simp only [Z, const_g1sswuCurveZ] at h0
  rw [h0, zero_mul] at h
  exact zero_ne_one h

/-- criterion 4 of `find_z_sswu` (RFC 9380 §H.2): `g(B/(Z·A))` is a square — this is what makes the exceptional
inputs harmless -/
theorem crit4 (hq : ((q : Nat) : F) = 0) : IsSquare (((B : F) / (Z * A)) ^ 3 + A * (B / (Z * A)) + B) := by
  have hi : ((11 * 12651058858011068308634630307311361138250818372352724843860612255206164207911417896609580724939558280727086221820703987660729447050399539951744755696726231818024374329532097908663966836982280 * 2368717034797616831375807531541036143500819645756596669036254297907995504608968377529500715494140657561058912814031631853964555045537469497930693337447746192485975693349026823926814945527035 : Nat) : F) = ((13037847667762960865820371540608056847366153346059299440952863644314233063821434740217314222434817075988116374077514520782759873887065527902236260240206678408284155154131768738484369430415577 + 16084066865052213846476774635468416048391025299031843526625334124551889628588143543766187939275710328636920715375849076222164348057801484326849663506996602964370834758165699479304876392817259 * q : Nat) : F) := by congr 1
  rw [Nat.cast_add, Nat.cast_mul _ q, hq, mul_zero, add_zero] at hi
  have hx : (B : F) / (Z * A) = ((2368717034797616831375807531541036143500819645756596669036254297907995504608968377529500715494140657561058912814031631853964555045537469497930693337447746192485975693349026823926814945527035 : Nat) : F) := by
    rw [div_eq_iff (mul_ne_zero (Z_ne_zero hq) (A_ne_zero hq))]
    simp only [A, B, Z, const_g1sswuCurveACoeff, const_g1sswuCurveBCoeff, const_g1sswuCurveZ]
    push_cast at hi ⊢
    linear_combination -hi
  have hw : ((2368717034797616831375807531541036143500819645756596669036254297907995504608968377529500715494140657561058912814031631853964555045537469497930693337447746192485975693349026823926814945527035 ^ 3 + 12651058858011068308634630307311361138250818372352724843860612255206164207911417896609580724939558280727086221820703987660729447050399539951744755696726231818024374329532097908663966836982280 * 2368717034797616831375807531541036143500819645756596669036254297907995504608968377529500715494140657561058912814031631853964555045537469497930693337447746192485975693349026823926814945527035 + 13037847667762960865820371540608056847366153346059299440952863644314233063821434740217314222434817075988116374077514520782759873887065527902236260240206678408284155154131768738484369430415577 : Nat) : F) = ((19553832914606934906530009109915912553394107242798139455520194684650011380503256162297249937555649111698304250079033088296152077580790627250443357088730106291505861214636146596170514727440123 * 19553832914606934906530009109915912553394107242798139455520194684650011380503256162297249937555649111698304250079033088296152077580790627250443357088730106291505861214636146596170514727440123 + 648489091621392278249405115459041683134988923646675400914739573937584374943462222138581648342563757604059937949552767096632508208024012490085787363098222124574153467983816651993997080260441051813493237408615426530501833961639880954528659258394498251932903979756112930402034508047420229097205342298250534420770642784314877951513166943732148421161938314745670492556405736794901959 * q : Nat) : F) := by congr 1
  rw [Nat.cast_add _ (_ * q), Nat.cast_mul _ q, hq, mul_zero, add_zero] at hw
  refine ⟨((19553832914606934906530009109915912553394107242798139455520194684650011380503256162297249937555649111698304250079033088296152077580790627250443357088730106291505861214636146596170514727440123 : Nat) : F), ?_⟩
  rw [hx]
  simp only [A, B, const_g1sswuCurveACoeff, const_g1sswuCurveBCoeff]
  push_cast at hw ⊢
  linear_combination hw

/-- C13gen.4' (bw6-633) the same with every condition on the constants discharged: only the specification of
`G1SqrtRatio` and of the limb-level `G1NotZero` remain as hypotheses -/
theorem C13gen_bw6_633_sswu_on_curve_consts (hq : ((q : Nat) : F) = 0) (hlimb : ∀ x : F, limbOr x = 0 ↔ x = 0)
    (hsr : SqrtRatioOK notEqual) (u : F) :
    let p := (MapToCurve1 u toNat notEqual limbOr).1
    p.Y * p.Y = p.X * p.X * p.X + A * p.X + B :=
  C13gen_bw6_633_sswu_on_curve toNat notEqual limbOr hlimb (A_ne_zero hq) (Z_ne_zero hq) hsr u (fun _ => crit4 hq)

/-- C13gen.6 (bw6-633) sign convention `G1Sgn0(y) = G1Sgn0(u)` whenever `y ≠ 0` (`sgn0(0) = 0` cannot be flipped); the
parity of the canonical representative flips under negation of a non-zero element (odd modulus) -/
theorem C13gen_bw6_633_sswu_sign
    (hpar : ∀ y : F, y ≠ 0 → toNat (-y) % 18446744073709551616 % 2 ≠ toNat y % 18446744073709551616 % 2) (u : F) :
    let p := (MapToCurve1 u toNat notEqual limbOr).1
    p.Y ≠ 0 → (G1Sgn0 p.Y toNat).1 = (G1Sgn0 u toNat).1 := by
  unfold MapToCurve1
  extract_lets r_1 tv1_1 tv1_2 tv2_1 tv2_2 tv3_1 tv3_2 ret_1 ret_2 tv2_3 tv4_1 tv4_2 tv2_4 tv6_1 tv5_1 tv2_5 tv2_6 tv6_2
    tv5_2 tv2_7 x_1 r_2 gx1NSquare_1 y_1 y_2 x_2 y_3 y1_1 ret_3 ret_4 y_4 x_3 p
  show y_4 ≠ 0 → (G1Sgn0 y_4 toNat).1 = (G1Sgn0 u toNat).1
  have e3 : ret_3 = toNat u % 18446744073709551616 % 2 := rfl
  have e4 : ret_4 = toNat y_3 % 18446744073709551616 % 2 := rfl
  intro hy
  simp only [G1Sgn0]
  by_cases hx : ret_3 ^^^ ret_4 = 0
  · have : y_4 = y_3 := by simp only [y_4, if_pos hx]
    rw [this]
    rw [e3, e4, xor_parity_eq_zero] at hx
    exact hx.symm
  · have h4 : y_4 = -y_3 := by simp only [y_4, y1_1, if_neg hx]
    have hy3 : y_3 ≠ 0 := by intro h0; apply hy; rw [h4, h0, neg_zero]
    have hp := hpar y_3 hy3
    rw [h4, ← e3]
    rw [e3, e4, xor_parity_eq_zero] at hx
    rcases Nat.mod_two_eq_zero_or_one (toNat u % 18446744073709551616) with a | a <;>
      rcases Nat.mod_two_eq_zero_or_one (toNat y_3 % 18446744073709551616) with b | b <;>
      rcases Nat.mod_two_eq_zero_or_one (toNat (-y_3) % 18446744073709551616) with c | c <;> simp_all

/-- non-vacuity of the hypotheses on the limb-level primitives: they hold for `limbOr x = if x = 0 then 0 else 1`,
`notEqual a b = if a = b then 0 else 1` in every field -/
example : ∃ (l : F → Nat) (n : F → F → Nat), (∀ x, l x = 0 ↔ x = 0) ∧ (∀ a b, n a b = 0 ↔ a = b) :=
  ⟨fun x => if x = 0 then 0 else 1, fun a b => if a = b then 0 else 1,
    fun x => by by_cases h : x = 0 <;> simp [h], fun a b => by by_cases h : a = b <;> simp [h]⟩

end GV.Gen.H2C.bw6_633
