import GnarkVerif.Model.MSM
import GnarkVerif.Model.CurveCheck
import GnarkVerif.Gen.CurveConsts
import GnarkVerif.Gen.Fields
/-
C04 (tie T) — the MSM dispatch constants.  Written by bin/mkc03gen.py; DO NOT EDIT by hand.

`Model/MSM.curveCfgs` (implementedCs, case labels of getChunkProcessor, batch sizes, default window) is a hand-written
table.  `tools/goslp/curveconsts.go` re-extracts the same data from multiexp.go / multiexp_affine.go /
multiexp_jacobian.go / g1.go / g2.go of every curve package on every run (`GV.Gen.CurveConsts.<curve>.*`); the theorems
below state that the two agree, so a change of the window set, of a case label, of a batch size or of a bucket-array
length in the Go source breaks a proof instead of silently diverging from the model that C04's theorems are about.
-/
namespace GV.C04gen
open GV GV.MSM GV.Gen GV.CurveCheck

/-- what the model keeps of one curve: (implementedCs, case labels, (label, batchSize), bucket count of `default:`, fr.Bits, fr.Limbs) -/
def modelRow (name : String) : Option (List Nat × List Nat × List (Nat × Nat) × Nat × Nat × Nat) :=
  (curveCfgs.lookup name).map (fun c => (c.cs, c.procCases, c.batchCases, 2 ^ (c.defaultCase - 1), c.bits, c.limbs))

/-- every bucket array `bucket…C<c>` has 2^(c−1) entries -/
def halfWindows (l : List (Nat × Nat)) : Bool := l.all (fun cn => cn.2 == 2 ^ (cn.1 - 1))

/-- the dispatch is total on what `_innerMsm` asks for: `implementedCs` is non-empty and strictly increasing, every `c` has
its own case, `lastC(c)` has a case or fits the bucket array of `default:`, and both fit the digit type of partitionScalars -/
def dispatchOk (bits digitBits : Nat) (cs labels : List Nat) (dfltBuckets : Nat) : Bool :=
  !cs.isEmpty && strictlySorted cs && strictlySorted labels &&
  cs.all (fun c => labels.contains c && c ≤ digitBits && 1 ≤ lastC bits c && lastC bits c ≤ digitBits
    && (labels.contains (lastC bits c) || 2 ^ (lastC bits c - 1) ≤ dfltBuckets))

/-- the text the model functions `MSM.computeNbChunks` / `MSM.lastC` were transcribed from -/
def computeNbChunksText : String := "func computeNbChunks(c uint64) uint64 {\nreturn (fr.Bits + c - 1) / c\n}"
def lastCText : String :=
  "func lastC(c uint64) uint64 {\nnbAvailableBits := (computeNbChunks(c) * c) - fr.Bits\nreturn c + 1 - nbAvailableBits\n}"

namespace bn254
/-! ### ecc/bn254 -/

/-- `MSM.curveCfgs` row "bn254" = the lists extracted from (*G1Jac).MultiExp / getChunkProcessorG1 and fr.Bits / fr.Limbs -/
theorem model_table_matches :
    modelRow "bn254" = some (CurveConsts.bn254.implementedCsG1, CurveConsts.bn254.switchLabelsG1, CurveConsts.bn254.batchSizesG1,
      CurveConsts.bn254.defaultBucketsG1, bn254_fr.bits, bn254_fr.limbs) := by decide +kernel

/-- bucket arrays: one Jacobian array per case label, one affine array per batch-affine case, all of 2^(c−1) entries -/
theorem buckets_ok :
    (CurveConsts.bn254.jacBucketsG1.map (·.1) == CurveConsts.bn254.switchLabelsG1
      && CurveConsts.bn254.affBucketsG1.map (·.1) == CurveConsts.bn254.batchSizesG1.map (·.1)
      && halfWindows CurveConsts.bn254.jacBucketsG1 && halfWindows CurveConsts.bn254.affBucketsG1
      && CurveConsts.bn254.batchSizesG1.all (fun cb => 0 < cb.2 && cb.2 ≤ 2 ^ (cb.1 - 1))) = true := by decide +kernel

/-- every implemented window and its last window are dispatched to a large enough bucket array; digits fit `uint16` -/
theorem dispatch_ok :
    dispatchOk bn254_fr.bits CurveConsts.bn254.digitBits CurveConsts.bn254.implementedCsG1 CurveConsts.bn254.switchLabelsG1
      CurveConsts.bn254.defaultBucketsG1 = true ∧ CurveConsts.bn254.digitBits = 16 := by decide +kernel

/-- literal bounds the model hard-codes: `config.NbTasks > 1024`; BatchScalarMultiplication searches c in 2..16 skipping lastC(c) > 16 -/
theorem literal_bounds :
    CurveConsts.bn254.nbTasksMaxG1 = 1024 ∧ CurveConsts.bn254.bsmCMinG1 = 2 ∧ CurveConsts.bn254.bsmCMaxG1 = 16
      ∧ CurveConsts.bn254.bsmLastCGuardG1 = CurveConsts.bn254.digitBits := by decide +kernel

/-- `computeNbChunks` and `lastC` still read as the text `MSM.computeNbChunks` / `MSM.lastC` model -/
theorem window_functions_text :
    CurveConsts.bn254.computeNbChunksSrc = computeNbChunksText ∧ CurveConsts.bn254.lastCSrc = lastCText := by decide +kernel

/-- the G2 copy of the dispatch carries the same constants (the model has one row per curve) -/
theorem g2_same_as_g1 :
    CurveConsts.bn254.implementedCsG2 = CurveConsts.bn254.implementedCsG1 ∧ CurveConsts.bn254.switchLabelsG2 = CurveConsts.bn254.switchLabelsG1
      ∧ CurveConsts.bn254.batchSizesG2 = CurveConsts.bn254.batchSizesG1 ∧ CurveConsts.bn254.jacBucketsG2 = CurveConsts.bn254.jacBucketsG1
      ∧ CurveConsts.bn254.affBucketsG2 = CurveConsts.bn254.affBucketsG1 ∧ CurveConsts.bn254.defaultBucketsG2 = CurveConsts.bn254.defaultBucketsG1
      ∧ CurveConsts.bn254.nbTasksMaxG2 = CurveConsts.bn254.nbTasksMaxG1 ∧ CurveConsts.bn254.bsmCMinG2 = CurveConsts.bn254.bsmCMinG1
      ∧ CurveConsts.bn254.bsmCMaxG2 = CurveConsts.bn254.bsmCMaxG1 ∧ CurveConsts.bn254.bsmLastCGuardG2 = CurveConsts.bn254.bsmLastCGuardG1 := by
  decide +kernel

end bn254

namespace bls12_377
/-! ### ecc/bls12-377 -/

/-- `MSM.curveCfgs` row "bls12-377" = the lists extracted from (*G1Jac).MultiExp / getChunkProcessorG1 and fr.Bits / fr.Limbs -/
theorem model_table_matches :
    modelRow "bls12-377" = some (CurveConsts.bls12_377.implementedCsG1, CurveConsts.bls12_377.switchLabelsG1, CurveConsts.bls12_377.batchSizesG1,
      CurveConsts.bls12_377.defaultBucketsG1, bls12_377_fr.bits, bls12_377_fr.limbs) := by decide +kernel

/-- bucket arrays: one Jacobian array per case label, one affine array per batch-affine case, all of 2^(c−1) entries -/
theorem buckets_ok :
    (CurveConsts.bls12_377.jacBucketsG1.map (·.1) == CurveConsts.bls12_377.switchLabelsG1
      && CurveConsts.bls12_377.affBucketsG1.map (·.1) == CurveConsts.bls12_377.batchSizesG1.map (·.1)
      && halfWindows CurveConsts.bls12_377.jacBucketsG1 && halfWindows CurveConsts.bls12_377.affBucketsG1
      && CurveConsts.bls12_377.batchSizesG1.all (fun cb => 0 < cb.2 && cb.2 ≤ 2 ^ (cb.1 - 1))) = true := by decide +kernel

/-- every implemented window and its last window are dispatched to a large enough bucket array; digits fit `uint16` -/
theorem dispatch_ok :
    dispatchOk bls12_377_fr.bits CurveConsts.bls12_377.digitBits CurveConsts.bls12_377.implementedCsG1 CurveConsts.bls12_377.switchLabelsG1
      CurveConsts.bls12_377.defaultBucketsG1 = true ∧ CurveConsts.bls12_377.digitBits = 16 := by decide +kernel

/-- literal bounds the model hard-codes: `config.NbTasks > 1024`; BatchScalarMultiplication searches c in 2..16 skipping lastC(c) > 16 -/
theorem literal_bounds :
    CurveConsts.bls12_377.nbTasksMaxG1 = 1024 ∧ CurveConsts.bls12_377.bsmCMinG1 = 2 ∧ CurveConsts.bls12_377.bsmCMaxG1 = 16
      ∧ CurveConsts.bls12_377.bsmLastCGuardG1 = CurveConsts.bls12_377.digitBits := by decide +kernel

/-- `computeNbChunks` and `lastC` still read as the text `MSM.computeNbChunks` / `MSM.lastC` model -/
theorem window_functions_text :
    CurveConsts.bls12_377.computeNbChunksSrc = computeNbChunksText ∧ CurveConsts.bls12_377.lastCSrc = lastCText := by decide +kernel

/-- the G2 copy of the dispatch carries the same constants (the model has one row per curve) -/
theorem g2_same_as_g1 :
    CurveConsts.bls12_377.implementedCsG2 = CurveConsts.bls12_377.implementedCsG1 ∧ CurveConsts.bls12_377.switchLabelsG2 = CurveConsts.bls12_377.switchLabelsG1
      ∧ CurveConsts.bls12_377.batchSizesG2 = CurveConsts.bls12_377.batchSizesG1 ∧ CurveConsts.bls12_377.jacBucketsG2 = CurveConsts.bls12_377.jacBucketsG1
      ∧ CurveConsts.bls12_377.affBucketsG2 = CurveConsts.bls12_377.affBucketsG1 ∧ CurveConsts.bls12_377.defaultBucketsG2 = CurveConsts.bls12_377.defaultBucketsG1
      ∧ CurveConsts.bls12_377.nbTasksMaxG2 = CurveConsts.bls12_377.nbTasksMaxG1 ∧ CurveConsts.bls12_377.bsmCMinG2 = CurveConsts.bls12_377.bsmCMinG1
      ∧ CurveConsts.bls12_377.bsmCMaxG2 = CurveConsts.bls12_377.bsmCMaxG1 ∧ CurveConsts.bls12_377.bsmLastCGuardG2 = CurveConsts.bls12_377.bsmLastCGuardG1 := by
  decide +kernel

end bls12_377

namespace bls12_381
/-! ### ecc/bls12-381 -/

/-- `MSM.curveCfgs` row "bls12-381" = the lists extracted from (*G1Jac).MultiExp / getChunkProcessorG1 and fr.Bits / fr.Limbs -/
theorem model_table_matches :
    modelRow "bls12-381" = some (CurveConsts.bls12_381.implementedCsG1, CurveConsts.bls12_381.switchLabelsG1, CurveConsts.bls12_381.batchSizesG1,
      CurveConsts.bls12_381.defaultBucketsG1, bls12_381_fr.bits, bls12_381_fr.limbs) := by decide +kernel

/-- bucket arrays: one Jacobian array per case label, one affine array per batch-affine case, all of 2^(c−1) entries -/
theorem buckets_ok :
    (CurveConsts.bls12_381.jacBucketsG1.map (·.1) == CurveConsts.bls12_381.switchLabelsG1
      && CurveConsts.bls12_381.affBucketsG1.map (·.1) == CurveConsts.bls12_381.batchSizesG1.map (·.1)
      && halfWindows CurveConsts.bls12_381.jacBucketsG1 && halfWindows CurveConsts.bls12_381.affBucketsG1
      && CurveConsts.bls12_381.batchSizesG1.all (fun cb => 0 < cb.2 && cb.2 ≤ 2 ^ (cb.1 - 1))) = true := by decide +kernel

/-- every implemented window and its last window are dispatched to a large enough bucket array; digits fit `uint16` -/
theorem dispatch_ok :
    dispatchOk bls12_381_fr.bits CurveConsts.bls12_381.digitBits CurveConsts.bls12_381.implementedCsG1 CurveConsts.bls12_381.switchLabelsG1
      CurveConsts.bls12_381.defaultBucketsG1 = true ∧ CurveConsts.bls12_381.digitBits = 16 := by decide +kernel

/-- literal bounds the model hard-codes: `config.NbTasks > 1024`; BatchScalarMultiplication searches c in 2..16 skipping lastC(c) > 16 -/
theorem literal_bounds :
    CurveConsts.bls12_381.nbTasksMaxG1 = 1024 ∧ CurveConsts.bls12_381.bsmCMinG1 = 2 ∧ CurveConsts.bls12_381.bsmCMaxG1 = 16
      ∧ CurveConsts.bls12_381.bsmLastCGuardG1 = CurveConsts.bls12_381.digitBits := by decide +kernel

/-- `computeNbChunks` and `lastC` still read as the text `MSM.computeNbChunks` / `MSM.lastC` model -/
theorem window_functions_text :
    CurveConsts.bls12_381.computeNbChunksSrc = computeNbChunksText ∧ CurveConsts.bls12_381.lastCSrc = lastCText := by decide +kernel

/-- the G2 copy of the dispatch carries the same constants (the model has one row per curve) -/
theorem g2_same_as_g1 :
    CurveConsts.bls12_381.implementedCsG2 = CurveConsts.bls12_381.implementedCsG1 ∧ CurveConsts.bls12_381.switchLabelsG2 = CurveConsts.bls12_381.switchLabelsG1
      ∧ CurveConsts.bls12_381.batchSizesG2 = CurveConsts.bls12_381.batchSizesG1 ∧ CurveConsts.bls12_381.jacBucketsG2 = CurveConsts.bls12_381.jacBucketsG1
      ∧ CurveConsts.bls12_381.affBucketsG2 = CurveConsts.bls12_381.affBucketsG1 ∧ CurveConsts.bls12_381.defaultBucketsG2 = CurveConsts.bls12_381.defaultBucketsG1
      ∧ CurveConsts.bls12_381.nbTasksMaxG2 = CurveConsts.bls12_381.nbTasksMaxG1 ∧ CurveConsts.bls12_381.bsmCMinG2 = CurveConsts.bls12_381.bsmCMinG1
      ∧ CurveConsts.bls12_381.bsmCMaxG2 = CurveConsts.bls12_381.bsmCMaxG1 ∧ CurveConsts.bls12_381.bsmLastCGuardG2 = CurveConsts.bls12_381.bsmLastCGuardG1 := by
  decide +kernel

end bls12_381

namespace bls24_315
/-! ### ecc/bls24-315 -/

/-- `MSM.curveCfgs` row "bls24-315" = the lists extracted from (*G1Jac).MultiExp / getChunkProcessorG1 and fr.Bits / fr.Limbs -/
theorem model_table_matches :
    modelRow "bls24-315" = some (CurveConsts.bls24_315.implementedCsG1, CurveConsts.bls24_315.switchLabelsG1, CurveConsts.bls24_315.batchSizesG1,
      CurveConsts.bls24_315.defaultBucketsG1, bls24_315_fr.bits, bls24_315_fr.limbs) := by decide +kernel

/-- bucket arrays: one Jacobian array per case label, one affine array per batch-affine case, all of 2^(c−1) entries -/
theorem buckets_ok :
    (CurveConsts.bls24_315.jacBucketsG1.map (·.1) == CurveConsts.bls24_315.switchLabelsG1
      && CurveConsts.bls24_315.affBucketsG1.map (·.1) == CurveConsts.bls24_315.batchSizesG1.map (·.1)
      && halfWindows CurveConsts.bls24_315.jacBucketsG1 && halfWindows CurveConsts.bls24_315.affBucketsG1
      && CurveConsts.bls24_315.batchSizesG1.all (fun cb => 0 < cb.2 && cb.2 ≤ 2 ^ (cb.1 - 1))) = true := by decide +kernel

/-- every implemented window and its last window are dispatched to a large enough bucket array; digits fit `uint16` -/
theorem dispatch_ok :
    dispatchOk bls24_315_fr.bits CurveConsts.bls24_315.digitBits CurveConsts.bls24_315.implementedCsG1 CurveConsts.bls24_315.switchLabelsG1
      CurveConsts.bls24_315.defaultBucketsG1 = true ∧ CurveConsts.bls24_315.digitBits = 16 := by decide +kernel

/-- literal bounds the model hard-codes: `config.NbTasks > 1024`; BatchScalarMultiplication searches c in 2..16 skipping lastC(c) > 16 -/
theorem literal_bounds :
    CurveConsts.bls24_315.nbTasksMaxG1 = 1024 ∧ CurveConsts.bls24_315.bsmCMinG1 = 2 ∧ CurveConsts.bls24_315.bsmCMaxG1 = 16
      ∧ CurveConsts.bls24_315.bsmLastCGuardG1 = CurveConsts.bls24_315.digitBits := by decide +kernel

/-- `computeNbChunks` and `lastC` still read as the text `MSM.computeNbChunks` / `MSM.lastC` model -/
theorem window_functions_text :
    CurveConsts.bls24_315.computeNbChunksSrc = computeNbChunksText ∧ CurveConsts.bls24_315.lastCSrc = lastCText := by decide +kernel

/-- the G2 copy of the dispatch carries the same constants (the model has one row per curve) -/
theorem g2_same_as_g1 :
    CurveConsts.bls24_315.implementedCsG2 = CurveConsts.bls24_315.implementedCsG1 ∧ CurveConsts.bls24_315.switchLabelsG2 = CurveConsts.bls24_315.switchLabelsG1
      ∧ CurveConsts.bls24_315.batchSizesG2 = CurveConsts.bls24_315.batchSizesG1 ∧ CurveConsts.bls24_315.jacBucketsG2 = CurveConsts.bls24_315.jacBucketsG1
      ∧ CurveConsts.bls24_315.affBucketsG2 = CurveConsts.bls24_315.affBucketsG1 ∧ CurveConsts.bls24_315.defaultBucketsG2 = CurveConsts.bls24_315.defaultBucketsG1
      ∧ CurveConsts.bls24_315.nbTasksMaxG2 = CurveConsts.bls24_315.nbTasksMaxG1 ∧ CurveConsts.bls24_315.bsmCMinG2 = CurveConsts.bls24_315.bsmCMinG1
      ∧ CurveConsts.bls24_315.bsmCMaxG2 = CurveConsts.bls24_315.bsmCMaxG1 ∧ CurveConsts.bls24_315.bsmLastCGuardG2 = CurveConsts.bls24_315.bsmLastCGuardG1 := by
  decide +kernel

end bls24_315

namespace bls24_317
/-! ### ecc/bls24-317 -/

/-- `MSM.curveCfgs` row "bls24-317" = the lists extracted from (*G1Jac).MultiExp / getChunkProcessorG1 and fr.Bits / fr.Limbs -/
theorem model_table_matches :
    modelRow "bls24-317" = some (CurveConsts.bls24_317.implementedCsG1, CurveConsts.bls24_317.switchLabelsG1, CurveConsts.bls24_317.batchSizesG1,
      CurveConsts.bls24_317.defaultBucketsG1, bls24_317_fr.bits, bls24_317_fr.limbs) := by decide +kernel

/-- bucket arrays: one Jacobian array per case label, one affine array per batch-affine case, all of 2^(c−1) entries -/
theorem buckets_ok :
    (CurveConsts.bls24_317.jacBucketsG1.map (·.1) == CurveConsts.bls24_317.switchLabelsG1
      && CurveConsts.bls24_317.affBucketsG1.map (·.1) == CurveConsts.bls24_317.batchSizesG1.map (·.1)
      && halfWindows CurveConsts.bls24_317.jacBucketsG1 && halfWindows CurveConsts.bls24_317.affBucketsG1
      && CurveConsts.bls24_317.batchSizesG1.all (fun cb => 0 < cb.2 && cb.2 ≤ 2 ^ (cb.1 - 1))) = true := by decide +kernel

/-- every implemented window and its last window are dispatched to a large enough bucket array; digits fit `uint16` -/
theorem dispatch_ok :
    dispatchOk bls24_317_fr.bits CurveConsts.bls24_317.digitBits CurveConsts.bls24_317.implementedCsG1 CurveConsts.bls24_317.switchLabelsG1
      CurveConsts.bls24_317.defaultBucketsG1 = true ∧ CurveConsts.bls24_317.digitBits = 16 := by decide +kernel

/-- literal bounds the model hard-codes: `config.NbTasks > 1024`; BatchScalarMultiplication searches c in 2..16 skipping lastC(c) > 16 -/
theorem literal_bounds :
    CurveConsts.bls24_317.nbTasksMaxG1 = 1024 ∧ CurveConsts.bls24_317.bsmCMinG1 = 2 ∧ CurveConsts.bls24_317.bsmCMaxG1 = 16
      ∧ CurveConsts.bls24_317.bsmLastCGuardG1 = CurveConsts.bls24_317.digitBits := by decide +kernel

/-- `computeNbChunks` and `lastC` still read as the text `MSM.computeNbChunks` / `MSM.lastC` model -/
theorem window_functions_text :
    CurveConsts.bls24_317.computeNbChunksSrc = computeNbChunksText ∧ CurveConsts.bls24_317.lastCSrc = lastCText := by decide +kernel

/-- the G2 copy of the dispatch carries the same constants (the model has one row per curve) -/
theorem g2_same_as_g1 :
    CurveConsts.bls24_317.implementedCsG2 = CurveConsts.bls24_317.implementedCsG1 ∧ CurveConsts.bls24_317.switchLabelsG2 = CurveConsts.bls24_317.switchLabelsG1
      ∧ CurveConsts.bls24_317.batchSizesG2 = CurveConsts.bls24_317.batchSizesG1 ∧ CurveConsts.bls24_317.jacBucketsG2 = CurveConsts.bls24_317.jacBucketsG1
      ∧ CurveConsts.bls24_317.affBucketsG2 = CurveConsts.bls24_317.affBucketsG1 ∧ CurveConsts.bls24_317.defaultBucketsG2 = CurveConsts.bls24_317.defaultBucketsG1
      ∧ CurveConsts.bls24_317.nbTasksMaxG2 = CurveConsts.bls24_317.nbTasksMaxG1 ∧ CurveConsts.bls24_317.bsmCMinG2 = CurveConsts.bls24_317.bsmCMinG1
      ∧ CurveConsts.bls24_317.bsmCMaxG2 = CurveConsts.bls24_317.bsmCMaxG1 ∧ CurveConsts.bls24_317.bsmLastCGuardG2 = CurveConsts.bls24_317.bsmLastCGuardG1 := by
  decide +kernel

end bls24_317

namespace bw6_633
/-! ### ecc/bw6-633 -/

/-- `MSM.curveCfgs` row "bw6-633" = the lists extracted from (*G1Jac).MultiExp / getChunkProcessorG1 and fr.Bits / fr.Limbs -/
theorem model_table_matches :
    modelRow "bw6-633" = some (CurveConsts.bw6_633.implementedCsG1, CurveConsts.bw6_633.switchLabelsG1, CurveConsts.bw6_633.batchSizesG1,
      CurveConsts.bw6_633.defaultBucketsG1, bw6_633_fr.bits, bw6_633_fr.limbs) := by decide +kernel

/-- bucket arrays: one Jacobian array per case label, one affine array per batch-affine case, all of 2^(c−1) entries -/
theorem buckets_ok :
    (CurveConsts.bw6_633.jacBucketsG1.map (·.1) == CurveConsts.bw6_633.switchLabelsG1
      && CurveConsts.bw6_633.affBucketsG1.map (·.1) == CurveConsts.bw6_633.batchSizesG1.map (·.1)
      && halfWindows CurveConsts.bw6_633.jacBucketsG1 && halfWindows CurveConsts.bw6_633.affBucketsG1
      && CurveConsts.bw6_633.batchSizesG1.all (fun cb => 0 < cb.2 && cb.2 ≤ 2 ^ (cb.1 - 1))) = true := by decide +kernel

/-- every implemented window and its last window are dispatched to a large enough bucket array; digits fit `uint16` -/
theorem dispatch_ok :
    dispatchOk bw6_633_fr.bits CurveConsts.bw6_633.digitBits CurveConsts.bw6_633.implementedCsG1 CurveConsts.bw6_633.switchLabelsG1
      CurveConsts.bw6_633.defaultBucketsG1 = true ∧ CurveConsts.bw6_633.digitBits = 16 := by decide +kernel

/-- literal bounds the model hard-codes: `config.NbTasks > 1024`; BatchScalarMultiplication searches c in 2..16 skipping lastC(c) > 16 -/
theorem literal_bounds :
    CurveConsts.bw6_633.nbTasksMaxG1 = 1024 ∧ CurveConsts.bw6_633.bsmCMinG1 = 2 ∧ CurveConsts.bw6_633.bsmCMaxG1 = 16
      ∧ CurveConsts.bw6_633.bsmLastCGuardG1 = CurveConsts.bw6_633.digitBits := by decide +kernel

/-- `computeNbChunks` and `lastC` still read as the text `MSM.computeNbChunks` / `MSM.lastC` model -/
theorem window_functions_text :
    CurveConsts.bw6_633.computeNbChunksSrc = computeNbChunksText ∧ CurveConsts.bw6_633.lastCSrc = lastCText := by decide +kernel

/-- the G2 copy of the dispatch carries the same constants (the model has one row per curve) -/
theorem g2_same_as_g1 :
    CurveConsts.bw6_633.implementedCsG2 = CurveConsts.bw6_633.implementedCsG1 ∧ CurveConsts.bw6_633.switchLabelsG2 = CurveConsts.bw6_633.switchLabelsG1
      ∧ CurveConsts.bw6_633.batchSizesG2 = CurveConsts.bw6_633.batchSizesG1 ∧ CurveConsts.bw6_633.jacBucketsG2 = CurveConsts.bw6_633.jacBucketsG1
      ∧ CurveConsts.bw6_633.affBucketsG2 = CurveConsts.bw6_633.affBucketsG1 ∧ CurveConsts.bw6_633.defaultBucketsG2 = CurveConsts.bw6_633.defaultBucketsG1
      ∧ CurveConsts.bw6_633.nbTasksMaxG2 = CurveConsts.bw6_633.nbTasksMaxG1 ∧ CurveConsts.bw6_633.bsmCMinG2 = CurveConsts.bw6_633.bsmCMinG1
      ∧ CurveConsts.bw6_633.bsmCMaxG2 = CurveConsts.bw6_633.bsmCMaxG1 ∧ CurveConsts.bw6_633.bsmLastCGuardG2 = CurveConsts.bw6_633.bsmLastCGuardG1 := by
  decide +kernel

end bw6_633

namespace bw6_761
/-! ### ecc/bw6-761 -/

/-- `MSM.curveCfgs` row "bw6-761" = the lists extracted from (*G1Jac).MultiExp / getChunkProcessorG1 and fr.Bits / fr.Limbs -/
theorem model_table_matches :
    modelRow "bw6-761" = some (CurveConsts.bw6_761.implementedCsG1, CurveConsts.bw6_761.switchLabelsG1, CurveConsts.bw6_761.batchSizesG1,
      CurveConsts.bw6_761.defaultBucketsG1, bw6_761_fr.bits, bw6_761_fr.limbs) := by decide +kernel

/-- bucket arrays: one Jacobian array per case label, one affine array per batch-affine case, all of 2^(c−1) entries -/
theorem buckets_ok :
    (CurveConsts.bw6_761.jacBucketsG1.map (·.1) == CurveConsts.bw6_761.switchLabelsG1
      && CurveConsts.bw6_761.affBucketsG1.map (·.1) == CurveConsts.bw6_761.batchSizesG1.map (·.1)
      && halfWindows CurveConsts.bw6_761.jacBucketsG1 && halfWindows CurveConsts.bw6_761.affBucketsG1
      && CurveConsts.bw6_761.batchSizesG1.all (fun cb => 0 < cb.2 && cb.2 ≤ 2 ^ (cb.1 - 1))) = true := by decide +kernel

/-- every implemented window and its last window are dispatched to a large enough bucket array; digits fit `uint16` -/
theorem dispatch_ok :
    dispatchOk bw6_761_fr.bits CurveConsts.bw6_761.digitBits CurveConsts.bw6_761.implementedCsG1 CurveConsts.bw6_761.switchLabelsG1
      CurveConsts.bw6_761.defaultBucketsG1 = true ∧ CurveConsts.bw6_761.digitBits = 16 := by decide +kernel

/-- literal bounds the model hard-codes: `config.NbTasks > 1024`; BatchScalarMultiplication searches c in 2..16 skipping lastC(c) > 16 -/
theorem literal_bounds :
    CurveConsts.bw6_761.nbTasksMaxG1 = 1024 ∧ CurveConsts.bw6_761.bsmCMinG1 = 2 ∧ CurveConsts.bw6_761.bsmCMaxG1 = 16
      ∧ CurveConsts.bw6_761.bsmLastCGuardG1 = CurveConsts.bw6_761.digitBits := by decide +kernel

/-- `computeNbChunks` and `lastC` still read as the text `MSM.computeNbChunks` / `MSM.lastC` model -/
theorem window_functions_text :
    CurveConsts.bw6_761.computeNbChunksSrc = computeNbChunksText ∧ CurveConsts.bw6_761.lastCSrc = lastCText := by decide +kernel

/-- the G2 copy of the dispatch carries the same constants (the model has one row per curve) -/
theorem g2_same_as_g1 :
    CurveConsts.bw6_761.implementedCsG2 = CurveConsts.bw6_761.implementedCsG1 ∧ CurveConsts.bw6_761.switchLabelsG2 = CurveConsts.bw6_761.switchLabelsG1
      ∧ CurveConsts.bw6_761.batchSizesG2 = CurveConsts.bw6_761.batchSizesG1 ∧ CurveConsts.bw6_761.jacBucketsG2 = CurveConsts.bw6_761.jacBucketsG1
      ∧ CurveConsts.bw6_761.affBucketsG2 = CurveConsts.bw6_761.affBucketsG1 ∧ CurveConsts.bw6_761.defaultBucketsG2 = CurveConsts.bw6_761.defaultBucketsG1
      ∧ CurveConsts.bw6_761.nbTasksMaxG2 = CurveConsts.bw6_761.nbTasksMaxG1 ∧ CurveConsts.bw6_761.bsmCMinG2 = CurveConsts.bw6_761.bsmCMinG1
      ∧ CurveConsts.bw6_761.bsmCMaxG2 = CurveConsts.bw6_761.bsmCMaxG1 ∧ CurveConsts.bw6_761.bsmLastCGuardG2 = CurveConsts.bw6_761.bsmLastCGuardG1 := by
  decide +kernel

end bw6_761

namespace grumpkin
/-! ### ecc/grumpkin -/

/-- `MSM.curveCfgs` row "grumpkin" = the lists extracted from (*G1Jac).MultiExp / getChunkProcessorG1 and fr.Bits / fr.Limbs -/
theorem model_table_matches :
    modelRow "grumpkin" = some (CurveConsts.grumpkin.implementedCsG1, CurveConsts.grumpkin.switchLabelsG1, CurveConsts.grumpkin.batchSizesG1,
      CurveConsts.grumpkin.defaultBucketsG1, grumpkin_fr.bits, grumpkin_fr.limbs) := by decide +kernel

/-- bucket arrays: one Jacobian array per case label, one affine array per batch-affine case, all of 2^(c−1) entries -/
theorem buckets_ok :
    (CurveConsts.grumpkin.jacBucketsG1.map (·.1) == CurveConsts.grumpkin.switchLabelsG1
      && CurveConsts.grumpkin.affBucketsG1.map (·.1) == CurveConsts.grumpkin.batchSizesG1.map (·.1)
      && halfWindows CurveConsts.grumpkin.jacBucketsG1 && halfWindows CurveConsts.grumpkin.affBucketsG1
      && CurveConsts.grumpkin.batchSizesG1.all (fun cb => 0 < cb.2 && cb.2 ≤ 2 ^ (cb.1 - 1))) = true := by decide +kernel

/-- every implemented window and its last window are dispatched to a large enough bucket array; digits fit `uint16` -/
theorem dispatch_ok :
    dispatchOk grumpkin_fr.bits CurveConsts.grumpkin.digitBits CurveConsts.grumpkin.implementedCsG1 CurveConsts.grumpkin.switchLabelsG1
      CurveConsts.grumpkin.defaultBucketsG1 = true ∧ CurveConsts.grumpkin.digitBits = 16 := by decide +kernel

/-- literal bounds the model hard-codes: `config.NbTasks > 1024`; BatchScalarMultiplication searches c in 2..16 skipping lastC(c) > 16 -/
theorem literal_bounds :
    CurveConsts.grumpkin.nbTasksMaxG1 = 1024 ∧ CurveConsts.grumpkin.bsmCMinG1 = 2 ∧ CurveConsts.grumpkin.bsmCMaxG1 = 16
      ∧ CurveConsts.grumpkin.bsmLastCGuardG1 = CurveConsts.grumpkin.digitBits := by decide +kernel

/-- `computeNbChunks` and `lastC` still read as the text `MSM.computeNbChunks` / `MSM.lastC` model -/
theorem window_functions_text :
    CurveConsts.grumpkin.computeNbChunksSrc = computeNbChunksText ∧ CurveConsts.grumpkin.lastCSrc = lastCText := by decide +kernel

end grumpkin

namespace secp256k1
/-! ### ecc/secp256k1 -/

/-- `MSM.curveCfgs` row "secp256k1" = the lists extracted from (*G1Jac).MultiExp / getChunkProcessorG1 and fr.Bits / fr.Limbs -/
theorem model_table_matches :
    modelRow "secp256k1" = some (CurveConsts.secp256k1.implementedCsG1, CurveConsts.secp256k1.switchLabelsG1, CurveConsts.secp256k1.batchSizesG1,
      CurveConsts.secp256k1.defaultBucketsG1, secp256k1_fr.bits, secp256k1_fr.limbs) := by decide +kernel

/-- bucket arrays: one Jacobian array per case label, one affine array per batch-affine case, all of 2^(c−1) entries -/
theorem buckets_ok :
    (CurveConsts.secp256k1.jacBucketsG1.map (·.1) == CurveConsts.secp256k1.switchLabelsG1
      && CurveConsts.secp256k1.affBucketsG1.map (·.1) == CurveConsts.secp256k1.batchSizesG1.map (·.1)
      && halfWindows CurveConsts.secp256k1.jacBucketsG1 && halfWindows CurveConsts.secp256k1.affBucketsG1
      && CurveConsts.secp256k1.batchSizesG1.all (fun cb => 0 < cb.2 && cb.2 ≤ 2 ^ (cb.1 - 1))) = true := by decide +kernel

/-- every implemented window and its last window are dispatched to a large enough bucket array; digits fit `uint16` -/
theorem dispatch_ok :
    dispatchOk secp256k1_fr.bits CurveConsts.secp256k1.digitBits CurveConsts.secp256k1.implementedCsG1 CurveConsts.secp256k1.switchLabelsG1
      CurveConsts.secp256k1.defaultBucketsG1 = true ∧ CurveConsts.secp256k1.digitBits = 16 := by decide +kernel

/-- literal bounds the model hard-codes: `config.NbTasks > 1024`; BatchScalarMultiplication searches c in 2..16 skipping lastC(c) > 16 -/
theorem literal_bounds :
    CurveConsts.secp256k1.nbTasksMaxG1 = 1024 ∧ CurveConsts.secp256k1.bsmCMinG1 = 2 ∧ CurveConsts.secp256k1.bsmCMaxG1 = 16
      ∧ CurveConsts.secp256k1.bsmLastCGuardG1 = CurveConsts.secp256k1.digitBits := by decide +kernel

/-- `computeNbChunks` and `lastC` still read as the text `MSM.computeNbChunks` / `MSM.lastC` model -/
theorem window_functions_text :
    CurveConsts.secp256k1.computeNbChunksSrc = computeNbChunksText ∧ CurveConsts.secp256k1.lastCSrc = lastCText := by decide +kernel

end secp256k1

/-- the model table has exactly the nine MSM packages -/
theorem model_table_names :
    curveCfgs.map (·.1) = ["bn254", "bls12-377", "bls12-381", "bls24-315", "bls24-317", "bw6-633", "bw6-761", "grumpkin", "secp256k1"] := by
  decide +kernel

end GV.C04gen
