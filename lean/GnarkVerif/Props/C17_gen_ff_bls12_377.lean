/- INSTANTIATED by bin/mkc17shgen.py (one proof template for the 7 packages and 5 shapes). DO NOT EDIT: edit the script and re-run it. -/
import GnarkVerif.Gen.Verifier.Fflonk_bls12_377
import GnarkVerif.Gen.Verifier.Shplonk_bls12_377
import Mathlib.Tactic.SplitIfs
/-
C17 (fflonk), tie T for ecc/bls12-377/fflonk/fflonk.go: `BatchVerify` as REGENERATED from the Go text for ONE pack of t = 1 resp. t = 2
polynomials opened at one point (Gen/Verifier/Fflonk_bls12_377.lean; `eval`, `extendSet` executed in place; `getIthRootOne` = PARAMETERS
ithRootOne / ithRootOneErr; the call of shplonk.BatchVerify is a call of the shplonk def translated from shplonk.go at the extended shape).
`_ff_inner_*`: the shplonk def emitted into the fflonk file IS the def of Gen/Verifier/Shplonk_bls12_377.lean at shape (1,[1]) resp. (1,[2]) (`rfl`), so
the theorems of Props/C17_gen_sh_bls12_377.lean apply to it. `_ff_t*_m1`: over ANY types the Go text returns nil iff the root exists, every folded
claimed value equals Horner of the pack's claimed values at x·ωˡ, and the inner SHPLONK verification on the extended points [x, x·ω, …] returns nil.
No equality with Model/ArgPairing.lean `ffVerify` is proved here.
-/
set_option linter.unusedVariables false
open GV GV.Gen.Verifier
namespace GV.C17gen

theorem C17gen_bls12_377_ff_inner_s1 {G G2 S L : Type} [Add G] [Sub G] [Neg G] [Zero G] [SMul Int G] [Add S] [Sub S] [Mul S] [Neg S] [Zero S] [One S] [BEq G2] [Inv S] [BEq S] :
    fflonk_bls12_377.shplonk_BatchVerify_k1 (G := G) (G2 := G2) (S := S) (L := L) = shplonk_bls12_377.BatchVerify_s1 (G := G) (G2 := G2) (S := S) (L := L) := rfl

theorem C17gen_bls12_377_ff_inner_s2 {G G2 S L : Type} [Add G] [Sub G] [Neg G] [Zero G] [SMul Int G] [Add S] [Sub S] [Mul S] [Neg S] [Zero S] [One S] [BEq G2] [Inv S] [BEq S] :
    fflonk_bls12_377.shplonk_BatchVerify_n1_2_1_1_2 (G := G) (G2 := G2) (S := S) (L := L) = shplonk_bls12_377.BatchVerify_s2 (G := G) (G2 := G2) (S := S) (L := L) := rfl

theorem C17gen_bls12_377_ff_t1_m1 {G G2 S L : Type} [Add G] [Sub G] [Neg G] [Zero G] [SMul Int G] [Add S] [Sub S] [Mul S] [Neg S] [Zero S] [One S] [BEq G2] [Inv S] [BEq S] (toInt : S → Int) (root : Int → S) (rootErr : Int → Bool) (mS : S → List UInt8) (mG : G → List UInt8) (fsC : String → List (List UInt8) → List (List UInt8) → List UInt8) (frB : List UInt8 → S) (pcf : List G → L → Bool)
    (W W' : G) (s0 a : S) (d0 : G) (x : S) (q0 q1 : G2) (g1 : G) (lines : L) :
    fflonk_bls12_377.BatchVerify_t1_m1 toInt root rootErr mS mG fsC frB pcf W W' s0 a d0 x q0 q1 g1 lines = Res.ok ↔
      (rootErr 1 = false ∧ ((0 : S) * x + a == s0) = true ∧
        shplonk_bls12_377.BatchVerify_s1 toInt mS mG fsC frB pcf W W' s0 d0 x q0 q1 g1 lines = Res.ok) := by
  simp only [fflonk_bls12_377.BatchVerify_t1_m1, C17gen_bls12_377_ff_inner_s1]
  split_ifs <;> simp_all

theorem C17gen_bls12_377_ff_t2_m1 {G G2 S L : Type} [Add G] [Sub G] [Neg G] [Zero G] [SMul Int G] [Add S] [Sub S] [Mul S] [Neg S] [Zero S] [One S] [BEq G2] [Inv S] [BEq S] (toInt : S → Int) (root : Int → S) (rootErr : Int → Bool) (mS : S → List UInt8) (mG : G → List UInt8) (fsC : String → List (List UInt8) → List (List UInt8) → List UInt8) (frB : List UInt8 → S) (pcf : List G → L → Bool)
    (W W' : G) (s0 s1 a b : S) (d0 : G) (x : S) (q0 q1 : G2) (g1 : G) (lines : L) :
    fflonk_bls12_377.BatchVerify_t2_m1 toInt root rootErr mS mG fsC frB pcf W W' s0 s1 a b d0 x q0 q1 g1 lines = Res.ok ↔
      (rootErr 2 = false ∧ (((0 : S) * x + b) * x + a == s0) = true ∧
        (((0 : S) * (x * root 2) + b) * (x * root 2) + a == s1) = true ∧
        shplonk_bls12_377.BatchVerify_s2 toInt mS mG fsC frB pcf W W' s0 s1 d0 x (x * root 2) q0 q1 g1 lines = Res.ok) := by
  simp only [fflonk_bls12_377.BatchVerify_t2_m1, C17gen_bls12_377_ff_inner_s2]
  split_ifs <;> simp_all

end GV.C17gen
