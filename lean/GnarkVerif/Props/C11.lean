import GnarkVerif.Proofs.KZG
/-
C11 — KZG openings are complete and verification accepts exactly the true claims.

Theorems about `GV.KZG` (Model/KZG.lean, the known-trapdoor exponent model of ecc/<curve>/kzg/kzg.go; tie =
correspondence K on the 7 curves). `r` is the scalar-field modulus; group elements are their discrete logarithms,
`(n : ZMod r)` is the class of the natural number `n`; `toPolyN r p` is the polynomial `Σ pᵢ Xⁱ` over `ZMod r`.
All statements hold for every `r ≠ 0` (commutative-ring facts) except the rejection corollaries that divide, which
assume `r` prime (`[Fact r.Prime]`; the primality of the 7 moduli is a hypothesis, as in C01).

γ (Fiat–Shamir challenge of the batched single-point proof) and λᵢ (the verifier's random numbers of the multi-point
check) are parameters: every statement is for the given γ / λ, no probability claim is made.
-/
open Polynomial

namespace GV.KZG
variable (r : ℕ) [NeZero r]

/-! ### polynomials: Horner and synthetic division -/

/-- the coefficient list denotes the polynomial with these coefficients -/
theorem C11_toPoly_coeff (p : List ℕ) (i : ℕ) : (toPolyN r p).coeff i = ((p.getD i 0 : ℕ) : ZMod r) := by
  rw [toPolyN, toPoly_coeff]
  simp only [castL, List.getD_eq_getElem?_getD, List.getElem?_map]
  cases p[i]? <;> simp

/-- `eval` (the Horner loop of kzg.go) is `Polynomial.eval`, for every coefficient list and every point -/
theorem C11_eval_horner (p : List ℕ) (x : ℕ) :
    ((eval r p x : ℕ) : ZMod r) = (toPolyN r p).eval (x : ZMod r) := cast_eval r p x

example : eval 13 [1, 2, 3] 5 = 8 := by decide   -- 1 + 10 + 75 = 86 = 6·13 + 8

/-- `dividePolyByXminusA` on every non-empty list and arbitrary `fa`:
    `f − fa = (X − a)·h + (f(a) − fa)` -/
theorem C11_divide_remainder (f : List ℕ) (fa a : ℕ) (hf : f ≠ []) :
    toPolyN r f - C (fa : ZMod r) =
      (X - C (a : ZMod r)) * toPolyN r (dividePolyByXminusA r f fa a)
        + C ((toPolyN r f).eval (a : ZMod r) - fa) := divide_poly r f fa a hf

/-- synthetic division theorem: `f − C f(a) = (X − C a)·h` for every non-empty coefficient list -/
theorem C11_divide (f : List ℕ) (a : ℕ) (hf : f ≠ []) :
    toPolyN r f - C ((toPolyN r f).eval (a : ZMod r)) =
      (X - C (a : ZMod r)) * toPolyN r (dividePolyByXminusA r f (eval r f a) a) := by
  have h := divide_poly r f (eval r f a) a hf
  rw [cast_eval, sub_self, map_zero, add_zero] at h
  exact h

/-- the quotient has one coefficient less; for a constant polynomial it is the empty list, i.e. `h = 0` -/
theorem C11_divide_length (f : List ℕ) (fa a : ℕ) :
    (dividePolyByXminusA r f fa a).length = f.length - 1 := divide_length r f fa a

theorem C11_divide_const (x fa a : ℕ) : dividePolyByXminusA r [x] fa a = [] := by
  simp [dividePolyByXminusA, divLoop]

example : dividePolyByXminusA 13 [1, 2, 3] (eval 13 [1, 2, 3] 2) 2 = [8, 3] := by decide  -- 3X + 8

/-! ### SRS, Commit, Open, Verify -/

/-- `Commit` with the SRS of trapdoor τ is `[p(τ)]G₁`, for every non-empty polynomial that fits -/
theorem C11_commit_is_eval (size τ : ℕ) (p : List ℕ) (h1 : p ≠ []) (h2 : p.length ≤ size) :
    ∃ c, commit r p (powers r τ (1 % r) size) = .ok c ∧
      (c : ZMod r) = (toPolyN r p).eval (τ : ZMod r) := commit_srs r τ size p h1 h2

/-- exact acceptance: `Verify` (the two-pair product the Go code checks) accepts `(c, h, v, z)` iff
    `c − v = (τ − z)·h` -/
theorem C11_verify_iff (τ c H v z : ℕ) :
    verify r (vkOf r τ) c H v z = true ↔ (c : ZMod r) - v = ((τ : ZMod r) - z) * H :=
  verify_iff r τ c H v z

example : verify 13 (vkOf 13 5) 8 10 4 2 = true := by decide    -- 8 − 4 = 3·10 mod 13
example : verify 13 (vkOf 13 5) 8 10 5 2 = false := by decide

/-- completeness: for every SRS size ≥ 2, every trapdoor, every non-empty polynomial that fits the SRS (constants,
the zero polynomial and full-size polynomials included) and every point (roots and `z = τ` included)
`Commit` and `Open` succeed, the claimed value is `p(z)` and the proof verifies -/
theorem C11_completeness (size τ z : ℕ) (p : List ℕ) (hsize : 2 ≤ size) (h1 : p ≠ []) (h2 : p.length ≤ size) :
    ∃ srs c H v, newSRS r size τ = .ok srs ∧ commit r p srs.pk = .ok c ∧ openAt r p z srs.pk = .ok (H, v) ∧
      (v : ZMod r) = (toPolyN r p).eval (z : ZMod r) ∧ verify r srs.vk c H v z = true := by
  have hs : ¬ size < 2 := by omega
  obtain ⟨c, hc, hcv⟩ := commit_srs r τ size p h1 h2
  have hql : (dividePolyByXminusA r p (eval r p z) z).length ≤ size := by
    rw [divide_length]; omega
  obtain ⟨H, hH, hHv⟩ := commitQuotient_srs r τ size _ hql
  have hlen : ¬ (p.length = 0 ∨ p.length > (powers r τ (1 % r) size).length) := by
    rw [powers_length]
    have : p.length ≠ 0 := by simpa using h1
    omega
  refine ⟨{ pk := powers r τ (1 % r) size, vk := vkOf r τ }, c, H, eval r p z, ?_, hc, ?_, cast_eval r p z, ?_⟩
  · simp only [newSRS, if_neg hs]
  · simp only [openAt, if_neg hlen, hH]
  · rw [verify_iff, hcv, hHv, cast_eval]
    have h := congrArg (Polynomial.eval (τ : ZMod r)) (C11_divide r p z h1)
    simpa using h

example : ∃ H v, openAt 13 [7] 3 (powers 13 5 1 4) = .ok (H, v) ∧ verify 13 (vkOf 13 5) 7 H v 3 = true :=
  ⟨0, 7, by decide, by decide⟩   -- constant polynomial: H = O

/-- size errors are exactly those of the Go code -/
theorem C11_size_errors (size τ : ℕ) (p pk : List ℕ) (z : ℕ) :
    (size < 2 → newSRS r size τ = .error .srsSize) ∧
    ((p.length = 0 ∨ p.length > pk.length) → commit r p pk = .error .polySize ∧ openAt r p z pk = .error .polySize) := by
  refine ⟨fun h => by simp [newSRS, h], fun h => ⟨by simp only [commit, if_pos h], by simp only [openAt, if_pos h]⟩⟩

/-! ### rejection: any altered value, commitment, quotient or point is rejected -/

/-- an accepted tuple with another claimed value is rejected -/
theorem C11_reject_altered_value (τ c H v v' z : ℕ) (hacc : verify r (vkOf r τ) c H v z = true)
    (hne : (v' : ZMod r) ≠ v) : verify r (vkOf r τ) c H v' z = false := by
  rw [Bool.eq_false_iff]
  intro h'
  rw [verify_iff] at hacc h'
  exact hne (by linear_combination hacc - h')

/-- an accepted tuple with another commitment is rejected -/
theorem C11_reject_altered_commitment (τ c c' H v z : ℕ) (hacc : verify r (vkOf r τ) c H v z = true)
    (hne : (c' : ZMod r) ≠ c) : verify r (vkOf r τ) c' H v z = false := by
  rw [Bool.eq_false_iff]
  intro h'
  rw [verify_iff] at hacc h'
  exact hne (by linear_combination h' - hacc)

/-- an accepted tuple with another quotient is rejected, unless the point is the trapdoor itself
(at `z = τ` the relation is `c = v` and does not involve the quotient: `C11_quotient_free_at_trapdoor`) -/
theorem C11_reject_altered_quotient [Fact r.Prime] (τ c H H' v z : ℕ)
    (hacc : verify r (vkOf r τ) c H v z = true) (hz : (τ : ZMod r) ≠ z) (hne : (H' : ZMod r) ≠ H) :
    verify r (vkOf r τ) c H' v z = false := by
  rw [Bool.eq_false_iff]
  intro h'
  rw [verify_iff] at hacc h'
  have h0 : ((τ : ZMod r) - z) * ((H' : ZMod r) - H) = 0 := by linear_combination hacc - h'
  rcases mul_eq_zero.mp h0 with h | h
  · exact hz (sub_eq_zero.mp h)
  · exact hne (sub_eq_zero.mp h)

theorem C11_quotient_free_at_trapdoor (τ c H v z : ℕ) (hz : (z : ZMod r) = τ) :
    verify r (vkOf r τ) c H v z = true ↔ (c : ZMod r) = v := by
  rw [verify_iff, hz, sub_self, zero_mul, sub_eq_zero]

/-- an accepted tuple opened at another point is rejected (when the quotient commitment is not the identity;
with `H = O` the relation is `c = v` for every point) -/
theorem C11_reject_altered_point [Fact r.Prime] (τ c H v z z' : ℕ)
    (hacc : verify r (vkOf r τ) c H v z = true) (hH : (H : ZMod r) ≠ 0) (hne : (z' : ZMod r) ≠ z) :
    verify r (vkOf r τ) c H v z' = false := by
  rw [Bool.eq_false_iff]
  intro h'
  rw [verify_iff] at hacc h'
  have h0 : ((z' : ZMod r) - z) * (H : ZMod r) = 0 := by linear_combination h' - hacc
  rcases mul_eq_zero.mp h0 with h | h
  · exact hne (sub_eq_zero.mp h)
  · exact hH h

/-! ### partial vanishing: one operand of the pairing product is the identity

`Verify` checks `e(A, G₂)·e(−H, [τ]G₂) = 1` with `A = [v]G₁ − [z]H − C`. When ONE operand is the identity the verdict is
still the relation's: it is decided by the other operand (op classes `verify`/`reuse`/`batch1`/`multi` of c11_vanish.go). -/

/-- first operand the identity, `c − v + z·h = 0` (publicly reachable for any commitment and any claimed value:
`H = [−1/z](C − [v]G₁)`): accepted iff the second product is trivial, `τ·h = 0` -/
theorem C11_first_operand_zero_iff (τ c H v z : ℕ) (h0 : (c : ZMod r) - v + (z : ZMod r) * H = 0) :
    verify r (vkOf r τ) c H v z = true ↔ (τ : ZMod r) * H = 0 := by
  rw [verify_iff]
  constructor
  · intro h; linear_combination h0 - h
  · intro h; linear_combination h0 - h

/-- … hence REJECTED whenever the quotient commitment is not the identity (and the trapdoor is not 0) -/
theorem C11_reject_first_operand_zero [Fact r.Prime] (τ c H v z : ℕ)
    (h0 : (c : ZMod r) - v + (z : ZMod r) * H = 0) (hτ : (τ : ZMod r) ≠ 0) (hH : (H : ZMod r) ≠ 0) :
    verify r (vkOf r τ) c H v z = false := by
  rw [Bool.eq_false_iff, Ne, C11_first_operand_zero_iff r τ c H v z h0]
  exact mul_ne_zero hτ hH

/-- second operand the identity, `H = O`: accepted iff `c = v` (whatever the point); a wrong value is rejected -/
theorem C11_second_operand_zero_iff (τ c H v z : ℕ) (hH : (H : ZMod r) = 0) :
    verify r (vkOf r τ) c H v z = true ↔ (c : ZMod r) = v := by
  rw [verify_iff, hH, mul_zero, sub_eq_zero]

/-- degenerate key `[τ]G₂ = O` (τ = 0): the second pair is trivial and the first operand alone decides -/
theorem C11_trapdoor_zero_iff (τ c H v z : ℕ) (hτ : (τ : ZMod r) = 0) :
    verify r (vkOf r τ) c H v z = true ↔ (c : ZMod r) - v + (z : ZMod r) * H = 0 := by
  rw [verify_iff, hτ]
  constructor
  · intro h; linear_combination h
  · intro h; linear_combination h

-- r = 13, τ = 5: c = v − z·h = 4 − 2·10 = 10: first operand zero, h = 10 ≠ 0: rejected; h = 0, c ≠ v: rejected; h = 0, c = v: accepted
example : verify 13 (vkOf 13 5) 10 10 4 2 = false ∧ verify 13 (vkOf 13 5) 5 0 4 2 = false ∧
    verify 13 (vkOf 13 5) 4 0 4 2 = true ∧ verify 13 (vkOf 13 0) 10 10 4 2 = true := by decide

example : verify 13 (vkOf 13 5) 8 10 4 2 = true ∧ verify 13 (vkOf 13 5) 8 11 4 2 = false ∧
    verify 13 (vkOf 13 5) 8 10 4 3 = false ∧ verify 13 (vkOf 13 5) 9 10 4 2 = false := by decide

/-- a verifying key can be reused: in any sequence of verifications sharing one key every verdict is the
relation of its own tuple (the model is a function of its value arguments; that the Go `Verify` leaves the key
unchanged and gives stable verdicts is checked by the correspondence op `reuse`) -/
theorem C11_key_reuse (τ : ℕ) (ts : List (ℕ × ℕ × ℕ × ℕ)) :
    ts.map (fun t => verify r (vkOf r τ) t.1 t.2.1 t.2.2.1 t.2.2.2) =
    ts.map (fun t => decide ((t.1 : ZMod r) - t.2.2.1 = ((τ : ZMod r) - t.2.2.2) * t.2.1)) := by
  apply List.map_congr_left
  intro t _
  rw [Bool.eq_iff_iff, decide_eq_true_iff]
  exact verify_iff r τ _ _ _ _

/-! ### batched opening at a single point (γ a parameter) -/

/-- `FoldProof`: folded quotient = H, folded value = `Σ γⁱvᵢ`, folded digest = `Σ γⁱcᵢ` -/
theorem C11_foldProof (γ H : ℕ) (cs vs : List ℕ) (hlen : cs.length = vs.length) (hne : cs ≠ []) :
    ∃ fH fv fc, foldProof r γ cs H vs = .ok (fH, fv, fc) ∧ (fH : ZMod r) = H ∧
      (fv : ZMod r) = (toPolyN r vs).eval (γ : ZMod r) ∧ (fc : ZMod r) = (toPolyN r cs).eval (γ : ZMod r) := by
  have h1 : ¬ (cs.length ≠ vs.length) := by simpa using hlen
  have h2 : ¬ (cs.length = 0) := by simpa using hne
  refine ⟨H % r, msm r vs (gammaPowers r γ cs.length), msm r cs (gammaPowers r γ cs.length), ?_, ?_, ?_, ?_⟩
  · simp only [foldProof, if_neg h1, if_neg h2, fold]
  · simp
  · exact cast_msm_gammaPowers r γ vs _ (by omega)
  · exact cast_msm_gammaPowers r γ cs _ le_rfl

/-- `BatchVerifySinglePoint` is `Verify` of the folded proof against the folded digest -/
theorem C11_batchSingle_is_verify_folded (γ : ℕ) (vk : VK) (cs vs : List ℕ) (H z fH fv fc : ℕ)
    (h : foldProof r γ cs H vs = .ok (fH, fv, fc)) :
    batchVerifySinglePoint r γ vk cs H vs z = .ok (verify r vk fc fH fv z) := by
  simp only [batchVerifySinglePoint, h]

/-- exact acceptance of the batched single-point check for the given γ:
    accepts iff `Σγⁱcᵢ − Σγⁱvᵢ = (τ − z)·H` -/
theorem C11_batchSingle_iff (γ τ z H : ℕ) (cs vs : List ℕ) (hlen : cs.length = vs.length) (hne : cs ≠ []) :
    ∃ b, batchVerifySinglePoint r γ (vkOf r τ) cs H vs z = .ok b ∧
      (b = true ↔ (toPolyN r cs).eval (γ : ZMod r) - (toPolyN r vs).eval (γ : ZMod r)
                    = ((τ : ZMod r) - z) * H) := batchVerifySinglePoint_iff r γ τ z H cs vs hlen hne

example : batchVerifySinglePoint 13 2 (vkOf 13 5) [8, 3] 7 [4, 1] 2 = .ok true := by decide
  -- γ = 2: (8 + 2·3) − (4 + 2·1) = 8 = (5 − 2)·7 mod 13
example : batchVerifySinglePoint 13 2 (vkOf 13 5) [8, 3] 11 [4, 1] 2 = .ok false := by decide

theorem C11_batchSingle_errors (γ : ℕ) (vk : VK) (cs vs : List ℕ) (H z : ℕ) (h : cs.length ≠ vs.length) :
    batchVerifySinglePoint r γ vk cs H vs z = .error .nbDigests := by
  simp only [batchVerifySinglePoint, foldProof, if_pos h]

/-- the empty batch is refused with `ErrZeroNbDigests` by `FoldProof` and `BatchVerifySinglePoint` (repair a88cea6 in /repo: the Go code
used to index the empty slice `gammai[0]`), like `BatchVerifyMultiPoints` (`C11_multi_errors`) -/
theorem C11_batchSingle_empty (γ : ℕ) (vk : VK) (H z : ℕ) :
    foldProof r γ [] H [] = .error .zeroDigests ∧ batchVerifySinglePoint r γ vk [] H [] z = .error .zeroDigests := by
  constructor <;> simp [batchVerifySinglePoint, foldProof]

/-! ### batch verification at several points (λ parameters, λ₀ = 1) -/

/-- exact acceptance for the given λ: accepts iff `Σ λᵢ·(cᵢ − vᵢ − (τ − zᵢ)·hᵢ) = 0` (λ₀ := 1);
`defects_getD` identifies the i-th entry of `defects` with the defect of the i-th claim -/
theorem C11_multi_iff (τ : ℕ) (lams cs : List ℕ) (ps : List (ℕ × ℕ)) (zs : List ℕ)
    (h1 : cs.length = ps.length) (h2 : cs.length = zs.length) (h3 : lams.length = cs.length) (hne : cs ≠ []) :
    ∃ b, batchVerifyMultiPoints r (vkOf r τ) lams cs ps zs = .ok b ∧
      (b = true ↔
        dot (castL r (lams.set 0 1)) (defects (τ : ZMod r) (castL r cs) (castP r ps) (castL r zs)) = 0) :=
  batchVerifyMultiPoints_iff r τ lams cs ps zs h1 h2 h3 hne

/-- if every claim holds the check accepts whatever the λ -/
theorem C11_multi_all_true (τ : ℕ) (lams cs : List ℕ) (ps : List (ℕ × ℕ)) (zs : List ℕ)
    (h1 : cs.length = ps.length) (h2 : cs.length = zs.length) (h3 : lams.length = cs.length) (hne : cs ≠ [])
    (htrue : ∀ d ∈ defects (τ : ZMod r) (castL r cs) (castP r ps) (castL r zs), d = 0) :
    batchVerifyMultiPoints r (vkOf r τ) lams cs ps zs = .ok true := by
  obtain ⟨b, hb, hiff⟩ := batchVerifyMultiPoints_iff r τ lams cs ps zs h1 h2 h3 hne
  rw [hb, hiff.mpr (dot_zero_of_all_zero _ _ htrue)]

/-- if some claim is false there are λ for which the check rejects -/
theorem C11_multi_false_exists_reject (τ : ℕ) (cs : List ℕ) (ps : List (ℕ × ℕ)) (zs : List ℕ)
    (h1 : cs.length = ps.length) (h2 : cs.length = zs.length)
    (hfalse : ∃ d ∈ defects (τ : ZMod r) (castL r cs) (castP r ps) (castL r zs), d ≠ 0) :
    ∃ lams : List ℕ, lams.length = cs.length ∧
      batchVerifyMultiPoints r (vkOf r τ) lams cs ps zs = .ok false := by
  have hdl := defects_length (τ : ZMod r) (castL r cs) (castP r ps) (castL r zs)
    (by simp [castP, h1]) (by simp [h2])
  obtain ⟨lams, hl, hdot⟩ := exists_dot_set_ne_zero r _ hfalse
  have hl' : lams.length = cs.length := by rw [hl, hdl]; simp
  have hne : cs ≠ [] := by
    rintro rfl
    obtain ⟨d, hd, _⟩ := hfalse
    simp [defects] at hd
  obtain ⟨b, hb, hiff⟩ := batchVerifyMultiPoints_iff r τ lams cs ps zs h1 h2 hl' hne
  refine ⟨lams, hl', ?_⟩
  cases b with
  | false => exact hb
  | true => exact absurd (hiff.mp rfl) hdot

/-- the accepting λ form a proper affine hyperplane: if claim `i ≥ 1` is false then, all other λ fixed, at most one
value of λᵢ (mod r) is accepted -/
theorem C11_multi_lambda_unique [Fact r.Prime] (τ : ℕ) (lams cs : List ℕ) (ps : List (ℕ × ℕ)) (zs : List ℕ)
    (h1 : cs.length = ps.length) (h2 : cs.length = zs.length) (h3 : lams.length = cs.length)
    (i : ℕ) (hi0 : i ≠ 0) (hi : i < cs.length)
    (hfalse : (defects (τ : ZMod r) (castL r cs) (castP r ps) (castL r zs)).getD i 0 ≠ 0) (x y : ℕ)
    (hx : batchVerifyMultiPoints r (vkOf r τ) (lams.set i x) cs ps zs = .ok true)
    (hy : batchVerifyMultiPoints r (vkOf r τ) (lams.set i y) cs ps zs = .ok true) :
    (x : ZMod r) = y := by
  have hne : cs ≠ [] := by rintro rfl; simp at hi
  have key : ∀ w : ℕ, batchVerifyMultiPoints r (vkOf r τ) (lams.set i w) cs ps zs = .ok true →
      dot (castL r (lams.set 0 1)) (defects (τ : ZMod r) (castL r cs) (castP r ps) (castL r zs))
        + ((w : ZMod r) - (castL r (lams.set 0 1)).getD i 0)
          * (defects (τ : ZMod r) (castL r cs) (castP r ps) (castL r zs)).getD i 0 = 0 := by
    intro w hw
    obtain ⟨b, hb, hiff⟩ := batchVerifyMultiPoints_iff r τ (lams.set i w) cs ps zs h1 h2 (by simp [h3]) hne
    rw [hw] at hb
    have hbt : b = true := by injection hb with e; exact e.symm
    have := hiff.mp hbt
    rw [List.set_comm _ _ hi0, castL_set, dot_set _ _ _ _ (by simp [h3, hi])] at this
    exact this
  have hxy := key x hx
  have hyx := key y hy
  have h0 : ((x : ZMod r) - y)
      * (defects (τ : ZMod r) (castL r cs) (castP r ps) (castL r zs)).getD i 0 = 0 := by
    linear_combination hxy - hyx
  rcases mul_eq_zero.mp h0 with h | h
  · exact sub_eq_zero.mp h
  · exact absurd h hfalse

example : batchVerifyMultiPoints 13 (vkOf 13 5) [1, 7] [8, 8] [(10, 4), (10, 4)] [2, 2] = .ok true := by decide
example : batchVerifyMultiPoints 13 (vkOf 13 5) [1, 7] [8, 9] [(10, 4), (10, 4)] [2, 2] = .ok false := by decide
-- a false claim accepted by the one bad λ₁: δ₀ = 1 (c₀ = 9), δ₁ = 1 (c₁ = 9), λ₁ = 12 = −1
example : batchVerifyMultiPoints 13 (vkOf 13 5) [1, 12] [9, 9] [(10, 4), (10, 4)] [2, 2] = .ok true := by decide

theorem C11_multi_errors (vk : VK) (lams cs : List ℕ) (ps : List (ℕ × ℕ)) (zs : List ℕ) :
    ((cs.length ≠ ps.length ∨ cs.length ≠ zs.length) →
      batchVerifyMultiPoints r vk lams cs ps zs = .error .nbDigests) ∧
    (cs = [] → ps = [] → zs = [] → batchVerifyMultiPoints r vk lams cs ps zs = .error .zeroDigests) := by
  refine ⟨fun h => by simp only [batchVerifyMultiPoints, if_pos h], ?_⟩
  rintro rfl rfl rfl
  simp [batchVerifyMultiPoints]

/-- honest batched opening: for every γ, every list of non-empty polynomials that fit the SRS (of possibly different
lengths, constants included) and every point, `BatchOpenSinglePoint` succeeds, the claimed values are the `pᵢ(z)`
and `BatchVerifySinglePoint` accepts the proof against the commitments -/
theorem C11_batchOpen_complete (γ τ z size : ℕ) (polys : List (List ℕ)) (cs : List ℕ)
    (hne : polys ≠ []) (hp : ∀ p ∈ polys, p ≠ [] ∧ p.length ≤ size)
    (hcs : List.Forall₂ (fun p c => commit r p (powers r τ (1 % r) size) = .ok c) polys cs) :
    ∃ H vals, batchOpenSinglePoint r γ polys cs.length z (powers r τ (1 % r) size) = .ok (H, vals) ∧
      castL r vals = polys.map (fun p => (toPolyN r p).eval (z : ZMod r)) ∧
      batchVerifySinglePoint r γ (vkOf r τ) cs H vals z = .ok true := by
  have hlen : cs.length = polys.length := hcs.length_eq.symm
  -- the digests are the values at τ
  have hcast : castL r cs = polys.map (fun p => (toPolyN r p).eval (τ : ZMod r)) := by
    clear hne hlen
    induction hcs with
    | nil => rfl
    | @cons p c ps cs' hpc _ ih =>
      obtain ⟨hp1, hp2⟩ := hp p (by simp)
      obtain ⟨c', hc', hcv⟩ := commit_srs r τ size p hp1 hp2
      rw [hpc] at hc'
      injection hc' with e
      rw [castL_cons, List.map_cons, ih (fun q hq => hp q (by simp [hq])), e, hcv]
  obtain ⟨p0, rest, rfl⟩ := List.exists_cons_of_ne_nil hne
  have hmax := le_foldl_max (p0 :: rest) 0
  have hl0 : p0.length ≤ (p0 :: rest).foldl (fun m p => max m p.length) 0 := hmax.2 p0 (by simp)
  have hl : ∀ p ∈ rest, p.length ≤ (p0 :: rest).foldl (fun m p => max m p.length) 0 :=
    fun p hp' => hmax.2 p (by simp [hp'])
  have hls : (p0 :: rest).foldl (fun m p => max m p.length) 0 ≤ size :=
    foldl_max_le (p0 :: rest) 0 size (Nat.zero_le _) (fun p hp' => (hp p hp').2)
  have hp0 : 1 ≤ p0.length := by
    have := (hp p0 (by simp)).1
    exact Nat.one_le_iff_ne_zero.mpr (by simpa using this)
  have elen : (p0 :: rest).length = rest.length + 1 := rfl
  obtain ⟨fl, fpoly⟩ := toPolyN_foldPolys r γ p0 rest _ hl0 hl
  rw [← elen] at fl fpoly
  -- claimed values
  have hvals : castL r ((p0 :: rest).map (fun p => eval r p z))
      = (p0 :: rest).map (fun p => (toPolyN r p).eval (z : ZMod r)) := by
    simp only [castL, List.map_map]
    apply List.map_congr_left
    intro p _
    exact cast_eval r p z
  have hfe : ((foldEvals r γ ((p0 :: rest).map (fun p => eval r p z)) : ℕ) : ZMod r)
      = (gfold (γ : ZMod r) ((p0 :: rest).map (toPolyN r))).eval (z : ZMod r) := by
    rw [cast_foldEvals, toPolyN, hvals, gfold_eval, List.map_map]
    rfl
  have hfpne : foldPolys r ((p0 :: rest).foldl (fun m p => max m p.length) 0) (p0 :: rest)
      (powers r γ (γ % r) (p0 :: rest).length) ≠ [] := by
    intro e
    rw [e] at fl
    simp only [List.length_nil] at fl
    omega
  have hdiv := divide_poly r _ (foldEvals r γ ((p0 :: rest).map (fun p => eval r p z))) z hfpne
  rw [fpoly, hfe, sub_self, map_zero, add_zero] at hdiv
  have hql : (dividePolyByXminusA r (foldPolys r ((p0 :: rest).foldl (fun m p => max m p.length) 0) (p0 :: rest)
      (powers r γ (γ % r) (p0 :: rest).length))
      (foldEvals r γ ((p0 :: rest).map (fun p => eval r p z))) z).length ≤ size := by
    rw [divide_length, fl]; omega
  obtain ⟨H, hH, hHv⟩ := commitQuotient_srs r τ size _ hql
  have c1 : ¬ (cs.length ≠ (p0 :: rest).length) := by simpa using hlen
  have c2 : ¬ ((p0 :: rest).any (fun p => decide (p.length = 0 ∨ p.length > (powers r τ (1 % r) size).length))
      = true) := by
    rw [Bool.not_eq_true, List.any_eq_false]
    intro p hp'
    rw [powers_length, decide_eq_true_eq]
    have := hp p hp'
    have h0 : p.length ≠ 0 := by simpa using this.1
    omega
  have c3 : ¬ ((p0 :: rest).length = 0) := by simp
  refine ⟨H, (p0 :: rest).map (fun p => eval r p z), ?_, hvals, ?_⟩
  · simp only [batchOpenSinglePoint, if_neg c1, if_neg c2, if_neg c3, hH]
  · have hcsne : cs ≠ [] := by
      intro e; rw [e] at hlen; simp at hlen
    obtain ⟨b, hb, hiff⟩ := batchVerifySinglePoint_iff r γ τ z H cs ((p0 :: rest).map (fun p => eval r p z))
      (by simp [hlen]) hcsne
    rw [hb]
    congr 1
    rw [hiff, toPolyN, hcast, toPolyN, hvals, hHv]
    have e1 := gfold_eval (γ : ZMod r) (τ : ZMod r) ((p0 :: rest).map (toPolyN r))
    have e2 := gfold_eval (γ : ZMod r) (z : ZMod r) ((p0 :: rest).map (toPolyN r))
    rw [List.map_map] at e1 e2
    have h3 := congrArg (Polynomial.eval (τ : ZMod r)) hdiv
    simp only [eval_sub, eval_mul, eval_X, eval_C] at h3
    rw [e1, e2] at h3
    exact h3

/-- the empty batch is refused with `ErrZeroNbDigests` by the prover side too (`C11 bopen0`), as the verifier side refuses it
(`C11_batchSingle_empty`, `C11_multi_errors`); kzg.go indexes `res.ClaimedValues[-1]` inside a goroutine instead -/
theorem C11_batchOpen_empty (γ z : ℕ) (pk : List ℕ) : batchOpenSinglePoint r γ [] 0 z pk = .error .zeroDigests := by
  simp [batchOpenSinglePoint]

/-! ### histories of the serialisation API and of a setup ceremony -/

/-- objects written one after the other to ONE stream, followed by any trailer, are read back by as many `ReadFrom` calls on ONE
reader — every object, in order, and exactly the trailer is left — as soon as each codec is prefix-exact (`C11 stream`) -/
theorem C11_stream_roundtrip {α : Type} (c : Codec α) (as : List α) (t : List UInt8) :
    decMany c as.length ((as.map c.enc).flatten ++ t) = some (as, t) := by
  induction as with
  | nil => rfl
  | cons a as ih =>
    simp only [List.map_cons, List.flatten_cons, List.length_cons, List.append_assoc, decMany, c.exact, ih]

/-- the honest chain of transcripts k+1, k+2, … is accepted link by link from transcript k (`C11 mpcchain`, no drop) -/
theorem C11_chain_honest (k n : ℕ) : chainVerdicts k (List.range' (k + 1) n) = List.replicate n true := by
  induction n generalizing k with
  | zero => rfl
  | succ n ih =>
    rw [List.range'_succ, chainVerdicts, ih (k + 1), List.replicate_succ]
    simp [linkOk]

/-- a transcript left out: exactly the link over the gap is refused, the chain after it is accepted again -/
theorem C11_chain_gap (k m : ℕ) : chainVerdicts k (List.range' (k + 2) (m + 1)) = false :: List.replicate m true := by
  rw [List.range'_succ, chainVerdicts, C11_chain_honest (k + 2) m]
  simp [linkOk]

example : chainVerdicts 0 (phasesOf 4 none) = [true, true, true, true] := by decide
example : chainVerdicts 0 (phasesOf 5 (some 2)) = [true, true, false, true] := by decide
example : chainVerdicts 0 (phasesOf 3 (some 2)) = [true, true] := by decide

example : batchOpenSinglePoint 13 2 [[1, 2, 3], [7]] 2 2 (powers 13 5 1 4) = .ok (10, [4, 7]) := by decide
example : batchVerifySinglePoint 13 2 (vkOf 13 5) [8, 7] 10 [4, 7] 2 = .ok true := by decide  -- commitments p₀(5) = 86 = 8, 7

end GV.KZG
