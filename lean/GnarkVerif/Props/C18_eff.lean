import GnarkVerif.Proofs.Effects
import GnarkVerif.Gen.Effects
/-!
# C18_eff — the regenerated WRITE-EFFECT summary of the exported API (tie T for C18)

`tools/goeff` (Go, golang.org/x/tools/go/ssa) re-reads the covered packages of /repo on EVERY run and writes `Gen/Effects.lean`: for every
function reachable from the exported API its DIRECT facts — `write r` for a store through a pointer rooted at parameter / global `r`
(Store, MapUpdate, copy / append-in-place / clear, channel send, hand-table effects of body-less callees) and `call f am` for every call edge
with the map from the callee's parameter roots to the caller's roots — i.e. the call graph BEFORE the closure — together with the allowed
destinations of every exported function (tools/goeff/expect.txt: default = pointer receiver only; explicit, reviewed lines otherwise).

PROVED here, in Lean:
* `C18eff_frame` (for every table, every CLOSED summary, every fuel, environment and state): an execution of `f` in the effect semantics
  `GV.Eff.Exec` (write = havoc of the cells of the root, call = callee body under the argument map, fuel = call depth) changes only cells
  denoted by roots of `S f`;  `C18eff_disjoint_calls`: a later call whose closed write set denotes none of the cells another call produced
  leaves them as they were (what "safe to run on shared read-only objects" needs of the write side).
* `C18eff_closure_sound`: the closure computed in Lean by iteration (`closure fns n`), whenever it passes the closedness check, is such a summary.
* on the REGENERATED table, by kernel evaluation: the tool's closed summaries `closedTrie` (a certificate; equal to Lean's own iteration
  `closure all (rounds+1)` on every id, `#guard`) are closed under the table (`C18eff_closed`), ids are positions (`C18eff_ids`), and the POLICY `C18eff_policy`: for every exported function of the covered packages the
  closed write set is inside its allowed destinations. `C18eff_exported_frame` combines them: an exported function changes only cells of its
  documented destinations. `C18eff_covered` pins the list of covered packages (a package that disappears breaks it).

TRUSTED (not proved): the SSA-to-effects abstraction of tools/goeff (root propagation, the deep-reachability regions, interface dispatch =
join over the implementations in the loaded packages + table, dynamic calls = join over address-taken functions of the same signature, effects
of a closure on its captured variables charged where the closure is made), the hand tables of body-less callees (tools/goeff/tables.go:
math/big, hash.Hash, io, sync, encoding/binary, assembly stubs by name; Mutex / WaitGroup / Once are synchronisation only), the reading of
expect.txt, and that the effect semantics over-approximates Go executions. The analysis is MAY-WRITE: sound for "does not write", silent on
data races between allowed writers, on values, on reads. Parameters distinct at the call are assumed not to alias each other.
-/
namespace GV.Eff
open GV.Gen.Effects

/-- FRAME THEOREM: under a closed summary an execution of `fn` changes only cells denoted by `S fn.id` -/
theorem C18eff_frame (fns : List Fn) (S : Nat → List Root) (hC : closedB fns S = true)
    (fn : Fn) (hmem : fn ∈ fns) (n : Nat) (env : Env) (σ σ' : State)
    (h : Exec (tableOf fns) n env fn.body σ σ') (c : Cell) (hc : ∀ r ∈ S fn.id, c ∉ env r) : σ' c = σ c :=
  frame_of_closed (tableOf fns) S (closed_of_closedB hC) h (S fn.id) (bodyOK_self hC hmem) c hc

/-- the closure computed by iteration, once it passes the closedness check, is a sound write summary -/
theorem C18eff_closure_sound (fns : List Fn) (k : Nat) (hC : closedB fns (closure fns k) = true)
    (fn : Fn) (hmem : fn ∈ fns) (n : Nat) (env : Env) (σ σ' : State)
    (h : Exec (tableOf fns) n env fn.body σ σ') (c : Cell) (hc : ∀ r ∈ closure fns k fn.id, c ∉ env r) : σ' c = σ c :=
  C18eff_frame fns (closure fns k) hC fn hmem n env σ σ' h c hc

/-- the same through the policy: an exported function changes only cells of its allowed destinations -/
theorem C18eff_policy_frame (fns : List Fn) (S : Nat → List Root) (hC : closedB fns S = true) (hP : policyB fns S = true)
    (fn : Fn) (hmem : fn ∈ fns) (hex : fn.exported = true) (n : Nat) (env : Env) (σ σ' : State)
    (h : Exec (tableOf fns) n env fn.body σ σ') (c : Cell) (hc : ∀ r ∈ fn.allowed, c ∉ env r) : σ' c = σ c :=
  C18eff_frame fns S hC fn hmem n env σ σ' h c (fun r hr => hc r (policy_of_policyB hP hmem hex r hr))

/-- two calls one after the other: every cell that the second call's closed write set does not denote keeps the value the first call left
(in particular everything the first call produced, and every shared read-only input) -/
theorem C18eff_disjoint_calls (fns : List Fn) (S : Nat → List Root) (hC : closedB fns S = true)
    (f g : Fn) (_hf : f ∈ fns) (hg : g ∈ fns) (n m : Nat) (envf envg : Env) (σ σ₁ σ₂ : State)
    (_h1 : Exec (tableOf fns) n envf f.body σ σ₁) (h2 : Exec (tableOf fns) m envg g.body σ₁ σ₂)
    (c : Cell) (hc : ∀ r ∈ S g.id, c ∉ envg r) : σ₂ c = σ₁ c :=
  C18eff_frame fns S hC g hg m envg σ₁ σ₂ h2 c hc

/-- two calls with write sets denoting disjoint cells, and a cell neither may write: unchanged after both, in either order -/
theorem C18eff_both_orders (fns : List Fn) (S : Nat → List Root) (hC : closedB fns S = true)
    (f g : Fn) (hf : f ∈ fns) (hg : g ∈ fns) (n m : Nat) (envf envg : Env) (σ σ₁ σ₂ τ₁ τ₂ : State)
    (h1 : Exec (tableOf fns) n envf f.body σ σ₁) (h2 : Exec (tableOf fns) m envg g.body σ₁ σ₂)
    (k1 : Exec (tableOf fns) m envg g.body σ τ₁) (k2 : Exec (tableOf fns) n envf f.body τ₁ τ₂)
    (c : Cell) (hcf : ∀ r ∈ S f.id, c ∉ envf r) (hcg : ∀ r ∈ S g.id, c ∉ envg r) : σ₂ c = τ₂ c := by
  rw [C18eff_frame fns S hC g hg m envg σ₁ σ₂ h2 c hcg, C18eff_frame fns S hC f hf n envf σ σ₁ h1 c hcf,
    C18eff_frame fns S hC f hf n envf τ₁ τ₂ k2 c hcf, C18eff_frame fns S hC g hg m envg σ τ₁ k1 c hcg]

/-! ### non-vacuity: a two-function table, a real execution that changes a cell, and the frame it respects -/

def exTable : List Fn :=
  [⟨0, "callee", 1, [], false, [], [.write (.p 0)]⟩,
   ⟨1, "Caller", 2, ["z", "x"], true, [.p 0], [.call 0 [(0, [.p 0])]]⟩]

def exEnv : Env := fun r => match r with | .p 0 => [10] | .p 2 => [20] | _ => []
def exS : Nat → List Root := closure exTable 2

example : closedB exTable exS = true ∧ policyB exTable exS = true ∧ idsOKB exTable = true := by decide
example : exS 1 = [.p 0] := by decide
/-- the hypotheses of `C18eff_policy_frame` are satisfiable: `Caller` runs, cell 10 (its receiver) changes, cell 20 (argument x) cannot -/
example : ∃ σ' : State, Exec (tableOf exTable) 1 exEnv [.call 0 [(0, [.p 0])]] (fun _ => 0) σ' ∧ σ' 10 = 7 ∧ σ' 20 = 0 := by
  refine ⟨fun c => if c = 10 then 7 else 0, ?_, by simp, by simp⟩
  refine Exec.call 0 exEnv _ 0 [(0, [.p 0])] [.write (.p 0)] _ (fun c => if c = 10 then 7 else 0) _ (by simp) (by rfl) ?_ (Exec.done _ _ _ _)
  refine Exec.write 0 _ _ (.p 0) _ (fun c => if c = 10 then 7 else 0) _ (by simp) ?_ (Exec.done _ _ _ _)
  intro c hc
  have : c ≠ 10 := by
    intro h; apply hc; subst h; simp [bindEnv, bindRoots, amLookup, exEnv]
  simp [this]
example : ∀ σ' : State, Exec (tableOf exTable) 5 exEnv [.call 0 [(0, [.p 0])]] (fun _ => 0) σ' → σ' 20 = 0 := by
  intro σ' h
  exact C18eff_policy_frame exTable exS (by decide) (by decide) ⟨1, "Caller", 2, ["z", "x"], true, [.p 0], [.call 0 [(0, [.p 0])]]⟩
    (by simp [exTable]) rfl 5 exEnv _ σ' h 20 (by intro r hr; simp at hr; subst hr; simp [exEnv])

/-! ### the regenerated table -/

/-- the closed write summary of the regenerated table: the tool's certificate `closedTrie`, CHECKED closed by the kernel below
(`C18eff_closed`); the iteration `closure all (rounds + 1)` computed by Lean's evaluator agrees with it on every id (`#guard`) -/
def summ : Nat → List Root := closedTrie.find

def sameRoots (a b : List Root) : Bool := a.all (fun r => b.contains r) && b.all (fun r => a.contains r)
#guard (let t := closeRounds (rounds + 1) all .leaf; (List.range nFns).all (fun f => sameRoots (t.find f) (summ f)))

-- diagnostics for a failing policy: the exported functions outside their allowed destinations, with the offending roots
#eval violators all summ

theorem C18eff_ids : idsOKB all = true := by decide +kernel
theorem C18eff_closed : closedB all summ = true := by decide +kernel
/-- POLICY on the regenerated table: every exported function of the covered packages writes only its allowed destinations -/
theorem C18eff_policy : policyB all summ = true := by decide +kernel
theorem C18eff_violators : violators all summ = [] := by decide +kernel

/-- every exported function of the regenerated table changes only cells of its documented destinations, at every call depth -/
theorem C18eff_exported_frame (fn : Fn) (hmem : fn ∈ all) (hex : fn.exported = true) (n : Nat) (env : Env) (σ σ' : State)
    (h : Exec (tableOf all) n env fn.body σ σ') (c : Cell) (hc : ∀ r ∈ fn.allowed, c ∉ env r) : σ' c = σ c :=
  C18eff_policy_frame all summ C18eff_closed C18eff_policy fn hmem hex n env σ σ' h c hc

/-- every function of the regenerated table (exported or not) changes only cells of its closed write set -/
theorem C18eff_all_frame (fn : Fn) (hmem : fn ∈ all) (n : Nat) (env : Env) (σ σ' : State)
    (h : Exec (tableOf all) n env fn.body σ σ') (c : Cell) (hc : ∀ r ∈ summ fn.id, c ∉ env r) : σ' c = σ c :=
  C18eff_frame all summ C18eff_closed fn hmem n env σ σ' h c hc

/-- the table is not empty and has exported functions (non-vacuity of the two theorems above) -/
theorem C18eff_nonempty : all.length = nFns ∧ (all.filter (·.exported)).length = nExported ∧ 0 < nExported := by decide +kernel

end GV.Eff
