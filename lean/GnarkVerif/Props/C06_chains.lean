import GnarkVerif.Proofs.Chain
import GnarkVerif.Gen.Chains.Tower
import GnarkVerif.Gen.CurveConsts
import Mathlib.Algebra.Group.Int.Defs
import Mathlib.Algebra.Group.TypeTags.Basic
/- WRITTEN by bin/mkchains.py (generic part and per-package templates are in the script). DO NOT EDIT: edit the script and re-run it. -/
/-
C06 (tie T for the cyclotomic exponentiation chains) — `Expt`, `ExptHalf`, `ExptMinus1`, `ExptMinus1Squared` / `ExptMinus1Square`,
`ExptPlus1`, `ExptSquarePlus1`, `ExptMinus1Div3`, `Expc1`, `Expc2` of ecc/<curve>/internal/fptower/e{12,24,6}_pairing.go of the 7
pairing curves, re-translated on every run by tools/goslp/chains.go into chain DATA (Gen/Chains/Tower.lean): ops `Mul`,
`CyclotomicSquare` / `Square`, `nSquare(n)`, `nSquareCompressed(n)`, `DecompressKarabina` / `BatchDecompressKarabina`,
`Conjugate`, `Set`, calls of another chain (inlined). Every function is translated twice: called with distinct variables
(`F`) and in place, `v.F(&v)` (`F_inplace`, receiver and argument are ONE register; pairing.go does call them in place).

(a) `C06_chain_cyclotomic` (once, for every chain): let `rep t g` say "the tower value t represents the element g of a group G"
    (G = the cyclotomic subgroup) and `crep t g` "the four coordinates of t kept by Karabina's compression are those of g".
    If Mul / CyclotomicSquare / Conjugate / CyclotomicSquareCompressed / DecompressKarabina realise g·h, g·g, g⁻¹, g·g (on
    compressed forms), the identity (compressed → full), then a chain with exponent reading `expoInt c = some k ∈ ℤ` maps a
    representation of g to a representation of g^k. The exponent reading also checks that no register is read before it is
    written and that a compressed value is only squared (compressed), conjugated, copied or decompressed.
    The hypotheses are what C06 establishes for the translated tower code on the cyclotomic subgroup:
    `E12.Mul_spec` (product), `E12.CyclotomicSquare_spec` (x cyclotomic → x·x), `E12.Conjugate_spec` (= conj, the inverse on
    x·x̄ = 1), `E12.CyclotomicSquareCompressed_eq` (the four kept coordinates are those of CyclotomicSquare),
    `E12.DecompressKarabina_general_partial` / `_g2_zero` (PARTIAL, see Props/C06.lean) — they are NOT discharged here.
    `C06_chain_group`: the same with functions on the group itself.
(b) per curve, by `decide +kernel` on the regenerated chains and the regenerated seed `GV.Gen.CurveConsts.<curve>.xGen` = |x₀|
    (Props/C03_gen*: `seed_doc` relates it to the package comment, the seed relations to p and r): with t = ±xGen as the
    code has it, Expt = t, ExptHalf = t/2, ExptMinus1 = t−1, ExptMinus1Squared = (t−1)², ExptPlus1 = t+1,
    ExptSquarePlus1 = t²+1, ExptMinus1Div3 = (t−1)/3 (with 3 ∣ t−1); Expc1 / Expc2 are the small cofactor exponents stated
    in their Go comments (literals). The in-place variants have the same exponents.
-/
namespace GV.Chain

/-! ## (a) generic -/

section
variable {T G : Type} [Group G]

theorem C06_chain_cyclotomic (o : Ops T) (rep crep : T → G → Prop)
    (hw : ∀ t g, rep t g → crep t g)
    (hmul : ∀ a b g h, rep a g → rep b h → rep (o.mul a b) (g * h))
    (hsq : ∀ a g, rep a g → rep (o.sq a) (g * g))
    (hconj : ∀ a g, rep a g → rep (o.inv a) g⁻¹)
    (hconjC : ∀ a g, crep a g → crep (o.inv a) g⁻¹)
    (hsqc : ∀ a g, crep a g → crep (o.sqc a) (g * g))
    (hdec : ∀ a g, crep a g → rep (o.dec a) g)
    (c : Chain) (k : Int) (hk : expoInt c = some k) (x : T) (g : G) (hx : rep x g) :
    rep (eval o c x) (g ^ k) := by
  have S : Sim intDom o (fun t e => rep t (g ^ e)) (fun t e => crep t (g ^ e)) :=
    { weaken := fun t e h => hw t _ h
      mul := by
        intro a b e f ha hb
        show rep (o.mul a b) (g ^ (e + f))
        rw [zpow_add]; exact hmul a b _ _ ha hb
      sq := by
        intro a e ha
        show rep (o.sq a) (g ^ (2 * e))
        rw [Int.two_mul, zpow_add]; exact hsq a _ ha
      invF := by
        intro ng h a e ha; cases h
        show rep (o.inv a) (g ^ (-e))
        rw [zpow_neg]; exact hconj a _ ha
      invC := by
        intro ng h a e ha; cases h
        show crep (o.inv a) (g ^ (-e))
        rw [zpow_neg]; exact hconjC a _ ha
      sqc := by
        intro a e ha
        show crep (o.sqc a) (g ^ (2 * e))
        rw [Int.two_mul, zpow_add]; exact hsqc a _ ha
      dec := fun a e ha => hdec a _ ha }
  exact S.eval_spec c k hk x (by show rep x (g ^ (1 : Int)); rw [zpow_one]; exact hx)

/-- the same with operations on the group itself -/
theorem C06_chain_group (o : Ops G)
    (hmul : ∀ a b, o.mul a b = a * b) (hsq : ∀ a, o.sq a = a * a) (hconj : ∀ a, o.inv a = a⁻¹)
    (hsqc : ∀ a, o.sqc a = a * a) (hdec : ∀ a, o.dec a = a)
    (c : Chain) (k : Int) (hk : expoInt c = some k) (x : G) : eval o c x = x ^ k :=
  (group_sim o x hmul hsq hconj hsqc hdec).eval_spec c k hk x (zpow_one x).symm

end

/-- non-vacuity: x ↦ x^(-3) the way bw6-633 `Expc1` does it, run in the group `Multiplicative ℤ` -/
def toyNeg3 : Chain := { nregs := 3, out := 1, steps := [.sq 2 0 1, .mul 2 0 2, .inv 1 2] }
example : expoInt toyNeg3 = some (-3) := by decide
example (x : Multiplicative ℤ) : eval (groupOps _) toyNeg3 x = x ^ (-3 : ℤ) :=
  C06_chain_group _ (fun _ _ => rfl) (fun _ => rfl) (fun _ => rfl) (fun _ => rfl) (fun _ => rfl) toyNeg3 (-3) (by decide) x
example : eval (groupOps (Multiplicative ℤ)) toyNeg3 (Multiplicative.ofAdd 5) = Multiplicative.ofAdd (-15) := by decide
/-- a compressed value must be decompressed before it is multiplied; a chain that does not is rejected -/
example : expoInt { nregs := 3, out := 1, steps := [.sqc 2 0 4, .mul 1 2 0] } = none := by decide
example : expoInt { nregs := 3, out := 1, steps := [.sqc 2 0 4, .dec 2 2, .mul 1 2 0] } = some 17 := by decide
example {T G : Type} [Group G] (o : Ops T) (rep crep : T → G → Prop) (hw : ∀ t g, rep t g → crep t g)
    (hmul : ∀ a b g h, rep a g → rep b h → rep (o.mul a b) (g * h)) (hsq : ∀ a g, rep a g → rep (o.sq a) (g * g))
    (hconj : ∀ a g, rep a g → rep (o.inv a) g⁻¹) (hconjC : ∀ a g, crep a g → crep (o.inv a) g⁻¹)
    (hsqc : ∀ a g, crep a g → crep (o.sqc a) (g * g)) (hdec : ∀ a g, crep a g → rep (o.dec a) g)
    (x : T) (g : G) (hx : rep x g) :
    rep (eval o { nregs := 3, out := 1, steps := [.sqc 2 0 4, .dec 2 2, .mul 1 2 0] } x) (g ^ (17 : ℤ)) :=
  C06_chain_cyclotomic o rep crep hw hmul hsq hconj hconjC hsqc hdec _ 17 (by decide) x g hx

/-! ## (b) per curve -/

open GV.Gen.Chains.Tower
namespace bn254
/-- the seed as the code has it: t = xGen -/
abbrev t : Int := GV.Gen.CurveConsts.bn254.xGen

/-- `Expt` raises to `t` -/
theorem Expt_expo : expoInt bn254.Expt = some (t) := by decide +kernel

/-- `Expt_inplace` raises to `t` -/
theorem Expt_inplace_expo : expoInt bn254.Expt_inplace = some (t) := by decide +kernel

end bn254

namespace bls12_377
/-- the seed as the code has it: t = xGen -/
abbrev t : Int := GV.Gen.CurveConsts.bls12_377.xGen

/-- `Expt` raises to `t` -/
theorem Expt_expo : expoInt bls12_377.Expt = some (t) := by decide +kernel

/-- `Expt_inplace` raises to `t` -/
theorem Expt_inplace_expo : expoInt bls12_377.Expt_inplace = some (t) := by decide +kernel

end bls12_377

namespace bls12_381
/-- the seed as the code has it: t = −xGen -/
abbrev t : Int := (-GV.Gen.CurveConsts.bls12_381.xGen)

/-- `ExptHalf` raises to `t / 2` -/
theorem ExptHalf_expo : t % 2 = 0 ∧ expoInt bls12_381.ExptHalf = some (t / 2) := by decide +kernel

/-- `ExptHalf_inplace` raises to `t / 2` -/
theorem ExptHalf_inplace_expo : t % 2 = 0 ∧ expoInt bls12_381.ExptHalf_inplace = some (t / 2) := by decide +kernel

/-- `Expt` raises to `t` -/
theorem Expt_expo : expoInt bls12_381.Expt = some (t) := by decide +kernel

/-- `Expt_inplace` raises to `t` -/
theorem Expt_inplace_expo : expoInt bls12_381.Expt_inplace = some (t) := by decide +kernel

end bls12_381

namespace bls24_315
/-- the seed as the code has it: t = −xGen -/
abbrev t : Int := (-GV.Gen.CurveConsts.bls24_315.xGen)

/-- `Expt` raises to `t` -/
theorem Expt_expo : expoInt bls24_315.Expt = some (t) := by decide +kernel

/-- `Expt_inplace` raises to `t` -/
theorem Expt_inplace_expo : expoInt bls24_315.Expt_inplace = some (t) := by decide +kernel

end bls24_315

namespace bls24_317
/-- the seed as the code has it: t = xGen -/
abbrev t : Int := GV.Gen.CurveConsts.bls24_317.xGen

/-- `ExptHalf` raises to `t / 2` -/
theorem ExptHalf_expo : t % 2 = 0 ∧ expoInt bls24_317.ExptHalf = some (t / 2) := by decide +kernel

/-- `ExptHalf_inplace` raises to `t / 2` -/
theorem ExptHalf_inplace_expo : t % 2 = 0 ∧ expoInt bls24_317.ExptHalf_inplace = some (t / 2) := by decide +kernel

/-- `Expt` raises to `t` -/
theorem Expt_expo : expoInt bls24_317.Expt = some (t) := by decide +kernel

/-- `Expt_inplace` raises to `t` -/
theorem Expt_inplace_expo : expoInt bls24_317.Expt_inplace = some (t) := by decide +kernel

end bls24_317

namespace bw6_633
/-- the seed as the code has it: t = −xGen -/
abbrev t : Int := (-GV.Gen.CurveConsts.bw6_633.xGen)

/-- `Expc1` raises to the cofactor exponent -3 of its Go comment -/
theorem Expc1_expo : expoInt bw6_633.Expc1 = some (-3) := by decide +kernel

/-- `Expc1_inplace` raises to the cofactor exponent -3 of its Go comment -/
theorem Expc1_inplace_expo : expoInt bw6_633.Expc1_inplace = some (-3) := by decide +kernel

/-- `Expc2` raises to the cofactor exponent 13 of its Go comment -/
theorem Expc2_expo : expoInt bw6_633.Expc2 = some (13) := by decide +kernel

/-- `Expc2_inplace` raises to the cofactor exponent 13 of its Go comment -/
theorem Expc2_inplace_expo : expoInt bw6_633.Expc2_inplace = some (13) := by decide +kernel

/-- `Expt` raises to `t` -/
theorem Expt_expo : expoInt bw6_633.Expt = some (t) := by decide +kernel

/-- `Expt_inplace` raises to `t` -/
theorem Expt_inplace_expo : expoInt bw6_633.Expt_inplace = some (t) := by decide +kernel

/-- `ExptMinus1` raises to `t - 1` -/
theorem ExptMinus1_expo : expoInt bw6_633.ExptMinus1 = some (t - 1) := by decide +kernel

/-- `ExptMinus1_inplace` raises to `t - 1` -/
theorem ExptMinus1_inplace_expo : expoInt bw6_633.ExptMinus1_inplace = some (t - 1) := by decide +kernel

/-- `ExptMinus1Squared` raises to `(t - 1) ^ 2` -/
theorem ExptMinus1Squared_expo : expoInt bw6_633.ExptMinus1Squared = some ((t - 1) ^ 2) := by decide +kernel

/-- `ExptMinus1Squared_inplace` raises to `(t - 1) ^ 2` -/
theorem ExptMinus1Squared_inplace_expo : expoInt bw6_633.ExptMinus1Squared_inplace = some ((t - 1) ^ 2) := by decide +kernel

/-- `ExptPlus1` raises to `t + 1` -/
theorem ExptPlus1_expo : expoInt bw6_633.ExptPlus1 = some (t + 1) := by decide +kernel

/-- `ExptPlus1_inplace` raises to `t + 1` -/
theorem ExptPlus1_inplace_expo : expoInt bw6_633.ExptPlus1_inplace = some (t + 1) := by decide +kernel

/-- `ExptSquarePlus1` raises to `t ^ 2 + 1` -/
theorem ExptSquarePlus1_expo : expoInt bw6_633.ExptSquarePlus1 = some (t ^ 2 + 1) := by decide +kernel

/-- `ExptSquarePlus1_inplace` raises to `t ^ 2 + 1` -/
theorem ExptSquarePlus1_inplace_expo : expoInt bw6_633.ExptSquarePlus1_inplace = some (t ^ 2 + 1) := by decide +kernel

/-- `ExptMinus1Div3` raises to `(t - 1) / 3` -/
theorem ExptMinus1Div3_expo : (t - 1) % 3 = 0 ∧ expoInt bw6_633.ExptMinus1Div3 = some ((t - 1) / 3) := by decide +kernel

/-- `ExptMinus1Div3_inplace` raises to `(t - 1) / 3` -/
theorem ExptMinus1Div3_inplace_expo : (t - 1) % 3 = 0 ∧ expoInt bw6_633.ExptMinus1Div3_inplace = some ((t - 1) / 3) := by decide +kernel

end bw6_633

namespace bw6_761
/-- the seed as the code has it: t = xGen -/
abbrev t : Int := GV.Gen.CurveConsts.bw6_761.xGen

/-- `ExptMinus1` raises to `t - 1` -/
theorem ExptMinus1_expo : expoInt bw6_761.ExptMinus1 = some (t - 1) := by decide +kernel

/-- `ExptMinus1_inplace` raises to `t - 1` -/
theorem ExptMinus1_inplace_expo : expoInt bw6_761.ExptMinus1_inplace = some (t - 1) := by decide +kernel

/-- `ExptMinus1Square` raises to `(t - 1) ^ 2` -/
theorem ExptMinus1Square_expo : expoInt bw6_761.ExptMinus1Square = some ((t - 1) ^ 2) := by decide +kernel

/-- `ExptMinus1Square_inplace` raises to `(t - 1) ^ 2` -/
theorem ExptMinus1Square_inplace_expo : expoInt bw6_761.ExptMinus1Square_inplace = some ((t - 1) ^ 2) := by decide +kernel

/-- `Expt` raises to `t` -/
theorem Expt_expo : expoInt bw6_761.Expt = some (t) := by decide +kernel

/-- `Expt_inplace` raises to `t` -/
theorem Expt_inplace_expo : expoInt bw6_761.Expt_inplace = some (t) := by decide +kernel

/-- `ExptPlus1` raises to `t + 1` -/
theorem ExptPlus1_expo : expoInt bw6_761.ExptPlus1 = some (t + 1) := by decide +kernel

/-- `ExptPlus1_inplace` raises to `t + 1` -/
theorem ExptPlus1_inplace_expo : expoInt bw6_761.ExptPlus1_inplace = some (t + 1) := by decide +kernel

/-- `ExptMinus1Div3` raises to `(t - 1) / 3` -/
theorem ExptMinus1Div3_expo : (t - 1) % 3 = 0 ∧ expoInt bw6_761.ExptMinus1Div3 = some ((t - 1) / 3) := by decide +kernel

/-- `ExptMinus1Div3_inplace` raises to `(t - 1) / 3` -/
theorem ExptMinus1Div3_inplace_expo : (t - 1) % 3 = 0 ∧ expoInt bw6_761.ExptMinus1Div3_inplace = some ((t - 1) / 3) := by decide +kernel

/-- `Expc1` raises to the cofactor exponent 11 of its Go comment -/
theorem Expc1_expo : expoInt bw6_761.Expc1 = some (11) := by decide +kernel

/-- `Expc1_inplace` raises to the cofactor exponent 11 of its Go comment -/
theorem Expc1_inplace_expo : expoInt bw6_761.Expc1_inplace = some (11) := by decide +kernel

/-- `Expc2` raises to the cofactor exponent 103 of its Go comment -/
theorem Expc2_expo : expoInt bw6_761.Expc2 = some (103) := by decide +kernel

/-- `Expc2_inplace` raises to the cofactor exponent 103 of its Go comment -/
theorem Expc2_inplace_expo : expoInt bw6_761.Expc2_inplace = some (103) := by decide +kernel

end bw6_761

/-- the chains covered -/
theorem C06_chains_functions : GV.Gen.Chains.Tower.towerChains.map (fun e => (e.1, e.2.1)) = [("bn254", "Expt"), ("bn254", "Expt_inplace"), ("bls12_377", "Expt"), ("bls12_377", "Expt_inplace"), ("bls12_381", "ExptHalf"), ("bls12_381", "ExptHalf_inplace"), ("bls12_381", "Expt"), ("bls12_381", "Expt_inplace"), ("bls24_315", "Expt"), ("bls24_315", "Expt_inplace"), ("bls24_317", "ExptHalf"), ("bls24_317", "ExptHalf_inplace"), ("bls24_317", "Expt"), ("bls24_317", "Expt_inplace"), ("bw6_633", "Expc1"), ("bw6_633", "Expc1_inplace"), ("bw6_633", "Expc2"), ("bw6_633", "Expc2_inplace"), ("bw6_633", "Expt"), ("bw6_633", "Expt_inplace"), ("bw6_633", "ExptMinus1"), ("bw6_633", "ExptMinus1_inplace"), ("bw6_633", "ExptMinus1Squared"), ("bw6_633", "ExptMinus1Squared_inplace"), ("bw6_633", "ExptPlus1"), ("bw6_633", "ExptPlus1_inplace"), ("bw6_633", "ExptSquarePlus1"), ("bw6_633", "ExptSquarePlus1_inplace"), ("bw6_633", "ExptMinus1Div3"), ("bw6_633", "ExptMinus1Div3_inplace"), ("bw6_761", "ExptMinus1"), ("bw6_761", "ExptMinus1_inplace"), ("bw6_761", "ExptMinus1Square"), ("bw6_761", "ExptMinus1Square_inplace"), ("bw6_761", "Expt"), ("bw6_761", "Expt_inplace"), ("bw6_761", "ExptPlus1"), ("bw6_761", "ExptPlus1_inplace"), ("bw6_761", "ExptMinus1Div3"), ("bw6_761", "ExptMinus1Div3_inplace"), ("bw6_761", "Expc1"), ("bw6_761", "Expc1_inplace"), ("bw6_761", "Expc2"), ("bw6_761", "Expc2_inplace")] := by decide

end GV.Chain
