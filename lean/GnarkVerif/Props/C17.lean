import GnarkVerif.Props.C17a
import GnarkVerif.Props.C17b
import GnarkVerif.Props.C17c
