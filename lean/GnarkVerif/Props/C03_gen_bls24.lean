import GnarkVerif.Model.CurveCheck
import GnarkVerif.Gen.CurveConsts
import GnarkVerif.Gen.Fields
/-
C03 (tie T) — bls24-315, bls24-317.  Written by bin/mkc03gen.py; DO NOT EDIT by hand.

Kernel-checked facts about the constants that `tools/goslp/curveconsts.go` re-extracts from the CURRENT Go text on every
run (`GV.Gen.CurveConsts.<curve>.*`: init() of ecc/<curve>/<curve>.go, package comment) and the regenerated moduli
(`GV.Gen.<curve>_fp.q`, `_fr.q`).  Changing one digit of a generator, of thirdRootOneG1, lambdaGLV, xGen, a LoopCounter
entry, the twist … in the Go source breaks the corresponding proof below before any input is run.
The towers F_p² / F_p⁴ (non-residues) are those of `Model/Pairing` (C05/C06); scalar multiplications are the
inversion-free ladders of `Model/CurveCheck` (cross-checked against `Alg.Curve.smulNat` by the `ladder_agrees` theorems).
-/
namespace GV.C03gen
open GV GV.Alg GV.Gen GV.CurveCheck

namespace bls24_315
/-! ### ecc/bls24-315 -/
def p : Nat := bls24_315_fp.q
def r : Nat := bls24_315_fr.q
def E1 : Curve Nat := { F := fp p, a := red p CurveConsts.bls24_315.aCurveCoeff, b := red p CurveConsts.bls24_315.bCurveCoeff }
def G1 : Nat × Nat := (red p CurveConsts.bls24_315.g1Gen_X, red p CurveConsts.bls24_315.g1Gen_Y)

/-- the package comment states the moduli of the field packages -/
theorem doc_moduli : CurveConsts.bls24_315.docP = p ∧ CurveConsts.bls24_315.docR = r := by decide +kernel

/-- the G1 generator literals are canonical (`0 ≤ · < p`, `Z = 1`) -/
theorem g1_literals_canonical :
    (canon p [CurveConsts.bls24_315.g1Gen_X, CurveConsts.bls24_315.g1Gen_Y] && CurveConsts.bls24_315.g1Gen_Z == 1) = true := by decide +kernel

/-- `g1Gen` satisfies `y² = x³ + a·x + b` over F_p and `[r]g1Gen = O` -/
theorem g1_on_curve_and_order_r : genOk E1 r G1 = true := by decide +kernel

/-- the Jacobian ladder used above agrees with the textbook affine law on `[0]G … [5]G` -/
theorem g1_ladder_agrees : ladderAgrees E1 6 G1 = true := by decide +kernel

def ω : Nat := red p CurveConsts.bls24_315.thirdRootOneG1
def lam : Nat := CurveConsts.bls24_315.lambdaGLV.toNat

/-- `thirdRootOneG1` is a primitive cube root of unity of F_p (canonical literal) -/
theorem thirdRootOneG1_ok :
    canon p [CurveConsts.bls24_315.thirdRootOneG1] = true ∧ ω ^ 3 % p = 1 ∧ ω ≠ 1 := by decide +kernel

/-- `lambdaGLV` is a primitive cube root of unity modulo r: λ² + λ + 1 ≡ 0, λ > 0 -/
theorem lambdaGLV_ok :
    0 < CurveConsts.bls24_315.lambdaGLV ∧ (lam * lam + lam + 1) % r = 0 := by decide +kernel

/-- NOT reduced: the literal is x₀⁸ = r + x₀⁴ − 1 ≥ r (the relation above only needs its residue) -/
theorem lambdaGLV_not_reduced : (r : Int) ≤ CurveConsts.bls24_315.lambdaGLV ∧ CurveConsts.bls24_315.lambdaGLV < 2 * r := by decide +kernel

/-- eigenvalue relation on the generator: φ(G) = (ω·x, y) = [λ]G -/
theorem glv_g1 : glvOk E1 lam ω G1 = true := by decide +kernel

/-- `init()` derives the GLV lattice from these very constants -/
theorem glvBasis_from_lambda : CurveConsts.bls24_315.glvBasisFromLambda = true := by decide

abbrev τ := Pairing.T4
def T : FOps τ := Pairing.bls24_315.T
def ofL (l : List Int) : τ := toT4 p l
def ξ : τ := ofL CurveConsts.bls24_315.twist
def b' : Option τ :=
  bTwistOf T CurveConsts.bls24_315.bTwistCurveCoeffExpr (ofL CurveConsts.bls24_315.bTwistCurveCoeff) ξ (red p CurveConsts.bls24_315.bCurveCoeff)
def E2 : Curve τ := twistCurve T b'
def G2 : τ × τ := (ofL CurveConsts.bls24_315.g2Gen_X, ofL CurveConsts.bls24_315.g2Gen_Y)

/-- shape of the G2 literals: degree of the twist field, canonical coordinates, `Z = 1` -/
theorem g2_literals_canonical :
    (CurveConsts.bls24_315.degTwist == 4
      && CurveConsts.bls24_315.g2Gen_X.length == 4 && CurveConsts.bls24_315.g2Gen_Y.length == 4
      && canon p (CurveConsts.bls24_315.g2Gen_X ++ CurveConsts.bls24_315.g2Gen_Y)
      && CurveConsts.bls24_315.g2Gen_Z == 1 :: List.replicate (4 - 1) 0) = true := by decide +kernel

/-- `bTwistCurveCoeff` is computed by a form the model knows, the twist is D-type: b' = b/ξ (b = 1) -/
theorem bTwist_known : b'.isSome = true ∧ CurveConsts.bls24_315.bTwistCurveCoeffExpr = "Inverse(twist)" := by decide +kernel

/-- `g2Gen` lies on the twist `y² = x³ + b'` over F_p⁴ and `[r]g2Gen = O` -/
theorem g2_on_curve_and_order_r : genOk E2 r G2 = true := by decide +kernel

theorem g2_ladder_agrees : ladderAgrees E2 4 G2 = true := by decide +kernel

/-- `thirdRootOneG2 = thirdRootOneG1²` (as `init()` computes it) acts on G2 as [λ] -/
theorem glv_g2 :
    CurveConsts.bls24_315.thirdRootOneG2Expr = "Square(thirdRootOneG1)" ∧ glvOk E2 lam (T.ofNat (ω * ω % p)) G2 = true := by
  decide +kernel

/-- `endo.u`, `endo.v` are the Frobenius-twist coefficients ξ^((p−1)/3), ξ^((p−1)/2) (inverted on an M-twist) -/
theorem endo_ok :
    (CurveConsts.bls24_315.endo_u.length == 4 && CurveConsts.bls24_315.endo_v.length == 4
      && canon p (CurveConsts.bls24_315.endo_u ++ CurveConsts.bls24_315.endo_v)
      && endoOk T ξ p false (ofL CurveConsts.bls24_315.endo_u) (ofL CurveConsts.bls24_315.endo_v)) = true := by decide +kernel

/-- the hand-written curve table of `Model/Pairing` (C05) carries the same constants as the Go source -/
theorem pairing_model_constants :
    Pairing.bls24_315.p = p ∧ Pairing.bls24_315.r = r ∧ Pairing.bls24_315.b % p = red p CurveConsts.bls24_315.bCurveCoeff
      ∧ Pairing.bls24_315.g1 = G1 ∧ Pairing.bls24_315.g2 = G2 ∧ Pairing.bls24_315.mTwist = false
      ∧ (T.beq Pairing.bls24_315.bT (b'.getD T.zero)) = true ∧ Pairing.bls24_315.xi = ξ ∧ CurveConsts.bls24_315.twist.length = 4 := by
  decide +kernel

/-- the seed: `xGen` is -x₀ of the package comment -/
theorem seed_doc : CurveConsts.bls24_315.docSeed = -CurveConsts.bls24_315.xGen ∧ 0 < CurveConsts.bls24_315.xGen := by decide +kernel

/-- BLS24 parametrisation: r = x⁸ − x⁴ + 1, p = (x−1)²·r/3 + x, λ = x⁸ (≡ x⁴ − 1 mod r).
(The package comment says `r = x₀^8-x₀^4+2`; that formula does NOT hold, see `doc_r_formula_wrong`.) -/
theorem seed_relations :
    let x := CurveConsts.bls24_315.docSeed
    (r : Int) = x^8 - x^4 + 1 ∧ 3 * ((p : Int) - x) = (x - 1)^2 * r ∧ CurveConsts.bls24_315.lambdaGLV = x^8 := by decide +kernel

theorem doc_r_formula_wrong : (r : Int) ≠ CurveConsts.bls24_315.docSeed^8 - CurveConsts.bls24_315.docSeed^4 + 2 := by decide +kernel

/-- `LoopCounter` = NAF of |x₀| = xGen -/
theorem loopCounter_ok :
    loopOk CurveConsts.bls24_315.LoopCounterLen CurveConsts.bls24_315.LoopCounterIsNaf CurveConsts.bls24_315.LoopCounterNafOf
      CurveConsts.bls24_315.LoopCounter CurveConsts.bls24_315.xGen = true := by decide +kernel

theorem pairing_model_loop : loopCode Pairing.bls24_315.loop = [1, CurveConsts.bls24_315.docSeed] := by decide +kernel

end bls24_315

namespace bls24_317
/-! ### ecc/bls24-317 -/
def p : Nat := bls24_317_fp.q
def r : Nat := bls24_317_fr.q
def E1 : Curve Nat := { F := fp p, a := red p CurveConsts.bls24_317.aCurveCoeff, b := red p CurveConsts.bls24_317.bCurveCoeff }
def G1 : Nat × Nat := (red p CurveConsts.bls24_317.g1Gen_X, red p CurveConsts.bls24_317.g1Gen_Y)

/-- the package comment states the moduli of the field packages -/
theorem doc_moduli : CurveConsts.bls24_317.docP = p ∧ CurveConsts.bls24_317.docR = r := by decide +kernel

/-- the G1 generator literals are canonical (`0 ≤ · < p`, `Z = 1`) -/
theorem g1_literals_canonical :
    (canon p [CurveConsts.bls24_317.g1Gen_X, CurveConsts.bls24_317.g1Gen_Y] && CurveConsts.bls24_317.g1Gen_Z == 1) = true := by decide +kernel

/-- `g1Gen` satisfies `y² = x³ + a·x + b` over F_p and `[r]g1Gen = O` -/
theorem g1_on_curve_and_order_r : genOk E1 r G1 = true := by decide +kernel

/-- the Jacobian ladder used above agrees with the textbook affine law on `[0]G … [5]G` -/
theorem g1_ladder_agrees : ladderAgrees E1 6 G1 = true := by decide +kernel

def ω : Nat := red p CurveConsts.bls24_317.thirdRootOneG1
def lam : Nat := CurveConsts.bls24_317.lambdaGLV.toNat

/-- `thirdRootOneG1` is a primitive cube root of unity of F_p (canonical literal) -/
theorem thirdRootOneG1_ok :
    canon p [CurveConsts.bls24_317.thirdRootOneG1] = true ∧ ω ^ 3 % p = 1 ∧ ω ≠ 1 := by decide +kernel

/-- `lambdaGLV` is a primitive cube root of unity modulo r: λ² + λ + 1 ≡ 0, λ > 0 -/
theorem lambdaGLV_ok :
    0 < CurveConsts.bls24_317.lambdaGLV ∧ (lam * lam + lam + 1) % r = 0 := by decide +kernel

/-- NOT reduced: the literal is x₀⁸ = r + x₀⁴ − 1 ≥ r (the relation above only needs its residue) -/
theorem lambdaGLV_not_reduced : (r : Int) ≤ CurveConsts.bls24_317.lambdaGLV ∧ CurveConsts.bls24_317.lambdaGLV < 2 * r := by decide +kernel

/-- eigenvalue relation on the generator: φ(G) = (ω·x, y) = [λ]G -/
theorem glv_g1 : glvOk E1 lam ω G1 = true := by decide +kernel

/-- `init()` derives the GLV lattice from these very constants -/
theorem glvBasis_from_lambda : CurveConsts.bls24_317.glvBasisFromLambda = true := by decide

abbrev τ := Pairing.T4
def T : FOps τ := Pairing.bls24_317.T
def ofL (l : List Int) : τ := toT4 p l
def ξ : τ := ofL CurveConsts.bls24_317.twist
def b' : Option τ :=
  bTwistOf T CurveConsts.bls24_317.bTwistCurveCoeffExpr (ofL CurveConsts.bls24_317.bTwistCurveCoeff) ξ (red p CurveConsts.bls24_317.bCurveCoeff)
def E2 : Curve τ := twistCurve T b'
def G2 : τ × τ := (ofL CurveConsts.bls24_317.g2Gen_X, ofL CurveConsts.bls24_317.g2Gen_Y)

/-- shape of the G2 literals: degree of the twist field, canonical coordinates, `Z = 1` -/
theorem g2_literals_canonical :
    (CurveConsts.bls24_317.degTwist == 4
      && CurveConsts.bls24_317.g2Gen_X.length == 4 && CurveConsts.bls24_317.g2Gen_Y.length == 4
      && canon p (CurveConsts.bls24_317.g2Gen_X ++ CurveConsts.bls24_317.g2Gen_Y)
      && CurveConsts.bls24_317.g2Gen_Z == 1 :: List.replicate (4 - 1) 0) = true := by decide +kernel

/-- `bTwistCurveCoeff` is computed by a form the model knows, the twist is M-type: b' = b·ξ -/
theorem bTwist_known : b'.isSome = true ∧ CurveConsts.bls24_317.bTwistCurveCoeffExpr = "MulByElement(twist,bCurveCoeff)" := by decide +kernel

/-- `g2Gen` lies on the twist `y² = x³ + b'` over F_p⁴ and `[r]g2Gen = O` -/
theorem g2_on_curve_and_order_r : genOk E2 r G2 = true := by decide +kernel

theorem g2_ladder_agrees : ladderAgrees E2 4 G2 = true := by decide +kernel

/-- `thirdRootOneG2 = thirdRootOneG1²` (as `init()` computes it) acts on G2 as [λ] -/
theorem glv_g2 :
    CurveConsts.bls24_317.thirdRootOneG2Expr = "Square(thirdRootOneG1)" ∧ glvOk E2 lam (T.ofNat (ω * ω % p)) G2 = true := by
  decide +kernel

/-- `endo.u`, `endo.v` are the Frobenius-twist coefficients ξ^((p−1)/3), ξ^((p−1)/2) (inverted on an M-twist) -/
theorem endo_ok :
    (CurveConsts.bls24_317.endo_u.length == 4 && CurveConsts.bls24_317.endo_v.length == 4
      && canon p (CurveConsts.bls24_317.endo_u ++ CurveConsts.bls24_317.endo_v)
      && endoOk T ξ p true (ofL CurveConsts.bls24_317.endo_u) (ofL CurveConsts.bls24_317.endo_v)) = true := by decide +kernel

/-- the hand-written curve table of `Model/Pairing` (C05) carries the same constants as the Go source -/
theorem pairing_model_constants :
    Pairing.bls24_317.p = p ∧ Pairing.bls24_317.r = r ∧ Pairing.bls24_317.b % p = red p CurveConsts.bls24_317.bCurveCoeff
      ∧ Pairing.bls24_317.g1 = G1 ∧ Pairing.bls24_317.g2 = G2 ∧ Pairing.bls24_317.mTwist = true
      ∧ (T.beq Pairing.bls24_317.bT (b'.getD T.zero)) = true ∧ Pairing.bls24_317.xi = ξ ∧ CurveConsts.bls24_317.twist.length = 4 := by
  decide +kernel

/-- the seed: `xGen` is x₀ of the package comment -/
theorem seed_doc : CurveConsts.bls24_317.docSeed = CurveConsts.bls24_317.xGen ∧ 0 < CurveConsts.bls24_317.xGen := by decide +kernel

/-- BLS24 parametrisation: r = x⁸ − x⁴ + 1, p = (x−1)²·r/3 + x, λ = x⁸ (≡ x⁴ − 1 mod r).
(The package comment says `r = x₀^8-x₀^4+2`; that formula does NOT hold, see `doc_r_formula_wrong`.) -/
theorem seed_relations :
    let x := CurveConsts.bls24_317.docSeed
    (r : Int) = x^8 - x^4 + 1 ∧ 3 * ((p : Int) - x) = (x - 1)^2 * r ∧ CurveConsts.bls24_317.lambdaGLV = x^8 := by decide +kernel

theorem doc_r_formula_wrong : (r : Int) ≠ CurveConsts.bls24_317.docSeed^8 - CurveConsts.bls24_317.docSeed^4 + 2 := by decide +kernel

/-- `LoopCounter` = NAF of |x₀| = xGen -/
theorem loopCounter_ok :
    loopOk CurveConsts.bls24_317.LoopCounterLen CurveConsts.bls24_317.LoopCounterIsNaf CurveConsts.bls24_317.LoopCounterNafOf
      CurveConsts.bls24_317.LoopCounter CurveConsts.bls24_317.xGen = true := by decide +kernel

theorem pairing_model_loop : loopCode Pairing.bls24_317.loop = [1, CurveConsts.bls24_317.docSeed] := by decide +kernel

end bls24_317

end GV.C03gen
