import GnarkVerif.Props.C03_gen_sw
import GnarkVerif.Props.C03_gen_bls12
import GnarkVerif.Props.C03_gen_bls24
import GnarkVerif.Props.C03_gen_bw6
import GnarkVerif.Props.C03_gen_te
/- C03 (tie T): theorems about the regenerated curve constants; the per-family files are written by bin/mkc03gen.py -/
