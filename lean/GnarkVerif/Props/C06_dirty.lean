/- C06 — DIRTY RECEIVERS (second correspondence family, Model/TowerOps.lean).

   `C06 <pkg> <Type> dirty <d> <op> <args…>` makes the Go side run `<op>` with every receiver pre-loaded with the full
   element `d` (for `ksq` / `kbatch`: the compressed squarings are written into receivers / batch slots that held `d`, so
   the slots Karabina's compression does not define, g0 and g4, keep garbage; the decompression is done into a second dirty
   receiver and in place).  The specification is by value: the previous contents of a receiver are not an input of any
   tower operation.  These theorems state that about the model: the answer to a `dirty` line is the answer to the inner
   line, for every admissible `d`, at every level of every tower. -/
import GnarkVerif.Model.TowerOps

namespace GV.TowerOps

/-- the model's answer to `dirty d op args` is its answer to `op args` (d an element of the level, op a receiver op) -/
theorem C06_dirty_by_value {α : Type} (T : Tow α) (f : String → List String → String) (d op : String) (args : List String)
    (hop : dirtyOps.contains op = true) (hd : (parseEl T d).isSome = true) :
    withDirty T f "dirty" (d :: op :: args) = f op args := by
  obtain ⟨v, hv⟩ := Option.isSome_iff_exists.1 hd
  simp only [withDirty, hop, if_true, hv]

/-- … hence the receiver's previous contents are irrelevant: two garbage values give the same answer -/
theorem C06_dirty_irrelevant {α : Type} (T : Tow α) (f : String → List String → String) (d₁ d₂ op : String) (args : List String)
    (hop : dirtyOps.contains op = true) (h₁ : (parseEl T d₁).isSome = true) (h₂ : (parseEl T d₂).isSome = true) :
    withDirty T f "dirty" (d₁ :: op :: args) = withDirty T f "dirty" (d₂ :: op :: args) := by
  rw [C06_dirty_by_value T f d₁ op args hop h₁, C06_dirty_by_value T f d₂ op args hop h₂]

/-- every other op is answered as before (`withDirty` only interprets the word `dirty`) -/
theorem C06_dirty_transparent {α : Type} (T : Tow α) (f : String → List String → String) (op : String) (args : List String)
    (h : op ≠ "dirty") : withDirty T f op args = f op args := by
  unfold withDirty
  split
  · exact absurd rfl h
  · exact absurd rfl h
  · rfl

/-- at a lower level and at the top level (GT): `lvl` / `top` answer a dirty line as the inner line -/
theorem C06_dirty_lvl {α : Type} (T : Tow α) (d op : String) (args : List String)
    (hop : dirtyOps.contains op = true) (hd : (parseEl T d).isSome = true) :
    lvl T "dirty" (d :: op :: args) = lvl T op args := by
  have hne : op ≠ "dirty" := by
    intro h; subst h; revert hop; decide
  unfold lvl
  rw [C06_dirty_by_value T _ d op args hop hd, C06_dirty_transparent T _ op args hne]

theorem C06_dirty_top {η : Type} (H : Tow η) (T : Tow (η × η)) (r : Nat) (fixed : String → Option Int) (d op : String)
    (args : List String) (hop : dirtyOps.contains op = true) (hd : (parseEl T d).isSome = true) :
    top H T r fixed "dirty" (d :: op :: args) = top H T r fixed op args := by
  have hne : op ≠ "dirty" := by
    intro h; subst h; revert hop; decide
  unfold top
  rw [C06_dirty_by_value T _ d op args hop hd, C06_dirty_transparent T _ op args hne]

/-- the Karabina statement of the class: n compressed squarings written into a dirty receiver, then decompressed, are
x^(2^n) — the same answer as through clean receivers, whatever the receiver held -/
theorem C06_dirty_ksq {η : Type} (H : Tow η) (T : Tow (η × η)) (r : Nat) (fixed : String → Option Int) (d₁ d₂ n x : String)
    (h₁ : (parseEl T d₁).isSome = true) (h₂ : (parseEl T d₂).isSome = true) :
    top H T r fixed "dirty" [d₁, "ksq", n, x] = top H T r fixed "ksq" [n, x]
    ∧ top H T r fixed "dirty" [d₁, "ksq", n, x] = top H T r fixed "dirty" [d₂, "ksq", n, x] := by
  have e₁ := C06_dirty_top H T r fixed d₁ "ksq" [n, x] (by decide) h₁
  have e₂ := C06_dirty_top H T r fixed d₂ "ksq" [n, x] (by decide) h₂
  exact ⟨e₁, e₁.trans e₂.symm⟩

theorem C06_dirty_kbatch {η : Type} (H : Tow η) (T : Tow (η × η)) (r : Nat) (fixed : String → Option Int) (d n : String)
    (xs : List String) (hd : (parseEl T d).isSome = true) :
    top H T r fixed "dirty" (d :: "kbatch" :: n :: xs) = top H T r fixed "kbatch" (n :: xs) :=
  C06_dirty_top H T r fixed d "kbatch" (n :: xs) (by decide) hd

end GV.TowerOps
