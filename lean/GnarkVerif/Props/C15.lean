import GnarkVerif.Proofs.Transcript
/-
C15 — Fiat–Shamir transcript obeys its sequential specification on every call history.

Theorems about `GV.Transcript` (executable model of fiat-shamir/transcript.go; tie = correspondence K),
for an arbitrary hash `H : Bytes → Bytes`, any list of challenge names and every finite history of
Bind / ComputeChallenge calls. `specValue H cs i` is the sequential specification
  challenge₀ = H(name₀ ‖ bindings₀),  challengeᵢ₊₁ = H(nameᵢ₊₁ ‖ challengeᵢ ‖ bindingsᵢ₊₁).
The model is by-value (slices are values), i.e. it *is* the "no aliasing" semantics of the property;
that the Go code has this semantics under caller-side mutation of every slice handed in or out is
what the correspondence run checks (it cannot be a theorem about a by-value model).
-/
namespace GV.Transcript
variable (H : Bytes → Bytes)

/-- refusals (unknown name, already computed, previous not computed) leave the transcript unchanged -/
theorem C15_error_leaves_state (s : State) (op : Op) (e : Err) (h : (step H s op).2 = .err e) :
    (step H s op).1 = s := by
  cases op <;> simp only [step] at h ⊢ <;> (repeat' split at h) <;> simp_all

/-- one step preserves the invariant -/
theorem C15_inv_step (s : State) (op : Op) (hs : Inv H s) : Inv H (step H s op).1 := by
  cases op with
  | bind n v => exact inv_bind H s n v hs
  | compute n => exact inv_compute H s n hs

/-- every state reachable by any history from `NewTranscript(names…)` satisfies the invariant:
computed challenges form a prefix, `previous` is the last of them, cached values are the specified hashes -/
theorem C15_reachable_inv (names : List Bytes) (ops : List Op) : Inv H (run H (init names) ops).1 := by
  suffices h : ∀ s, Inv H s → Inv H (run H s ops).1 from h _ (inv_init H names)
  induction ops with
  | nil => intro s hs; simpa [run] using hs
  | cons op ops ih =>
    intro s hs
    simp only [run]
    exact ih _ (C15_inv_step H s op hs)

/-- whenever ComputeChallenge returns a value (fresh or cached) in a state satisfying the invariant,
that value is the sequential specification of the challenge with this name -/
theorem C15_compute_is_spec (s : State) (name v : Bytes) (hs : Inv H s)
    (h : (step H s (.compute name)).2 = .val v) :
    ∃ i, find s.chals name = some i ∧ v = specValue H (step H s (.compute name)).1.chals i := by
  have hs' := inv_compute H s name hs
  simp only [step] at h hs' ⊢
  split at h
  · simp at h
  · rename_i i hf
    simp only [hf] at hs' ⊢
    refine ⟨i, rfl, ?_⟩
    split at h
    · simp at h
    · rename_i c hc
      simp only [hc] at hs' ⊢
      split at h
      · rename_i w hw
        simp only [hw] at hs' ⊢
        simp at h; subst h
        exact hs.values i c w hc hw
      · rename_i hnone
        simp only [hnone] at hs' ⊢
        split at h
        · simp at h
        · rename_i hcond
          simp only [hcond, if_false] at hs' ⊢
          simp at h; subst h
          have hilt : i < s.chals.length := (List.getElem?_eq_some_iff.mp hc).1
          exact hs'.values i { c with value := some (H (preimage s.chals i c)) } _ (by simp [hilt]) rfl

/-- recomputing a challenge returns the same bytes and does not change the transcript -/
theorem C15_recompute_same (s : State) (name v : Bytes)
    (h : (step H s (.compute name)).2 = .val v) :
    step H (step H s (.compute name)).1 (.compute name) = ((step H s (.compute name)).1, .val v) := by
  simp only [step] at h ⊢
  split at h
  · simp at h
  · rename_i i hf
    split at h
    · simp at h
    · rename_i c hc
      split at h
      · rename_i w hw
        simp at h; subst h
        simp [hf, hc, hw]
      · rename_i hnone
        split at h
        · simp at h
        · rename_i hcond
          simp at h; subst h
          have hilt : i < s.chals.length := (List.getElem?_eq_some_iff.mp hc).1
          have hf' : find (s.chals.set i { c with value := some (H (preimage s.chals i c)) }) name = some i := by
            unfold find at hf ⊢
            rw [List.findIdx?_eq_some_iff_getElem] at hf ⊢
            obtain ⟨hlt, hp, hq⟩ := hf
            refine ⟨by simpa using hlt, ?_, ?_⟩
            · have : c = s.chals[i] := by
                have := List.getElem?_eq_some_iff.mp hc; exact this.2.symm
              simp [List.getElem_set]; subst this; simpa using hp
            · intro j hj
              have hne : i ≠ j := by omega
              simp only [List.getElem_set, hne, if_false]
              exact hq j hj
          simp [hnone, hcond, hf', hilt]

/-- a successful Bind appends exactly the bound value to exactly the named challenge, and is only
possible while that challenge is not computed (so the bindings of a computed challenge are frozen) -/
theorem C15_bind_ok (s : State) (name v : Bytes) (h : (step H s (.bind name v)).2 = .ok) :
    ∃ i c, find s.chals name = some i ∧ s.chals[i]? = some c ∧ c.value = none ∧
      (step H s (.bind name v)).1 = { s with chals := s.chals.set i { c with bindings := c.bindings ++ [v] } } := by
  simp only [step] at h ⊢
  split at h
  · simp at h
  · rename_i i hf
    split at h
    · simp at h
    · rename_i c hc
      split at h
      · simp at h
      · rename_i hn
        refine ⟨i, c, hf, hc, by simpa using hn, ?_⟩
        simp [hf, hc, hn]

/-! non-vacuity: a concrete history reaches a state where two challenges are computed and chained -/
example :
    let H : Bytes → Bytes := fun b => [UInt8.ofNat b.length]
    let r := run H (init [[1], [2]]) [.bind [1] [9, 9], .compute [2], .compute [1], .bind [1] [7], .compute [2], .compute [1]]
    r.2 = [.ok, .err .prevNotComputed, .val [3], .err .alreadyComputed, .val [2], .val [3]] := by decide

end GV.Transcript
