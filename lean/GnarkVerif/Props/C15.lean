import GnarkVerif.Proofs.Transcript
/-
C15 — Fiat–Shamir transcript obeys its sequential specification on every call history.

Theorems about `GV.Transcript` (executable model of fiat-shamir/transcript.go; tie = correspondence K),
for an arbitrary hash given on the SEQUENCE OF WRITES — `W : Bytes → Option Bytes` (how one `Write` call is
absorbed, `none` = the hasher refuses it) and `H : Bytes → Bytes` (digest of the concatenation of the absorbed
bytes) — any list of challenge names and every finite history of Bind / ComputeChallenge calls.
`specValue W H cs i` is the sequential specification
  challenge₀ = H(W name₀ ‖ W b₀,₁ ‖ … ),  challengeᵢ₊₁ = H(W nameᵢ₊₁ ‖ W challengeᵢ ‖ W bᵢ₊₁,₁ ‖ …),
one `W` per bound value, in binding order (`none` when one of these writes is refused).  SHA-256 is the instance
`W = some` (then this is H of the plain concatenation, `C15_stream_spec`); MiMC is `mimcW`/`mimcH` of
Model/Transcript.lean, where a short write is left-padded to a block and a non-canonical / ragged one is refused.
The model is by-value (slices are values), i.e. it *is* the "no aliasing" semantics of the property;
that the Go code has this semantics under caller-side mutation of every slice handed in or out is
what the correspondence run checks (it cannot be a theorem about a by-value model).
-/
namespace GV.Transcript
variable (W : Bytes → Option Bytes) (H : Bytes → Bytes)

/-- every call either leaves the transcript as it was or does not return an error -/
theorem C15_unchanged_or_no_error (s : State) (op : Op) :
    (step W H s op).1 = s ∨ ∀ e, (step W H s op).2 ≠ .err e := by
  cases op <;> simp only [step] <;> (repeat' split) <;> simp

/-- refusals (unknown name, already computed, previous not computed, a write refused by the hasher)
leave the transcript unchanged -/
theorem C15_error_leaves_state (s : State) (op : Op) (e : Err) (h : (step W H s op).2 = .err e) :
    (step W H s op).1 = s := by
  rcases C15_unchanged_or_no_error W H s op with h1 | h2
  · exact h1
  · exact absurd h (h2 e)

/-- one step preserves the invariant -/
theorem C15_inv_step (s : State) (op : Op) (hs : Inv W H s) : Inv W H (step W H s op).1 := by
  cases op with
  | bind n v => exact inv_bind W H s n v hs
  | compute n => exact inv_compute W H s n hs

/-- every state reachable by any history from `NewTranscript(names…)` satisfies the invariant:
computed challenges form a prefix, `previous` is the last of them, cached values are the specified hashes -/
theorem C15_reachable_inv (names : List Bytes) (ops : List Op) : Inv W H (run W H (init names) ops).1 := by
  suffices h : ∀ s, Inv W H s → Inv W H (run W H s ops).1 from h _ (inv_init W H names)
  induction ops with
  | nil => intro s hs; simpa [run] using hs
  | cons op ops ih =>
    intro s hs
    simp only [run]
    exact ih _ (C15_inv_step W H s op hs)

/-- whenever ComputeChallenge returns a value (fresh or cached) in a state satisfying the invariant,
that value is the sequential specification of the challenge with this name (in particular every write
of its chain was accepted by the hasher) -/
theorem C15_compute_is_spec (s : State) (name v : Bytes) (hs : Inv W H s)
    (h : (step W H s (.compute name)).2 = .val v) :
    ∃ i, find s.chals name = some i ∧ specValue W H (step W H s (.compute name)).1.chals i = some v := by
  have hs' := inv_compute W H s name hs
  simp only [step] at h hs' ⊢
  split at h
  · simp at h
  · rename_i i hf
    simp only [hf] at hs' ⊢
    refine ⟨i, rfl, ?_⟩
    split at h
    · simp at h
    · rename_i c hc
      simp only [hc] at hs' ⊢
      split at h
      · rename_i w hw
        simp only [hw] at hs' ⊢
        simp at h; subst h
        exact hs.values i c w hc hw
      · rename_i hnone
        simp only [hnone] at hs' ⊢
        split at h
        · simp at h
        · rename_i a hwn
          simp only [hwn] at hs' ⊢
          split at h
          · simp at h
          · rename_i hcond
            simp only [hcond, if_false] at hs' ⊢
            split at h
            · simp at h
            · rename_i bs hbs
              simp only [hbs] at hs' ⊢
              simp at h; subst h
              have hilt : i < s.chals.length := (List.getElem?_eq_some_iff.mp hc).1
              exact hs'.values i { c with value := some (H bs) } _ (by simp [hilt]) rfl

/-- recomputing a challenge returns the same bytes and does not change the transcript -/
theorem C15_recompute_same (s : State) (name v : Bytes)
    (h : (step W H s (.compute name)).2 = .val v) :
    step W H (step W H s (.compute name)).1 (.compute name) = ((step W H s (.compute name)).1, .val v) := by
  obtain ⟨i, c, hf, hc, hcase⟩ := compute_val_cases W H s name v h
  rcases hcase with ⟨_, hst⟩ | ⟨_, bs, _, hv, hst⟩
  · rw [hst]; exact hst
  · rw [hst, hv]
    have hilt : i < s.chals.length := (List.getElem?_eq_some_iff.mp hc).1
    have hf' : find (s.chals.set i { c with value := some (H bs) }) name = some i := by
      unfold find at hf ⊢
      rw [List.findIdx?_eq_some_iff_getElem] at hf ⊢
      obtain ⟨hlt, hp, hq⟩ := hf
      refine ⟨by simpa using hlt, ?_, ?_⟩
      · have : c = s.chals[i] := by
          have := List.getElem?_eq_some_iff.mp hc; exact this.2.symm
        simp; subst this; simpa using hp
      · intro j hj
        have hne : i ≠ j := by omega
        simp only [List.getElem_set, hne, if_false]
        exact hq j hj
    simp [step, hf', hilt]

/-- a successful Bind appends exactly the bound value to exactly the named challenge, and is only
possible while that challenge is not computed (so the bindings of a computed challenge are frozen) -/
theorem C15_bind_ok (s : State) (name v : Bytes) (h : (step W H s (.bind name v)).2 = .ok) :
    ∃ i c, find s.chals name = some i ∧ s.chals[i]? = some c ∧ c.value = none ∧
      (step W H s (.bind name v)).1 = { s with chals := s.chals.set i { c with bindings := c.bindings ++ [v] } } := by
  simp only [step] at h ⊢
  split at h
  · simp at h
  · rename_i i hf
    split at h
    · simp at h
    · rename_i c hc
      split at h
      · simp at h
      · rename_i hn
        refine ⟨i, c, hf, hc, by simpa using hn, ?_⟩
        simp [hn]

/-- a compute of a not yet computed challenge whose turn it is (first, or predecessor computed last) and whose
sequence of writes — name, previous value, bound values — contains one the hasher refuses, returns the
hash error and leaves the transcript unchanged -/
theorem C15_refused_write (s : State) (name : Bytes) (i : Nat) (c : Chal) (w : Bytes)
    (hf : find s.chals name = some i) (hc : s.chals[i]? = some c) (hv : c.value = none)
    (hturn : i = 0 ∨ s.prev = some (i-1))
    (hw : w ∈ writes s.chals i c) (href : W w = none) :
    step W H s (.compute name) = (s, .err .hash) := by
  have hab : absorb W (writes s.chals i c) = none := (absorb_none_iff W _).mpr ⟨w, hw, href⟩
  have hcond : ¬ (i ≠ 0 ∧ s.prev ≠ some (i-1)) := by
    rcases hturn with h0 | hp
    · simp [h0]
    · simp [hp]
  simp only [step, hf, hc, hv]
  split
  · rfl
  · simp [hcond, hab]

/-- a refused name is reported even when it is not the challenge's turn (the Go code writes the name before it
checks the predecessor) -/
theorem C15_refused_name (s : State) (name : Bytes) (i : Nat) (c : Chal)
    (hf : find s.chals name = some i) (hc : s.chals[i]? = some c) (hv : c.value = none)
    (href : W c.name = none) :
    step W H s (.compute name) = (s, .err .hash) := by
  simp [step, hf, hc, hv, href]

/-- conversely the hash error is only ever returned for a not yet computed challenge whose sequence of
writes contains a refused one; the transcript is unchanged -/
theorem C15_hash_error_only_if_refused (s : State) (name : Bytes)
    (h : (step W H s (.compute name)).2 = .err .hash) :
    (step W H s (.compute name)).1 = s ∧
    ∃ i c w, find s.chals name = some i ∧ s.chals[i]? = some c ∧ c.value = none ∧
      w ∈ writes s.chals i c ∧ W w = none := by
  refine ⟨C15_error_leaves_state W H s _ _ h, ?_⟩
  simp only [step] at h
  split at h
  · simp at h
  · rename_i i hf
    split at h
    · simp at h
    · rename_i c hc
      split at h
      · simp at h
      · rename_i hnone
        split at h
        · rename_i hwn
          exact ⟨i, c, c.name, hf, hc, hnone, by simp [writes], hwn⟩
        · split at h
          · simp at h
          · split at h
            · rename_i hab
              obtain ⟨w, hw, hr⟩ := (absorb_none_iff W _).mp hab
              exact ⟨i, c, w, hf, hc, hnone, hw, hr⟩
            · simp at h

/-- for a stream hash (`Write` never fails and absorbs its argument, e.g. SHA-256) the specification is the
hash of the plain concatenation name ‖ previous ‖ bindings… -/
theorem C15_stream_spec (cs : List Chal) (i : Nat) (c : Chal) (hc : cs[i]? = some c) :
    specValue some H cs i = match i with
      | 0 => some (H (c.name ++ c.bindings.flatten))
      | j+1 => (specValue some H cs j).map (fun p => H (c.name ++ p ++ c.bindings.flatten)) := by
  cases i with
  | zero => simp [specValue, hc, absorb_some]
  | succ j =>
    simp only [specValue, hc]
    cases specValue some H cs j <;> simp [absorb_some]

/-- a stream hash never produces the hash error -/
theorem C15_stream_no_hash_error (s : State) (op : Op) : (step some H s op).2 ≠ .err .hash := by
  intro h
  cases op with
  | bind n v => simp only [step] at h; (repeat' split at h) <;> simp_all
  | compute n =>
    obtain ⟨_, _, _, w, _, _, _, _, hr⟩ := C15_hash_error_only_if_refused some H s n h
    simp at hr

/-! non-vacuity: a concrete history reaches a state where two challenges are computed and chained -/
example :
    let H : Bytes → Bytes := fun b => [UInt8.ofNat b.length]
    let r := run some H (init [[1], [2]]) [.bind [1] [9, 9], .compute [2], .compute [1], .bind [1] [7], .compute [2], .compute [1]]
    r.2 = [.ok, .err .prevNotComputed, .val [3], .err .alreadyComputed, .val [2], .val [3]] := by decide

/-! non-vacuity for a hasher that is NOT a byte stream (a toy MiMC: block = 2 bytes, a 1-byte write is
left-padded, any other odd length is refused): two bound values `[5]`, `[6]` are absorbed as `0 5 0 6`, not as
the single write `[5, 6]`; a 3-byte bound value makes the compute fail and the transcript stays as it was,
also blocking the next challenge -/
example :
    let W : Bytes → Option Bytes := fun b => if b.length = 1 then some (0 :: b) else if b.length % 2 = 0 then some b else none
    let H : Bytes → Bytes := fun b => b
    let r := run W H (init [[1], [2]]) [.bind [1] [5], .bind [1] [6], .compute [1], .bind [2] [1, 2, 3], .compute [2], .compute [2]]
    r.2 = [.ok, .ok, .val [0, 1, 0, 5, 0, 6], .ok, .err .hash, .err .hash] ∧
    r.1 = (run W H (init [[1], [2]]) [.bind [1] [5], .bind [1] [6], .compute [1], .bind [2] [1, 2, 3]]).1 := by decide

end GV.Transcript
