import GnarkVerif.Proofs.SetGen
import GnarkVerif.Props.C08
/-
C08_set_gen — tie T for the lenient setters: `func (z *Element) SetBigInt(v *big.Int) *Element`, `SetString(number string) (*Element, error)`
and `SetInt64(v int64) *Element` of `element.go` of ALL 23 field packages are RE-TRANSLATED statement by statement on every run
(tools/goslp mode "imp", pass Set, imp_h2f.go → Gen/Imp/Set_<pkg>.lean), together with a GENERIC copy (Gen/Imp/Set_generic.lean: the text
of ecc/bn254/fr with the package constants as parameters); Gen/Imp/SetAll.lean proves by `rfl` (regenerated too) that the translation of
every package IS the generic text at the package's own constants, so the theorems are proved once (Proofs/SetGen.lean) for all 23 texts.

Translated: `SetBigInt` — `z.SetZero()`, `v.Cmp(&_modulus)`, `v.Cmp(&zero)`, the fast path, `pool.BigInt.Get/Put` (a pooled scratch
`*big.Int` = a fresh exact integer; CHECKED: set before read, never aliased / returned / stored, not used after Put), `vv.Mod(v, &_modulus)`
(Euclidean remainder); `_modulus` = the literal of the single `_modulus.SetString("…", 16)` in `init()`, CHECKED to be mutated nowhere
else in the package and proved equal to the modulus of Gen/Fields.lean (C08setgen_consts). `SetString` — the parse, the error return
`(nil, errors.New("…" + number))`, `z.SetBigInt(vv)`, `(z, nil)`. `SetInt64` — `m := v >> 63` (arithmetic shift), `(v ^ m) - m` on int64
(two's complement xor, wrap-around subtraction: Model/GoImp.lean `xorS64`, `wrapS64`), `uint64(·)`, `if m != 0 { z.Neg(z) }`.

PARAMETERS (assumed behaviour = hypotheses of the theorems; `val : F → Nat` is the abstraction function):
* `setBigIntF` — the limb-level `(*Element).setBigInt` ("assumes 0 ⩽ v < q"): `val (setBigIntF v) = v` for `0 ≤ v < q`; `zeroF` — `SetZero`;
* `bigSetString` — `big.Int.SetString(number, 0)` of the Go standard library, as (value, ok); Model/Conv.lean has an executable model of
  its grammar (`parseIntLit`, tied to the library by K), and C08setgen_setString assumes that the parameter agrees with it;
* `setUint64F` — `(*Element).SetUint64`: `val (setUint64F u) = u mod q` for u < 2^64; `negF` — `(*Element).Neg`: `0 ↦ 0`, `x ↦ q - x`
  on reduced values.

Proved for every package: `SetBigInt v` = the model's `setBigInt q v` = `v mod q` for EVERY v ∈ ℤ (negative, = q, huge); `SetString` =
the model's `setString` (error, nil pointer and z untouched exactly when the literal is rejected; otherwise the parsed integer mod q —
any integer, negative or ≥ q: the decoder is lenient); `SetInt64 v` = the model's `setInt64 q v` = `v mod q` for every int64, including
-2^63 (whose absolute value only exists as a uint64).
-/
namespace GV.SetGen
open GV GV.GoImp GV.Conv GV.Gen.Imp GV.Gen.Imp.SetAll

/-- the constants read from the 23 Go texts against Gen/Fields.lean: same package names in the same order; the `_modulus` literal is q -/
theorem C08setgen_consts :
    allPkgs.map (·.name) = Gen.allFields.map (·.name) ∧
    ∀ P ∈ allPkgs, ∀ fc ∈ Gen.allFields, fc.name = P.name → P.modulus = (fc.q : Int) ∧ 0 < fc.q := by
  decide +kernel

section
variable {F : Type} [Inhabited F] (zeroF : F) (setBigIntF : Int → F) (val : F → Nat)
  (P : Pkg) (hP : P ∈ allPkgs) (fc : Gen.FieldConsts) (hfc : fc ∈ Gen.allFields) (hn : fc.name = P.name)
include hP hfc hn

/-- the dispatch of the translated `SetBigInt`: `v = q` ↦ 0, `0 ≤ v < q` ↦ the limb-level primitive on v itself, everything else ↦ the
primitive on the Euclidean remainder -/
theorem C08setgen_setBigInt_dispatch (z : F) (v : Int) :
    P.setBigInt zeroF setBigIntF z v =
      if v = (fc.q : Int) then zeroF else if 0 ≤ v ∧ v < (fc.q : Int) then setBigIntF v else setBigIntF (v % (fc.q : Int)) := by
  obtain ⟨hm, _⟩ := C08setgen_consts.2 P hP fc hfc hn
  rw [(allPkgs_same P hP).1, setBigInt_cases, hm]

variable (hzero : val zeroF = 0) (hset : ∀ v : Int, 0 ≤ v → v < fc.q → val (setBigIntF v) = v.toNat)
include hzero hset

/-- `SetBigInt v` is the model's `setBigInt q v`, i.e. `v mod q`, for EVERY integer -/
theorem C08setgen_setBigInt (z : F) (v : Int) :
    val (P.setBigInt zeroF setBigIntF z v) = Conv.setBigInt fc.q v ∧
    ((val (P.setBigInt zeroF setBigIntF z v) : Nat) : Int) = v % (fc.q : Int) ∧ val (P.setBigInt zeroF setBigIntF z v) < fc.q := by
  obtain ⟨hm, hq⟩ := C08setgen_consts.2 P hP fc hfc hn
  have h : val (P.setBigInt zeroF setBigIntF z v) = Conv.setBigInt fc.q v := by
    rw [(allPkgs_same P hP).1, hm]
    exact setBigInt_val zeroF setBigIntF val fc.q hq hzero hset P.bits z v
  exact ⟨h, h ▸ (C08_setBigInt fc.q hq v).1, h ▸ (C08_setBigInt fc.q hq v).2⟩

/-- `SetString` is the model's `setString`: a rejected literal gives the error, a nil pointer and leaves z alone; an accepted one gives
`(z, nil)` with z = the parsed integer mod q — given that the parameter `parse` (big.Int.SetString(·, 0)) accepts exactly the literals of
the model's grammar with the model's value -/
theorem C08setgen_setString (parse : GoString → Int × Bool) (z : F) (number : GoString)
    (hok : (parse number).2 = (parseIntLit (charsOf number)).isSome)
    (hv : ∀ v, parseIntLit (charsOf number) = some v → (parse number).1 = v) :
    match Conv.setString fc.q (charsOf number) with
    | .ok n => (P.setString zeroF setBigIntF parse z number).2 = (some (P.setString zeroF setBigIntF parse z number).1, GoImp.Err.nil) ∧
        val (P.setString zeroF setBigIntF parse z number).1 = n
    | .error _ => P.setString zeroF setBigIntF parse z number =
        (z, none, GoImp.Err.sentinel ("Element.SetString failed -> can't parse number into a big.Int " ++ strOf number)) := by
  obtain ⟨hm, hq⟩ := C08setgen_consts.2 P hP fc hfc hn
  rw [(allPkgs_same P hP).2.1, hm, setString_eq]
  unfold Conv.setString
  cases hp : parseIntLit (charsOf number) with
  | none =>
    rw [hp] at hok
    simp [hok]
  | some v =>
    rw [hp] at hok
    have := hv v hp
    simp only [hok, Option.isSome_some, if_true, this]
    exact ⟨trivial, setBigInt_val zeroF setBigIntF val fc.q hq hzero hset P.bits z v⟩

omit hzero hset in
/-- `SetInt64 v` is the model's `setInt64 q v`, i.e. `v mod q`, for EVERY int64 (the absolute value of -2^63 included) -/
theorem C08setgen_setInt64 (setU : Nat → F) (neg : F → F)
    (hsetU : ∀ u : Nat, u < 2 ^ 64 → val (setU u) = u % fc.q)
    (hneg : ∀ x : F, val x < fc.q → val (neg x) = if val x = 0 then 0 else fc.q - val x)
    (z : F) (v : Int) (h1 : -2 ^ 63 ≤ v) (h2 : v < 2 ^ 63) :
    val (P.setInt64 zeroF setBigIntF setU neg z v) = Conv.setInt64 fc.q v ∧
    ((val (P.setInt64 zeroF setBigIntF setU neg z v) : Nat) : Int) = v % (fc.q : Int) := by
  obtain ⟨_, hq⟩ := C08setgen_consts.2 P hP fc hfc hn
  have habs : v.natAbs < 2 ^ 64 := by omega
  have h : val (P.setInt64 zeroF setBigIntF setU neg z v) = Conv.setInt64 fc.q v := by
    rw [(allPkgs_same P hP).2.2, setInt64_eq zeroF setBigIntF P.bits P.modulus setU neg z v h1 h2]
    unfold Conv.setInt64 Conv.setUint64
    by_cases hv : v < 0
    · simp only [hv, if_true]
      rw [hneg _ (by rw [hsetU _ habs]; exact Nat.mod_lt _ hq), hsetU _ habs]
    · simp only [hv, if_false]
      exact hsetU _ habs
  exact ⟨h, h ▸ C08_setInt64 fc.q hq v⟩

end

/-! non-vacuity: the hypotheses on the parameters are satisfiable (elements as canonical integers) -/
example (q : Nat) : ∃ (zeroF : Nat) (setBigIntF : Int → Nat) (setU : Nat → Nat) (neg : Nat → Nat) (val : Nat → Nat),
    val zeroF = 0 ∧ (∀ v : Int, 0 ≤ v → v < q → val (setBigIntF v) = v.toNat) ∧ (∀ u : Nat, u < 2 ^ 64 → val (setU u) = u % q) ∧
    (∀ x : Nat, val x < q → val (neg x) = if val x = 0 then 0 else q - val x) :=
  ⟨0, Int.toNat, (· % q), fun x => if x = 0 then 0 else q - x, id, rfl, fun _ _ _ => rfl, fun _ _ => rfl, fun _ _ => rfl⟩

/-- a `parse` parameter that satisfies the hypotheses of C08setgen_setString: the model's grammar itself -/
def parseModel (s : GoString) : Int × Bool :=
  match parseIntLit (charsOf s) with
  | some v => (v, true)
  | none => (0, false)

example (s : GoString) : (parseModel s).2 = (parseIntLit (charsOf s)).isSome ∧
    ∀ v, parseIntLit (charsOf s) = some v → (parseModel s).1 = v := by
  unfold parseModel
  cases parseIntLit (charsOf s) <;> simp

/-! the generated code RUN on bn254 fr / koalabear (values as in the Go library): SetInt64 at the extremes, SetString on a negative hexadecimal
literal with separators, on q itself, and on a rejected literal -/
example : Set_bn254_fr.SetInt64 (F := Nat) 0 Int.toNat (· % 21888242871839275222246405745257275088548364400416034343698204186575808495617)
      (fun x => if x = 0 then 0 else 21888242871839275222246405745257275088548364400416034343698204186575808495617 - x) 7 (-9223372036854775808) =
      21888242871839275222246405745257275088548364400416034343698204186575808495617 - 9223372036854775808 ∧
    Set_koalabear.SetInt64 (F := Nat) 0 Int.toNat (· % 2130706433) (fun x => if x = 0 then 0 else 2130706433 - x) 7 (-2130706433) = 0 ∧
    Set_koalabear.SetInt64 (F := Nat) 0 Int.toNat (· % 2130706433) (fun x => if x = 0 then 0 else 2130706433 - x) 7 9223372036854775807 =
      9223372036854775807 % 2130706433 := by decide +kernel
example : Set_koalabear.SetString (F := Nat) 0 Int.toNat parseModel 7 "-0x1_0".toUTF8.toList = (2130706433 - 16, some (2130706433 - 16), GoImp.Err.nil) ∧
    Set_koalabear.SetString (F := Nat) 0 Int.toNat parseModel 7 "2130706433".toUTF8.toList = (0, some 0, GoImp.Err.nil) ∧
    (Set_koalabear.SetString (F := Nat) 0 Int.toNat parseModel 7 "12a".toUTF8.toList).2.1 = none ∧
    (Set_koalabear.SetString (F := Nat) 0 Int.toNat parseModel 7 "12a".toUTF8.toList).1 = 7 := by decide +kernel

end GV.SetGen
