import GnarkVerif.Props.C01_limb4_bn254_fr
import GnarkVerif.Props.C01_limb4_bn254_fp
import GnarkVerif.Props.C01_limb4_bls12_377_fr
import GnarkVerif.Props.C01_limb4_bls12_381_fr
import GnarkVerif.Props.C01_limb4_bls24_315_fr
import GnarkVerif.Props.C01_limb4_bls24_317_fr
import GnarkVerif.Props.C01_limb4_grumpkin_fp
import GnarkVerif.Props.C01_limb4_grumpkin_fr
import GnarkVerif.Props.C01_limb4_stark_curve_fp
import GnarkVerif.Props.C01_limb4_stark_curve_fr
import GnarkVerif.Props.C01_limb4_secp256k1_fp
import GnarkVerif.Props.C01_limb4_secp256k1_fr
import GnarkVerif.Props.C01_limb4_bls24_315_fp
import GnarkVerif.Props.C01_limb4_bls24_317_fp
import GnarkVerif.Props.C01_limb4_bw6_633_fr
import GnarkVerif.Props.C01_limb4_bls12_377_fp
import GnarkVerif.Props.C01_limb4_bls12_381_fp
import GnarkVerif.Props.C01_limb4_bw6_761_fr
import GnarkVerif.Props.C01_limb4_bw6_633_fp
import GnarkVerif.Props.C01_limb4_bw6_761_fp
import GnarkVerif.Props.C01_limb4_goldilocks
import GnarkVerif.Props.C01_limb4_koalabear
import GnarkVerif.Props.C01_limb4_babybear
/-
C01_limb4 — third part of the LIMB-level tie T (complements C01_limb, C01_limb2): the SECOND batch of word-level functions the limb
translator emits (Gen/Limb/<Field>X.lean, regenerated from /repo on every run): IsZero IsOne NotEqual Equal LexicographicallyLargest Cmp
MulBy3 MulBy5 _butterflyGeneric fromMont. 568 theorems, all for ALL inputs (every limb a word; `val < q` where the Go code assumes a
canonical operand), namespace `GV.Limb.<f>` (`Props/C01_limb4_<f>.lean`, written by bin/mkc01limb4.py; generic lemmas in Proofs/Limb4.lean).

* 18 multi-limb fields with 4 / 5 / 6 limbs (24 theorems each):
  `IsZero_iff`     `IsZero z ↔ val z = 0`;            `IsOne_iff`  `IsOne z ↔ val z = R mod q` (`one_limbs`: the literal limbs of the Go code
                   are the Montgomery one of the regenerated modulus);   `Equal_iff`, `NotEqual_eq_zero_iff`, `NotEqual_ne_zero_iff`
                   (`NotEqual z x ≠ 0 ↔ val z ≠ val x`; limbs of a value are unique);
  `fromMont_eq / fromMont_spec`   the inlined copy is the first batch's `fromMontGeneric` (same word program) = `GV.Field.fromMont`;
  `LexicographicallyLargest_iff(_gt)`  `↔ GV.Field.lexLargest` i.e. regular value `> (q-1)/2`: `fromMont`, then the borrow chain against
                   literal limbs proved to be `(q+1)/2` of the regenerated modulus (`half_limbs`; `LexicographicallyLargest_eq`, `lexTail_iff`);
  `Cmp_spec`       `Cmp z x = encInt (GV.Field.cmp P (val z) (val x))` (-1 / 0 / 1 of the regular values, -1 encoded as 2^64-1):
                   `fromMont` of both, then the most-significant-word-first comparison (`Cmp_eq`, `cmpTail_eq`);
  `MulBy3_spec`, `MulBy5_spec`   canonical result with value `3·val x mod q` / `5·val x mod q` (`MulBy3_eq`: `Add (Double x) x`,
                   `MulBy5_eq`: `Add (Double (Double x)) x`, composed with C01_limb `Add_spec` / `Double_spec`; `addT_spec`, `dblT_spec`);
  `butterflyGeneric_spec`  `(a, b) ↦ (a + b mod q, a − b mod q)` (`butterflyGeneric_eq`: `(Add a b, Sub a b)`).
* goldilocks, koalabear, babybear (one word; 18 theorems each): the same statements on the single word (their packages have no
  word-level MulBy3 / MulBy5).
* bw6_633_fp (10 limbs: 40 theorems), bw6_761_fp (12 limbs: 42): the same 24 statements in full, preceded by the composed
  theorems the first batch does not have for these two fields and which are proved here: `Add_spec`, `Double_spec`, `Sub_spec`
  (= `GV.Field.add / double / sub`), the per-round `fromMontGeneric_s<k>_spec` (round = `ciosStep`, last = `reduceOnce`),
  `fromMontGeneric_rounds` (the generated function = the composition of its rounds over limb tuples, kernel-checked) and
  `fromMontGeneric_spec` (= `GV.Field.fromMont`). Nothing is skipped.
The `…_eq` theorems identify two word programs: the kernel checks the definitional equality (`limb_kernel_rfl`, proof term `Eq.refl`);
a syntactic comparison of the unfolded programs runs first so that a changed Go function is reported in seconds.
-/
