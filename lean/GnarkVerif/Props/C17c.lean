import GnarkVerif.Props.C17a
import Mathlib.GroupTheory.OrderOfElement
/-
C17 (pairing-based half), part c — SPECIFICATION of the prover-supplied structural parameters and of the randomised batch
checks, for the two forgery classes

* consistent forgeries under a degenerate prover-supplied parameter (`C17 permutation … mut=consist`): `size` and `g` are
  fields of the proof; the harness builds a COMPLETE proof for a given `(size, g)`, so only the parameter check can reject.
  The model's verdict on such a line is `permSpec` (size a power of two ≥ 2, `g` a PRIMITIVE size-th root of unity, second
  vector a permutation of the first). Here: the decision theorems of the generator check, its equality with the
  specification for every power of two, and the proof that it is NOT a primitivity test otherwise (finding);
* correlated forgeries for randomised batch checks (`C17 mpcsetup … kind=ratio`, mirrored / proportional / cancelling
  sequences): the model's verdict `sameRatioMany` is the exact statement — every pair (G1 slice, G2 slice) satisfies
  `sᵢ·tⱼ₊₁ = sᵢ₊₁·tⱼ` — whatever the correlation between the groups.
-/
namespace GV.ArgPairing
open GV GV.Alg

/-- `isPow2 n` decides `∃ k, 2ᵏ = n` -/
theorem C17c_isPow2_iff (n : Nat) : isPow2 n = true ↔ ∃ k, 2 ^ k = n := by
  unfold isPow2
  simp only [List.any_eq_true, List.mem_range, beq_iff_eq]
  constructor
  · rintro ⟨k, _, e⟩; exact ⟨k, e⟩
  · rintro ⟨k, e⟩
    exact ⟨k, by have := Nat.lt_two_pow_self (n := k); omega, e⟩

/-- every power of two passes the size test of `permutation.Verify` -/
theorem sizeOk_two_pow (k : Nat) : sizeOk (2 ^ k) = true := by
  unfold sizeOk
  rw [Nat.and_two_pow_sub_one_eq_mod, Nat.mod_self]; rfl

section spec
variable {α K : Type} [Field K] [DecidableEq K] {F : FOps α} {φ : α → K} (h : Lawful F φ)
include h

/-- DECISION THEOREM of the generator check for an even size: `gⁿ = 1 ∧ g^(n/2) ≠ 1` -/
theorem C17c_genCheck_pow_iff (n : Nat) (hn : Even n) (g : α) :
    genCheck F n g = true ↔ φ g ^ n = 1 ∧ φ g ^ (n / 2) ≠ 1 := by
  rw [C17a_genCheck_iff h]
  obtain ⟨k, rfl⟩ := hn
  have e : (k + k) / 2 = k := by omega
  rw [e, ← pow_add]
  exact And.comm

/-- the specification's primitivity test decides `orderOf g = n` -/
theorem C17c_isPrimRoot_iff (n : Nat) (g : α) :
    isPrimRoot F n g = true ↔ 0 < n ∧ orderOf (φ g) = n := by
  unfold isPrimRoot
  rw [Bool.and_eq_true, Bool.and_eq_true, decide_eq_true_eq, h.beq, npow_map h, h.one, List.all_eq_true]
  constructor
  · rintro ⟨⟨hn, hp⟩, hall⟩
    refine ⟨hn, (orderOf_eq_iff hn).mpr ⟨hp, fun m hm hm0 => ?_⟩⟩
    have := hall m (List.mem_range.mpr hm)
    rw [Bool.or_eq_true, beq_iff_eq, Bool.not_eq_true', Bool.eq_false_iff, Ne, h.beq, npow_map h, h.one] at this
    rcases this with e | e
    · omega
    · exact e
  · rintro ⟨hn, ho⟩
    obtain ⟨hp, hm⟩ := (orderOf_eq_iff hn).mp ho
    refine ⟨⟨hn, hp⟩, fun m hmem => ?_⟩
    rw [Bool.or_eq_true, beq_iff_eq, Bool.not_eq_true', Bool.eq_false_iff, Ne, h.beq, npow_map h, h.one]
    by_cases e : m = 0
    · exact Or.inl e
    · exact Or.inr (hm m (List.mem_range.mp hmem) (by omega))

/-- for a size that is a power of two (≥ 2) the generator check of `permutation.Verify` / `VerifyLookupVector` decides
`orderOf g = size`: `g` is a PRIMITIVE size-th root of unity -/
theorem C17c_genCheck_orderOf (k : Nat) (g : α) :
    genCheck F (2 ^ (k + 1)) g = true ↔ orderOf (φ g) = 2 ^ (k + 1) := by
  rw [C17c_genCheck_pow_iff h _ ⟨2 ^ k, by ring⟩]
  have e : 2 ^ (k + 1) / 2 = 2 ^ k := by rw [pow_succ]; simp
  rw [e]
  constructor
  · rintro ⟨h1, h2⟩
    exact orderOf_eq_prime_pow h2 h1
  · intro ho
    refine ⟨by rw [← ho]; exact pow_orderOf_eq_one _, fun h1 => ?_⟩
    have hd := orderOf_dvd_of_pow_eq_one h1
    rw [ho] at hd
    have h3 : 2 ^ (k + 1) ≤ 2 ^ k := Nat.le_of_dvd (by positivity) hd
    have h4 : 0 < 2 ^ k := by positivity
    rw [pow_succ] at h3
    omega

/-- the verifier's generator check IS the specification's primitivity test on every power of two ≥ 2 -/
theorem C17c_genCheck_eq_isPrimRoot (k : Nat) (g : α) :
    genCheck F (2 ^ (k + 1)) g = isPrimRoot F (2 ^ (k + 1)) g := by
  rw [Bool.eq_iff_iff, C17c_genCheck_orderOf h, C17c_isPrimRoot_iff h]
  have : 0 < 2 ^ (k + 1) := by positivity
  simp [this]

/-- CONSISTENT FORGERY: when the identity and both KZG checks pass (every component derived honestly for `(size, g)`),
`permutation.Verify` accepts exactly when the prover-supplied `g` is a primitive size-th root of unity (size = 2^(k+1)) -/
theorem C17c_perm_consist_iff (k : Nat) (g : α) (cv : List α) (sv ε ω η : α)
    (hid : permIdentity F (2 ^ (k + 1)) cv sv ε ω η = true) :
    permVerify F (2 ^ (k + 1)) g cv sv ε ω η true true = true ↔ orderOf (φ g) = 2 ^ (k + 1) := by
  rw [C17a_perm_verify_iff h, C17c_genCheck_orderOf h]
  simp [hid, sizeOk_two_pow]

/-- same for `VerifyLookupVector` -/
theorem C17c_plookup_consist_iff (k : Nat) (g : α) (cv scv : List α) (β γ αc ν : α)
    (hid : plkIdentity F (2 ^ (k + 1)) g cv scv β γ αc ν = true) :
    plkVerify F (2 ^ (k + 1)) g cv scv β γ αc ν true true = true ↔ orderOf (φ g) = 2 ^ (k + 1) := by
  rw [C17a_plookup_verify_iff h, C17c_genCheck_orderOf h]
  simp [hid, sizeOk_two_pow]

/-- FINDING (sizes that are not powers of two are never refused by `Verify`): the generator check is not a primitivity
test there — `g = −1` passes for size 3 and size 6 in every field of characteristic ≠ 2, although its order is 2 -/
theorem C17c_genCheck_not_primitive_np2 (g : α) (hg : φ g = -1) (h2 : (-1 : K) ≠ 1) :
    genCheck F 3 g = true ∧ genCheck F 6 g = true ∧ isPrimRoot F 3 g = false ∧ isPrimRoot F 6 g = false := by
  have hsq : ((-1 : K)) ^ 2 = 1 := by ring
  have hdvd : orderOf (φ g) ∣ 2 := by rw [hg]; exact orderOf_dvd_of_pow_eq_one hsq
  have hle : orderOf (φ g) ≤ 2 := Nat.le_of_dvd (by norm_num) hdvd
  refine ⟨?_, ?_, ?_, ?_⟩
  · rw [C17a_genCheck_iff h, hg]; norm_num; exact h2
  · rw [C17a_genCheck_iff h, hg]; norm_num; exact h2
  · rw [Bool.eq_false_iff, Ne, C17c_isPrimRoot_iff h]; rintro ⟨_, ho⟩; omega
  · rw [Bool.eq_false_iff, Ne, C17c_isPrimRoot_iff h]; rintro ⟨_, ho⟩; omega

theorem countF_eq (x : α) (l : List α) : countF F x l = (l.map φ).count (φ x) := by
  induction l with
  | nil => simp [countF]
  | cons y l ih =>
    unfold countF at ih ⊢
    by_cases e : F.beq x y = true
    · have e' := (h.beq x y).mp e
      simp [e, ih, e']
    · have e' : φ x ≠ φ y := fun e' => e ((h.beq x y).mpr e')
      have e'' : ¬ (φ y = φ x) := fun q => e' q.symm
      simp [e, ih, e'']

/-- `isPerm` decides "the second vector is a permutation of the first" -/
theorem C17c_isPerm_iff (a b : List α) : isPerm F a b = true ↔ (a.map φ).Perm (b.map φ) := by
  rw [List.perm_iff_count]
  unfold isPerm
  simp only [Bool.and_eq_true, List.all_eq_true, beq_iff_eq, countF_eq h]
  constructor
  · rintro ⟨ha, hb⟩ y
    by_cases hy : y ∈ a.map φ
    · obtain ⟨x, hx, rfl⟩ := List.mem_map.mp hy; exact ha x hx
    · by_cases hy' : y ∈ b.map φ
      · obtain ⟨x, hx, rfl⟩ := List.mem_map.mp hy'; exact hb x hx
      · rw [List.count_eq_zero_of_not_mem hy, List.count_eq_zero_of_not_mem hy']
  · intro hc; exact ⟨fun x _ => hc _, fun x _ => hc _⟩

/-- the verdict of the model on a `mut=consist` line -/
theorem C17c_permSpec_iff (n : Nat) (g : α) (t1 t2 : List α) :
    permSpec F n g t1 t2 = true ↔
      2 ≤ n ∧ (∃ k, 2 ^ k = n) ∧ orderOf (φ g) = n ∧ (t1.map φ).Perm (t2.map φ) := by
  unfold permSpec
  rw [Bool.and_eq_true, Bool.and_eq_true, Bool.and_eq_true, decide_eq_true_eq, C17c_isPow2_iff,
    C17c_isPrimRoot_iff h, C17c_isPerm_iff h]
  constructor
  · rintro ⟨⟨⟨a, b⟩, _, c⟩, d⟩; exact ⟨a, b, c, d⟩
  · rintro ⟨a, b, c, d⟩; exact ⟨⟨⟨a, b⟩, by omega, c⟩, d⟩

/-- `isSubset` decides "every looked-up value is in the table" -/
theorem C17c_isSubset_iff (f t : List α) : isSubset F f t = true ↔ ∀ x ∈ f.map φ, x ∈ t.map φ := by
  unfold isSubset
  simp only [List.all_eq_true, List.any_eq_true, h.beq, List.mem_map]
  constructor
  · rintro hs _ ⟨x, hx, rfl⟩
    obtain ⟨y, hy, e⟩ := hs x hx
    exact ⟨y, hy, e.symm⟩
  · intro hs x hx
    obtain ⟨y, hy, e⟩ := hs (φ x) ⟨x, hx, rfl⟩
    exact ⟨y, hy, e.symm⟩

/-- the verdict of the model on a `plookup … mut=consist` line -/
theorem C17c_plkSpec_iff (n : Nat) (g : α) (f t : List α) :
    plkSpec F n g f t = true ↔
      2 ≤ n ∧ (∃ k, 2 ^ k = n) ∧ orderOf (φ g) = n ∧ ∀ x ∈ f.map φ, x ∈ t.map φ := by
  unfold plkSpec
  rw [Bool.and_eq_true, Bool.and_eq_true, Bool.and_eq_true, decide_eq_true_eq, C17c_isPow2_iff,
    C17c_isPrimRoot_iff h, C17c_isSubset_iff h]
  constructor
  · rintro ⟨⟨⟨a, b⟩, _, c⟩, d⟩; exact ⟨a, b, c, d⟩
  · rintro ⟨a, b, c, d⟩; exact ⟨⟨⟨a, b⟩, by omega, c⟩, d⟩

/-- CORRELATED FORGERIES: the model's `SameRatioMany` verdict is the exact statement, for every pair of a G1 slice and a
G2 slice and every pair of positions — in particular whatever relation (equal, proportional, …) links the two groups -/
theorem C17c_sameRatioMany_sound (g1s g2s : List (List α)) (hacc : sameRatioMany F g1s g2s = true)
    (s : List α) (hs : s ∈ g1s) (t : List α) (ht : t ∈ g2s) (i j : Nat) (hi : i + 1 < s.length) (hj : j + 1 < t.length) :
    φ (s.getD i F.zero) * φ (t.getD (j + 1) F.zero) = φ (s.getD (i + 1) F.zero) * φ (t.getD j F.zero) := by
  unfold sameRatioMany at hacc
  rw [Bool.and_eq_true] at hacc
  have hg := hacc.2
  rw [List.all_eq_true] at hg
  have hg2 := hg s hs
  rw [List.all_eq_true] at hg2
  have hg3 := hg2 t ht
  unfold geomPair at hg3
  rw [List.all_eq_true] at hg3
  have hg4 := hg3 i (List.mem_range.mpr (by omega))
  rw [List.all_eq_true] at hg4
  have hg5 := hg4 j (List.mem_range.mpr (by omega))
  rw [h.beq, h.mul, h.mul] at hg5
  exact hg5

/-- mirrored sequences (the same scalars in G1 and in G2): accepted only if geometric, `sᵢ·sᵢ₊₂ = sᵢ₊₁²` -/
theorem C17c_sameRatioMany_mirror (s : List α) (hacc : sameRatioMany F [s] [s] = true) (i : Nat) (hi : i + 2 < s.length) :
    φ (s.getD i F.zero) * φ (s.getD (i + 2) F.zero) = φ (s.getD (i + 1) F.zero) * φ (s.getD (i + 1) F.zero) :=
  C17c_sameRatioMany_sound h [s] [s] hacc s (by simp) s (by simp) i (i + 1) (by omega) (by omega)

end spec
end GV.ArgPairing
