import GnarkVerif.Model.CurveCheck
import GnarkVerif.Gen.CurveConsts
import GnarkVerif.Gen.Fields
/-
C03 (tie T) — bls12-377, bls12-381.  Written by bin/mkc03gen.py; DO NOT EDIT by hand.

Kernel-checked facts about the constants that `tools/goslp/curveconsts.go` re-extracts from the CURRENT Go text on every
run (`GV.Gen.CurveConsts.<curve>.*`: init() of ecc/<curve>/<curve>.go, package comment) and the regenerated moduli
(`GV.Gen.<curve>_fp.q`, `_fr.q`).  Changing one digit of a generator, of thirdRootOneG1, lambdaGLV, xGen, a LoopCounter
entry, the twist … in the Go source breaks the corresponding proof below before any input is run.
The towers F_p² / F_p⁴ (non-residues) are those of `Model/Pairing` (C05/C06); scalar multiplications are the
inversion-free ladders of `Model/CurveCheck` (cross-checked against `Alg.Curve.smulNat` by the `ladder_agrees` theorems).
-/
namespace GV.C03gen
open GV GV.Alg GV.Gen GV.CurveCheck

namespace bls12_377
/-! ### ecc/bls12-377 -/
def p : Nat := bls12_377_fp.q
def r : Nat := bls12_377_fr.q
def E1 : Curve Nat := { F := fp p, a := red p CurveConsts.bls12_377.aCurveCoeff, b := red p CurveConsts.bls12_377.bCurveCoeff }
def G1 : Nat × Nat := (red p CurveConsts.bls12_377.g1Gen_X, red p CurveConsts.bls12_377.g1Gen_Y)

/-- the package comment states the moduli of the field packages -/
theorem doc_moduli : CurveConsts.bls12_377.docP = p ∧ CurveConsts.bls12_377.docR = r := by decide +kernel

/-- the G1 generator literals are canonical (`0 ≤ · < p`, `Z = 1`) -/
theorem g1_literals_canonical :
    (canon p [CurveConsts.bls12_377.g1Gen_X, CurveConsts.bls12_377.g1Gen_Y] && CurveConsts.bls12_377.g1Gen_Z == 1) = true := by decide +kernel

/-- `g1Gen` satisfies `y² = x³ + a·x + b` over F_p and `[r]g1Gen = O` -/
theorem g1_on_curve_and_order_r : genOk E1 r G1 = true := by decide +kernel

/-- the Jacobian ladder used above agrees with the textbook affine law on `[0]G … [5]G` -/
theorem g1_ladder_agrees : ladderAgrees E1 6 G1 = true := by decide +kernel

def ω : Nat := red p CurveConsts.bls12_377.thirdRootOneG1
def lam : Nat := CurveConsts.bls12_377.lambdaGLV.toNat

/-- `thirdRootOneG1` is a primitive cube root of unity of F_p (canonical literal) -/
theorem thirdRootOneG1_ok :
    canon p [CurveConsts.bls12_377.thirdRootOneG1] = true ∧ ω ^ 3 % p = 1 ∧ ω ≠ 1 := by decide +kernel

/-- `lambdaGLV` is a primitive cube root of unity modulo r: λ² + λ + 1 ≡ 0, λ > 0 -/
theorem lambdaGLV_ok :
    0 < CurveConsts.bls12_377.lambdaGLV ∧ (lam * lam + lam + 1) % r = 0 := by decide +kernel

/-- `lambdaGLV` is reduced modulo r -/
theorem lambdaGLV_reduced : CurveConsts.bls12_377.lambdaGLV < r := by decide +kernel

/-- eigenvalue relation on the generator: φ(G) = (ω·x, y) = [λ]G -/
theorem glv_g1 : glvOk E1 lam ω G1 = true := by decide +kernel

/-- `init()` derives the GLV lattice from these very constants -/
theorem glvBasis_from_lambda : CurveConsts.bls12_377.glvBasisFromLambda = true := by decide

abbrev τ := Pairing.T2
def T : FOps τ := Pairing.bls12_377.T
def ofL (l : List Int) : τ := toT2 p l
def ξ : τ := ofL CurveConsts.bls12_377.twist
def b' : Option τ :=
  bTwistOf T CurveConsts.bls12_377.bTwistCurveCoeffExpr (ofL CurveConsts.bls12_377.bTwistCurveCoeff) ξ (red p CurveConsts.bls12_377.bCurveCoeff)
def E2 : Curve τ := twistCurve T b'
def G2 : τ × τ := (ofL CurveConsts.bls12_377.g2Gen_X, ofL CurveConsts.bls12_377.g2Gen_Y)

/-- shape of the G2 literals: degree of the twist field, canonical coordinates, `Z = 1` -/
theorem g2_literals_canonical :
    (CurveConsts.bls12_377.degTwist == 2
      && CurveConsts.bls12_377.g2Gen_X.length == 2 && CurveConsts.bls12_377.g2Gen_Y.length == 2
      && canon p (CurveConsts.bls12_377.g2Gen_X ++ CurveConsts.bls12_377.g2Gen_Y)
      && CurveConsts.bls12_377.g2Gen_Z == 1 :: List.replicate (2 - 1) 0) = true := by decide +kernel

/-- `bTwistCurveCoeff` is computed by a form the model knows, the twist is D-type: b' = b/ξ (b = 1) -/
theorem bTwist_known : b'.isSome = true ∧ CurveConsts.bls12_377.bTwistCurveCoeffExpr = "Inverse(twist)" := by decide +kernel

/-- `g2Gen` lies on the twist `y² = x³ + b'` over F_p² and `[r]g2Gen = O` -/
theorem g2_on_curve_and_order_r : genOk E2 r G2 = true := by decide +kernel

theorem g2_ladder_agrees : ladderAgrees E2 4 G2 = true := by decide +kernel

/-- `thirdRootOneG2 = thirdRootOneG1²` (as `init()` computes it) acts on G2 as [λ] -/
theorem glv_g2 :
    CurveConsts.bls12_377.thirdRootOneG2Expr = "Square(thirdRootOneG1)" ∧ glvOk E2 lam (T.ofNat (ω * ω % p)) G2 = true := by
  decide +kernel

/-- `endo.u`, `endo.v` are the Frobenius-twist coefficients ξ^((p−1)/3), ξ^((p−1)/2) (inverted on an M-twist) -/
theorem endo_ok :
    (CurveConsts.bls12_377.endo_u.length == 2 && CurveConsts.bls12_377.endo_v.length == 2
      && canon p (CurveConsts.bls12_377.endo_u ++ CurveConsts.bls12_377.endo_v)
      && endoOk T ξ p false (ofL CurveConsts.bls12_377.endo_u) (ofL CurveConsts.bls12_377.endo_v)) = true := by decide +kernel

/-- the hand-written curve table of `Model/Pairing` (C05) carries the same constants as the Go source -/
theorem pairing_model_constants :
    Pairing.bls12_377.p = p ∧ Pairing.bls12_377.r = r ∧ Pairing.bls12_377.b % p = red p CurveConsts.bls12_377.bCurveCoeff
      ∧ Pairing.bls12_377.g1 = G1 ∧ Pairing.bls12_377.g2 = G2 ∧ Pairing.bls12_377.mTwist = false
      ∧ (T.beq Pairing.bls12_377.bT (b'.getD T.zero)) = true ∧ Pairing.bls12_377.xi = ξ ∧ CurveConsts.bls12_377.twist.length = 2 := by
  decide +kernel

/-- the seed: `xGen` is x₀ of the package comment -/
theorem seed_doc : CurveConsts.bls12_377.docSeed = CurveConsts.bls12_377.xGen ∧ 0 < CurveConsts.bls12_377.xGen := by decide +kernel

/-- BLS12 parametrisation: r = x⁴ − x² + 1, p = (x−1)²·r/3 + x, λ = x² − 1 -/
theorem seed_relations :
    let x := CurveConsts.bls12_377.docSeed
    (r : Int) = x^4 - x^2 + 1 ∧ 3 * ((p : Int) - x) = (x - 1)^2 * r ∧ CurveConsts.bls12_377.lambdaGLV = x^2 - 1 := by decide +kernel

/-- `LoopCounter` (literal): declared length, digits in {−1,0,1}, Σ dᵢ·2ⁱ = |x₀| = xGen -/
theorem loopCounter_ok :
    loopOk CurveConsts.bls12_377.LoopCounterLen CurveConsts.bls12_377.LoopCounterIsNaf CurveConsts.bls12_377.LoopCounterNafOf
      CurveConsts.bls12_377.LoopCounter CurveConsts.bls12_377.xGen = true := by decide +kernel

theorem pairing_model_loop : loopCode Pairing.bls12_377.loop = [1, CurveConsts.bls12_377.docSeed] := by decide +kernel

end bls12_377

namespace bls12_381
/-! ### ecc/bls12-381 -/
def p : Nat := bls12_381_fp.q
def r : Nat := bls12_381_fr.q
def E1 : Curve Nat := { F := fp p, a := red p CurveConsts.bls12_381.aCurveCoeff, b := red p CurveConsts.bls12_381.bCurveCoeff }
def G1 : Nat × Nat := (red p CurveConsts.bls12_381.g1Gen_X, red p CurveConsts.bls12_381.g1Gen_Y)

/-- the package comment states the moduli of the field packages -/
theorem doc_moduli : CurveConsts.bls12_381.docP = p ∧ CurveConsts.bls12_381.docR = r := by decide +kernel

/-- the G1 generator literals are canonical (`0 ≤ · < p`, `Z = 1`) -/
theorem g1_literals_canonical :
    (canon p [CurveConsts.bls12_381.g1Gen_X, CurveConsts.bls12_381.g1Gen_Y] && CurveConsts.bls12_381.g1Gen_Z == 1) = true := by decide +kernel

/-- `g1Gen` satisfies `y² = x³ + a·x + b` over F_p and `[r]g1Gen = O` -/
theorem g1_on_curve_and_order_r : genOk E1 r G1 = true := by decide +kernel

/-- the Jacobian ladder used above agrees with the textbook affine law on `[0]G … [5]G` -/
theorem g1_ladder_agrees : ladderAgrees E1 6 G1 = true := by decide +kernel

def ω : Nat := red p CurveConsts.bls12_381.thirdRootOneG1
def lam : Nat := CurveConsts.bls12_381.lambdaGLV.toNat

/-- `thirdRootOneG1` is a primitive cube root of unity of F_p (canonical literal) -/
theorem thirdRootOneG1_ok :
    canon p [CurveConsts.bls12_381.thirdRootOneG1] = true ∧ ω ^ 3 % p = 1 ∧ ω ≠ 1 := by decide +kernel

/-- `lambdaGLV` is a primitive cube root of unity modulo r: λ² + λ + 1 ≡ 0, λ > 0 -/
theorem lambdaGLV_ok :
    0 < CurveConsts.bls12_381.lambdaGLV ∧ (lam * lam + lam + 1) % r = 0 := by decide +kernel

/-- `lambdaGLV` is reduced modulo r -/
theorem lambdaGLV_reduced : CurveConsts.bls12_381.lambdaGLV < r := by decide +kernel

/-- eigenvalue relation on the generator: φ(G) = (ω·x, y) = [λ]G -/
theorem glv_g1 : glvOk E1 lam ω G1 = true := by decide +kernel

/-- `init()` derives the GLV lattice from these very constants -/
theorem glvBasis_from_lambda : CurveConsts.bls12_381.glvBasisFromLambda = true := by decide

abbrev τ := Pairing.T2
def T : FOps τ := Pairing.bls12_381.T
def ofL (l : List Int) : τ := toT2 p l
def ξ : τ := ofL CurveConsts.bls12_381.twist
def b' : Option τ :=
  bTwistOf T CurveConsts.bls12_381.bTwistCurveCoeffExpr (ofL CurveConsts.bls12_381.bTwistCurveCoeff) ξ (red p CurveConsts.bls12_381.bCurveCoeff)
def E2 : Curve τ := twistCurve T b'
def G2 : τ × τ := (ofL CurveConsts.bls12_381.g2Gen_X, ofL CurveConsts.bls12_381.g2Gen_Y)

/-- shape of the G2 literals: degree of the twist field, canonical coordinates, `Z = 1` -/
theorem g2_literals_canonical :
    (CurveConsts.bls12_381.degTwist == 2
      && CurveConsts.bls12_381.g2Gen_X.length == 2 && CurveConsts.bls12_381.g2Gen_Y.length == 2
      && canon p (CurveConsts.bls12_381.g2Gen_X ++ CurveConsts.bls12_381.g2Gen_Y)
      && CurveConsts.bls12_381.g2Gen_Z == 1 :: List.replicate (2 - 1) 0) = true := by decide +kernel

/-- `bTwistCurveCoeff` is computed by a form the model knows, the twist is M-type: b' = b·ξ -/
theorem bTwist_known : b'.isSome = true ∧ CurveConsts.bls12_381.bTwistCurveCoeffExpr = "MulByElement(twist,bCurveCoeff)" := by decide +kernel

/-- `g2Gen` lies on the twist `y² = x³ + b'` over F_p² and `[r]g2Gen = O` -/
theorem g2_on_curve_and_order_r : genOk E2 r G2 = true := by decide +kernel

theorem g2_ladder_agrees : ladderAgrees E2 4 G2 = true := by decide +kernel

/-- `thirdRootOneG2 = thirdRootOneG1²` (as `init()` computes it) acts on G2 as [λ] -/
theorem glv_g2 :
    CurveConsts.bls12_381.thirdRootOneG2Expr = "Square(thirdRootOneG1)" ∧ glvOk E2 lam (T.ofNat (ω * ω % p)) G2 = true := by
  decide +kernel

/-- `endo.u`, `endo.v` are the Frobenius-twist coefficients ξ^((p−1)/3), ξ^((p−1)/2) (inverted on an M-twist) -/
theorem endo_ok :
    (CurveConsts.bls12_381.endo_u.length == 2 && CurveConsts.bls12_381.endo_v.length == 2
      && canon p (CurveConsts.bls12_381.endo_u ++ CurveConsts.bls12_381.endo_v)
      && endoOk T ξ p true (ofL CurveConsts.bls12_381.endo_u) (ofL CurveConsts.bls12_381.endo_v)) = true := by decide +kernel

/-- the hand-written curve table of `Model/Pairing` (C05) carries the same constants as the Go source -/
theorem pairing_model_constants :
    Pairing.bls12_381.p = p ∧ Pairing.bls12_381.r = r ∧ Pairing.bls12_381.b % p = red p CurveConsts.bls12_381.bCurveCoeff
      ∧ Pairing.bls12_381.g1 = G1 ∧ Pairing.bls12_381.g2 = G2 ∧ Pairing.bls12_381.mTwist = true
      ∧ (T.beq Pairing.bls12_381.bT (b'.getD T.zero)) = true ∧ Pairing.bls12_381.xi = ξ ∧ CurveConsts.bls12_381.twist.length = 2 := by
  decide +kernel

/-- the seed: `xGen` is -x₀ of the package comment -/
theorem seed_doc : CurveConsts.bls12_381.docSeed = -CurveConsts.bls12_381.xGen ∧ 0 < CurveConsts.bls12_381.xGen := by decide +kernel

/-- BLS12 parametrisation: r = x⁴ − x² + 1, p = (x−1)²·r/3 + x, λ = x² − 1 -/
theorem seed_relations :
    let x := CurveConsts.bls12_381.docSeed
    (r : Int) = x^4 - x^2 + 1 ∧ 3 * ((p : Int) - x) = (x - 1)^2 * r ∧ CurveConsts.bls12_381.lambdaGLV = x^2 - 1 := by decide +kernel

/-- `LoopCounter` (literal): declared length, digits in {−1,0,1}, Σ dᵢ·2ⁱ = |x₀| = xGen -/
theorem loopCounter_ok :
    loopOk CurveConsts.bls12_381.LoopCounterLen CurveConsts.bls12_381.LoopCounterIsNaf CurveConsts.bls12_381.LoopCounterNafOf
      CurveConsts.bls12_381.LoopCounter CurveConsts.bls12_381.xGen = true := by decide +kernel

theorem pairing_model_loop : loopCode Pairing.bls12_381.loop = [1, CurveConsts.bls12_381.docSeed] := by decide +kernel

end bls12_381

end GV.C03gen
