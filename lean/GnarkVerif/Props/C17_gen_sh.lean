/- INSTANTIATED by bin/mkc17shgen.py (one proof template for the 7 packages and 5 shapes). DO NOT EDIT: edit the script and re-run it. -/
import GnarkVerif.Props.C17_gen_sh_bn254
import GnarkVerif.Props.C17_gen_ff_bn254
import GnarkVerif.Props.C17_gen_sh_bls12_377
import GnarkVerif.Props.C17_gen_ff_bls12_377
import GnarkVerif.Props.C17_gen_sh_bls12_381
import GnarkVerif.Props.C17_gen_ff_bls12_381
import GnarkVerif.Props.C17_gen_sh_bls24_315
import GnarkVerif.Props.C17_gen_ff_bls24_315
import GnarkVerif.Props.C17_gen_sh_bls24_317
import GnarkVerif.Props.C17_gen_ff_bls24_317
import GnarkVerif.Props.C17_gen_sh_bw6_633
import GnarkVerif.Props.C17_gen_ff_bw6_633
import GnarkVerif.Props.C17_gen_sh_bw6_761
import GnarkVerif.Props.C17_gen_ff_bw6_761
/-
C17 tie T (SHPLONK BatchVerify): see Props/C17_gen_sh_<curve>.lean. This root module only collects the 7 instances.
-/
