import GnarkVerif.Props.C14_gen_p2_bn254
import GnarkVerif.Props.C14_gen_p2_bls12_381
import GnarkVerif.Props.C14_gen_p2_bls12_377
import GnarkVerif.Props.C14_gen_p2_bw6_761
import GnarkVerif.Props.C14_gen_p2_bls24_315
import GnarkVerif.Props.C14_gen_p2_bls24_317
import GnarkVerif.Props.C14_gen_p2_bw6_633
import GnarkVerif.Props.C14_gen_p2_grumpkin
import GnarkVerif.Props.C14_gen_p2_koalabear
import GnarkVerif.Props.C14_gen_p2_babybear
import GnarkVerif.Props.C14_gen_p2_goldilocks
import GnarkVerif.Props.C14_gen_mimc_bn254
import GnarkVerif.Props.C14_gen_mimc_bls12_381
import GnarkVerif.Props.C14_gen_mimc_bls12_377
import GnarkVerif.Props.C14_gen_mimc_bw6_761
import GnarkVerif.Props.C14_gen_mimc_bls24_315
import GnarkVerif.Props.C14_gen_mimc_bls24_317
import GnarkVerif.Props.C14_gen_mimc_bw6_633
import GnarkVerif.Props.C14_gen_mimc_grumpkin
/- C14 (tie T): the theorems about the Poseidon2 layers and the MiMC block cipher that tools/goslp regenerates from the Go
   source on every run (Gen/Hash/*.lean). This module only imports the per-package files; written by bin/mkc14gen.py.
   19 packages, 173 theorems (listed with their axioms in Audit/C14_gen.lean). -/
