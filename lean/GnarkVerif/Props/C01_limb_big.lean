import GnarkVerif.Props.C01_limb_bw6_633_fp
import GnarkVerif.Props.C01_limb_bw6_761_fp
/- C01_limb, 10- and 12-limb fields: per-round theorems only (see the PARTIAL note in each file); ~8 min per file -/
