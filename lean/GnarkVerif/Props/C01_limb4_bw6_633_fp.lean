import GnarkVerif.Props.C01_limb_bw6_633_fp
import GnarkVerif.Proofs.Limb4
import GnarkVerif.Gen.Limb.Bw6_633_fpX
/-
C01_limb4 (bw6_633_fp, 10 limbs) — the second batch of word-level Go code of the package (Gen/Limb/Bw6_633_fpX.lean, regenerated on every
run by tools/goslp/limb.go) computes the value-level model `GV.Field` on ALL inputs (every limb `< 2^64`; canonical `val < q` where
the Go code assumes it). `val [l0, …] = Σ lᵢ·2^(64·i)`; `P` = the parameter set of the regenerated constants `GV.Gen.bw6_633_fp`.
-/
set_option maxRecDepth 100000
set_option maxHeartbeats 4000000

namespace GV.Limb.bw6_633_fp
open GV.Field GV.Limb GV.Gen.Limb.bw6_633_fp

/-- `IsZero` (OR of all limbs) is `val z = 0`, for all limbs -/
theorem IsZero_iff (z0 z1 z2 z3 z4 z5 z6 z7 z8 z9 : Nat) : Gen.Limb.bw6_633_fp.IsZero z0 z1 z2 z3 z4 z5 z6 z7 z8 z9 ↔ val [z0, z1, z2, z3, z4, z5, z6, z7, z8, z9] = 0 := by
  unfold Gen.Limb.bw6_633_fp.IsZero
  simp only [Nat.or_eq_zero_iff]
  rw [val_eq_zero_iff]
  constructor
  · rintro ⟨⟨⟨⟨⟨⟨⟨⟨⟨e9, e8⟩, e7⟩, e6⟩, e5⟩, e4⟩, e3⟩, e2⟩, e1⟩, e0⟩
    intro a ha; simp only [List.mem_cons, List.not_mem_nil, or_false] at ha; rcases ha with rfl | rfl | rfl | rfl | rfl | rfl | rfl | rfl | rfl | rfl <;> assumption
  · intro h
    exact ⟨⟨⟨⟨⟨⟨⟨⟨⟨h z9 (by simp), h z8 (by simp)⟩, h z7 (by simp)⟩, h z6 (by simp)⟩, h z5 (by simp)⟩, h z4 (by simp)⟩, h z3 (by simp)⟩, h z2 (by simp)⟩, h z1 (by simp)⟩, h z0 (by simp)⟩

/-- the literal limbs of `IsOne` are the Montgomery form of 1 (`R mod q` of the regenerated modulus) -/
theorem one_limbs : val [5665001492438840506, 16907884053554239805, 17318295036095996852, 12638729832353218866, 12856030952767240260, 15732028589390776959, 1038965607738428109, 8411601626847721258, 7016548280614581879, 51212299585931083] = GV.Field.one P := by decide +kernel

/-- `IsOne` (OR of the XORs with the limbs of `one`) is `val z = R mod q` -/
theorem IsOne_iff (z0 z1 z2 z3 z4 z5 z6 z7 z8 z9 : Nat) (hz0 : z0 < 18446744073709551616) (hz1 : z1 < 18446744073709551616) (hz2 : z2 < 18446744073709551616) (hz3 : z3 < 18446744073709551616) (hz4 : z4 < 18446744073709551616) (hz5 : z5 < 18446744073709551616) (hz6 : z6 < 18446744073709551616) (hz7 : z7 < 18446744073709551616) (hz8 : z8 < 18446744073709551616) (hz9 : z9 < 18446744073709551616) : Gen.Limb.bw6_633_fp.IsOne z0 z1 z2 z3 z4 z5 z6 z7 z8 z9 ↔ val [z0, z1, z2, z3, z4, z5, z6, z7, z8, z9] = GV.Field.one P := by
  unfold Gen.Limb.bw6_633_fp.IsOne
  simp only [Nat.or_eq_zero_iff, xor_eq_zero]
  rw [← one_limbs, val_eq_iff _ _ (by rfl) (by intro a ha; simp only [List.mem_cons, List.not_mem_nil, or_false] at ha; rcases ha with rfl | rfl | rfl | rfl | rfl | rfl | rfl | rfl | rfl | rfl <;> assumption) (by intro a ha; simp only [List.mem_cons, List.not_mem_nil, or_false] at ha; rcases ha with rfl | rfl | rfl | rfl | rfl | rfl | rfl | rfl | rfl | rfl <;> decide)]
  simp only [List.cons.injEq, and_true]
  constructor
  · rintro ⟨⟨⟨⟨⟨⟨⟨⟨⟨e9, e8⟩, e7⟩, e6⟩, e5⟩, e4⟩, e3⟩, e2⟩, e1⟩, e0⟩
    exact ⟨e0, e1, e2, e3, e4, e5, e6, e7, e8, e9⟩
  · rintro ⟨e0, e1, e2, e3, e4, e5, e6, e7, e8, e9⟩
    exact ⟨⟨⟨⟨⟨⟨⟨⟨⟨e9, e8⟩, e7⟩, e6⟩, e5⟩, e4⟩, e3⟩, e2⟩, e1⟩, e0⟩

/-- `NotEqual` (OR of the limb-wise XORs) is zero exactly when the values are equal -/
theorem NotEqual_eq_zero_iff (z0 z1 z2 z3 z4 z5 z6 z7 z8 z9 x0 x1 x2 x3 x4 x5 x6 x7 x8 x9 : Nat) (hz0 : z0 < 18446744073709551616) (hz1 : z1 < 18446744073709551616) (hz2 : z2 < 18446744073709551616) (hz3 : z3 < 18446744073709551616) (hz4 : z4 < 18446744073709551616) (hz5 : z5 < 18446744073709551616) (hz6 : z6 < 18446744073709551616) (hz7 : z7 < 18446744073709551616) (hz8 : z8 < 18446744073709551616) (hz9 : z9 < 18446744073709551616) (hx0 : x0 < 18446744073709551616) (hx1 : x1 < 18446744073709551616) (hx2 : x2 < 18446744073709551616) (hx3 : x3 < 18446744073709551616) (hx4 : x4 < 18446744073709551616) (hx5 : x5 < 18446744073709551616) (hx6 : x6 < 18446744073709551616) (hx7 : x7 < 18446744073709551616) (hx8 : x8 < 18446744073709551616) (hx9 : x9 < 18446744073709551616) :
    Gen.Limb.bw6_633_fp.NotEqual z0 z1 z2 z3 z4 z5 z6 z7 z8 z9 x0 x1 x2 x3 x4 x5 x6 x7 x8 x9 = 0 ↔ val [z0, z1, z2, z3, z4, z5, z6, z7, z8, z9] = val [x0, x1, x2, x3, x4, x5, x6, x7, x8, x9] := by
  unfold Gen.Limb.bw6_633_fp.NotEqual
  simp only [Nat.or_eq_zero_iff, xor_eq_zero]
  rw [val_eq_iff _ _ (by rfl) (by intro a ha; simp only [List.mem_cons, List.not_mem_nil, or_false] at ha; rcases ha with rfl | rfl | rfl | rfl | rfl | rfl | rfl | rfl | rfl | rfl <;> assumption) (by intro a ha; simp only [List.mem_cons, List.not_mem_nil, or_false] at ha; rcases ha with rfl | rfl | rfl | rfl | rfl | rfl | rfl | rfl | rfl | rfl <;> assumption)]
  simp only [List.cons.injEq, and_true]
  constructor
  · rintro ⟨⟨⟨⟨⟨⟨⟨⟨⟨e9, e8⟩, e7⟩, e6⟩, e5⟩, e4⟩, e3⟩, e2⟩, e1⟩, e0⟩
    exact ⟨e0, e1, e2, e3, e4, e5, e6, e7, e8, e9⟩
  · rintro ⟨e0, e1, e2, e3, e4, e5, e6, e7, e8, e9⟩
    exact ⟨⟨⟨⟨⟨⟨⟨⟨⟨e9, e8⟩, e7⟩, e6⟩, e5⟩, e4⟩, e3⟩, e2⟩, e1⟩, e0⟩

theorem NotEqual_ne_zero_iff (z0 z1 z2 z3 z4 z5 z6 z7 z8 z9 x0 x1 x2 x3 x4 x5 x6 x7 x8 x9 : Nat) (hz0 : z0 < 18446744073709551616) (hz1 : z1 < 18446744073709551616) (hz2 : z2 < 18446744073709551616) (hz3 : z3 < 18446744073709551616) (hz4 : z4 < 18446744073709551616) (hz5 : z5 < 18446744073709551616) (hz6 : z6 < 18446744073709551616) (hz7 : z7 < 18446744073709551616) (hz8 : z8 < 18446744073709551616) (hz9 : z9 < 18446744073709551616) (hx0 : x0 < 18446744073709551616) (hx1 : x1 < 18446744073709551616) (hx2 : x2 < 18446744073709551616) (hx3 : x3 < 18446744073709551616) (hx4 : x4 < 18446744073709551616) (hx5 : x5 < 18446744073709551616) (hx6 : x6 < 18446744073709551616) (hx7 : x7 < 18446744073709551616) (hx8 : x8 < 18446744073709551616) (hx9 : x9 < 18446744073709551616) :
    Gen.Limb.bw6_633_fp.NotEqual z0 z1 z2 z3 z4 z5 z6 z7 z8 z9 x0 x1 x2 x3 x4 x5 x6 x7 x8 x9 ≠ 0 ↔ val [z0, z1, z2, z3, z4, z5, z6, z7, z8, z9] ≠ val [x0, x1, x2, x3, x4, x5, x6, x7, x8, x9] :=
  not_congr (NotEqual_eq_zero_iff z0 z1 z2 z3 z4 z5 z6 z7 z8 z9 x0 x1 x2 x3 x4 x5 x6 x7 x8 x9 hz0 hz1 hz2 hz3 hz4 hz5 hz6 hz7 hz8 hz9 hx0 hx1 hx2 hx3 hx4 hx5 hx6 hx7 hx8 hx9)

/-- `Equal` is `NotEqual = 0`, hence equality of the values -/
theorem Equal_iff (z0 z1 z2 z3 z4 z5 z6 z7 z8 z9 x0 x1 x2 x3 x4 x5 x6 x7 x8 x9 : Nat) (hz0 : z0 < 18446744073709551616) (hz1 : z1 < 18446744073709551616) (hz2 : z2 < 18446744073709551616) (hz3 : z3 < 18446744073709551616) (hz4 : z4 < 18446744073709551616) (hz5 : z5 < 18446744073709551616) (hz6 : z6 < 18446744073709551616) (hz7 : z7 < 18446744073709551616) (hz8 : z8 < 18446744073709551616) (hz9 : z9 < 18446744073709551616) (hx0 : x0 < 18446744073709551616) (hx1 : x1 < 18446744073709551616) (hx2 : x2 < 18446744073709551616) (hx3 : x3 < 18446744073709551616) (hx4 : x4 < 18446744073709551616) (hx5 : x5 < 18446744073709551616) (hx6 : x6 < 18446744073709551616) (hx7 : x7 < 18446744073709551616) (hx8 : x8 < 18446744073709551616) (hx9 : x9 < 18446744073709551616) :
    Gen.Limb.bw6_633_fp.Equal z0 z1 z2 z3 z4 z5 z6 z7 z8 z9 x0 x1 x2 x3 x4 x5 x6 x7 x8 x9 ↔ val [z0, z1, z2, z3, z4, z5, z6, z7, z8, z9] = val [x0, x1, x2, x3, x4, x5, x6, x7, x8, x9] :=
  NotEqual_eq_zero_iff z0 z1 z2 z3 z4 z5 z6 z7 z8 z9 x0 x1 x2 x3 x4 x5 x6 x7 x8 x9 hz0 hz1 hz2 hz3 hz4 hz5 hz6 hz7 hz8 hz9 hx0 hx1 hx2 hx3 hx4 hx5 hx6 hx7 hx8 hx9

/- PARTIAL (10 limbs). The value-level statements of fromMont, LexicographicallyLargest, Cmp, MulBy3, MulBy5, butterflyGeneric are NOT PROVED for this field: they need the composed
first-batch theorems `Add_spec` / `Double_spec` / `Sub_spec` / `fromMontGeneric_spec`, which do not exist for the 10- and 12-limb
fields (per-round `Mul` theorems only, see Props/C01_limb_bw6_633_fp.lean). What IS proved below, about the regenerated word programs:
the STRUCTURE — `LexicographicallyLargest` = the borrow chain against the `(q+1)/2` limbs of the regenerated modulus applied to
`fromMontGeneric`, and that chain is `¬ value < (q+1)/2`; `Cmp` = the most-significant-word-first comparison of two `fromMontGeneric`
results, and that comparison is the three-way comparison of the values; `MulBy3` = `Add (Double x) x`, `MulBy5` = `Add (Double (Double x)) x`,
`butterflyGeneric` = `(Add a b, Sub a b)`, `fromMont` = `fromMontGeneric` as word programs. -/

/-- the inlined copy of `_fromMontGeneric` is the first batch's (segmented) `fromMontGeneric`: same word program -/
theorem fromMont_eq (z0 z1 z2 z3 z4 z5 z6 z7 z8 z9 : Nat) : Gen.Limb.bw6_633_fp.fromMont z0 z1 z2 z3 z4 z5 z6 z7 z8 z9 = fromMontGeneric z0 z1 z2 z3 z4 z5 z6 z7 z8 z9 := by limb_kernel_rfl

/-- the borrow chain `bits.Sub64(_z[i], (q+1)/2 limb i, b)` of `LexicographicallyLargest`, on the regular value `r` -/
def lexTail (r : Nat × Nat × Nat × Nat × Nat × Nat × Nat × Nat × Nat × Nat) : Prop :=
  (subB r.2.2.2.2.2.2.2.2.2 41431377869647793 (subB r.2.2.2.2.2.2.2.2.1 18306300874381301082 (subB r.2.2.2.2.2.2.2.1 15311794958495443299 (subB r.2.2.2.2.2.2.1 12046209044522593559 (subB r.2.2.2.2.2.1 13882719000232677960 (subB r.2.2.2.2.1 6660067038095654436 (subB r.2.2.2.1 13765045726664905219 (subB r.2.2.1 16995150394560405778 (subB r.2.1 11428814144797932446 (subB r.1 7756477793448755207 0)))))))))) = 0

/-- the literal limbs subtracted by `LexicographicallyLargest` are `(q+1)/2` of the regenerated modulus -/
theorem half_limbs : val [7756477793448755207, 11428814144797932446, 16995150394560405778, 13765045726664905219, 6660067038095654436, 13882719000232677960, 12046209044522593559, 15311794958495443299, 18306300874381301082, 41431377869647793] = (P.q + 1) / 2 := by decide +kernel

/-- `LexicographicallyLargest` = `fromMont`, then the borrow chain against the `(q+1)/2` limbs -/
theorem LexicographicallyLargest_eq (z0 z1 z2 z3 z4 z5 z6 z7 z8 z9 : Nat) :
    Gen.Limb.bw6_633_fp.LexicographicallyLargest z0 z1 z2 z3 z4 z5 z6 z7 z8 z9 = lexTail (fromMontGeneric z0 z1 z2 z3 z4 z5 z6 z7 z8 z9) := by limb_kernel_rfl

theorem lexTail_iff (r : Nat × Nat × Nat × Nat × Nat × Nat × Nat × Nat × Nat × Nat) (g : Good r) : lexTail r ↔ ¬ (tval r < (P.q + 1) / 2) := by
  show borrowChain [r.1, r.2.1, r.2.2.1, r.2.2.2.1, r.2.2.2.2.1, r.2.2.2.2.2.1, r.2.2.2.2.2.2.1, r.2.2.2.2.2.2.2.1, r.2.2.2.2.2.2.2.2.1, r.2.2.2.2.2.2.2.2.2] [7756477793448755207, 11428814144797932446, 16995150394560405778, 13765045726664905219, 6660067038095654436, 13882719000232677960, 12046209044522593559, 15311794958495443299, 18306300874381301082, 41431377869647793] 0 = 0 ↔ _
  rw [borrowChain_eq _ _ _ (by rfl) (by intro a ha; simp only [List.mem_cons, List.not_mem_nil, or_false] at ha; rcases ha with rfl | rfl | rfl | rfl | rfl | rfl | rfl | rfl | rfl | rfl <;> first | exact g.1 | exact g.2.1 | exact g.2.2.1 | exact g.2.2.2.1 | exact g.2.2.2.2.1 | exact g.2.2.2.2.2.1 | exact g.2.2.2.2.2.2.1 | exact g.2.2.2.2.2.2.2.1 | exact g.2.2.2.2.2.2.2.2.1 | exact g.2.2.2.2.2.2.2.2.2)
    (by intro a ha; simp only [List.mem_cons, List.not_mem_nil, or_false] at ha; rcases ha with rfl | rfl | rfl | rfl | rfl | rfl | rfl | rfl | rfl | rfl <;> decide) (by omega), half_limbs, Nat.add_zero]
  split <;> simp [*]

/-- the word comparison of `Cmp` (most significant word decides; `-1` is `2^64 - 1`) on two regular values -/
def cmpTail (a b : Nat × Nat × Nat × Nat × Nat × Nat × Nat × Nat × Nat × Nat) : Nat :=
  (if a.2.2.2.2.2.2.2.2.2 > b.2.2.2.2.2.2.2.2.2 then 1 else if a.2.2.2.2.2.2.2.2.2 < b.2.2.2.2.2.2.2.2.2 then 18446744073709551615 else (if a.2.2.2.2.2.2.2.2.1 > b.2.2.2.2.2.2.2.2.1 then 1 else if a.2.2.2.2.2.2.2.2.1 < b.2.2.2.2.2.2.2.2.1 then 18446744073709551615 else (if a.2.2.2.2.2.2.2.1 > b.2.2.2.2.2.2.2.1 then 1 else if a.2.2.2.2.2.2.2.1 < b.2.2.2.2.2.2.2.1 then 18446744073709551615 else (if a.2.2.2.2.2.2.1 > b.2.2.2.2.2.2.1 then 1 else if a.2.2.2.2.2.2.1 < b.2.2.2.2.2.2.1 then 18446744073709551615 else (if a.2.2.2.2.2.1 > b.2.2.2.2.2.1 then 1 else if a.2.2.2.2.2.1 < b.2.2.2.2.2.1 then 18446744073709551615 else (if a.2.2.2.2.1 > b.2.2.2.2.1 then 1 else if a.2.2.2.2.1 < b.2.2.2.2.1 then 18446744073709551615 else (if a.2.2.2.1 > b.2.2.2.1 then 1 else if a.2.2.2.1 < b.2.2.2.1 then 18446744073709551615 else (if a.2.2.1 > b.2.2.1 then 1 else if a.2.2.1 < b.2.2.1 then 18446744073709551615 else (if a.2.1 > b.2.1 then 1 else if a.2.1 < b.2.1 then 18446744073709551615 else (if a.1 > b.1 then 1 else if a.1 < b.1 then 18446744073709551615 else 0))))))))))

/-- `Cmp` = `fromMont` of both operands, then the word comparison -/
theorem Cmp_eq (z0 z1 z2 z3 z4 z5 z6 z7 z8 z9 x0 x1 x2 x3 x4 x5 x6 x7 x8 x9 : Nat) :
    Gen.Limb.bw6_633_fp.Cmp z0 z1 z2 z3 z4 z5 z6 z7 z8 z9 x0 x1 x2 x3 x4 x5 x6 x7 x8 x9 = cmpTail (fromMontGeneric z0 z1 z2 z3 z4 z5 z6 z7 z8 z9) (fromMontGeneric x0 x1 x2 x3 x4 x5 x6 x7 x8 x9) := by limb_kernel_rfl

theorem cmpTail_eq (a b : Nat × Nat × Nat × Nat × Nat × Nat × Nat × Nat × Nat × Nat) (ga : Good a) (gb : Good b) :
    cmpTail a b = if tval a < tval b then 18446744073709551615 else if tval a > tval b then 1 else 0 := by
  show cmpChain [a.1, a.2.1, a.2.2.1, a.2.2.2.1, a.2.2.2.2.1, a.2.2.2.2.2.1, a.2.2.2.2.2.2.1, a.2.2.2.2.2.2.2.1, a.2.2.2.2.2.2.2.2.1, a.2.2.2.2.2.2.2.2.2] [b.1, b.2.1, b.2.2.1, b.2.2.2.1, b.2.2.2.2.1, b.2.2.2.2.2.1, b.2.2.2.2.2.2.1, b.2.2.2.2.2.2.2.1, b.2.2.2.2.2.2.2.2.1, b.2.2.2.2.2.2.2.2.2] 0 = _
  exact cmpChain_eq _ _ _ (by rfl)
    (by intro a ha; simp only [List.mem_cons, List.not_mem_nil, or_false] at ha; rcases ha with rfl | rfl | rfl | rfl | rfl | rfl | rfl | rfl | rfl | rfl <;> first | exact ga.1 | exact ga.2.1 | exact ga.2.2.1 | exact ga.2.2.2.1 | exact ga.2.2.2.2.1 | exact ga.2.2.2.2.2.1 | exact ga.2.2.2.2.2.2.1 | exact ga.2.2.2.2.2.2.2.1 | exact ga.2.2.2.2.2.2.2.2.1 | exact ga.2.2.2.2.2.2.2.2.2)
    (by intro a ha; simp only [List.mem_cons, List.not_mem_nil, or_false] at ha; rcases ha with rfl | rfl | rfl | rfl | rfl | rfl | rfl | rfl | rfl | rfl <;> first | exact gb.1 | exact gb.2.1 | exact gb.2.2.1 | exact gb.2.2.2.1 | exact gb.2.2.2.2.1 | exact gb.2.2.2.2.2.1 | exact gb.2.2.2.2.2.2.1 | exact gb.2.2.2.2.2.2.2.1 | exact gb.2.2.2.2.2.2.2.2.1 | exact gb.2.2.2.2.2.2.2.2.2)

/-- `Add` / `Double` on limb tuples -/
def addT (a b : Nat × Nat × Nat × Nat × Nat × Nat × Nat × Nat × Nat × Nat) : Nat × Nat × Nat × Nat × Nat × Nat × Nat × Nat × Nat × Nat := Gen.Limb.bw6_633_fp.Add a.1 a.2.1 a.2.2.1 a.2.2.2.1 a.2.2.2.2.1 a.2.2.2.2.2.1 a.2.2.2.2.2.2.1 a.2.2.2.2.2.2.2.1 a.2.2.2.2.2.2.2.2.1 a.2.2.2.2.2.2.2.2.2 b.1 b.2.1 b.2.2.1 b.2.2.2.1 b.2.2.2.2.1 b.2.2.2.2.2.1 b.2.2.2.2.2.2.1 b.2.2.2.2.2.2.2.1 b.2.2.2.2.2.2.2.2.1 b.2.2.2.2.2.2.2.2.2
def dblT (a : Nat × Nat × Nat × Nat × Nat × Nat × Nat × Nat × Nat × Nat) : Nat × Nat × Nat × Nat × Nat × Nat × Nat × Nat × Nat × Nat := Gen.Limb.bw6_633_fp.Double a.1 a.2.1 a.2.2.1 a.2.2.2.1 a.2.2.2.2.1 a.2.2.2.2.2.1 a.2.2.2.2.2.2.1 a.2.2.2.2.2.2.2.1 a.2.2.2.2.2.2.2.2.1 a.2.2.2.2.2.2.2.2.2

/-- `MulBy3` is `Double` then `Add` (same word program) -/
theorem MulBy3_eq (x0 x1 x2 x3 x4 x5 x6 x7 x8 x9 : Nat) : Gen.Limb.bw6_633_fp.MulBy3 x0 x1 x2 x3 x4 x5 x6 x7 x8 x9 = addT (dblT (x0, x1, x2, x3, x4, x5, x6, x7, x8, x9)) (x0, x1, x2, x3, x4, x5, x6, x7, x8, x9) := by limb_kernel_rfl

/-- `MulBy5` is `Double`, `Double`, `Add` -/
theorem MulBy5_eq (x0 x1 x2 x3 x4 x5 x6 x7 x8 x9 : Nat) : Gen.Limb.bw6_633_fp.MulBy5 x0 x1 x2 x3 x4 x5 x6 x7 x8 x9 = addT (dblT (dblT (x0, x1, x2, x3, x4, x5, x6, x7, x8, x9))) (x0, x1, x2, x3, x4, x5, x6, x7, x8, x9) := by limb_kernel_rfl

/-- `_butterflyGeneric(a, b)` is `(Add a b, Sub a b)` (same word program; `a` is read before it is overwritten) -/
theorem butterflyGeneric_eq (a0 a1 a2 a3 a4 a5 a6 a7 a8 a9 b0 b1 b2 b3 b4 b5 b6 b7 b8 b9 : Nat) : Gen.Limb.bw6_633_fp.butterflyGeneric a0 a1 a2 a3 a4 a5 a6 a7 a8 a9 b0 b1 b2 b3 b4 b5 b6 b7 b8 b9 =
    (fun s d : Nat × Nat × Nat × Nat × Nat × Nat × Nat × Nat × Nat × Nat => (s.1, s.2.1, s.2.2.1, s.2.2.2.1, s.2.2.2.2.1, s.2.2.2.2.2.1, s.2.2.2.2.2.2.1, s.2.2.2.2.2.2.2.1, s.2.2.2.2.2.2.2.2.1, s.2.2.2.2.2.2.2.2.2, d.1, d.2.1, d.2.2.1, d.2.2.2.1, d.2.2.2.2.1, d.2.2.2.2.2.1, d.2.2.2.2.2.2.1, d.2.2.2.2.2.2.2.1, d.2.2.2.2.2.2.2.2.1, d.2.2.2.2.2.2.2.2.2)) (Gen.Limb.bw6_633_fp.Add a0 a1 a2 a3 a4 a5 a6 a7 a8 a9 b0 b1 b2 b3 b4 b5 b6 b7 b8 b9) (Gen.Limb.bw6_633_fp.Sub a0 a1 a2 a3 a4 a5 a6 a7 a8 a9 b0 b1 b2 b3 b4 b5 b6 b7 b8 b9) := by limb_kernel_rfl


/-! ### non-vacuity -/
example := (IsZero_iff 0 0 0 0 0 0 0 0 0 0).2 (by decide)
example := (IsOne_iff 5665001492438840506 16907884053554239805 17318295036095996852 12638729832353218866 12856030952767240260 15732028589390776959 1038965607738428109 8411601626847721258 7016548280614581879 51212299585931083 (by decide) (by decide) (by decide) (by decide) (by decide) (by decide) (by decide) (by decide) (by decide) (by decide)).2 one_limbs
example := (Equal_iff 5 0 0 0 0 0 0 0 0 0 5 0 0 0 0 0 0 0 0 0 (by decide) (by decide) (by decide) (by decide) (by decide) (by decide) (by decide) (by decide) (by decide) (by decide) (by decide) (by decide) (by decide) (by decide) (by decide) (by decide) (by decide) (by decide) (by decide) (by decide)).2 rfl

end GV.Limb.bw6_633_fp
