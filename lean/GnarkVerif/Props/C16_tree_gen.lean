import GnarkVerif.Proofs.MerkleTreeGen
import GnarkVerif.Props.C16_gen
/-
C16_tree_gen — tie T for the accumulator Merkle tree BUILDER of /repo/accumulator/merkletree/tree.go: `New`, `joinSubTrees`,
`joinAllSubTrees`, `Root`, `Push`, `Prove`, `SetIndex`, `PushSubTree` (and `ReadAll` of readers.go, for a reader that is a finite byte
stream which never fails: `readFull` of the generated file is the semantics given to `io.ReadFull`) are RE-TRANSLATED statement by statement on every run
(tools/goslp mode "imp" → Gen/Imp/MerkleTree.lean) and proved to REFINE `Tree` / `push` / `root` / `prove` / `setIndex` /
`pushSubTree` / `hrun` of Model/Merkle.lean, so that the theorems of Props/C16.lean (root = RFC 6962 tree hash of the pushed leaves,
`Prove` = leaf + audit path, honest proofs verify — here composed with the translated `VerifyProof` of Props/C16_gen —, cached
sub-trees give the same tree, observation calls leave no trace) are theorems about the translated Go text.

How the Go values are read (checked by the translator, fatal otherwise):
* `*subTree` (a struct with a field `next *subTree`) is the VALUE `List subTree` of the chain of nodes (nil = `[]`, head first,
  `p.next` = tail, `&subTree{next: q, …}` = cons).  Sound because nodes are immutable once shared: the only field writes
  (`t.head.sum = …` in `Push`) go through a pointer that was assigned `&subTree{…}` just before and has not been read as a value
  since (checked); every dereference is nil-guarded, or covered by an entry condition (`joinSubTrees`: a, b ≠ nil;
  `joinAllSubTrees`: t.head ≠ nil) that is checked at every call site, all callers in the package being translated functions.
* `[]byte` / `[][]byte` are values (`List`); a slice RESULT for which some return statement gives the literal nil is an `Option`
  (`Root`: nil for the empty tree; `Prove`: nil proof set), `append(x[:0:0], x...)` is the value of `x`.  `Prove` works on
  `make([][]byte, len(t.proofSet), …)` + `copy` (a copy into the make of the statement just before: checked) and ends with the
  element-wise copy loop `proofSet[i] = append(proofSet[i][:0:0], proofSet[i]...)` (an in-place write to a local that is only ever
  assigned `make` / `append` to itself: checked) — both are the identity on VALUES (`copy_replicate_self`, `proveLoop3_id`); that the
  returned slices share no memory with the tree is what these statements are for in Go, and is outside a by-value model (tie K, ops
  `acca`).
* `uint64` is `Nat` with explicit `% 2^64`, `1 << uint(h)` is `shl64`; `int` heights are `Int`.
* `if !t.proofTree { panic }` at the entry of `Prove` is the predicate `Prove.panics`; the def `Prove` describes the other calls.
* loops are recursion on a fuel argument (exhausted fuel = loop exit); every theorem holds for every fuel ≥ the number of sub-trees.

PARAMETERS: `leafSum(h, d)` / `nodeSum(h, a, b)` are the model's `hl` / `hn` (both are `sum(h, …)`, which Resets the hasher first;
source text pinned by `C16tree_abstract_pinned`); the hasher object is carried along unchanged.  Error values are identified by
their message / format string.

Abstraction `abs` (Proofs/MerkleTreeGen.lean): heights `.toNat`, `proofSet = leaf :: siblings`; invariant `Inv`: `cachedTree = false`
(never set in the package), heights ≥ 0, the proof set is empty while `currentIndex ≤ proofIndex` and in an empty tree.
BOUNDS (hypotheses, where uint64 arithmetic must not wrap and `1 << h` must not vanish): sub-tree heights < 64 and
`currentIndex + 1 < 2^64` (`Push`) resp. `h < 64`, `currentIndex + 2^h < 2^64` (`PushSubTree`); all of them follow from
"fewer than 2^63 leaves" for trees built from `New` (`C16tree_history`).
-/
namespace GV.MerkleTreeGen
open GV.GoImp GV.Merkle GV.Gen.Imp.MerkleTree GV.MerkleGen

variable (hl : B → B) (hn : B → B → B)

/-- the functions treated as parameters have the source text the abstraction was justified for -/
theorem C16tree_abstract_pinned : GV.Gen.Imp.MerkleTree.abstractSrc =
    [("leafSum", "{ return sum(h, data) }"),
     ("nodeSum", "{ return sum(h, a, b) }"),
     ("sum", "{ h.Reset() for _, d := range data { _, err := h.Write(d) if err != nil { panic(err) } } return h.Sum(nil) }")] := rfl

/-- `New(h)` is the empty tree of the model, satisfies the invariant and holds the hasher -/
theorem C16tree_new (h : Hash) : abs (New hl hn h) = ({} : Merkle.Tree B B) ∧ Inv (New hl hn h) ∧ (New hl hn h).hash = h :=
  new_eq hl hn h

/-- `Push(data)` is `push` of the model; the invariant is kept, the hasher object is the same -/
theorem C16tree_push (g : GTree) (data : B) (fuel : Nat) (hinv : Inv g) (hb : ∀ e ∈ (abs g).stack, e.1 < 64)
    (hc : g.currentIndex + 1 < 2^64) (hf : g.head.length ≤ fuel) :
    abs (Push hl hn g data fuel) = push hl hn (abs g) data ∧ Inv (Push hl hn g data fuel) ∧
      (Push hl hn g data fuel).hash = g.hash :=
  push_eq hl hn g data fuel hinv hb hc hf

/-- `Root()` is `root` of the model (nil ↦ none) -/
theorem C16tree_root (g : GTree) (fuel : Nat) (hinv : Inv g) (hf : g.head.length ≤ fuel) :
    Root hl hn g fuel = root hn (abs g) :=
  root_eq hl hn g fuel hinv.2.1 hf

/-- `Prove()` (on a tree with `proofTree`, else it panics: `Prove.panics`) returns the model's answer: root, proof set
`leaf :: siblings` (nil when the model has no leaf), proof index, number of leaves -/
theorem C16tree_prove (g : GTree) (f1 f2 f3 f4 : Nat) (hinv : Inv g)
    (h1 : g.head.length ≤ f1) (h2 : g.head.length ≤ f2) (h3 : g.head.length ≤ f3) (h4 : g.head.length ≤ f4) :
    Prove hl hn g f1 f2 f3 f4 = proveOut (prove hn (abs g)) ∧ Prove.panics g = !(abs g).proofTree :=
  ⟨prove_eq hl hn g f1 f2 f3 f4 hinv h1 h2 h3 h4, rfl⟩

/-- `SetIndex(i)` is `setIndex` of the model: accepted exactly on an empty tree; refused = the tree untouched -/
theorem C16tree_setIndex (g : GTree) (i : Nat) (hinv : Inv g) :
    (match setIndex (abs g) i with
     | some t' => (SetIndex hl hn g i).2 = Err.nil ∧ abs (SetIndex hl hn g i).1 = t'
     | none => SetIndex hl hn g i = (g, Err.sentinel "cannot call SetIndex on Tree if Tree has not been reset")) ∧
    Inv (SetIndex hl hn g i).1 :=
  setIndex_eq hl hn g i hinv

/-- `PushSubTree(h, s)` is `pushSubTree` of the model: the two refusals (tree untouched) in the model's order, else the new tree -/
theorem C16tree_pushSubTree (g : GTree) (h : Nat) (s : B) (fuel : Nat) (hinv : Inv g) (hb : ∀ e ∈ (abs g).stack, e.1 < 64)
    (hh : h < 64) (hc : g.currentIndex + 2^h < 2^64) (hf : g.head.length ≤ fuel) :
    match pushSubTree hn (abs g) h s with
    | .ok t' => (PushSubTree hl hn g (h : Int) s fuel).2 = Err.nil ∧ abs (PushSubTree hl hn g (h : Int) s fuel).1 = t' ∧
        Inv (PushSubTree hl hn g (h : Int) s fuel).1 ∧ (PushSubTree hl hn g (h : Int) s fuel).1.hash = g.hash
    | .error .containsProofIndex =>
        PushSubTree hl hn g (h : Int) s fuel = (g, Err.sentinel "the cached tree shouldn't contain the element to prove")
    | .error .tooLarge =>
        PushSubTree hl hn g (h : Int) s fuel =
          (g, Err.sentinel "can't add a subtree that is larger than the smallest subtree %v > %v") :=
  pushSubTree_eq hl hn g h s fuel hinv hb hh hc hf

/-! non-vacuity of the hypotheses (`Inv`, the bounds, the fuel): the generated code run on a concrete tree with a toy hash
(leaf ↦ 0 :: d, node ↦ 1 :: a ++ b) — `SetIndex(2)`, five `Push`es, `Root` / `Prove`, and the translated `VerifyProof` accepts -/
example :
    let hl : B → B := fun d => 0 :: d
    let hn : B → B → B := fun a b => 1 :: (a ++ b)
    let L : List B := [[10], [11], [12], [13], [14]]
    let g0 := (SetIndex hl hn (New hl hn {}) 2).1
    let g := L.foldl (fun g d => Push hl hn g d 8) g0
    Inv g ∧ (∀ e ∈ (abs g).stack, e.1 < 64) ∧ g.currentIndex + 1 < 2^64 ∧ g.head.length ≤ 8 ∧
    Root hl hn g 8 = some (MTH hl hn L) ∧
    Prove hl hn g 8 8 8 8 = (some (MTH hl hn L), some (L[2] :: PATH hl hn L 2), 2, 5) ∧
    GV.Gen.Imp.MerkleVerify.VerifyProof hl hn {} (Prove hl hn g 8 8 8 8).1 ((Prove hl hn g 8 8 8 8).2.1.getD []) 2 5 64 = true ∧
    (PushSubTree hl hn g 1 [] 8).2 = Err.sentinel "can't add a subtree that is larger than the smallest subtree %v > %v" ∧
    (SetIndex hl hn g 0).2 = Err.sentinel "cannot call SetIndex on Tree if Tree has not been reset" := by
  refine ⟨⟨by decide, by decide, by decide, by decide⟩, by decide, by decide, by decide, by decide, by decide, by decide, by decide, by decide⟩

/-! ### histories: `Push` / `PushSubTree` / `Root()` / `Prove()` in any order, executed by the generated code (`gstep` / `grun` of
Proofs/MerkleTreeGen.lean: the calls `Push`, `PushSubTree(h, MTH X)`, `Root`, `Prove` with fuel `F` for every loop; `Root` and `Prove`
are translated as functions that do not return the receiver, because their text never assigns it) -/

/-- one call: same observation (refusals included), the new tree abstracts to the model's new tree, the invariant is kept -/
theorem C16tree_step (F : Nat) (g : GTree) (op : HOp B) (hinv : Inv g) (hb : ∀ e ∈ (abs g).stack, e.1 < 64)
    (hF : (abs g).stack.length ≤ F) (hop : BndOp (abs g) op) :
    (gstep hl hn F g op).2 = (hstep hl hn (abs g) op).2 ∧ abs (gstep hl hn F g op).1 = (hstep hl hn (abs g) op).1 ∧
      Inv (gstep hl hn F g op).1 :=
  gstep_eq hl hn F g op hinv hb hF hop

/-- every history, from every tree satisfying the invariant, as long as the bounds hold along the model's run (`BndRun`: heights < 64,
at most `F` sub-trees, no index overflow): the generated code returns the model's observations, in order, and ends in the model's tree -/
theorem C16tree_run (F : Nat) (ops : List (HOp B)) (g : GTree) (hinv : Inv g) (hb : BndRun hl hn F (abs g) ops) :
    (grun hl hn F g ops).2 = (hrun hl hn (abs g) ops).2 ∧ abs (grun hl hn F g ops).1 = (hrun hl hn (abs g) ops).1 ∧
      Inv (grun hl hn F g ops).1 :=
  grun_eq hl hn F ops g hinv hb

example :
    let hl : B → B := fun d => 0 :: d
    let hn : B → B → B := fun a b => 1 :: (a ++ b)
    let g := (SetIndex hl hn (New hl hn {}) 1).1
    let ops : List (HOp B) := [.root, .push [1], .prove, .push [2], .root, .sub 1 [[3], [4]], .sub 2 [[5], [6], [7], [8]], .prove, .root]
    Inv g ∧ BndRun hl hn 8 (abs g) ops ∧ (grun hl hn 8 g ops).2 = (hrun hl hn (abs g) ops).2 := by
  refine ⟨⟨by decide, by decide, by decide, by decide⟩, by simp only [BndRun, BndOp]; decide, by decide⟩

/-- (C16_history for the translated text) after `New` and `SetIndex(p)` (or none) and the leaves `L`, any well-formed history (cached
sub-trees = full aligned blocks that do not contain `p`) committing fewer than 2^63 leaves in total: every `Root()` of the generated code
returned the RFC 6962 tree hash of the leaves committed before it, every `Prove()` that root with the leaf at `p` and its audit path,
whatever was observed earlier; the final tree is the tree of pushing all committed leaves one by one.  Any fuel ≥ 63 will do. -/
theorem C16tree_history (p : Nat) (pt : Bool) (F : Nat) (hF : 63 ≤ F) (g : GTree) (L : List B) (hinv : Inv g)
    (hg : abs g = pushAll hl hn (⟨[], 0, p, none, [], pt⟩ : Merkle.Tree B B) L) (ops : List (HOp B))
    (hw : hwf (A := B) p L.length ops) (hlen : (L ++ hleaves ops).length < 2^63) :
    (grun hl hn F g ops).2 = hspec hl hn p L ops ∧
      abs (grun hl hn F g ops).1 = pushAll hl hn ⟨[], 0, p, none, [], pt⟩ (L ++ hleaves ops) ∧ Inv (grun hl hn F g ops).1 := by
  have hb := bndRun_init hl hn p pt F hF ops L hw hlen
  rw [show init0 p pt = (⟨[], 0, p, none, [], pt⟩ : Merkle.Tree B B) from rfl, ← hg] at hb
  obtain ⟨h1, h2, h3⟩ := grun_eq hl hn F ops g hinv hb
  rw [hg, C16_history hl hn p pt ops L hw] at h1 h2
  exact ⟨h1, h2, h3⟩

/-- the start states of `C16tree_history` exist: `New`, and `New` followed by `SetIndex(p)` -/
theorem C16tree_start (h : Hash) (p : Nat) :
    (Inv (New hl hn h) ∧ abs (New hl hn h) = pushAll hl hn (⟨[], 0, 0, none, [], false⟩ : Merkle.Tree B B) []) ∧
    (Inv (SetIndex hl hn (New hl hn h) p).1 ∧ (SetIndex hl hn (New hl hn h) p).2 = Err.nil ∧
      abs (SetIndex hl hn (New hl hn h) p).1 = pushAll hl hn (⟨[], 0, p, none, [], true⟩ : Merkle.Tree B B) []) := by
  refine ⟨⟨(new_eq hl hn h).2.1, rfl⟩, ?_, rfl, rfl⟩
  exact (setIndex_eq hl hn _ p (new_eq hl hn h).2.1).2

example :
    let ops : List (HOp B) := [.root, .push [1], .prove, .push [2], .root, .sub 1 [[3], [4]], .prove, .root]
    hwf (A := B) 1 ([] : List B).length ops ∧ (([] : List B) ++ hleaves ops).length < 2^63 := by
  refine ⟨by simp [hwf], by decide⟩

/-- (C16_root_eq_MTH for the translated text) `Root()` of the generated code on the tree of the leaves `L ≠ []`, fewer than 2^63 -/
theorem C16tree_root_eq_MTH (p : Nat) (pt : Bool) (F : Nat) (hF : 63 ≤ F) (g : GTree) (L : List B) (hinv : Inv g)
    (hg : abs g = pushAll hl hn (⟨[], 0, p, none, [], pt⟩ : Merkle.Tree B B) L) (hL : L ≠ []) (hlen : L.length < 2^63) :
    Root hl hn g F = some (MTH hl hn L) := by
  have hb := bnd_init hl hn p pt L hlen
  rw [show init0 p pt = (⟨[], 0, p, none, [], pt⟩ : Merkle.Tree B B) from rfl, ← hg] at hb
  rw [root_eq hl hn g F hinv.2.1 (by have := hb.2.1; simp [abs, absStack] at this; omega), hg]
  exact C16_root_eq_MTH hl hn L hL p pt

/-- (C16_prove_eq_PATH + C16_prove_verifies for the translated text, composed with `C16gen_verify`) on the tree of the leaves `L`
with `p < |L| < 2^63`, the generated `Prove()` returns the RFC 6962 root, the leaf at `p` followed by its audit path, `p` and `|L|`,
and the generated `VerifyProof` accepts exactly these four values (whatever the state of the hasher it is given) -/
theorem C16tree_prove_verifies (p : Nat) (pt : Bool) (F : Nat) (hF : 63 ≤ F) (g : GTree) (L : List B) (hinv : Inv g)
    (hg : abs g = pushAll hl hn (⟨[], 0, p, none, [], pt⟩ : Merkle.Tree B B) L) (hp : p < L.length) (hlen : L.length < 2^63)
    (h : Hash) (fuel : Nat) (hfuel : 64 ≤ fuel) :
    Prove hl hn g F F F F = (some (MTH hl hn L), some (L[p] :: PATH hl hn L p), p, L.length) ∧
    GV.Gen.Imp.MerkleVerify.VerifyProof hl hn h (Prove hl hn g F F F F).1 ((Prove hl hn g F F F F).2.1.getD [])
      (Prove hl hn g F F F F).2.2.1 (Prove hl hn g F F F F).2.2.2 fuel = true := by
  have hb := bnd_init hl hn p pt L hlen
  rw [show init0 p pt = (⟨[], 0, p, none, [], pt⟩ : Merkle.Tree B B) from rfl, ← hg] at hb
  have hF' : g.head.length ≤ F := by have := hb.2.1; simp [abs, absStack] at this; omega
  have e : Prove hl hn g F F F F = (some (MTH hl hn L), some (L[p] :: PATH hl hn L p), p, L.length) := by
    rw [prove_eq hl hn g F F F F hinv hF' hF' hF' hF', hg, C16_prove_eq_PATH hl hn L p hp pt]; rfl
  refine ⟨e, ?_⟩
  rw [e]
  exact C16gen_verify_complete hl hn h L p fuel hp hlen hfuel

/-! ### `ReadAll` (readers.go) -/

/-- (C16_readAll_is_push for the translated text) `ReadAll(r, seg)` of the generated code, for a reader that is the finite, never
failing byte stream `r` (`readFull` of the generated file: the semantics given to `io.ReadFull`) and `seg > 0`, on the tree of the
leaves `L`: returns nil and leaves the model's `readAll` tree — the stream cut into segments of `seg` bytes (the last one shorter,
not padded), pushed one by one.  `fuel` bounds the number of segments (any `fuel ≥ |r|`), `F2`, `F3` the loops of the two `Push`
call sites.  (`seg = 0`: the Go loop does not terminate — `io.ReadFull` on an empty buffer returns (0, nil) for ever; `seg < 0`:
`make` panics.) -/
theorem C16tree_readAll (p : Nat) (pt : Bool) (F2 F3 : Nat) (h2 : 63 ≤ F2) (h3 : 63 ≤ F3) (seg : Int) (hs : 0 < seg) (fuel : Nat)
    (g : GTree) (r : B) (L : List B) (hinv : Inv g) (hg : abs g = pushAll hl hn (⟨[], 0, p, none, [], pt⟩ : Merkle.Tree B B) L)
    (hf : r.length ≤ fuel) (hlen : L.length + fuel < 2^63) :
    (ReadAll hl hn g r seg fuel F2 F3).2 = Err.nil ∧ Inv (ReadAll hl hn g r seg fuel F2 F3).1 ∧
      abs (ReadAll hl hn g r seg fuel F2 F3).1 = readAll hl hn (abs g) r seg.toNat ∧
      abs (ReadAll hl hn g r seg fuel F2 F3).1 =
        pushAll hl hn ⟨[], 0, p, none, [], pt⟩ (L ++ chunks seg.toNat r.length r) := by
  obtain ⟨k1, k2, k3⟩ := readAll_eq hl hn p pt F2 F3 h2 h3 seg hs fuel g r L hinv hg hf hlen
  refine ⟨k1, k2, k3, ?_⟩
  rw [k3, hg, readAll, ← pushAll_append]

example :
    let hl : B → B := fun d => 0 :: d
    let hn : B → B → B := fun a b => 1 :: (a ++ b)
    let g := (SetIndex hl hn (New hl hn {}) 1).1
    let r : B := [1, 2, 3, 4, 5, 6, 7]
    Inv g ∧ abs g = pushAll hl hn (⟨[], 0, 1, none, [], true⟩ : Merkle.Tree B B) [] ∧
    (ReadAll hl hn g r 3 7 63 63).2 = Err.nil ∧
    Root hl hn (ReadAll hl hn g r 3 7 63 63).1 63 = some (MTH hl hn [[1, 2, 3], [4, 5, 6], [7]]) := by
  refine ⟨⟨by decide, by decide, by decide, by decide⟩, rfl, by decide, by decide⟩

end GV.MerkleTreeGen
