import GnarkVerif.Proofs.MerkleTreeGen
import GnarkVerif.Props.C16_gen
/-
C16_tree_gen — tie T for the accumulator Merkle tree BUILDER of /repo/accumulator/merkletree/tree.go: `New`, `joinSubTrees`,
`joinAllSubTrees`, `Root`, `Push`, `Prove`, `SetIndex`, `PushSubTree` are RE-TRANSLATED statement by statement on every run
(tools/goslp mode "imp" → Gen/Imp/MerkleTree.lean) and proved to REFINE `Tree` / `push` / `root` / `prove` / `setIndex` /
`pushSubTree` / `hrun` of Model/Merkle.lean, so that the theorems of Props/C16.lean (root = RFC 6962 tree hash of the pushed leaves,
`Prove` = leaf + audit path, honest proofs verify — here composed with the translated `VerifyProof` of Props/C16_gen —, cached
sub-trees give the same tree, observation calls leave no trace) are theorems about the translated Go text.

How the Go values are read (checked by the translator, fatal otherwise):
* `*subTree` (a struct with a field `next *subTree`) is the VALUE `List subTree` of the chain of nodes (nil = `[]`, head first,
  `p.next` = tail, `&subTree{next: q, …}` = cons).  Sound because nodes are immutable once shared: the only field writes
  (`t.head.sum = …` in `Push`) go through a pointer that was assigned `&subTree{…}` just before and has not been read as a value
  since (checked); every dereference is nil-guarded, or covered by an entry condition (`joinSubTrees`: a, b ≠ nil;
  `joinAllSubTrees`: t.head ≠ nil) that is checked at every call site, all callers in the package being translated functions.
* `[]byte` / `[][]byte` are values (`List`); a slice RESULT for which some return statement gives the literal nil is an `Option`
  (`Root`: nil for the empty tree; `Prove`: nil proof set), `append(x[:0:0], x...)` is the value of `x`.  A `Prove` result shares its
  backing array with `t.proofSet` in Go: what is proved is the value at the time `Prove` returns (see the remark in bin/props.py).
* `uint64` is `Nat` with explicit `% 2^64`, `1 << uint(h)` is `shl64`; `int` heights are `Int`.
* `if !t.proofTree { panic }` at the entry of `Prove` is the predicate `Prove.panics`; the def `Prove` describes the other calls.
* loops are recursion on a fuel argument (exhausted fuel = loop exit); every theorem holds for every fuel ≥ the number of sub-trees.

PARAMETERS: `leafSum(h, d)` / `nodeSum(h, a, b)` are the model's `hl` / `hn` (both are `sum(h, …)`, which Resets the hasher first;
source text pinned by `C16tree_abstract_pinned`); the hasher object is carried along unchanged.  Error values are identified by
their message / format string.

Abstraction `abs` (Proofs/MerkleTreeGen.lean): heights `.toNat`, `proofSet = leaf :: siblings`; invariant `Inv`: `cachedTree = false`
(never set in the package), heights ≥ 0, the proof set is empty while `currentIndex ≤ proofIndex` and in an empty tree.
BOUNDS (hypotheses, where uint64 arithmetic must not wrap and `1 << h` must not vanish): sub-tree heights < 64 and
`currentIndex + 1 < 2^64` (`Push`) resp. `h < 64`, `currentIndex + 2^h < 2^64` (`PushSubTree`); all of them follow from
"fewer than 2^63 leaves" for trees built from `New` (`C16tree_history`).
-/
namespace GV.MerkleTreeGen
open GV.GoImp GV.Merkle GV.Gen.Imp.MerkleTree GV.MerkleGen

variable (hl : B → B) (hn : B → B → B)

/-- the functions treated as parameters have the source text the abstraction was justified for -/
theorem C16tree_abstract_pinned : GV.Gen.Imp.MerkleTree.abstractSrc =
    [("leafSum", "{ return sum(h, data) }"),
     ("nodeSum", "{ return sum(h, a, b) }"),
     ("sum", "{ h.Reset() for _, d := range data { _, err := h.Write(d) if err != nil { panic(err) } } return h.Sum(nil) }")] := rfl

/-- `New(h)` is the empty tree of the model, satisfies the invariant and holds the hasher -/
theorem C16tree_new (h : Hash) : abs (New hl hn h) = ({} : Merkle.Tree B B) ∧ Inv (New hl hn h) ∧ (New hl hn h).hash = h :=
  new_eq hl hn h

/-- `Push(data)` is `push` of the model; the invariant is kept, the hasher object is the same -/
theorem C16tree_push (g : GTree) (data : B) (fuel : Nat) (hinv : Inv g) (hb : ∀ e ∈ (abs g).stack, e.1 < 64)
    (hc : g.currentIndex + 1 < 2^64) (hf : g.head.length ≤ fuel) :
    abs (Push hl hn g data fuel) = push hl hn (abs g) data ∧ Inv (Push hl hn g data fuel) ∧
      (Push hl hn g data fuel).hash = g.hash :=
  push_eq hl hn g data fuel hinv hb hc hf

/-- `Root()` is `root` of the model (nil ↦ none) -/
theorem C16tree_root (g : GTree) (fuel : Nat) (hinv : Inv g) (hf : g.head.length ≤ fuel) :
    Root hl hn g fuel = root hn (abs g) :=
  root_eq hl hn g fuel hinv.2.1 hf

/-- `Prove()` (on a tree with `proofTree`, else it panics: `Prove.panics`) returns the model's answer: root, proof set
`leaf :: siblings` (nil when the model has no leaf), proof index, number of leaves -/
theorem C16tree_prove (g : GTree) (f1 f2 f3 f4 : Nat) (hinv : Inv g)
    (h1 : g.head.length ≤ f1) (h2 : g.head.length ≤ f2) (h3 : g.head.length ≤ f3) (h4 : g.head.length ≤ f4) :
    Prove hl hn g f1 f2 f3 f4 = proveOut (prove hn (abs g)) ∧ Prove.panics g = !(abs g).proofTree :=
  ⟨prove_eq hl hn g f1 f2 f3 f4 hinv h1 h2 h3 h4, rfl⟩

/-- `SetIndex(i)` is `setIndex` of the model: accepted exactly on an empty tree; refused = the tree untouched -/
theorem C16tree_setIndex (g : GTree) (i : Nat) (hinv : Inv g) :
    (match setIndex (abs g) i with
     | some t' => (SetIndex hl hn g i).2 = Err.nil ∧ abs (SetIndex hl hn g i).1 = t'
     | none => SetIndex hl hn g i = (g, Err.sentinel "cannot call SetIndex on Tree if Tree has not been reset")) ∧
    Inv (SetIndex hl hn g i).1 :=
  setIndex_eq hl hn g i hinv

/-- `PushSubTree(h, s)` is `pushSubTree` of the model: the two refusals (tree untouched) in the model's order, else the new tree -/
theorem C16tree_pushSubTree (g : GTree) (h : Nat) (s : B) (fuel : Nat) (hinv : Inv g) (hb : ∀ e ∈ (abs g).stack, e.1 < 64)
    (hh : h < 64) (hc : g.currentIndex + 2^h < 2^64) (hf : g.head.length ≤ fuel) :
    match pushSubTree hn (abs g) h s with
    | .ok t' => (PushSubTree hl hn g (h : Int) s fuel).2 = Err.nil ∧ abs (PushSubTree hl hn g (h : Int) s fuel).1 = t' ∧
        Inv (PushSubTree hl hn g (h : Int) s fuel).1 ∧ (PushSubTree hl hn g (h : Int) s fuel).1.hash = g.hash
    | .error .containsProofIndex =>
        PushSubTree hl hn g (h : Int) s fuel = (g, Err.sentinel "the cached tree shouldn't contain the element to prove")
    | .error .tooLarge =>
        PushSubTree hl hn g (h : Int) s fuel =
          (g, Err.sentinel "can't add a subtree that is larger than the smallest subtree %v > %v") :=
  pushSubTree_eq hl hn g h s fuel hinv hb hh hc hf

/-! non-vacuity of the hypotheses (`Inv`, the bounds, the fuel): the generated code run on a concrete tree with a toy hash
(leaf ↦ 0 :: d, node ↦ 1 :: a ++ b) — `SetIndex(2)`, five `Push`es, `Root` / `Prove`, and the translated `VerifyProof` accepts -/
example :
    let hl : B → B := fun d => 0 :: d
    let hn : B → B → B := fun a b => 1 :: (a ++ b)
    let L : List B := [[10], [11], [12], [13], [14]]
    let g0 := (SetIndex hl hn (New hl hn {}) 2).1
    let g := L.foldl (fun g d => Push hl hn g d 8) g0
    Inv g ∧ (∀ e ∈ (abs g).stack, e.1 < 64) ∧ g.currentIndex + 1 < 2^64 ∧ g.head.length ≤ 8 ∧
    Root hl hn g 8 = some (MTH hl hn L) ∧
    Prove hl hn g 8 8 8 8 = (some (MTH hl hn L), some (L[2] :: PATH hl hn L 2), 2, 5) ∧
    GV.Gen.Imp.MerkleVerify.VerifyProof hl hn {} (Prove hl hn g 8 8 8 8).1 ((Prove hl hn g 8 8 8 8).2.1.getD []) 2 5 64 = true ∧
    (PushSubTree hl hn g 1 [] 8).2 = Err.sentinel "can't add a subtree that is larger than the smallest subtree %v > %v" ∧
    (SetIndex hl hn g 0).2 = Err.sentinel "cannot call SetIndex on Tree if Tree has not been reset" := by
  refine ⟨⟨by decide, by decide, by decide, by decide⟩, by decide, by decide, by decide, by decide, by decide, by decide, by decide, by decide⟩

end GV.MerkleTreeGen
