import GnarkVerif.Proofs.Alias
/-
C19 — receiver and operands may alias in every arithmetic method (value-level part).

Theorems about `GV.Alias` (Model/Alias.lean): method bodies are lists of atomic primitive updates over cell names, an
alias pattern maps parameters to objects. They hold for every value type, every interpretation of the primitive operations,
every alias pattern (every set partition of the parameters and more: any map), every initial memory and bodies of every length.

What ties this to the Go code: (T) the translator-generated per-method alias theorems (other slice of C19, built on the same
cell model) and (K) the reflection-driven correspondence `tools/harness/c19.go`, which calls every exported arithmetic method of
every field / tower / curve / twisted-Edwards / polynomial / vector type under every set partition of its pointer and slice
positions and compares with the call on fresh copies; the model side answers `same=1 ops=1` for every such line, which is exactly
`C19_result_depends_on_values` read as "a method is a function of its operand values".
-/
namespace GV.Alias

/-- (a) a body that passes the executable copy-in check is alias safe: under ANY alias pattern every receiver component (and every
local) ends with the value computed on pairwise distinct objects holding equal values, and every object that is not the
receiver's object – in particular every operand not aliased with the destination – is unchanged. -/
theorem C19_copyIn_aliasSafe (b : Body) (h : copyInOK b = true) : aliasSafe b := by
  intro V I π m
  obtain ⟨W', hsim⟩ := sim_run I π b [] m (pull π m) h (sim_init π m)
  exact ⟨fun f => hsim.recv f, fun k => hsim.loc k, fun o f ho => run_frame I π b [] m h o f ho⟩

example : copyInOK e2Mul = true := by decide
example : aliasSafe e2Mul := C19_copyIn_aliasSafe _ (by decide)
-- the model computes what it should: (3+4i)² = −7+24i with z, x, y all the same object
example : let m : Mem Int := fun c => match c with | .obj 7 0 => 3 | .obj 7 1 => 4 | _ => 0
    (run intOps (fun _ => 7) e2Mul m (.obj 7 0), run intOps (fun _ => 7) e2Mul m (.obj 7 1)) = (-7, 24) := by decide

/-- by-value reading of (a): the result of a checked body is a function of the operand VALUES – two calls under any two alias
patterns whose parameters hold the same values give the same receiver -/
theorem C19_result_depends_on_values (b : Body) (h : copyInOK b = true) {V : Type} (I : Nat → List V → V)
    (π π' : Pattern) (m m' : Mem V) (hp : ∀ i f, m (.obj (π i) f) = m' (.obj (π' i) f))
    (hl : ∀ k, m (.loc k) = m' (.loc k)) (f : Nat) :
    run I π b m (.obj (π 0) f) = run I π' b m' (.obj (π' 0) f) := by
  have e : pull π m = pull π' m' := by
    funext c
    cases c with
    | obj i g => exact hp i g
    | loc k => exact hl k
  rw [(C19_copyIn_aliasSafe b h V I π m).1 f, (C19_copyIn_aliasSafe b h V I π' m').1 f, e]

example : run intOps (fun _ => 7) e2Mul (fun c => match c with | .obj 7 0 => 3 | .obj 7 1 => 4 | _ => 0) (.obj 7 1)
    = run intOps id e2Mul (fun c => match c with | .obj 1 0 => 3 | .obj 1 1 => 4 | .obj 2 0 => 3 | .obj 2 1 => 4 | _ => 0) (.obj 0 1) := by
  decide

/-- (b) a single primitive `z.f := op(srcs…)` computed atomically (all reads before the write) is alias safe for every
pattern, whatever it reads – this is the contract of the limb-level primitives (`z.Mul(&x,&y)` on `fp.Element`) one level down -/
theorem C19_prim_aliasSafe (f op : Nat) (srcs : List Name) : aliasSafe [⟨.param 0 f, op, srcs⟩] := by
  apply C19_copyIn_aliasSafe
  have hs : srcs.all (srcOK []) = true := by
    rw [List.all_eq_true]
    intro s _
    cases s with
    | loc k => rfl
    | param i g => cases i <;> simp [srcOK]
  simp [copyInOK, copyInAux, hs]

/-- same for a primitive writing a local -/
theorem C19_prim_loc_aliasSafe (k op : Nat) (srcs : List Name) : aliasSafe [⟨.loc k, op, srcs⟩] := by
  apply C19_copyIn_aliasSafe
  have hs : srcs.all (srcOK []) = true := by
    rw [List.all_eq_true]
    intro s _
    cases s with
    | loc k => rfl
    | param i g => cases i <;> simp [srcOK]
  simp [copyInOK, copyInAux, hs]

example : aliasSafe [⟨.param 0 0, 1, [.param 1 0, .param 2 0, .param 0 0]⟩] := C19_prim_aliasSafe 0 1 _

/-- the textbook discipline (every parameter cell is read before the first write to a parameter cell) is a special case -/
theorem C19_strict_copyIn (b : Body) (h : copyInStrict b = true) : copyInOK b = true :=
  strict_aux b false [] (fun _ => rfl) h

theorem C19_strict_aliasSafe (b : Body) (h : copyInStrict b = true) : aliasSafe b :=
  C19_copyIn_aliasSafe b (C19_strict_copyIn b h)

-- E2.Mul re-reads z.A1 after writing it: fine for `copyInOK`, rejected by the coarse discipline
example : copyInStrict e2Mul = false := by decide
example : copyInStrict [⟨.loc 0, 1, [x0, y0]⟩, ⟨.loc 1, 1, [x1, y1]⟩, ⟨z0, 2, [.loc 0, .loc 1]⟩, ⟨z1, 0, [.loc 0, .loc 1]⟩] = true := by
  decide

/-- in-place vector operations: the element-wise loop `res[i] = op(a[i], b[i])`, of EVERY length, is alias safe when the
destination is one of the sources or both (res = a, res = b, res = a = b, a = b) -/
theorem C19_vec_aliasSafe (op n : Nat) : aliasSafe (vecBody op n) :=
  C19_copyIn_aliasSafe _ (vecFrom_ok op n 0 [] (fun _ h => by cases h))

example : vecBody 0 3 = [⟨.param 0 0, 0, [.param 1 0, .param 2 0]⟩, ⟨.param 0 1, 0, [.param 1 1, .param 2 1]⟩,
    ⟨.param 0 2, 0, [.param 1 2, .param 2 2]⟩] := rfl

/-! ### non-vacuity of the check: bodies it rejects, with a concrete difference -/

example : copyInOK naiveMul = false := by decide
example : copyInOK karabinaShape = false := by decide

/-- `naiveMul` writes `z.A0` and then reads `x.A0`: with z = x the imaginary part changes
((1+2i)(3+4i) = −5+10i on distinct objects, −5−14i when z is x) -/
theorem C19_naiveMul_not_aliasSafe : ¬ aliasSafe naiveMul := by
  intro h
  have := (h Int intOps (fun i => if i = 2 then 2 else 0)
    (fun c => match c with | .obj 0 0 => 1 | .obj 0 1 => 2 | .obj 2 0 => 3 | .obj 2 1 => 4 | _ => 0)).1 1
  revert this
  decide

example : run intOps (fun i => if i = 2 then 2 else 0) naiveMul
    (fun c => match c with | .obj 0 0 => 1 | .obj 0 1 => 2 | .obj 2 0 => 3 | .obj 2 1 => 4 | _ => 0) (.obj 0 1) = -14 := by decide
example : run intOps id naiveMul
    (fun c => match c with | .obj 1 0 => 1 | .obj 1 1 => 2 | .obj 2 0 => 3 | .obj 2 1 => 4 | _ => 0) (.obj 0 1) = 10 := by decide

/-- the `DecompressKarabina` shape (write `z.B1.A1`, then read `x.B1.A1`) is not alias safe either: the value of the
receiver depends on whether z is x (this is the defect the correspondence run reports for bw6-761/bw6-633 `E6` and
bls24-315/317 `E24`) -/
theorem C19_karabinaShape_not_aliasSafe : ¬ aliasSafe karabinaShape := by
  intro h
  have := (h Int (fun op a => match op, a with | 5, _ => 9 | 6, [a] => a * a | 0, [a, _] => a | _, _ => 0) (fun _ => 0)
    (fun c => match c with | .obj 0 4 => 2 | _ => 0)).1 0
  revert this
  decide

-- the line protocol answers every well-formed C19 line with `same=1 ops=1` (tests, strings do not reduce in the kernel)
#guard handle ["ecc/bn254/internal/fptower.E2", "Mul", "01|2", "33:1f"] = "same=1 ops=1"
#guard handle ["t", "m", "0|0", "33:1"] = "bad-op"
#guard handle ["t", "m", "0|2", "33:1"] = "bad-op"
#guard handle ["t", "m", "02|1", "3:1"] = "bad-op"

/-! ### interior aliasing (a lower-level operand pointing INTO the receiver or another operand) -/

/-- a body that reads every parameter cell before its first write to a parameter cell (the `_y := *y` / `yCopy.Set(y)`
discipline) computes the by-value result wherever its parameter components live: `z.MulByElement(z, &z.A0)`,
`z.MulBy034(&z.C0.B0, …)`, an operand inside another operand, overlapping operands … -/
theorem C19_strict_interiorSafe (b : Body) (h : copyInStrict b = true) : interiorSafe b := by
  intro V I ρ hρ m f
  refine interior_phase1 I ρ hρ b m (pullAt ρ m) h (fun _ => rfl) (fun _ _ => rfl) f

/-- typed interior aliasing: a body that keeps the component-wise copy-in discipline for its same-typed parameters and reads no
lower-level operand after its first write to a receiver component computes the by-value result for every whole-object alias
pattern of the same-typed parameters and EVERY position of the lower-level operands (inside the receiver, inside another operand,
on their own) -/
theorem C19_mixed_interiorSafe (low : Nat → Bool) (b : Body) (h : copyInMixed low b = true) : interiorSafeFor low b := by
  intro V I π ρ hm m f
  exact simM_run I low π ρ hm b [] m (pullAt ρ m) h (simM_init low π ρ hm m) f

/-- `E3.MulByElement` with its defensive copy `_y := *y` (parameter 2 = the scalar) is interior safe -/
theorem C19_mulByElementCopy_interiorSafe : interiorSafeFor (fun i => i == 2) mulByElementCopy :=
  C19_mixed_interiorSafe _ _ (by decide)

example : copyInMixed (fun i => i == 2) mulByElementNoCopy = false := by decide

/-- without the copy the scalar is re-read after `z.A0` was written: with y = &z.A0 (placement of parameter 2's component 0
at (0,0)), z.A0 = 2, x = (3, 5, 7): z.A1 = 5·(3·2) = 30 instead of 5·2 = 10 (this is what the correspondence run reports for the
small-field `E2/E4.MulByElement` and for the seeded change in bw6-761 `E3.MulByElement`) -/
theorem C19_mulByElementNoCopy_not_interiorSafe : ¬ interiorSafeFor (fun i => i == 2) mulByElementNoCopy := by
  intro h
  have := h Int intOps id (fun i f => if i = 2 then (0, 0) else (i, f))
    ⟨rfl, by intro i hi f; have : i ≠ 2 := by simpa using hi
             simp [this]⟩
    (fun c => match c with | .obj 0 0 => 2 | .obj 1 0 => 3 | .obj 1 1 => 5 | .obj 1 2 => 7 | _ => 0) 1
  revert this
  decide

#guard handle ["t", "MulByElement", "01|2", "33:1f", "2.0.1"] = "same=1 ops=1"
#guard handle ["t", "MulBy034", "0|1|2|3", "3333:1", "1.0.0,2.0.5,3.0.12"] = "same=1 ops=1"
#guard handle ["t", "m", "01|2", "33:1", "1.0.0"] = "bad-op"
#guard handle ["t", "m", "0|1|2", "333:1", "1.2.0,2.0.0"] = "bad-op"
#guard handle ["t", "m", "0|1", "33:1", "1.1.0"] = "bad-op"

end GV.Alias
