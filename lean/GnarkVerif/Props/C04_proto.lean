import GnarkVerif.Proofs.MSMProto
import GnarkVerif.Gen.MSMProto
/-
C04 (tie T) — the goroutine / channel protocol of the multi-exponentiation.  Written by bin/mkc04proto.py from
bin/c04proto_header.lean.in; DO NOT EDIT by hand.

`tools/goslp/proto.go` re-extracts on every run the ordered skeleton of the concurrency-relevant statements of `_innerMsm*`,
`msmReduceChunk*`, `processChunk*Jacobian`, `processChunk*BatchAffine` of every curve package (`Gen/MSMProto.lean`).
`Model/MSMProto.lean` unrolls a skeleton into goroutine programs and runs them over buffered channels with `close`
(send on / close of a closed channel = panic state, receive on an empty open channel and send on a full one block).

* `proto_safe`: if the skeletons satisfy the decidable predicates `WorkerOK` / `MainOK` then, for every NbTasks ≥ 1, every
  number of chunks ≥ 1, every set of overweight chunks, every choice of chunk processor per chunk and EVERY interleaving, the
  panic state is unreachable, a release `sem <- …` never finds the channel full or closed, and every reachable state that is
  not final can make a step (no deadlock).  "Release before the result send" is a conjunct of `WorkerOK`, checked on the
  extracted skeleton.
* per package and function: `WorkerOK … = true`, `ReduceOK … = true`, `MainOK … = true` by `decide` on the regenerated data,
  and the instance of `proto_safe`.
* `release_after_send_panics`: the skeleton with the release deferred (token sent after `chRes <- total`) is rejected by
  `WorkerOK`, and a concrete 7-step schedule drives the real `_innerMsmG1` skeleton with that chunk processor into
  "send on closed channel": the ordering is necessary, not only sufficient.
-/
namespace GV.C04proto
open GV GV.MSMProto

/-- the packages the pass found (a new package with a multiexp.go changes this list) -/
theorem packages : Gen.MSMProto.packages =
    ["bls12_377", "bls12_381", "bls24_315", "bls24_317", "bn254", "bw6_633", "bw6_761", "grumpkin", "secp256k1"] := by decide

/-- all interleavings: no panic, no blocked release, no deadlock (statement: `Safe` in Proofs/MSMProto.lean) -/
theorem proto_safe (ws rs : List Fn) (f : Fn) (hm : MainOK ws rs f = true) (K nb : Nat) (hK : 1 ≤ K) (hnb : 1 ≤ nb)
    (split : Nat → Bool) (pick : Nat → Fn) (hpick : ∀ j, WorkerOK (pick j) = true) (s : State)
    (hr : Reachable (capOf (semCapOf f K nb)) (initState (mainTrace f rs K nb true split pick)) s) :
    Safe (capOf (semCapOf f K nb)) s :=
  proto_safe_core ws rs f hm K nb hK hnb split pick hpick s hr

/-- the chunk processor of seeded change C04r3-2: the token is handed back by a `defer` placed after the acquisition, i.e. AFTER
`chRes <- total` -/
def deferredRelease : Fn := { name := "processChunkG1BatchAffine", chanParams := ["chRes", "sem"], body :=
  (.ifS .semNonNil (.op (.recv "sem") (.deferS (.op (.send "sem") .nil) .nil)) .nil (.op (.send "chRes") .nil)) }

/-- its trace: acquire, result, release -/
theorem deferredRelease_trace : workerTrace deferredRelease true = [.recv .sem, .send chResParam, .send .sem] := by decide

theorem deferredRelease_rejected : WorkerOK deferredRelease = false := by decide

/-- NbTasks = 1, one chunk: main fills the token and starts the processor (0, 0); the processor acquires and publishes its result
(1, 1); main receives it and runs the deferred `close(sem)` (0, 0); the processor's deferred `sem <- struct{}{}` panics (1) -/
theorem release_after_send_panics :
    (run (capOf (semCapOf Gen.MSMProto.bn254.f_innerMsmG1 1 1))
      (initState (mainTrace Gen.MSMProto.bn254.f_innerMsmG1 Gen.MSMProto.bn254.reduces 1 1 true (fun _ => false) (fun _ => deferredRelease)))
      [0, 0, 1, 1, 0, 0, 1]).map (·.panic) = some true := by decide

/-- the same schedule with the extracted chunk processor ends in the final state without panic -/
theorem release_before_send_same_schedule :
    (run (capOf (semCapOf Gen.MSMProto.bn254.f_innerMsmG1 1 1))
      (initState (mainTrace Gen.MSMProto.bn254.f_innerMsmG1 Gen.MSMProto.bn254.reduces 1 1 true (fun _ => false)
        (fun _ => Gen.MSMProto.bn254.processChunkG1BatchAffine)))
      [0, 0, 1, 1, 1, 0, 0]).map (fun s => (s.panic, s.main, s.gs)) = some (false, [], [[]]) := by decide

namespace bls12_377
/-! ### ecc/bls12_377 -/

/-- the functions the pass found in this package (a new chunk processor / entry point changes these lists) -/
theorem functions : Gen.MSMProto.bls12_377.workers.map (·.name) = ["processChunkG1BatchAffine", "processChunkG1Jacobian", "processChunkG2BatchAffine", "processChunkG2Jacobian"] ∧ Gen.MSMProto.bls12_377.reduces.map (·.name) = ["msmReduceChunkG1Affine", "msmReduceChunkG2Affine"]
    ∧ Gen.MSMProto.bls12_377.mains.map (·.name) = ["_innerMsmG1", "_innerMsmG2"] := by decide

theorem workers_ok : ∀ w ∈ Gen.MSMProto.bls12_377.workers, WorkerOK w = true := by decide

/-- ecc/bls12_377 `processChunkG1BatchAffine`: acquire first, ONE release, BEFORE the single result send, nothing after it, nothing deferred -/
theorem processChunkG1BatchAffine_ok : WorkerOK Gen.MSMProto.bls12_377.processChunkG1BatchAffine = true := by decide

/-- ecc/bls12_377 `processChunkG1Jacobian`: acquire first, ONE release, BEFORE the single result send, nothing after it, nothing deferred -/
theorem processChunkG1Jacobian_ok : WorkerOK Gen.MSMProto.bls12_377.processChunkG1Jacobian = true := by decide

/-- ecc/bls12_377 `processChunkG2BatchAffine`: acquire first, ONE release, BEFORE the single result send, nothing after it, nothing deferred -/
theorem processChunkG2BatchAffine_ok : WorkerOK Gen.MSMProto.bls12_377.processChunkG2BatchAffine = true := by decide

/-- ecc/bls12_377 `processChunkG2Jacobian`: acquire first, ONE release, BEFORE the single result send, nothing after it, nothing deferred -/
theorem processChunkG2Jacobian_ok : WorkerOK Gen.MSMProto.bls12_377.processChunkG2Jacobian = true := by decide

/-- ecc/bls12_377 `msmReduceChunkG1Affine`: receives every `chChunks[j]` exactly once, nothing else -/
theorem msmReduceChunkG1Affine_ok : ReduceOK Gen.MSMProto.bls12_377.msmReduceChunkG1Affine = true := by decide

/-- ecc/bls12_377 `msmReduceChunkG2Affine`: receives every `chChunks[j]` exactly once, nothing else -/
theorem msmReduceChunkG2Affine_ok : ReduceOK Gen.MSMProto.bls12_377.msmReduceChunkG2Affine = true := by decide

/-- ecc/bls12_377 `_innerMsmG1`: NbTasks tokens pre-filled, capacity ≥ NbTasks + nbChunks, one extra token per split, `close(sem)` deferred,
every result channel received exactly once before the return; the goroutines it starts are `WorkerOK` chunk processors -/
theorem _innerMsmG1_ok : MainOK Gen.MSMProto.bls12_377.workers Gen.MSMProto.bls12_377.reduces Gen.MSMProto.bls12_377.f_innerMsmG1 = true := by decide

/-- hence, for every NbTasks ≥ 1 below NumCPU, every number of chunks, every set of overweight chunks, every choice of chunk
processors and EVERY interleaving: no send on a closed channel, a release never blocks, no deadlock -/
theorem _innerMsmG1_safe (K nb : Nat) (hK : 1 ≤ K) (hnb : 1 ≤ nb) (split : Nat → Bool) (pick : Nat → Fn)
    (hpick : ∀ j, pick j ∈ Gen.MSMProto.bls12_377.workers) (s : State)
    (hr : Reachable (capOf (semCapOf Gen.MSMProto.bls12_377.f_innerMsmG1 K nb))
      (initState (mainTrace Gen.MSMProto.bls12_377.f_innerMsmG1 Gen.MSMProto.bls12_377.reduces K nb true split pick)) s) :
    Safe (capOf (semCapOf Gen.MSMProto.bls12_377.f_innerMsmG1 K nb)) s :=
  proto_safe _ _ _ _innerMsmG1_ok K nb hK hnb split pick (fun j => workers_ok _ (hpick j)) s hr

/-- ecc/bls12_377 `_innerMsmG2`: NbTasks tokens pre-filled, capacity ≥ NbTasks + nbChunks, one extra token per split, `close(sem)` deferred,
every result channel received exactly once before the return; the goroutines it starts are `WorkerOK` chunk processors -/
theorem _innerMsmG2_ok : MainOK Gen.MSMProto.bls12_377.workers Gen.MSMProto.bls12_377.reduces Gen.MSMProto.bls12_377.f_innerMsmG2 = true := by decide

/-- hence, for every NbTasks ≥ 1 below NumCPU, every number of chunks, every set of overweight chunks, every choice of chunk
processors and EVERY interleaving: no send on a closed channel, a release never blocks, no deadlock -/
theorem _innerMsmG2_safe (K nb : Nat) (hK : 1 ≤ K) (hnb : 1 ≤ nb) (split : Nat → Bool) (pick : Nat → Fn)
    (hpick : ∀ j, pick j ∈ Gen.MSMProto.bls12_377.workers) (s : State)
    (hr : Reachable (capOf (semCapOf Gen.MSMProto.bls12_377.f_innerMsmG2 K nb))
      (initState (mainTrace Gen.MSMProto.bls12_377.f_innerMsmG2 Gen.MSMProto.bls12_377.reduces K nb true split pick)) s) :
    Safe (capOf (semCapOf Gen.MSMProto.bls12_377.f_innerMsmG2 K nb)) s :=
  proto_safe _ _ _ _innerMsmG2_ok K nb hK hnb split pick (fun j => workers_ok _ (hpick j)) s hr

end bls12_377

namespace bls12_381
/-! ### ecc/bls12_381 -/

/-- the functions the pass found in this package (a new chunk processor / entry point changes these lists) -/
theorem functions : Gen.MSMProto.bls12_381.workers.map (·.name) = ["processChunkG1BatchAffine", "processChunkG1Jacobian", "processChunkG2BatchAffine", "processChunkG2Jacobian"] ∧ Gen.MSMProto.bls12_381.reduces.map (·.name) = ["msmReduceChunkG1Affine", "msmReduceChunkG2Affine"]
    ∧ Gen.MSMProto.bls12_381.mains.map (·.name) = ["_innerMsmG1", "_innerMsmG2"] := by decide

theorem workers_ok : ∀ w ∈ Gen.MSMProto.bls12_381.workers, WorkerOK w = true := by decide

/-- ecc/bls12_381 `processChunkG1BatchAffine`: acquire first, ONE release, BEFORE the single result send, nothing after it, nothing deferred -/
theorem processChunkG1BatchAffine_ok : WorkerOK Gen.MSMProto.bls12_381.processChunkG1BatchAffine = true := by decide

/-- ecc/bls12_381 `processChunkG1Jacobian`: acquire first, ONE release, BEFORE the single result send, nothing after it, nothing deferred -/
theorem processChunkG1Jacobian_ok : WorkerOK Gen.MSMProto.bls12_381.processChunkG1Jacobian = true := by decide

/-- ecc/bls12_381 `processChunkG2BatchAffine`: acquire first, ONE release, BEFORE the single result send, nothing after it, nothing deferred -/
theorem processChunkG2BatchAffine_ok : WorkerOK Gen.MSMProto.bls12_381.processChunkG2BatchAffine = true := by decide

/-- ecc/bls12_381 `processChunkG2Jacobian`: acquire first, ONE release, BEFORE the single result send, nothing after it, nothing deferred -/
theorem processChunkG2Jacobian_ok : WorkerOK Gen.MSMProto.bls12_381.processChunkG2Jacobian = true := by decide

/-- ecc/bls12_381 `msmReduceChunkG1Affine`: receives every `chChunks[j]` exactly once, nothing else -/
theorem msmReduceChunkG1Affine_ok : ReduceOK Gen.MSMProto.bls12_381.msmReduceChunkG1Affine = true := by decide

/-- ecc/bls12_381 `msmReduceChunkG2Affine`: receives every `chChunks[j]` exactly once, nothing else -/
theorem msmReduceChunkG2Affine_ok : ReduceOK Gen.MSMProto.bls12_381.msmReduceChunkG2Affine = true := by decide

/-- ecc/bls12_381 `_innerMsmG1`: NbTasks tokens pre-filled, capacity ≥ NbTasks + nbChunks, one extra token per split, `close(sem)` deferred,
every result channel received exactly once before the return; the goroutines it starts are `WorkerOK` chunk processors -/
theorem _innerMsmG1_ok : MainOK Gen.MSMProto.bls12_381.workers Gen.MSMProto.bls12_381.reduces Gen.MSMProto.bls12_381.f_innerMsmG1 = true := by decide

/-- hence, for every NbTasks ≥ 1 below NumCPU, every number of chunks, every set of overweight chunks, every choice of chunk
processors and EVERY interleaving: no send on a closed channel, a release never blocks, no deadlock -/
theorem _innerMsmG1_safe (K nb : Nat) (hK : 1 ≤ K) (hnb : 1 ≤ nb) (split : Nat → Bool) (pick : Nat → Fn)
    (hpick : ∀ j, pick j ∈ Gen.MSMProto.bls12_381.workers) (s : State)
    (hr : Reachable (capOf (semCapOf Gen.MSMProto.bls12_381.f_innerMsmG1 K nb))
      (initState (mainTrace Gen.MSMProto.bls12_381.f_innerMsmG1 Gen.MSMProto.bls12_381.reduces K nb true split pick)) s) :
    Safe (capOf (semCapOf Gen.MSMProto.bls12_381.f_innerMsmG1 K nb)) s :=
  proto_safe _ _ _ _innerMsmG1_ok K nb hK hnb split pick (fun j => workers_ok _ (hpick j)) s hr

/-- ecc/bls12_381 `_innerMsmG2`: NbTasks tokens pre-filled, capacity ≥ NbTasks + nbChunks, one extra token per split, `close(sem)` deferred,
every result channel received exactly once before the return; the goroutines it starts are `WorkerOK` chunk processors -/
theorem _innerMsmG2_ok : MainOK Gen.MSMProto.bls12_381.workers Gen.MSMProto.bls12_381.reduces Gen.MSMProto.bls12_381.f_innerMsmG2 = true := by decide

/-- hence, for every NbTasks ≥ 1 below NumCPU, every number of chunks, every set of overweight chunks, every choice of chunk
processors and EVERY interleaving: no send on a closed channel, a release never blocks, no deadlock -/
theorem _innerMsmG2_safe (K nb : Nat) (hK : 1 ≤ K) (hnb : 1 ≤ nb) (split : Nat → Bool) (pick : Nat → Fn)
    (hpick : ∀ j, pick j ∈ Gen.MSMProto.bls12_381.workers) (s : State)
    (hr : Reachable (capOf (semCapOf Gen.MSMProto.bls12_381.f_innerMsmG2 K nb))
      (initState (mainTrace Gen.MSMProto.bls12_381.f_innerMsmG2 Gen.MSMProto.bls12_381.reduces K nb true split pick)) s) :
    Safe (capOf (semCapOf Gen.MSMProto.bls12_381.f_innerMsmG2 K nb)) s :=
  proto_safe _ _ _ _innerMsmG2_ok K nb hK hnb split pick (fun j => workers_ok _ (hpick j)) s hr

end bls12_381

namespace bls24_315
/-! ### ecc/bls24_315 -/

/-- the functions the pass found in this package (a new chunk processor / entry point changes these lists) -/
theorem functions : Gen.MSMProto.bls24_315.workers.map (·.name) = ["processChunkG1BatchAffine", "processChunkG1Jacobian", "processChunkG2BatchAffine", "processChunkG2Jacobian"] ∧ Gen.MSMProto.bls24_315.reduces.map (·.name) = ["msmReduceChunkG1Affine", "msmReduceChunkG2Affine"]
    ∧ Gen.MSMProto.bls24_315.mains.map (·.name) = ["_innerMsmG1", "_innerMsmG2"] := by decide

theorem workers_ok : ∀ w ∈ Gen.MSMProto.bls24_315.workers, WorkerOK w = true := by decide

/-- ecc/bls24_315 `processChunkG1BatchAffine`: acquire first, ONE release, BEFORE the single result send, nothing after it, nothing deferred -/
theorem processChunkG1BatchAffine_ok : WorkerOK Gen.MSMProto.bls24_315.processChunkG1BatchAffine = true := by decide

/-- ecc/bls24_315 `processChunkG1Jacobian`: acquire first, ONE release, BEFORE the single result send, nothing after it, nothing deferred -/
theorem processChunkG1Jacobian_ok : WorkerOK Gen.MSMProto.bls24_315.processChunkG1Jacobian = true := by decide

/-- ecc/bls24_315 `processChunkG2BatchAffine`: acquire first, ONE release, BEFORE the single result send, nothing after it, nothing deferred -/
theorem processChunkG2BatchAffine_ok : WorkerOK Gen.MSMProto.bls24_315.processChunkG2BatchAffine = true := by decide

/-- ecc/bls24_315 `processChunkG2Jacobian`: acquire first, ONE release, BEFORE the single result send, nothing after it, nothing deferred -/
theorem processChunkG2Jacobian_ok : WorkerOK Gen.MSMProto.bls24_315.processChunkG2Jacobian = true := by decide

/-- ecc/bls24_315 `msmReduceChunkG1Affine`: receives every `chChunks[j]` exactly once, nothing else -/
theorem msmReduceChunkG1Affine_ok : ReduceOK Gen.MSMProto.bls24_315.msmReduceChunkG1Affine = true := by decide

/-- ecc/bls24_315 `msmReduceChunkG2Affine`: receives every `chChunks[j]` exactly once, nothing else -/
theorem msmReduceChunkG2Affine_ok : ReduceOK Gen.MSMProto.bls24_315.msmReduceChunkG2Affine = true := by decide

/-- ecc/bls24_315 `_innerMsmG1`: NbTasks tokens pre-filled, capacity ≥ NbTasks + nbChunks, one extra token per split, `close(sem)` deferred,
every result channel received exactly once before the return; the goroutines it starts are `WorkerOK` chunk processors -/
theorem _innerMsmG1_ok : MainOK Gen.MSMProto.bls24_315.workers Gen.MSMProto.bls24_315.reduces Gen.MSMProto.bls24_315.f_innerMsmG1 = true := by decide

/-- hence, for every NbTasks ≥ 1 below NumCPU, every number of chunks, every set of overweight chunks, every choice of chunk
processors and EVERY interleaving: no send on a closed channel, a release never blocks, no deadlock -/
theorem _innerMsmG1_safe (K nb : Nat) (hK : 1 ≤ K) (hnb : 1 ≤ nb) (split : Nat → Bool) (pick : Nat → Fn)
    (hpick : ∀ j, pick j ∈ Gen.MSMProto.bls24_315.workers) (s : State)
    (hr : Reachable (capOf (semCapOf Gen.MSMProto.bls24_315.f_innerMsmG1 K nb))
      (initState (mainTrace Gen.MSMProto.bls24_315.f_innerMsmG1 Gen.MSMProto.bls24_315.reduces K nb true split pick)) s) :
    Safe (capOf (semCapOf Gen.MSMProto.bls24_315.f_innerMsmG1 K nb)) s :=
  proto_safe _ _ _ _innerMsmG1_ok K nb hK hnb split pick (fun j => workers_ok _ (hpick j)) s hr

/-- ecc/bls24_315 `_innerMsmG2`: NbTasks tokens pre-filled, capacity ≥ NbTasks + nbChunks, one extra token per split, `close(sem)` deferred,
every result channel received exactly once before the return; the goroutines it starts are `WorkerOK` chunk processors -/
theorem _innerMsmG2_ok : MainOK Gen.MSMProto.bls24_315.workers Gen.MSMProto.bls24_315.reduces Gen.MSMProto.bls24_315.f_innerMsmG2 = true := by decide

/-- hence, for every NbTasks ≥ 1 below NumCPU, every number of chunks, every set of overweight chunks, every choice of chunk
processors and EVERY interleaving: no send on a closed channel, a release never blocks, no deadlock -/
theorem _innerMsmG2_safe (K nb : Nat) (hK : 1 ≤ K) (hnb : 1 ≤ nb) (split : Nat → Bool) (pick : Nat → Fn)
    (hpick : ∀ j, pick j ∈ Gen.MSMProto.bls24_315.workers) (s : State)
    (hr : Reachable (capOf (semCapOf Gen.MSMProto.bls24_315.f_innerMsmG2 K nb))
      (initState (mainTrace Gen.MSMProto.bls24_315.f_innerMsmG2 Gen.MSMProto.bls24_315.reduces K nb true split pick)) s) :
    Safe (capOf (semCapOf Gen.MSMProto.bls24_315.f_innerMsmG2 K nb)) s :=
  proto_safe _ _ _ _innerMsmG2_ok K nb hK hnb split pick (fun j => workers_ok _ (hpick j)) s hr

end bls24_315

namespace bls24_317
/-! ### ecc/bls24_317 -/

/-- the functions the pass found in this package (a new chunk processor / entry point changes these lists) -/
theorem functions : Gen.MSMProto.bls24_317.workers.map (·.name) = ["processChunkG1BatchAffine", "processChunkG1Jacobian", "processChunkG2BatchAffine", "processChunkG2Jacobian"] ∧ Gen.MSMProto.bls24_317.reduces.map (·.name) = ["msmReduceChunkG1Affine", "msmReduceChunkG2Affine"]
    ∧ Gen.MSMProto.bls24_317.mains.map (·.name) = ["_innerMsmG1", "_innerMsmG2"] := by decide

theorem workers_ok : ∀ w ∈ Gen.MSMProto.bls24_317.workers, WorkerOK w = true := by decide

/-- ecc/bls24_317 `processChunkG1BatchAffine`: acquire first, ONE release, BEFORE the single result send, nothing after it, nothing deferred -/
theorem processChunkG1BatchAffine_ok : WorkerOK Gen.MSMProto.bls24_317.processChunkG1BatchAffine = true := by decide

/-- ecc/bls24_317 `processChunkG1Jacobian`: acquire first, ONE release, BEFORE the single result send, nothing after it, nothing deferred -/
theorem processChunkG1Jacobian_ok : WorkerOK Gen.MSMProto.bls24_317.processChunkG1Jacobian = true := by decide

/-- ecc/bls24_317 `processChunkG2BatchAffine`: acquire first, ONE release, BEFORE the single result send, nothing after it, nothing deferred -/
theorem processChunkG2BatchAffine_ok : WorkerOK Gen.MSMProto.bls24_317.processChunkG2BatchAffine = true := by decide

/-- ecc/bls24_317 `processChunkG2Jacobian`: acquire first, ONE release, BEFORE the single result send, nothing after it, nothing deferred -/
theorem processChunkG2Jacobian_ok : WorkerOK Gen.MSMProto.bls24_317.processChunkG2Jacobian = true := by decide

/-- ecc/bls24_317 `msmReduceChunkG1Affine`: receives every `chChunks[j]` exactly once, nothing else -/
theorem msmReduceChunkG1Affine_ok : ReduceOK Gen.MSMProto.bls24_317.msmReduceChunkG1Affine = true := by decide

/-- ecc/bls24_317 `msmReduceChunkG2Affine`: receives every `chChunks[j]` exactly once, nothing else -/
theorem msmReduceChunkG2Affine_ok : ReduceOK Gen.MSMProto.bls24_317.msmReduceChunkG2Affine = true := by decide

/-- ecc/bls24_317 `_innerMsmG1`: NbTasks tokens pre-filled, capacity ≥ NbTasks + nbChunks, one extra token per split, `close(sem)` deferred,
every result channel received exactly once before the return; the goroutines it starts are `WorkerOK` chunk processors -/
theorem _innerMsmG1_ok : MainOK Gen.MSMProto.bls24_317.workers Gen.MSMProto.bls24_317.reduces Gen.MSMProto.bls24_317.f_innerMsmG1 = true := by decide

/-- hence, for every NbTasks ≥ 1 below NumCPU, every number of chunks, every set of overweight chunks, every choice of chunk
processors and EVERY interleaving: no send on a closed channel, a release never blocks, no deadlock -/
theorem _innerMsmG1_safe (K nb : Nat) (hK : 1 ≤ K) (hnb : 1 ≤ nb) (split : Nat → Bool) (pick : Nat → Fn)
    (hpick : ∀ j, pick j ∈ Gen.MSMProto.bls24_317.workers) (s : State)
    (hr : Reachable (capOf (semCapOf Gen.MSMProto.bls24_317.f_innerMsmG1 K nb))
      (initState (mainTrace Gen.MSMProto.bls24_317.f_innerMsmG1 Gen.MSMProto.bls24_317.reduces K nb true split pick)) s) :
    Safe (capOf (semCapOf Gen.MSMProto.bls24_317.f_innerMsmG1 K nb)) s :=
  proto_safe _ _ _ _innerMsmG1_ok K nb hK hnb split pick (fun j => workers_ok _ (hpick j)) s hr

/-- ecc/bls24_317 `_innerMsmG2`: NbTasks tokens pre-filled, capacity ≥ NbTasks + nbChunks, one extra token per split, `close(sem)` deferred,
every result channel received exactly once before the return; the goroutines it starts are `WorkerOK` chunk processors -/
theorem _innerMsmG2_ok : MainOK Gen.MSMProto.bls24_317.workers Gen.MSMProto.bls24_317.reduces Gen.MSMProto.bls24_317.f_innerMsmG2 = true := by decide

/-- hence, for every NbTasks ≥ 1 below NumCPU, every number of chunks, every set of overweight chunks, every choice of chunk
processors and EVERY interleaving: no send on a closed channel, a release never blocks, no deadlock -/
theorem _innerMsmG2_safe (K nb : Nat) (hK : 1 ≤ K) (hnb : 1 ≤ nb) (split : Nat → Bool) (pick : Nat → Fn)
    (hpick : ∀ j, pick j ∈ Gen.MSMProto.bls24_317.workers) (s : State)
    (hr : Reachable (capOf (semCapOf Gen.MSMProto.bls24_317.f_innerMsmG2 K nb))
      (initState (mainTrace Gen.MSMProto.bls24_317.f_innerMsmG2 Gen.MSMProto.bls24_317.reduces K nb true split pick)) s) :
    Safe (capOf (semCapOf Gen.MSMProto.bls24_317.f_innerMsmG2 K nb)) s :=
  proto_safe _ _ _ _innerMsmG2_ok K nb hK hnb split pick (fun j => workers_ok _ (hpick j)) s hr

end bls24_317

namespace bn254
/-! ### ecc/bn254 -/

/-- the functions the pass found in this package (a new chunk processor / entry point changes these lists) -/
theorem functions : Gen.MSMProto.bn254.workers.map (·.name) = ["processChunkG1BatchAffine", "processChunkG1Jacobian", "processChunkG2BatchAffine", "processChunkG2Jacobian"] ∧ Gen.MSMProto.bn254.reduces.map (·.name) = ["msmReduceChunkG1Affine", "msmReduceChunkG2Affine"]
    ∧ Gen.MSMProto.bn254.mains.map (·.name) = ["_innerMsmG1", "_innerMsmG2"] := by decide

theorem workers_ok : ∀ w ∈ Gen.MSMProto.bn254.workers, WorkerOK w = true := by decide

/-- ecc/bn254 `processChunkG1BatchAffine`: acquire first, ONE release, BEFORE the single result send, nothing after it, nothing deferred -/
theorem processChunkG1BatchAffine_ok : WorkerOK Gen.MSMProto.bn254.processChunkG1BatchAffine = true := by decide

/-- ecc/bn254 `processChunkG1Jacobian`: acquire first, ONE release, BEFORE the single result send, nothing after it, nothing deferred -/
theorem processChunkG1Jacobian_ok : WorkerOK Gen.MSMProto.bn254.processChunkG1Jacobian = true := by decide

/-- ecc/bn254 `processChunkG2BatchAffine`: acquire first, ONE release, BEFORE the single result send, nothing after it, nothing deferred -/
theorem processChunkG2BatchAffine_ok : WorkerOK Gen.MSMProto.bn254.processChunkG2BatchAffine = true := by decide

/-- ecc/bn254 `processChunkG2Jacobian`: acquire first, ONE release, BEFORE the single result send, nothing after it, nothing deferred -/
theorem processChunkG2Jacobian_ok : WorkerOK Gen.MSMProto.bn254.processChunkG2Jacobian = true := by decide

/-- ecc/bn254 `msmReduceChunkG1Affine`: receives every `chChunks[j]` exactly once, nothing else -/
theorem msmReduceChunkG1Affine_ok : ReduceOK Gen.MSMProto.bn254.msmReduceChunkG1Affine = true := by decide

/-- ecc/bn254 `msmReduceChunkG2Affine`: receives every `chChunks[j]` exactly once, nothing else -/
theorem msmReduceChunkG2Affine_ok : ReduceOK Gen.MSMProto.bn254.msmReduceChunkG2Affine = true := by decide

/-- ecc/bn254 `_innerMsmG1`: NbTasks tokens pre-filled, capacity ≥ NbTasks + nbChunks, one extra token per split, `close(sem)` deferred,
every result channel received exactly once before the return; the goroutines it starts are `WorkerOK` chunk processors -/
theorem _innerMsmG1_ok : MainOK Gen.MSMProto.bn254.workers Gen.MSMProto.bn254.reduces Gen.MSMProto.bn254.f_innerMsmG1 = true := by decide

/-- hence, for every NbTasks ≥ 1 below NumCPU, every number of chunks, every set of overweight chunks, every choice of chunk
processors and EVERY interleaving: no send on a closed channel, a release never blocks, no deadlock -/
theorem _innerMsmG1_safe (K nb : Nat) (hK : 1 ≤ K) (hnb : 1 ≤ nb) (split : Nat → Bool) (pick : Nat → Fn)
    (hpick : ∀ j, pick j ∈ Gen.MSMProto.bn254.workers) (s : State)
    (hr : Reachable (capOf (semCapOf Gen.MSMProto.bn254.f_innerMsmG1 K nb))
      (initState (mainTrace Gen.MSMProto.bn254.f_innerMsmG1 Gen.MSMProto.bn254.reduces K nb true split pick)) s) :
    Safe (capOf (semCapOf Gen.MSMProto.bn254.f_innerMsmG1 K nb)) s :=
  proto_safe _ _ _ _innerMsmG1_ok K nb hK hnb split pick (fun j => workers_ok _ (hpick j)) s hr

/-- ecc/bn254 `_innerMsmG2`: NbTasks tokens pre-filled, capacity ≥ NbTasks + nbChunks, one extra token per split, `close(sem)` deferred,
every result channel received exactly once before the return; the goroutines it starts are `WorkerOK` chunk processors -/
theorem _innerMsmG2_ok : MainOK Gen.MSMProto.bn254.workers Gen.MSMProto.bn254.reduces Gen.MSMProto.bn254.f_innerMsmG2 = true := by decide

/-- hence, for every NbTasks ≥ 1 below NumCPU, every number of chunks, every set of overweight chunks, every choice of chunk
processors and EVERY interleaving: no send on a closed channel, a release never blocks, no deadlock -/
theorem _innerMsmG2_safe (K nb : Nat) (hK : 1 ≤ K) (hnb : 1 ≤ nb) (split : Nat → Bool) (pick : Nat → Fn)
    (hpick : ∀ j, pick j ∈ Gen.MSMProto.bn254.workers) (s : State)
    (hr : Reachable (capOf (semCapOf Gen.MSMProto.bn254.f_innerMsmG2 K nb))
      (initState (mainTrace Gen.MSMProto.bn254.f_innerMsmG2 Gen.MSMProto.bn254.reduces K nb true split pick)) s) :
    Safe (capOf (semCapOf Gen.MSMProto.bn254.f_innerMsmG2 K nb)) s :=
  proto_safe _ _ _ _innerMsmG2_ok K nb hK hnb split pick (fun j => workers_ok _ (hpick j)) s hr

end bn254

namespace bw6_633
/-! ### ecc/bw6_633 -/

/-- the functions the pass found in this package (a new chunk processor / entry point changes these lists) -/
theorem functions : Gen.MSMProto.bw6_633.workers.map (·.name) = ["processChunkG1BatchAffine", "processChunkG1Jacobian", "processChunkG2BatchAffine", "processChunkG2Jacobian"] ∧ Gen.MSMProto.bw6_633.reduces.map (·.name) = ["msmReduceChunkG1Affine", "msmReduceChunkG2Affine"]
    ∧ Gen.MSMProto.bw6_633.mains.map (·.name) = ["_innerMsmG1", "_innerMsmG2"] := by decide

theorem workers_ok : ∀ w ∈ Gen.MSMProto.bw6_633.workers, WorkerOK w = true := by decide

/-- ecc/bw6_633 `processChunkG1BatchAffine`: acquire first, ONE release, BEFORE the single result send, nothing after it, nothing deferred -/
theorem processChunkG1BatchAffine_ok : WorkerOK Gen.MSMProto.bw6_633.processChunkG1BatchAffine = true := by decide

/-- ecc/bw6_633 `processChunkG1Jacobian`: acquire first, ONE release, BEFORE the single result send, nothing after it, nothing deferred -/
theorem processChunkG1Jacobian_ok : WorkerOK Gen.MSMProto.bw6_633.processChunkG1Jacobian = true := by decide

/-- ecc/bw6_633 `processChunkG2BatchAffine`: acquire first, ONE release, BEFORE the single result send, nothing after it, nothing deferred -/
theorem processChunkG2BatchAffine_ok : WorkerOK Gen.MSMProto.bw6_633.processChunkG2BatchAffine = true := by decide

/-- ecc/bw6_633 `processChunkG2Jacobian`: acquire first, ONE release, BEFORE the single result send, nothing after it, nothing deferred -/
theorem processChunkG2Jacobian_ok : WorkerOK Gen.MSMProto.bw6_633.processChunkG2Jacobian = true := by decide

/-- ecc/bw6_633 `msmReduceChunkG1Affine`: receives every `chChunks[j]` exactly once, nothing else -/
theorem msmReduceChunkG1Affine_ok : ReduceOK Gen.MSMProto.bw6_633.msmReduceChunkG1Affine = true := by decide

/-- ecc/bw6_633 `msmReduceChunkG2Affine`: receives every `chChunks[j]` exactly once, nothing else -/
theorem msmReduceChunkG2Affine_ok : ReduceOK Gen.MSMProto.bw6_633.msmReduceChunkG2Affine = true := by decide

/-- ecc/bw6_633 `_innerMsmG1`: NbTasks tokens pre-filled, capacity ≥ NbTasks + nbChunks, one extra token per split, `close(sem)` deferred,
every result channel received exactly once before the return; the goroutines it starts are `WorkerOK` chunk processors -/
theorem _innerMsmG1_ok : MainOK Gen.MSMProto.bw6_633.workers Gen.MSMProto.bw6_633.reduces Gen.MSMProto.bw6_633.f_innerMsmG1 = true := by decide

/-- hence, for every NbTasks ≥ 1 below NumCPU, every number of chunks, every set of overweight chunks, every choice of chunk
processors and EVERY interleaving: no send on a closed channel, a release never blocks, no deadlock -/
theorem _innerMsmG1_safe (K nb : Nat) (hK : 1 ≤ K) (hnb : 1 ≤ nb) (split : Nat → Bool) (pick : Nat → Fn)
    (hpick : ∀ j, pick j ∈ Gen.MSMProto.bw6_633.workers) (s : State)
    (hr : Reachable (capOf (semCapOf Gen.MSMProto.bw6_633.f_innerMsmG1 K nb))
      (initState (mainTrace Gen.MSMProto.bw6_633.f_innerMsmG1 Gen.MSMProto.bw6_633.reduces K nb true split pick)) s) :
    Safe (capOf (semCapOf Gen.MSMProto.bw6_633.f_innerMsmG1 K nb)) s :=
  proto_safe _ _ _ _innerMsmG1_ok K nb hK hnb split pick (fun j => workers_ok _ (hpick j)) s hr

/-- ecc/bw6_633 `_innerMsmG2`: NbTasks tokens pre-filled, capacity ≥ NbTasks + nbChunks, one extra token per split, `close(sem)` deferred,
every result channel received exactly once before the return; the goroutines it starts are `WorkerOK` chunk processors -/
theorem _innerMsmG2_ok : MainOK Gen.MSMProto.bw6_633.workers Gen.MSMProto.bw6_633.reduces Gen.MSMProto.bw6_633.f_innerMsmG2 = true := by decide

/-- hence, for every NbTasks ≥ 1 below NumCPU, every number of chunks, every set of overweight chunks, every choice of chunk
processors and EVERY interleaving: no send on a closed channel, a release never blocks, no deadlock -/
theorem _innerMsmG2_safe (K nb : Nat) (hK : 1 ≤ K) (hnb : 1 ≤ nb) (split : Nat → Bool) (pick : Nat → Fn)
    (hpick : ∀ j, pick j ∈ Gen.MSMProto.bw6_633.workers) (s : State)
    (hr : Reachable (capOf (semCapOf Gen.MSMProto.bw6_633.f_innerMsmG2 K nb))
      (initState (mainTrace Gen.MSMProto.bw6_633.f_innerMsmG2 Gen.MSMProto.bw6_633.reduces K nb true split pick)) s) :
    Safe (capOf (semCapOf Gen.MSMProto.bw6_633.f_innerMsmG2 K nb)) s :=
  proto_safe _ _ _ _innerMsmG2_ok K nb hK hnb split pick (fun j => workers_ok _ (hpick j)) s hr

end bw6_633

namespace bw6_761
/-! ### ecc/bw6_761 -/

/-- the functions the pass found in this package (a new chunk processor / entry point changes these lists) -/
theorem functions : Gen.MSMProto.bw6_761.workers.map (·.name) = ["processChunkG1BatchAffine", "processChunkG1Jacobian", "processChunkG2BatchAffine", "processChunkG2Jacobian"] ∧ Gen.MSMProto.bw6_761.reduces.map (·.name) = ["msmReduceChunkG1Affine", "msmReduceChunkG2Affine"]
    ∧ Gen.MSMProto.bw6_761.mains.map (·.name) = ["_innerMsmG1", "_innerMsmG2"] := by decide

theorem workers_ok : ∀ w ∈ Gen.MSMProto.bw6_761.workers, WorkerOK w = true := by decide

/-- ecc/bw6_761 `processChunkG1BatchAffine`: acquire first, ONE release, BEFORE the single result send, nothing after it, nothing deferred -/
theorem processChunkG1BatchAffine_ok : WorkerOK Gen.MSMProto.bw6_761.processChunkG1BatchAffine = true := by decide

/-- ecc/bw6_761 `processChunkG1Jacobian`: acquire first, ONE release, BEFORE the single result send, nothing after it, nothing deferred -/
theorem processChunkG1Jacobian_ok : WorkerOK Gen.MSMProto.bw6_761.processChunkG1Jacobian = true := by decide

/-- ecc/bw6_761 `processChunkG2BatchAffine`: acquire first, ONE release, BEFORE the single result send, nothing after it, nothing deferred -/
theorem processChunkG2BatchAffine_ok : WorkerOK Gen.MSMProto.bw6_761.processChunkG2BatchAffine = true := by decide

/-- ecc/bw6_761 `processChunkG2Jacobian`: acquire first, ONE release, BEFORE the single result send, nothing after it, nothing deferred -/
theorem processChunkG2Jacobian_ok : WorkerOK Gen.MSMProto.bw6_761.processChunkG2Jacobian = true := by decide

/-- ecc/bw6_761 `msmReduceChunkG1Affine`: receives every `chChunks[j]` exactly once, nothing else -/
theorem msmReduceChunkG1Affine_ok : ReduceOK Gen.MSMProto.bw6_761.msmReduceChunkG1Affine = true := by decide

/-- ecc/bw6_761 `msmReduceChunkG2Affine`: receives every `chChunks[j]` exactly once, nothing else -/
theorem msmReduceChunkG2Affine_ok : ReduceOK Gen.MSMProto.bw6_761.msmReduceChunkG2Affine = true := by decide

/-- ecc/bw6_761 `_innerMsmG1`: NbTasks tokens pre-filled, capacity ≥ NbTasks + nbChunks, one extra token per split, `close(sem)` deferred,
every result channel received exactly once before the return; the goroutines it starts are `WorkerOK` chunk processors -/
theorem _innerMsmG1_ok : MainOK Gen.MSMProto.bw6_761.workers Gen.MSMProto.bw6_761.reduces Gen.MSMProto.bw6_761.f_innerMsmG1 = true := by decide

/-- hence, for every NbTasks ≥ 1 below NumCPU, every number of chunks, every set of overweight chunks, every choice of chunk
processors and EVERY interleaving: no send on a closed channel, a release never blocks, no deadlock -/
theorem _innerMsmG1_safe (K nb : Nat) (hK : 1 ≤ K) (hnb : 1 ≤ nb) (split : Nat → Bool) (pick : Nat → Fn)
    (hpick : ∀ j, pick j ∈ Gen.MSMProto.bw6_761.workers) (s : State)
    (hr : Reachable (capOf (semCapOf Gen.MSMProto.bw6_761.f_innerMsmG1 K nb))
      (initState (mainTrace Gen.MSMProto.bw6_761.f_innerMsmG1 Gen.MSMProto.bw6_761.reduces K nb true split pick)) s) :
    Safe (capOf (semCapOf Gen.MSMProto.bw6_761.f_innerMsmG1 K nb)) s :=
  proto_safe _ _ _ _innerMsmG1_ok K nb hK hnb split pick (fun j => workers_ok _ (hpick j)) s hr

/-- ecc/bw6_761 `_innerMsmG2`: NbTasks tokens pre-filled, capacity ≥ NbTasks + nbChunks, one extra token per split, `close(sem)` deferred,
every result channel received exactly once before the return; the goroutines it starts are `WorkerOK` chunk processors -/
theorem _innerMsmG2_ok : MainOK Gen.MSMProto.bw6_761.workers Gen.MSMProto.bw6_761.reduces Gen.MSMProto.bw6_761.f_innerMsmG2 = true := by decide

/-- hence, for every NbTasks ≥ 1 below NumCPU, every number of chunks, every set of overweight chunks, every choice of chunk
processors and EVERY interleaving: no send on a closed channel, a release never blocks, no deadlock -/
theorem _innerMsmG2_safe (K nb : Nat) (hK : 1 ≤ K) (hnb : 1 ≤ nb) (split : Nat → Bool) (pick : Nat → Fn)
    (hpick : ∀ j, pick j ∈ Gen.MSMProto.bw6_761.workers) (s : State)
    (hr : Reachable (capOf (semCapOf Gen.MSMProto.bw6_761.f_innerMsmG2 K nb))
      (initState (mainTrace Gen.MSMProto.bw6_761.f_innerMsmG2 Gen.MSMProto.bw6_761.reduces K nb true split pick)) s) :
    Safe (capOf (semCapOf Gen.MSMProto.bw6_761.f_innerMsmG2 K nb)) s :=
  proto_safe _ _ _ _innerMsmG2_ok K nb hK hnb split pick (fun j => workers_ok _ (hpick j)) s hr

end bw6_761

namespace grumpkin
/-! ### ecc/grumpkin -/

/-- the functions the pass found in this package (a new chunk processor / entry point changes these lists) -/
theorem functions : Gen.MSMProto.grumpkin.workers.map (·.name) = ["processChunkG1BatchAffine", "processChunkG1Jacobian"] ∧ Gen.MSMProto.grumpkin.reduces.map (·.name) = ["msmReduceChunkG1Affine"]
    ∧ Gen.MSMProto.grumpkin.mains.map (·.name) = ["_innerMsmG1"] := by decide

theorem workers_ok : ∀ w ∈ Gen.MSMProto.grumpkin.workers, WorkerOK w = true := by decide

/-- ecc/grumpkin `processChunkG1BatchAffine`: acquire first, ONE release, BEFORE the single result send, nothing after it, nothing deferred -/
theorem processChunkG1BatchAffine_ok : WorkerOK Gen.MSMProto.grumpkin.processChunkG1BatchAffine = true := by decide

/-- ecc/grumpkin `processChunkG1Jacobian`: acquire first, ONE release, BEFORE the single result send, nothing after it, nothing deferred -/
theorem processChunkG1Jacobian_ok : WorkerOK Gen.MSMProto.grumpkin.processChunkG1Jacobian = true := by decide

/-- ecc/grumpkin `msmReduceChunkG1Affine`: receives every `chChunks[j]` exactly once, nothing else -/
theorem msmReduceChunkG1Affine_ok : ReduceOK Gen.MSMProto.grumpkin.msmReduceChunkG1Affine = true := by decide

/-- ecc/grumpkin `_innerMsmG1`: NbTasks tokens pre-filled, capacity ≥ NbTasks + nbChunks, one extra token per split, `close(sem)` deferred,
every result channel received exactly once before the return; the goroutines it starts are `WorkerOK` chunk processors -/
theorem _innerMsmG1_ok : MainOK Gen.MSMProto.grumpkin.workers Gen.MSMProto.grumpkin.reduces Gen.MSMProto.grumpkin.f_innerMsmG1 = true := by decide

/-- hence, for every NbTasks ≥ 1 below NumCPU, every number of chunks, every set of overweight chunks, every choice of chunk
processors and EVERY interleaving: no send on a closed channel, a release never blocks, no deadlock -/
theorem _innerMsmG1_safe (K nb : Nat) (hK : 1 ≤ K) (hnb : 1 ≤ nb) (split : Nat → Bool) (pick : Nat → Fn)
    (hpick : ∀ j, pick j ∈ Gen.MSMProto.grumpkin.workers) (s : State)
    (hr : Reachable (capOf (semCapOf Gen.MSMProto.grumpkin.f_innerMsmG1 K nb))
      (initState (mainTrace Gen.MSMProto.grumpkin.f_innerMsmG1 Gen.MSMProto.grumpkin.reduces K nb true split pick)) s) :
    Safe (capOf (semCapOf Gen.MSMProto.grumpkin.f_innerMsmG1 K nb)) s :=
  proto_safe _ _ _ _innerMsmG1_ok K nb hK hnb split pick (fun j => workers_ok _ (hpick j)) s hr

end grumpkin

namespace secp256k1
/-! ### ecc/secp256k1 -/

/-- the functions the pass found in this package (a new chunk processor / entry point changes these lists) -/
theorem functions : Gen.MSMProto.secp256k1.workers.map (·.name) = ["processChunkG1BatchAffine", "processChunkG1Jacobian"] ∧ Gen.MSMProto.secp256k1.reduces.map (·.name) = ["msmReduceChunkG1Affine"]
    ∧ Gen.MSMProto.secp256k1.mains.map (·.name) = ["_innerMsmG1"] := by decide

theorem workers_ok : ∀ w ∈ Gen.MSMProto.secp256k1.workers, WorkerOK w = true := by decide

/-- ecc/secp256k1 `processChunkG1BatchAffine`: acquire first, ONE release, BEFORE the single result send, nothing after it, nothing deferred -/
theorem processChunkG1BatchAffine_ok : WorkerOK Gen.MSMProto.secp256k1.processChunkG1BatchAffine = true := by decide

/-- ecc/secp256k1 `processChunkG1Jacobian`: acquire first, ONE release, BEFORE the single result send, nothing after it, nothing deferred -/
theorem processChunkG1Jacobian_ok : WorkerOK Gen.MSMProto.secp256k1.processChunkG1Jacobian = true := by decide

/-- ecc/secp256k1 `msmReduceChunkG1Affine`: receives every `chChunks[j]` exactly once, nothing else -/
theorem msmReduceChunkG1Affine_ok : ReduceOK Gen.MSMProto.secp256k1.msmReduceChunkG1Affine = true := by decide

/-- ecc/secp256k1 `_innerMsmG1`: NbTasks tokens pre-filled, capacity ≥ NbTasks + nbChunks, one extra token per split, `close(sem)` deferred,
every result channel received exactly once before the return; the goroutines it starts are `WorkerOK` chunk processors -/
theorem _innerMsmG1_ok : MainOK Gen.MSMProto.secp256k1.workers Gen.MSMProto.secp256k1.reduces Gen.MSMProto.secp256k1.f_innerMsmG1 = true := by decide

/-- hence, for every NbTasks ≥ 1 below NumCPU, every number of chunks, every set of overweight chunks, every choice of chunk
processors and EVERY interleaving: no send on a closed channel, a release never blocks, no deadlock -/
theorem _innerMsmG1_safe (K nb : Nat) (hK : 1 ≤ K) (hnb : 1 ≤ nb) (split : Nat → Bool) (pick : Nat → Fn)
    (hpick : ∀ j, pick j ∈ Gen.MSMProto.secp256k1.workers) (s : State)
    (hr : Reachable (capOf (semCapOf Gen.MSMProto.secp256k1.f_innerMsmG1 K nb))
      (initState (mainTrace Gen.MSMProto.secp256k1.f_innerMsmG1 Gen.MSMProto.secp256k1.reduces K nb true split pick)) s) :
    Safe (capOf (semCapOf Gen.MSMProto.secp256k1.f_innerMsmG1 K nb)) s :=
  proto_safe _ _ _ _innerMsmG1_ok K nb hK hnb split pick (fun j => workers_ok _ (hpick j)) s hr

end secp256k1

end GV.C04proto
