import GnarkVerif.Props.C10_top_bn254
import GnarkVerif.Props.C10_top_bls12_381
import GnarkVerif.Props.C10_top_bls12_377
import GnarkVerif.Props.C10_top_bls24_315
import GnarkVerif.Props.C10_top_bls24_317
import GnarkVerif.Props.C10_top_bw6_761
import GnarkVerif.Props.C10_top_bw6_633
import GnarkVerif.Props.C10_top_goldilocks
import GnarkVerif.Props.C10_top_koalabear
import GnarkVerif.Props.C10_top_babybear
/- C10 (tie T): the theorems about the top-level transforms `(*Domain).FFT` / `(*Domain).FFTInverse` that tools/goslp regenerates
   from the Go source on every run (Gen/FFT/*Top.lean). This module imports the per-package files (written by bin/mkc10top.py).
   10 packages, 2490 theorems (listed with their axioms in Audit/C10_top.lean). -/
