import GnarkVerif.Proofs.ArgHash
import Mathlib.Algebra.Field.Rat
import Mathlib.Tactic.NormNum
/-
C17 (hash-based half): FRI and Vortex.

Argument-system verifiers accept honest proofs and reject well-formed forgeries.  The verifiers are the conjunctions
of named checks of `Model/ArgHash.lean`; the theorems below are about that model instantiated with the dictionary
`ofField K` of an ARBITRARY field `K` having a primitive `N`-th root of unity (koalabear's E4 for the real code),
with the hash an arbitrary function (completeness) / an injective function (soundness, Merkle necessity).

  completeness ........ C17b_vortex_complete (all matrix sizes, all evaluation points incl. points of the domain,
                        all α, all selected-column lists), C17b_fri_round_honest / C17b_fri_final_constant
  exact acceptance (→)  C17b_vortex_accept_structure
  necessity ........... C17b_forge_UAlpha_shift   (fails ONLY column-vs-UAlpha; the check the Go code lacks)
                        C17b_forge_rs_spike       (fails ONLY Reed–Solomon)
                        C17b_forge_claim          (fails ONLY the claim check)
                        C17b_forge_col_kernel, C17b_forge_merkle_sibling (fail ONLY the Merkle check)
                        C17b_foldVal_inj_left/right (FRI folding check detects any change of one opened value)
  polynomial helpers .. C17b_evalLagrange_is_interpolant, C17b_rs_iff_low_degree, C17b_fold_degree,
                        C17b_fold_consistency, C17b_convert_unsort, C17b_merkle_complete, C17b_merkle_sound
-/
set_option linter.unusedSectionVars false
namespace GV.ArgHash
open GV.Alg Finset

variable {K : Type} [Field K] [DecidableEq K] {D : Type} [DecidableEq D]

/-! ## polynomial helpers -/

/-- `EvalFextPolyLagrange(u, x)` is the value at `x` of the unique interpolant of degree `< N` of `u`
    (coefficients `N⁻¹·rsCoeff u m`), for every `x`, on or off the domain. -/
theorem C17b_evalLagrange_is_interpolant {ω : K} {N : Nat} (h : PrimRoot ω N) (u : List K) (hu : u.length = N) (x : K) :
    evalLagrange (ofField K) ω⁻¹ u x = ∑ m ∈ range N, ((N : K)⁻¹ * rsCoeff (ofField K) ω⁻¹ u m) * x ^ m := by
  rw [evalLagrange_eq_interp h u hu, mul_sum]
  apply sum_congr rfl; intro m _; ring

example : PrimRoot (-1 : ℚ) 2 :=
  ⟨by norm_num, by intro d h1 h2; have : d = 1 := by omega
                   subst this; norm_num, by norm_num, by norm_num⟩

/-- `IsReedSolomonCodewords(u)` ⇔ `u` is the evaluation vector of a polynomial of degree `< nbCols` -/
theorem C17b_rs_iff_low_degree {ω : K} {N nbCols : Nat} (h : PrimRoot ω N) (hn : nbCols ≤ N) (u : List K) (hu : u.length = N) :
    checkRS (ofField K) ω⁻¹ nbCols N u = true ↔
      ∃ c : Nat → K, ∀ k, k < N → u.getD k 0 = ∑ j ∈ range nbCols, c j * ω ^ (j * k) := by
  constructor
  · intro hrs
    have hz : ∀ m, nbCols ≤ m → m < N → rsCoeff (ofField K) ω⁻¹ u m = 0 := by
      intro m h1 h2
      have := List.all_eq_true.mp hrs (m - nbCols) (by simp; omega)
      have e : nbCols + (m - nbCols) = m := by omega
      rw [e] at this
      exact (of_beq _ _).mp this
    refine ⟨fun j => (N : K)⁻¹ * rsCoeff (ofField K) ω⁻¹ u j, ?_⟩
    intro k hk
    have inv := idft_inversion h u hu k hk
    have split : ∑ m ∈ range N, rsCoeff (ofField K) ω⁻¹ u m * ω ^ (m * k)
        = ∑ m ∈ range nbCols, rsCoeff (ofField K) ω⁻¹ u m * ω ^ (m * k) := by
      symm
      apply sum_subset (range_subset_range.2 hn)
      intro m hm hm'
      rw [hz m (by simpa using hm') (mem_range.mp hm), zero_mul]
    rw [split] at inv
    have : u.getD k 0 = (N : K)⁻¹ * ((N : K) * u.getD k 0) := by
      rw [← mul_assoc, inv_mul_cancel₀ h.card_ne, one_mul]
    rw [this, ← inv, mul_sum]
    apply sum_congr rfl; intro j _; ring
  · rintro ⟨c, hc⟩
    apply List.all_eq_true.mpr
    intro j hj
    have hj' : nbCols + j < N := by
      have := List.mem_range.mp hj
      omega
    rw [of_beq, rsCoeff_of_evals h u hu c nbCols hn hc _ hj']
    simp

/-- Merkle completeness of `BuildMerkleTree/Open/Verify`, every depth and index -/
theorem C17b_merkle_complete (compress : D → D → D) (d : Nat) (lv : Nat → D) (i : Nat) (hi : i < 2 ^ d) :
    merkleFold compress (lv i) i (merklePath compress d lv i) = merkleRoot compress d lv :=
  merkle_complete compress d lv i hi

/-- Merkle soundness under an injective compression: a verifying (leaf, path) of the right length at an in-range
    index IS the committed leaf and its audit path -/
theorem C17b_merkle_sound (compress : D → D → D) (hinj : CompressInj compress) (d : Nat) (lv : Nat → D) (i : Nat)
    (hi : i < 2 ^ d) (leaf : D) (path : List D) (hl : path.length = d)
    (h : merkleFold compress leaf i path = merkleRoot compress d lv) :
    leaf = lv i ∧ path = merklePath compress d lv i :=
  merkle_sound compress hinj d lv i hi leaf path hl h

example : CompressInj (fun (a b : List Nat) => a.length :: (a ++ b)) := by
  intro a b a' b' h
  simp only [List.cons.injEq] at h
  obtain ⟨hl, hab⟩ := h
  exact List.append_inj hab hl

/-! ## Vortex: completeness -/

/-- coefficient `j` of the α-combination of the rows -/
def combCoeff (rows : List (List K)) (alpha : K) (j : Nat) : K :=
  ∑ i ∈ range rows.length, (rows.getD i []).getD j 0 * alpha ^ i

theorem honest_ualpha (compress : D → D → D) (leafHash : List K → D) {ω : K} {N depth nbCols : Nat}
    (rows : List (List K)) (hrows : ∀ r ∈ rows, r.length ≤ nbCols) (x alpha : K) (sel : List Nat) (k : Nat) (hk : k < N) :
    (honest (ofField K) compress leafHash ω N depth rows x alpha sel).ualpha.getD k 0
      = ∑ j ∈ range nbCols, combCoeff rows alpha j * ω ^ (j * k) := by
  simp only [honest]
  rw [getD_map_range _ _ _ hk]
  simp only [column, List.map_map]
  rw [horner_map _ ([] : List K)]
  have e : ∀ i ∈ range rows.length,
      ((fun r => nth (ofField K) r k) ∘ encode (ofField K) ω N) (rows.getD i []) * alpha ^ i
        = ∑ j ∈ range nbCols, (rows.getD i []).getD j 0 * alpha ^ i * ω ^ (j * k) := by
    intro i hi
    have hi' : i < rows.length := mem_range.mp hi
    have hmem : rows.getD i [] ∈ rows := by
      have e0 : rows.getD i [] = rows[i] := by simp [List.getD, List.getElem?_eq_getElem hi']
      rw [e0]; exact List.getElem_mem hi'
    simp only [Function.comp, encode, nth_eq]
    rw [getD_map_range _ _ _ hk, npow_eq, horner_eq_sum_of_le _ _ (hrows _ hmem), sum_mul]
    apply sum_congr rfl
    intro j _
    rw [← pow_mul, mul_comm k j]
    ring
  rw [sum_congr rfl e, sum_comm]
  apply sum_congr rfl
  intro j _
  simp only [combCoeff]
  rw [sum_mul]

theorem honest_claim (rows : List (List K)) {nbCols : Nat} (hrows : ∀ r ∈ rows, r.length ≤ nbCols) (x alpha : K) :
    horner (ofField K) (rows.map (fun r => horner (ofField K) r x)) alpha
      = ∑ j ∈ range nbCols, combCoeff rows alpha j * x ^ j := by
  rw [horner_map _ ([] : List K)]
  have e : ∀ i ∈ range rows.length, horner (ofField K) (rows.getD i []) x * alpha ^ i
      = ∑ j ∈ range nbCols, (rows.getD i []).getD j 0 * alpha ^ i * x ^ j := by
    intro i hi
    have hi' : i < rows.length := mem_range.mp hi
    have hmem : rows.getD i [] ∈ rows := by
      have e0 : rows.getD i [] = rows[i] := by simp [List.getD, List.getElem?_eq_getElem hi']
      rw [e0]; exact List.getElem_mem hi'
    rw [horner_eq_sum_of_le _ _ (hrows _ hmem), sum_mul]
    apply sum_congr rfl
    intro j _
    ring
  rw [sum_congr rfl e, sum_comm]
  apply sum_congr rfl
  intro j _
  simp only [combCoeff]
  rw [sum_mul]

theorem mem_zip_map₂ {β γ : Type} (f : Nat → β) (g : Nat → γ) : ∀ (sel : List Nat) (c : Nat) (b : β) (p : γ),
    (c, b, p) ∈ List.zip sel (List.zip (sel.map f) (sel.map g)) → b = f c ∧ p = g c ∧ c ∈ sel
  | [], _, _, _, h => by simp at h
  | s :: sel, c, b, p, h => by
    simp only [List.map_cons, List.zip_cons_cons, List.mem_cons, Prod.mk.injEq] at h
    rcases h with ⟨rfl, rfl, rfl⟩ | h
    · simp
    · obtain ⟨h1, h2, h3⟩ := mem_zip_map₂ f g sel c b p h
      exact ⟨h1, h2, List.mem_cons_of_mem _ h3⟩

theorem mem_zip_map₁ {β : Type} (f : Nat → β) : ∀ (sel : List Nat) (c : Nat) (b : β),
    (c, b) ∈ List.zip sel (sel.map f) → b = f c ∧ c ∈ sel
  | [], _, _, h => by simp at h
  | s :: sel, c, b, h => by
    simp only [List.map_cons, List.zip_cons_cons, List.mem_cons, Prod.mk.injEq] at h
    rcases h with ⟨rfl, rfl⟩ | h
    · simp
    · obtain ⟨h1, h3⟩ := mem_zip_map₁ f sel c b h
      exact ⟨h1, List.mem_cons_of_mem _ h3⟩

/-- **Completeness of Vortex.**  For every matrix (any number of rows, rows of any length `≤ nbCols`), every
    evaluation point `x` (also a point of the codeword domain), every `α`, every list of selected columns, the proof
    of the honest prover passes all five checks. -/
theorem C17b_vortex_complete (compress : D → D → D) (leafHash : List K → D) {ω : K} {depth nbCols : Nat}
    (hω : PrimRoot ω (2 ^ depth)) (hn : nbCols ≤ 2 ^ depth)
    (rows : List (List K)) (hrows : ∀ r ∈ rows, r.length ≤ nbCols) (x alpha : K)
    (sel : List Nat) (hsel : ∀ c ∈ sel, c < 2 ^ depth) :
    vxVerify (ofField K) compress leafHash ω⁻¹ nbCols (2 ^ depth) depth
      (honest (ofField K) compress leafHash ω (2 ^ depth) depth rows x alpha sel) = true := by
  have hlen : (honest (ofField K) compress leafHash ω (2 ^ depth) depth rows x alpha sel).ualpha.length = 2 ^ depth := by
    simp [honest]
  have hev := fun k hk => honest_ualpha compress leafHash (ω := ω) (N := 2 ^ depth) (depth := depth) rows hrows x alpha sel k hk
  unfold vxVerify
  simp only [Bool.and_eq_true]
  refine ⟨⟨⟨⟨?shape, ?claim⟩, ?rs⟩, ?merkle⟩, ?col⟩
  case shape =>
    simp only [checkShape, Bool.and_eq_true, beq_iff_eq, List.all_eq_true, decide_eq_true_eq]
    refine ⟨⟨⟨⟨hlen, ?_⟩, ?_⟩, ?_⟩, ?_⟩
    · simp [honest]
    · simp [honest]
    · intro c hc; exact hsel c (by simpa [honest] using hc)
    · intro p hp
      simp only [honest, List.mem_map] at hp
      obtain ⟨c, _, rfl⟩ := hp
      simp [merklePath_length]
  case claim =>
    simp only [checkClaim, of_beq]
    rw [evalLagrange_of_evals hω _ hlen (combCoeff rows alpha) nbCols hn hev]
    simp only [honest]
    exact (honest_claim rows hrows x alpha).symm
  case rs =>
    exact (C17b_rs_iff_low_degree hω hn _ hlen).mpr ⟨combCoeff rows alpha, hev⟩
  case merkle =>
    simp only [checkColumnsMerkle, List.all_eq_true, decide_eq_true_eq]
    rintro ⟨c, col, path⟩ hmem
    simp only [honest] at hmem
    obtain ⟨rfl, rfl, hc⟩ := mem_zip_map₂ _ _ sel c col path hmem
    simp only [honest]
    exact merkle_complete compress depth
      (fun c => leafHash (column (ofField K) (List.map (encode (ofField K) ω (2 ^ depth)) rows) c)) c (hsel c hc)
  case col =>
    simp only [checkColumnVsUAlpha, List.all_eq_true]
    rintro ⟨c, col⟩ hmem
    simp only [honest] at hmem
    obtain ⟨rfl, hc⟩ := mem_zip_map₁ _ sel c col hmem
    simp only [of_beq, nth_eq, honest]
    rw [getD_map_range _ _ _ (hsel c hc)]


/-- non-vacuity: a 2-row matrix over ℚ, N = 2, evaluation point ON the domain -/
example : vxVerify (ofField ℚ) (fun (a b : List ℚ) => a ++ b) id (-1 : ℚ)⁻¹ 2 (2 ^ 1) 1
    (honest (ofField ℚ) (fun (a b : List ℚ) => a ++ b) id (-1) (2 ^ 1) 1 [[1, 2], [3]] (-1) 5 [1, 0]) = true :=
  C17b_vortex_complete _ _
    ⟨by norm_num, by intro d h1 h2; have : d = 1 := by omega
                     subst this; norm_num, by norm_num, by norm_num⟩
    (by norm_num) _ (by intro r hr; simp at hr; rcases hr with rfl | rfl <;> simp) _ _ _
    (by intro c hc; simp at hc; rcases hc with rfl | rfl <;> norm_num)

/-! ## Vortex: what acceptance implies (exact acceptance, direction →) -/

/-- If the model verifier accepts against a root that IS the Merkle root of some leaf vector `lv` (hash injective),
    then (1) every opened column hashes to the committed leaf at ITS selected index, with the committed audit path;
    (2) every opened column's α-combination equals `UAlpha` at that index; (3) `UAlpha` is the evaluation vector of a
    polynomial of degree `< nbCols` whose value at `x` is the α-combination of the claimed values. -/
theorem C17b_vortex_accept_structure (compress : D → D → D) (hinj : CompressInj compress) (leafHash : List K → D)
    {ω : K} {depth nbCols : Nat} (hω : PrimRoot ω (2 ^ depth)) (hn : nbCols ≤ 2 ^ depth)
    (i : VxInput K D) (lv : Nat → D) (hroot : i.root = merkleRoot compress depth lv)
    (hv : vxVerify (ofField K) compress leafHash ω⁻¹ nbCols (2 ^ depth) depth i = true) :
    (∀ c col path, (c, col, path) ∈ List.zip i.sel (List.zip i.cols i.paths) →
        leafHash col = lv c ∧ path = merklePath compress depth lv c)
    ∧ (∀ c col, (c, col) ∈ List.zip i.sel i.cols → horner (ofField K) col i.alpha = i.ualpha.getD c 0)
    ∧ ∃ c : Nat → K, (∀ k, k < 2 ^ depth → i.ualpha.getD k 0 = ∑ j ∈ range nbCols, c j * ω ^ (j * k))
        ∧ ∑ j ∈ range nbCols, c j * i.x ^ j = horner (ofField K) i.ys i.alpha := by
  unfold vxVerify at hv
  simp only [Bool.and_eq_true] at hv
  obtain ⟨⟨⟨⟨hshape, hclaim⟩, hrs⟩, hmerkle⟩, hcol⟩ := hv
  simp only [checkShape, Bool.and_eq_true, beq_iff_eq, List.all_eq_true, decide_eq_true_eq] at hshape
  obtain ⟨⟨⟨⟨hlen, _⟩, _⟩, hselN⟩, hpl⟩ := hshape
  refine ⟨?_, ?_, ?_⟩
  · intro c col path hmem
    have h1 := List.all_eq_true.mp hmerkle _ hmem
    simp only [decide_eq_true_eq] at h1
    have hc : c < 2 ^ depth := hselN c (List.of_mem_zip hmem).1
    have hp : path.length = depth := hpl path (List.of_mem_zip (List.of_mem_zip hmem).2).2
    rw [hroot] at h1
    exact merkle_sound compress hinj depth lv c hc _ path hp h1
  · intro c col hmem
    have h1 := List.all_eq_true.mp hcol _ hmem
    simpa using h1
  · obtain ⟨c, hc⟩ := (C17b_rs_iff_low_degree hω hn _ hlen).mp hrs
    refine ⟨c, hc, ?_⟩
    simp only [checkClaim, of_beq] at hclaim
    rw [← hclaim, evalLagrange_of_evals hω _ hlen c nbCols hn hc]

/-! ## Vortex: necessity of each check (forgery families) -/

/-- shift `UAlpha` by an arbitrary vector `e` and the first claimed value by `e`'s interpolant at `x` -/
def shiftBy (ωi : K) (e : List K) (i : VxInput K D) : VxInput K D :=
  { i with
    ualpha := vadd i.ualpha e
    ys := match i.ys with
      | [] => []
      | y0 :: r => (y0 + evalLagrange (ofField K) ωi e i.x) :: r }

/-- the shift preserves shape, claim and Merkle checks, whatever `e` -/
theorem shiftBy_keeps (compress : D → D → D) (leafHash : List K → D) {ω : K} {N depth : Nat} (hω : PrimRoot ω N)
    (e : List K) (he : e.length = N) (i : VxInput K D) (hu : i.ualpha.length = N) (y0 : K) (r : List K) (hys : i.ys = y0 :: r) :
    checkShape N depth (shiftBy ω⁻¹ e i) = checkShape N depth i
    ∧ checkClaim (ofField K) ω⁻¹ (shiftBy ω⁻¹ e i) = checkClaim (ofField K) ω⁻¹ i
    ∧ checkColumnsMerkle compress leafHash (shiftBy ω⁻¹ e i) = checkColumnsMerkle compress leafHash i := by
  refine ⟨?_, ?_, rfl⟩
  · simp only [checkShape, shiftBy, vadd_length _ _ (he.trans hu.symm)]
  · simp only [checkClaim, shiftBy, hys]
    rw [evalLagrange_vadd hω _ _ hu he, Bool.eq_iff_iff, of_beq, of_beq, horner_cons, horner_cons]
    constructor <;> intro h <;> linear_combination h

/-- Reed–Solomon check after the shift ⇔ `e` is itself a codeword -/
theorem shiftBy_rs {ωi : K} {N nbCols : Nat} (e u : List K) (he : e.length = u.length)
    (hrs : checkRS (ofField K) ωi nbCols N u = true) :
    checkRS (ofField K) ωi nbCols N (vadd u e) = checkRS (ofField K) ωi nbCols N e := by
  rw [Bool.eq_iff_iff]
  simp only [checkRS, List.all_eq_true, of_beq, of_zero] at hrs ⊢
  constructor
  · intro h j hj
    have := h j hj
    rw [rsCoeff_vadd _ _ _ he, hrs j hj, zero_add] at this
    exact this
  · intro h j hj
    rw [rsCoeff_vadd _ _ _ he, hrs j hj, h j hj, zero_add]

theorem getD_replicate_lt (δ : K) (N k : Nat) (hk : k < N) : (List.replicate N δ).getD k 0 = δ := by
  simp [List.getD, hk]

theorem evalLagrange_replicate {ω : K} {N : Nat} (hω : PrimRoot ω N) (δ x : K) :
    evalLagrange (ofField K) ω⁻¹ (List.replicate N δ) x = δ := by
  rw [evalLagrange_of_evals hω _ (by simp) (fun _ => δ) 1 hω.pos (by
    intro k hk; rw [getD_replicate_lt δ N k hk]; simp)]
  simp

theorem checkRS_replicate {ω : K} {N nbCols : Nat} (hω : PrimRoot ω N) (hn : 1 ≤ nbCols) (hnN : nbCols ≤ N) (δ : K) :
    checkRS (ofField K) ω⁻¹ nbCols N (List.replicate N δ) = true := by
  apply (C17b_rs_iff_low_degree hω hnN _ (by simp)).mpr
  refine ⟨fun j => if j = 0 then δ else 0, ?_⟩
  intro k hk
  rw [getD_replicate_lt δ N k hk, sum_eq_single 0]
  · simp
  · intro j _ hj; simp [hj]
  · intro h; exact absurd (mem_range.mpr (by omega)) h

/-- **forge_UAlpha_shift** — the forgery the Go verifier accepts.  Take ANY accepted input with at least one claimed
    value and one selected column, add the constant codeword `δ ≠ 0` to `UAlpha` and `δ` to the first claimed value
    (now a claim about a different polynomial value).  Shape, claim, Reed–Solomon and Merkle checks still pass; ONLY
    the column-vs-`UAlpha` check fails. -/
theorem C17b_forge_UAlpha_shift (compress : D → D → D) (leafHash : List K → D) {ω : K} {N depth nbCols : Nat}
    (hω : PrimRoot ω N) (hn : 1 ≤ nbCols) (hnN : nbCols ≤ N) (i : VxInput K D)
    (hv : vxVerify (ofField K) compress leafHash ω⁻¹ nbCols N depth i = true)
    (y0 : K) (r : List K) (hys : i.ys = y0 :: r)
    (c : Nat) (sel' : List Nat) (hsel : i.sel = c :: sel') (col : List K) (cols' : List (List K)) (hcols : i.cols = col :: cols')
    (δ : K) (hδ : δ ≠ 0) :
    let i' := shiftBy ω⁻¹ (List.replicate N δ) i
    i'.ys = (y0 + δ) :: r
    ∧ checkShape N depth i' = true ∧ checkClaim (ofField K) ω⁻¹ i' = true
    ∧ checkRS (ofField K) ω⁻¹ nbCols N i'.ualpha = true ∧ checkColumnsMerkle compress leafHash i' = true
    ∧ checkColumnVsUAlpha (ofField K) i' = false := by
  intro i'
  unfold vxVerify at hv
  simp only [Bool.and_eq_true] at hv
  obtain ⟨⟨⟨⟨hshape, hclaim⟩, hrs⟩, hmerkle⟩, hcol⟩ := hv
  have hshape' := hshape
  simp only [checkShape, Bool.and_eq_true, beq_iff_eq, List.all_eq_true, decide_eq_true_eq] at hshape'
  obtain ⟨⟨⟨⟨hlen, _⟩, _⟩, hselN⟩, _⟩ := hshape'
  obtain ⟨k1, k2, k3⟩ := shiftBy_keeps compress leafHash (depth := depth) hω (List.replicate N δ) (by simp) i hlen y0 r hys
  refine ⟨?_, by rw [k1]; exact hshape, by rw [k2]; exact hclaim, ?_, by rw [k3]; exact hmerkle, ?_⟩
  · simp only [i', shiftBy, hys, evalLagrange_replicate hω]
  · show checkRS (ofField K) ω⁻¹ nbCols N (vadd i.ualpha (List.replicate N δ)) = true
    rw [shiftBy_rs _ _ (by simp [hlen]) hrs]
    exact checkRS_replicate hω hn hnN δ
  · have hcN : c < N := hselN c (by simp [hsel])
    have h0 : horner (ofField K) col i.alpha = i.ualpha.getD c 0 := by
      have := List.all_eq_true.mp hcol (c, col) (by simp [hsel, hcols])
      simpa using this
    rw [Bool.eq_false_iff]
    intro hall
    have := List.all_eq_true.mp hall (c, col) (by simp [i', shiftBy, hsel, hcols])
    simp only [i', shiftBy, of_beq, nth_eq] at this
    rw [getD_vadd _ _ (by simp [hlen]), getD_replicate_lt δ N c hcN, h0] at this
    exact hδ (by linear_combination -this)

/-- **forge_claim** — change the first claimed value only: ONLY the claim check fails. -/
theorem C17b_forge_claim (compress : D → D → D) (leafHash : List K → D) {ωi : K} {N depth nbCols : Nat} (i : VxInput K D)
    (hv : vxVerify (ofField K) compress leafHash ωi nbCols N depth i = true)
    (y0 : K) (r : List K) (hys : i.ys = y0 :: r) (δ : K) (hδ : δ ≠ 0) :
    let i' : VxInput K D := { i with ys := (y0 + δ) :: r }
    checkShape N depth i' = true ∧ checkRS (ofField K) ωi nbCols N i'.ualpha = true
    ∧ checkColumnsMerkle compress leafHash i' = true ∧ checkColumnVsUAlpha (ofField K) i' = true
    ∧ checkClaim (ofField K) ωi i' = false := by
  intro i'
  unfold vxVerify at hv
  simp only [Bool.and_eq_true] at hv
  obtain ⟨⟨⟨⟨hshape, hclaim⟩, hrs⟩, hmerkle⟩, hcol⟩ := hv
  refine ⟨hshape, hrs, hmerkle, hcol, ?_⟩
  rw [Bool.eq_false_iff]
  intro h
  simp only [checkClaim, of_beq, hys, horner_cons, i'] at hclaim h
  exact hδ (by linear_combination hclaim - h)

/-- a spike of height `s` at position `k0` -/
def spike (N k0 : Nat) (s : K) : List K := (List.range N).map (fun k => if k = k0 then s else 0)

theorem getD_spike (N k0 : Nat) (s : K) (k : Nat) (hk : k < N) : (spike N k0 s).getD k 0 = if k = k0 then s else 0 := by
  simp only [spike]; rw [getD_map_range _ _ _ hk]

/-- **forge_rs_spike** — add a spike at an UNSELECTED position `k0` to `UAlpha` and the spike's interpolant at `x` to the
    first claimed value: shape, claim, Merkle and column-vs-`UAlpha` checks pass; ONLY Reed–Solomon membership fails. -/
theorem C17b_forge_rs_spike (compress : D → D → D) (leafHash : List K → D) {ω : K} {N depth nbCols : Nat}
    (hω : PrimRoot ω N) (hnN : nbCols < N) (i : VxInput K D)
    (hv : vxVerify (ofField K) compress leafHash ω⁻¹ nbCols N depth i = true)
    (y0 : K) (r : List K) (hys : i.ys = y0 :: r)
    (k0 : Nat) (hk0 : k0 < N) (hun : k0 ∉ i.sel) (s : K) (hs : s ≠ 0) :
    let i' := shiftBy ω⁻¹ (spike N k0 s) i
    checkShape N depth i' = true ∧ checkClaim (ofField K) ω⁻¹ i' = true
    ∧ checkColumnsMerkle compress leafHash i' = true ∧ checkColumnVsUAlpha (ofField K) i' = true
    ∧ checkRS (ofField K) ω⁻¹ nbCols N i'.ualpha = false := by
  intro i'
  unfold vxVerify at hv
  simp only [Bool.and_eq_true] at hv
  obtain ⟨⟨⟨⟨hshape, hclaim⟩, hrs⟩, hmerkle⟩, hcol⟩ := hv
  have hshape' := hshape
  simp only [checkShape, Bool.and_eq_true, beq_iff_eq, List.all_eq_true, decide_eq_true_eq] at hshape'
  obtain ⟨⟨⟨⟨hlen, _⟩, _⟩, hselN⟩, _⟩ := hshape'
  have hsl : (spike N k0 s).length = N := by simp [spike]
  obtain ⟨k1, k2, k3⟩ := shiftBy_keeps compress leafHash (depth := depth) hω (spike N k0 s) hsl i hlen y0 r hys
  refine ⟨by rw [k1]; exact hshape, by rw [k2]; exact hclaim, by rw [k3]; exact hmerkle, ?_, ?_⟩
  · -- the spike is invisible at the selected columns
    apply List.all_eq_true.mpr
    rintro ⟨c, col⟩ hmem
    have hmem' : (c, col) ∈ List.zip i.sel i.cols := by simpa [i', shiftBy] using hmem
    have hc : c ∈ i.sel := (List.of_mem_zip hmem').1
    have h0 := List.all_eq_true.mp hcol (c, col) hmem'
    simp only [of_beq, nth_eq] at h0
    simp only [i', shiftBy, of_beq, nth_eq]
    rw [getD_vadd _ _ (by rw [hsl, hlen]), getD_spike _ _ _ _ (hselN c hc), h0]
    have : c ≠ k0 := fun e => hun (e ▸ hc)
    simp [this]
  · show checkRS (ofField K) ω⁻¹ nbCols N (vadd i.ualpha (spike N k0 s)) = false
    rw [shiftBy_rs _ _ (by rw [hsl, hlen]) hrs, Bool.eq_false_iff]
    intro h
    have := List.all_eq_true.mp h 0 (by simp; omega)
    rw [of_beq, rsCoeff_eq, hsl, sum_eq_single k0] at this
    · rw [getD_spike _ _ _ _ hk0] at this
      simp only [if_true] at this
      rcases mul_eq_zero.mp this with h1 | h1
      · exact hs h1
      · exact pow_ne_zero _ (inv_ne_zero hω.ne_zero) h1
    · intro k hk hne
      rw [getD_spike _ _ _ _ (mem_range.mp hk)]
      simp [hne]
    · intro h; exact absurd (mem_range.mpr hk0) h

/-- **forge_col_kernel** — replace the first opened column by `col + v` with `Σ αʳ·v_r = 0`, `v ≠ 0`
    (a different column with the SAME α-combination): shape, claim, Reed–Solomon and column-vs-`UAlpha` checks pass;
    ONLY the Merkle check fails (hash injective). -/
theorem C17b_forge_col_kernel (compress : D → D → D) (hinj : CompressInj compress) (leafHash : List K → D)
    (hleaf : Function.Injective leafHash) {ωi : K} {N depth nbCols : Nat} (i : VxInput K D)
    (hv : vxVerify (ofField K) compress leafHash ωi nbCols N depth i = true)
    (c : Nat) (sel' : List Nat) (hsel : i.sel = c :: sel') (col : List K) (cols' : List (List K)) (hcols : i.cols = col :: cols')
    (p : List D) (paths' : List (List D)) (hpaths : i.paths = p :: paths')
    (v : List K) (hvl : v.length = col.length) (hker : horner (ofField K) v i.alpha = 0)
    (k : Nat) (hvk : v.getD k 0 ≠ 0) :
    let i' : VxInput K D := { i with cols := vadd col v :: cols' }
    checkShape N depth i' = true ∧ checkClaim (ofField K) ωi i' = true ∧ checkRS (ofField K) ωi nbCols N i'.ualpha = true
    ∧ checkColumnVsUAlpha (ofField K) i' = true ∧ checkColumnsMerkle compress leafHash i' = false := by
  intro i'
  unfold vxVerify at hv
  simp only [Bool.and_eq_true] at hv
  obtain ⟨⟨⟨⟨hshape, hclaim⟩, hrs⟩, hmerkle⟩, hcol⟩ := hv
  refine ⟨?_, hclaim, hrs, ?_, ?_⟩
  · simpa [checkShape, i', hcols] using hshape
  · simp only [checkColumnVsUAlpha, hsel, hcols, List.zip_cons_cons, List.all_cons, Bool.and_eq_true, i'] at hcol ⊢
    refine ⟨?_, hcol.2⟩
    have := hcol.1
    simp only [of_beq] at this ⊢
    rw [horner_vadd _ _ hvl, hker, add_zero]
    exact this
  · rw [Bool.eq_false_iff]
    intro h
    simp only [checkColumnsMerkle, hsel, hcols, hpaths, List.zip_cons_cons, List.all_cons, Bool.and_eq_true,
      decide_eq_true_eq, i'] at hmerkle h
    have hne : vadd col v ≠ col := by
      intro e
      have := getD_vadd col v hvl k
      rw [e] at this
      exact hvk (by linear_combination -this)
    exact merkleFold_leaf_ne compress hinj p c _ _ (fun e => hne (hleaf e)) (h.1.trans hmerkle.1.symm)

/-- **forge_merkle_sibling** — change one sibling of the first Merkle path: ONLY the Merkle check fails. -/
theorem C17b_forge_merkle_sibling (compress : D → D → D) (hinj : CompressInj compress) (leafHash : List K → D)
    {ωi : K} {N depth nbCols : Nat} (i : VxInput K D)
    (hv : vxVerify (ofField K) compress leafHash ωi nbCols N depth i = true)
    (c : Nat) (sel' : List Nat) (hsel : i.sel = c :: sel') (col : List K) (cols' : List (List K)) (hcols : i.cols = col :: cols')
    (pre post : List D) (h h' : D) (paths' : List (List D)) (hpaths : i.paths = (pre ++ h :: post) :: paths') (hne : h ≠ h') :
    let i' : VxInput K D := { i with paths := (pre ++ h' :: post) :: paths' }
    checkShape N depth i' = true ∧ checkClaim (ofField K) ωi i' = true ∧ checkRS (ofField K) ωi nbCols N i'.ualpha = true
    ∧ checkColumnVsUAlpha (ofField K) i' = true ∧ checkColumnsMerkle compress leafHash i' = false := by
  intro i'
  unfold vxVerify at hv
  simp only [Bool.and_eq_true] at hv
  obtain ⟨⟨⟨⟨hshape, hclaim⟩, hrs⟩, hmerkle⟩, hcol⟩ := hv
  refine ⟨?_, hclaim, hrs, hcol, ?_⟩
  · simpa [checkShape, i', hpaths] using hshape
  · rw [Bool.eq_false_iff]
    intro hh
    simp only [checkColumnsMerkle, hsel, hcols, hpaths, List.zip_cons_cons, List.all_cons, Bool.and_eq_true,
      decide_eq_true_eq, i'] at hmerkle hh
    exact merkleFold_sibling_ne compress hinj pre h h' post c _ hne (hmerkle.1.trans hh.1.symm)

/-! ## FRI -/

/-- one folding round halves the degree bound -/
theorem C17b_fold_degree (x : K) (c : List K) : (foldCoeffs (ofField K) x c).length = (c.length + 1) / 2 :=
  foldCoeffs_length x c

/-- **folding consistency**: `fold(p, x)(y²) = (p(y)+p(−y))/2 + x·(p(y)−p(−y))/(2y)`, in the form the verifier computes -/
theorem C17b_fold_consistency (h2 : (2 : K) ≠ 0) (x y : K) (hy : y ≠ 0) (c : List K) :
    foldVal (ofField K) (2 : K)⁻¹ x y⁻¹ (horner (ofField K) c y) (horner (ofField K) c (-y))
      = horner (ofField K) (foldCoeffs (ofField K) x c) (y ^ 2) := by
  have key := foldCoeffs_eval x y c
  have ha : (2 : K) * (2 : K)⁻¹ = 1 := mul_inv_cancel₀ h2
  have hb : y * y⁻¹ = 1 := mul_inv_cancel₀ hy
  have h2y : (2 : K) * y ≠ 0 := mul_ne_zero h2 hy
  apply mul_left_cancel₀ h2y
  rw [pow_two, key]
  simp only [foldVal, of_mul, of_add, of_sub]
  linear_combination (y * ((horner (ofField K) c y - horner (ofField K) c (-y)) * y⁻¹ * x
      + (horner (ofField K) c y + horner (ofField K) c (-y)))) * ha
    + (x * (horner (ofField K) c y - horner (ofField K) c (-y))) * hb

example : foldVal (ofField ℚ) (2 : ℚ)⁻¹ 5 (3 : ℚ)⁻¹ (horner (ofField ℚ) [1, 2, 3, 4] 3) (horner (ofField ℚ) [1, 2, 3, 4] (-3))
    = horner (ofField ℚ) (foldCoeffs (ofField ℚ) 5 [1, 2, 3, 4]) (3 ^ 2) :=
  C17b_fold_consistency (by norm_num) 5 3 (by norm_num) _

/-- the honest prover's round: with `g^M = −1` (`2M` = size of the round's domain), the value the verifier folds from the
    two opened points of the fiber of position `t` is the next oracle's value at position `t` on the squared domain -/
theorem C17b_fri_round_honest (h2 : (2 : K) ≠ 0) (x g : K) (hg : g ≠ 0) (M : Nat) (hM : g ^ M = -1) (t : Nat) (c : List K) :
    foldVal (ofField K) (2 : K)⁻¹ x (g ^ t)⁻¹ (horner (ofField K) c (g ^ t)) (horner (ofField K) c (g ^ (t + M)))
      = horner (ofField K) (foldCoeffs (ofField K) x c) ((g ^ 2) ^ t) := by
  have e : g ^ (t + M) = -(g ^ t) := by rw [pow_add, hM]; ring
  rw [e, C17b_fold_consistency h2 x (g ^ t) (pow_ne_zero _ hg) c, ← pow_mul, ← pow_mul, mul_comm]

example : foldVal (ofField ℚ) (2 : ℚ)⁻¹ 5 ((-1 : ℚ) ^ 3)⁻¹ (horner (ofField ℚ) [1, 2, 3] ((-1) ^ 3)) (horner (ofField ℚ) [1, 2, 3] ((-1) ^ (3 + 1)))
    = horner (ofField ℚ) (foldCoeffs (ofField ℚ) 5 [1, 2, 3]) (((-1) ^ 2) ^ 3) :=
  C17b_fri_round_honest (by norm_num) 5 (-1) (by norm_num) 1 (by norm_num) 3 _

/-- **constant final evaluation**: after `s` folds a polynomial with `≤ 2^s` coefficients is constant, so every
    position of the last oracle carries the same value (`Round.Evaluation`) -/
theorem C17b_fri_final_constant (xs : List K) (c : List K) (hc : c.length ≤ 2 ^ xs.length) (y y' : K) :
    horner (ofField K) (foldAll (ofField K) xs c) y = horner (ofField K) (foldAll (ofField K) xs c) y' := by
  rw [horner_of_length_le_one _ (foldAll_length xs c hc), horner_of_length_le_one _ (foldAll_length xs c hc)]

example : horner (ofField ℚ) (foldAll (ofField ℚ) [5, 7] [1, 2, 3, 4]) 11 = horner (ofField ℚ) (foldAll (ofField ℚ) [5, 7] [1, 2, 3, 4]) 13 :=
  C17b_fri_final_constant _ _ (by simp) _ _

/-- necessity of the folding check: for a fixed challenge, the folded value determines each of the two opened values
    (unless the challenge hits the single bad value `x = ∓y`) -/
theorem C17b_foldVal_inj_left (h2 : (2 : K) ≠ 0) (x yInv l l' r : K) (hx : yInv * x + 1 ≠ 0)
    (h : foldVal (ofField K) (2 : K)⁻¹ x yInv l r = foldVal (ofField K) (2 : K)⁻¹ x yInv l' r) : l = l' := by
  simp only [foldVal, of_mul, of_add, of_sub] at h
  have h3 : (2 : K)⁻¹ ≠ 0 := inv_ne_zero h2
  have h4 := mul_right_cancel₀ h3 h
  have : (l - l') * (yInv * x + 1) = 0 := by linear_combination h4
  rcases mul_eq_zero.mp this with e | e
  · exact sub_eq_zero.mp e
  · exact (hx e).elim

theorem C17b_foldVal_inj_right (h2 : (2 : K) ≠ 0) (x yInv l r r' : K) (hx : 1 - yInv * x ≠ 0)
    (h : foldVal (ofField K) (2 : K)⁻¹ x yInv l r = foldVal (ofField K) (2 : K)⁻¹ x yInv l r') : r = r' := by
  simp only [foldVal, of_mul, of_add, of_sub] at h
  have h3 : (2 : K)⁻¹ ≠ 0 := inv_ne_zero h2
  have h4 := mul_right_cancel₀ h3 h
  have : (r - r') * (1 - yInv * x) = 0 := by linear_combination h4
  rcases mul_eq_zero.mp this with e | e
  · exact sub_eq_zero.mp e
  · exact (hx e).elim

/- FULL STATEMENT (not proved as one theorem; PARTIAL): for every curve, every size ≥ 2 and every polynomial `p` of degree
   `< size`, `friVerify ctx size (BuildProofOfProximity p) = true`, and `friVerifyOpening … (Open p pos) … = true`.
   Proved pieces: `C17b_fri_round_honest` (each folding check holds for the honest oracles, every round, every position),
   `C17b_fri_final_constant` (the last check holds), `C17b_convert_unsort`/`C17b_unsort_convert`/`C17b_fiber` (the queried
   sorted positions are the fiber of the next position).  Missing: the glue through SHA-256/Fiat–Shamir and the
   streaming Merkle tree of `accumulator/merkletree` (C16's model) – these parts are exercised by the correspondence
   (op `C17 fri honest`, computed by the model from the proof bytes, and `C17 friprove`, asserted). -/

/-- positions: `sort` puts canonical index `i` at sorted position `convertCanonicalSorted i n`
    (`sorted[2t] = ev[t]`, `sorted[2t+1] = ev[t + n/2]`); the map is a bijection of `[0,n)` for even `n` -/
def unsortIdx (p n : Nat) : Nat := if p % 2 = 0 then p / 2 else p / 2 + n / 2

theorem C17b_convert_unsort (i n : Nat) (hn : n % 2 = 0) (hi : i < n) :
    convertCanonicalSorted i n < n ∧ unsortIdx (convertCanonicalSorted i n) n = i := by
  unfold convertCanonicalSorted unsortIdx
  split_ifs with h1 h2 h2 <;> omega

theorem C17b_unsort_convert (p n : Nat) (hn : n % 2 = 0) (hp : p < n) :
    unsortIdx p n < n ∧ convertCanonicalSorted (unsortIdx p n) n = p := by
  unfold convertCanonicalSorted unsortIdx
  split_ifs with h1 h2 h2 <;> omega

/-- the two points opened at a step, sorted positions `s` and `s ± 1` (same pair `2t, 2t+1`), are the fiber
    `{g^t, g^{t+n/2}}` of `g^{2t}` -/
theorem C17b_fiber (s n : Nat) :
    unsortIdx (2 * (s / 2)) n = s / 2 ∧ unsortIdx (2 * (s / 2) + 1) n = s / 2 + n / 2 := by
  unfold unsortIdx
  constructor <;> split_ifs <;> omega


/-! ## non-vacuity of the forgery theorems: concrete accepted inputs over ℚ (N = 2, ω = −1, injective toy hash) -/

def cmpQ (a b : List ℚ) : List ℚ := (a.length : ℚ) :: (a ++ b)

theorem cmpQ_inj : CompressInj cmpQ := by
  intro a b a' b' h
  simp only [cmpQ, List.cons.injEq, Nat.cast_inj] at h
  exact List.append_inj h.2 h.1

theorem primQ : PrimRoot (-1 : ℚ) (2 ^ 1) :=
  ⟨by norm_num, by intro d h1 h2; have : d = 1 := by omega
                   subst this; norm_num, by norm_num, by norm_num⟩

/-- two rows, nbCols = 2 -/
def exQ : VxInput ℚ (List ℚ) := honest (ofField ℚ) cmpQ id (-1) (2 ^ 1) 1 [[1, 2], [3]] (-1) 5 [1, 0]
/-- two rows, nbCols = 1 < N, one selected column -/
def exQ1 : VxInput ℚ (List ℚ) := honest (ofField ℚ) cmpQ id (-1) (2 ^ 1) 1 [[1], [3]] 7 5 [1]

theorem exQ_accept : vxVerify (ofField ℚ) cmpQ id (-1 : ℚ)⁻¹ 2 (2 ^ 1) 1 exQ = true :=
  C17b_vortex_complete _ _ primQ (by norm_num) _ (by intro r hr; simp at hr; rcases hr with rfl | rfl <;> simp) _ _ _
    (by intro c hc; simp at hc; rcases hc with rfl | rfl <;> norm_num)

theorem exQ1_accept : vxVerify (ofField ℚ) cmpQ id (-1 : ℚ)⁻¹ 1 (2 ^ 1) 1 exQ1 = true :=
  C17b_vortex_complete _ _ primQ (by norm_num) _ (by intro r hr; simp at hr; rcases hr with rfl | rfl <;> simp) _ _ _
    (by intro c hc; simp at hc; subst hc; norm_num)

example := C17b_forge_UAlpha_shift cmpQ id primQ (by norm_num) (by norm_num) exQ exQ_accept _ _ rfl _ _ rfl _ _ rfl 5 (by norm_num)
example := C17b_forge_claim cmpQ id exQ exQ_accept _ _ rfl 5 (by norm_num)
example := C17b_forge_rs_spike cmpQ id primQ (by norm_num) exQ1 exQ1_accept _ _ rfl 0 (by norm_num)
  (by simp [exQ1, honest]) 3 (by norm_num)
example := C17b_forge_col_kernel cmpQ cmpQ_inj id Function.injective_id exQ exQ_accept _ _ rfl _ _ rfl _ _ rfl
  [-5, 1] rfl (by norm_num [exQ, honest]) 0 (by norm_num)
example := C17b_forge_merkle_sibling cmpQ cmpQ_inj id exQ exQ_accept _ _ rfl _ _ rfl [] []
  _ [] _ rfl (by simp [column])


/-- the constant of `koalabear.Generator` is a primitive 2^24-th root of unity (what `PrimRoot` needs of ω, on `Nat`) -/
theorem C17b_koala_root : powMod koalaRoot (2 ^ 24) koalaQ = 1 ∧ powMod koalaRoot (2 ^ 23) koalaQ = koalaQ - 1 := by
  decide +kernel

/-- SPECIFICATION of the prover-supplied tree sizes (`fri consist_nl_*`): the model accepts a re-derived proof only if it
passes the verifier's checks AND both entries of every step carry `numLeaves = |domain| / 2^i` (the verifier's own domain) -/
theorem C17b_friSpec_iff (c : FriCtx) (size : Nat) (pr : FriProof) :
    friSpec c size pr = true ↔
      friVerify c size pr = true ∧
      ∀ i, i < (nextPow2 size).log2 → ∃ e0 e1, pr.steps[i]? = some (e0, e1) ∧
        e0.numLeaves = 8 * nextPow2 size / 2 ^ i ∧ e1.numLeaves = 8 * nextPow2 size / 2 ^ i := by
  unfold friSpec friShape
  rw [Bool.and_eq_true, List.all_eq_true]
  constructor
  · rintro ⟨hs, hv⟩
    refine ⟨hv, fun i hi => ?_⟩
    have := hs i (List.mem_range.mpr hi)
    cases hst : pr.steps[i]? with
    | none => simp [hst] at this
    | some e =>
      obtain ⟨e0, e1⟩ := e
      simp only [hst, Bool.and_eq_true, beq_iff_eq] at this
      exact ⟨e0, e1, rfl, this.1, this.2⟩
  · rintro ⟨hv, hs⟩
    refine ⟨fun i hi => ?_, hv⟩
    obtain ⟨e0, e1, hst, h0, h1⟩ := hs i (List.mem_range.mp hi)
    simp [hst, h0, h1]

end GV.ArgHash
