import GnarkVerif.Props.C01
import GnarkVerif.Proofs.Chain
import GnarkVerif.Gen.Chains.Fields
import Mathlib.NumberTheory.LegendreSymbol.QuadraticReciprocity
import Mathlib.Tactic.LinearCombination
/- WRITTEN by bin/mkchains.py (generic part and per-package templates are in the script). DO NOT EDIT: edit the script and re-run it. -/
/-
C01 (tie T for the fixed-exponent addition chains) — `expBySqrtExp` / `expByLegendreExp` of element_exp.go of the 22 field
packages that have one, re-translated on every run by tools/goslp/chains.go into chain DATA (Gen/Chains/Fields.lean).

(a) `C01_chain_monoid`: in EVERY monoid, EVERY chain `c` with exponent reading `expoNat c = some n` computes `x ^ n`
    (`Proofs/Chain.lean`, induction over the step list with the register-file invariant "register i holds x^(e i)");
(b) per package, by `decide +kernel` on the regenerated chain and the regenerated modulus `GV.Gen.<pkg>.q`:
    `expoNat expByLegendreExp = (q-1)/2`, and `expoNat expBySqrtExp` = the exponent that `Sqrt` of element.go needs:
    `(q+1)/4` for q ≡ 3 (mod 4), `(q-5)/8` for q ≡ 5 (mod 8) (Atkin), `(s-1)/2` with q-1 = 2^e·s, s odd (Tonelli–Shanks),
    the congruence / decomposition re-proved from q; WHICH of the three texts `Sqrt` is (and that `Legendre` is the chain
    followed by IsZero / IsOne) is checked by the translator (text comparison, fatal otherwise) and reported in `sqrtUse`;
    for Tonelli–Shanks the literals `r` and `g` of `Sqrt` are tied to q: r = e and g has order exactly 2^e;
(c) on the value-level Montgomery model of C01 (`GV.Field`): the translated chain run with `mul` / `square` of the model
    equals `expNat` (`C01_chain_mont`), `Legendre` through the chain is the model's `legendre` (`C01_chain_legendre`, so
    `C01_legendre` applies to it), and the three `Sqrt` front ends succeed exactly on the squares / produce x^((s+1)/2), x^s.
-/
namespace GV.Chain
open GV.Field

/-! ## (a) generic -/

theorem C01_chain_monoid {M : Type} [Monoid M] (c : Chain) (n : Nat) (hn : expoNat c = some n) (x : M) :
    eval (monoidOps M) c x = x ^ n := eval_monoid c n hn x

def toy13 : Chain := { nregs := 3, out := 1, steps := [.sq 2 0 1, .mul 2 0 2, .sq 2 2 2, .mul 1 2 0] }
example : expoNat toy13 = some 13 := by decide
example : eval (monoidOps Nat) toy13 3 = 3 ^ 13 := C01_chain_monoid toy13 13 (by decide) 3
example : eval (monoidOps Nat) toy13 3 = 1594323 := by decide
/-- an ill-formed chain (register 2 read before it is written) has no exponent reading -/
example : expoNat { nregs := 3, out := 1, steps := [.mul 1 0 2] } = none := by decide

/-! ## (c) on the Montgomery model -/

def montOps (p : Params) : Ops Nat :=
  { mul := mul p, sq := square p, inv := id, sqc := square p, dec := id }

theorem mont_sim (p : Params) (h : p.OK) (x : Nat) :
    Sim natDom (montOps p) (fun t e => t < p.q ∧ abs p t = abs p x ^ e) (fun t e => t < p.q ∧ abs p t = abs p x ^ e) where
  weaken := fun _ _ h => h
  mul := by
    rintro a b e f ⟨ha, ha'⟩ ⟨hb, hb'⟩
    exact ⟨C01_mul_canonical p h a b ha hb, by
      show abs p (mul p a b) = abs p x ^ (e + f)
      rw [C01_mul_exact p h a b ha hb, ha', hb', pow_add]⟩
  sq := by
    rintro a e ⟨ha, ha'⟩
    exact ⟨(C01_square p h a ha).1, by
      show abs p (square p a) = abs p x ^ (2 * e)
      rw [(C01_square p h a ha).2, ha', ← pow_mul, Nat.mul_comm]⟩
  invF := by intro ng h; cases h
  invC := by intro ng h; cases h
  sqc := by
    rintro a e ⟨ha, ha'⟩
    exact ⟨(C01_square p h a ha).1, by
      show abs p (square p a) = abs p x ^ (2 * e)
      rw [(C01_square p h a ha).2, ha', ← pow_mul, Nat.mul_comm]⟩
  dec := fun _ _ h => h

theorem C01_chain_mont (p : Params) (h : p.OK) (c : Chain) (n : Nat) (hn : expoNat c = some n) (x : Nat) (hx : x < p.q) :
    eval (montOps p) c x < p.q ∧ abs p (eval (montOps p) c x) = abs p x ^ n ∧
    eval (montOps p) c x = expNat p x n := by
  have h1 := (mont_sim p h x).eval_spec c n hn x ⟨hx, (pow_one _).symm⟩
  obtain ⟨h2, h3⟩ := C01_expNat p h x n hx
  exact ⟨h1.1, h1.2, C01_abs_injective p h _ _ h1.1 h2 (by rw [h1.2, h3])⟩

def legendreVia (p : Params) (c : Chain) (x : Nat) : Int :=
  if x = 0 then 0 else if eval (montOps p) c x = one p then 1 else -1

theorem C01_chain_legendre (p : Params) (h : p.OK) (c : Chain) (hc : expoNat c = some ((p.q - 1) / 2))
    (x : Nat) (hx : x < p.q) : legendreVia p c x = legendre p x := by
  unfold legendreVia legendre
  rw [(C01_chain_mont p h c _ hc x hx).2.2]


/-! ## Sqrt -/

/-- `q ≡ 3 (mod 4)` (`Sqrt` of element.go: `y.expBySqrtExp(*x); square.Square(&y); if square.Equal(x) { return z.Set(&y) }; return nil`):
with a chain whose exponent reading is `(q+1)/4`, the test `y² = x` succeeds exactly for the squares, and then `y` is a root -/
theorem C01_chain_sqrt_3mod4 (p : Params) [Fact p.q.Prime] (h : p.OK) (h4 : p.q % 4 = 3) (c : Chain)
    (hc : expoNat c = some ((p.q + 1) / 4)) (x : Nat) (hx : x < p.q) :
    square p (eval (montOps p) c x) = x ↔ IsSquare (abs p x) := by
  obtain ⟨hy, hy', _⟩ := C01_chain_mont p h c _ hc x hx
  obtain ⟨hs, hs'⟩ := C01_square p h _ hy
  constructor
  · intro e
    have e' := congrArg (abs p) e
    rw [hs'] at e'
    exact ⟨abs p (eval (montOps p) c x), by rw [← e', sq]⟩
  · intro hsq
    apply C01_abs_injective p h _ _ hs hx
    rw [hs', hy', ← pow_mul]
    have e2 : (p.q + 1) / 4 * 2 = p.q / 2 + 1 := by omega
    rw [e2, pow_succ]
    by_cases h0 : abs p x = 0
    · rw [h0, mul_zero]
    · rw [(ZMod.euler_criterion p.q h0).1 hsq, one_mul]

/-- Tonelli–Shanks (`q - 1 = 2^e·s`, `s` odd; `Sqrt` of element.go: `w.expBySqrtExp(*x); y.Mul(x, &w); b.Mul(&w, &y)`):
with a chain whose exponent reading is `(s-1)/2`, `y = x^((s+1)/2)` and `b = x^s` -/
theorem C01_chain_sqrt_TS (p : Params) (h : p.OK) (s : Nat) (hs : s % 2 = 1) (c : Chain)
    (hc : expoNat c = some ((s - 1) / 2)) (x : Nat) (hx : x < p.q) :
    let w := eval (montOps p) c x
    let y := mul p x w
    let b := mul p w y
    y < p.q ∧ b < p.q ∧ abs p y = abs p x ^ ((s + 1) / 2) ∧ abs p b = abs p x ^ s ∧ abs p y ^ 2 = abs p x * abs p b := by
  intro w y b
  obtain ⟨hw, hw', _⟩ := C01_chain_mont p h c _ hc x hx
  have hy : y < p.q := C01_mul_canonical p h x w hx hw
  have hy' : abs p y = abs p x ^ ((s + 1) / 2) := by
    show abs p (mul p x w) = _
    rw [C01_mul_exact p h x w hx hw, hw', ← pow_succ']
    congr 1; omega
  have hb' : abs p b = abs p x ^ s := by
    show abs p (mul p w y) = _
    rw [C01_mul_exact p h w y hw hy, hw', hy', ← pow_add]
    congr 1; omega
  refine ⟨hy, C01_mul_canonical p h w y hw hy, hy', hb', ?_⟩
  rw [hy', hb', ← pow_mul, ← pow_succ']
  congr 1; omega

/-- Atkin, `q ≡ 5 (mod 8)` (`Sqrt` of element.go: `tx.Double(x); alpha.expBySqrtExp(tx);
beta.Square(&alpha).Mul(&beta, &tx).Sub(&beta, &one).Mul(&beta, x).Mul(&beta, &alpha)`): with a chain whose exponent reading is
`(q-5)/8`, the test `beta² = x` succeeds exactly for the squares -/
theorem C01_chain_sqrt_atkin (p : Params) [Fact p.q.Prime] (h : p.OK) (h8 : p.q % 8 = 5) (c : Chain)
    (hc : expoNat c = some ((p.q - 5) / 8)) (x : Nat) (hx : x < p.q) :
    let tx := double p x
    let alpha := eval (montOps p) c tx
    let beta := mul p (mul p (sub p (mul p (square p alpha) tx) (one p)) x) alpha
    square p beta = x ↔ IsSquare (abs p x) := by
  intro tx alpha beta
  obtain ⟨htx, htx'⟩ := C01_double p x hx
  obtain ⟨hal, hal', _⟩ := C01_chain_mont p h c _ hc tx htx
  obtain ⟨h1, h1'⟩ := C01_square p h alpha hal
  have h2 := C01_mul_canonical p h _ tx h1 htx
  have h2' := C01_mul_exact p h _ tx h1 htx
  obtain ⟨h3, h3'⟩ := C01_sub p _ (one p) h2 (C01_one p h).1
  have h4 := C01_mul_canonical p h _ x h3 hx
  have h4' := C01_mul_exact p h _ x h3 hx
  have h5 : beta < p.q := C01_mul_canonical p h _ alpha h4 hal
  have h5' : abs p beta = _ := C01_mul_exact p h _ alpha h4 hal
  obtain ⟨h6, h6'⟩ := C01_square p h beta h5
  rw [h4', h3', h2', h1', (C01_one p h).2] at h5'
  constructor
  · intro e
    have e' := congrArg (abs p) e
    rw [h6'] at e'
    exact ⟨abs p beta, by rw [← e', sq]⟩
  · intro hsq
    apply C01_abs_injective p h _ _ h6 hx
    rw [h6', h5']
    generalize abs p x = a at *
    generalize abs p alpha = al at *
    by_cases h0 : a = 0
    · subst h0; ring
    have hq2 : p.q ≠ 2 := by omega
    have two_ne : (2 : ZMod p.q) ≠ 0 := by
      intro e2
      have := (ZMod.natCast_eq_zero_iff 2 p.q).1 (by exact_mod_cast e2)
      have := Nat.le_of_dvd (by norm_num) this
      omega
    have e2 : (2 : ZMod p.q) ^ (p.q / 2) = -1 := by
      rcases ZMod.pow_div_two_eq_neg_one_or_one p.q two_ne with e | e
      · have := (ZMod.exists_sq_eq_two_iff hq2).1 ((ZMod.euler_criterion p.q two_ne).2 e)
        omega
      · exact e
    have ea : a ^ (p.q / 2) = 1 := (ZMod.euler_criterion p.q h0).1 hsq
    have hi : al ^ 4 * (2 * a) ^ 2 = -1 := by
      rw [hal', htx', ← pow_mul, ← pow_add]
      have : (p.q - 5) / 8 * 4 + 2 = p.q / 2 := by omega
      rw [this, mul_pow, e2, ea, mul_one]
    have ht : (2 * a) ≠ 0 := mul_ne_zero two_ne h0
    apply mul_right_cancel₀ ht
    rw [htx']
    linear_combination (al ^ 2 * (2 * a) * a ^ 2 - 2 * a ^ 2) * hi

/-! ## (b), (c) per package -/

namespace bls12_377_fp
abbrev P : Params := ofConsts GV.Gen.bls12_377_fp
theorem P_ok : P.OK := Params.OK_of_okb _ (by decide +kernel)
/-- `expByLegendreExp` raises to `(q-1)/2` -/
theorem legendre_expo : expoNat Gen.Chains.bls12_377_fp.expByLegendreExp = some ((GV.Gen.bls12_377_fp.q - 1) / 2) := by decide +kernel
/-- `Legendre` computed through the translated chain is the model's `legendre` (Euler's criterion: `C01_legendre`) -/
theorem legendre_chain (x : Nat) (hx : x < GV.Gen.bls12_377_fp.q) :
    legendreVia P Gen.Chains.bls12_377_fp.expByLegendreExp x = legendre P x := C01_chain_legendre P P_ok _ legendre_expo x hx
/-- `Sqrt` is the Tonelli–Shanks text, its literal `r` is the 2-adic valuation `e` of `q-1 = 2^e·s` (`s` odd), and
`expBySqrtExp` raises to `(s-1)/2` -/
theorem sqrt_expo : Gen.Chains.bls12_377_fp.sqrtUse.kind = 2 ∧ 0 < Gen.Chains.bls12_377_fp.sqrtUse.e ∧
    GV.Gen.bls12_377_fp.q - 1 = 2 ^ Gen.Chains.bls12_377_fp.sqrtUse.e * oddPart (GV.Gen.bls12_377_fp.q - 1) ∧ oddPart (GV.Gen.bls12_377_fp.q - 1) % 2 = 1 ∧
    expoNat Gen.Chains.bls12_377_fp.expBySqrtExp = some ((oddPart (GV.Gen.bls12_377_fp.q - 1) - 1) / 2) := by decide +kernel
/-- the literal `g` of `Sqrt` (Montgomery limbs) is canonical and has order exactly `2^e`: `g^(2^(e-1)) = -1` -/
theorem sqrt_g : limbsVal GV.Gen.bls12_377_fp.word Gen.Chains.bls12_377_fp.sqrtUse.g < GV.Gen.bls12_377_fp.q ∧
    expNat P (limbsVal GV.Gen.bls12_377_fp.word Gen.Chains.bls12_377_fp.sqrtUse.g) (2 ^ (Gen.Chains.bls12_377_fp.sqrtUse.e - 1)) = neg P (one P) := by
  decide +kernel
/-- the straight-line front end of `Sqrt`: `w = x^((s-1)/2)`, `y = x·w = x^((s+1)/2)`, `b = w·y = x^s`, `y² = x·b` -/
theorem sqrt_chain (x : Nat) (hx : x < GV.Gen.bls12_377_fp.q) :
    let w := eval (montOps P) Gen.Chains.bls12_377_fp.expBySqrtExp x
    let y := mul P x w
    let b := mul P w y
    y < P.q ∧ b < P.q ∧ Field.abs P y = Field.abs P x ^ ((oddPart (GV.Gen.bls12_377_fp.q - 1) + 1) / 2) ∧
      Field.abs P b = Field.abs P x ^ oddPart (GV.Gen.bls12_377_fp.q - 1) ∧ Field.abs P y ^ 2 = Field.abs P x * Field.abs P b :=
  C01_chain_sqrt_TS P P_ok _ sqrt_expo.2.2.2.1 _ sqrt_expo.2.2.2.2 x hx
end bls12_377_fp

namespace bls12_377_fr
abbrev P : Params := ofConsts GV.Gen.bls12_377_fr
theorem P_ok : P.OK := Params.OK_of_okb _ (by decide +kernel)
/-- `expByLegendreExp` raises to `(q-1)/2` -/
theorem legendre_expo : expoNat Gen.Chains.bls12_377_fr.expByLegendreExp = some ((GV.Gen.bls12_377_fr.q - 1) / 2) := by decide +kernel
/-- `Legendre` computed through the translated chain is the model's `legendre` (Euler's criterion: `C01_legendre`) -/
theorem legendre_chain (x : Nat) (hx : x < GV.Gen.bls12_377_fr.q) :
    legendreVia P Gen.Chains.bls12_377_fr.expByLegendreExp x = legendre P x := C01_chain_legendre P P_ok _ legendre_expo x hx
/-- `Sqrt` is the Tonelli–Shanks text, its literal `r` is the 2-adic valuation `e` of `q-1 = 2^e·s` (`s` odd), and
`expBySqrtExp` raises to `(s-1)/2` -/
theorem sqrt_expo : Gen.Chains.bls12_377_fr.sqrtUse.kind = 2 ∧ 0 < Gen.Chains.bls12_377_fr.sqrtUse.e ∧
    GV.Gen.bls12_377_fr.q - 1 = 2 ^ Gen.Chains.bls12_377_fr.sqrtUse.e * oddPart (GV.Gen.bls12_377_fr.q - 1) ∧ oddPart (GV.Gen.bls12_377_fr.q - 1) % 2 = 1 ∧
    expoNat Gen.Chains.bls12_377_fr.expBySqrtExp = some ((oddPart (GV.Gen.bls12_377_fr.q - 1) - 1) / 2) := by decide +kernel
/-- the literal `g` of `Sqrt` (Montgomery limbs) is canonical and has order exactly `2^e`: `g^(2^(e-1)) = -1` -/
theorem sqrt_g : limbsVal GV.Gen.bls12_377_fr.word Gen.Chains.bls12_377_fr.sqrtUse.g < GV.Gen.bls12_377_fr.q ∧
    expNat P (limbsVal GV.Gen.bls12_377_fr.word Gen.Chains.bls12_377_fr.sqrtUse.g) (2 ^ (Gen.Chains.bls12_377_fr.sqrtUse.e - 1)) = neg P (one P) := by
  decide +kernel
/-- the straight-line front end of `Sqrt`: `w = x^((s-1)/2)`, `y = x·w = x^((s+1)/2)`, `b = w·y = x^s`, `y² = x·b` -/
theorem sqrt_chain (x : Nat) (hx : x < GV.Gen.bls12_377_fr.q) :
    let w := eval (montOps P) Gen.Chains.bls12_377_fr.expBySqrtExp x
    let y := mul P x w
    let b := mul P w y
    y < P.q ∧ b < P.q ∧ Field.abs P y = Field.abs P x ^ ((oddPart (GV.Gen.bls12_377_fr.q - 1) + 1) / 2) ∧
      Field.abs P b = Field.abs P x ^ oddPart (GV.Gen.bls12_377_fr.q - 1) ∧ Field.abs P y ^ 2 = Field.abs P x * Field.abs P b :=
  C01_chain_sqrt_TS P P_ok _ sqrt_expo.2.2.2.1 _ sqrt_expo.2.2.2.2 x hx
end bls12_377_fr

namespace bls12_381_fp
abbrev P : Params := ofConsts GV.Gen.bls12_381_fp
theorem P_ok : P.OK := Params.OK_of_okb _ (by decide +kernel)
/-- `expByLegendreExp` raises to `(q-1)/2` -/
theorem legendre_expo : expoNat Gen.Chains.bls12_381_fp.expByLegendreExp = some ((GV.Gen.bls12_381_fp.q - 1) / 2) := by decide +kernel
/-- `Legendre` computed through the translated chain is the model's `legendre` (Euler's criterion: `C01_legendre`) -/
theorem legendre_chain (x : Nat) (hx : x < GV.Gen.bls12_381_fp.q) :
    legendreVia P Gen.Chains.bls12_381_fp.expByLegendreExp x = legendre P x := C01_chain_legendre P P_ok _ legendre_expo x hx
/-- q ≡ 3 (mod 4), `Sqrt` is the `y = x^k; y² = x ?` text, and `expBySqrtExp` raises to `k = (q+1)/4` -/
theorem sqrt_expo : GV.Gen.bls12_381_fp.q % 4 = 3 ∧ Gen.Chains.bls12_381_fp.sqrtUse.kind = 0 ∧
    expoNat Gen.Chains.bls12_381_fp.expBySqrtExp = some ((GV.Gen.bls12_381_fp.q + 1) / 4) := by decide +kernel
/-- the test `square.Equal(x)` of `Sqrt` succeeds exactly for the squares (and then `y` is a root) -/
theorem sqrt_chain [Fact P.q.Prime] (x : Nat) (hx : x < GV.Gen.bls12_381_fp.q) :
    square P (eval (montOps P) Gen.Chains.bls12_381_fp.expBySqrtExp x) = x ↔ IsSquare (Field.abs P x) :=
  C01_chain_sqrt_3mod4 P P_ok sqrt_expo.1 _ sqrt_expo.2.2 x hx
end bls12_381_fp

namespace bls12_381_fr
abbrev P : Params := ofConsts GV.Gen.bls12_381_fr
theorem P_ok : P.OK := Params.OK_of_okb _ (by decide +kernel)
/-- `expByLegendreExp` raises to `(q-1)/2` -/
theorem legendre_expo : expoNat Gen.Chains.bls12_381_fr.expByLegendreExp = some ((GV.Gen.bls12_381_fr.q - 1) / 2) := by decide +kernel
/-- `Legendre` computed through the translated chain is the model's `legendre` (Euler's criterion: `C01_legendre`) -/
theorem legendre_chain (x : Nat) (hx : x < GV.Gen.bls12_381_fr.q) :
    legendreVia P Gen.Chains.bls12_381_fr.expByLegendreExp x = legendre P x := C01_chain_legendre P P_ok _ legendre_expo x hx
/-- `Sqrt` is the Tonelli–Shanks text, its literal `r` is the 2-adic valuation `e` of `q-1 = 2^e·s` (`s` odd), and
`expBySqrtExp` raises to `(s-1)/2` -/
theorem sqrt_expo : Gen.Chains.bls12_381_fr.sqrtUse.kind = 2 ∧ 0 < Gen.Chains.bls12_381_fr.sqrtUse.e ∧
    GV.Gen.bls12_381_fr.q - 1 = 2 ^ Gen.Chains.bls12_381_fr.sqrtUse.e * oddPart (GV.Gen.bls12_381_fr.q - 1) ∧ oddPart (GV.Gen.bls12_381_fr.q - 1) % 2 = 1 ∧
    expoNat Gen.Chains.bls12_381_fr.expBySqrtExp = some ((oddPart (GV.Gen.bls12_381_fr.q - 1) - 1) / 2) := by decide +kernel
/-- the literal `g` of `Sqrt` (Montgomery limbs) is canonical and has order exactly `2^e`: `g^(2^(e-1)) = -1` -/
theorem sqrt_g : limbsVal GV.Gen.bls12_381_fr.word Gen.Chains.bls12_381_fr.sqrtUse.g < GV.Gen.bls12_381_fr.q ∧
    expNat P (limbsVal GV.Gen.bls12_381_fr.word Gen.Chains.bls12_381_fr.sqrtUse.g) (2 ^ (Gen.Chains.bls12_381_fr.sqrtUse.e - 1)) = neg P (one P) := by
  decide +kernel
/-- the straight-line front end of `Sqrt`: `w = x^((s-1)/2)`, `y = x·w = x^((s+1)/2)`, `b = w·y = x^s`, `y² = x·b` -/
theorem sqrt_chain (x : Nat) (hx : x < GV.Gen.bls12_381_fr.q) :
    let w := eval (montOps P) Gen.Chains.bls12_381_fr.expBySqrtExp x
    let y := mul P x w
    let b := mul P w y
    y < P.q ∧ b < P.q ∧ Field.abs P y = Field.abs P x ^ ((oddPart (GV.Gen.bls12_381_fr.q - 1) + 1) / 2) ∧
      Field.abs P b = Field.abs P x ^ oddPart (GV.Gen.bls12_381_fr.q - 1) ∧ Field.abs P y ^ 2 = Field.abs P x * Field.abs P b :=
  C01_chain_sqrt_TS P P_ok _ sqrt_expo.2.2.2.1 _ sqrt_expo.2.2.2.2 x hx
end bls12_381_fr

namespace bls24_315_fp
abbrev P : Params := ofConsts GV.Gen.bls24_315_fp
theorem P_ok : P.OK := Params.OK_of_okb _ (by decide +kernel)
/-- `expByLegendreExp` raises to `(q-1)/2` -/
theorem legendre_expo : expoNat Gen.Chains.bls24_315_fp.expByLegendreExp = some ((GV.Gen.bls24_315_fp.q - 1) / 2) := by decide +kernel
/-- `Legendre` computed through the translated chain is the model's `legendre` (Euler's criterion: `C01_legendre`) -/
theorem legendre_chain (x : Nat) (hx : x < GV.Gen.bls24_315_fp.q) :
    legendreVia P Gen.Chains.bls24_315_fp.expByLegendreExp x = legendre P x := C01_chain_legendre P P_ok _ legendre_expo x hx
/-- `Sqrt` is the Tonelli–Shanks text, its literal `r` is the 2-adic valuation `e` of `q-1 = 2^e·s` (`s` odd), and
`expBySqrtExp` raises to `(s-1)/2` -/
theorem sqrt_expo : Gen.Chains.bls24_315_fp.sqrtUse.kind = 2 ∧ 0 < Gen.Chains.bls24_315_fp.sqrtUse.e ∧
    GV.Gen.bls24_315_fp.q - 1 = 2 ^ Gen.Chains.bls24_315_fp.sqrtUse.e * oddPart (GV.Gen.bls24_315_fp.q - 1) ∧ oddPart (GV.Gen.bls24_315_fp.q - 1) % 2 = 1 ∧
    expoNat Gen.Chains.bls24_315_fp.expBySqrtExp = some ((oddPart (GV.Gen.bls24_315_fp.q - 1) - 1) / 2) := by decide +kernel
/-- the literal `g` of `Sqrt` (Montgomery limbs) is canonical and has order exactly `2^e`: `g^(2^(e-1)) = -1` -/
theorem sqrt_g : limbsVal GV.Gen.bls24_315_fp.word Gen.Chains.bls24_315_fp.sqrtUse.g < GV.Gen.bls24_315_fp.q ∧
    expNat P (limbsVal GV.Gen.bls24_315_fp.word Gen.Chains.bls24_315_fp.sqrtUse.g) (2 ^ (Gen.Chains.bls24_315_fp.sqrtUse.e - 1)) = neg P (one P) := by
  decide +kernel
/-- the straight-line front end of `Sqrt`: `w = x^((s-1)/2)`, `y = x·w = x^((s+1)/2)`, `b = w·y = x^s`, `y² = x·b` -/
theorem sqrt_chain (x : Nat) (hx : x < GV.Gen.bls24_315_fp.q) :
    let w := eval (montOps P) Gen.Chains.bls24_315_fp.expBySqrtExp x
    let y := mul P x w
    let b := mul P w y
    y < P.q ∧ b < P.q ∧ Field.abs P y = Field.abs P x ^ ((oddPart (GV.Gen.bls24_315_fp.q - 1) + 1) / 2) ∧
      Field.abs P b = Field.abs P x ^ oddPart (GV.Gen.bls24_315_fp.q - 1) ∧ Field.abs P y ^ 2 = Field.abs P x * Field.abs P b :=
  C01_chain_sqrt_TS P P_ok _ sqrt_expo.2.2.2.1 _ sqrt_expo.2.2.2.2 x hx
end bls24_315_fp

namespace bls24_315_fr
abbrev P : Params := ofConsts GV.Gen.bls24_315_fr
theorem P_ok : P.OK := Params.OK_of_okb _ (by decide +kernel)
/-- `expByLegendreExp` raises to `(q-1)/2` -/
theorem legendre_expo : expoNat Gen.Chains.bls24_315_fr.expByLegendreExp = some ((GV.Gen.bls24_315_fr.q - 1) / 2) := by decide +kernel
/-- `Legendre` computed through the translated chain is the model's `legendre` (Euler's criterion: `C01_legendre`) -/
theorem legendre_chain (x : Nat) (hx : x < GV.Gen.bls24_315_fr.q) :
    legendreVia P Gen.Chains.bls24_315_fr.expByLegendreExp x = legendre P x := C01_chain_legendre P P_ok _ legendre_expo x hx
/-- `Sqrt` is the Tonelli–Shanks text, its literal `r` is the 2-adic valuation `e` of `q-1 = 2^e·s` (`s` odd), and
`expBySqrtExp` raises to `(s-1)/2` -/
theorem sqrt_expo : Gen.Chains.bls24_315_fr.sqrtUse.kind = 2 ∧ 0 < Gen.Chains.bls24_315_fr.sqrtUse.e ∧
    GV.Gen.bls24_315_fr.q - 1 = 2 ^ Gen.Chains.bls24_315_fr.sqrtUse.e * oddPart (GV.Gen.bls24_315_fr.q - 1) ∧ oddPart (GV.Gen.bls24_315_fr.q - 1) % 2 = 1 ∧
    expoNat Gen.Chains.bls24_315_fr.expBySqrtExp = some ((oddPart (GV.Gen.bls24_315_fr.q - 1) - 1) / 2) := by decide +kernel
/-- the literal `g` of `Sqrt` (Montgomery limbs) is canonical and has order exactly `2^e`: `g^(2^(e-1)) = -1` -/
theorem sqrt_g : limbsVal GV.Gen.bls24_315_fr.word Gen.Chains.bls24_315_fr.sqrtUse.g < GV.Gen.bls24_315_fr.q ∧
    expNat P (limbsVal GV.Gen.bls24_315_fr.word Gen.Chains.bls24_315_fr.sqrtUse.g) (2 ^ (Gen.Chains.bls24_315_fr.sqrtUse.e - 1)) = neg P (one P) := by
  decide +kernel
/-- the straight-line front end of `Sqrt`: `w = x^((s-1)/2)`, `y = x·w = x^((s+1)/2)`, `b = w·y = x^s`, `y² = x·b` -/
theorem sqrt_chain (x : Nat) (hx : x < GV.Gen.bls24_315_fr.q) :
    let w := eval (montOps P) Gen.Chains.bls24_315_fr.expBySqrtExp x
    let y := mul P x w
    let b := mul P w y
    y < P.q ∧ b < P.q ∧ Field.abs P y = Field.abs P x ^ ((oddPart (GV.Gen.bls24_315_fr.q - 1) + 1) / 2) ∧
      Field.abs P b = Field.abs P x ^ oddPart (GV.Gen.bls24_315_fr.q - 1) ∧ Field.abs P y ^ 2 = Field.abs P x * Field.abs P b :=
  C01_chain_sqrt_TS P P_ok _ sqrt_expo.2.2.2.1 _ sqrt_expo.2.2.2.2 x hx
end bls24_315_fr

namespace bls24_317_fp
abbrev P : Params := ofConsts GV.Gen.bls24_317_fp
theorem P_ok : P.OK := Params.OK_of_okb _ (by decide +kernel)
/-- `expByLegendreExp` raises to `(q-1)/2` -/
theorem legendre_expo : expoNat Gen.Chains.bls24_317_fp.expByLegendreExp = some ((GV.Gen.bls24_317_fp.q - 1) / 2) := by decide +kernel
/-- `Legendre` computed through the translated chain is the model's `legendre` (Euler's criterion: `C01_legendre`) -/
theorem legendre_chain (x : Nat) (hx : x < GV.Gen.bls24_317_fp.q) :
    legendreVia P Gen.Chains.bls24_317_fp.expByLegendreExp x = legendre P x := C01_chain_legendre P P_ok _ legendre_expo x hx
/-- q ≡ 3 (mod 4), `Sqrt` is the `y = x^k; y² = x ?` text, and `expBySqrtExp` raises to `k = (q+1)/4` -/
theorem sqrt_expo : GV.Gen.bls24_317_fp.q % 4 = 3 ∧ Gen.Chains.bls24_317_fp.sqrtUse.kind = 0 ∧
    expoNat Gen.Chains.bls24_317_fp.expBySqrtExp = some ((GV.Gen.bls24_317_fp.q + 1) / 4) := by decide +kernel
/-- the test `square.Equal(x)` of `Sqrt` succeeds exactly for the squares (and then `y` is a root) -/
theorem sqrt_chain [Fact P.q.Prime] (x : Nat) (hx : x < GV.Gen.bls24_317_fp.q) :
    square P (eval (montOps P) Gen.Chains.bls24_317_fp.expBySqrtExp x) = x ↔ IsSquare (Field.abs P x) :=
  C01_chain_sqrt_3mod4 P P_ok sqrt_expo.1 _ sqrt_expo.2.2 x hx
end bls24_317_fp

namespace bls24_317_fr
abbrev P : Params := ofConsts GV.Gen.bls24_317_fr
theorem P_ok : P.OK := Params.OK_of_okb _ (by decide +kernel)
/-- `expByLegendreExp` raises to `(q-1)/2` -/
theorem legendre_expo : expoNat Gen.Chains.bls24_317_fr.expByLegendreExp = some ((GV.Gen.bls24_317_fr.q - 1) / 2) := by decide +kernel
/-- `Legendre` computed through the translated chain is the model's `legendre` (Euler's criterion: `C01_legendre`) -/
theorem legendre_chain (x : Nat) (hx : x < GV.Gen.bls24_317_fr.q) :
    legendreVia P Gen.Chains.bls24_317_fr.expByLegendreExp x = legendre P x := C01_chain_legendre P P_ok _ legendre_expo x hx
/-- `Sqrt` is the Tonelli–Shanks text, its literal `r` is the 2-adic valuation `e` of `q-1 = 2^e·s` (`s` odd), and
`expBySqrtExp` raises to `(s-1)/2` -/
theorem sqrt_expo : Gen.Chains.bls24_317_fr.sqrtUse.kind = 2 ∧ 0 < Gen.Chains.bls24_317_fr.sqrtUse.e ∧
    GV.Gen.bls24_317_fr.q - 1 = 2 ^ Gen.Chains.bls24_317_fr.sqrtUse.e * oddPart (GV.Gen.bls24_317_fr.q - 1) ∧ oddPart (GV.Gen.bls24_317_fr.q - 1) % 2 = 1 ∧
    expoNat Gen.Chains.bls24_317_fr.expBySqrtExp = some ((oddPart (GV.Gen.bls24_317_fr.q - 1) - 1) / 2) := by decide +kernel
/-- the literal `g` of `Sqrt` (Montgomery limbs) is canonical and has order exactly `2^e`: `g^(2^(e-1)) = -1` -/
theorem sqrt_g : limbsVal GV.Gen.bls24_317_fr.word Gen.Chains.bls24_317_fr.sqrtUse.g < GV.Gen.bls24_317_fr.q ∧
    expNat P (limbsVal GV.Gen.bls24_317_fr.word Gen.Chains.bls24_317_fr.sqrtUse.g) (2 ^ (Gen.Chains.bls24_317_fr.sqrtUse.e - 1)) = neg P (one P) := by
  decide +kernel
/-- the straight-line front end of `Sqrt`: `w = x^((s-1)/2)`, `y = x·w = x^((s+1)/2)`, `b = w·y = x^s`, `y² = x·b` -/
theorem sqrt_chain (x : Nat) (hx : x < GV.Gen.bls24_317_fr.q) :
    let w := eval (montOps P) Gen.Chains.bls24_317_fr.expBySqrtExp x
    let y := mul P x w
    let b := mul P w y
    y < P.q ∧ b < P.q ∧ Field.abs P y = Field.abs P x ^ ((oddPart (GV.Gen.bls24_317_fr.q - 1) + 1) / 2) ∧
      Field.abs P b = Field.abs P x ^ oddPart (GV.Gen.bls24_317_fr.q - 1) ∧ Field.abs P y ^ 2 = Field.abs P x * Field.abs P b :=
  C01_chain_sqrt_TS P P_ok _ sqrt_expo.2.2.2.1 _ sqrt_expo.2.2.2.2 x hx
end bls24_317_fr

namespace bn254_fp
abbrev P : Params := ofConsts GV.Gen.bn254_fp
theorem P_ok : P.OK := Params.OK_of_okb _ (by decide +kernel)
/-- `expByLegendreExp` raises to `(q-1)/2` -/
theorem legendre_expo : expoNat Gen.Chains.bn254_fp.expByLegendreExp = some ((GV.Gen.bn254_fp.q - 1) / 2) := by decide +kernel
/-- `Legendre` computed through the translated chain is the model's `legendre` (Euler's criterion: `C01_legendre`) -/
theorem legendre_chain (x : Nat) (hx : x < GV.Gen.bn254_fp.q) :
    legendreVia P Gen.Chains.bn254_fp.expByLegendreExp x = legendre P x := C01_chain_legendre P P_ok _ legendre_expo x hx
/-- q ≡ 3 (mod 4), `Sqrt` is the `y = x^k; y² = x ?` text, and `expBySqrtExp` raises to `k = (q+1)/4` -/
theorem sqrt_expo : GV.Gen.bn254_fp.q % 4 = 3 ∧ Gen.Chains.bn254_fp.sqrtUse.kind = 0 ∧
    expoNat Gen.Chains.bn254_fp.expBySqrtExp = some ((GV.Gen.bn254_fp.q + 1) / 4) := by decide +kernel
/-- the test `square.Equal(x)` of `Sqrt` succeeds exactly for the squares (and then `y` is a root) -/
theorem sqrt_chain [Fact P.q.Prime] (x : Nat) (hx : x < GV.Gen.bn254_fp.q) :
    square P (eval (montOps P) Gen.Chains.bn254_fp.expBySqrtExp x) = x ↔ IsSquare (Field.abs P x) :=
  C01_chain_sqrt_3mod4 P P_ok sqrt_expo.1 _ sqrt_expo.2.2 x hx
end bn254_fp

namespace bn254_fr
abbrev P : Params := ofConsts GV.Gen.bn254_fr
theorem P_ok : P.OK := Params.OK_of_okb _ (by decide +kernel)
/-- `expByLegendreExp` raises to `(q-1)/2` -/
theorem legendre_expo : expoNat Gen.Chains.bn254_fr.expByLegendreExp = some ((GV.Gen.bn254_fr.q - 1) / 2) := by decide +kernel
/-- `Legendre` computed through the translated chain is the model's `legendre` (Euler's criterion: `C01_legendre`) -/
theorem legendre_chain (x : Nat) (hx : x < GV.Gen.bn254_fr.q) :
    legendreVia P Gen.Chains.bn254_fr.expByLegendreExp x = legendre P x := C01_chain_legendre P P_ok _ legendre_expo x hx
/-- `Sqrt` is the Tonelli–Shanks text, its literal `r` is the 2-adic valuation `e` of `q-1 = 2^e·s` (`s` odd), and
`expBySqrtExp` raises to `(s-1)/2` -/
theorem sqrt_expo : Gen.Chains.bn254_fr.sqrtUse.kind = 2 ∧ 0 < Gen.Chains.bn254_fr.sqrtUse.e ∧
    GV.Gen.bn254_fr.q - 1 = 2 ^ Gen.Chains.bn254_fr.sqrtUse.e * oddPart (GV.Gen.bn254_fr.q - 1) ∧ oddPart (GV.Gen.bn254_fr.q - 1) % 2 = 1 ∧
    expoNat Gen.Chains.bn254_fr.expBySqrtExp = some ((oddPart (GV.Gen.bn254_fr.q - 1) - 1) / 2) := by decide +kernel
/-- the literal `g` of `Sqrt` (Montgomery limbs) is canonical and has order exactly `2^e`: `g^(2^(e-1)) = -1` -/
theorem sqrt_g : limbsVal GV.Gen.bn254_fr.word Gen.Chains.bn254_fr.sqrtUse.g < GV.Gen.bn254_fr.q ∧
    expNat P (limbsVal GV.Gen.bn254_fr.word Gen.Chains.bn254_fr.sqrtUse.g) (2 ^ (Gen.Chains.bn254_fr.sqrtUse.e - 1)) = neg P (one P) := by
  decide +kernel
/-- the straight-line front end of `Sqrt`: `w = x^((s-1)/2)`, `y = x·w = x^((s+1)/2)`, `b = w·y = x^s`, `y² = x·b` -/
theorem sqrt_chain (x : Nat) (hx : x < GV.Gen.bn254_fr.q) :
    let w := eval (montOps P) Gen.Chains.bn254_fr.expBySqrtExp x
    let y := mul P x w
    let b := mul P w y
    y < P.q ∧ b < P.q ∧ Field.abs P y = Field.abs P x ^ ((oddPart (GV.Gen.bn254_fr.q - 1) + 1) / 2) ∧
      Field.abs P b = Field.abs P x ^ oddPart (GV.Gen.bn254_fr.q - 1) ∧ Field.abs P y ^ 2 = Field.abs P x * Field.abs P b :=
  C01_chain_sqrt_TS P P_ok _ sqrt_expo.2.2.2.1 _ sqrt_expo.2.2.2.2 x hx
end bn254_fr

namespace bw6_633_fp
abbrev P : Params := ofConsts GV.Gen.bw6_633_fp
theorem P_ok : P.OK := Params.OK_of_okb _ (by decide +kernel)
/-- `expByLegendreExp` raises to `(q-1)/2` -/
theorem legendre_expo : expoNat Gen.Chains.bw6_633_fp.expByLegendreExp = some ((GV.Gen.bw6_633_fp.q - 1) / 2) := by decide +kernel
/-- `Legendre` computed through the translated chain is the model's `legendre` (Euler's criterion: `C01_legendre`) -/
theorem legendre_chain (x : Nat) (hx : x < GV.Gen.bw6_633_fp.q) :
    legendreVia P Gen.Chains.bw6_633_fp.expByLegendreExp x = legendre P x := C01_chain_legendre P P_ok _ legendre_expo x hx
/-- q ≡ 5 (mod 8), `Sqrt` is Atkin's text, and `expBySqrtExp` raises to `(q-5)/8` -/
theorem sqrt_expo : GV.Gen.bw6_633_fp.q % 8 = 5 ∧ Gen.Chains.bw6_633_fp.sqrtUse.kind = 1 ∧
    expoNat Gen.Chains.bw6_633_fp.expBySqrtExp = some ((GV.Gen.bw6_633_fp.q - 5) / 8) := by decide +kernel
/-- the test `square.Equal(x)` of `Sqrt` succeeds exactly for the squares (and then `beta` is a root) -/
theorem sqrt_chain [Fact P.q.Prime] (x : Nat) (hx : x < GV.Gen.bw6_633_fp.q) :
    let tx := double P x
    let alpha := eval (montOps P) Gen.Chains.bw6_633_fp.expBySqrtExp tx
    let beta := mul P (mul P (sub P (mul P (square P alpha) tx) (one P)) x) alpha
    square P beta = x ↔ IsSquare (Field.abs P x) :=
  C01_chain_sqrt_atkin P P_ok sqrt_expo.1 _ sqrt_expo.2.2 x hx
end bw6_633_fp

namespace bw6_633_fr
abbrev P : Params := ofConsts GV.Gen.bw6_633_fr
theorem P_ok : P.OK := Params.OK_of_okb _ (by decide +kernel)
/-- `expByLegendreExp` raises to `(q-1)/2` -/
theorem legendre_expo : expoNat Gen.Chains.bw6_633_fr.expByLegendreExp = some ((GV.Gen.bw6_633_fr.q - 1) / 2) := by decide +kernel
/-- `Legendre` computed through the translated chain is the model's `legendre` (Euler's criterion: `C01_legendre`) -/
theorem legendre_chain (x : Nat) (hx : x < GV.Gen.bw6_633_fr.q) :
    legendreVia P Gen.Chains.bw6_633_fr.expByLegendreExp x = legendre P x := C01_chain_legendre P P_ok _ legendre_expo x hx
/-- `Sqrt` is the Tonelli–Shanks text, its literal `r` is the 2-adic valuation `e` of `q-1 = 2^e·s` (`s` odd), and
`expBySqrtExp` raises to `(s-1)/2` -/
theorem sqrt_expo : Gen.Chains.bw6_633_fr.sqrtUse.kind = 2 ∧ 0 < Gen.Chains.bw6_633_fr.sqrtUse.e ∧
    GV.Gen.bw6_633_fr.q - 1 = 2 ^ Gen.Chains.bw6_633_fr.sqrtUse.e * oddPart (GV.Gen.bw6_633_fr.q - 1) ∧ oddPart (GV.Gen.bw6_633_fr.q - 1) % 2 = 1 ∧
    expoNat Gen.Chains.bw6_633_fr.expBySqrtExp = some ((oddPart (GV.Gen.bw6_633_fr.q - 1) - 1) / 2) := by decide +kernel
/-- the literal `g` of `Sqrt` (Montgomery limbs) is canonical and has order exactly `2^e`: `g^(2^(e-1)) = -1` -/
theorem sqrt_g : limbsVal GV.Gen.bw6_633_fr.word Gen.Chains.bw6_633_fr.sqrtUse.g < GV.Gen.bw6_633_fr.q ∧
    expNat P (limbsVal GV.Gen.bw6_633_fr.word Gen.Chains.bw6_633_fr.sqrtUse.g) (2 ^ (Gen.Chains.bw6_633_fr.sqrtUse.e - 1)) = neg P (one P) := by
  decide +kernel
/-- the straight-line front end of `Sqrt`: `w = x^((s-1)/2)`, `y = x·w = x^((s+1)/2)`, `b = w·y = x^s`, `y² = x·b` -/
theorem sqrt_chain (x : Nat) (hx : x < GV.Gen.bw6_633_fr.q) :
    let w := eval (montOps P) Gen.Chains.bw6_633_fr.expBySqrtExp x
    let y := mul P x w
    let b := mul P w y
    y < P.q ∧ b < P.q ∧ Field.abs P y = Field.abs P x ^ ((oddPart (GV.Gen.bw6_633_fr.q - 1) + 1) / 2) ∧
      Field.abs P b = Field.abs P x ^ oddPart (GV.Gen.bw6_633_fr.q - 1) ∧ Field.abs P y ^ 2 = Field.abs P x * Field.abs P b :=
  C01_chain_sqrt_TS P P_ok _ sqrt_expo.2.2.2.1 _ sqrt_expo.2.2.2.2 x hx
end bw6_633_fr

namespace bw6_761_fp
abbrev P : Params := ofConsts GV.Gen.bw6_761_fp
theorem P_ok : P.OK := Params.OK_of_okb _ (by decide +kernel)
/-- `expByLegendreExp` raises to `(q-1)/2` -/
theorem legendre_expo : expoNat Gen.Chains.bw6_761_fp.expByLegendreExp = some ((GV.Gen.bw6_761_fp.q - 1) / 2) := by decide +kernel
/-- `Legendre` computed through the translated chain is the model's `legendre` (Euler's criterion: `C01_legendre`) -/
theorem legendre_chain (x : Nat) (hx : x < GV.Gen.bw6_761_fp.q) :
    legendreVia P Gen.Chains.bw6_761_fp.expByLegendreExp x = legendre P x := C01_chain_legendre P P_ok _ legendre_expo x hx
/-- q ≡ 3 (mod 4), `Sqrt` is the `y = x^k; y² = x ?` text, and `expBySqrtExp` raises to `k = (q+1)/4` -/
theorem sqrt_expo : GV.Gen.bw6_761_fp.q % 4 = 3 ∧ Gen.Chains.bw6_761_fp.sqrtUse.kind = 0 ∧
    expoNat Gen.Chains.bw6_761_fp.expBySqrtExp = some ((GV.Gen.bw6_761_fp.q + 1) / 4) := by decide +kernel
/-- the test `square.Equal(x)` of `Sqrt` succeeds exactly for the squares (and then `y` is a root) -/
theorem sqrt_chain [Fact P.q.Prime] (x : Nat) (hx : x < GV.Gen.bw6_761_fp.q) :
    square P (eval (montOps P) Gen.Chains.bw6_761_fp.expBySqrtExp x) = x ↔ IsSquare (Field.abs P x) :=
  C01_chain_sqrt_3mod4 P P_ok sqrt_expo.1 _ sqrt_expo.2.2 x hx
end bw6_761_fp

namespace bw6_761_fr
abbrev P : Params := ofConsts GV.Gen.bw6_761_fr
theorem P_ok : P.OK := Params.OK_of_okb _ (by decide +kernel)
/-- `expByLegendreExp` raises to `(q-1)/2` -/
theorem legendre_expo : expoNat Gen.Chains.bw6_761_fr.expByLegendreExp = some ((GV.Gen.bw6_761_fr.q - 1) / 2) := by decide +kernel
/-- `Legendre` computed through the translated chain is the model's `legendre` (Euler's criterion: `C01_legendre`) -/
theorem legendre_chain (x : Nat) (hx : x < GV.Gen.bw6_761_fr.q) :
    legendreVia P Gen.Chains.bw6_761_fr.expByLegendreExp x = legendre P x := C01_chain_legendre P P_ok _ legendre_expo x hx
/-- `Sqrt` is the Tonelli–Shanks text, its literal `r` is the 2-adic valuation `e` of `q-1 = 2^e·s` (`s` odd), and
`expBySqrtExp` raises to `(s-1)/2` -/
theorem sqrt_expo : Gen.Chains.bw6_761_fr.sqrtUse.kind = 2 ∧ 0 < Gen.Chains.bw6_761_fr.sqrtUse.e ∧
    GV.Gen.bw6_761_fr.q - 1 = 2 ^ Gen.Chains.bw6_761_fr.sqrtUse.e * oddPart (GV.Gen.bw6_761_fr.q - 1) ∧ oddPart (GV.Gen.bw6_761_fr.q - 1) % 2 = 1 ∧
    expoNat Gen.Chains.bw6_761_fr.expBySqrtExp = some ((oddPart (GV.Gen.bw6_761_fr.q - 1) - 1) / 2) := by decide +kernel
/-- the literal `g` of `Sqrt` (Montgomery limbs) is canonical and has order exactly `2^e`: `g^(2^(e-1)) = -1` -/
theorem sqrt_g : limbsVal GV.Gen.bw6_761_fr.word Gen.Chains.bw6_761_fr.sqrtUse.g < GV.Gen.bw6_761_fr.q ∧
    expNat P (limbsVal GV.Gen.bw6_761_fr.word Gen.Chains.bw6_761_fr.sqrtUse.g) (2 ^ (Gen.Chains.bw6_761_fr.sqrtUse.e - 1)) = neg P (one P) := by
  decide +kernel
/-- the straight-line front end of `Sqrt`: `w = x^((s-1)/2)`, `y = x·w = x^((s+1)/2)`, `b = w·y = x^s`, `y² = x·b` -/
theorem sqrt_chain (x : Nat) (hx : x < GV.Gen.bw6_761_fr.q) :
    let w := eval (montOps P) Gen.Chains.bw6_761_fr.expBySqrtExp x
    let y := mul P x w
    let b := mul P w y
    y < P.q ∧ b < P.q ∧ Field.abs P y = Field.abs P x ^ ((oddPart (GV.Gen.bw6_761_fr.q - 1) + 1) / 2) ∧
      Field.abs P b = Field.abs P x ^ oddPart (GV.Gen.bw6_761_fr.q - 1) ∧ Field.abs P y ^ 2 = Field.abs P x * Field.abs P b :=
  C01_chain_sqrt_TS P P_ok _ sqrt_expo.2.2.2.1 _ sqrt_expo.2.2.2.2 x hx
end bw6_761_fr

namespace grumpkin_fp
abbrev P : Params := ofConsts GV.Gen.grumpkin_fp
theorem P_ok : P.OK := Params.OK_of_okb _ (by decide +kernel)
/-- `expByLegendreExp` raises to `(q-1)/2` -/
theorem legendre_expo : expoNat Gen.Chains.grumpkin_fp.expByLegendreExp = some ((GV.Gen.grumpkin_fp.q - 1) / 2) := by decide +kernel
/-- `Legendre` computed through the translated chain is the model's `legendre` (Euler's criterion: `C01_legendre`) -/
theorem legendre_chain (x : Nat) (hx : x < GV.Gen.grumpkin_fp.q) :
    legendreVia P Gen.Chains.grumpkin_fp.expByLegendreExp x = legendre P x := C01_chain_legendre P P_ok _ legendre_expo x hx
/-- `Sqrt` is the Tonelli–Shanks text, its literal `r` is the 2-adic valuation `e` of `q-1 = 2^e·s` (`s` odd), and
`expBySqrtExp` raises to `(s-1)/2` -/
theorem sqrt_expo : Gen.Chains.grumpkin_fp.sqrtUse.kind = 2 ∧ 0 < Gen.Chains.grumpkin_fp.sqrtUse.e ∧
    GV.Gen.grumpkin_fp.q - 1 = 2 ^ Gen.Chains.grumpkin_fp.sqrtUse.e * oddPart (GV.Gen.grumpkin_fp.q - 1) ∧ oddPart (GV.Gen.grumpkin_fp.q - 1) % 2 = 1 ∧
    expoNat Gen.Chains.grumpkin_fp.expBySqrtExp = some ((oddPart (GV.Gen.grumpkin_fp.q - 1) - 1) / 2) := by decide +kernel
/-- the literal `g` of `Sqrt` (Montgomery limbs) is canonical and has order exactly `2^e`: `g^(2^(e-1)) = -1` -/
theorem sqrt_g : limbsVal GV.Gen.grumpkin_fp.word Gen.Chains.grumpkin_fp.sqrtUse.g < GV.Gen.grumpkin_fp.q ∧
    expNat P (limbsVal GV.Gen.grumpkin_fp.word Gen.Chains.grumpkin_fp.sqrtUse.g) (2 ^ (Gen.Chains.grumpkin_fp.sqrtUse.e - 1)) = neg P (one P) := by
  decide +kernel
/-- the straight-line front end of `Sqrt`: `w = x^((s-1)/2)`, `y = x·w = x^((s+1)/2)`, `b = w·y = x^s`, `y² = x·b` -/
theorem sqrt_chain (x : Nat) (hx : x < GV.Gen.grumpkin_fp.q) :
    let w := eval (montOps P) Gen.Chains.grumpkin_fp.expBySqrtExp x
    let y := mul P x w
    let b := mul P w y
    y < P.q ∧ b < P.q ∧ Field.abs P y = Field.abs P x ^ ((oddPart (GV.Gen.grumpkin_fp.q - 1) + 1) / 2) ∧
      Field.abs P b = Field.abs P x ^ oddPart (GV.Gen.grumpkin_fp.q - 1) ∧ Field.abs P y ^ 2 = Field.abs P x * Field.abs P b :=
  C01_chain_sqrt_TS P P_ok _ sqrt_expo.2.2.2.1 _ sqrt_expo.2.2.2.2 x hx
end grumpkin_fp

namespace grumpkin_fr
abbrev P : Params := ofConsts GV.Gen.grumpkin_fr
theorem P_ok : P.OK := Params.OK_of_okb _ (by decide +kernel)
/-- `expByLegendreExp` raises to `(q-1)/2` -/
theorem legendre_expo : expoNat Gen.Chains.grumpkin_fr.expByLegendreExp = some ((GV.Gen.grumpkin_fr.q - 1) / 2) := by decide +kernel
/-- `Legendre` computed through the translated chain is the model's `legendre` (Euler's criterion: `C01_legendre`) -/
theorem legendre_chain (x : Nat) (hx : x < GV.Gen.grumpkin_fr.q) :
    legendreVia P Gen.Chains.grumpkin_fr.expByLegendreExp x = legendre P x := C01_chain_legendre P P_ok _ legendre_expo x hx
/-- q ≡ 3 (mod 4), `Sqrt` is the `y = x^k; y² = x ?` text, and `expBySqrtExp` raises to `k = (q+1)/4` -/
theorem sqrt_expo : GV.Gen.grumpkin_fr.q % 4 = 3 ∧ Gen.Chains.grumpkin_fr.sqrtUse.kind = 0 ∧
    expoNat Gen.Chains.grumpkin_fr.expBySqrtExp = some ((GV.Gen.grumpkin_fr.q + 1) / 4) := by decide +kernel
/-- the test `square.Equal(x)` of `Sqrt` succeeds exactly for the squares (and then `y` is a root) -/
theorem sqrt_chain [Fact P.q.Prime] (x : Nat) (hx : x < GV.Gen.grumpkin_fr.q) :
    square P (eval (montOps P) Gen.Chains.grumpkin_fr.expBySqrtExp x) = x ↔ IsSquare (Field.abs P x) :=
  C01_chain_sqrt_3mod4 P P_ok sqrt_expo.1 _ sqrt_expo.2.2 x hx
end grumpkin_fr

namespace secp256k1_fp
abbrev P : Params := ofConsts GV.Gen.secp256k1_fp
theorem P_ok : P.OK := Params.OK_of_okb _ (by decide +kernel)
/-- `expByLegendreExp` raises to `(q-1)/2` -/
theorem legendre_expo : expoNat Gen.Chains.secp256k1_fp.expByLegendreExp = some ((GV.Gen.secp256k1_fp.q - 1) / 2) := by decide +kernel
/-- `Legendre` computed through the translated chain is the model's `legendre` (Euler's criterion: `C01_legendre`) -/
theorem legendre_chain (x : Nat) (hx : x < GV.Gen.secp256k1_fp.q) :
    legendreVia P Gen.Chains.secp256k1_fp.expByLegendreExp x = legendre P x := C01_chain_legendre P P_ok _ legendre_expo x hx
/-- q ≡ 3 (mod 4), `Sqrt` is the `y = x^k; y² = x ?` text, and `expBySqrtExp` raises to `k = (q+1)/4` -/
theorem sqrt_expo : GV.Gen.secp256k1_fp.q % 4 = 3 ∧ Gen.Chains.secp256k1_fp.sqrtUse.kind = 0 ∧
    expoNat Gen.Chains.secp256k1_fp.expBySqrtExp = some ((GV.Gen.secp256k1_fp.q + 1) / 4) := by decide +kernel
/-- the test `square.Equal(x)` of `Sqrt` succeeds exactly for the squares (and then `y` is a root) -/
theorem sqrt_chain [Fact P.q.Prime] (x : Nat) (hx : x < GV.Gen.secp256k1_fp.q) :
    square P (eval (montOps P) Gen.Chains.secp256k1_fp.expBySqrtExp x) = x ↔ IsSquare (Field.abs P x) :=
  C01_chain_sqrt_3mod4 P P_ok sqrt_expo.1 _ sqrt_expo.2.2 x hx
end secp256k1_fp

namespace secp256k1_fr
abbrev P : Params := ofConsts GV.Gen.secp256k1_fr
theorem P_ok : P.OK := Params.OK_of_okb _ (by decide +kernel)
/-- `expByLegendreExp` raises to `(q-1)/2` -/
theorem legendre_expo : expoNat Gen.Chains.secp256k1_fr.expByLegendreExp = some ((GV.Gen.secp256k1_fr.q - 1) / 2) := by decide +kernel
/-- `Legendre` computed through the translated chain is the model's `legendre` (Euler's criterion: `C01_legendre`) -/
theorem legendre_chain (x : Nat) (hx : x < GV.Gen.secp256k1_fr.q) :
    legendreVia P Gen.Chains.secp256k1_fr.expByLegendreExp x = legendre P x := C01_chain_legendre P P_ok _ legendre_expo x hx
/-- `Sqrt` is the Tonelli–Shanks text, its literal `r` is the 2-adic valuation `e` of `q-1 = 2^e·s` (`s` odd), and
`expBySqrtExp` raises to `(s-1)/2` -/
theorem sqrt_expo : Gen.Chains.secp256k1_fr.sqrtUse.kind = 2 ∧ 0 < Gen.Chains.secp256k1_fr.sqrtUse.e ∧
    GV.Gen.secp256k1_fr.q - 1 = 2 ^ Gen.Chains.secp256k1_fr.sqrtUse.e * oddPart (GV.Gen.secp256k1_fr.q - 1) ∧ oddPart (GV.Gen.secp256k1_fr.q - 1) % 2 = 1 ∧
    expoNat Gen.Chains.secp256k1_fr.expBySqrtExp = some ((oddPart (GV.Gen.secp256k1_fr.q - 1) - 1) / 2) := by decide +kernel
/-- the literal `g` of `Sqrt` (Montgomery limbs) is canonical and has order exactly `2^e`: `g^(2^(e-1)) = -1` -/
theorem sqrt_g : limbsVal GV.Gen.secp256k1_fr.word Gen.Chains.secp256k1_fr.sqrtUse.g < GV.Gen.secp256k1_fr.q ∧
    expNat P (limbsVal GV.Gen.secp256k1_fr.word Gen.Chains.secp256k1_fr.sqrtUse.g) (2 ^ (Gen.Chains.secp256k1_fr.sqrtUse.e - 1)) = neg P (one P) := by
  decide +kernel
/-- the straight-line front end of `Sqrt`: `w = x^((s-1)/2)`, `y = x·w = x^((s+1)/2)`, `b = w·y = x^s`, `y² = x·b` -/
theorem sqrt_chain (x : Nat) (hx : x < GV.Gen.secp256k1_fr.q) :
    let w := eval (montOps P) Gen.Chains.secp256k1_fr.expBySqrtExp x
    let y := mul P x w
    let b := mul P w y
    y < P.q ∧ b < P.q ∧ Field.abs P y = Field.abs P x ^ ((oddPart (GV.Gen.secp256k1_fr.q - 1) + 1) / 2) ∧
      Field.abs P b = Field.abs P x ^ oddPart (GV.Gen.secp256k1_fr.q - 1) ∧ Field.abs P y ^ 2 = Field.abs P x * Field.abs P b :=
  C01_chain_sqrt_TS P P_ok _ sqrt_expo.2.2.2.1 _ sqrt_expo.2.2.2.2 x hx
end secp256k1_fr

namespace stark_curve_fp
abbrev P : Params := ofConsts GV.Gen.stark_curve_fp
theorem P_ok : P.OK := Params.OK_of_okb _ (by decide +kernel)
/-- `expByLegendreExp` raises to `(q-1)/2` -/
theorem legendre_expo : expoNat Gen.Chains.stark_curve_fp.expByLegendreExp = some ((GV.Gen.stark_curve_fp.q - 1) / 2) := by decide +kernel
/-- `Legendre` computed through the translated chain is the model's `legendre` (Euler's criterion: `C01_legendre`) -/
theorem legendre_chain (x : Nat) (hx : x < GV.Gen.stark_curve_fp.q) :
    legendreVia P Gen.Chains.stark_curve_fp.expByLegendreExp x = legendre P x := C01_chain_legendre P P_ok _ legendre_expo x hx
/-- `Sqrt` is the Tonelli–Shanks text, its literal `r` is the 2-adic valuation `e` of `q-1 = 2^e·s` (`s` odd), and
`expBySqrtExp` raises to `(s-1)/2` -/
theorem sqrt_expo : Gen.Chains.stark_curve_fp.sqrtUse.kind = 2 ∧ 0 < Gen.Chains.stark_curve_fp.sqrtUse.e ∧
    GV.Gen.stark_curve_fp.q - 1 = 2 ^ Gen.Chains.stark_curve_fp.sqrtUse.e * oddPart (GV.Gen.stark_curve_fp.q - 1) ∧ oddPart (GV.Gen.stark_curve_fp.q - 1) % 2 = 1 ∧
    expoNat Gen.Chains.stark_curve_fp.expBySqrtExp = some ((oddPart (GV.Gen.stark_curve_fp.q - 1) - 1) / 2) := by decide +kernel
/-- the literal `g` of `Sqrt` (Montgomery limbs) is canonical and has order exactly `2^e`: `g^(2^(e-1)) = -1` -/
theorem sqrt_g : limbsVal GV.Gen.stark_curve_fp.word Gen.Chains.stark_curve_fp.sqrtUse.g < GV.Gen.stark_curve_fp.q ∧
    expNat P (limbsVal GV.Gen.stark_curve_fp.word Gen.Chains.stark_curve_fp.sqrtUse.g) (2 ^ (Gen.Chains.stark_curve_fp.sqrtUse.e - 1)) = neg P (one P) := by
  decide +kernel
/-- the straight-line front end of `Sqrt`: `w = x^((s-1)/2)`, `y = x·w = x^((s+1)/2)`, `b = w·y = x^s`, `y² = x·b` -/
theorem sqrt_chain (x : Nat) (hx : x < GV.Gen.stark_curve_fp.q) :
    let w := eval (montOps P) Gen.Chains.stark_curve_fp.expBySqrtExp x
    let y := mul P x w
    let b := mul P w y
    y < P.q ∧ b < P.q ∧ Field.abs P y = Field.abs P x ^ ((oddPart (GV.Gen.stark_curve_fp.q - 1) + 1) / 2) ∧
      Field.abs P b = Field.abs P x ^ oddPart (GV.Gen.stark_curve_fp.q - 1) ∧ Field.abs P y ^ 2 = Field.abs P x * Field.abs P b :=
  C01_chain_sqrt_TS P P_ok _ sqrt_expo.2.2.2.1 _ sqrt_expo.2.2.2.2 x hx
end stark_curve_fp

namespace babybear
abbrev P : Params := ofConsts GV.Gen.babybear
theorem P_ok : P.OK := Params.OK_of_okb _ (by decide +kernel)
/-- `expByLegendreExp` raises to `(q-1)/2` -/
theorem legendre_expo : expoNat Gen.Chains.babybear.expByLegendreExp = some ((GV.Gen.babybear.q - 1) / 2) := by decide +kernel
/-- `Legendre` computed through the translated chain is the model's `legendre` (Euler's criterion: `C01_legendre`) -/
theorem legendre_chain (x : Nat) (hx : x < GV.Gen.babybear.q) :
    legendreVia P Gen.Chains.babybear.expByLegendreExp x = legendre P x := C01_chain_legendre P P_ok _ legendre_expo x hx
/-- `Sqrt` is the Tonelli–Shanks text, its literal `r` is the 2-adic valuation `e` of `q-1 = 2^e·s` (`s` odd), and
`expBySqrtExp` raises to `(s-1)/2` -/
theorem sqrt_expo : Gen.Chains.babybear.sqrtUse.kind = 2 ∧ 0 < Gen.Chains.babybear.sqrtUse.e ∧
    GV.Gen.babybear.q - 1 = 2 ^ Gen.Chains.babybear.sqrtUse.e * oddPart (GV.Gen.babybear.q - 1) ∧ oddPart (GV.Gen.babybear.q - 1) % 2 = 1 ∧
    expoNat Gen.Chains.babybear.expBySqrtExp = some ((oddPart (GV.Gen.babybear.q - 1) - 1) / 2) := by decide +kernel
/-- the literal `g` of `Sqrt` (Montgomery limbs) is canonical and has order exactly `2^e`: `g^(2^(e-1)) = -1` -/
theorem sqrt_g : limbsVal GV.Gen.babybear.word Gen.Chains.babybear.sqrtUse.g < GV.Gen.babybear.q ∧
    expNat P (limbsVal GV.Gen.babybear.word Gen.Chains.babybear.sqrtUse.g) (2 ^ (Gen.Chains.babybear.sqrtUse.e - 1)) = neg P (one P) := by
  decide +kernel
/-- the straight-line front end of `Sqrt`: `w = x^((s-1)/2)`, `y = x·w = x^((s+1)/2)`, `b = w·y = x^s`, `y² = x·b` -/
theorem sqrt_chain (x : Nat) (hx : x < GV.Gen.babybear.q) :
    let w := eval (montOps P) Gen.Chains.babybear.expBySqrtExp x
    let y := mul P x w
    let b := mul P w y
    y < P.q ∧ b < P.q ∧ Field.abs P y = Field.abs P x ^ ((oddPart (GV.Gen.babybear.q - 1) + 1) / 2) ∧
      Field.abs P b = Field.abs P x ^ oddPart (GV.Gen.babybear.q - 1) ∧ Field.abs P y ^ 2 = Field.abs P x * Field.abs P b :=
  C01_chain_sqrt_TS P P_ok _ sqrt_expo.2.2.2.1 _ sqrt_expo.2.2.2.2 x hx
end babybear

namespace goldilocks
abbrev P : Params := ofConsts GV.Gen.goldilocks
theorem P_ok : P.OK := Params.OK_of_okb _ (by decide +kernel)
/-- `expByLegendreExp` raises to `(q-1)/2` -/
theorem legendre_expo : expoNat Gen.Chains.goldilocks.expByLegendreExp = some ((GV.Gen.goldilocks.q - 1) / 2) := by decide +kernel
/-- `Legendre` computed through the translated chain is the model's `legendre` (Euler's criterion: `C01_legendre`) -/
theorem legendre_chain (x : Nat) (hx : x < GV.Gen.goldilocks.q) :
    legendreVia P Gen.Chains.goldilocks.expByLegendreExp x = legendre P x := C01_chain_legendre P P_ok _ legendre_expo x hx
/-- `Sqrt` is the Tonelli–Shanks text, its literal `r` is the 2-adic valuation `e` of `q-1 = 2^e·s` (`s` odd), and
`expBySqrtExp` raises to `(s-1)/2` -/
theorem sqrt_expo : Gen.Chains.goldilocks.sqrtUse.kind = 2 ∧ 0 < Gen.Chains.goldilocks.sqrtUse.e ∧
    GV.Gen.goldilocks.q - 1 = 2 ^ Gen.Chains.goldilocks.sqrtUse.e * oddPart (GV.Gen.goldilocks.q - 1) ∧ oddPart (GV.Gen.goldilocks.q - 1) % 2 = 1 ∧
    expoNat Gen.Chains.goldilocks.expBySqrtExp = some ((oddPart (GV.Gen.goldilocks.q - 1) - 1) / 2) := by decide +kernel
/-- the literal `g` of `Sqrt` (Montgomery limbs) is canonical and has order exactly `2^e`: `g^(2^(e-1)) = -1` -/
theorem sqrt_g : limbsVal GV.Gen.goldilocks.word Gen.Chains.goldilocks.sqrtUse.g < GV.Gen.goldilocks.q ∧
    expNat P (limbsVal GV.Gen.goldilocks.word Gen.Chains.goldilocks.sqrtUse.g) (2 ^ (Gen.Chains.goldilocks.sqrtUse.e - 1)) = neg P (one P) := by
  decide +kernel
/-- the straight-line front end of `Sqrt`: `w = x^((s-1)/2)`, `y = x·w = x^((s+1)/2)`, `b = w·y = x^s`, `y² = x·b` -/
theorem sqrt_chain (x : Nat) (hx : x < GV.Gen.goldilocks.q) :
    let w := eval (montOps P) Gen.Chains.goldilocks.expBySqrtExp x
    let y := mul P x w
    let b := mul P w y
    y < P.q ∧ b < P.q ∧ Field.abs P y = Field.abs P x ^ ((oddPart (GV.Gen.goldilocks.q - 1) + 1) / 2) ∧
      Field.abs P b = Field.abs P x ^ oddPart (GV.Gen.goldilocks.q - 1) ∧ Field.abs P y ^ 2 = Field.abs P x * Field.abs P b :=
  C01_chain_sqrt_TS P P_ok _ sqrt_expo.2.2.2.1 _ sqrt_expo.2.2.2.2 x hx
end goldilocks

namespace koalabear
abbrev P : Params := ofConsts GV.Gen.koalabear
theorem P_ok : P.OK := Params.OK_of_okb _ (by decide +kernel)
/-- `expByLegendreExp` raises to `(q-1)/2` -/
theorem legendre_expo : expoNat Gen.Chains.koalabear.expByLegendreExp = some ((GV.Gen.koalabear.q - 1) / 2) := by decide +kernel
/-- `Legendre` computed through the translated chain is the model's `legendre` (Euler's criterion: `C01_legendre`) -/
theorem legendre_chain (x : Nat) (hx : x < GV.Gen.koalabear.q) :
    legendreVia P Gen.Chains.koalabear.expByLegendreExp x = legendre P x := C01_chain_legendre P P_ok _ legendre_expo x hx
/-- `Sqrt` is the Tonelli–Shanks text, its literal `r` is the 2-adic valuation `e` of `q-1 = 2^e·s` (`s` odd), and
`expBySqrtExp` raises to `(s-1)/2` -/
theorem sqrt_expo : Gen.Chains.koalabear.sqrtUse.kind = 2 ∧ 0 < Gen.Chains.koalabear.sqrtUse.e ∧
    GV.Gen.koalabear.q - 1 = 2 ^ Gen.Chains.koalabear.sqrtUse.e * oddPart (GV.Gen.koalabear.q - 1) ∧ oddPart (GV.Gen.koalabear.q - 1) % 2 = 1 ∧
    expoNat Gen.Chains.koalabear.expBySqrtExp = some ((oddPart (GV.Gen.koalabear.q - 1) - 1) / 2) := by decide +kernel
/-- the literal `g` of `Sqrt` (Montgomery limbs) is canonical and has order exactly `2^e`: `g^(2^(e-1)) = -1` -/
theorem sqrt_g : limbsVal GV.Gen.koalabear.word Gen.Chains.koalabear.sqrtUse.g < GV.Gen.koalabear.q ∧
    expNat P (limbsVal GV.Gen.koalabear.word Gen.Chains.koalabear.sqrtUse.g) (2 ^ (Gen.Chains.koalabear.sqrtUse.e - 1)) = neg P (one P) := by
  decide +kernel
/-- the straight-line front end of `Sqrt`: `w = x^((s-1)/2)`, `y = x·w = x^((s+1)/2)`, `b = w·y = x^s`, `y² = x·b` -/
theorem sqrt_chain (x : Nat) (hx : x < GV.Gen.koalabear.q) :
    let w := eval (montOps P) Gen.Chains.koalabear.expBySqrtExp x
    let y := mul P x w
    let b := mul P w y
    y < P.q ∧ b < P.q ∧ Field.abs P y = Field.abs P x ^ ((oddPart (GV.Gen.koalabear.q - 1) + 1) / 2) ∧
      Field.abs P b = Field.abs P x ^ oddPart (GV.Gen.koalabear.q - 1) ∧ Field.abs P y ^ 2 = Field.abs P x * Field.abs P b :=
  C01_chain_sqrt_TS P P_ok _ sqrt_expo.2.2.2.1 _ sqrt_expo.2.2.2.2 x hx
end koalabear

/-- the packages covered (every field package that has an element_exp.go) -/
theorem C01_chains_packages : GV.Gen.Chains.fieldChains.map (fun e => (e.1, e.2.1)) = [("bls12_377_fp", "expBySqrtExp"), ("bls12_377_fp", "expByLegendreExp"), ("bls12_377_fr", "expBySqrtExp"), ("bls12_377_fr", "expByLegendreExp"), ("bls12_381_fp", "expBySqrtExp"), ("bls12_381_fp", "expByLegendreExp"), ("bls12_381_fr", "expBySqrtExp"), ("bls12_381_fr", "expByLegendreExp"), ("bls24_315_fp", "expBySqrtExp"), ("bls24_315_fp", "expByLegendreExp"), ("bls24_315_fr", "expBySqrtExp"), ("bls24_315_fr", "expByLegendreExp"), ("bls24_317_fp", "expBySqrtExp"), ("bls24_317_fp", "expByLegendreExp"), ("bls24_317_fr", "expBySqrtExp"), ("bls24_317_fr", "expByLegendreExp"), ("bn254_fp", "expBySqrtExp"), ("bn254_fp", "expByLegendreExp"), ("bn254_fr", "expBySqrtExp"), ("bn254_fr", "expByLegendreExp"), ("bw6_633_fp", "expBySqrtExp"), ("bw6_633_fp", "expByLegendreExp"), ("bw6_633_fr", "expBySqrtExp"), ("bw6_633_fr", "expByLegendreExp"), ("bw6_761_fp", "expBySqrtExp"), ("bw6_761_fp", "expByLegendreExp"), ("bw6_761_fr", "expBySqrtExp"), ("bw6_761_fr", "expByLegendreExp"), ("grumpkin_fp", "expBySqrtExp"), ("grumpkin_fp", "expByLegendreExp"), ("grumpkin_fr", "expBySqrtExp"), ("grumpkin_fr", "expByLegendreExp"), ("secp256k1_fp", "expBySqrtExp"), ("secp256k1_fp", "expByLegendreExp"), ("secp256k1_fr", "expBySqrtExp"), ("secp256k1_fr", "expByLegendreExp"), ("stark_curve_fp", "expBySqrtExp"), ("stark_curve_fp", "expByLegendreExp"), ("babybear", "expBySqrtExp"), ("babybear", "expByLegendreExp"), ("goldilocks", "expBySqrtExp"), ("goldilocks", "expByLegendreExp"), ("koalabear", "expBySqrtExp"), ("koalabear", "expByLegendreExp")] := by decide

end GV.Chain
