import GnarkVerif.Model.Pairing
import Mathlib.GroupTheory.OrderOfElement
import Mathlib.Algebra.BigOperators.Group.List.Basic
import Mathlib.Data.ZMod.Basic
import Mathlib.Tactic.Ring
import Mathlib.Tactic.FieldSimp
import Mathlib.Tactic.LinearCombination
import Mathlib.Tactic.NormNum.Prime
import Mathlib.Data.Nat.Prime.Int
/-
C05 — pairings are bilinear, non-degenerate and identical across computation variants.

ABSTRACT LAYER.  `G1`, `G2` additive commutative groups, `GT` a commutative group, `e : G1 → G2 → GT` bilinear with
`orderOf (e g1 g2) = r`, `r` prime.  Bilinearity / exact order of the concrete reduced ate pairing is the *named hypothesis*
(`AbstractPairing`) – Weil reciprocity is not proved here (DESIGN §3 C05 "Left partial").  Everything the property text says about
scalar vectors follows for ALL k, ALL `aᵢ bᵢ : ℤ`:

* `prod_pairs`              ∏ e([aᵢ]g1,[bᵢ]g2) = e(g1,g2)^(Σ aᵢbᵢ)
* `pairingCheck_iff`        ∏ … = 1  ↔  r ∣ Σ aᵢbᵢ            (`pairingCheck_iff_model`: … ↔ the verdict of the executable model)
* `e_smul_smul`             e([a]P,[b]Q) = e(P,Q)^(ab)
* `gen_pairing_order`       e(g1,g2)^r = 1, e(g1,g2) ≠ 1, e(g1,g2)^n = 1 ↔ r ∣ n
* `pair_eq_one_iff`         e([a]g1,[b]g2) = 1 ↔ r ∣ a ∨ r ∣ b      (non-degeneracy on the generated subgroups)
* `e_zero_left/right`, `prod_filter_infinity`   pairs with an infinite argument contribute the identity
* `pairSpec_error_iff`, `model_*_size_error`    k = 0 / size mismatch ↦ error
* variants: `multi_eq_prod_single` (multi-pairing = product of one-shot pairings), `prod_append`

FINAL-EXPONENTIATION INVARIANCE used by the fixed-Q variant (`MillerLoopFixedQ = c · MillerLoop`, `c` in the index-2 subfield):
`QExt.easy_step_cross`, `QExt.easy_step` (pairs over a commutative ring / field with `w² = v`), `easy_step_field`,
`finalExp_mul_subfield` (any field with an automorphism fixing `c`).
-/
namespace GV.C05

/-! ## abstract pairing -/

/-- the hypotheses: a bilinear map whose value at the generators has exact prime order `r` -/
structure AbstractPairing (G1 G2 GT : Type*) [AddCommGroup G1] [AddCommGroup G2] [CommGroup GT] (r : ℕ) where
  e : G1 → G2 → GT
  g1 : G1
  g2 : G2
  add_left : ∀ P P' Q, e (P + P') Q = e P Q * e P' Q
  add_right : ∀ P Q Q', e P (Q + Q') = e P Q * e P Q'
  order : orderOf (e g1 g2) = r
  prime : r.Prime

namespace AbstractPairing
variable {G1 G2 GT : Type*} [AddCommGroup G1] [AddCommGroup G2] [CommGroup GT] {r : ℕ}
variable (E : AbstractPairing G1 G2 GT r)

/-- a pair with an infinite first argument contributes the identity -/
theorem e_zero_left (Q : G2) : E.e 0 Q = 1 := by
  have h := E.add_left 0 0 Q
  rw [add_zero] at h
  exact (mul_eq_left (a := E.e 0 Q)).mp h.symm

/-- a pair with an infinite second argument contributes the identity -/
theorem e_zero_right (P : G1) : E.e P 0 = 1 := by
  have h := E.add_right P 0 0
  rw [add_zero] at h
  exact (mul_eq_left (a := E.e P 0)).mp h.symm

theorem e_neg_left (P : G1) (Q : G2) : E.e (-P) Q = (E.e P Q)⁻¹ := by
  have h := E.add_left P (-P) Q
  rw [add_neg_cancel, E.e_zero_left] at h
  exact (eq_inv_of_mul_eq_one_right h.symm)

theorem e_neg_right (P : G1) (Q : G2) : E.e P (-Q) = (E.e P Q)⁻¹ := by
  have h := E.add_right P Q (-Q)
  rw [add_neg_cancel, E.e_zero_right] at h
  exact (eq_inv_of_mul_eq_one_right h.symm)

theorem e_nsmul_left (n : ℕ) (P : G1) (Q : G2) : E.e (n • P) Q = E.e P Q ^ n := by
  induction n with
  | zero => simp [E.e_zero_left]
  | succ n ih => rw [succ_nsmul, E.add_left, ih, pow_succ]

theorem e_nsmul_right (n : ℕ) (P : G1) (Q : G2) : E.e P (n • Q) = E.e P Q ^ n := by
  induction n with
  | zero => simp [E.e_zero_right]
  | succ n ih => rw [succ_nsmul, E.add_right, ih, pow_succ]

theorem e_zsmul_left (a : ℤ) (P : G1) (Q : G2) : E.e (a • P) Q = E.e P Q ^ a := by
  rcases Int.eq_nat_or_neg a with ⟨n, rfl | rfl⟩
  · rw [natCast_zsmul, zpow_natCast, E.e_nsmul_left]
  · rw [neg_zsmul, natCast_zsmul, E.e_neg_left, E.e_nsmul_left, zpow_neg, zpow_natCast]

theorem e_zsmul_right (b : ℤ) (P : G1) (Q : G2) : E.e P (b • Q) = E.e P Q ^ b := by
  rcases Int.eq_nat_or_neg b with ⟨n, rfl | rfl⟩
  · rw [natCast_zsmul, zpow_natCast, E.e_nsmul_right]
  · rw [neg_zsmul, natCast_zsmul, E.e_neg_right, E.e_nsmul_right, zpow_neg, zpow_natCast]

/-- **bilinearity in the exponents**: `e([a]P,[b]Q) = e(P,Q)^(ab)` for all integers -/
theorem e_smul_smul (a b : ℤ) (P : G1) (Q : G2) : E.e (a • P) (b • Q) = E.e P Q ^ (a * b) := by
  rw [E.e_zsmul_left, E.e_zsmul_right, ← zpow_mul, mul_comm]

/-- the pairing product of the pairs `([aᵢ]g1, [bᵢ]g2)` -/
def pairProd (l : List (ℤ × ℤ)) : GT := (l.map fun ab => E.e (ab.1 • E.g1) (ab.2 • E.g2)).prod

/-- `Σ aᵢ bᵢ` -/
def dotSum (l : List (ℤ × ℤ)) : ℤ := (l.map fun ab => ab.1 * ab.2).sum

/-- **product formula**, all `k`, all integer scalar vectors: `∏ e([aᵢ]g1,[bᵢ]g2) = e(g1,g2)^(Σ aᵢbᵢ)` -/
theorem prod_pairs (l : List (ℤ × ℤ)) : E.pairProd l = E.e E.g1 E.g2 ^ dotSum l := by
  induction l with
  | nil => simp [pairProd, dotSum]
  | cons ab l ih =>
    have : E.pairProd (ab :: l) = E.e (ab.1 • E.g1) (ab.2 • E.g2) * E.pairProd l := by simp [pairProd]
    rw [this, ih, E.e_smul_smul]
    simp [dotSum, zpow_add]

/-- **pairing check**: the product is the identity exactly when `Σ aᵢbᵢ` vanishes modulo the group order -/
theorem pairingCheck_iff (l : List (ℤ × ℤ)) : E.pairProd l = 1 ↔ (r : ℤ) ∣ dotSum l := by
  rw [E.prod_pairs, ← orderOf_dvd_iff_zpow_eq_one, E.order]

theorem pairingCheck_iff_emod (l : List (ℤ × ℤ)) : E.pairProd l = 1 ↔ dotSum l % (r : ℤ) = 0 := by
  rw [E.pairingCheck_iff, Int.dvd_iff_emod_eq_zero]

/-- the generator pairing has exact order `r`: non-trivial, killed by `r`, and `e^n = 1 ↔ r ∣ n` -/
theorem gen_pairing_order :
    E.e E.g1 E.g2 ^ r = 1 ∧ E.e E.g1 E.g2 ≠ 1 ∧ ∀ n : ℤ, E.e E.g1 E.g2 ^ n = 1 ↔ (r : ℤ) ∣ n := by
  refine ⟨?_, ?_, ?_⟩
  · have h := pow_orderOf_eq_one (E.e E.g1 E.g2)
    rwa [E.order] at h
  · intro h
    have := orderOf_eq_one_iff.mpr h
    rw [E.order] at this
    exact E.prime.one_lt.ne' this
  · intro n; rw [← orderOf_dvd_iff_zpow_eq_one, E.order]

/-- non-degeneracy on the generated subgroups -/
theorem pair_eq_one_iff (a b : ℤ) : E.e (a • E.g1) (b • E.g2) = 1 ↔ (r : ℤ) ∣ a ∨ (r : ℤ) ∣ b := by
  rw [E.e_smul_smul, ← orderOf_dvd_iff_zpow_eq_one, E.order]
  exact (Nat.prime_iff_prime_int.mp E.prime).dvd_mul

/-! ### points at infinity, variants -/

/-- generic pairing product over arbitrary points -/
def prodPts (l : List (G1 × G2)) : GT := (l.map fun pq => E.e pq.1 pq.2).prod

theorem prodPts_append (l₁ l₂ : List (G1 × G2)) : E.prodPts (l₁ ++ l₂) = E.prodPts l₁ * E.prodPts l₂ := by
  simp [prodPts]

/-- the multi-pairing equals the product of the one-shot pairings -/
theorem multi_eq_prod_single (l : List (G1 × G2)) : E.prodPts l = (l.map fun pq => E.prodPts [pq]).prod := by
  simp [prodPts]

/-- **infinity filtering** (what `MillerLoop` does before looping): dropping every pair with an infinite argument does not
    change the product, at any position, for any number of pairs -/
theorem prod_filter_infinity [DecidableEq G1] [DecidableEq G2] (l : List (G1 × G2)) :
    E.prodPts (l.filter fun pq => ¬ (pq.1 = 0 ∨ pq.2 = 0)) = E.prodPts l := by
  induction l with
  | nil => rfl
  | cons pq l ih =>
    have hc : E.prodPts (pq :: l) = E.e pq.1 pq.2 * E.prodPts l := by simp [prodPts]
    by_cases h : pq.1 = 0 ∨ pq.2 = 0
    · have h1 : E.e pq.1 pq.2 = 1 := by
        rcases h with h | h
        · rw [h, E.e_zero_left]
        · rw [h, E.e_zero_right]
      rw [List.filter_cons_of_neg (by simp only [decide_eq_true_eq]; exact not_not.mpr h), ih, hc, h1, one_mul]
    · have : E.prodPts (pq :: (l.filter fun pq => ¬ (pq.1 = 0 ∨ pq.2 = 0)))
          = E.e pq.1 pq.2 * E.prodPts (l.filter fun pq => ¬ (pq.1 = 0 ∨ pq.2 = 0)) := by simp [prodPts]
      rw [List.filter_cons_of_pos (by simp only [decide_eq_true_eq]; exact h), this, ih, hc]

/-- a zero scalar at any position contributes the identity -/
theorem pairProd_zero_scalar (l₁ l₂ : List (ℤ × ℤ)) (a b : ℤ) (h : a = 0 ∨ b = 0) :
    E.pairProd (l₁ ++ (a, b) :: l₂) = E.pairProd (l₁ ++ l₂) := by
  have h1 : E.e (a • E.g1) (b • E.g2) = 1 := by
    rcases h with h | h
    · rw [h, zero_smul, E.e_zero_left]
    · rw [h, zero_smul, E.e_zero_right]
  simp [pairProd, h1]

/-! ### error reporting (specification level) -/

inductive PairErr | size
  deriving DecidableEq

/-- specification of `Pair` / `PairFixedQ` / `MillerLoop ∘ FinalExponentiation`: sizes first, then the product -/
def pairSpec (P : List G1) (Q : List G2) : Except PairErr GT :=
  if P.length = 0 ∨ P.length ≠ Q.length then .error .size else .ok (E.prodPts (P.zip Q))

/-- specification of `PairingCheck` / `PairingCheckFixedQ` -/
def checkSpec [DecidableEq GT] (P : List G1) (Q : List G2) : Except PairErr Bool :=
  (E.pairSpec P Q).map fun v => decide (v = 1)

theorem pairSpec_error_iff (P : List G1) (Q : List G2) :
    E.pairSpec P Q = .error .size ↔ (P.length = 0 ∨ P.length ≠ Q.length) := by
  unfold pairSpec
  by_cases h : P.length = 0 ∨ P.length ≠ Q.length
  · rw [if_pos h]; exact iff_of_true rfl h
  · rw [if_neg h]; exact iff_of_false (by intro h'; cases h') h

theorem checkSpec_error_iff [DecidableEq GT] (P : List G1) (Q : List G2) :
    E.checkSpec P Q = .error .size ↔ (P.length = 0 ∨ P.length ≠ Q.length) := by
  unfold checkSpec pairSpec
  by_cases h : P.length = 0 ∨ P.length ≠ Q.length
  · rw [if_pos h]; exact iff_of_true rfl h
  · rw [if_neg h]; exact iff_of_false (by intro h'; cases h') h

/-- on well-sized scalar vectors the check succeeds exactly when `Σ aᵢbᵢ ≡ 0 (mod r)` -/
theorem checkSpec_scalars [DecidableEq GT] (l : List (ℤ × ℤ)) (hl : l ≠ []) :
    E.checkSpec (l.map fun ab => ab.1 • E.g1) (l.map fun ab => ab.2 • E.g2) = .ok (decide (dotSum l % (r : ℤ) = 0)) := by
  have hlen : l.length ≠ 0 := by simpa using hl
  have hz : (List.zip (l.map fun ab => ab.1 • E.g1) (l.map fun ab => ab.2 • E.g2))
      = l.map fun ab => (ab.1 • E.g1, ab.2 • E.g2) := by
    induction l with
    | nil => rfl
    | cons a l ih => by_cases h : l = [] <;> simp_all
  have hp : E.prodPts (l.map fun ab => (ab.1 • E.g1, ab.2 • E.g2)) = E.pairProd l := by
    simp [prodPts, pairProd, List.map_map, Function.comp_def]
  unfold checkSpec pairSpec
  simp only [List.length_map, hlen, ne_eq, not_true_eq_false, or_self, ↓reduceIte, Except.map, hz, hp]
  congr 1
  exact decide_eq_decide.mpr (E.pairingCheck_iff_emod l)

end AbstractPairing

/-! ### the executable model's verdicts agree with the abstract layer -/

section model
open GV.Pairing

theorem dot_foldl_aux (l : List ℤ) (acc : ℤ) : l.foldl (· + ·) acc = acc + l.sum := by
  induction l generalizing acc with
  | nil => simp
  | cons x l ih => simp [ih, add_assoc]

/-- the model's `dot` is `Σ aᵢ bᵢ` over the zipped vectors -/
theorem dot_eq_dotSum (a b : List ℤ) : dot a b = AbstractPairing.dotSum (a.zip b) := by
  unfold dot AbstractPairing.dotSum
  rw [dot_foldl_aux, zero_add]
  congr 1
  induction a generalizing b with
  | nil => simp
  | cons x a ih => cases b with
    | nil => simp
    | cons y b => simp [ih]

variable {G1 G2 GT : Type*} [AddCommGroup G1] [AddCommGroup G2] [CommGroup GT] {r : ℕ}

/-- **model verdict = pairing check**: the bit the Lean driver prints for a `check` line (`dot a b % r == 0`) is true exactly
    when the abstract pairing product of the pairs `([aᵢ]g1,[bᵢ]g2)` is the identity -/
theorem pairingCheck_iff_model (E : AbstractPairing G1 G2 GT r) (a b : List ℤ) :
    E.pairProd (a.zip b) = 1 ↔ (dot a b % (r : ℤ) == 0) = true := by
  rw [E.pairingCheck_iff_emod, dot_eq_dotSum]; simp

/-- size mismatch / `k = 0` is an error in the model, for every curve and each of the three vector ops -/
theorem model_size_error {τ κ : Type} (C : PCurve τ κ) (op : String) (hop : op = "pair" ∨ op = "variants" ∨ op = "check")
    (args : List String) (a b : List ℤ)
    (hp : parseVectors args = some (a, b)) (hs : a.length = 0 ∨ a.length ≠ b.length) :
    handleCurve C op args = "err:size" := by
  have hc : (a.length == 0 || a.length != b.length) = true := by
    rcases hs with h | h
    · simp [h]
    · simp [h]
  rcases hop with rfl | rfl | rfl <;> simp [handleCurve, hp, hc]

/-- **histories on shared precomputed lines are answered by value**: in the model's answer to a `hist` line the entry of a call is
    `histCall` of that call's own arguments - it does not depend on the calls made before (or after) it on the same lines -/
theorem hist_call_independent (r : ℕ) (b : List ℤ) (pre post : List (String × List ℤ)) (c : String × List ℤ) :
    (histAnswers r b (pre ++ c :: post))[pre.length]? = some (histCall r b c.1 c.2) := by
  simp [histAnswers]

/-- … and the `cf` entry (PairingCheckFixedQ on shared lines) is `1:1` exactly when the abstract pairing product of THIS call's pairs
    is the identity (`:1` = arguments unchanged) -/
theorem hist_cf_iff (E : AbstractPairing G1 G2 GT r) (a b : List ℤ) :
    E.pairProd (a.zip b) = 1 ↔ histCall r b "cf" a = "1:1" := by
  rw [pairingCheck_iff_model E a b]
  unfold histCall
  cases (dot a b % (r : ℤ) == 0) <;> decide

/-- the pairs a call of a `fehist` history names: the concatenation of the sub-lists behind the Miller-loop outputs it passes -/
def fePairs (groups : List (List ℤ × List ℤ)) (idx : List ℕ) : List (ℤ × ℤ) :=
  idx.flatMap fun j => match groups[j]? with
    | some (a, b) => a.zip b
    | none => []

theorem dotSum_append (l₁ l₂ : List (ℤ × ℤ)) :
    AbstractPairing.dotSum (l₁ ++ l₂) = AbstractPairing.dotSum l₁ + AbstractPairing.dotSum l₂ := by
  simp [AbstractPairing.dotSum]

/-- the exponent the model computes for a call = `Σ ab` over the concatenated sub-lists -/
theorem feExponent_eq_dotSum (groups : List (List ℤ × List ℤ)) (idx : List ℕ) :
    feExponent groups idx = AbstractPairing.dotSum (fePairs groups idx) := by
  unfold feExponent
  rw [dot_foldl_aux, zero_add]
  induction idx with
  | nil => simp [fePairs, AbstractPairing.dotSum]
  | cons j idx ih =>
    have hc : fePairs groups (j :: idx) = fePairs groups [j] ++ fePairs groups idx := by simp [fePairs]
    rw [hc, dotSum_append, ← ih, List.map_cons, List.sum_cons]
    congr 1
    simp only [fePairs, List.flatMap_cons, List.flatMap_nil, List.append_nil]
    cases groups[j]? with
    | none => simp [AbstractPairing.dotSum]
    | some ab => exact dot_eq_dotSum ab.1 ab.2

/-- **histories on Miller-loop outputs are answered by value**: in the model's answer to a `fehist` line the entry of a call is `feCall`
    of the sub-lists THIS call names - it does not depend on the FinalExponentiation calls made before (or after) it on the same
    Miller-loop outputs -/
theorem fehist_call_independent (r : ℕ) (groups : List (List ℤ × List ℤ)) (pre post : List (List ℕ)) (c : List ℕ) :
    (feAnswers r groups (pre ++ c :: post))[pre.length]? = some (feCall r groups c) := by
  simp [feAnswers]

/-- … and its `value = 1` bit is set exactly when the abstract pairing product over the concatenated sub-lists is the identity:
    `FinalExponentiation(M_{i₁}, M_{i₂}, …) = ∏ e([a]g1,[b]g2) = e(g1,g2)^(Σ ab)`, whatever was called before -/
theorem fehist_one_iff (E : AbstractPairing G1 G2 GT r) (groups : List (List ℤ × List ℤ)) (idx : List ℕ) :
    E.pairProd (fePairs groups idx) = 1 ↔ feCall r groups idx = "111:1" := by
  rw [E.pairingCheck_iff_emod, ← feExponent_eq_dotSum]
  unfold feCall
  by_cases h : feExponent groups idx % (r : ℤ) = 0
  · simp [h]; decide
  · have hb : (feExponent groups idx % (r : ℤ) == 0) = false := by simpa using h
    simp [h, hb]; decide

/-- the value of a call: product over the named sub-lists = `e(g1,g2)^(exponent the model computes)` -/
theorem fehist_value (E : AbstractPairing G1 G2 GT r) (groups : List (List ℤ × List ℤ)) (idx : List ℕ) :
    E.pairProd (fePairs groups idx) = E.e E.g1 E.g2 ^ feExponent groups idx := by
  rw [E.prod_pairs, feExponent_eq_dotSum]

end model

/-! ## final-exponentiation invariance under sub-field factors (fixed-Q variant) -/

/-- `K = L[w]/(w² − v)` as pairs `c0 + c1·w` -/
structure QExt (L : Type*) where
  c0 : L
  c1 : L

namespace QExt
variable {L : Type*}

@[ext] theorem ext' {a b : QExt L} (h0 : a.c0 = b.c0) (h1 : a.c1 = b.c1) : a = b := by
  cases a; cases b; simp_all

section ring
variable [CommRing L] (v : L)

/-- schoolbook product, `w² = v` (the definition of `GV.Alg.quad`) -/
def mul (a b : QExt L) : QExt L := ⟨a.c0 * b.c0 + v * (a.c1 * b.c1), a.c0 * b.c1 + a.c1 * b.c0⟩
/-- conjugation `w ↦ −w` (= Frobenius `x ↦ x^{|L|}` of the Go code's `Conjugate`) -/
def conj (a : QExt L) : QExt L := ⟨a.c0, -a.c1⟩
/-- sub-field elements: `C1 = 0` -/
def ofBase (c : L) : QExt L := ⟨c, 0⟩
def norm (a : QExt L) : L := a.c0 * a.c0 - v * (a.c1 * a.c1)

set_option linter.unnecessarySeqFocus false in
theorem conj_mul (a b : QExt L) : conj (mul v a b) = mul v (conj a) (conj b) := by
  ext <;> simp [conj, mul] <;> ring

theorem conj_ofBase (c : L) : conj (ofBase c) = ofBase c := by
  ext <;> simp [conj, ofBase]

theorem mul_comm' (a b : QExt L) : mul v a b = mul v b a := by
  ext <;> simp [mul] <;> ring

theorem mul_conj (a : QExt L) : mul v a (conj a) = ofBase (norm v a) := by
  ext <;> simp [mul, conj, ofBase, norm] <;> ring

/-- **ring-level statement** (no inverses): `conj(c·f) · f = conj(f) · (c·f)` for `c` in the sub-field.
    Dividing by `f·(c·f)` gives `conj(c·f)/(c·f) = conj(f)/f`: the first easy-part step kills sub-field factors. -/
theorem easy_step_cross (c : L) (f : QExt L) :
    mul v (conj (mul v (ofBase c) f)) f = mul v (conj f) (mul v (ofBase c) f) := by
  ext <;> simp [mul, conj, ofBase] <;> ring

theorem norm_mul_ofBase (c : L) (f : QExt L) : norm v (mul v (ofBase c) f) = c * c * norm v f := by
  simp [norm, mul, ofBase]; ring

end ring

section field
variable [Field L] (v : L)

/-- inverse `conj(a)/N(a)` (the definition of `GV.Alg.quad.inv`) -/
def inv (a : QExt L) : QExt L := ⟨a.c0 * (norm v a)⁻¹, -(a.c1 * (norm v a)⁻¹)⟩

theorem mul_inv (a : QExt L) (h : norm v a ≠ 0) : mul v a (inv v a) = ofBase 1 := by
  have key : a.c0 * (a.c0 * (norm v a)⁻¹) + v * (a.c1 * -(a.c1 * (norm v a)⁻¹)) = norm v a * (norm v a)⁻¹ := by
    unfold norm; ring
  ext
  · simp only [mul, inv, ofBase]; rw [key, mul_inv_cancel₀ h]
  · simp only [mul, inv, ofBase]; ring

/-- **the first easy-part step kills sub-field factors**: for `c ∈ L` non-zero (an element with `C1 = 0`) and invertible `f`,
    `conj(c·f)·(c·f)⁻¹ = conj(f)·f⁻¹` -/
theorem easy_step (c : L) (hc : c ≠ 0) (f : QExt L) (hf : norm v f ≠ 0) :
    mul v (conj (mul v (ofBase c) f)) (inv v (mul v (ofBase c) f)) = mul v (conj f) (inv v f) := by
  have hn : norm v (mul v (ofBase c) f) = c * c * norm v f := norm_mul_ofBase v c f
  obtain ⟨g, hg⟩ : ∃ g, g = mul v (ofBase c) f := ⟨_, rfl⟩
  have h0 : g.c0 = c * f.c0 := by rw [hg]; simp [mul, ofBase]
  have h1 : g.c1 = c * f.c1 := by rw [hg]; simp [mul, ofBase]
  rw [← hg] at hn ⊢
  ext
  · simp only [mul, conj, inv, hn, h0, h1]
    field_simp
  · simp only [mul, conj, inv, hn, h0, h1]
    field_simp

end field
end QExt

/-- the same fact in any field `K` with a multiplicative map `σ` (conjugation over the index-2 subfield) fixing `c` -/
theorem easy_step_field {K : Type*} [Field K] (σ : K →* K) (c f : K) (hc : c ≠ 0) (hσ : σ c = c) :
    σ (c * f) * (c * f)⁻¹ = σ f * f⁻¹ := by
  rw [map_mul, hσ, mul_inv_rev]
  calc c * σ f * (f⁻¹ * c⁻¹) = σ f * f⁻¹ * (c * c⁻¹) := by ring
    _ = σ f * f⁻¹ := by rw [mul_inv_cancel₀ hc, mul_one]

/-- hence a final exponentiation whose first step is `x ↦ σ(x)·x⁻¹` (all seven `FinalExponentiation` functions: `Conjugate`,
    `Inverse`, `Mul`) does not see sub-field factors: `FE(c·f) = FE(f)` — used for `MillerLoopFixedQ = c·MillerLoop` -/
theorem finalExp_mul_subfield {K : Type*} [Field K] (σ : K →* K) (rest : K → K) (c f : K) (hc : c ≠ 0) (hσ : σ c = c) :
    rest (σ (c * f) * (c * f)⁻¹) = rest (σ f * f⁻¹) := by
  rw [easy_step_field σ c f hc hσ]

theorem map_prod_fixed {K : Type*} [Field K] (σ : K →* K) (cs : List K) (h : ∀ c ∈ cs, σ c = c) : σ cs.prod = cs.prod := by
  induction cs with
  | nil => simp
  | cons c cs ih =>
    rw [List.prod_cons, map_mul, h c (by simp), ih (fun d hd => h d (by simp [hd]))]

theorem prod_ne_zero' {K : Type*} [Field K] (cs : List K) (h : ∀ c ∈ cs, c ≠ 0) : cs.prod ≠ 0 := by
  induction cs with
  | nil => simp
  | cons c cs ih =>
    rw [List.prod_cons]
    exact mul_ne_zero (h c (by simp)) (ih (fun d hd => h d (by simp [hd])))

/-- a product of factors, one per pair, is killed likewise (multi-pairing with one constant per pair) -/
theorem finalExp_mul_subfield_list {K : Type*} [Field K] (σ : K →* K) (rest : K → K) (cs : List K) (f : K)
    (hc : ∀ c ∈ cs, c ≠ 0 ∧ σ c = c) :
    rest (σ (cs.prod * f) * (cs.prod * f)⁻¹) = rest (σ f * f⁻¹) :=
  finalExp_mul_subfield σ rest cs.prod f (prod_ne_zero' cs fun c h => (hc c h).1) (map_prod_fixed σ cs fun c h => (hc c h).2)


/-! ## the final exponent of the executable model -/

/-- raising to a cofactor prime to `r` keeps the exact order: Go's `FinalExponentiation` computes the `s`-th power of the standard
    reduced pairing (`s` = `PCurve.s`), which is therefore again bilinear, non-degenerate and of exact order `r` on the generators -/
theorem order_pow_cofactor {GT : Type*} [CommGroup GT] (g : GT) (r s : ℕ) (ho : orderOf g = r) (hs : Nat.Coprime r s) :
    orderOf (g ^ s) = r := by
  rw [← ho] at hs ⊢
  exact hs.orderOf_pow

open GV.Pairing in
/-- kernel-checked arithmetic facts about the exponent `|s|·(p^k − 1)/r` used by `PCurve.pairing`, for the seven curves:
    `r ∣ p^k − 1`, `r ∤ p^d − 1` for the proper divisors that matter (`d = k/2`, `k/3`: embedding degree exactly `k`),
    and `gcd(s, r) = 1` -/
theorem finalExp_facts :
    ((bn254.p ^ 12 - 1) % bn254.r = 0 ∧ (bn254.p ^ 6 - 1) % bn254.r ≠ 0 ∧ (bn254.p ^ 4 - 1) % bn254.r ≠ 0 ∧ Nat.gcd bn254.s.natAbs bn254.r = 1) ∧
    ((bls12_377.p ^ 12 - 1) % bls12_377.r = 0 ∧ (bls12_377.p ^ 6 - 1) % bls12_377.r ≠ 0 ∧ (bls12_377.p ^ 4 - 1) % bls12_377.r ≠ 0 ∧ Nat.gcd bls12_377.s.natAbs bls12_377.r = 1) ∧
    ((bls12_381.p ^ 12 - 1) % bls12_381.r = 0 ∧ (bls12_381.p ^ 6 - 1) % bls12_381.r ≠ 0 ∧ (bls12_381.p ^ 4 - 1) % bls12_381.r ≠ 0 ∧ Nat.gcd bls12_381.s.natAbs bls12_381.r = 1) ∧
    ((bls24_315.p ^ 24 - 1) % bls24_315.r = 0 ∧ (bls24_315.p ^ 12 - 1) % bls24_315.r ≠ 0 ∧ (bls24_315.p ^ 8 - 1) % bls24_315.r ≠ 0 ∧ Nat.gcd bls24_315.s.natAbs bls24_315.r = 1) ∧
    ((bls24_317.p ^ 24 - 1) % bls24_317.r = 0 ∧ (bls24_317.p ^ 12 - 1) % bls24_317.r ≠ 0 ∧ (bls24_317.p ^ 8 - 1) % bls24_317.r ≠ 0 ∧ Nat.gcd bls24_317.s.natAbs bls24_317.r = 1) ∧
    ((bw6_633.p ^ 6 - 1) % bw6_633.r = 0 ∧ (bw6_633.p ^ 3 - 1) % bw6_633.r ≠ 0 ∧ (bw6_633.p ^ 2 - 1) % bw6_633.r ≠ 0 ∧ Nat.gcd bw6_633.s.natAbs bw6_633.r = 1) ∧
    ((bw6_761.p ^ 6 - 1) % bw6_761.r = 0 ∧ (bw6_761.p ^ 3 - 1) % bw6_761.r ≠ 0 ∧ (bw6_761.p ^ 2 - 1) % bw6_761.r ≠ 0 ∧ Nat.gcd bw6_761.s.natAbs bw6_761.r = 1) := by
  decide +kernel

open GV.Pairing in
/-- the bw6 optimal-ate loop scalars satisfy `a₀ + a₁·p ≡ 0 (mod r)` (Vercauteren's condition for `f_{a₀,Q}·f_{a₁,π(Q)}`) -/
theorem bw6_loop_facts : bw6_761.loopOk = true ∧ bw6_633.loopOk = true := by
  decide +kernel

/-! ## non-vacuity: a concrete pairing satisfying all hypotheses (`ℤ/5 × ℤ/5 → μ₅`, `e(a,b) = ζ^(ab)`) -/

instance : Fact (Nat.Prime 5) := ⟨by norm_num⟩

/-- `e(a,b) = ofAdd (a·b)` on `ZMod 5`: bilinear, `e(1,1)` of exact order 5 -/
def toyPairing : AbstractPairing (ZMod 5) (ZMod 5) (Multiplicative (ZMod 5)) 5 where
  e a b := Multiplicative.ofAdd (a * b)
  g1 := 1
  g2 := 1
  add_left P P' Q := by rw [add_mul]; rfl
  add_right P Q Q' := by rw [mul_add]; rfl
  order := by
    rw [mul_one, orderOf_ofAdd_eq_addOrderOf, ZMod.addOrderOf_one]
  prime := by norm_num

example : toyPairing.pairProd [(2, 3), (1, 4)] = 1 := by
  rw [toyPairing.pairingCheck_iff]; decide
example : toyPairing.pairProd [(2, 3), (0, 4)] ≠ 1 := by
  rw [Ne, toyPairing.pairingCheck_iff]; decide
example : toyPairing.e ((7 : ℤ) • toyPairing.g1) ((-3 : ℤ) • toyPairing.g2) = toyPairing.e toyPairing.g1 toyPairing.g2 ^ ((7 : ℤ) * (-3)) :=
  toyPairing.e_smul_smul 7 (-3) _ _
example : toyPairing.pairSpec [1, 2] [3] = .error .size := by
  rw [toyPairing.pairSpec_error_iff]; decide
-- sub-field factor example in ℚ(√2): c = 3, f = 1 + 2w
example : QExt.mul (2 : ℚ) (QExt.conj (QExt.mul 2 (QExt.ofBase 3) ⟨1, 2⟩)) (QExt.inv 2 (QExt.mul 2 (QExt.ofBase 3) ⟨1, 2⟩))
    = QExt.mul 2 (QExt.conj ⟨1, 2⟩) (QExt.inv 2 ⟨1, 2⟩) :=
  QExt.easy_step 2 3 (by norm_num) ⟨1, 2⟩ (by norm_num [QExt.norm])
example : GV.Pairing.dot [2, 1] [3, 4] % (5 : ℤ) = 0 := by decide

end GV.C05
