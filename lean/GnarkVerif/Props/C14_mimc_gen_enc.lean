/- INSTANTIATED by bin/mkc14mimcenc.py from the package table of the script. DO NOT EDIT: edit the script and re-run it. -/
import GnarkVerif.Props.C14_mimc_gen
import GnarkVerif.Proofs.MiMCDigestEnc
import GnarkVerif.Props.C14_gen_mimc_bn254
import GnarkVerif.Props.C14_gen_mimc_bls12_381
import GnarkVerif.Props.C14_gen_mimc_bls12_377
import GnarkVerif.Props.C14_gen_mimc_bw6_761
import GnarkVerif.Props.C14_gen_mimc_bls24_315
import GnarkVerif.Props.C14_gen_mimc_bls24_317
import GnarkVerif.Props.C14_gen_mimc_bw6_633
import GnarkVerif.Props.C14_gen_mimc_grumpkin
/-
C14_mimc_gen_enc — the two translations of mimc.go composed: the digest methods of Gen/Imp/Mimc_<pkg>.lean (tools/goslp mode imp,
Props/C14_mimc_gen) with their `encrypt` PARAMETER instantiated by the TRANSLATED `digest.encrypt` of Gen/Hash/Mimc_<pkg>.lean
(tools/goslp SLP mode, Props/C14_gen_mimc_<pkg>), over F = ZMod q read through `ZMod.val`.
For every package: (`_enc_`) the translated `encrypt` with round constants `C` is the model's `encrypt` for the parameter set
`P` with `P.q = q`, the package's exponent and `P.consts = val ∘ C` on the package's number of rounds; (`_run_zmod_`) along every
history the generated hasher returns the model's outputs and its state abstracts to the model's.
What is still assumed (`RingParamsOK`): `Element.Add` = ring addition, `fr.Element{0…}` = 0, BlockSize = `P.size`, the byte codecs
(`byteOrder.Element`, `Bytes`, `SetBytesCanonical`: C08 / C08_gen); `mimcConstants` are a parameter `C` (Keccak derivation not
modelled; K re-checks them against `GetConstants()`); the instantiation of the receiver field `d.h` as the key argument of
`encrypt` rests on the translator's check that `encrypt` only reads `d.h`.
-/
set_option linter.unusedVariables false
namespace GV.MiMC.DigestGen
open GV.GoImp GV.Gen.Imp
variable {q : Nat} [NeZero q]

/-- (bn254) the translated `encrypt` over `ZMod q`, read through `val`, is the model's `encrypt` -/
theorem C14mimcgen_enc_bn254 (P : Params) (hq : P.q = q) (hd : P.d = 5) (C : Nat → ZMod q)
    (hc : P.consts = (List.range 110).map (fun i => (C i).val)) (k m : ZMod q) :
    (Gen.Hash.mimc_bn254.digest.encrypt m C k).val = MiMC.encrypt P k.val m.val := by
  have := val_encryptSpec P hq ((List.range 110).map C) (by rw [hc, List.map_map]; rfl) k m
  rw [hd] at this
  rw [Gen.Hash.mimc_bn254.C14gen_mimc_bn254_encrypt]
  exact this

/-- (bn254) **every history** of the translated digest methods with the translated `encrypt` as their parameter -/
theorem C14mimcgen_run_zmod_bn254 {BO : Type} (P : Params) (hq : P.q = q) (hd : P.d = 5) (C : Nat → ZMod q)
    (hc : P.consts = (List.range 110).map (fun i => (C i).val)) (hn : (P.size : Int) = 32) (bo : BO)
    (X : Prims (ZMod q) BO) (hX : X.encrypt = fun k m => Gen.Hash.mimc_bn254.digest.encrypt m C k) (h : RingParamsOK P bo X)
    (d : Mimc_bn254.digest (ZMod q) BO) (hbo : d.byteOrder = bo) (ops : List Op) :
    absF ZMod.val (grun (methods_bn254 X) d ops).1 = (run P (absF ZMod.val d) ops).1 ∧
    (grun (methods_bn254 X) d ops).2 = (run P (absF ZMod.val d) ops).2 := by
  have hok : ParamsOKF P ZMod.val bo X :=
    paramsOKF_zmod P hq bo X h (fun k m => by rw [hX]; exact C14mimcgen_enc_bn254 P hq hd C hc k m)
  obtain ⟨h1, h2, _⟩ := C14mimcgen_runF P ZMod.val bo X 32 _ (C14mimcgen_pkg_bn254 X) hok hn d hbo ops
  exact ⟨h1, h2⟩

/-- (bls12_381) the translated `encrypt` over `ZMod q`, read through `val`, is the model's `encrypt` -/
theorem C14mimcgen_enc_bls12_381 (P : Params) (hq : P.q = q) (hd : P.d = 5) (C : Nat → ZMod q)
    (hc : P.consts = (List.range 111).map (fun i => (C i).val)) (k m : ZMod q) :
    (Gen.Hash.mimc_bls12_381.digest.encrypt m C k).val = MiMC.encrypt P k.val m.val := by
  have := val_encryptSpec P hq ((List.range 111).map C) (by rw [hc, List.map_map]; rfl) k m
  rw [hd] at this
  rw [Gen.Hash.mimc_bls12_381.C14gen_mimc_bls12_381_encrypt]
  exact this

/-- (bls12_381) **every history** of the translated digest methods with the translated `encrypt` as their parameter -/
theorem C14mimcgen_run_zmod_bls12_381 {BO : Type} (P : Params) (hq : P.q = q) (hd : P.d = 5) (C : Nat → ZMod q)
    (hc : P.consts = (List.range 111).map (fun i => (C i).val)) (hn : (P.size : Int) = 32) (bo : BO)
    (X : Prims (ZMod q) BO) (hX : X.encrypt = fun k m => Gen.Hash.mimc_bls12_381.digest.encrypt m C k) (h : RingParamsOK P bo X)
    (d : Mimc_bn254.digest (ZMod q) BO) (hbo : d.byteOrder = bo) (ops : List Op) :
    absF ZMod.val (grun (methods_bls12_381 X) d ops).1 = (run P (absF ZMod.val d) ops).1 ∧
    (grun (methods_bls12_381 X) d ops).2 = (run P (absF ZMod.val d) ops).2 := by
  have hok : ParamsOKF P ZMod.val bo X :=
    paramsOKF_zmod P hq bo X h (fun k m => by rw [hX]; exact C14mimcgen_enc_bls12_381 P hq hd C hc k m)
  obtain ⟨h1, h2, _⟩ := C14mimcgen_runF P ZMod.val bo X 32 _ (C14mimcgen_pkg_bls12_381 X) hok hn d hbo ops
  exact ⟨h1, h2⟩

/-- (bls12_377) the translated `encrypt` over `ZMod q`, read through `val`, is the model's `encrypt` -/
theorem C14mimcgen_enc_bls12_377 (P : Params) (hq : P.q = q) (hd : P.d = 17) (C : Nat → ZMod q)
    (hc : P.consts = (List.range 62).map (fun i => (C i).val)) (k m : ZMod q) :
    (Gen.Hash.mimc_bls12_377.digest.encrypt m C k).val = MiMC.encrypt P k.val m.val := by
  have := val_encryptSpec P hq ((List.range 62).map C) (by rw [hc, List.map_map]; rfl) k m
  rw [hd] at this
  rw [Gen.Hash.mimc_bls12_377.C14gen_mimc_bls12_377_encrypt]
  exact this

/-- (bls12_377) **every history** of the translated digest methods with the translated `encrypt` as their parameter -/
theorem C14mimcgen_run_zmod_bls12_377 {BO : Type} (P : Params) (hq : P.q = q) (hd : P.d = 17) (C : Nat → ZMod q)
    (hc : P.consts = (List.range 62).map (fun i => (C i).val)) (hn : (P.size : Int) = 32) (bo : BO)
    (X : Prims (ZMod q) BO) (hX : X.encrypt = fun k m => Gen.Hash.mimc_bls12_377.digest.encrypt m C k) (h : RingParamsOK P bo X)
    (d : Mimc_bn254.digest (ZMod q) BO) (hbo : d.byteOrder = bo) (ops : List Op) :
    absF ZMod.val (grun (methods_bls12_377 X) d ops).1 = (run P (absF ZMod.val d) ops).1 ∧
    (grun (methods_bls12_377 X) d ops).2 = (run P (absF ZMod.val d) ops).2 := by
  have hok : ParamsOKF P ZMod.val bo X :=
    paramsOKF_zmod P hq bo X h (fun k m => by rw [hX]; exact C14mimcgen_enc_bls12_377 P hq hd C hc k m)
  obtain ⟨h1, h2, _⟩ := C14mimcgen_runF P ZMod.val bo X 32 _ (C14mimcgen_pkg_bls12_377 X) hok hn d hbo ops
  exact ⟨h1, h2⟩

/-- (bw6_761) the translated `encrypt` over `ZMod q`, read through `val`, is the model's `encrypt` -/
theorem C14mimcgen_enc_bw6_761 (P : Params) (hq : P.q = q) (hd : P.d = 5) (C : Nat → ZMod q)
    (hc : P.consts = (List.range 163).map (fun i => (C i).val)) (k m : ZMod q) :
    (Gen.Hash.mimc_bw6_761.digest.encrypt m C k).val = MiMC.encrypt P k.val m.val := by
  have := val_encryptSpec P hq ((List.range 163).map C) (by rw [hc, List.map_map]; rfl) k m
  rw [hd] at this
  rw [Gen.Hash.mimc_bw6_761.C14gen_mimc_bw6_761_encrypt]
  exact this

/-- (bw6_761) **every history** of the translated digest methods with the translated `encrypt` as their parameter -/
theorem C14mimcgen_run_zmod_bw6_761 {BO : Type} (P : Params) (hq : P.q = q) (hd : P.d = 5) (C : Nat → ZMod q)
    (hc : P.consts = (List.range 163).map (fun i => (C i).val)) (hn : (P.size : Int) = 48) (bo : BO)
    (X : Prims (ZMod q) BO) (hX : X.encrypt = fun k m => Gen.Hash.mimc_bw6_761.digest.encrypt m C k) (h : RingParamsOK P bo X)
    (d : Mimc_bn254.digest (ZMod q) BO) (hbo : d.byteOrder = bo) (ops : List Op) :
    absF ZMod.val (grun (methods_bw6_761 X) d ops).1 = (run P (absF ZMod.val d) ops).1 ∧
    (grun (methods_bw6_761 X) d ops).2 = (run P (absF ZMod.val d) ops).2 := by
  have hok : ParamsOKF P ZMod.val bo X :=
    paramsOKF_zmod P hq bo X h (fun k m => by rw [hX]; exact C14mimcgen_enc_bw6_761 P hq hd C hc k m)
  obtain ⟨h1, h2, _⟩ := C14mimcgen_runF P ZMod.val bo X 48 _ (C14mimcgen_pkg_bw6_761 X) hok hn d hbo ops
  exact ⟨h1, h2⟩

/-- (bls24_315) the translated `encrypt` over `ZMod q`, read through `val`, is the model's `encrypt` -/
theorem C14mimcgen_enc_bls24_315 (P : Params) (hq : P.q = q) (hd : P.d = 5) (C : Nat → ZMod q)
    (hc : P.consts = (List.range 109).map (fun i => (C i).val)) (k m : ZMod q) :
    (Gen.Hash.mimc_bls24_315.digest.encrypt m C k).val = MiMC.encrypt P k.val m.val := by
  have := val_encryptSpec P hq ((List.range 109).map C) (by rw [hc, List.map_map]; rfl) k m
  rw [hd] at this
  rw [Gen.Hash.mimc_bls24_315.C14gen_mimc_bls24_315_encrypt]
  exact this

/-- (bls24_315) **every history** of the translated digest methods with the translated `encrypt` as their parameter -/
theorem C14mimcgen_run_zmod_bls24_315 {BO : Type} (P : Params) (hq : P.q = q) (hd : P.d = 5) (C : Nat → ZMod q)
    (hc : P.consts = (List.range 109).map (fun i => (C i).val)) (hn : (P.size : Int) = 32) (bo : BO)
    (X : Prims (ZMod q) BO) (hX : X.encrypt = fun k m => Gen.Hash.mimc_bls24_315.digest.encrypt m C k) (h : RingParamsOK P bo X)
    (d : Mimc_bn254.digest (ZMod q) BO) (hbo : d.byteOrder = bo) (ops : List Op) :
    absF ZMod.val (grun (methods_bls24_315 X) d ops).1 = (run P (absF ZMod.val d) ops).1 ∧
    (grun (methods_bls24_315 X) d ops).2 = (run P (absF ZMod.val d) ops).2 := by
  have hok : ParamsOKF P ZMod.val bo X :=
    paramsOKF_zmod P hq bo X h (fun k m => by rw [hX]; exact C14mimcgen_enc_bls24_315 P hq hd C hc k m)
  obtain ⟨h1, h2, _⟩ := C14mimcgen_runF P ZMod.val bo X 32 _ (C14mimcgen_pkg_bls24_315 X) hok hn d hbo ops
  exact ⟨h1, h2⟩

/-- (bls24_317) the translated `encrypt` over `ZMod q`, read through `val`, is the model's `encrypt` -/
theorem C14mimcgen_enc_bls24_317 (P : Params) (hq : P.q = q) (hd : P.d = 7) (C : Nat → ZMod q)
    (hc : P.consts = (List.range 91).map (fun i => (C i).val)) (k m : ZMod q) :
    (Gen.Hash.mimc_bls24_317.digest.encrypt m C k).val = MiMC.encrypt P k.val m.val := by
  have := val_encryptSpec P hq ((List.range 91).map C) (by rw [hc, List.map_map]; rfl) k m
  rw [hd] at this
  rw [Gen.Hash.mimc_bls24_317.C14gen_mimc_bls24_317_encrypt]
  exact this

/-- (bls24_317) **every history** of the translated digest methods with the translated `encrypt` as their parameter -/
theorem C14mimcgen_run_zmod_bls24_317 {BO : Type} (P : Params) (hq : P.q = q) (hd : P.d = 7) (C : Nat → ZMod q)
    (hc : P.consts = (List.range 91).map (fun i => (C i).val)) (hn : (P.size : Int) = 32) (bo : BO)
    (X : Prims (ZMod q) BO) (hX : X.encrypt = fun k m => Gen.Hash.mimc_bls24_317.digest.encrypt m C k) (h : RingParamsOK P bo X)
    (d : Mimc_bn254.digest (ZMod q) BO) (hbo : d.byteOrder = bo) (ops : List Op) :
    absF ZMod.val (grun (methods_bls24_317 X) d ops).1 = (run P (absF ZMod.val d) ops).1 ∧
    (grun (methods_bls24_317 X) d ops).2 = (run P (absF ZMod.val d) ops).2 := by
  have hok : ParamsOKF P ZMod.val bo X :=
    paramsOKF_zmod P hq bo X h (fun k m => by rw [hX]; exact C14mimcgen_enc_bls24_317 P hq hd C hc k m)
  obtain ⟨h1, h2, _⟩ := C14mimcgen_runF P ZMod.val bo X 32 _ (C14mimcgen_pkg_bls24_317 X) hok hn d hbo ops
  exact ⟨h1, h2⟩

/-- (bw6_633) the translated `encrypt` over `ZMod q`, read through `val`, is the model's `encrypt` -/
theorem C14mimcgen_enc_bw6_633 (P : Params) (hq : P.q = q) (hd : P.d = 5) (C : Nat → ZMod q)
    (hc : P.consts = (List.range 136).map (fun i => (C i).val)) (k m : ZMod q) :
    (Gen.Hash.mimc_bw6_633.digest.encrypt m C k).val = MiMC.encrypt P k.val m.val := by
  have := val_encryptSpec P hq ((List.range 136).map C) (by rw [hc, List.map_map]; rfl) k m
  rw [hd] at this
  rw [Gen.Hash.mimc_bw6_633.C14gen_mimc_bw6_633_encrypt]
  exact this

/-- (bw6_633) **every history** of the translated digest methods with the translated `encrypt` as their parameter -/
theorem C14mimcgen_run_zmod_bw6_633 {BO : Type} (P : Params) (hq : P.q = q) (hd : P.d = 5) (C : Nat → ZMod q)
    (hc : P.consts = (List.range 136).map (fun i => (C i).val)) (hn : (P.size : Int) = 40) (bo : BO)
    (X : Prims (ZMod q) BO) (hX : X.encrypt = fun k m => Gen.Hash.mimc_bw6_633.digest.encrypt m C k) (h : RingParamsOK P bo X)
    (d : Mimc_bn254.digest (ZMod q) BO) (hbo : d.byteOrder = bo) (ops : List Op) :
    absF ZMod.val (grun (methods_bw6_633 X) d ops).1 = (run P (absF ZMod.val d) ops).1 ∧
    (grun (methods_bw6_633 X) d ops).2 = (run P (absF ZMod.val d) ops).2 := by
  have hok : ParamsOKF P ZMod.val bo X :=
    paramsOKF_zmod P hq bo X h (fun k m => by rw [hX]; exact C14mimcgen_enc_bw6_633 P hq hd C hc k m)
  obtain ⟨h1, h2, _⟩ := C14mimcgen_runF P ZMod.val bo X 40 _ (C14mimcgen_pkg_bw6_633 X) hok hn d hbo ops
  exact ⟨h1, h2⟩

/-- (grumpkin) the translated `encrypt` over `ZMod q`, read through `val`, is the model's `encrypt` -/
theorem C14mimcgen_enc_grumpkin (P : Params) (hq : P.q = q) (hd : P.d = 5) (C : Nat → ZMod q)
    (hc : P.consts = (List.range 110).map (fun i => (C i).val)) (k m : ZMod q) :
    (Gen.Hash.mimc_grumpkin.digest.encrypt m C k).val = MiMC.encrypt P k.val m.val := by
  have := val_encryptSpec P hq ((List.range 110).map C) (by rw [hc, List.map_map]; rfl) k m
  rw [hd] at this
  rw [Gen.Hash.mimc_grumpkin.C14gen_mimc_grumpkin_encrypt]
  exact this

/-- (grumpkin) **every history** of the translated digest methods with the translated `encrypt` as their parameter -/
theorem C14mimcgen_run_zmod_grumpkin {BO : Type} (P : Params) (hq : P.q = q) (hd : P.d = 5) (C : Nat → ZMod q)
    (hc : P.consts = (List.range 110).map (fun i => (C i).val)) (hn : (P.size : Int) = 32) (bo : BO)
    (X : Prims (ZMod q) BO) (hX : X.encrypt = fun k m => Gen.Hash.mimc_grumpkin.digest.encrypt m C k) (h : RingParamsOK P bo X)
    (d : Mimc_bn254.digest (ZMod q) BO) (hbo : d.byteOrder = bo) (ops : List Op) :
    absF ZMod.val (grun (methods_grumpkin X) d ops).1 = (run P (absF ZMod.val d) ops).1 ∧
    (grun (methods_grumpkin X) d ops).2 = (run P (absF ZMod.val d) ops).2 := by
  have hok : ParamsOKF P ZMod.val bo X :=
    paramsOKF_zmod P hq bo X h (fun k m => by rw [hX]; exact C14mimcgen_enc_grumpkin P hq hd C hc k m)
  obtain ⟨h1, h2, _⟩ := C14mimcgen_runF P ZMod.val bo X 32 _ (C14mimcgen_pkg_grumpkin X) hok hn d hbo ops
  exact ⟨h1, h2⟩

-- non-vacuity (bn254 shape): q = 101, all round constants 3, BlockSize 32, codecs read off the model
/-- parameters over `ZMod 101` with the translated `encrypt` of ecc/bn254 -/
def zmodPrims : Prims (ZMod 101) Unit where
  fZero := 0
  fAdd := (· + ·)
  encrypt k m := Gen.Hash.mimc_bn254.digest.encrypt m (fun _ => 3) k
  boElement _ blk := if decBlock { q := 101, d := 5, size := 32, consts := [] } blk < 101 then
      (((decBlock { q := 101, d := 5, size := 32, consts := [] } blk : Nat) : ZMod 101), Err.nil)
    else (0, Err.sentinel "invalid fr.Element encoding")
  fBytes x := encBE 32 x.val
  fSet z buf := if buf.length = 32 ∧ beToNat buf < 101 then (((beToNat buf : Nat) : ZMod 101), Err.nil)
    else (z, Err.sentinel "invalid fr.Element encoding")
  frHash _ _ _ := ([0], Err.nil)
  frBE := ()
  BS := 32

example : RingParamsOK (q := 101) { q := 101, d := 5, size := 32, consts := (List.range 110).map (fun _ => 3) } () zmodPrims where
  size_pos := by decide
  blockSize := rfl
  zero := rfl
  add := rfl
  dec_ok blk _ hv := by
    have e : decBlock { q := 101, d := 5, size := 32, consts := (List.range 110).map (fun _ => 3) } blk =
        decBlock { q := 101, d := 5, size := 32, consts := [] } blk := rfl
    rw [e] at hv ⊢
    simp only [zmodPrims, hv, if_true, ZMod.val_natCast]
    exact ⟨Nat.mod_eq_of_lt hv, trivial⟩
  dec_err blk _ hv := by
    have e : decBlock { q := 101, d := 5, size := 32, consts := (List.range 110).map (fun _ => 3) } blk =
        decBlock { q := 101, d := 5, size := 32, consts := [] } blk := rfl
    rw [e] at hv
    simp [zmodPrims, hv]
  bytes _ := rfl
  set_ok z buf hl hv := by
    have : buf.length = 32 ∧ beToNat buf < 101 := ⟨hl, hv⟩
    simp only [zmodPrims, this, and_self, if_true, ZMod.val_natCast]
    exact ⟨Nat.mod_eq_of_lt hv, trivial⟩
  set_err z buf hc := by
    have : ¬ (buf.length = 32 ∧ beToNat buf < 101) := hc
    simp [zmodPrims, this]

example : ({ q := 101, d := 5, size := 32, consts := (List.range 110).map (fun _ => 3) } : Params).consts =
    (List.range 110).map (fun i => ((fun _ => 3 : Nat → ZMod 101) i).val) := by decide

end GV.MiMC.DigestGen
