/- INSTANTIATED by bin/mkc12gen.py (one proof template for all packages). DO NOT EDIT: edit the script and re-run it. -/
import GnarkVerif.Props.C12_gen_bn254
import GnarkVerif.Props.C12_gen_bls12_377
import GnarkVerif.Props.C12_gen_bls12_381
import GnarkVerif.Props.C12_gen_bls24_315
import GnarkVerif.Props.C12_gen_bls24_317
import GnarkVerif.Props.C12_gen_bw6_633
import GnarkVerif.Props.C12_gen_bw6_761
import GnarkVerif.Props.C12_gen_secp256k1
import GnarkVerif.Props.C12_gen_stark_curve
import GnarkVerif.Props.C12_gen_grumpkin
import GnarkVerif.Props.C12_gen_eddsa_bn254
import GnarkVerif.Props.C12_gen_eddsa_bls12_377
import GnarkVerif.Props.C12_gen_eddsa_bls12_381
import GnarkVerif.Props.C12_gen_eddsa_bandersnatch
import GnarkVerif.Props.C12_gen_eddsa_bls24_315
import GnarkVerif.Props.C12_gen_eddsa_bls24_317
import GnarkVerif.Props.C12_gen_eddsa_bw6_633
import GnarkVerif.Props.C12_gen_eddsa_bw6_761
/-
C12 tie T (signature verifiers): see Props/C12_gen_<curve>.lean and Proofs/SigGen.lean. This root module only collects the instances.
-/
