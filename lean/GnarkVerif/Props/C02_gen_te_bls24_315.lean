/- INSTANTIATED by bin/mkc02gen.py from Props/C02_gen_te_bn254.lean (bn254 twisted Edwards). DO NOT EDIT: edit the master and re-run the script.
   Every statement below is checked by Lean against the defs regenerated from the Go source. -/
import GnarkVerif.Proofs.CurveGen
import GnarkVerif.Gen.Curve.Te_bls24_315Alias
/-
C02 (tie T) — twisted Edwards points of /repo/ecc/bls24-315/twistededwards/point.go (curve.go: `mulByA`, a = -1).

Every theorem `C02gen_*` is about a def of `Gen/Curve/Te_bls24_315.lean`, REGENERATED from the Go source on every run
(`curveParams.D` is the parameter `d` of the defs; the coefficient a is hard-wired in the translated `mulByA`).
Specification: the unified affine addition law `teAdd a d` of the curve a·x² + y² = 1 + d·x²·y² (Proofs/Curve.lean), for
every projective scaling Z ≠ 0. `PointExtended.MixedAdd` keeps the partial statement and the findings of Props/C02.lean.
-/
set_option linter.unusedSectionVars false
set_option linter.unusedVariables false
namespace GV.Gen.Curve.te_bls24_315
open GV.Curve GV.C02 GV.CurveGen

variable {F : Type} [Field F] [DecidableEq F]

/-- the coefficient a of this package's curve, as wired into `mulByA` -/
def coeffA (F : Type) [Field F] : F := -1

theorem mulByA_eq (x : F) : mulByA x = coeffA F * x := by simp only [mulByA, coeffA]; ring

def PointAffine.ofT (t : F × F) : PointAffine F := ⟨t.1, t.2⟩
def PointProj.ofT (t : F × F × F) : PointProj F := ⟨t.1, t.2.1, t.2.2⟩
/-- NB the Go field order is X, Y, Z, T -/
def PointExtended.ofT (t : F × F × F × F) : PointExtended F := ⟨t.1, t.2.1, t.2.2.1, t.2.2.2⟩

/-! ## bridge: generated def = transcribed formula -/

theorem PointAffine.Add_eq (p1 p2 : PointAffine F) (d : F) :
    (PointAffine.Add p1 p2 d).1 = .ofT (teAffAdd (coeffA F) d p1.X p1.Y p2.X p2.Y) := by
  gv_bridge [PointAffine.Add, mulByA_eq, PointAffine.ofT, teAffAdd, div_eq_mul_inv]

theorem PointAffine.Double_eq (p1 : PointAffine F) :
    (PointAffine.Double p1).1 = .ofT (teAffDouble (coeffA F) p1.X p1.Y) := by
  gv_bridge [PointAffine.Double, PointAffine.Set, mulByA_eq, PointAffine.ofT, teAffDouble, div_eq_mul_inv]

theorem PointProj.Add_eq (p1 p2 : PointProj F) (d : F) :
    (PointProj.Add p1 p2 d).1 = .ofT (teProjAdd (coeffA F) d p1.X p1.Y p1.Z p2.X p2.Y p2.Z) := by
  gv_bridge [PointProj.Add, mulByA_eq, PointProj.ofT, teProjAdd]

theorem PointProj.MixedAdd_eq (p1 : PointProj F) (p2 : PointAffine F) (d : F) :
    (PointProj.MixedAdd p1 p2 d).1 = .ofT (teProjMixedAdd (coeffA F) d p1.X p1.Y p1.Z p2.X p2.Y) := by
  gv_bridge [PointProj.MixedAdd, mulByA_eq, PointProj.ofT, teProjMixedAdd]

theorem PointProj.Double_eq (p1 : PointProj F) :
    (PointProj.Double p1).1 = .ofT (teProjDouble (coeffA F) p1.X p1.Y p1.Z) := by
  gv_bridge [PointProj.Double, mulByA_eq, PointProj.ofT, teProjDouble]

theorem PointExtended.Add_eq (p1 p2 : PointExtended F) (d : F) :
    (PointExtended.Add p1 p2 d).1 = .ofT (teExtAdd (coeffA F) d p1.X p1.Y p1.Z p1.T p2.X p2.Y p2.Z p2.T) := by
  gv_bridge [PointExtended.Add, mulByA_eq, PointExtended.ofT, teExtAdd]

theorem PointExtended.Double_eq (p1 : PointExtended F) :
    (PointExtended.Double p1).1 = .ofT (teExtDouble (coeffA F) p1.X p1.Y p1.Z) := by
  gv_bridge [PointExtended.Double, mulByA_eq, PointExtended.ofT, teExtDouble]

theorem PointExtended.MixedDouble_eq (p1 : PointExtended F) :
    (PointExtended.MixedDouble p1).1 = .ofT (teExtMixedDouble (coeffA F) p1.X p1.Y) := by
  gv_bridge [PointExtended.MixedDouble, mulByA_eq, PointExtended.ofT, teExtMixedDouble, Nat.cast_ofNat]

/-- `PointExtended.MixedAdd` with its dispatch: the equal-point test `X1 = x2·Z1 ∧ Y1 = y2·Z1` sends to `MixedDouble` -/
theorem PointExtended.MixedAdd_eq (p1 : PointExtended F) (p2 : PointAffine F) :
    (PointExtended.MixedAdd p1 p2).1 =
      if p1.X = p2.X * p1.Z ∧ p1.Y = p2.Y * p1.Z then .ofT (teExtMixedDouble (coeffA F) p1.X p1.Y)
      else .ofT (teExtMixedAdd (coeffA F) p1.X p1.Y p1.Z p1.T p2.X p2.Y) := by
  gv_bridge [PointExtended.MixedAdd, PointExtended.MixedDouble_eq, mulByA_eq, PointExtended.ofT, teExtMixedAdd]

theorem PointAffine.IsOnCurve_iff (p : PointAffine F) (d : F) :
    PointAffine.IsOnCurve p d = true ↔ TeOnCurve (coeffA F) d p.X p.Y := by
  simp only [PointAffine.IsOnCurve, mulByA_eq, TeOnCurve, decide_eq_true_eq]
  constructor <;> intro h <;> linear_combination h

theorem PointAffine.FromProj_eq (p1 : PointProj F) : (PointAffine.FromProj p1).1 = ⟨p1.X * p1.Z⁻¹, p1.Y * p1.Z⁻¹⟩ := rfl
theorem PointAffine.FromExtended_eq (p1 : PointExtended F) :
    (PointAffine.FromExtended p1).1 = ⟨p1.X * p1.Z⁻¹, p1.Y * p1.Z⁻¹⟩ := rfl

/-! ## C02: the generated methods implement the unified addition law, for every scaling -/

section
variable {d : F}

/-- `PointAffine.Add` IS the unified law; `PointAffine.Double` agrees with it on curve points -/
theorem C02gen_PointAffine_Add (p1 p2 : PointAffine F) :
    (PointAffine.Add p1 p2 d).1 = .ofT (teAdd (coeffA F) d p1.X p1.Y p2.X p2.Y) := by
  rw [PointAffine.Add_eq, teAffAdd_eq]

theorem C02gen_PointAffine_Double (p1 : PointAffine F) (hc : TeOnCurve (coeffA F) d p1.X p1.Y) :
    (PointAffine.Double p1).1 = .ofT (teAdd (coeffA F) d p1.X p1.Y p1.X p1.Y) := by
  rw [PointAffine.Double_eq, teAffDouble_eq hc]

/-- `PointAffine.IsOnCurve p curveParams.D` is the curve equation -/
theorem C02gen_PointAffine_IsOnCurve (p : PointAffine F) :
    PointAffine.IsOnCurve p d = true ↔ TeOnCurve (coeffA F) d p.X p.Y := PointAffine.IsOnCurve_iff p d

/-- negation is (x, y) ↦ (−x, y) in every coordinate system (the inverse for the unified law) -/
theorem C02gen_Neg (pa : PointAffine F) (pp : PointProj F) (pe : PointExtended F) :
    (PointAffine.Neg pa).1 = ⟨-pa.X, pa.Y⟩ ∧ (PointProj.Neg pp).1 = ⟨-pp.X, pp.Y, pp.Z⟩ ∧
    (PointExtended.Neg pe).1 = ⟨-pe.X, pe.Y, pe.Z, -pe.T⟩ := ⟨rfl, rfl, rfl⟩

theorem C02gen_Neg_is_inverse {x y : F} (hc : TeOnCurve (coeffA F) d x y) (h1 : 1 + d * x * -x * y * y ≠ 0)
    (h2 : 1 - d * x * -x * y * y ≠ 0) : teAdd (coeffA F) d x y (-x) y = (0, 1) := by
  unfold TeOnCurve at hc
  simp only [teAdd, Prod.mk.injEq]
  constructor
  · rw [div_eq_zero_iff]; left; ring
  · rw [div_eq_one_iff_eq h2]; linear_combination hc

/-- `PointProj.Add`, `MixedAdd`, `Double` -/
theorem C02gen_PointProj_Add {p1 p2 : PointProj F} {x1 y1 x2 y2 : F}
    (hp : ProjRep p1.X p1.Y p1.Z x1 y1) (hq : ProjRep p2.X p2.Y p2.Z x2 y2)
    (h1 : 1 + d * x1 * x2 * y1 * y2 ≠ 0) (h2 : 1 - d * x1 * x2 * y1 * y2 ≠ 0) :
    ProjRep (PointProj.Add p1 p2 d).1.X (PointProj.Add p1 p2 d).1.Y (PointProj.Add p1 p2 d).1.Z
      (teAdd (coeffA F) d x1 y1 x2 y2).1 (teAdd (coeffA F) d x1 y1 x2 y2).2 := by
  rw [PointProj.Add_eq]; exact (C02_teProj hp hq h1 h2).1

theorem C02gen_PointProj_MixedAdd {p1 : PointProj F} {p2 : PointAffine F} {x1 y1 : F}
    (hp : ProjRep p1.X p1.Y p1.Z x1 y1)
    (h1 : 1 + d * x1 * p2.X * y1 * p2.Y ≠ 0) (h2 : 1 - d * x1 * p2.X * y1 * p2.Y ≠ 0) :
    ProjRep (PointProj.MixedAdd p1 p2 d).1.X (PointProj.MixedAdd p1 p2 d).1.Y (PointProj.MixedAdd p1 p2 d).1.Z
      (teAdd (coeffA F) d x1 y1 p2.X p2.Y).1 (teAdd (coeffA F) d x1 y1 p2.X p2.Y).2 := by
  rw [PointProj.MixedAdd_eq]; exact teProjMixedAdd_correct hp h1 h2

theorem C02gen_PointProj_Double {p1 : PointProj F} {x y : F} (hp : ProjRep p1.X p1.Y p1.Z x y)
    (hc : TeOnCurve (coeffA F) d x y) (h1 : 1 + d * x * x * y * y ≠ 0) (h2 : 1 - d * x * x * y * y ≠ 0) :
    ProjRep (PointProj.Double p1).1.X (PointProj.Double p1).1.Y (PointProj.Double p1).1.Z
      (teAdd (coeffA F) d x y x y).1 (teAdd (coeffA F) d x y x y).2 := by
  rw [PointProj.Double_eq]; exact C02_teProjDouble hp hc h1 h2

/-- `PointExtended.Add`, `Double` -/
theorem C02gen_PointExtended_Add {p1 p2 : PointExtended F} {x1 y1 x2 y2 : F}
    (hp : ExtRep p1.X p1.Y p1.Z p1.T x1 y1) (hq : ExtRep p2.X p2.Y p2.Z p2.T x2 y2)
    (h1 : 1 + d * x1 * x2 * y1 * y2 ≠ 0) (h2 : 1 - d * x1 * x2 * y1 * y2 ≠ 0) :
    ExtRep (PointExtended.Add p1 p2 d).1.X (PointExtended.Add p1 p2 d).1.Y (PointExtended.Add p1 p2 d).1.Z
      (PointExtended.Add p1 p2 d).1.T (teAdd (coeffA F) d x1 y1 x2 y2).1 (teAdd (coeffA F) d x1 y1 x2 y2).2 := by
  rw [PointExtended.Add_eq]; exact C02_teExt hp hq h1 h2

theorem C02gen_PointExtended_Double {p1 : PointExtended F} {x y : F} (hp : ProjRep p1.X p1.Y p1.Z x y)
    (hc : TeOnCurve (coeffA F) d x y) (h1 : 1 + d * x * x * y * y ≠ 0) (h2 : 1 - d * x * x * y * y ≠ 0) :
    ExtRep (PointExtended.Double p1).1.X (PointExtended.Double p1).1.Y (PointExtended.Double p1).1.Z
      (PointExtended.Double p1).1.T (teAdd (coeffA F) d x y x y).1 (teAdd (coeffA F) d x y x y).2 := by
  rw [PointExtended.Double_eq]; exact C02_teExtDouble hp hc h1 h2

/-- `PointExtended.MixedDouble` reads X1, Y1 only: it is `Double` of (X1, Y1, 1), hence correct for Z1 = 1 -/
theorem C02gen_PointExtended_MixedDouble {p1 : PointExtended F} {x y : F} (hz : p1.Z = 1)
    (hp : ProjRep p1.X p1.Y p1.Z x y) (hc : TeOnCurve (coeffA F) d x y)
    (h1 : 1 + d * x * x * y * y ≠ 0) (h2 : 1 - d * x * x * y * y ≠ 0) :
    ExtRep (PointExtended.MixedDouble p1).1.X (PointExtended.MixedDouble p1).1.Y (PointExtended.MixedDouble p1).1.Z
      (PointExtended.MixedDouble p1).1.T (teAdd (coeffA F) d x y x y).1 (teAdd (coeffA F) d x y x y).2 := by
  rw [PointExtended.MixedDouble_eq, teExtMixedDouble_eq]
  exact C02_teExtDouble (hz ▸ hp) hc h1 h2

/-
The property demands for `PointExtended.MixedAdd`, for ALL curve points P (any scaling) and Q:
    ExtRep (MixedAdd P Q) (teAdd a d x1 y1 x2 y2)
This does NOT hold for the Go code (findings F2, F3 of Props/C02.lean): what holds is the partial statement below — the
general branch (the equal-point test fails) on the operands where the dedicated formula madd-2008-hwcd-2 is defined.
-/
theorem C02gen_PointExtended_MixedAdd_partial {p1 : PointExtended F} {p2 : PointAffine F} {x1 y1 : F}
    (hp : ExtRep p1.X p1.Y p1.Z p1.T x1 y1) (hc1 : TeOnCurve (coeffA F) d x1 y1) (hc2 : TeOnCurve (coeffA F) d p2.X p2.Y)
    (hne : ¬(p1.X = p2.X * p1.Z ∧ p1.Y = p2.Y * p1.Z))
    (hG : y1 * p2.Y + coeffA F * x1 * p2.X ≠ 0) (hF : x1 * p2.Y - y1 * p2.X ≠ 0)
    (h1 : 1 + d * x1 * p2.X * y1 * p2.Y ≠ 0) (h2 : 1 - d * x1 * p2.X * y1 * p2.Y ≠ 0) :
    ExtRep (PointExtended.MixedAdd p1 p2).1.X (PointExtended.MixedAdd p1 p2).1.Y (PointExtended.MixedAdd p1 p2).1.Z
      (PointExtended.MixedAdd p1 p2).1.T (teAdd (coeffA F) d x1 y1 p2.X p2.Y).1 (teAdd (coeffA F) d x1 y1 p2.X p2.Y).2 := by
  rw [PointExtended.MixedAdd_eq, if_neg hne]
  exact C02_teExtMixedAdd_partial hp hc1 hc2 hG hF h1 h2

/-- the equal-point branch of `MixedAdd` is `MixedDouble` of the receiver; the test `X1 = x2·Z1 ∧ Y1 = y2·Z1` holds
exactly when both operands are the same affine point -/
theorem C02gen_PointExtended_MixedAdd_same {p1 : PointExtended F} {p2 : PointAffine F}
    (he : p1.X = p2.X * p1.Z ∧ p1.Y = p2.Y * p1.Z) :
    (PointExtended.MixedAdd p1 p2).1 = (PointExtended.MixedDouble p1).1 := by
  rw [PointExtended.MixedAdd_eq, if_pos he, PointExtended.MixedDouble_eq]

/-- conversions -/
theorem C02gen_FromProj {p1 : PointProj F} {x y : F} (hp : ProjRep p1.X p1.Y p1.Z x y) :
    (PointAffine.FromProj p1).1 = ⟨x, y⟩ := by
  obtain ⟨hz, hX, hY⟩ := hp
  rw [PointAffine.FromProj_eq, hX, hY]
  congr 1 <;> field_simp

theorem C02gen_FromExtended {p1 : PointExtended F} {x y : F} (hp : ExtRep p1.X p1.Y p1.Z p1.T x y) :
    (PointAffine.FromExtended p1).1 = ⟨x, y⟩ := by
  obtain ⟨hz, hX, hY, _⟩ := hp
  rw [PointAffine.FromExtended_eq, hX, hY]
  congr 1 <;> field_simp

theorem C02gen_FromAffine (p : PointAffine F) :
    ProjRep (PointProj.FromAffine p).1.X (PointProj.FromAffine p).1.Y (PointProj.FromAffine p).1.Z p.X p.Y ∧
    ExtRep (PointExtended.FromAffine p).1.X (PointExtended.FromAffine p).1.Y (PointExtended.FromAffine p).1.Z
      (PointExtended.FromAffine p).1.T p.X p.Y := by
  refine ⟨⟨one_ne_zero, ?_, ?_⟩, ⟨one_ne_zero, ?_, ?_, ?_⟩⟩ <;> simp [PointProj.FromAffine, PointExtended.FromAffine]

end

end GV.Gen.Curve.te_bls24_315
