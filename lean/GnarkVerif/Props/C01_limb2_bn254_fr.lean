import GnarkVerif.Props.C01_limb_bn254_fr
/-
C01_limb2 (bn254_fr) — `Element.Halve` of the Go limb code (Gen/Limb/Bn254_fr.lean, regenerated on every run) = `GV.Field.halve`
on ALL canonical inputs: the carry chain adds q when the value is odd, the right shift is stitched across the limbs with `|`.
-/
set_option maxRecDepth 100000
set_option maxHeartbeats 2000000
namespace GV.Limb.bn254_fr
open GV.Field GV.Limb GV.Gen.Limb.bn254_fr

theorem shr_or (a b : Nat) (ha : a < 18446744073709551616) :
    (a / 2) ||| ((b * 9223372036854775808) % 18446744073709551616) = a / 2 + (b % 2) * 9223372036854775808 := by
  have h1 : (b * 9223372036854775808) % 18446744073709551616 = (b % 2) <<< 63 := by
    rw [Nat.shiftLeft_eq]; omega
  rw [h1, Nat.or_comm, ← Nat.shiftLeft_add_eq_or_of_lt (by omega), Nat.shiftLeft_eq]; omega

theorem or_top (a : Nat) (ha : a < 9223372036854775808) : a ||| 9223372036854775808 = a + 9223372036854775808 := by
  have h1 : (9223372036854775808 : Nat) = 1 <<< 63 := by decide
  rw [h1, Nat.or_comm, ← Nat.shiftLeft_add_eq_or_of_lt (by omega)]; omega

theorem halve_eq_of_double (q x r : Nat) (hq : q % 2 = 1) (h1 : x % 2 = 1 → 2 * r = x + q) (h0 : ¬ x % 2 = 1 → 2 * r = x) :
    r = (if x % 2 = 1 then (x + q) / 2 else x / 2) := by
  split
  · have := h1 ‹_›; omega
  · have := h0 ‹_›; omega

/-- **C01_limb Halve**: conditional addition of q, then a one-bit right shift across the limbs = the model's `halve` -/
theorem Halve_spec (z0 z1 z2 z3 : Nat) (hz0 : z0 < 18446744073709551616) (hz1 : z1 < 18446744073709551616) (hz2 : z2 < 18446744073709551616) (hz3 : z3 < 18446744073709551616)
    (hZ : val [z0, z1, z2, z3] < P.q) :
    Good (Gen.Limb.bn254_fr.Halve z0 z1 z2 z3) ∧ tval (Gen.Limb.bn254_fr.Halve z0 z1 z2 z3) = GV.Field.halve P (val [z0, z1, z2, z3]) := by
  have key : (fun r : Nat × Nat × Nat × Nat => (r.1 < 18446744073709551616 ∧ r.2.1 < 18446744073709551616 ∧ r.2.2.1 < 18446744073709551616 ∧ r.2.2.2 < 18446744073709551616) ∧
      (z0 % 2 = 1 → 2 * (r.1 + 18446744073709551616 * r.2.1 + 340282366920938463463374607431768211456 * r.2.2.1 + 6277101735386680763835789423207666416102355444464034512896 * r.2.2.2) = (z0 + 18446744073709551616 * z1 + 340282366920938463463374607431768211456 * z2 + 6277101735386680763835789423207666416102355444464034512896 * z3) + 21888242871839275222246405745257275088548364400416034343698204186575808495617) ∧
      (¬ z0 % 2 = 1 → 2 * (r.1 + 18446744073709551616 * r.2.1 + 340282366920938463463374607431768211456 * r.2.2.1 + 6277101735386680763835789423207666416102355444464034512896 * r.2.2.2) = z0 + 18446744073709551616 * z1 + 340282366920938463463374607431768211456 * z2 + 6277101735386680763835789423207666416102355444464034512896 * z3)) (Gen.Limb.bn254_fr.Halve z0 z1 z2 z3) := by
    rw [P_q] at hZ
    simp only [val, limbsVal, Nat.reducePow, Nat.reduceMul] at hZ
    unfold Gen.Limb.bn254_fr.Halve
    limb_start
    by_cases hodd : z0 % 2 = 1
    · subst_ites [hodd]
      have b0 : z0_2 < 18446744073709551616 := by omega
      have b1 : z1_2 < 18446744073709551616 := by omega
      have b2 : z2_2 < 18446744073709551616 := by omega
      have b3 : z3_2 < 18446744073709551616 := by omega
      rw [shr_or _ _ b0] at z0_3_def
      rw [shr_or _ _ b1] at z1_3_def
      rw [shr_or _ _ b2] at z2_3_def
      simp only []
      refine ⟨⟨by omega, by omega, by omega, by omega⟩, fun h => ?_, fun h => ?_⟩ <;> first | exact absurd ‹_› ‹_› | exact absurd hodd h | omega

    · subst_ites [hodd]
      have b0 : z0_2 < 18446744073709551616 := by omega
      have b1 : z1_2 < 18446744073709551616 := by omega
      have b2 : z2_2 < 18446744073709551616 := by omega
      have b3 : z3_2 < 18446744073709551616 := by omega
      rw [shr_or _ _ b0] at z0_3_def
      rw [shr_or _ _ b1] at z1_3_def
      rw [shr_or _ _ b2] at z2_3_def
      simp only []
      refine ⟨⟨by omega, by omega, by omega, by omega⟩, fun h => ?_, fun h => ?_⟩ <;> first | exact absurd ‹_› ‹_› | exact absurd hodd h | omega
  generalize Gen.Limb.bn254_fr.Halve z0 z1 z2 z3 = r at key ⊢
  obtain ⟨hg, e1, e0⟩ := key
  refine ⟨hg, ?_⟩
  unfold GV.Field.halve
  rw [P_q]
  have hpar : (val [z0, z1, z2, z3]) % 2 = z0 % 2 := by
    simp only [val, limbsVal, Nat.reducePow]; omega
  apply halve_eq_of_double _ _ _ (by decide +kernel)
  · intro h
    rw [hpar] at h
    have := e1 h
    simp only [tval, val, limbsVal, Nat.reducePow] at this ⊢
    linarith
  · intro h
    rw [hpar] at h
    have := e0 h
    simp only [tval, val, limbsVal, Nat.reducePow] at this ⊢
    linarith


/-! `madd0 … madd3` of arith.go (translated as stand-alone functions): the double-word value `hi·2^64 + lo` is exactly
`a·b + c (+ d) (+ e·2^64)`, for all word operands. -/
theorem mul_le_sq (a b : Nat) (ha : a < 18446744073709551616) (hb : b < 18446744073709551616) : a * b ≤ 18446744073709551615 * 18446744073709551615 :=
  Nat.mul_le_mul (by omega) (by omega)

theorem madd0_spec (a b c : Nat) (ha : a < 18446744073709551616) (hb : b < 18446744073709551616) (hc : c < 18446744073709551616) :
    Gen.Limb.bn254_fr.madd0 a b c = (a * b + c) / 18446744073709551616 := by
  have hv := mul_le_sq a b ha hb
  unfold Gen.Limb.bn254_fr.madd0
  generalize a * b = v at hv ⊢
  limb_start
  omega

theorem madd1_spec (a b c : Nat) (ha : a < 18446744073709551616) (hb : b < 18446744073709551616) (hc : c < 18446744073709551616) :
    (Gen.Limb.bn254_fr.madd1 a b c).1 * 18446744073709551616 + (Gen.Limb.bn254_fr.madd1 a b c).2 = a * b + c ∧
    (Gen.Limb.bn254_fr.madd1 a b c).1 < 18446744073709551616 ∧ (Gen.Limb.bn254_fr.madd1 a b c).2 < 18446744073709551616 := by
  have hv := mul_le_sq a b ha hb
  unfold Gen.Limb.bn254_fr.madd1
  generalize a * b = v at hv ⊢
  limb_start
  simp only []
  omega

theorem madd2_spec (a b c d : Nat) (ha : a < 18446744073709551616) (hb : b < 18446744073709551616) (hc : c < 18446744073709551616) (hd : d < 18446744073709551616) :
    (Gen.Limb.bn254_fr.madd2 a b c d).1 * 18446744073709551616 + (Gen.Limb.bn254_fr.madd2 a b c d).2 = a * b + c + d ∧
    (Gen.Limb.bn254_fr.madd2 a b c d).1 < 18446744073709551616 ∧ (Gen.Limb.bn254_fr.madd2 a b c d).2 < 18446744073709551616 := by
  have hv := mul_le_sq a b ha hb
  unfold Gen.Limb.bn254_fr.madd2
  generalize a * b = v at hv ⊢
  limb_start
  simp only []
  omega

/-- `madd3` adds `e` into the high word: exact as long as the total fits in two words (it does wherever the CIOS code calls it) -/
theorem madd3_spec (a b c d e : Nat) (ha : a < 18446744073709551616) (hb : b < 18446744073709551616) (hc : c < 18446744073709551616) (hd : d < 18446744073709551616) (he : e < 18446744073709551616)
    (hfit : a * b + c + d + e * 18446744073709551616 < 18446744073709551616 * 18446744073709551616) :
    (Gen.Limb.bn254_fr.madd3 a b c d e).1 * 18446744073709551616 + (Gen.Limb.bn254_fr.madd3 a b c d e).2 = a * b + c + d + e * 18446744073709551616 ∧
    (Gen.Limb.bn254_fr.madd3 a b c d e).1 < 18446744073709551616 ∧ (Gen.Limb.bn254_fr.madd3 a b c d e).2 < 18446744073709551616 := by
  have hv := mul_le_sq a b ha hb
  unfold Gen.Limb.bn254_fr.madd3
  generalize a * b = v at hv hfit ⊢
  limb_start
  simp only []
  omega
example := madd3_spec 3 5 7 11 13 (by decide) (by decide) (by decide) (by decide) (by decide) (by decide)


example := Halve_spec 5 0 0 0 (by decide) (by decide) (by decide) (by decide) (by decide +kernel)


end GV.Limb.bn254_fr
