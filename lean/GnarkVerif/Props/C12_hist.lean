import GnarkVerif.Model.SigScript
import Mathlib.Algebra.Module.Basic
/-
C12 — histories and the acceptance set (ops EDSCR / ECSCR, related signatures).

Part F  the acceptance set of the cofactored EdDSA equation: `(R, S)` and `(R, ℓ − S)` are both accepted only when the common
        right-hand side `[c]([H]A + R)` is 2-torsion; `S + ℓ` satisfies the equation whenever `S` does (it is the range check
        `S < ℓ` of `Signature.SetBytes` that refuses it).
Part G  value semantics of the object store of `Model/SigScript.lean`: a write to one object (SetBytes – accepted or refused –,
        RecoverFrom, a struct copy, a scribbled buffer) changes the destination slot only; handing out an object (Public(), field
        copy, Bytes()) leaves its source as it was; what a hasher has absorbed is not an input of Sign / Verify.
-/
namespace GV.C12
open GV GV.Sig GV.SigScript

/-! ## Part F — acceptance set -/

section Algebra
variable {G : Type*} [AddCommGroup G]

/-- `[c(ℓ − S)]B = −[cS]B` when `[ℓ]B = 0` -/
theorem C12_eddsa_neg_S_lhs (B : G) (ℓ : ℕ) (hℓ : (ℓ : ℤ) • B = 0) (c : ℕ) (S : ℤ) :
    ((c : ℤ) * ((ℓ : ℤ) - S)) • B = -(((c : ℤ) * S) • B) := by
  rw [mul_sub, sub_smul, mul_smul (c : ℤ) (ℓ : ℤ) B, hℓ, smul_zero, zero_sub]

/-- if `(R, S)` and `(R, ℓ − S)` both satisfy `[c·S]B = X` for the same right-hand side `X = [c]([H]A + R)` (same `R`, `A`, `M`,
    hence the same challenge), then `2X = 0` -/
theorem C12_eddsa_neg_S_both (B X : G) (ℓ : ℕ) (hℓ : (ℓ : ℤ) • B = 0) (c : ℕ) (S : ℤ)
    (h1 : ((c : ℤ) * S) • B = X) (h2 : ((c : ℤ) * ((ℓ : ℤ) - S)) • B = X) : (2 : ℤ) • X = 0 := by
  rw [C12_eddsa_neg_S_lhs B ℓ hℓ c S, h1] at h2
  rw [two_smul]
  nth_rewrite 1 [← h2]
  exact neg_add_cancel X

/-- so an accepted `(R, S)` with a right-hand side that is not 2-torsion makes the equation REFUSE `(R, ℓ − S)` -/
theorem C12_eddsa_neg_S_rejected (B X : G) (ℓ : ℕ) (hℓ : (ℓ : ℤ) • B = 0) (c : ℕ) (S : ℤ)
    (hX : (2 : ℤ) • X ≠ 0) (h1 : ((c : ℤ) * S) • B = X) : ((c : ℤ) * ((ℓ : ℤ) - S)) • B ≠ X :=
  fun h2 => hX (C12_eddsa_neg_S_both B X ℓ hℓ c S h1 h2)

/-- `S + ℓ` gives the same left-hand side as `S`: the equation cannot tell them apart, the range check must -/
theorem C12_eddsa_S_plus_order (B : G) (ℓ : ℕ) (hℓ : (ℓ : ℤ) • B = 0) (c : ℕ) (S : ℤ) :
    ((c : ℤ) * (S + (ℓ : ℤ))) • B = ((c : ℤ) * S) • B := by
  rw [mul_add, add_smul, mul_smul (c : ℤ) (ℓ : ℤ) B, hℓ, smul_zero, add_zero]

end Algebra

/-! ## Part G — value semantics of the object store -/

section Store
variable {α : Type}

theorem sget_sput_eq (s : Slots α) (n : String) (v : α) : sget (sput s n v) n = some v := by
  simp [sget, sput]

theorem sget_sput_ne (s : Slots α) (n m : String) (v : α) (h : m ≠ n) : sget (sput s n v) m = sget s m := by
  have hnm : (n == m) = false := by simpa using (Ne.symm h)
  unfold sget sput
  simp only [List.find?_cons, hnm]
  congr 1
  induction s with
  | nil => rfl
  | cons e t ih =>
    by_cases he : e.1 = n
    · have h1 : (e.1 != n) = false := by simp [he]
      have h2 : (e.1 == m) = false := by rw [he]; exact hnm
      simp only [List.filter_cons, h1, List.find?_cons, h2]
      exact ih
    · have h1 : (e.1 != n) = true := by simpa using he
      simp only [List.filter_cons, h1, List.find?_cons, if_true]
      cases hm : (e.1 == m) <;> simp [ih]

end Store

variable {S : Scheme}

/-- `p_j.SetBytes(buf)` – accepted or refused – changes the public-key slot `j` and nothing else: no private key, no other
    public-key object (whether it came from `Public()`, from the `PublicKey` field or from a copy), no buffer, no hasher -/
theorem C12_script_pk_write_frame (st : State S) (j b : String) :
    (stPS st j b).1.sks = st.sks ∧ (stPS st j b).1.bufs = st.bufs ∧ (stPS st j b).1.hs = st.hs ∧
    ∀ j', j' ≠ j → sget (stPS st j b).1.pks j' = sget st.pks j' := by
  unfold stPS
  split
  · simp [bad]
  · split <;> exact ⟨rfl, rfl, rfl, fun j' h => sget_sput_ne _ _ _ _ h⟩

/-- the same for `RecoverFrom` into `p_j` -/
theorem C12_script_recover_frame (st : State S) (j bd v r s : String) :
    (stRC st j bd v r s).1.sks = st.sks ∧ (stRC st j bd v r s).1.bufs = st.bufs ∧ (stRC st j bd v r s).1.hs = st.hs ∧
    ∀ j', j' ≠ j → sget (stRC st j bd v r s).1.pks j' = sget st.pks j' := by
  unfold stRC
  split
  · simp [bad]
  · split
    · split
      · exact ⟨rfl, rfl, rfl, fun _ _ => rfl⟩
      · exact ⟨rfl, rfl, rfl, fun j' h => sget_sput_ne _ _ _ _ h⟩
    · exact ⟨rfl, rfl, rfl, fun j' h => sget_sput_ne _ _ _ _ h⟩

/-- `k_i.SetBytes(buf)` and the struct copy `k_i := *k_i2` change the private-key slot `i` only; every public-key object handed
    out before keeps its value -/
theorem C12_script_sk_write_frame (st : State S) (i b : String) :
    (stKS st i b).1.pks = st.pks ∧ (stKS st i b).1.bufs = st.bufs ∧ (stKS st i b).1.hs = st.hs ∧
    ∀ i', i' ≠ i → sget (stKS st i b).1.sks i' = sget st.sks i' := by
  unfold stKS
  split
  · simp [bad]
  · split <;> exact ⟨rfl, rfl, rfl, fun i' h => sget_sput_ne _ _ _ _ h⟩

theorem C12_script_sk_copy_frame (st : State S) (i i2 : String) :
    (stKC st i i2).1.pks = st.pks ∧ (stKC st i i2).1.bufs = st.bufs ∧
    ∀ i', i' ≠ i → sget (stKC st i i2).1.sks i' = sget st.sks i' := by
  unfold stKC
  split
  · simp [bad]
  · exact ⟨rfl, rfl, fun i' h => sget_sput_ne _ _ _ _ h⟩

/-- handing out: `Public()` / the field copy / `*p` leave every private key (in particular the source) and every other
    public-key object as they were; the new object holds the value of the source's public key -/
theorem C12_script_handout_frame (st : State S) (j i : String) :
    (stKP st j i).1.sks = st.sks ∧ (∀ j', j' ≠ j → sget (stKP st j i).1.pks j' = sget st.pks j') ∧
    ∀ v, sget st.sks i = some v → sget (stKP st j i).1.pks j = some (v.map S.pub) := by
  unfold stKP
  split
  · next h => exact ⟨rfl, fun _ _ => rfl, fun v hv => by rw [h] at hv; cases hv⟩
  · next v h =>
    refine ⟨rfl, fun j' hj => sget_sput_ne _ _ _ _ hj, fun v' hv => ?_⟩
    rw [h] at hv
    cases hv
    exact sget_sput_eq _ _ _

theorem C12_script_pk_copy_frame (st : State S) (j j2 : String) :
    (stPC st j j2).1.sks = st.sks ∧ ∀ j', j' ≠ j → sget (stPC st j j2).1.pks j' = sget st.pks j' := by
  unfold stPC
  split
  · simp [bad]
  · exact ⟨rfl, fun j' h => sget_sput_ne _ _ _ _ h⟩

/-- scribbling on a buffer (the result of `Bytes()`, the argument of an earlier `SetBytes`, a signature) changes that buffer only -/
theorem C12_script_scribble_frame (st : State S) (b : String) :
    (stBX st b).1.sks = st.sks ∧ (stBX st b).1.pks = st.pks ∧ (stBX st b).1.hs = st.hs ∧
    ∀ b', b' ≠ b → sget (stBX st b).1.bufs b' = sget st.bufs b' := by
  unfold stBX
  split
  · simp [bad]
  · exact ⟨rfl, rfl, rfl, fun b' h => sget_sput_ne _ _ _ _ h⟩

/-- `Bytes()` of a key yields a new buffer; keys and public keys are as before -/
theorem C12_script_bytes_frame (st : State S) (b i : String) :
    (stKB st b i).1.sks = st.sks ∧ (stKB st b i).1.pks = st.pks ∧ (stPB st b i).1.sks = st.sks ∧ (stPB st b i).1.pks = st.pks := by
  unfold stKB stPB
  refine ⟨?_, ?_, ?_, ?_⟩ <;> split <;> simp [bad]

/-- writing to a hasher, or calling `Sum`, changes nothing that a later step reads -/
theorem C12_script_hasher_history_irrelevant (st : State S) (h b : String) :
    (stHW st h b).1 = st ∧ (stHS st h).1 = st := by
  unfold stHW stHS
  constructor <;> split <;> rfl

/-- Sign and Verify leave keys, public keys and hashers as they were (Sign stores its result in the destination buffer) -/
theorem C12_script_sign_verify_frame (st : State S) (b i h nonce bm oin oout j bs : String) :
    (stSG st b i h nonce bm oin oout).1.sks = st.sks ∧ (stSG st b i h nonce bm oin oout).1.pks = st.pks ∧
    (stSG st b i h nonce bm oin oout).1.hs = st.hs ∧ (stVF st j bs bm h oin oout).1 = st ∧
    (stSR st i h nonce bm oin oout).1 = st := by
  unfold stSG stVF stSR
  refine ⟨?_, ?_, ?_, ?_, ?_⟩ <;> split <;> (try split) <;> simp [bad]

/-- what a Sign step answers is a function of the VALUE in the key slot, the message buffer and the KIND of the hasher -/
theorem C12_script_sign_reads (st st' : State S) (b i h nonce bm oin oout : String)
    (hk : sget st'.sks i = sget st.sks i) (hm : sget st'.bufs bm = sget st.bufs bm) (hh : st'.hs = st.hs) :
    (stSG st' b i h nonce bm oin oout).2 = (stSG st b i h nonce bm oin oout).2 := by
  have hH : hasher st' h oin oout = hasher st h oin oout := by unfold hasher; rw [hh]
  unfold stSG
  rw [hk, hm, hH]
  split
  · split <;> rfl
  · rfl
  · rfl

/-- what a Verify step answers is a function of the VALUE in the public-key slot, the two buffers and the KIND of the hasher -/
theorem C12_script_verify_reads (st st' : State S) (j bs bm h oin oout : String)
    (hp : sget st'.pks j = sget st.pks j) (hs : sget st'.bufs bs = sget st.bufs bs) (hm : sget st'.bufs bm = sget st.bufs bm)
    (hh : st'.hs = st.hs) :
    (stVF st' j bs bm h oin oout).2 = (stVF st j bs bm h oin oout).2 := by
  have hH : hasher st' h oin oout = hasher st h oin oout := by unfold hasher; rw [hh]
  unfold stVF
  rw [hp, hs, hm, hH]
  split
  · split <;> rfl
  · rfl
  · rfl

/-- the history of the seeded class, end to end: whatever is written through ANY public-key object `p_j` – `Public()` of the signer
    included – and whatever the hasher has absorbed, the signer answers what it answered before -/
theorem C12_script_sign_after_pk_write (st : State S) (j bw b i h nonce bm oin oout hd bd : String) :
    (stSG (stHW (stPS st j bw).1 hd bd).1 b i h nonce bm oin oout).2 = (stSG st b i h nonce bm oin oout).2 := by
  rw [(C12_script_hasher_history_irrelevant _ hd bd).1]
  obtain ⟨h1, h2, h3, _⟩ := C12_script_pk_write_frame st j bw
  exact C12_script_sign_reads st _ b i h nonce bm oin oout (by rw [h1]) (by rw [h2]) h3

end GV.C12
