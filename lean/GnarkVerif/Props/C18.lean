import GnarkVerif.Proofs.ForkJoin
/-
C18 — calls are pure, repeatable and safe to run concurrently on shared inputs.

What the Lean side carries (all statements unbounded: any number of tasks / threads, any schedule, any sizes):
 (1) fork–join determinism on an abstract shared-memory machine (`Model/ForkJoin.lean`): tasks with pairwise disjoint write
     sets, none writing what another reads, give under EVERY interleaving the state of the sequential composition, and every
     task's outputs are what the task computes alone; the `[start,end)` ranges of `parallel.Execute` tile `[0,n)` for every
     `n` and every task count, hence a data-parallel kernel gives one result for every partition and every schedule;
 (2) `sync.Once` as a small-step machine (every schedule of any number of callers: the table is written exactly once and all
     callers observe that one value) and `sync.Pool` whose `Get` hands out an arbitrary previously `Put` object (no prior
     content reaches an output of a user that overwrites before reading);
 (3) the per-entry-point purity/repeatability/concurrency bits are checked by the correspondence harness (tools/harness/c18*.go):
     the model of every entry point is a function of the *values* of its arguments, i.e. the model side of every op line
     is `pure=1 same=1 conc=1`.
NOT expressible here: data races in the sense of the Go memory model, real goroutine scheduling, GOMAXPROCS and timing effects;
these are only sampled by the harness (and by the race detector build when available).
-/
namespace GV.ForkJoin

/-! ## (1) fork–join determinism -/

/-- two atomic steps, neither writing a cell the other reads or writes, commute -/
theorem C18_step_comm (a b : Step) (h : StepIndep a b) (σ : State) : b.run (a.run σ) = a.run (b.run σ) :=
  step_comm a b h σ

/-- **fork–join determinism, k tasks**: if the write sets are pairwise disjoint and disjoint from the other tasks' read
sets, every interleaving of the tasks' atomic steps ends in the state of running the tasks one after the other -/
theorem C18_fork_join (ts : List Task) (l : List Step) (hi : Independent ts) (h : Interleave ts l) (σ : State) :
    runSteps l σ = runSeq ts σ := by
  induction h generalizing σ with
  | done ts hnil =>
    have : ts.flatten = [] := List.flatten_eq_nil_iff.2 hnil
    simp [runSeq, this, runSteps]
  | step pre s t post l h ih =>
    have hi' := hi.drop_step
    have hcomm : ∀ b ∈ pre.flatten, StepIndep s b := by
      intro b hb
      obtain ⟨p, hp, hbp⟩ := List.mem_flatten.1 hb
      have : TaskIndep p (s :: t) := (List.pairwise_append.1 hi).2.2 p hp _ (List.mem_cons_self ..)
      exact this.stepIndep b hbp
    show runSteps l (s.run σ) = _
    rw [ih hi']
    simp only [runSeq, List.flatten_append, List.flatten_cons, runSteps_append, List.cons_append, runSteps]
    rw [runSteps_comm s _ hcomm]

example : Independent [[⟨[0], 1, fun v => v.sum + 1⟩], [⟨[0], 2, fun v => v.sum + 2⟩]] := by
  simp [Independent, TaskIndep, writes, readsOf]
example : Interleave [[⟨[0], 1, fun v => v.sum + 1⟩], [⟨[0], 2, fun v => v.sum + 2⟩]]
    [⟨[0], 2, fun v => v.sum + 2⟩, ⟨[0], 1, fun v => v.sum + 1⟩] :=
  Interleave.step [[⟨[0], 1, fun v => v.sum + 1⟩]] ⟨[0], 2, fun v => v.sum + 2⟩ [] [] _
    (Interleave.step [] ⟨[0], 1, fun v => v.sum + 1⟩ [] [[]] _ (Interleave.done _ (by simp)))

/-- two tasks (the statement with explicit read/write sets) -/
theorem C18_fork_join_two (t u : Task) (l : List Step)
    (hww : ∀ c ∈ writes t, c ∉ writes u) (hwr : ∀ c ∈ writes t, c ∉ readsOf u) (hrw : ∀ c ∈ writes u, c ∉ readsOf t)
    (h : Interleave [t, u] l) (σ : State) : runSteps l σ = runSteps u (runSteps t σ) := by
  have hi : Independent [t, u] := by
    simp only [Independent, List.pairwise_cons, List.mem_cons, or_false, forall_eq,
      List.not_mem_nil, false_imp_iff, implies_true, List.Pairwise.nil, and_true]
    exact ⟨fun c hc => ⟨hww c hc, hwr c hc⟩, hrw⟩
  rw [C18_fork_join _ _ hi h]
  simp [runSeq, runSteps_append]

/-- the schedule is irrelevant: any two interleavings of independent tasks end in the same state -/
theorem C18_schedule_irrelevant (ts : List Task) (l₁ l₂ : List Step) (hi : Independent ts)
    (h₁ : Interleave ts l₁) (h₂ : Interleave ts l₂) (σ : State) : runSteps l₁ σ = runSteps l₂ σ := by
  rw [C18_fork_join ts l₁ hi h₁, C18_fork_join ts l₂ hi h₂]

/-- each concurrent caller obtains the result it would obtain alone: under every interleaving, the cells written by a
task end with the values the task computes when run alone from the initial state -/
theorem C18_each_as_alone (ts : List Task) (l : List Step) (hi : Independent ts) (h : Interleave ts l)
    (t : Task) (ht : t ∈ ts) (σ : State) (c : Nat) (hc : c ∈ writes t) :
    runSteps l σ c = runSteps t σ c := by
  rw [C18_fork_join ts l hi h]
  obtain ⟨pre, post, rfl⟩ := List.append_of_mem ht
  have hp := List.pairwise_append.1 hi
  have hpre : ∀ p ∈ pre, TaskIndep p t := fun p hp' => hp.2.2 p hp' t (List.mem_cons_self ..)
  have hpost : ∀ q ∈ post, TaskIndep t q := fun q hq => (List.pairwise_cons.1 hp.2.1).1 q hq
  simp only [runSeq, List.flatten_append, List.flatten_cons, runSteps_append]
  rw [runSteps_frame]
  · apply runSteps_agree _ _ _ _ c hc
    intro c' hc'
    apply runSteps_frame
    intro hm
    obtain ⟨p, hpm, hcp⟩ := (mem_writes_flatten pre c').1 hm
    exact ((hpre p hpm).1 c' hcp).2 hc'
  · intro hm
    obtain ⟨q, hqm, hcq⟩ := (mem_writes_flatten post c).1 hm
    exact ((hpost q hqm).1 c hc).1 hcq

/-! ## parallel.Execute: the ranges tile [0,n) -/

/-- for every iteration count and every value of the optional `maxCpus` argument (clamped as in the code) the ranges
handed to `work` enumerate 0,…,n-1 exactly once, in order -/
theorem C18_execute_tiles (n nbTasks : Nat) : Tiles (executeRanges n nbTasks) n :=
  executeRangesClamped_tiles n _ (clampTasks_pos nbTasks).1

/-- same without clamping (the default `runtime.NumCPU()` is not clamped) -/
theorem C18_execute_tiles_numcpu (n ncpu : Nat) (h : 1 ≤ ncpu) : Tiles (executeRangesClamped n ncpu) n :=
  executeRangesClamped_tiles n ncpu h

example : executeRanges 10 4 = [(0, 3), (3, 6), (6, 8), (8, 10)] := by decide
example : executeRanges 3 8 = [(0, 1), (1, 2), (2, 3)] := by decide
example : executeRanges 0 8 = [] := by decide
example : executeRanges 7 0 = [(0, 7)] := by decide

/-- cover: every index below n lies in some range -/
theorem C18_execute_cover (n nbTasks j : Nat) (hj : j < n) :
    ∃ r ∈ executeRanges n nbTasks, r.1 ≤ j ∧ j < r.2 := (C18_execute_tiles n nbTasks).cover j hj

/-- no range reaches outside [0,n) -/
theorem C18_execute_bound (n nbTasks : Nat) (r : Nat × Nat) (hr : r ∈ executeRanges n nbTasks) (j : Nat)
    (h1 : r.1 ≤ j) (h2 : j < r.2) : j < n :=
  (C18_execute_tiles n nbTasks).bound r hr j (mem_rangeIdx.2 ⟨h1, h2⟩)

/-- disjoint: two different tasks never receive a common index -/
theorem C18_execute_disjoint (n nbTasks : Nat) :
    (executeRanges n nbTasks).Pairwise (fun r r' => ∀ j, ¬ (r.1 ≤ j ∧ j < r.2 ∧ r'.1 ≤ j ∧ j < r'.2)) := by
  refine (C18_execute_tiles n nbTasks).disjoint.imp ?_
  intro r r' hd j ⟨a, b, c, d⟩
  exact hd (mem_rangeIdx.2 ⟨a, b⟩) (mem_rangeIdx.2 ⟨c, d⟩)

/-- at most `nbTasks` (clamped to 1..512) goroutines are started -/
theorem C18_execute_nbTasks (n nbTasks : Nat) :
    (executeRanges n nbTasks).length ≤ clampTasks nbTasks ∧ clampTasks nbTasks ≤ 512 := by
  refine ⟨?_, (clampTasks_pos nbTasks).2⟩
  have hpos := (clampTasks_pos nbTasks).1
  unfold executeRanges executeRangesClamped
  generalize clampTasks nbTasks = nb at *
  by_cases h1 : nb = 1
  · simp [h1]
  · simp only [h1, if_false, executeLoop_length]
    by_cases hp : n / nb < 1
    · simp only [hp, if_true]
      have := (Nat.div_lt_one_iff (show 0 < nb by omega)).1 hp
      omega
    · simp [hp]

/-! ## data-parallel kernels under parallel.Execute -/

/-- a kernel whose iterations write distinct output cells and never read an output cell, run over ANY tiling of `[0,n)`
under ANY schedule, ends in the state of the sequential loop `for j := 0; j < n; j++` -/
theorem C18_tiled_kernel_deterministic (K : Kernel) (n : Nat)
    (hinj : ∀ i < n, ∀ j < n, K.out i = K.out j → i = j)
    (hro : ∀ i < n, ∀ j < n, K.out i ∉ K.ins j)
    (ranges : List (Nat × Nat)) (ht : Tiles ranges n) (l : List Step)
    (h : Interleave (ranges.map K.task) l) (σ : State) :
    runSteps l σ = runSteps ((List.range n).map K.step) σ := by
  have hi : Independent (ranges.map K.task) := by
    unfold Independent
    rw [List.pairwise_map]
    refine ht.disjoint.imp_of_mem ?_
    intro r r' hr hr' hd
    constructor
    · intro c hc
      rw [K.writes_task] at hc
      obtain ⟨i, hi, rfl⟩ := List.mem_map.1 hc
      have hin := ht.bound r hr i hi
      constructor
      · rw [K.writes_task]
        intro hm
        obtain ⟨j, hj, he⟩ := List.mem_map.1 hm
        have := hinj j (ht.bound r' hr' j hj) i hin he
        exact hd hi (this ▸ hj)
      · rw [K.mem_readsOf_task]
        rintro ⟨j, hj, hm⟩
        exact hro i hin j (ht.bound r' hr' j hj) hm
    · intro c hc
      rw [K.writes_task] at hc
      obtain ⟨i, hi, rfl⟩ := List.mem_map.1 hc
      rw [K.mem_readsOf_task]
      rintro ⟨j, hj, hm⟩
      exact hro i (ht.bound r' hr' i hi) j (ht.bound r hr j hj) hm
  rw [C18_fork_join _ _ hi h, runSeq, K.flatten_tasks, ht]

/-- closed form of that state: output cell `out j` holds `f j` of the *initial* inputs, every other cell is unchanged -/
theorem C18_tiled_kernel_value (K : Kernel) (n : Nat)
    (hinj : ∀ i < n, ∀ j < n, K.out i = K.out j → i = j)
    (hro : ∀ i < n, ∀ j < n, K.out i ∉ K.ins j) (σ : State) :
    (∀ j < n, runSteps ((List.range n).map K.step) σ (K.out j) = K.f j ((K.ins j).map σ)) ∧
    (∀ c, (∀ j < n, c ≠ K.out j) → runSteps ((List.range n).map K.step) σ c = σ c) := by
  constructor
  · intro j hj
    apply K.run_value _ List.nodup_range
    · intro a ha b hb; exact hinj a (List.mem_range.1 ha) b (List.mem_range.1 hb)
    · intro a ha b hb; exact hro a (List.mem_range.1 ha) b (List.mem_range.1 hb)
    · exact List.mem_range.2 hj
  · intro c hc
    apply K.run_frame
    intro hm
    obtain ⟨j, hj, he⟩ := List.mem_map.1 hm
    exact hc j (List.mem_range.1 hj) he.symm

/-- `parallel.Execute(n, work, nbTasks)` on such a kernel: one result for every `nbTasks` and every schedule -/
theorem C18_execute_kernel (K : Kernel) (n : Nat)
    (hinj : ∀ i < n, ∀ j < n, K.out i = K.out j → i = j)
    (hro : ∀ i < n, ∀ j < n, K.out i ∉ K.ins j)
    (nb₁ nb₂ : Nat) (l₁ l₂ : List Step)
    (h₁ : Interleave ((executeRanges n nb₁).map K.task) l₁)
    (h₂ : Interleave ((executeRanges n nb₂).map K.task) l₂) (σ : State) :
    runSteps l₁ σ = runSteps l₂ σ := by
  rw [C18_tiled_kernel_deterministic K n hinj hro _ (C18_execute_tiles n nb₁) l₁ h₁,
      C18_tiled_kernel_deterministic K n hinj hro _ (C18_execute_tiles n nb₂) l₂ h₂]

-- non-vacuity: out j = 100 + j, iteration j reads input cells j and j+1
example : ∀ i < 8, ∀ j < 8, (100 + i = 100 + j → i = j) ∧ (100 + i ∉ [j, j + 1]) := by
  intro i hi j hj; constructor <;> (simp; try omega)

/-! ### the hypotheses are needed: workers sharing ONE scratch cell (seeded change C18r2-1) -/

/-- a worker of a fork-join whose loop body stages its input in the scratch cell 0 (`scratch = in; out = f(scratch)`);
the scratch cell is shared by all workers when the variable is declared outside the closure handed to `parallel.Execute` -/
def scratchWorker (inp out : Nat) : Task :=
  [⟨[inp], 0, fun l => l.headD 0⟩, ⟨[0], out, fun l => l.headD 0⟩]

/-- such workers are NOT independent (both write cell 0): `C18_fork_join` / `C18_execute_kernel` do not apply to them -/
theorem C18_shared_scratch_not_independent (i₁ o₁ i₂ o₂ : Nat) :
    ¬ Independent [scratchWorker i₁ o₁, scratchWorker i₂ o₂] := by
  intro h
  have h1 : TaskIndep (scratchWorker i₁ o₁) (scratchWorker i₂ o₂) := by
    have := List.pairwise_cons.1 h
    exact this.1 _ (List.mem_cons_self ..)
  have := (h1.1 0 (by simp [writes, scratchWorker])).1
  exact this (by simp [writes, scratchWorker])

/-- and there is a schedule under which a worker outputs the OTHER worker's input: B's store to the scratch cell lands
between A's store and A's load. Run one after the other (one processor) the same workers output their own inputs. -/
theorem C18_shared_scratch_race :
    ∃ l, Interleave [scratchWorker 10 20, scratchWorker 11 21] l ∧
      ∀ σ : State, runSteps l σ 20 = σ 11 ∧ runSeq [scratchWorker 10 20, scratchWorker 11 21] σ 20 = σ 10 := by
  refine ⟨[⟨[10], 0, fun l => l.headD 0⟩, ⟨[11], 0, fun l => l.headD 0⟩, ⟨[0], 20, fun l => l.headD 0⟩,
           ⟨[0], 21, fun l => l.headD 0⟩], ?_, ?_⟩
  · exact Interleave.step [] _ [⟨[0], 20, fun l => l.headD 0⟩] [scratchWorker 11 21] _
      (Interleave.step [[⟨[0], 20, fun l => l.headD 0⟩]] _ [⟨[0], 21, fun l => l.headD 0⟩] [] _
        (Interleave.step [] _ [] [[⟨[0], 21, fun l => l.headD 0⟩]] _
          (Interleave.step [[]] _ [] [] _ (Interleave.done _ (by simp)))))
  · intro σ
    simp [runSeq, runSteps, Step.run, scratchWorker]

/-! ### frames: windows of larger buffers, results handed out earlier, scalars modified "for the duration of the call" -/

/-- **frame**: a call leaves every cell it does not write unchanged. The cells in question are the ones OUTSIDE the documented
destination: the sentinel elements before / behind a slice argument that is a window of a larger buffer (spare capacity
included), and the cells of a result that an earlier call handed out. -/
theorem C18_frame (prog : List Step) (c : Nat) (h : c ∉ writes prog) (σ : State) : runSteps prog σ c = σ c := by
  induction prog generalizing σ with
  | nil => rfl
  | cons s l ih =>
    have hs : c ≠ s.write := fun e => h (by simp [writes, e])
    have hl : c ∉ writes l := fun e => h (by simp only [writes, List.map_cons, List.mem_cons]; exact Or.inr e)
    simp only [runSteps]
    rw [ih hl]
    simp [Step.run, hs]

/-- … and under EVERY interleaving of any number of calls none of which writes the cell: a result handed out earlier keeps
its value whatever the later / concurrent calls on the same state object are -/
theorem C18_frame_interleave (ts : List Task) (l : List Step) (h : Interleave ts l) (c : Nat)
    (hc : ∀ t ∈ ts, c ∉ writes t) (σ : State) : runSteps l σ c = σ c := by
  induction h generalizing σ with
  | done ts _ => rfl
  | step pre s t post l _ ih =>
    have hst : c ∉ writes (s :: t) := hc _ (by simp)
    have hs : c ≠ s.write := fun e => hst (by simp [writes, e])
    have ht : c ∉ writes t := fun e => hst (by simp only [writes, List.map_cons, List.mem_cons]; exact Or.inr e)
    have hc' : ∀ u ∈ pre ++ t :: post, c ∉ writes u := by
      intro u hu
      rcases List.mem_append.1 hu with hu | hu
      · exact hc u (List.mem_append.2 (Or.inl hu))
      · rcases List.mem_cons.1 hu with hu | hu
        · exact hu ▸ ht
        · exact hc u (List.mem_append.2 (Or.inr (List.mem_cons_of_mem _ hu)))
    simp only [runSteps]
    rw [ih hc']
    simp [Step.run, hs]

/-- an opening that accumulates into cell `acc` (its result is handed out as that cell) from the coin in cell `coin` -/
def opening (coin acc : Nat) : Task := [⟨[coin], acc, fun l => l.headD 0⟩]

/-- the hypothesis is needed (seeded change C18r4-2): a second opening that RECYCLES the accumulator of the first one
rewrites the result handed out by the first; with a fresh accumulator the first result keeps its value -/
theorem C18_recycled_result (σ : State) :
    runSteps (opening 10 0 ++ opening 11 0) σ 0 = σ 11 ∧ runSteps (opening 10 0 ++ opening 11 1) σ 0 = σ 10 := by
  simp [runSteps, Step.run, opening]

/-- a call that modifies its scalar argument (cell 0) for the duration of the call and restores it on return
(save in the private cell 1, modify, use, restore) -/
def transientWorker (out : Nat) : Task :=
  [⟨[0], 1, fun l => l.headD 0⟩, ⟨[0], 0, fun l => l.headD 0 + 1⟩, ⟨[0], out, fun l => l.headD 0⟩, ⟨[1], 0, fun l => l.headD 0⟩]

/-- another user of the same scalar object (a second caller, or the observer goroutine of the harness) -/
def scalarReader (out : Nat) : Task := [⟨[0], out, fun l => l.headD 0⟩]

/-- (seeded change C18r3-3) run one after the other, the argument has its value after the call and the other user reads
that value: before/after snapshots see nothing. But there is a schedule under which the other user reads the MODIFIED
scalar although the argument is again restored at the end: only an observation made DURING the call shows it. -/
theorem C18_transient_write_observable :
    (∀ σ : State, runSeq [transientWorker 20, scalarReader 21] σ 0 = σ 0 ∧
        runSeq [transientWorker 20, scalarReader 21] σ 21 = σ 0) ∧
    ∃ l, Interleave [transientWorker 20, scalarReader 21] l ∧
      ∀ σ : State, runSteps l σ 0 = σ 0 ∧ runSteps l σ 21 = σ 0 + 1 := by
  refine ⟨fun σ => by simp [runSeq, runSteps, Step.run, transientWorker, scalarReader], ?_⟩
  refine ⟨[⟨[0], 1, fun l => l.headD 0⟩, ⟨[0], 0, fun l => l.headD 0 + 1⟩, ⟨[0], 21, fun l => l.headD 0⟩,
           ⟨[0], 20, fun l => l.headD 0⟩, ⟨[1], 0, fun l => l.headD 0⟩], ?_, ?_⟩
  · exact Interleave.step [] _ [⟨[0], 0, fun l => l.headD 0 + 1⟩, ⟨[0], 20, fun l => l.headD 0⟩, ⟨[1], 0, fun l => l.headD 0⟩]
        [scalarReader 21] _
      (Interleave.step [] _ [⟨[0], 20, fun l => l.headD 0⟩, ⟨[1], 0, fun l => l.headD 0⟩] [scalarReader 21] _
        (Interleave.step [[⟨[0], 20, fun l => l.headD 0⟩, ⟨[1], 0, fun l => l.headD 0⟩]] _ [] [] _
          (Interleave.step [] _ [⟨[1], 0, fun l => l.headD 0⟩] [[]] _
            (Interleave.step [] _ [] [[]] _ (Interleave.done _ (by simp))))))
  · intro σ
    simp [runSteps, Step.run]

/-! ## (2) sync.Once -/

/-- atomic view: whatever each caller passes to `Do`, all callers observe the value of the first one; an already
initialised table is never overwritten -/
theorem C18_once_atomic {α : Type} (inits : List (Unit → α)) (tbl : Option α) :
    (∀ v, tbl = some v → onceRun inits tbl = (some v, inits.map (fun _ => v))) ∧
    (tbl = none → ∀ i rest, inits = i :: rest → onceRun inits tbl = (some (i ()), inits.map (fun _ => i ()))) := by
  have hsome : ∀ (inits : List (Unit → α)) v, onceRun inits (some v) = (some v, inits.map (fun _ => v)) := by
    intro inits v
    induction inits with
    | nil => rfl
    | cons i is ih => simp [onceRun, onceDo, ih]
  constructor
  · intro v hv; subst hv; exact hsome inits v
  · intro hn i rest he; subst hn; subst he
    simp [onceRun, onceDo, hsome]

example : onceRun [fun _ => 7, fun _ => 8, fun _ => 9] none = (some 7, [7, 7, 7]) := by decide

/-- small-step `sync.Once` (fast path, mutex, second check, `f()`, `done.Store(1)`, unlock): the invariant holds in
every state reachable under every schedule of any number of threads -/
theorem C18_once_invariant {α : Type} (init : Nat → α) (sched : List Nat) :
    OnceInv init (onceSched init sched (onceInit α)) :=
  onceInv_sched init sched _ (onceInv_init init)

/-- every schedule: the table is written at most once; and any two callers that returned from `Do` and read the table
observed the same value, which is the value stored by the single thread `t₀` that ran its function -/
theorem C18_once_all_observe_same {α : Type} (init : Nat → α) (sched : List Nat) :
    let s := onceSched init sched (onceInit α)
    s.nwrites ≤ 1 ∧
    ∀ t v, s.pc t = .finished v →
      s.nwrites = 1 ∧ (∃ t₀, v = some (init t₀)) ∧ ∀ u w, s.pc u = .finished w → w = v := by
  intro s
  have h := C18_once_invariant init sched
  constructor
  · by_cases hd : s.done = true
    · exact Nat.le_of_eq (h.isDone hd).1
    · by_cases hs : ∃ t, s.pc t = .setDone
      · obtain ⟨t, ht⟩ := hs; exact Nat.le_of_eq (h.setDone t ht).2.1
      · have h0 : s.nwrites = 0 := (h.fresh (by simpa using hd) (fun t ht => hs ⟨t, ht⟩)).1
        exact h0 ▸ Nat.zero_le 1
  · intro t v ht
    obtain ⟨hd, hv⟩ := h.fin t v ht
    obtain ⟨hw, t₀, ht₀⟩ := h.isDone hd
    refine ⟨hw, ⟨t₀, hv.trans ht₀⟩, fun u w hu => ?_⟩
    rw [(h.fin u w hu).2, hv]

/-- mutual exclusion of the slow path: two threads inside the critical section are the same thread -/
theorem C18_once_mutex {α : Type} (init : Nat → α) (sched : List Nat) (t u : Nat) :
    let s := onceSched init sched (onceInit α)
    (s.pc t).inCS = true → (s.pc u).inCS = true → u = t := by
  intro s ht hu
  exact (C18_once_invariant init sched).cs_unique t u ht hu

-- non-vacuity: three threads racing through Do, thread 1 wins, all observe its value
example : let s := onceSched (fun t => 10 + t) [0, 1, 1, 2, 1, 0, 1, 2, 1, 1, 0, 0, 2, 2, 0, 0, 2, 2, 2] (onceInit Nat)
    (s.table, s.nwrites, s.done) = (some 11, 1, true) := by decide

/-! ## sync.Pool -/

/-- a user whose output does not depend on the content of the scratch object it receives obtains, in every history and for
every choice the pool makes (`Get` may return ANY previously `Put` object, or a fresh one), the outputs of runs on a fresh
object: nothing leaks from one call to a later one -/
theorem C18_pool_no_leak {ι ο : Type} (fresh : Buf) (u : PoolUser ι ο)
    (hu : ∀ x b b', (u x b).1 = (u x b').1) (calls : List (ι × Nat)) (pool : List Buf) :
    poolRun fresh u calls pool = calls.map (fun c => (u c.1 fresh).1) := by
  induction calls generalizing pool with
  | nil => rfl
  | cons c l ih =>
    obtain ⟨x, ch⟩ := c
    simp only [poolRun, List.map_cons, ih]
    rw [hu x _ fresh]

/-- overwrite-before-read criterion: a straight-line program in which every read of a cell outside `D` is preceded by a
write of that cell computes, in `D` and in every cell it writes, values that do not depend on the other cells' initial content -/
theorem C18_overwrite_before_read (D : List Nat) (prog : List Step) (h : initBeforeRead D prog = true)
    (σ σ' : State) (hag : ∀ c ∈ D, σ c = σ' c) (c : Nat) (hc : c ∈ D ∨ c ∈ writes prog) :
    runSteps prog σ c = runSteps prog σ' c :=
  initBeforeRead_agree prog D σ σ' h hag c hc

/-- the two together: a pooled-scratch user given by such a program (scratch = cells `[0,n)`, inputs above) never lets the
previous content of the pooled object reach its output, for every history and every behaviour of the pool -/
theorem C18_pool_program_no_leak (n : Nat) (prog : List Step) (outs D : List Nat)
    (hD : ∀ c ∈ D, n ≤ c) (h : initBeforeRead D prog = true) (houts : ∀ c ∈ outs, c ∈ D ∨ c ∈ writes prog)
    (fresh : Buf) (calls : List (List Val × Nat)) (pool : List Buf) :
    poolRun fresh (progUser n prog outs) calls pool = calls.map (fun c => (progUser n prog outs c.1 fresh).1) := by
  apply C18_pool_no_leak
  intro x b b'
  simp only [progUser]
  apply List.map_congr_left
  intro c hc
  apply initBeforeRead_agree prog D _ _ h _ c (houts c hc)
  intro d hd
  have := hD d hd
  simp [Nat.not_lt.2 this]

-- non-vacuity: scratch cell 0 := in0 + in1 ; out = scratch0 * 2   (reads cell 0 only after writing it)
example : initBeforeRead [1, 2] [⟨[1, 2], 0, fun v => v.sum⟩, ⟨[0], 3, fun v => 2 * v.sum⟩] = true := by decide
-- the hypothesis is necessary: a user that reads the scratch cell before writing it leaks the previous call's data
example : poolRun [0] (progUser 1 [⟨[0, 1], 0, fun v => v.sum⟩] [0]) [([5], 0), ([1], 0)] [] = [[5], [6]] := by decide
example : initBeforeRead [1] [⟨[0, 1], 0, fun v => v.sum⟩] = false := by decide

end GV.ForkJoin
