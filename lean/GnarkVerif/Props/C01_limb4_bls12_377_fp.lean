import GnarkVerif.Props.C01_limb_bls12_377_fp
import GnarkVerif.Proofs.Limb4
import GnarkVerif.Gen.Limb.Bls12_377_fpX
/-
C01_limb4 (bls12_377_fp, 6 limbs) — the second batch of word-level Go code of the package (Gen/Limb/Bls12_377_fpX.lean, regenerated on every
run by tools/goslp/limb.go) computes the value-level model `GV.Field` on ALL inputs (every limb `< 2^64`; canonical `val < q` where
the Go code assumes it). `val [l0, …] = Σ lᵢ·2^(64·i)`; `P` = the parameter set of the regenerated constants `GV.Gen.bls12_377_fp`.
-/
set_option maxRecDepth 100000
set_option maxHeartbeats 4000000

namespace GV.Limb.bls12_377_fp
open GV.Field GV.Limb GV.Gen.Limb.bls12_377_fp

/-- `IsZero` (OR of all limbs) is `val z = 0`, for all limbs -/
theorem IsZero_iff (z0 z1 z2 z3 z4 z5 : Nat) : Gen.Limb.bls12_377_fp.IsZero z0 z1 z2 z3 z4 z5 ↔ val [z0, z1, z2, z3, z4, z5] = 0 := by
  unfold Gen.Limb.bls12_377_fp.IsZero
  simp only [Nat.or_eq_zero_iff]
  rw [val_eq_zero_iff]
  constructor
  · rintro ⟨⟨⟨⟨⟨e5, e4⟩, e3⟩, e2⟩, e1⟩, e0⟩
    intro a ha; simp only [List.mem_cons, List.not_mem_nil, or_false] at ha; rcases ha with rfl | rfl | rfl | rfl | rfl | rfl <;> assumption
  · intro h
    exact ⟨⟨⟨⟨⟨h z5 (by simp), h z4 (by simp)⟩, h z3 (by simp)⟩, h z2 (by simp)⟩, h z1 (by simp)⟩, h z0 (by simp)⟩

/-- the literal limbs of `IsOne` are the Montgomery form of 1 (`R mod q` of the regenerated modulus) -/
theorem one_limbs : val [202099033278250856, 5854854902718660529, 11492539364873682930, 8885205928937022213, 5545221690922665192, 39800542322357402] = GV.Field.one P := by decide +kernel

/-- `IsOne` (OR of the XORs with the limbs of `one`) is `val z = R mod q` -/
theorem IsOne_iff (z0 z1 z2 z3 z4 z5 : Nat) (hz0 : z0 < 18446744073709551616) (hz1 : z1 < 18446744073709551616) (hz2 : z2 < 18446744073709551616) (hz3 : z3 < 18446744073709551616) (hz4 : z4 < 18446744073709551616) (hz5 : z5 < 18446744073709551616) : Gen.Limb.bls12_377_fp.IsOne z0 z1 z2 z3 z4 z5 ↔ val [z0, z1, z2, z3, z4, z5] = GV.Field.one P := by
  unfold Gen.Limb.bls12_377_fp.IsOne
  simp only [Nat.or_eq_zero_iff, xor_eq_zero]
  rw [← one_limbs, val_eq_iff _ _ (by rfl) (by intro a ha; simp only [List.mem_cons, List.not_mem_nil, or_false] at ha; rcases ha with rfl | rfl | rfl | rfl | rfl | rfl <;> assumption) (by intro a ha; simp only [List.mem_cons, List.not_mem_nil, or_false] at ha; rcases ha with rfl | rfl | rfl | rfl | rfl | rfl <;> decide)]
  simp only [List.cons.injEq, and_true]
  constructor
  · rintro ⟨⟨⟨⟨⟨e5, e4⟩, e3⟩, e2⟩, e1⟩, e0⟩
    exact ⟨e0, e1, e2, e3, e4, e5⟩
  · rintro ⟨e0, e1, e2, e3, e4, e5⟩
    exact ⟨⟨⟨⟨⟨e5, e4⟩, e3⟩, e2⟩, e1⟩, e0⟩

/-- `NotEqual` (OR of the limb-wise XORs) is zero exactly when the values are equal -/
theorem NotEqual_eq_zero_iff (z0 z1 z2 z3 z4 z5 x0 x1 x2 x3 x4 x5 : Nat) (hz0 : z0 < 18446744073709551616) (hz1 : z1 < 18446744073709551616) (hz2 : z2 < 18446744073709551616) (hz3 : z3 < 18446744073709551616) (hz4 : z4 < 18446744073709551616) (hz5 : z5 < 18446744073709551616) (hx0 : x0 < 18446744073709551616) (hx1 : x1 < 18446744073709551616) (hx2 : x2 < 18446744073709551616) (hx3 : x3 < 18446744073709551616) (hx4 : x4 < 18446744073709551616) (hx5 : x5 < 18446744073709551616) :
    Gen.Limb.bls12_377_fp.NotEqual z0 z1 z2 z3 z4 z5 x0 x1 x2 x3 x4 x5 = 0 ↔ val [z0, z1, z2, z3, z4, z5] = val [x0, x1, x2, x3, x4, x5] := by
  unfold Gen.Limb.bls12_377_fp.NotEqual
  simp only [Nat.or_eq_zero_iff, xor_eq_zero]
  rw [val_eq_iff _ _ (by rfl) (by intro a ha; simp only [List.mem_cons, List.not_mem_nil, or_false] at ha; rcases ha with rfl | rfl | rfl | rfl | rfl | rfl <;> assumption) (by intro a ha; simp only [List.mem_cons, List.not_mem_nil, or_false] at ha; rcases ha with rfl | rfl | rfl | rfl | rfl | rfl <;> assumption)]
  simp only [List.cons.injEq, and_true]
  constructor
  · rintro ⟨⟨⟨⟨⟨e5, e4⟩, e3⟩, e2⟩, e1⟩, e0⟩
    exact ⟨e0, e1, e2, e3, e4, e5⟩
  · rintro ⟨e0, e1, e2, e3, e4, e5⟩
    exact ⟨⟨⟨⟨⟨e5, e4⟩, e3⟩, e2⟩, e1⟩, e0⟩

theorem NotEqual_ne_zero_iff (z0 z1 z2 z3 z4 z5 x0 x1 x2 x3 x4 x5 : Nat) (hz0 : z0 < 18446744073709551616) (hz1 : z1 < 18446744073709551616) (hz2 : z2 < 18446744073709551616) (hz3 : z3 < 18446744073709551616) (hz4 : z4 < 18446744073709551616) (hz5 : z5 < 18446744073709551616) (hx0 : x0 < 18446744073709551616) (hx1 : x1 < 18446744073709551616) (hx2 : x2 < 18446744073709551616) (hx3 : x3 < 18446744073709551616) (hx4 : x4 < 18446744073709551616) (hx5 : x5 < 18446744073709551616) :
    Gen.Limb.bls12_377_fp.NotEqual z0 z1 z2 z3 z4 z5 x0 x1 x2 x3 x4 x5 ≠ 0 ↔ val [z0, z1, z2, z3, z4, z5] ≠ val [x0, x1, x2, x3, x4, x5] :=
  not_congr (NotEqual_eq_zero_iff z0 z1 z2 z3 z4 z5 x0 x1 x2 x3 x4 x5 hz0 hz1 hz2 hz3 hz4 hz5 hx0 hx1 hx2 hx3 hx4 hx5)

/-- `Equal` is `NotEqual = 0`, hence equality of the values -/
theorem Equal_iff (z0 z1 z2 z3 z4 z5 x0 x1 x2 x3 x4 x5 : Nat) (hz0 : z0 < 18446744073709551616) (hz1 : z1 < 18446744073709551616) (hz2 : z2 < 18446744073709551616) (hz3 : z3 < 18446744073709551616) (hz4 : z4 < 18446744073709551616) (hz5 : z5 < 18446744073709551616) (hx0 : x0 < 18446744073709551616) (hx1 : x1 < 18446744073709551616) (hx2 : x2 < 18446744073709551616) (hx3 : x3 < 18446744073709551616) (hx4 : x4 < 18446744073709551616) (hx5 : x5 < 18446744073709551616) :
    Gen.Limb.bls12_377_fp.Equal z0 z1 z2 z3 z4 z5 x0 x1 x2 x3 x4 x5 ↔ val [z0, z1, z2, z3, z4, z5] = val [x0, x1, x2, x3, x4, x5] :=
  NotEqual_eq_zero_iff z0 z1 z2 z3 z4 z5 x0 x1 x2 x3 x4 x5 hz0 hz1 hz2 hz3 hz4 hz5 hx0 hx1 hx2 hx3 hx4 hx5

/-- the inlined copy of `_fromMontGeneric` is the first batch's (segmented) `fromMontGeneric`: same word program -/
theorem fromMont_eq (z0 z1 z2 z3 z4 z5 : Nat) : Gen.Limb.bls12_377_fp.fromMont z0 z1 z2 z3 z4 z5 = fromMontGeneric z0 z1 z2 z3 z4 z5 := by limb_kernel_rfl

/-- **C01_limb4 fromMont** = the model's `fromMont` (through C01_limb `fromMontGeneric_spec`) -/
theorem fromMont_spec (z0 z1 z2 z3 z4 z5 : Nat) (hz0 : z0 < 18446744073709551616) (hz1 : z1 < 18446744073709551616) (hz2 : z2 < 18446744073709551616) (hz3 : z3 < 18446744073709551616) (hz4 : z4 < 18446744073709551616) (hz5 : z5 < 18446744073709551616)
    (hZ : val [z0, z1, z2, z3, z4, z5] < P.q) :
    Good (Gen.Limb.bls12_377_fp.fromMont z0 z1 z2 z3 z4 z5) ∧ tval (Gen.Limb.bls12_377_fp.fromMont z0 z1 z2 z3 z4 z5) = GV.Field.fromMont P (val [z0, z1, z2, z3, z4, z5]) := by
  rw [fromMont_eq]
  exact fromMontGeneric_spec z0 z1 z2 z3 z4 z5 hz0 hz1 hz2 hz3 hz4 hz5 hZ

/-- the borrow chain `bits.Sub64(_z[i], (q+1)/2 limb i, b)` of `LexicographicallyLargest`, on the regular value `r` -/
def lexTail (r : Nat × Nat × Nat × Nat × Nat × Nat) : Prop :=
  (subB r.2.2.2.2.2 60549156353247349 (subB r.2.2.2.2.1 7142008483575014557 (subB r.2.2.2.1 10165025652810090951 (subB r.2.2.1 10338489135656117248 (subB r.2.1 830261717530312704 (subB r.1 4793061456545316865 0)))))) = 0

/-- the literal limbs subtracted by `LexicographicallyLargest` are `(q+1)/2` of the regenerated modulus -/
theorem half_limbs : val [4793061456545316865, 830261717530312704, 10338489135656117248, 10165025652810090951, 7142008483575014557, 60549156353247349] = (P.q + 1) / 2 := by decide +kernel

/-- `LexicographicallyLargest` = `fromMont`, then the borrow chain against the `(q+1)/2` limbs -/
theorem LexicographicallyLargest_eq (z0 z1 z2 z3 z4 z5 : Nat) :
    Gen.Limb.bls12_377_fp.LexicographicallyLargest z0 z1 z2 z3 z4 z5 = lexTail (fromMontGeneric z0 z1 z2 z3 z4 z5) := by limb_kernel_rfl

theorem lexTail_iff (r : Nat × Nat × Nat × Nat × Nat × Nat) (g : Good r) : lexTail r ↔ ¬ (tval r < (P.q + 1) / 2) := by
  show borrowChain [r.1, r.2.1, r.2.2.1, r.2.2.2.1, r.2.2.2.2.1, r.2.2.2.2.2] [4793061456545316865, 830261717530312704, 10338489135656117248, 10165025652810090951, 7142008483575014557, 60549156353247349] 0 = 0 ↔ _
  rw [borrowChain_eq _ _ _ (by rfl) (by intro a ha; simp only [List.mem_cons, List.not_mem_nil, or_false] at ha; rcases ha with rfl | rfl | rfl | rfl | rfl | rfl <;> first | exact g.1 | exact g.2.1 | exact g.2.2.1 | exact g.2.2.2.1 | exact g.2.2.2.2.1 | exact g.2.2.2.2.2)
    (by intro a ha; simp only [List.mem_cons, List.not_mem_nil, or_false] at ha; rcases ha with rfl | rfl | rfl | rfl | rfl | rfl <;> decide) (by omega), half_limbs, Nat.add_zero]
  split <;> simp [*]

/-- **C01_limb4 LexicographicallyLargest**: true exactly when the regular (non-Montgomery) value is `> (q-1)/2` -/
theorem LexicographicallyLargest_iff (z0 z1 z2 z3 z4 z5 : Nat) (hz0 : z0 < 18446744073709551616) (hz1 : z1 < 18446744073709551616) (hz2 : z2 < 18446744073709551616) (hz3 : z3 < 18446744073709551616) (hz4 : z4 < 18446744073709551616) (hz5 : z5 < 18446744073709551616)
    (hZ : val [z0, z1, z2, z3, z4, z5] < P.q) :
    Gen.Limb.bls12_377_fp.LexicographicallyLargest z0 z1 z2 z3 z4 z5 ↔ GV.Field.lexLargest P (val [z0, z1, z2, z3, z4, z5]) = true := by
  obtain ⟨g, e⟩ := fromMontGeneric_spec z0 z1 z2 z3 z4 z5 hz0 hz1 hz2 hz3 hz4 hz5 hZ
  rw [LexicographicallyLargest_eq, lexTail_iff _ g, e]
  exact lexLargest_iff P P_ok _

theorem LexicographicallyLargest_iff_gt (z0 z1 z2 z3 z4 z5 : Nat) (hz0 : z0 < 18446744073709551616) (hz1 : z1 < 18446744073709551616) (hz2 : z2 < 18446744073709551616) (hz3 : z3 < 18446744073709551616) (hz4 : z4 < 18446744073709551616) (hz5 : z5 < 18446744073709551616)
    (hZ : val [z0, z1, z2, z3, z4, z5] < P.q) :
    Gen.Limb.bls12_377_fp.LexicographicallyLargest z0 z1 z2 z3 z4 z5 ↔ GV.Field.fromMont P (val [z0, z1, z2, z3, z4, z5]) > (P.q - 1) / 2 := by
  rw [LexicographicallyLargest_iff z0 z1 z2 z3 z4 z5 hz0 hz1 hz2 hz3 hz4 hz5 hZ]
  unfold GV.Field.lexLargest toRegular
  exact decide_eq_true_iff

/-- the word comparison of `Cmp` (most significant word decides; `-1` is `2^64 - 1`) on two regular values -/
def cmpTail (a b : Nat × Nat × Nat × Nat × Nat × Nat) : Nat :=
  (if a.2.2.2.2.2 > b.2.2.2.2.2 then 1 else if a.2.2.2.2.2 < b.2.2.2.2.2 then 18446744073709551615 else (if a.2.2.2.2.1 > b.2.2.2.2.1 then 1 else if a.2.2.2.2.1 < b.2.2.2.2.1 then 18446744073709551615 else (if a.2.2.2.1 > b.2.2.2.1 then 1 else if a.2.2.2.1 < b.2.2.2.1 then 18446744073709551615 else (if a.2.2.1 > b.2.2.1 then 1 else if a.2.2.1 < b.2.2.1 then 18446744073709551615 else (if a.2.1 > b.2.1 then 1 else if a.2.1 < b.2.1 then 18446744073709551615 else (if a.1 > b.1 then 1 else if a.1 < b.1 then 18446744073709551615 else 0))))))

/-- `Cmp` = `fromMont` of both operands, then the word comparison -/
theorem Cmp_eq (z0 z1 z2 z3 z4 z5 x0 x1 x2 x3 x4 x5 : Nat) :
    Gen.Limb.bls12_377_fp.Cmp z0 z1 z2 z3 z4 z5 x0 x1 x2 x3 x4 x5 = cmpTail (fromMontGeneric z0 z1 z2 z3 z4 z5) (fromMontGeneric x0 x1 x2 x3 x4 x5) := by limb_kernel_rfl

theorem cmpTail_eq (a b : Nat × Nat × Nat × Nat × Nat × Nat) (ga : Good a) (gb : Good b) :
    cmpTail a b = if tval a < tval b then 18446744073709551615 else if tval a > tval b then 1 else 0 := by
  show cmpChain [a.1, a.2.1, a.2.2.1, a.2.2.2.1, a.2.2.2.2.1, a.2.2.2.2.2] [b.1, b.2.1, b.2.2.1, b.2.2.2.1, b.2.2.2.2.1, b.2.2.2.2.2] 0 = _
  exact cmpChain_eq _ _ _ (by rfl)
    (by intro a ha; simp only [List.mem_cons, List.not_mem_nil, or_false] at ha; rcases ha with rfl | rfl | rfl | rfl | rfl | rfl <;> first | exact ga.1 | exact ga.2.1 | exact ga.2.2.1 | exact ga.2.2.2.1 | exact ga.2.2.2.2.1 | exact ga.2.2.2.2.2)
    (by intro a ha; simp only [List.mem_cons, List.not_mem_nil, or_false] at ha; rcases ha with rfl | rfl | rfl | rfl | rfl | rfl <;> first | exact gb.1 | exact gb.2.1 | exact gb.2.2.1 | exact gb.2.2.2.1 | exact gb.2.2.2.2.1 | exact gb.2.2.2.2.2)

/-- **C01_limb4 Cmp**: the three-way comparison of the REGULAR values (Go `int` -1 / 0 / 1 in the translator's encoding) -/
theorem Cmp_spec (z0 z1 z2 z3 z4 z5 x0 x1 x2 x3 x4 x5 : Nat) (hz0 : z0 < 18446744073709551616) (hz1 : z1 < 18446744073709551616) (hz2 : z2 < 18446744073709551616) (hz3 : z3 < 18446744073709551616) (hz4 : z4 < 18446744073709551616) (hz5 : z5 < 18446744073709551616) (hx0 : x0 < 18446744073709551616) (hx1 : x1 < 18446744073709551616) (hx2 : x2 < 18446744073709551616) (hx3 : x3 < 18446744073709551616) (hx4 : x4 < 18446744073709551616) (hx5 : x5 < 18446744073709551616)
    (hZ : val [z0, z1, z2, z3, z4, z5] < P.q) (hX : val [x0, x1, x2, x3, x4, x5] < P.q) :
    Gen.Limb.bls12_377_fp.Cmp z0 z1 z2 z3 z4 z5 x0 x1 x2 x3 x4 x5 = encInt (GV.Field.cmp P (val [z0, z1, z2, z3, z4, z5]) (val [x0, x1, x2, x3, x4, x5])) := by
  obtain ⟨ga, ea⟩ := fromMontGeneric_spec z0 z1 z2 z3 z4 z5 hz0 hz1 hz2 hz3 hz4 hz5 hZ
  obtain ⟨gb, eb⟩ := fromMontGeneric_spec x0 x1 x2 x3 x4 x5 hx0 hx1 hx2 hx3 hx4 hx5 hX
  rw [Cmp_eq, cmpTail_eq _ _ ga gb, ea, eb]
  exact cmp_enc P _ _

/-- `Add` / `Double` on limb tuples -/
def addT (a b : Nat × Nat × Nat × Nat × Nat × Nat) : Nat × Nat × Nat × Nat × Nat × Nat := Gen.Limb.bls12_377_fp.Add a.1 a.2.1 a.2.2.1 a.2.2.2.1 a.2.2.2.2.1 a.2.2.2.2.2 b.1 b.2.1 b.2.2.1 b.2.2.2.1 b.2.2.2.2.1 b.2.2.2.2.2
def dblT (a : Nat × Nat × Nat × Nat × Nat × Nat) : Nat × Nat × Nat × Nat × Nat × Nat := Gen.Limb.bls12_377_fp.Double a.1 a.2.1 a.2.2.1 a.2.2.2.1 a.2.2.2.2.1 a.2.2.2.2.2

theorem addT_spec (a b : Nat × Nat × Nat × Nat × Nat × Nat) (ga : Good a) (gb : Good b) (hA : tval a < P.q) (hB : tval b < P.q) :
    Good (addT a b) ∧ tval (addT a b) = GV.Field.add P (tval a) (tval b) :=
  Add_spec a.1 a.2.1 a.2.2.1 a.2.2.2.1 a.2.2.2.2.1 a.2.2.2.2.2 b.1 b.2.1 b.2.2.1 b.2.2.2.1 b.2.2.2.2.1 b.2.2.2.2.2 ga.1 ga.2.1 ga.2.2.1 ga.2.2.2.1 ga.2.2.2.2.1 ga.2.2.2.2.2 gb.1 gb.2.1 gb.2.2.1 gb.2.2.2.1 gb.2.2.2.2.1 gb.2.2.2.2.2 hA hB

theorem dblT_spec (a : Nat × Nat × Nat × Nat × Nat × Nat) (ga : Good a) (hA : tval a < P.q) :
    Good (dblT a) ∧ tval (dblT a) = GV.Field.double P (tval a) :=
  Double_spec a.1 a.2.1 a.2.2.1 a.2.2.2.1 a.2.2.2.2.1 a.2.2.2.2.2 ga.1 ga.2.1 ga.2.2.1 ga.2.2.2.1 ga.2.2.2.2.1 ga.2.2.2.2.2 hA

/-- `MulBy3` is `Double` then `Add` (same word program) -/
theorem MulBy3_eq (x0 x1 x2 x3 x4 x5 : Nat) : Gen.Limb.bls12_377_fp.MulBy3 x0 x1 x2 x3 x4 x5 = addT (dblT (x0, x1, x2, x3, x4, x5)) (x0, x1, x2, x3, x4, x5) := by limb_kernel_rfl

/-- **C01_limb4 MulBy3**: canonical result `3·x mod q` (on Montgomery values: the modular tripling) -/
theorem MulBy3_spec (x0 x1 x2 x3 x4 x5 : Nat) (hx0 : x0 < 18446744073709551616) (hx1 : x1 < 18446744073709551616) (hx2 : x2 < 18446744073709551616) (hx3 : x3 < 18446744073709551616) (hx4 : x4 < 18446744073709551616) (hx5 : x5 < 18446744073709551616)
    (hX : val [x0, x1, x2, x3, x4, x5] < P.q) :
    Good (Gen.Limb.bls12_377_fp.MulBy3 x0 x1 x2 x3 x4 x5) ∧ tval (Gen.Limb.bls12_377_fp.MulBy3 x0 x1 x2 x3 x4 x5) = GV.Field.mulBySmall P 3 (val [x0, x1, x2, x3, x4, x5]) := by
  have gx : Good (x0, x1, x2, x3, x4, x5) := ⟨hx0, hx1, hx2, hx3, hx4, hx5⟩
  obtain ⟨gd, ed⟩ := dblT_spec (x0, x1, x2, x3, x4, x5) gx hX
  have hd : tval (dblT (x0, x1, x2, x3, x4, x5)) < P.q := by rw [ed]; exact double_lt P _ hX
  obtain ⟨ga, ea⟩ := addT_spec _ (x0, x1, x2, x3, x4, x5) gd gx hd hX
  rw [MulBy3_eq]
  refine ⟨ga, ?_⟩
  rw [ea, ed]
  exact add_double_eq P _ hX

/-- `MulBy5` is `Double`, `Double`, `Add` -/
theorem MulBy5_eq (x0 x1 x2 x3 x4 x5 : Nat) : Gen.Limb.bls12_377_fp.MulBy5 x0 x1 x2 x3 x4 x5 = addT (dblT (dblT (x0, x1, x2, x3, x4, x5))) (x0, x1, x2, x3, x4, x5) := by limb_kernel_rfl

/-- **C01_limb4 MulBy5**: canonical result `5·x mod q` -/
theorem MulBy5_spec (x0 x1 x2 x3 x4 x5 : Nat) (hx0 : x0 < 18446744073709551616) (hx1 : x1 < 18446744073709551616) (hx2 : x2 < 18446744073709551616) (hx3 : x3 < 18446744073709551616) (hx4 : x4 < 18446744073709551616) (hx5 : x5 < 18446744073709551616)
    (hX : val [x0, x1, x2, x3, x4, x5] < P.q) :
    Good (Gen.Limb.bls12_377_fp.MulBy5 x0 x1 x2 x3 x4 x5) ∧ tval (Gen.Limb.bls12_377_fp.MulBy5 x0 x1 x2 x3 x4 x5) = GV.Field.mulBySmall P 5 (val [x0, x1, x2, x3, x4, x5]) := by
  have gx : Good (x0, x1, x2, x3, x4, x5) := ⟨hx0, hx1, hx2, hx3, hx4, hx5⟩
  obtain ⟨gd, ed⟩ := dblT_spec (x0, x1, x2, x3, x4, x5) gx hX
  have hd : tval (dblT (x0, x1, x2, x3, x4, x5)) < P.q := by rw [ed]; exact double_lt P _ hX
  obtain ⟨ge, ee⟩ := dblT_spec _ gd hd
  have he : tval (dblT (dblT (x0, x1, x2, x3, x4, x5))) < P.q := by rw [ee]; exact double_lt P _ hd
  obtain ⟨ga, ea⟩ := addT_spec _ (x0, x1, x2, x3, x4, x5) ge gx he hX
  rw [MulBy5_eq]
  refine ⟨ga, ?_⟩
  rw [ea, ee, ed]
  exact add_double_double_eq P _ hX

/-- `_butterflyGeneric(a, b)` is `(Add a b, Sub a b)` (same word program; `a` is read before it is overwritten) -/
theorem butterflyGeneric_eq (a0 a1 a2 a3 a4 a5 b0 b1 b2 b3 b4 b5 : Nat) : Gen.Limb.bls12_377_fp.butterflyGeneric a0 a1 a2 a3 a4 a5 b0 b1 b2 b3 b4 b5 =
    (fun s d : Nat × Nat × Nat × Nat × Nat × Nat => (s.1, s.2.1, s.2.2.1, s.2.2.2.1, s.2.2.2.2.1, s.2.2.2.2.2, d.1, d.2.1, d.2.2.1, d.2.2.2.1, d.2.2.2.2.1, d.2.2.2.2.2)) (Gen.Limb.bls12_377_fp.Add a0 a1 a2 a3 a4 a5 b0 b1 b2 b3 b4 b5) (Gen.Limb.bls12_377_fp.Sub a0 a1 a2 a3 a4 a5 b0 b1 b2 b3 b4 b5) := by limb_kernel_rfl

/-- **C01_limb4 butterflyGeneric**: `(a, b) ↦ (a + b mod q, a − b mod q)`, all result limbs are words -/
theorem butterflyGeneric_spec (a0 a1 a2 a3 a4 a5 b0 b1 b2 b3 b4 b5 : Nat) (ha0 : a0 < 18446744073709551616) (ha1 : a1 < 18446744073709551616) (ha2 : a2 < 18446744073709551616) (ha3 : a3 < 18446744073709551616) (ha4 : a4 < 18446744073709551616) (ha5 : a5 < 18446744073709551616) (hb0 : b0 < 18446744073709551616) (hb1 : b1 < 18446744073709551616) (hb2 : b2 < 18446744073709551616) (hb3 : b3 < 18446744073709551616) (hb4 : b4 < 18446744073709551616) (hb5 : b5 < 18446744073709551616)
    (hA : val [a0, a1, a2, a3, a4, a5] < P.q) (hB : val [b0, b1, b2, b3, b4, b5] < P.q) :
    ∃ s d : Nat × Nat × Nat × Nat × Nat × Nat, Gen.Limb.bls12_377_fp.butterflyGeneric a0 a1 a2 a3 a4 a5 b0 b1 b2 b3 b4 b5 = (s.1, s.2.1, s.2.2.1, s.2.2.2.1, s.2.2.2.2.1, s.2.2.2.2.2, d.1, d.2.1, d.2.2.1, d.2.2.2.1, d.2.2.2.2.1, d.2.2.2.2.2) ∧ Good s ∧ Good d ∧
      tval s = GV.Field.add P (val [a0, a1, a2, a3, a4, a5]) (val [b0, b1, b2, b3, b4, b5]) ∧ tval d = GV.Field.sub P (val [a0, a1, a2, a3, a4, a5]) (val [b0, b1, b2, b3, b4, b5]) := by
  obtain ⟨gs, es⟩ := Add_spec a0 a1 a2 a3 a4 a5 b0 b1 b2 b3 b4 b5 ha0 ha1 ha2 ha3 ha4 ha5 hb0 hb1 hb2 hb3 hb4 hb5 hA hB
  obtain ⟨gd, ed⟩ := Sub_spec a0 a1 a2 a3 a4 a5 b0 b1 b2 b3 b4 b5 ha0 ha1 ha2 ha3 ha4 ha5 hb0 hb1 hb2 hb3 hb4 hb5 hA hB
  exact ⟨Gen.Limb.bls12_377_fp.Add a0 a1 a2 a3 a4 a5 b0 b1 b2 b3 b4 b5, Gen.Limb.bls12_377_fp.Sub a0 a1 a2 a3 a4 a5 b0 b1 b2 b3 b4 b5, butterflyGeneric_eq a0 a1 a2 a3 a4 a5 b0 b1 b2 b3 b4 b5, gs, gd, es, ed⟩

/-! ### non-vacuity -/
example := (IsZero_iff 0 0 0 0 0 0).2 (by decide)
example := (IsOne_iff 202099033278250856 5854854902718660529 11492539364873682930 8885205928937022213 5545221690922665192 39800542322357402 (by decide) (by decide) (by decide) (by decide) (by decide) (by decide)).2 one_limbs
example := (Equal_iff 5 0 0 0 0 0 5 0 0 0 0 0 (by decide) (by decide) (by decide) (by decide) (by decide) (by decide) (by decide) (by decide) (by decide) (by decide) (by decide) (by decide)).2 rfl
example := Cmp_spec 5 0 0 0 0 0 7 0 0 0 0 0 (by decide) (by decide) (by decide) (by decide) (by decide) (by decide) (by decide) (by decide) (by decide) (by decide) (by decide) (by decide) (by decide +kernel) (by decide +kernel)
example := LexicographicallyLargest_iff 5 0 0 0 0 0 (by decide) (by decide) (by decide) (by decide) (by decide) (by decide) (by decide +kernel)
example := MulBy3_spec 5 0 0 0 0 0 (by decide) (by decide) (by decide) (by decide) (by decide) (by decide) (by decide +kernel)
example := MulBy5_spec 5 0 0 0 0 0 (by decide) (by decide) (by decide) (by decide) (by decide) (by decide) (by decide +kernel)
example := butterflyGeneric_spec 5 0 0 0 0 0 7 0 0 0 0 0 (by decide) (by decide) (by decide) (by decide) (by decide) (by decide) (by decide) (by decide) (by decide) (by decide) (by decide) (by decide) (by decide +kernel) (by decide +kernel)

end GV.Limb.bls12_377_fp
