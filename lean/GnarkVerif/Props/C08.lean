import GnarkVerif.Proofs.Conv
import GnarkVerif.Props.C01
/-
C08 — field-element conversions round-trip; strict decoders reject non-canonical input.

Theorems about `GV.Conv` (executable model of the conversion functions of `element.go` / `vector.go`; the tie to
the 23 generated packages is the correspondence run K on raw Montgomery limbs). Everything is parametric:
every modulus `q > 0` (or `q > 1`), every encoding width `nb` with `q ≤ 256^nb`, every value, integer, byte string,
vector length and position. An element is its regular value `v ∈ [0,q)`.

What is NOT a theorem here: `math/big`'s own parsing and printing (the model re-implements the grammar of
`big.Int.SetString(·,0)` and is compared with it by K), the goroutine of `AsyncReadFrom` (modelled as its
sequential meaning), allocation behaviour (see the findings of the correspondence run: attacker-chosen length
prefixes).
-/
namespace GV.Conv

/-! ## base-256 digit strings -/

/-- writing `n` on `len` big-endian bytes and reading back gives `n mod 256^len` (so exactly `n` when it fits) -/
theorem C08_be_digits (len n : Nat) : beToNat (natToBE len n) = n % 256 ^ len := beToNat_natToBE len n
theorem C08_le_digits (len n : Nat) : leToNat (natToLE len n) = n % 256 ^ len := leToNat_natToLE len n
example : beToNat (natToBE 2 0x12345) = 0x2345 := by decide

/-- a byte string is the `length`-byte encoding of its own value: encodings are unique -/
theorem C08_be_digits_inv (bs : List UInt8) : natToBE bs.length (beToNat bs) = bs := natToBE_beToNat bs
theorem C08_le_digits_inv (bs : List UInt8) : natToLE bs.length (leToNat bs) = bs := natToLE_leToNat bs
theorem C08_be_value_lt (bs : List UInt8) : beToNat bs < 256 ^ bs.length := beToNat_lt bs
example : natToBE 3 (beToNat [0, 7, 9]) = [0, 7, 9] := by decide

/-- the little-endian encoding is the reversed big-endian one -/
theorem C08_le_is_reversed_be (len n : Nat) : toBytesLE len n = (toBytesBE len n).reverse := by
  simp [toBytesLE, toBytesBE, natToBE]

/-- the digit functions used by the proofs are the fold/range functions of Model/Util used elsewhere -/
theorem C08_util_agree (len n : Nat) (bs : List UInt8) :
    GV.beToNat bs = beToNat bs ∧ GV.natToBE len n = natToBE len n ∧ GV.natToLE len n = natToLE len n :=
  ⟨util_beToNat_eq bs, util_natToBE_eq len n, util_natToLE_eq len n⟩

/-! ## element ⇄ bytes -/

/-- `Bytes()/Marshal()` has exactly `Bytes` bytes and the numeric value it exposes is the element -/
theorem C08_toBytes_value (q nb v : Nat) (hq : q ≤ 256 ^ nb) (hv : v < q) :
    (toBytesBE nb v).length = nb ∧ beToNat (toBytesBE nb v) = v ∧
    (toBytesLE nb v).length = nb ∧ leToNat (toBytesLE nb v) = v := by
  have h : v % 256 ^ nb = v := Nat.mod_eq_of_lt (lt_of_lt_of_le hv hq)
  exact ⟨natToBE_length _ _, by rw [toBytesBE, beToNat_natToBE, h], natToLE_length _ _,
    by rw [toBytesLE, leToNat_natToLE, h]⟩
example : beToNat (toBytesBE 2 300) = 300 := by decide

/-- round trip through the strict big-endian decoder (`SetBytesCanonical`, `BigEndian.Element`) -/
theorem C08_canonical_roundtrip (q nb v : Nat) (hq : q ≤ 256 ^ nb) (hv : v < q) :
    setBytesCanonical q nb (toBytesBE nb v) = .ok v := by
  have h : v % 256 ^ nb = v := Nat.mod_eq_of_lt (lt_of_lt_of_le hv hq)
  simp only [setBytesCanonical, toBytesBE, natToBE_length, ne_eq, not_true_eq_false, if_false]
  exact (elementBE_ok_iff q _ v).mpr ⟨hv, by rw [beToNat_natToBE, h]⟩
example : setBytesCanonical 65521 2 (toBytesBE 2 65520) = .ok 65520 := by decide

/-- round trip through the strict little-endian decoder (`LittleEndian.Element`) -/
theorem C08_canonicalLE_roundtrip (q nb v : Nat) (hq : q ≤ 256 ^ nb) (hv : v < q) :
    setBytesCanonicalLE q nb (toBytesLE nb v) = .ok v := by
  have h : v % 256 ^ nb = v := Nat.mod_eq_of_lt (lt_of_lt_of_le hv hq)
  simp only [setBytesCanonicalLE, toBytesLE, natToLE_length, ne_eq, not_true_eq_false, if_false]
  exact (elementLE_ok_iff q _ v).mpr ⟨hv, by rw [leToNat_natToLE, h]⟩
example : setBytesCanonicalLE 65521 2 (toBytesLE 2 65520) = .ok 65520 := by decide

/-- the strict decoder accepts EXACTLY the `Bytes`-long encodings of the integers below `q` -/
theorem C08_canonical_accepts_iff (q nb : Nat) (hq : q ≤ 256 ^ nb) (b : List UInt8) (v : Nat) :
    setBytesCanonical q nb b = .ok v ↔ v < q ∧ b = toBytesBE nb v := by
  unfold setBytesCanonical toBytesBE
  by_cases hl : b.length = nb
  · simp only [hl, ne_eq, not_true_eq_false, if_false]
    rw [elementBE_ok_iff]
    constructor
    · rintro ⟨hv, rfl⟩; exact ⟨hv, by rw [← hl, natToBE_beToNat]⟩
    · rintro ⟨hv, rfl⟩
      exact ⟨hv, by rw [beToNat_natToBE]; exact Nat.mod_eq_of_lt (lt_of_lt_of_le hv hq)⟩
  · simp only [ne_eq, hl, not_false_eq_true, if_true]
    constructor
    · intro e; cases e
    · rintro ⟨_, rfl⟩; exact absurd (natToBE_length _ _) hl
example : setBytesCanonical 65521 2 [0xff, 0xf0] = .ok 65520 ∧ setBytesCanonical 65521 2 [0xff, 0xf1] = .error .invalid
    ∧ setBytesCanonical 65521 2 [0, 0xff, 0xf0] = .error .length := by decide

theorem C08_canonicalLE_accepts_iff (q nb : Nat) (hq : q ≤ 256 ^ nb) (b : List UInt8) (v : Nat) :
    setBytesCanonicalLE q nb b = .ok v ↔ v < q ∧ b = toBytesLE nb v := by
  unfold setBytesCanonicalLE toBytesLE
  by_cases hl : b.length = nb
  · simp only [hl, ne_eq, not_true_eq_false, if_false]
    rw [elementLE_ok_iff]
    constructor
    · rintro ⟨hv, rfl⟩; exact ⟨hv, by rw [← hl, natToLE_leToNat]⟩
    · rintro ⟨hv, rfl⟩
      exact ⟨hv, by rw [leToNat_natToLE]; exact Nat.mod_eq_of_lt (lt_of_lt_of_le hv hq)⟩
  · simp only [ne_eq, hl, not_false_eq_true, if_true]
    constructor
    · intro e; cases e
    · rintro ⟨_, rfl⟩; exact absurd (natToLE_length _ _) hl

/-- every other input is an error: wrong length, or a value `≥ q` (in particular `q`, `q+1`, `2^(8·Bytes)-1`) -/
theorem C08_canonical_rejects_iff (q nb : Nat) (b : List UInt8) :
    (∃ e, setBytesCanonical q nb b = .error e) ↔ (b.length ≠ nb ∨ q ≤ beToNat b) := by
  unfold setBytesCanonical
  by_cases hl : b.length = nb
  · simp only [hl, ne_eq, not_true_eq_false, if_false, false_or, elementBE_eq]
    by_cases h : beToNat b < q
    · rw [if_pos h]
      constructor
      · rintro ⟨e, he⟩; cases he
      · intro h'; omega
    · rw [if_neg h]
      exact ⟨fun _ => Nat.le_of_not_lt h, fun _ => ⟨_, rfl⟩⟩
  · simp only [ne_eq, hl, not_false_eq_true, if_true, true_or, iff_true]
    exact ⟨_, rfl⟩
example : ∃ e, setBytesCanonical 65521 2 (natToBE 2 65521) = .error e := ⟨.invalid, by decide⟩

/-! ## lenient setters = residue modulo q -/

/-- `SetBigInt v` is `v mod q` (the representative in `[0,q)`) for EVERY integer: negative, huge, multiples of `q` -/
theorem C08_setBigInt (q : Nat) (hq : 0 < q) (v : Int) :
    ((setBigInt q v : Nat) : Int) = v % (q : Int) ∧ setBigInt q v < q :=
  ⟨setBigInt_cast q hq v, setBigInt_lt q hq v⟩
example : setBigInt 7 (-1) = 6 ∧ setBigInt 7 7 = 0 ∧ setBigInt 7 (-14) = 0 ∧ setBigInt 7 (2 ^ 200 + 3) = 0 := by decide

/-- … hence it only depends on the residue class -/
theorem C08_setBigInt_periodic (q : Nat) (hq : 0 < q) (v k : Int) : setBigInt q (v + k * q) = setBigInt q v := by
  have h1 := setBigInt_cast q hq (v + k * q)
  have h2 := setBigInt_cast q hq v
  rw [Int.add_mul_emod_self_right] at h1
  exact_mod_cast h1.trans h2.symm

/-- `SetBytes b` is `be(b) mod q` for every length (the `len = Bytes` fast path agrees with the `big.Int` path) -/
theorem C08_setBytes_lenient (q nb : Nat) (hq : 0 < q) (b : List UInt8) : setBytes q nb b = beToNat b % q :=
  setBytes_eq q nb hq b
example : setBytes 65521 2 [0xff, 0xf2] = 1 ∧ setBytes 65521 2 [1, 0, 0] = 15 ∧ setBytes 65521 2 [] = 0 := by decide

/-- leading zero bytes are irrelevant for the lenient setter; and it inverts `Bytes()` -/
theorem C08_setBytes_padding (q nb : Nat) (hq : 0 < q) (k : Nat) (b : List UInt8) :
    setBytes q nb (List.replicate k 0 ++ b) = setBytes q nb b := by
  rw [setBytes_eq q nb hq, setBytes_eq q nb hq, beToNat_replicate_zero]

theorem C08_setBytes_roundtrip (q nb v : Nat) (hq : q ≤ 256 ^ nb) (hv : v < q) :
    setBytes q nb (toBytesBE nb v) = v := by
  rw [setBytes_eq q nb (by omega), toBytesBE, beToNat_natToBE,
    Nat.mod_eq_of_lt (lt_of_lt_of_le hv hq), Nat.mod_eq_of_lt hv]

/-- `SetInt64 v = v mod q` for every (signed) `v`, `SetUint64 v = v mod q` -/
theorem C08_setInt64 (q : Nat) (hq : 0 < q) (v : Int) : ((setInt64 q v : Nat) : Int) = v % (q : Int) :=
  setInt64_cast q hq v
theorem C08_setUint64 (q v : Nat) : setUint64 q v = v % q := rfl
example : setInt64 7 (-9223372036854775808) = 6 ∧ setInt64 7 (-7) = 0 ∧ setInt64 7 5 = 5 := by decide

/-! ## limbs -/

/-- `Bits()` are the base-`2^w` digits of the regular value: `n` limbs, each `< 2^w`, recombining to the value -/
theorem C08_bits (w n v : Nat) (hv : v < 2 ^ (w * n)) :
    (bits w n v).length = n ∧ (∀ l ∈ bits w n v, l < 2 ^ w) ∧ ofLimbs w (bits w n v) = v :=
  ⟨bits_length w n v, bits_lt w n v, by rw [ofLimbs_bits, Nat.mod_eq_of_lt hv]⟩
example : bits 64 2 (2 ^ 64 + 5) = [5, 1] := by decide

/-- `Uint64()` is the low limb; it is the value itself exactly when `IsUint64()` -/
theorem C08_uint64 (v : Nat) : (isUint64 v = true ↔ uint64 64 v = v) := by
  simp only [isUint64, uint64, decide_eq_true_eq]
  constructor
  · exact Nat.mod_eq_of_lt
  · intro h; rw [← h]; exact Nat.mod_lt _ (by positivity)

/-! ## text and JSON -/

/-- decimal `Text(10)/String()` — including the `-1 … -65535` printing of `q-1 … q-65535` — reads back through `SetString` -/
theorem C08_text_roundtrip_dec (q v : Nat) (hv : v < q) : setString q (text q v 10) = .ok v := by
  have hq : 0 < q := by omega
  simp only [text]
  split
  · rename_i h
    obtain ⟨_, hpos, _⟩ := h
    have hv0 : 0 < v := by
      by_contra h0
      have : v = 0 := by omega
      subst this; simp at hpos
    have hneg : (q - v) % q = q - v := Nat.mod_eq_of_lt (by omega)
    rw [hneg]
    simp only [setString, parseIntLit_minus, parseNatLit_natText10, Option.map_some]
    have := setBigInt_neg_sub q v hv0 hv
    simp only [Int.ofNat_eq_natCast]
    rw [this]
  · obtain ⟨c, tl, e, hm, hp, _, _⟩ := natText_head 10 (by omega) (by omega) v
    simp only [setString, parseIntLit_unsigned _ c tl e hm hp, parseNatLit_natText10, Option.map_some,
      Int.ofNat_eq_natCast, setBigInt_natCast q hq, Nat.mod_eq_of_lt hv]
example : text 65521 65520 10 = ['-', '1'] ∧ setString 65521 ['-', '1'] = .ok 65520 := by decide

/-- binary / octal / hexadecimal `Text(b)` reads back through `SetString` once the Go prefix is put in front -/
theorem C08_text_roundtrip_prefixed (q v b : Nat) (c : Char) (hv : v < q)
    (h : (b = 2 ∧ (c = 'b' ∨ c = 'B')) ∨ (b = 8 ∧ (c = 'o' ∨ c = 'O')) ∨ (b = 16 ∧ (c = 'x' ∨ c = 'X'))) :
    setString q ('0' :: c :: text q v b) = .ok v := by
  have hq : 0 < q := by omega
  have hb : b ≠ 10 := by omega
  have ht : text q v b = natText b v := by simp [text, hb]
  rw [ht]
  simp only [setString, parseIntLit_unsigned _ '0' _ rfl (by decide) (by decide), parseNatLit_prefixed b c v h,
    Option.map_some, Int.ofNat_eq_natCast, setBigInt_natCast q hq, Nat.mod_eq_of_lt hv]
example : text 65521 65520 16 = ['f', 'f', 'f', '0'] ∧ setString 65521 ['0', 'x', 'f', 'f', 'f', '0'] = .ok 65520 := by
  decide

/-- `UnmarshalJSON (MarshalJSON z) = z`, number form (≤ 15 characters) and string form, whenever the text passes the
`Bits*3` length guard (it does for the 23 fields: a decimal of `Bits` bits has fewer than `Bits/3+1` digits; K checks) -/
theorem C08_json_roundtrip (q nbits v : Nat) (hv : v < q) (hlen : (marshalJSON q v).length ≤ nbits * 3) :
    unmarshalJSON q nbits (marshalJSON q v) = .ok v := by
  obtain ⟨hne, hnq⟩ := text_shape q v 10 (by omega) (by omega)
  obtain ⟨h1, h2⟩ := unmarshal_strip q nbits (text q v 10) hne hnq
  simp only [marshalJSON] at hlen ⊢
  split
  · rename_i hs
    rw [if_pos hs] at hlen
    rw [h1 hlen, C08_text_roundtrip_dec q v hv]
  · rename_i hs
    rw [if_neg hs] at hlen
    rw [h2 (by simp only [List.length_cons, List.length_append, List.length_nil] at hlen; omega),
      C08_text_roundtrip_dec q v hv]
example : marshalJSON (10 ^ 20) (10 ^ 15) = '"' :: natText 10 (10 ^ 15) ++ ['"'] ∧
    marshalJSON (10 ^ 20) (10 ^ 15 - 1) = natText 10 (10 ^ 15 - 1) := by decide

/-! ## vectors -/

/-- size of the encoding -/
theorem C08_writeTo_length (nb : Nat) (v : List Nat) : (writeTo nb v).length = 4 + v.length * nb := by
  induction v with
  | nil => simp [writeTo]
  | cons x v ih =>
    simp only [writeTo, List.length_append, natToBE_length, List.flatMap_cons, toBytesBE, List.length_cons] at ih ⊢
    rw [Nat.succ_mul]; omega

/-- `ReadFrom (WriteTo v) = v` for EVERY length (0 included) below `2^32`, whatever follows in the stream, and
exactly `4 + len·Bytes` bytes are consumed -/
theorem C08_vector_roundtrip (q nb : Nat) (hq : q ≤ 256 ^ nb) (v : List Nat) (hv : ∀ x ∈ v, x < q)
    (hlen : v.length < 2 ^ 32) (rest : List UInt8) :
    readFrom q nb (writeTo nb v ++ rest) = .ok (v, 4 + v.length * nb) :=
  readFrom_writeTo q nb hq v hv hlen rest
example : readFrom 65521 2 (writeTo 2 [1, 65520, 0] ++ [9]) = .ok ([1, 65520, 0], 10) ∧
    readFrom 65521 2 (writeTo 2 []) = .ok ([], 4) := by decide

/-- strict decoding of a well-framed stream (`len` prefix, then `len` chunks of `Bytes` bytes): success with the chunk
values when ALL of them are below `q`, error as soon as ANY of them is not — whatever its position -/
theorem C08_vector_strict (q nb : Nat) (cs : List (List UInt8)) (hcs : ∀ c ∈ cs, c.length = nb)
    (hlen : cs.length < 2 ^ 32) (rest : List UInt8) :
    readFrom q nb (natToBE 4 cs.length ++ (cs.flatten ++ rest)) =
      if ∀ c ∈ cs, beToNat c < q then .ok (cs.map beToNat, 4 + cs.length * nb) else .error .invalid :=
  readFrom_framed q nb rest cs hcs hlen

theorem C08_vector_rejects_at_index (q nb : Nat) (cs : List (List UInt8)) (hcs : ∀ c ∈ cs, c.length = nb)
    (hlen : cs.length < 2 ^ 32) (rest : List UInt8) (i : Nat) (hi : i < cs.length) (hbad : q ≤ beToNat cs[i]) :
    readFrom q nb (natToBE 4 cs.length ++ (cs.flatten ++ rest)) = .error .invalid ∧
    asyncReadFrom q nb (natToBE 4 cs.length ++ (cs.flatten ++ rest)) ≠
      .ok (cs.map beToNat, 4 + cs.length * nb) := by
  have hno : ¬ ∀ c ∈ cs, beToNat c < q := fun h => by
    have := h cs[i] (List.getElem_mem hi); omega
  have h := C08_vector_strict q nb cs hcs hlen rest
  rw [if_neg hno] at h
  refine ⟨h, fun ha => ?_⟩
  rw [← readFrom_ok_iff_async, h] at ha
  cases ha
example : readFrom 65521 2 (natToBE 4 3 ++ ([[0, 1], [0xff, 0xf1], [0, 2]].flatten ++ [])) = .error .invalid := by decide

/-- the vector reader accepts EXACTLY the encodings `WriteTo` produces for vectors of integers below `q`
(followed by anything: it is a stream reader and reports how much it consumed) -/
theorem C08_vector_accepts_iff (q nb : Nat) (hq : q ≤ 256 ^ nb) (bs : List UInt8) (xs : List Nat) (n : Nat) :
    readFrom q nb bs = .ok (xs, n) ↔
      (∀ x ∈ xs, x < q) ∧ xs.length < 2 ^ 32 ∧ n = 4 + xs.length * nb ∧ ∃ rest, bs = writeTo nb xs ++ rest := by
  constructor
  · exact readFrom_ok_shape q nb bs xs n
  · rintro ⟨h1, h2, rfl, rest, rfl⟩
    exact readFrom_writeTo q nb hq xs h1 h2 rest

/-- truncated input (prefix or payload) is an error -/
theorem C08_vector_short (q nb : Nat) (bs : List UInt8)
    (h : bs.length < 4 ∨ (bs.drop 4).length < beToNat (bs.take 4) * nb) : ∃ e, readFrom q nb bs = .error e := by
  cases hr : readFrom q nb bs with
  | error e => exact ⟨e, rfl⟩
  | ok r =>
    exfalso
    obtain ⟨xs, n⟩ := r
    simp only [readFrom] at hr
    by_cases h4 : bs.length < 4
    · rw [if_pos h4] at hr; cases hr
    · rw [if_neg h4] at hr
      cases hrec : readElems q nb (beToNat (bs.take 4)) (bs.drop 4) with
      | error e => simp only [hrec] at hr; cases hr
      | ok ys =>
        have := ((readElems_ok_iff q nb _ _ _).mp hrec).1
        omega

/-- the asynchronous reader (after waiting on its channel) succeeds on exactly the same inputs, with the same value
and the same consumed count; consequently it errs on exactly the same inputs -/
theorem C08_async_equiv (q nb : Nat) (bs : List UInt8) (r : List Nat × Nat) :
    readFrom q nb bs = .ok r ↔ asyncReadFrom q nb bs = .ok r := readFrom_ok_iff_async q nb bs r

theorem C08_async_equiv_err (q nb : Nat) (bs : List UInt8) :
    (∃ e, readFrom q nb bs = .error e) ↔ (∃ e, asyncReadFrom q nb bs = .error e) := by
  constructor
  · rintro ⟨e, he⟩
    cases ha : asyncReadFrom q nb bs with
    | error e' => exact ⟨e', rfl⟩
    | ok r => rw [← C08_async_equiv, he] at ha; cases ha
  · rintro ⟨e, he⟩
    cases ha : readFrom q nb bs with
    | error e' => exact ⟨e', rfl⟩
    | ok r => rw [C08_async_equiv, he] at ha; cases ha

/-- what the 4-byte length prefix cannot do: a vector of `2^32` or more entries does NOT round-trip
(`WriteTo` silently truncates `len` to `uint32`) — the hypothesis `len < 2^32` of the round trip is necessary -/
theorem C08_vector_len_overflow (q nb : Nat) (v : List Nat) (hlen : 2 ^ 32 ≤ v.length) (rest : List UInt8) (n : Nat) :
    readFrom q nb (writeTo nb v ++ rest) ≠ .ok (v, n) := by
  intro h
  have := (readFrom_ok_shape q nb _ v n h).2.1
  omega

/-! ## limb wiring and the Montgomery boundary -/

/-- the value `Σ z[i]·2^(64·i)` of the limbs that `BigEndian.Element` (resp. `LittleEndian.Element`) loads from a
`Limbs·wb`-byte array (`wb = 8` or `4` bytes per word, any number of words) is the big-endian (resp. little-endian)
value of the array: the per-word wiring of the generated code is the digit function of the model -/
theorem C08_limb_wiring (wb n : Nat) (b : List UInt8) (h : b.length = n * wb) :
    ofLimbs (8 * wb) (limbsOfBE wb n b) = beToNat b ∧ ofLimbs (8 * wb) (limbsOfLE wb n b) = leToNat b :=
  ⟨ofLimbs_limbsOfBE wb n b h, ofLimbs_limbsOfLE wb n b h⟩
example : limbsOfBE 2 2 [1, 2, 3, 4] = [0x0304, 0x0102] ∧ limbsOfLE 2 2 [1, 2, 3, 4] = [0x0201, 0x0403] := by decide

open GV.Field in
/-- on the raw Montgomery residues the line protocol carries (`z < q`): bytes of the regular value, strictly decoded,
converted back to Montgomery form, is `z` again (uses C01's `fromMont ∘ toMont` theorems) -/
theorem C08_raw_roundtrip (p : Params) (h : p.OK) (nb : Nat) (hq : p.q ≤ 256 ^ nb) (z : Nat) (hz : z < p.q) :
    (setBytesCanonical p.q nb (toBytesBE nb (toRegular p z))).map (toMont p) = .ok z ∧
    toMont p (setBytes p.q nb (toBytesBE nb (toRegular p z))) = z ∧
    toMont p (setBigInt p.q (toRegular p z)) = z := by
  have hr : toRegular p z < p.q := (C01_fromMont p h z hz).1
  have hm : toMont p (toRegular p z) = z := (C01_mont_roundtrip p h z hz).2
  refine ⟨?_, ?_, ?_⟩
  · rw [C08_canonical_roundtrip p.q nb _ hq hr]; simp [Except.map, hm]
  · rw [C08_setBytes_roundtrip p.q nb _ hq hr, hm]
  · rw [setBigInt_natCast p.q (by omega), Nat.mod_eq_of_lt hr, hm]

end GV.Conv
