import GnarkVerif.Props.C01_primes
import GnarkVerif.Props.C13_gen_bn254
import GnarkVerif.Props.C13_gen_grumpkin
import GnarkVerif.Props.C13_gen_secp256k1
import GnarkVerif.Props.C13_gen_stark_curve
import GnarkVerif.Props.C13_gen_bls12_381_iso
import GnarkVerif.Props.C13_gen_bls12_377_iso
import GnarkVerif.Props.C13_gen_bls24_315_iso
import GnarkVerif.Props.C13_gen_bls24_317_iso
import GnarkVerif.Props.C13_gen_bw6_761_iso
import GnarkVerif.Props.C13_gen_bw6_633_iso
/-
C13 (tie T), closed instances — written by bin/mkc13gen.py. The theorems of Props/C13_gen_* hold in any field in which the base
modulus vanishes / with `q` elements. Here they are instantiated at `ZMod q`, a field by the primality certificates of
Props/C01_primes (kernel-checked Pratt certificates of the REGENERATED moduli), the limb-level primitives replaced by their
specifications (`limbOr x = if x = 0 then 0 else 1`, `notEqual a b = if a = b then 0 else 1`): no hypothesis on the constants
or on the field is left. These are the non-vacuity witnesses of the C13_gen theorems.
-/
set_option linter.unusedSectionVars false
set_option linter.unusedVariables false

namespace GV.Gen.H2C.bn254
open GV GV.H2CGen
instance instPrimeQ : Fact (Nat.Prime q) := ⟨q_eq ▸ GV.Field.C01_prime_bn254_fp⟩
instance instNeZeroQ : NeZero q := ⟨(Fact.out : Nat.Prime q).ne_zero⟩
/-- C13gen (closed, bn254): over `ZMod q` the translated SvdW map lands on the curve for EVERY `u`, for every pair of
functions meeting the specification of `Legendre` / `Sqrt` (such pairs exist: `legSqrtOK_exists`) -/
theorem C13gen_bn254_svdw_closed (legendre : ZMod q → Int) (sqrt : ZMod q → Option (ZMod q)) (toNat : ZMod q → Nat)
    (hprim : LegSqrtOK legendre sqrt) (u : ZMod q) :
    let p := (MapToCurve1 u ((3 : Nat) : ZMod q) legendre sqrt toNat).1
    p.Y * p.Y = p.X * p.X * p.X + ((3 : Nat) : ZMod q) :=
  C13gen_bn254_svdw_on_curve_finite legendre sqrt toNat _ (ZMod.natCast_self q) rfl hprim u
end GV.Gen.H2C.bn254

namespace GV.Gen.H2C.grumpkin
open GV GV.H2CGen
instance instPrimeQ : Fact (Nat.Prime q) := ⟨q_eq ▸ GV.Field.C01_prime_grumpkin_fp⟩
instance instNeZeroQ : NeZero q := ⟨(Fact.out : Nat.Prime q).ne_zero⟩
/-- C13gen (closed, grumpkin): over `ZMod q` the translated SvdW map lands on the curve for EVERY `u`, for every pair of
functions meeting the specification of `Legendre` / `Sqrt` (such pairs exist: `legSqrtOK_exists`) -/
theorem C13gen_grumpkin_svdw_closed (legendre : ZMod q → Int) (sqrt : ZMod q → Option (ZMod q)) (toNat : ZMod q → Nat)
    (hprim : LegSqrtOK legendre sqrt) (u : ZMod q) :
    let p := (MapToCurve1 u ((21888242871839275222246405745257275088548364400416034343698204186575808495600 : Nat) : ZMod q) legendre sqrt toNat).1
    p.Y * p.Y = p.X * p.X * p.X + ((21888242871839275222246405745257275088548364400416034343698204186575808495600 : Nat) : ZMod q) :=
  C13gen_grumpkin_svdw_on_curve_finite legendre sqrt toNat _ (ZMod.natCast_self q) rfl hprim u
end GV.Gen.H2C.grumpkin

namespace GV.Gen.H2C.secp256k1
open GV GV.H2CGen
instance instPrimeQ : Fact (Nat.Prime q) := ⟨q_eq ▸ GV.Field.C01_prime_secp256k1_fp⟩
instance instNeZeroQ : NeZero q := ⟨(Fact.out : Nat.Prime q).ne_zero⟩
/-- C13gen (closed, secp256k1): over `ZMod q` the translated SvdW map lands on the curve for EVERY `u`, for every pair of
functions meeting the specification of `Legendre` / `Sqrt` (such pairs exist: `legSqrtOK_exists`) -/
theorem C13gen_secp256k1_svdw_closed (legendre : ZMod q → Int) (sqrt : ZMod q → Option (ZMod q)) (toNat : ZMod q → Nat)
    (hprim : LegSqrtOK legendre sqrt) (u : ZMod q) :
    let p := (MapToCurve1 u ((7 : Nat) : ZMod q) legendre sqrt toNat).1
    p.Y * p.Y = p.X * p.X * p.X + ((7 : Nat) : ZMod q) :=
  C13gen_secp256k1_svdw_on_curve_finite legendre sqrt toNat _ (ZMod.natCast_self q) rfl hprim u
end GV.Gen.H2C.secp256k1

namespace GV.Gen.H2C.stark_curve
open GV GV.H2CGen
instance instPrimeQ : Fact (Nat.Prime q) := ⟨q_eq ▸ GV.Field.C01_prime_stark_curve_fp⟩
instance instNeZeroQ : NeZero q := ⟨(Fact.out : Nat.Prime q).ne_zero⟩
/-- C13gen (closed, stark-curve): over `ZMod q` the translated SvdW map lands on the curve for EVERY `u`, for every pair of
functions meeting the specification of `Legendre` / `Sqrt` (such pairs exist: `legSqrtOK_exists`) -/
theorem C13gen_stark_curve_svdw_closed (legendre : ZMod q → Int) (sqrt : ZMod q → Option (ZMod q)) (toNat : ZMod q → Nat)
    (hprim : LegSqrtOK legendre sqrt) (u : ZMod q) :
    let p := (MapToCurve1 u ((3141592653589793238462643383279502884197169399375105820974944592307816406665 : Nat) : ZMod q) legendre sqrt toNat).1
    p.Y * p.Y = p.X * p.X * p.X + p.X + ((3141592653589793238462643383279502884197169399375105820974944592307816406665 : Nat) : ZMod q) :=
  C13gen_stark_curve_svdw_on_curve_finite legendre sqrt toNat _ (ZMod.natCast_self q) rfl hprim u
end GV.Gen.H2C.stark_curve

namespace GV.Gen.H2C.bls12_381
open GV GV.H2CGen
instance instPrimeQ : Fact (Nat.Prime q) := ⟨q_eq ▸ GV.Field.C01_prime_bls12_381_fp⟩
instance instNeZeroQ : NeZero q := ⟨(Fact.out : Nat.Prime q).ne_zero⟩
theorem limbOr_spec (x : ZMod q) : (if x = 0 then 0 else 1 : Nat) = 0 ↔ x = 0 := by by_cases h : x = 0 <;> simp [h]
theorem notEqual_spec (a b : ZMod q) : (if a = b then 0 else 1 : Nat) = 0 ↔ a = b := by by_cases h : a = b <;> simp [h]
/-- C13gen (closed, bls12-381): over `ZMod q` the translated SSWU map (with the translated `G1SqrtRatio`) lands on the
isogenous curve for EVERY `u`; nothing is assumed -/
theorem C13gen_bls12_381_sswu_closed (toNat : ZMod q → Nat) (u : ZMod q) :
    let p := (MapToCurve1 u toNat (fun a b => if a = b then 0 else 1) (fun x => if x = 0 then 0 else 1)).1
    p.Y * p.Y = p.X * p.X * p.X + A * p.X + B :=
  C13gen_bls12_381_sswu_on_curve_finite toNat _ _ (ZMod.card q) limbOr_spec notEqual_spec u
/-- C13gen (closed, bls12-381): over `ZMod q` the translated isogeny maps the isogenous curve into `y² = x³ + b` -/
theorem C13gen_bls12_381_isogeny_closed (x y : ZMod q) (hxy : y * y = x * x * x + A * x + B)
    (hXD : isoXDen x ≠ 0) (hYD : isoYDen x ≠ 0) :
    let r := G1Isogeny x y
    r.2 * r.2 = r.1 * r.1 * r.1 + ((4 : Nat) : ZMod q) :=
  C13gen_bls12_381_isogeny _ (ZMod.natCast_self q) rfl x y hxy hXD hYD
end GV.Gen.H2C.bls12_381

namespace GV.Gen.H2C.bls12_377
open GV GV.H2CGen
instance instPrimeQ : Fact (Nat.Prime q) := ⟨q_eq ▸ GV.Field.C01_prime_bls12_377_fp⟩
instance instNeZeroQ : NeZero q := ⟨(Fact.out : Nat.Prime q).ne_zero⟩
theorem limbOr_spec (x : ZMod q) : (if x = 0 then 0 else 1 : Nat) = 0 ↔ x = 0 := by by_cases h : x = 0 <;> simp [h]
theorem notEqual_spec (a b : ZMod q) : (if a = b then 0 else 1 : Nat) = 0 ↔ a = b := by by_cases h : a = b <;> simp [h]
/-- C13gen (closed, bls12-377): over `ZMod q` the translated SSWU map lands on the isogenous curve for every NON-exceptional
`u` (the constant Z of this curve violates criterion 4: see Props/C13_gen_bls12_377.lean), given the specification of `G1SqrtRatio` -/
theorem C13gen_bls12_377_sswu_closed (toNat : ZMod q → Nat) (hsr : SqrtRatioOK (F := ZMod q) (fun a b => if a = b then 0 else 1))
    (u : ZMod q) (hu : Z * (u * u) * (Z * (u * u)) + Z * (u * u) ≠ (0 : ZMod q)) :
    let p := (MapToCurve1 u toNat (fun a b => if a = b then 0 else 1) (fun x => if x = 0 then 0 else 1)).1
    p.Y * p.Y = p.X * p.X * p.X + A * p.X + B :=
  C13gen_bls12_377_sswu_on_curve_nonexceptional toNat _ _ (ZMod.natCast_self q) limbOr_spec hsr u hu
/-- C13gen (closed, bls12-377): over `ZMod q` the translated isogeny maps the isogenous curve into `y² = x³ + b` -/
theorem C13gen_bls12_377_isogeny_closed (x y : ZMod q) (hxy : y * y = x * x * x + A * x + B)
    (hXD : isoXDen x ≠ 0) (hYD : isoYDen x ≠ 0) :
    let r := G1Isogeny x y
    r.2 * r.2 = r.1 * r.1 * r.1 + ((1 : Nat) : ZMod q) :=
  C13gen_bls12_377_isogeny _ (ZMod.natCast_self q) rfl x y hxy hXD hYD
end GV.Gen.H2C.bls12_377

namespace GV.Gen.H2C.bls24_315
open GV GV.H2CGen
instance instPrimeQ : Fact (Nat.Prime q) := ⟨q_eq ▸ GV.Field.C01_prime_bls24_315_fp⟩
instance instNeZeroQ : NeZero q := ⟨(Fact.out : Nat.Prime q).ne_zero⟩
theorem limbOr_spec (x : ZMod q) : (if x = 0 then 0 else 1 : Nat) = 0 ↔ x = 0 := by by_cases h : x = 0 <;> simp [h]
theorem notEqual_spec (a b : ZMod q) : (if a = b then 0 else 1 : Nat) = 0 ↔ a = b := by by_cases h : a = b <;> simp [h]
/-- C13gen (closed, bls24-315): over `ZMod q` the translated SSWU map lands on the isogenous curve for EVERY `u`, given the
specification of the (generic, loop-based) `G1SqrtRatio` -/
theorem C13gen_bls24_315_sswu_closed (toNat : ZMod q → Nat) (hsr : SqrtRatioOK (F := ZMod q) (fun a b => if a = b then 0 else 1))
    (u : ZMod q) :
    let p := (MapToCurve1 u toNat (fun a b => if a = b then 0 else 1) (fun x => if x = 0 then 0 else 1)).1
    p.Y * p.Y = p.X * p.X * p.X + A * p.X + B :=
  C13gen_bls24_315_sswu_on_curve_consts toNat _ _ (ZMod.natCast_self q) limbOr_spec hsr u
/-- C13gen (closed, bls24-315): over `ZMod q` the translated isogeny maps the isogenous curve into `y² = x³ + b` -/
theorem C13gen_bls24_315_isogeny_closed (x y : ZMod q) (hxy : y * y = x * x * x + A * x + B)
    (hXD : isoXDen x ≠ 0) (hYD : isoYDen x ≠ 0) :
    let r := G1Isogeny x y
    r.2 * r.2 = r.1 * r.1 * r.1 + ((1 : Nat) : ZMod q) :=
  C13gen_bls24_315_isogeny _ (ZMod.natCast_self q) rfl x y hxy hXD hYD
end GV.Gen.H2C.bls24_315

namespace GV.Gen.H2C.bls24_317
open GV GV.H2CGen
instance instPrimeQ : Fact (Nat.Prime q) := ⟨q_eq ▸ GV.Field.C01_prime_bls24_317_fp⟩
instance instNeZeroQ : NeZero q := ⟨(Fact.out : Nat.Prime q).ne_zero⟩
theorem limbOr_spec (x : ZMod q) : (if x = 0 then 0 else 1 : Nat) = 0 ↔ x = 0 := by by_cases h : x = 0 <;> simp [h]
theorem notEqual_spec (a b : ZMod q) : (if a = b then 0 else 1 : Nat) = 0 ↔ a = b := by by_cases h : a = b <;> simp [h]
/-- C13gen (closed, bls24-317): over `ZMod q` the translated SSWU map (with the translated `G1SqrtRatio`) lands on the
isogenous curve for EVERY `u`; nothing is assumed -/
theorem C13gen_bls24_317_sswu_closed (toNat : ZMod q → Nat) (u : ZMod q) :
    let p := (MapToCurve1 u toNat (fun a b => if a = b then 0 else 1) (fun x => if x = 0 then 0 else 1)).1
    p.Y * p.Y = p.X * p.X * p.X + A * p.X + B :=
  C13gen_bls24_317_sswu_on_curve_finite toNat _ _ (ZMod.card q) limbOr_spec notEqual_spec u
/-- C13gen (closed, bls24-317): over `ZMod q` the translated isogeny maps the isogenous curve into `y² = x³ + b` -/
theorem C13gen_bls24_317_isogeny_closed (x y : ZMod q) (hxy : y * y = x * x * x + A * x + B)
    (hXD : isoXDen x ≠ 0) (hYD : isoYDen x ≠ 0) :
    let r := G1Isogeny x y
    r.2 * r.2 = r.1 * r.1 * r.1 + ((4 : Nat) : ZMod q) :=
  C13gen_bls24_317_isogeny _ (ZMod.natCast_self q) rfl x y hxy hXD hYD
end GV.Gen.H2C.bls24_317

namespace GV.Gen.H2C.bw6_761
open GV GV.H2CGen
instance instPrimeQ : Fact (Nat.Prime q) := ⟨q_eq ▸ GV.Field.C01_prime_bw6_761_fp⟩
instance instNeZeroQ : NeZero q := ⟨(Fact.out : Nat.Prime q).ne_zero⟩
theorem limbOr_spec (x : ZMod q) : (if x = 0 then 0 else 1 : Nat) = 0 ↔ x = 0 := by by_cases h : x = 0 <;> simp [h]
theorem notEqual_spec (a b : ZMod q) : (if a = b then 0 else 1 : Nat) = 0 ↔ a = b := by by_cases h : a = b <;> simp [h]
/-- C13gen (closed, bw6-761): over `ZMod q` the translated SSWU map lands on the isogenous curve for every NON-exceptional
`u` (the constant Z of this curve violates criterion 4: see Props/C13_gen_bw6_761.lean), given the specification of `G1SqrtRatio` -/
theorem C13gen_bw6_761_sswu_closed (toNat : ZMod q → Nat) (hsr : SqrtRatioOK (F := ZMod q) (fun a b => if a = b then 0 else 1))
    (u : ZMod q) (hu : Z * (u * u) * (Z * (u * u)) + Z * (u * u) ≠ (0 : ZMod q)) :
    let p := (MapToCurve1 u toNat (fun a b => if a = b then 0 else 1) (fun x => if x = 0 then 0 else 1)).1
    p.Y * p.Y = p.X * p.X * p.X + A * p.X + B :=
  C13gen_bw6_761_sswu_on_curve_nonexceptional toNat _ _ (ZMod.natCast_self q) limbOr_spec hsr u hu
/-- C13gen (closed, bw6-761): over `ZMod q` the translated isogeny maps the isogenous curve into `y² = x³ + b` -/
theorem C13gen_bw6_761_isogeny_closed (x y : ZMod q) (hxy : y * y = x * x * x + A * x + B)
    (hXD : isoXDen x ≠ 0) (hYD : isoYDen x ≠ 0) :
    let r := G1Isogeny x y
    r.2 * r.2 = r.1 * r.1 * r.1 + ((6891450384315732539396789682275657542479668912536150109513790160209623422243491736087683183289411687640864567753786613451161759120554247759349511699125301598951605099378508850372543631423596795951899700429969112842764913119068298 : Nat) : ZMod q) :=
  C13gen_bw6_761_isogeny _ (ZMod.natCast_self q) rfl x y hxy hXD hYD
end GV.Gen.H2C.bw6_761
